(* Syntax/Parser.v — the recursive descent of expressions/parser/mod.rs over tokens.

   One function per grammar level, in the order of the Rust file:
     parse_expr    -> [p_bin 5]  (Compare)      parse_concat -> [p_bin 4]  (&)
     parse_term    -> [p_bin 3]  (+ -)          parse_factor -> [p_bin 2]  ( * / )
     parse_prod    -> [p_bin 1]  (^)            parse_power  -> [p_power]  (prefix signs, postfix %)
     parse_range   -> [p_range]  (:)            parse_implicit -> [p_implicit] (@, #)
     parse_primary -> [p_primary]
   The five binary levels of the Rust code are five copies of one loop
   ("operand; while next is an operator of my class: operand; fold left"); here they are one
   function [p_bin lv] indexed by the level, with [binop_at lv] the operator class.
   [lexer.peek_token()/advance_token()] is matching on the head of the token list, EOF is [].
   Every [while] loop is a fixpoint on fuel; the recursion through parentheses / arguments is
   open ([rec]), closed by [p_expr] on fuel. [None] = ParseErrorKind, or out of fuel (the
   theorems give a fuel bound under which that cannot happen).
   The result of [Parser::parse] is the tree alone: trailing tokens are silently ignored by
   the implementation, so [parse] returns them for the theorems to say there are none.
   No proofs in this file (Syntax/RoundTrip.v). *)
From IronCalc Require Import Base.Prelude Codec.RefA1 Syntax.Token Syntax.Ast Syntax.Printer.

(* what the parser knows about the workbook *)
Record penv := {
  pe_sheets : list text;                         (* worksheets, in order *)
  pe_ctx_sheet : text;                           (* context.sheet *)
  pe_defnames : list (text * option Z * text);   (* defined names: name, scope, formula *)
  pe_tables : list text;                         (* table names *)
}.

Definition presult := option (ast * list token).

(* ---- string helpers ------------------------------------------------------------------- *)
Fixpoint strip_prefix (p s : text) : option text :=
  match p with
  | [] => Some s
  | a :: p' => match s with b :: s' => if a =? b then strip_prefix p' s' else None | [] => None end
  end.

(* str::trim_start_matches(prefix) for a non-empty prefix *)
Fixpoint trim_start_fuel (f : nat) (p s : text) : text :=
  match f with
  | O => s
  | S f' => match strip_prefix p s with Some s' => trim_start_fuel f' p s' | None => s end
  end.
Definition trim_start (p s : text) : text := trim_start_fuel (length s) p s.

Fixpoint index_of (name : text) (l : list text) (i : Z) : option Z :=
  match l with
  | [] => None
  | x :: r => if text_eqb x name then Some i else index_of name r (i + 1)
  end.

(* ---- binary operators ---------------------------------------------------------------- *)
Inductive binop := BPow | BProd (op : prod_op) | BSum (op : sum_op) | BConcat | BCmp (op : cmp_op).

(* the operator class a level's loop continues on *)
Definition binop_at (lv : nat) (t : token) : option binop :=
  match lv, t with
  | 1%nat, TPower => Some BPow
  | 2%nat, TProduct op => Some (BProd op)
  | 3%nat, TAddition op => Some (BSum op)
  | 4%nat, TAnd => Some BConcat
  | 5%nat, TCompare op => Some (BCmp op)
  | _, _ => None
  end.

Definition mk_bin (b : binop) (l r : ast) : ast :=
  match b with
  | BPow => EPow l r
  | BProd op => EProd op l r
  | BSum op => ESum op l r
  | BConcat => EConcat l r
  | BCmp op => ECmp op l r
  end.

(* parse_power: "while let Addition(op) = next { if op == Minus { sign = -sign } }" *)
Fixpoint skip_signs (neg : bool) (ts : list token) : bool * list token :=
  match ts with
  | TAddition op :: r => skip_signs (match op with SMinus => negb neg | SAdd => neg end) r
  | _ => (neg, ts)
  end.

(* parse_power: "while next == Percent { t = Unary(Percentage, t) }" *)
Fixpoint percents (t : ast) (ts : list token) : ast * list token :=
  match ts with
  | TPercent :: r => percents (EPct t) r
  | _ => (t, ts)
  end.

Section Parser.
  Variable m : pmode.
  Variable nm : names.
  Variable env : penv.

  Definition parse_arg_sep : sep := if pm_dot m then SepComma else SepSemicolon.     (* get_argument_separator_token *)
  Definition parse_row_sep : sep := if pm_dot m then SepSemicolon else SepBackslash. (* get_column_separator_token *)

  Definition sheet_index (s : option text) : option Z :=
    index_of (match s with Some n => n | None => pe_ctx_sheet env end) (pe_sheets env) 0.

  (* Reference token -> stored coordinates: "if absolute || !a1_mode { row } else { row - context.row }" *)
  Definition parse_pref (p : pref) : pref :=
    if pm_rc m then p else
    {| p_row := if p_abs_row p then p_row p else p_row p - pm_row m;
       p_col := if p_abs_col p then p_col p else p_col p - pm_col m;
       p_abs_col := p_abs_col p; p_abs_row := p_abs_row p |}.

  (* Range token: in A1 mode the corners are put in order first (rows and columns separately,
     each with its absolute flag), then made relative *)
  Definition parse_range_prefs (l r : pref) : pref * pref :=
    if pm_rc m then (l, r) else
    let '(row1, ar1, row2, ar2) :=
      if p_row r <? p_row l then (p_row r, p_abs_row r, p_row l, p_abs_row l)
      else (p_row l, p_abs_row l, p_row r, p_abs_row r) in
    let '(col1, ac1, col2, ac2) :=
      if p_col r <? p_col l then (p_col r, p_abs_col r, p_col l, p_abs_col l)
      else (p_col l, p_abs_col l, p_col r, p_abs_col r) in
    (parse_pref {| p_row := row1; p_col := col1; p_abs_col := ac1; p_abs_row := ar1 |},
     parse_pref {| p_row := row2; p_col := col2; p_abs_col := ac2; p_abs_row := ar2 |}).

  (* get_defined_name: first a name local to the context sheet, then a global one *)
  Fixpoint find_defname (pred : option Z -> bool) (lname : text) (l : list (text * option Z * text))
    : option (option Z * text) :=
    match l with
    | [] => None
    | (n, sc, f) :: r =>
      if text_eqb (nm_lower nm n) lname && pred sc then Some (sc, f) else find_defname pred lname r
    end.
  Definition get_defined_name (name : text) (sheet : Z) : option (option Z * text) :=
    let ln := nm_lower nm name in
    match find_defname (fun sc => match sc with Some i => i =? sheet | None => false end) ln (pe_defnames env) with
    | Some x => Some x
    | None => find_defname (fun sc => match sc with None => true | Some _ => false end) ln (pe_defnames env)
    end.
  Definition is_table (name : text) : bool :=
    existsb (fun t => text_eqb (nm_lower nm t) (nm_lower nm name)) (pe_tables env).

  (* array element: the result of parse_expr must be a literal (or minus a number) *)
  Definition to_aelem (e : ast) : option aelem :=
    match e with
    | EBool b => Some (ABool b)
    | ENum n => Some (ANum false n)
    | EStr s => Some (AStr s)
    | EErr k => Some (AErr k)
    | ENeg (ENum n) => Some (ANum true n)
    | _ => None
    end.

  Section Levels.
    (* parse_expr one parenthesis level further down *)
    Variable rec : list token -> presult.

    (* parse_function_args: called after "(", stops in front of ")" *)
    Fixpoint args_loop (f : nat) (acc : list ast) (ts : list token) : option (list ast * list token) :=
      match f with
      | O => None
      | S f' =>
        match ts with
        | t :: r =>
          if is_sep parse_arg_sep t then
            match r with
            | t2 :: _ =>
              if is_sep parse_arg_sep t2 then args_loop f' (acc ++ [EEmpty]) r
              else if is_rparen t2 then Some (acc ++ [EEmpty], r)
              else match rec r with
                   | Some (p, r') => args_loop f' (acc ++ [p]) r'
                   | None => None
                   end
            | [] => match rec r with
                    | Some (p, r') => args_loop f' (acc ++ [p]) r'
                    | None => None
                    end
            end
          else Some (acc, ts)
        | [] => Some (acc, ts)
        end
      end.

    Definition parse_function_args (f : nat) (ts : list token) : option (list ast * list token) :=
      match ts with
      | TRParen :: _ => Some ([], ts)
      | t :: _ =>
        if is_sep parse_arg_sep t then args_loop f [EEmpty] ts
        else match rec ts with
             | Some (e, r) => args_loop f [e] r
             | None => None
             end
      | [] => match rec ts with
              | Some (e, r) => args_loop f [e] r
              | None => None
              end
      end.

    (* "args ; expect(RightParenthesis)" *)
    Definition args_then_rparen (f : nat) (ts : list token) : option (list ast * list token) :=
      match parse_function_args f ts with
      | Some (args, TRParen :: r) => Some (args, r)
      | _ => None
      end.

    (* parse_array_row *)
    Fixpoint row_loop (f : nat) (acc : list aelem) (ts : list token) : option (list aelem * list token) :=
      match f with
      | O => None
      | S f' =>
        match ts with
        | t :: r =>
          if is_sep parse_arg_sep t then
            match rec r with
            | Some (e, r') => match to_aelem e with Some a => row_loop f' (acc ++ [a]) r' | None => None end
            | None => None
            end
          else Some (acc, ts)
        | [] => Some (acc, ts)
        end
      end.
    Definition parse_array_row (f : nat) (ts : list token) : option (list aelem * list token) :=
      match rec ts with
      | Some (e, r) => match to_aelem e with Some a => row_loop f [a] r | None => None end
      | None => None
      end.

    (* the rows after the first: each must have the length of the first *)
    Fixpoint rows_loop (f : nat) (len : nat) (acc : list (list aelem)) (ts : list token)
      : option (list (list aelem) * list token) :=
      match f with
      | O => None
      | S f' =>
        match ts with
        | t :: r =>
          if is_sep parse_row_sep t then
            match parse_array_row f' r with
            | Some (row, r') => if Nat.eqb (length row) len then rows_loop f' len (acc ++ [row]) r' else None
            | None => None
            end
          else Some (acc, ts)
        | [] => Some (acc, ts)
        end
      end.

    (* parse_lambda, after "LAMBDA(" *)
    Fixpoint lambda_loop (f : nat) (ps : list lparam) (ts : list token) : option (list lparam * ast * list token) :=
      match f with
      | O => None
      | S f' =>
        let '(br, ts1) := match ts with TLBracket :: r => (true, r) | _ => (false, ts) end in
        match rec ts1 with
        | None => None
        | Some (e, r) =>
          let after := if br then match r with TRBracket :: r' => Some r' | _ => None end else Some r in
          match after with
          | None => None
          | Some (t :: r2) =>
            if is_sep parse_arg_sep t then
              match e with
              | EVar name id =>
                match strip_prefix t_xlop name with
                | Some clean => lambda_loop f' (ps ++ [{| lp_name := clean; lp_id := id; lp_opt := true |}]) r2
                | None => lambda_loop f' (ps ++ [{| lp_name := name; lp_id := id; lp_opt := br |}]) r2
                end
              | _ => None
              end
            else if is_rparen t then Some (ps, e, r2)
            else None
          | Some [] => None
          end
        end
      end.

    Definition parse_lambda (f : nat) (ts : list token) : presult :=
      match ts with
      | TRParen :: _ => None
      | _ =>
        match lambda_loop f [] ts with
        | Some (ps, body, TLParen :: r) =>
          match args_then_rparen f r with
          | Some (args, r') => Some (ELambdaCall (ELambdaDef ps body) args, r')
          | None => None
          end
        | Some (ps, body, r) => Some (ELambdaDef ps body, r)
        | None => None
        end
      end.

    (* the Ident arm of parse_primary when "(" follows *)
    Definition parse_call (f : nat) (name : text) (r : list token) : presult :=
      if text_eqb name t_xlfn_lambda || text_eqb (nm_upper nm name) t_lambda then parse_lambda f r
      else
        match args_then_rparen f r with
        | None => None
        | Some (args, r') =>
          if text_eqb name t_xlfn_single then
            match args with [a] => Some (EAt false a, r') | _ => None end
          else if text_eqb name t_xlfn_anchor then
            match args with [a] => Some (ESpill a, r') | _ => None end
          else
            match fn_lookup nm (trim_start (t_xlfn ++ t_xlws) name) with
            | Some k => Some (EFun k args, r')
            | None =>
              match fn_lookup nm (trim_start t_xlfn name) with
              | Some k => Some (EFun k args, r')
              | None => Some (ENamedFun None (trim_start t_xlpm name) args, r')
              end
            end
        end.

    Definition p_primary (f : nat) (ts : list token) : presult :=
      match ts with
      | TLParen :: r =>
        match rec r with
        | Some (e, TRParen :: r') => Some (e, r')
        | _ => None
        end
      | TNumber n :: r => Some (ENum n, r)
      | TString s :: r => Some (EStr s, r)
      | TLBrace :: r =>
        match parse_array_row f r with
        | Some (row, r1) =>
          match rows_loop f (length row) [row] r1 with
          | Some (rows, TRBrace :: r2) => Some (EArray rows, r2)
          | _ => None
          end
        | None => None
        end
      | TReference s p :: r => Some (ERef s (sheet_index s) (parse_pref p), r)
      | TRange s p q :: r => let (p', q') := parse_range_prefs p q in Some (ERange s (sheet_index s) p' q', r)
      | TIdent name :: r =>
        match r with
        | TLParen :: r1 => parse_call f name r1
        | _ =>
          match sheet_index None with
          | None => None
          | Some ci =>
            match get_defined_name name ci with
            | Some (sc, fo) => Some (EDefName name sc fo, r)
            | None =>
              if is_table name then Some (ETable name, r)
              else Some (EVar (trim_start t_xlpm name) None, r)
            end
          end
        end
      | TError k :: r => Some (EErr k, r)
      | TBoolean b :: r =>
        match r with
        | TLParen :: r1 =>
          match args_then_rparen f r1 with
          | Some (args, r') => Some (EFun (if b then fn_true nm else fn_false nm) args, r')
          | None => None
          end
        | _ => Some (EBool b, r)
        end
      | _ => None
      end.

    Definition p_implicit (f : nat) (ts : list token) : presult :=
      match ts with
      | TAt :: r =>
        match p_primary f r with
        | Some (t, r') => Some (EAt false t, r')
        | None => None
        end
      | _ =>
        match p_primary f ts with
        | Some (t, TSpill :: r') => Some (ESpill t, r')
        | x => x
        end
      end.

    Definition p_range (f : nat) (ts : list token) : presult :=
      match p_implicit f ts with
      | Some (t, TColon :: r) =>
        match p_primary f r with
        | Some (p, r') => Some (ERangeOp t p, r')
        | None => None
        end
      | x => x
      end.

    Definition p_power (f : nat) (ts : list token) : presult :=
      let (neg, r) := skip_signs false ts in
      match p_range f r with
      | Some (t, r') => Some (percents (if neg then ENeg t else t) r')
      | None => None
      end.

    (* "while let <operator of class lv> = next { advance; p = sub(); t = mk(t, p) }" *)
    Fixpoint loop_bin (sub : list token -> presult) (lv : nat) (f : nat) (t : ast) (ts : list token) : presult :=
      match f with
      | O => None
      | S f' =>
        match ts with
        | tk :: r =>
          match binop_at lv tk with
          | Some b =>
            match sub r with
            | Some (p, r') => loop_bin sub lv f' (mk_bin b t p) r'
            | None => None
            end
          | None => Some (t, ts)
          end
        | [] => Some (t, ts)
        end
      end.

    Fixpoint p_bin (lv : nat) (f : nat) (ts : list token) : presult :=
      match lv with
      | O => p_power f ts
      | S lv' =>
        match p_bin lv' f ts with
        | Some (t, r) => loop_bin (p_bin lv' f) lv f t r
        | None => None
        end
      end.
  End Levels.

  (* the named levels of the Rust file *)
  Definition parse_prod rec := p_bin rec 1.
  Definition parse_factor rec := p_bin rec 2.
  Definition parse_term rec := p_bin rec 3.
  Definition parse_concat rec := p_bin rec 4.
  Definition parse_expr_level rec := p_bin rec 5.

  Fixpoint p_expr (f : nat) (ts : list token) : presult :=
    match f with
    | O => None
    | S f' => p_bin (p_expr f') 5 f' ts
    end.

  Definition parse_fuel (f : nat) (ts : list token) : presult := p_expr f ts.
  (* more fuel than any token list can use: every loop iteration and every nesting level
     consumes at least one token, except empty arguments which consume a separator each *)
  Definition parse (ts : list token) : presult := p_expr (2 * length ts + 3) ts.
End Parser.
