(* Syntax/LexerSafeProofs.v — index safety of the lexer cursor model: no reachable [Panic]
   and the cursor invariant, for every input text and every instantiation of the decision
   oracles (character classes, number parsing, reserved names, language data). *)
From IronCalc Require Import Base.Prelude Base.Dec Codec.Column Codec.RefA1 Codec.RefRC Syntax.LexerSafe.

Section Safe.
  Variable chars : list Z.
  Variables (alpha alnum wsp : Z -> bool).
  Variable decimal : Z.
  Variable errnames : list text.
  Variables (is_true is_false : text -> bool).
  Variable f64_ok : text -> bool.
  Variable i32_of : text -> option Z.
  Variable col_ok : text -> bool.
  Variable ref_a1 : text -> bool.
  Variable col_colon : text -> bool.
  Variables (valid_a1_ident valid_ident : text -> bool).
  Variable a1 : bool.
  (* language data: no error name is empty (`name.chars().count() - 1` is a usize subtraction) *)
  Hypothesis errnames_nonempty : Forall (fun n => n <> []) errnames.

  Notation L := (len chars).

  Lemma len_nonneg : 0 <= L.
  Proof. unfold len. lia. Qed.

  (* the cursor postcondition: in range, and either not before the start or exactly at len
     (every set_error moves the cursor to len) *)
  Definition post (p q : Z) : Prop := 0 <= q <= L + 1 /\ (p <= q \/ q = L).

  Definition okz (p : Z) (r : outcome Z) : Prop :=
    match r with Ok q => post p q | Err => True | Panic => False end.
  Definition okp {A} (p : Z) (r : outcome (A * Z)) : Prop :=
    match r with Ok (_, q) => post p q | Err => True | Panic => False end.

  Lemma post_refl p : 0 <= p <= L + 1 -> post p p.
  Proof. unfold post; lia. Qed.
  Lemma post_len p : post p L.
  Proof. pose proof len_nonneg. unfold post; lia. Qed.
  Lemma post_trans p q r : 0 <= p <= L + 1 -> post p q -> post q r -> post p r.
  Proof. unfold post; lia. Qed.
  Lemma post_weaken p p' q : p' <= p -> post p q -> post p' q.
  Proof. unfold post; lia. Qed.

  Lemma get_ok p : 0 <= p < L -> exists c, get chars p = Ok c.
  Proof.
    intros H. unfold get.
    destruct (0 <=? p) eqn:E1; [|apply Z.leb_gt in E1; lia].
    destruct (p <? L) eqn:E2; [|apply Z.ltb_ge in E2; lia].
    cbn [andb]. eexists; reflexivity.
  Qed.

  Lemma sub1_ok p : 1 <= p -> sub1 p = Ok (p - 1).
  Proof. intros H. unfold sub1. destruct (1 <=? p) eqn:E; [reflexivity|apply Z.leb_gt in E; lia]. Qed.

  Lemma slice_ok a b : 0 <= a <= b -> b <= L -> exists t, slice chars a b = Ok t.
  Proof.
    intros H1 H2. unfold slice.
    destruct (0 <=? a) eqn:E1; [|apply Z.leb_gt in E1; lia].
    destruct (a <=? b) eqn:E2; [|apply Z.leb_gt in E2; lia].
    destruct (b <=? L) eqn:E3; [|apply Z.leb_gt in E3; lia].
    cbn [andb]. eexists; reflexivity.
  Qed.

  Lemma peek_ok p : 0 <= p -> exists o, peek chars p = Ok o /\ (o <> None -> p < L).
  Proof.
    intros H. unfold peek. destruct (p <? L) eqn:E.
    - apply Z.ltb_lt in E. destruct (get_ok p) as [c Hc]; [lia|]. rewrite Hc. cbn [obind].
      eexists; split; [reflexivity|]. intros _; exact E.
    - eexists; split; [reflexivity|]. congruence.
  Qed.

  Lemma peek_is_ok p c : 0 <= p -> exists b, peek_is chars p c = Ok b /\ (b = true -> p < L).
  Proof.
    intros H. unfold peek_is. destruct (peek_ok p H) as [o [Ho Hl]]. rewrite Ho. cbn [obind].
    eexists; split; [reflexivity|]. destruct o; [intros _; apply Hl; congruence|discriminate].
  Qed.

  (* scan: never panics from a non-negative cursor; the cursor only moves forward, never past len
     unless it started there *)
  Lemma scan_ok pred n p :
    0 <= p -> match scan chars pred n p with
              | Ok q => p <= q /\ (q <= L \/ q = p)
              | Err => True
              | Panic => False
              end.
  Proof.
    revert p; induction n as [|n IH]; intros p Hp; cbn [scan].
    - destruct (p <? L); [exact I|lia].
    - destruct (p <? L) eqn:E; [|lia].
      apply Z.ltb_lt in E. destruct (get_ok p) as [c Hc]; [lia|]. rewrite Hc. cbn [obind].
      destruct (pred c); [|lia].
      specialize (IH (p + 1)). destruct (scan chars pred n (p + 1)); auto; lia.
  Qed.

  Lemma scan_post pred n p : 0 <= p <= L + 1 -> okz p (scan chars pred n p).
  Proof.
    intros H. pose proof (scan_ok pred n p) as S. unfold okz, post.
    destruct (scan chars pred n p); auto; [lia|apply S; lia].
  Qed.

  (* sequencing lemmas *)
  Lemma okz_bind_z p (o : outcome Z) (f : Z -> outcome Z) :
    0 <= p <= L + 1 -> okz p o -> (forall q, post p q -> okz q (f q)) -> okz p (obind o f).
  Proof.
    intros Hp Ho Hf. destruct o as [q| |]; cbn [obind okz] in *; auto.
    specialize (Hf q Ho). destruct (f q); cbn [okz] in *; auto.
    eapply post_trans; eassumption.
  Qed.

  Lemma okp_bind_z {B} p (o : outcome Z) (f : Z -> outcome (B * Z)) :
    0 <= p <= L + 1 -> okz p o -> (forall q, post p q -> okp q (f q)) -> okp p (obind o f).
  Proof.
    intros Hp Ho Hf. destruct o as [q| |]; cbn [obind okz] in *; auto.
    specialize (Hf q Ho). destruct (f q) as [[b r]| |]; cbn [okp] in *; auto.
    eapply post_trans; eassumption.
  Qed.

  Lemma okp_bind_p {A B} p (o : outcome (A * Z)) (f : A * Z -> outcome (B * Z)) :
    0 <= p <= L + 1 -> okp p o -> (forall a q, post p q -> okp q (f (a, q))) -> okp p (obind o f).
  Proof.
    intros Hp Ho Hf. destruct o as [[a q]| |]; cbn [obind okp] in *; auto.
    specialize (Hf a q Ho). destruct (f (a, q)) as [[b r]| |]; cbn [okp] in *; auto.
    eapply post_trans; eassumption.
  Qed.

  Lemma post_range p q : post p q -> 0 <= q <= L + 1.
  Proof. unfold post; tauto. Qed.

  (* ---- the non-recursive consumers ---- *)

  Lemma consume_whitespace_post p : 0 <= p <= L + 1 -> okz p (consume_whitespace chars wsp p).
  Proof. apply scan_post. Qed.

  Lemma consume_integer_post first p :
    0 <= p <= L + 1 -> okp p (consume_integer chars i32_of first p).
  Proof.
    intros H. unfold consume_integer.
    pose proof (scan_post is_digit (N chars) p H) as S.
    destruct (scan chars is_digit (N chars) p); cbn [obind okz okp] in *; auto.
  Qed.

  Lemma opt_dollar_post p : 0 <= p <= L + 1 -> okz p (opt_dollar chars p).
  Proof.
    intros H. unfold opt_dollar. destruct (p <? L) eqn:E.
    - apply Z.ltb_lt in E. destruct (get_ok p) as [c Hc]; [lia|]. rewrite Hc. cbn [obind okz].
      destruct (c =? 36); unfold post; lia.
    - cbn [okz]. apply post_refl; exact H.
  Qed.

  Lemma consume_number_post first p :
    0 <= p <= L + 1 -> okp p (consume_number chars decimal f64_ok first p).
  Proof.
    intros H. unfold consume_number.
    pose proof (scan_ok is_digit (N chars) p) as S1.
    destruct (scan chars is_digit (N chars) p) as [p1| |]; cbn [obind okp]; auto; [|apply S1; lia].
    assert (H1 : p <= p1 /\ (p1 <= L \/ p1 = p)) by (apply S1; lia). clear S1.
    (* decimal part *)
    set (t1 := first :: sub chars p p1).
    assert (D : match (if p1 <? L
                       then obind (get chars p1) (fun c =>
                            if c =? decimal
                            then obind (scan chars is_digit (N chars) (p1 + 1)) (fun p2 => Ok (t1 ++ 46 :: sub chars (p1 + 1) p2, p2))
                            else Ok (t1, p1))
                       else Ok (t1, p1)) with
                | Ok (_, p2) => p1 <= p2 /\ (p2 <= L \/ p2 = p1)
                | Err => True
                | Panic => False
                end).
    { destruct (p1 <? L) eqn:E; [|lia].
      apply Z.ltb_lt in E. destruct (get_ok p1) as [c Hc]; [lia|]. rewrite Hc. cbn [obind].
      destruct (c =? decimal); [|lia].
      pose proof (scan_ok is_digit (N chars) (p1 + 1)) as S2.
      destruct (scan chars is_digit (N chars) (p1 + 1)); cbn [obind]; auto; [|apply S2; lia].
      assert (p1 + 1 <= a /\ (a <= L \/ a = p1 + 1)) by (apply S2; lia). lia. }
    match type of D with match ?e with _ => _ end => destruct e as [[t2 p2]| |] end; cbn [obind]; auto.
    assert (E3 : match (if p2 + 1 <? L
                        then obind (get chars p2) (fun c =>
                             if (c =? 101) || (c =? 69)
                             then obind (get chars (p2 + 1)) (fun x =>
                                  if (x =? 45) || (x =? 43) || is_digit x
                                  then obind (scan chars is_digit (N chars) (p2 + 2)) (fun p3 => Ok (t2 ++ 101 :: x :: sub chars (p2 + 2) p3, p3))
                                  else Ok (t2, p2))
                             else Ok (t2, p2))
                        else Ok (t2, p2)) with
                 | Ok (_, p3) => p2 <= p3 /\ (p3 <= L \/ p3 = p2)
                 | Err => True
                 | Panic => False
                 end).
    { destruct (p2 + 1 <? L) eqn:E; [|lia].
      apply Z.ltb_lt in E. destruct (get_ok p2) as [c Hc]; [lia|]. rewrite Hc. cbn [obind].
      destruct ((c =? 101) || (c =? 69)); [|lia].
      destruct (get_ok (p2 + 1)) as [x Hx]; [lia|]. rewrite Hx. cbn [obind].
      destruct ((x =? 45) || (x =? 43) || is_digit x); [|lia].
      pose proof (scan_ok is_digit (N chars) (p2 + 2)) as S3.
      destruct (scan chars is_digit (N chars) (p2 + 2)); cbn [obind]; auto; [|apply S3; lia].
      assert (p2 + 2 <= a /\ (a <= L \/ a = p2 + 2)) by (apply S3; lia). lia. }
    match type of E3 with match ?e with _ => _ end => destruct e as [[t3 p3]| |] end; cbn [obind]; auto.
    destruct (f64_ok t3); cbn [okp]; [|apply post_len].
    unfold post. lia.
  Qed.

  Lemma consume_identifier_post p :
    0 <= p <= L -> okp p (consume_identifier chars alnum p).
  Proof.
    intros H. unfold consume_identifier.
    pose proof (scan_ok (ident_char alnum) (N chars) p) as S.
    destruct (scan chars (ident_char alnum) (N chars) p) as [q| |]; cbn [obind okp]; auto; [|apply S; lia].
    assert (Hq : p <= q /\ (q <= L \/ q = p)) by (apply S; lia).
    destruct (slice_ok p q) as [t Ht]; [lia|lia|]. rewrite Ht. cbn [obind okp].
    unfold post; lia.
  Qed.

  Lemma cstr_ok n p :
    0 <= p -> match cstr chars n p with
              | Ok (_, q) => p <= q /\ (q <= L \/ q = p)
              | Err => True
              | Panic => False
              end.
  Proof.
    revert p; induction n as [|n IH]; intros p Hp; cbn [cstr].
    - destruct (p <? L); [exact I|lia].
    - destruct (p <? L) eqn:E; [|lia].
      apply Z.ltb_lt in E. destruct (get_ok p) as [c Hc]; [lia|]. rewrite Hc. cbn [obind].
      destruct (negb (c =? 34)).
      + specialize (IH (p + 1)). destruct (cstr chars n (p + 1)) as [[b q]| |]; auto; lia.
      + destruct (p + 1 <? L) eqn:E2; [|lia].
        apply Z.ltb_lt in E2. destruct (get_ok (p + 1)) as [y Hy]; [lia|]. rewrite Hy. cbn [obind].
        destruct (y =? 34); [|lia].
        specialize (IH (p + 1 + 1)). destruct (cstr chars n (p + 1 + 1)) as [[b q]| |]; auto; lia.
  Qed.

  Lemma consume_string_post p : 0 <= p <= L + 1 -> okp p (consume_string chars p).
  Proof.
    intros H. unfold consume_string. pose proof (cstr_ok (N chars) p) as S.
    destruct (cstr chars (N chars) p) as [[b q]| |]; cbn [obind okp]; auto; [|apply S; lia].
    destruct b; cbn [okp]; [|apply post_len].
    assert (p <= q /\ (q <= L \/ q = p)) by (apply S; lia). unfold post; lia.
  Qed.

  (* csq: on success the cursor is strictly after the start (the closing quote was read) *)
  Lemma csq_ok n p :
    0 <= p -> match csq chars n p with
              | Ok (b, q) => p <= q /\ (q <= L \/ q = p) /\ (b = true -> p + 1 <= q <= L)
              | Err => True
              | Panic => False
              end.
  Proof.
    revert p; induction n as [|n IH]; intros p Hp; cbn [csq].
    - destruct (p <? L); [exact I|]. repeat split; try lia; try discriminate.
    - destruct (p <? L) eqn:E; [|repeat split; try lia; try discriminate].
      apply Z.ltb_lt in E. destruct (get_ok p) as [c Hc]; [lia|]. rewrite Hc. cbn [obind].
      destruct (c =? 39).
      + destruct (p + 1 =? L) eqn:E2; [apply Z.eqb_eq in E2; lia|].
        apply Z.eqb_neq in E2. destruct (get_ok (p + 1)) as [d Hd]; [lia|]. rewrite Hd. cbn [obind].
        destruct (negb (d =? 39)); [lia|].
        specialize (IH (p + 1 + 1)). destruct (csq chars n (p + 1 + 1)) as [[b q]| |]; auto; [|apply IH; lia].
        assert (p + 1 + 1 <= q /\ (q <= L \/ q = p + 1 + 1) /\ (b = true -> p + 1 + 1 + 1 <= q <= L)) by (apply IH; lia).
        lia.
      + specialize (IH (p + 1)). destruct (csq chars n (p + 1)) as [[b q]| |]; auto; [|apply IH; lia].
        assert (p + 1 <= q /\ (q <= L \/ q = p + 1) /\ (b = true -> p + 1 + 1 <= q <= L)) by (apply IH; lia).
        lia.
  Qed.

  (* `self.chars[self.position..position - 1]` *)
  Lemma consume_single_quote_string_post p :
    0 <= p <= L + 1 -> okp p (consume_single_quote_string chars p).
  Proof.
    intros H. unfold consume_single_quote_string. pose proof (csq_ok (N chars) p) as S.
    destruct (csq chars (N chars) p) as [[b q]| |]; cbn [obind okp]; auto; [|apply S; lia].
    assert (Hq : p <= q /\ (q <= L \/ q = p) /\ (b = true -> p + 1 <= q <= L)) by (apply S; lia).
    destruct b; cbn [okp]; [|apply post_len].
    destruct Hq as [H1 [H2 H3]]. specialize (H3 eq_refl).
    rewrite sub1_ok by lia. cbn [obind].
    destruct (slice_ok p (q - 1)) as [t Ht]; [lia|lia|]. rewrite Ht. cbn [obind okp].
    unfold post; lia.
  Qed.

  Lemma prefix_length a s : prefix_of a s = true -> (length a <= length s)%nat.
  Proof.
    revert s; induction a as [|x a IH]; intros [|y s]; cbn [prefix_of length]; intros H; try lia; try discriminate.
    apply andb_true_iff in H as [_ H]. specialize (IH _ H). lia.
  Qed.

  Lemma first_prefix_in names rest n :
    first_prefix names rest = Some n -> In n names /\ prefix_of n rest = true.
  Proof.
    induction names as [|m names IH]; cbn [first_prefix]; [discriminate|].
    destruct (prefix_of m rest) eqn:E.
    - intros H; inversion H; subst. split; [left; reflexivity|exact E].
    - intros H. destruct (IH H). split; [right; assumption|assumption].
  Qed.

  Lemma sub_length a b : 0 <= a <= b -> b <= L -> Z.of_nat (length (sub chars a b)) = b - a.
  Proof.
    intros H1 H2. unfold sub. rewrite firstn_length, skipn_length. unfold len in H2. lia.
  Qed.

  (* consume_error: `chars[position - 1..len]` and `position += count - 1`; p >= 1 because the
     '#' has just been read *)
  Lemma consume_error_post p :
    1 <= p <= L -> okp p (consume_error chars errnames p).
  Proof.
    intros H. unfold consume_error. rewrite sub1_ok by lia. cbn [obind].
    unfold slice.
    destruct ((0 <=? p - 1) && (p - 1 <=? L) && (L <=? L)) eqn:E.
    2:{ exfalso. apply andb_false_iff in E as [E|E]; [apply andb_false_iff in E as [E|E]|]; apply Z.leb_gt in E; lia. }
    cbn [obind].
    destruct (first_prefix errnames (sub chars (p - 1) L)) as [n|] eqn:F; cbn [okp].
    - destruct (first_prefix_in _ _ _ F) as [Hin Hpre].
      rewrite Forall_forall in errnames_nonempty. specialize (errnames_nonempty _ Hin).
      assert (1 <= Z.of_nat (length n)) by (destruct n; [congruence|cbn [length]; lia]).
      rewrite sub1_ok by lia. cbn [obind okp].
      apply prefix_length in Hpre.
      pose proof (sub_length (p - 1) L) as SL. unfold post. lia.
    - apply post_refl. lia.
  Qed.

  Lemma consume_reference_a1_post p :
    0 <= p <= L + 1 -> okp p (consume_reference_a1 chars i32_of col_ok p).
  Proof.
    intros H. unfold consume_reference_a1.
    pose proof (opt_dollar_post p H) as O1.
    destruct (opt_dollar chars p) as [p1| |]; cbn [obind okp okz] in *; auto.
    pose proof (scan_ok is_ascii_letter (N chars) p1) as S1.
    destruct (scan chars is_ascii_letter (N chars) p1) as [p2| |]; cbn [obind okp]; auto; [|apply S1; unfold post in O1; lia].
    assert (H2 : p1 <= p2 /\ (p2 <= L \/ p2 = p1)) by (apply S1; unfold post in O1; lia).
    destruct (p2 =? p1); cbn [okp]; [apply post_len|].
    assert (R2 : 0 <= p2 <= L + 1) by (unfold post in O1; lia).
    pose proof (opt_dollar_post p2 R2) as O3.
    destruct (opt_dollar chars p2) as [p3| |]; cbn [obind okp okz] in *; auto.
    pose proof (scan_ok is_digit (N chars) p3) as S4.
    destruct (scan chars is_digit (N chars) p3) as [p4| |]; cbn [obind okp]; auto; [|apply S4; unfold post in O3; lia].
    assert (H4 : p3 <= p4 /\ (p4 <= L \/ p4 = p3)) by (apply S4; unfold post in O3; lia).
    destruct (negb _); cbn [okp]; [apply post_len|].
    destruct (last_row_ok _ _); cbn [okp]; [|apply post_len].
    unfold post in *. lia.
  Qed.

  (* the successful reference moved the cursor strictly forward and stays within the text *)
  Lemma consume_range_a1_post_gen p :
    0 <= p <= L + 1 -> okp p (consume_range_a1 chars i32_of col_ok p).
  Proof.
    intros H. unfold consume_range_a1.
    pose proof (consume_reference_a1_post p H) as C0.
    destruct (consume_reference_a1 chars i32_of col_ok p) as [[ok q]| |]; cbn [obind okp] in *; auto.
    rename C0 into Hq. pose proof (post_range _ _ Hq) as Rq. destruct ok.
    - destruct (peek_is_ok q 58) as [b [Hb Hlt]]; [lia|]. rewrite Hb. cbn [obind].
      destruct b; [|cbn [okp]; exact Hq].
      specialize (Hlt eq_refl).
      assert (R1 : 0 <= q + 1 <= L + 1) by lia.
      pose proof (consume_reference_a1_post (q + 1) R1) as C.
      destruct (consume_reference_a1 chars i32_of col_ok (q + 1)) as [[ok2 q2]| |]; cbn [obind okp] in *; auto.
      destruct ok2; cbn [okp]; [|apply post_len]. unfold post in *; lia.
    - (* the row / column range path restarts at p; the result is judged from p, and q >= p or q = len *)
      assert (G : okp p (let* p1 := opt_dollar chars p in
                         let* p2 := scan chars is_ascii_alnum (N chars) p1 in
                         let* colon := (if p2 <? L then let* c := get chars p2 in Ok (c =? 58) else Ok false) in
                         if negb colon then Ok (0, L) else
                         let* p4 := opt_dollar chars (p2 + 1) in
                         let* p5 := scan chars is_ascii_alnum (N chars) p4 in
                         let left := sub chars p1 p2 in
                         let right := sub chars p4 p5 in
                         if nonempty (digits_of left) then
                           if negb (nonempty (digits_of right)) || nonempty (letters_of left) || nonempty (letters_of right)
                           then Ok (0, L)
                           else if last_row_ok i32_of (digits_of left) && last_row_ok i32_of (digits_of right) then Ok (2, p5) else Ok (0, L)
                         else
                           if negb (nonempty (letters_of right)) || nonempty (digits_of right) then Ok (0, L)
                           else if col_ok (upper_ascii (letters_of left)) && col_ok (upper_ascii (letters_of right))
                                then Ok (2, p5) else Ok (0, L))).
      { pose proof (opt_dollar_post p H) as O1.
        destruct (opt_dollar chars p) as [p1| |]; cbn [obind okp okz] in *; auto.
        pose proof (scan_ok is_ascii_alnum (N chars) p1) as S2.
        destruct (scan chars is_ascii_alnum (N chars) p1) as [p2| |]; cbn [obind okp]; auto; [|apply S2; unfold post in O1; lia].
        assert (H2 : p1 <= p2 /\ (p2 <= L \/ p2 = p1)) by (apply S2; unfold post in O1; lia).
        destruct (p2 <? L) eqn:E; cbn [obind negb okp]; [|apply post_len].
        apply Z.ltb_lt in E. destruct (get_ok p2) as [c Hc]; [unfold post in O1; lia|]. rewrite Hc. cbn [obind].
        destruct (c =? 58); cbn [negb okp]; [|apply post_len].
        assert (R3 : 0 <= p2 + 1 <= L + 1) by (unfold post in O1; lia).
        pose proof (opt_dollar_post (p2 + 1) R3) as O4.
        destruct (opt_dollar chars (p2 + 1)) as [p4| |]; cbn [obind okp okz] in *; auto.
        pose proof (scan_ok is_ascii_alnum (N chars) p4) as S5.
        destruct (scan chars is_ascii_alnum (N chars) p4) as [p5| |]; cbn [obind okp]; auto; [|apply S5; unfold post in O4; lia].
        assert (H5 : p4 <= p5 /\ (p5 <= L \/ p5 = p4)) by (apply S5; unfold post in O4; lia).
        assert (P5 : post p p5) by (unfold post in *; lia).
        repeat match goal with
               | |- okp _ (if ?c then _ else _) => destruct c
               end; cbn [okp]; try apply post_len; exact P5. }
      exact G.
  Qed.

  Lemma expect_char_post c p : 0 <= p <= L + 1 -> okp p (expect_char chars c p).
  Proof.
    intros H. unfold expect_char. destruct (L <=? p) eqn:E; cbn [okp]; [apply post_len|].
    apply Z.leb_gt in E. destruct (get_ok p) as [x Hx]; [lia|]. rewrite Hx. cbn [obind].
    destruct (x =? c); cbn [okp]; [unfold post; lia|apply post_len].
  Qed.

  Lemma consume_table_specifier_post p :
    0 <= p <= L + 1 -> okp p (consume_table_specifier chars p).
  Proof.
    intros H. unfold consume_table_specifier.
    destruct (peek_is_ok p 35) as [b [Hb Hlt]]; [lia|]. rewrite Hb. cbn [obind].
    destruct b; [|cbn [okp]; apply post_refl; exact H].
    specialize (Hlt eq_refl).
    destruct (slice_ok p L) as [t Ht]; [lia|lia|]. rewrite Ht. cbn [obind].
    assert (Et : t = sub chars p L).
    { unfold slice in Ht. destruct (_ && _); inversion Ht; reflexivity. }
    destruct (first_prefix specifiers t) as [s|] eqn:F; cbn [okp]; [|apply post_refl; exact H].
    destruct (first_prefix_in _ _ _ F) as [_ Hpre]. apply prefix_length in Hpre.
    pose proof (sub_length p L) as SL. rewrite Et in Hpre. unfold post. lia.
  Qed.

  Lemma ccr_ok e n q :
    0 <= q -> match ccr chars e n q with
              | Ok (Some r) => q <= r /\ (r <= L \/ r = q)
              | Ok None => True
              | Err => True
              | Panic => False
              end.
  Proof.
    revert q; induction n as [|n IH]; intros q Hq; cbn [ccr].
    - destruct (q <? L); [exact I|lia].
    - destruct (q <? L) eqn:E; [|lia].
      apply Z.ltb_lt in E. destruct (get_ok q) as [c Hc]; [lia|]. rewrite Hc. cbn [obind].
      destruct (negb (c =? e)); [|lia].
      destruct (c =? 39).
      + destruct (q + 1 =? L) eqn:E2; [exact I|]. apply Z.eqb_neq in E2.
        specialize (IH (q + 1 + 1)). destruct (ccr chars e n (q + 1 + 1)) as [[r|]| |]; auto; lia.
      + specialize (IH (q + 1)). destruct (ccr chars e n (q + 1)) as [[r|]| |]; auto; lia.
  Qed.

  (* consume_column_reference: no panic; the cursor may end at len + 1 (missing ']') *)
  Lemma consume_column_reference_post p :
    0 <= p <= L -> okp p (consume_column_reference chars wsp p).
  Proof.
    intros H. unfold consume_column_reference.
    pose proof (scan_ok wsp (N chars) p) as S1. unfold consume_whitespace.
    destruct (scan chars wsp (N chars) p) as [p1| |]; cbn [obind okp]; auto; [|apply S1; lia].
    assert (H1 : p <= p1 /\ (p1 <= L \/ p1 = p)) by (apply S1; lia).
    destruct (peek_is_ok p1 91) as [b [Hb Hlt]]; [lia|]. rewrite Hb. cbn [obind].
    set (p2 := if b then p1 + 1 else p1).
    assert (R2 : p1 <= p2 /\ 0 <= p2 <= L + 1 /\ (b = true -> p2 <= L)).
    { subst p2. destruct b; [specialize (Hlt eq_refl)|]; lia. }
    pose proof (ccr_ok (if b then 93 else 41) (N chars) p2) as C.
    destruct (ccr chars (if b then 93 else 41) (N chars) p2) as [[r|]| |]; cbn [obind okp]; auto; [| |apply C; lia].
    - assert (Hr : p2 <= r /\ (r <= L \/ r = p2)) by (apply C; lia).
      (* the slice chars[p2..r]: r <= len because p <= len *)
      assert (Hle : r <= L) by (destruct b; lia).
      destruct (slice_ok p2 r) as [t Ht]; [lia|lia|]. rewrite Ht. cbn [obind okp].
      destruct b; unfold post; lia.
    - unfold post; lia.
  Qed.
End Safe.

(* the proof above mentions the other Section variables through `in *`; they are irrelevant *)
Lemma consume_range_a1_post chars i32_of col_ok p :
  0 <= p <= len chars + 1 -> okp chars p (consume_range_a1 chars i32_of col_ok p).
Proof.
  exact (consume_range_a1_post_gen chars (fun _ => true) (fun _ => true) (fun _ => true) 0
           (fun _ => true) (fun _ => true) (fun _ => true) i32_of col_ok (fun _ => true) (fun _ => true)
           (fun _ => true) (fun _ => true) p).
Qed.

(* ---------------------------------------------------------------------------------------------- *)
(* the invariant `position <= len` is FALSE for the lexer as it stands: an unterminated '[' column
   reference leaves the cursor at len + 1 (structured_references.rs:81-84 `position += 1` after the
   loop ran off the end).  Witness "R[" in A1 mode, evaluated with the executable instantiation. *)
Definition w_tab : Exec.ctab := [(82, (3, [82])); (91, (0, [91]))].
Definition w_chars : text := [82; 91].                 (* R[ *)

Lemma cursor_beyond_len_witness :
  Exec.lex w_tab [] Exec.TRUE_ Exec.FALSE_ true 46 w_chars = Ok [(K_STRUCTURED, 3); (K_EOF, 3)].
Proof. vm_compute. reflexivity. Qed.

Definition cursor_within_text : Prop :=
  forall tab errs a1 dec chars toks,
    Exec.lex tab errs Exec.TRUE_ Exec.FALSE_ a1 dec chars = Ok toks ->
    Forall (fun t => snd t <= len chars) toks.

Lemma cursor_within_text_refuted : ~ cursor_within_text.
Proof.
  intros H. specialize (H w_tab [] true 46 w_chars _ cursor_beyond_len_witness).
  inversion H as [|t l Ht _]; subst. cbn in Ht. lia.
Qed.
