(* Syntax/LexerSafe.v — cursor discipline of the formula lexer
   (base/src/expressions/lexer/{mod.rs,ranges.rs,structured_references.rs}).

   A character-level model of `Lexer::next_token`: the cursor `position`, `len`, and every
   place that indexes `chars[..]`, slices `chars[a..b]`, or subtracts from a usize, with
   [Panic] as the explicit outcome of an out-of-range index, a malformed slice or a usize
   underflow.  What a token MEANS (values, names) is not modelled: only its kind (for the
   control flow and the tie) and the cursor after it.

   Decisions that do not touch the cursor arithmetic (number parsing, column validity, reserved
   names, character classes of the Rust standard library, language data) are Section variables:
   the safety theorem holds for EVERY instantiation of them.  [Exec] instantiates them with
   executable functions for the correspondence run.

   In this file [Err] of [outcome] is used for "out of fuel" (excluded by the theorems); a Rust
   `Err(LexerError)` is an ordinary value (the [false] of a [bool * Z] result).  No proofs here. *)
From IronCalc Require Import Base.Prelude Base.Dec Codec.Column Codec.RefA1 Codec.RefRC.

(* token kinds (the same numbers as harness/c11/src/main.rs `kind`) *)
Definition K_ILLEGAL := 0.
Definition K_EOF := 1.
Definition K_IDENT := 2.
Definition K_STRING := 3.
Definition K_NUMBER := 4.
Definition K_BOOLEAN := 5.
Definition K_ERROR := 6.
Definition K_COMPARE := 7.
Definition K_ADDITION := 8.
Definition K_PRODUCT := 9.
Definition K_POWER := 10.
Definition K_LPAREN := 11.
Definition K_RPAREN := 12.
Definition K_COLON := 13.
Definition K_SEMICOLON := 14.
Definition K_LBRACKET := 15.
Definition K_RBRACKET := 16.
Definition K_LBRACE := 17.
Definition K_RBRACE := 18.
Definition K_COMMA := 19.
Definition K_BANG := 20.
Definition K_PERCENT := 21.
Definition K_AND := 22.
Definition K_AT := 23.
Definition K_SPILL := 24.
Definition K_BACKSLASH := 25.
Definition K_REFERENCE := 26.
Definition K_RANGE := 27.
Definition K_STRUCTURED := 28.

Notation "'let*' x ':=' e 'in' f" := (obind e (fun x => f)) (at level 200, x pattern, e at level 100, f at level 200).

Fixpoint prefix_of (a s : text) : bool :=
  match a, s with
  | [], _ => true
  | x :: a', y :: s' => (x =? y) && prefix_of a' s'
  | _ :: _, [] => false
  end.

Section Lexer.
  Variable chars : list Z.
  Variables (alpha alnum wsp : Z -> bool).       (* char::is_alphabetic / is_alphanumeric / is_whitespace *)
  Variable decimal : Z.                          (* locale.numbers.symbols.decimal *)
  Variable errnames : list text.                 (* language.errors, in the order consume_error tests them *)
  Variables (is_true is_false : text -> bool).   (* name.to_uppercase() == language.booleans.true / false *)
  Variable f64_ok : text -> bool.                (* chars.parse::<f64>().is_ok() *)
  Variable i32_of : text -> option Z.            (* chars.parse::<i32>() *)
  Variable col_ok : text -> bool.                (* column_to_number(upper-case letters).is_ok() *)
  Variable ref_a1 : text -> bool.                (* parse_reference_a1(&name.to_uppercase()).is_some() *)
  Variable col_colon : text -> bool.             (* is_valid_column(name_upper.trim_start_matches('$')) *)
  Variables (valid_a1_ident valid_ident : text -> bool).
  Variable a1 : bool.                            (* LexerMode::A1 *)

  Definition len : Z := Z.of_nat (length chars).
  Definition N : nat := length chars.            (* fuel of the character loops *)

  (* ---- the three panic-capable primitives ---- *)
  (* chars[p] *)
  Definition get (p : Z) : outcome Z :=
    if (0 <=? p) && (p <? len) then Ok (nth (Z.to_nat p) chars 0) else Panic.
  (* p - 1 on usize *)
  Definition sub1 (p : Z) : outcome Z := if 1 <=? p then Ok (p - 1) else Panic.
  (* the text chars[a..b] (total; used for the oracles) *)
  Definition sub (a b : Z) : text := firstn (Z.to_nat (b - a)) (skipn (Z.to_nat a) chars).
  (* &chars[a..b] *)
  Definition slice (a b : Z) : outcome text :=
    if (0 <=? a) && (a <=? b) && (b <=? len) then Ok (sub a b) else Panic.

  (* peek_char: `if position < self.len { Some(self.chars[position]) } else { None }` *)
  Definition peek (p : Z) : outcome (option Z) :=
    if p <? len then let* c := get p in Ok (Some c) else Ok None.
  Definition peek_is (p : Z) (c : Z) : outcome bool :=
    let* o := peek p in Ok (match o with Some x => x =? c | None => false end).

  (* `while position < len { let x = self.chars[position]; if pred(x) { position += 1 } else { break } }` *)
  Fixpoint scan (pred : Z -> bool) (n : nat) (p : Z) : outcome Z :=
    if p <? len then
      match n with
      | O => Err
      | S n' => let* x := get p in if pred x then scan pred n' (p + 1) else Ok p
      end
    else Ok p.

  Definition is_ascii_letter (c : Z) : bool := is_upper c || is_lower c.
  Definition is_ascii_alnum (c : Z) : bool := is_ascii_letter c || is_digit c.

  Definition consume_whitespace (p : Z) : outcome Z := scan wsp N p.

  (* consume_integer: the failure leaves the cursor after the digits (no set_error) *)
  Definition consume_integer (first : Z) (p : Z) : outcome (bool * Z) :=
    let* q := scan is_digit N p in
    Ok (match i32_of (first :: sub p q) with Some _ => true | None => false end, q).

  Definition consume_number (first : Z) (p : Z) : outcome (bool * Z) :=
    let* p1 := scan is_digit N p in
    let t1 := first :: sub p p1 in
    let* r2 := (if p1 <? len
                then let* c := get p1 in
                     if c =? decimal
                     then let* p2 := scan is_digit N (p1 + 1) in Ok (t1 ++ 46 :: sub (p1 + 1) p2, p2)
                     else Ok (t1, p1)
                else Ok (t1, p1)) in
    let '(t2, p2) := r2 in
    let* r3 := (if p2 + 1 <? len
                then let* c := get p2 in
                     if (c =? 101) || (c =? 69)
                     then let* x := get (p2 + 1) in
                          if (x =? 45) || (x =? 43) || is_digit x
                          then let* p3 := scan is_digit N (p2 + 2) in Ok (t2 ++ 101 :: x :: sub (p2 + 2) p3, p3)
                          else Ok (t2, p2)
                     else Ok (t2, p2)
                else Ok (t2, p2)) in
    let '(t3, p3) := r3 in
    (* self.position = position; on a parse failure set_error moves the cursor to len *)
    if f64_ok t3 then Ok (true, p3) else Ok (false, len).

  Definition ident_char (c : Z) : bool := alnum c || (c =? 95) || (c =? 46).

  (* consume_identifier: `self.chars[self.position..position]` *)
  Definition consume_identifier (p : Z) : outcome (text * Z) :=
    let* q := scan ident_char N p in
    let* name := slice p q in
    Ok (name, q).

  Fixpoint cstr (n : nat) (p : Z) : outcome (bool * Z) :=
    if p <? len then
      match n with
      | O => Err
      | S n' =>
        let* x := get p in
        let p := p + 1 in
        if negb (x =? 34) then cstr n' p
        else if p <? len
             then let* y := get p in if y =? 34 then cstr n' (p + 1) else Ok (true, p)
             else Ok (true, p)
      end
    else Ok (false, p).
  Definition consume_string (p : Z) : outcome (bool * Z) :=
    let* r := cstr N p in
    let '(terminated, q) := r in
    if terminated then Ok (true, q) else Ok (false, len).

  Fixpoint csq (n : nat) (q : Z) : outcome (bool * Z) :=
    if q <? len then
      match n with
      | O => Err
      | S n' =>
        let* c := get q in
        let q := q + 1 in
        if c =? 39 then
          if q =? len then Ok (true, q)
          else let* d := get q in if negb (d =? 39) then Ok (true, q) else csq n' (q + 1)
        else csq n' q
      end
    else Ok (false, q).
  (* `self.chars[self.position..position - 1]` *)
  Definition consume_single_quote_string (p : Z) : outcome (bool * Z) :=
    let* r := csq N p in
    let '(success, q) := r in
    if success then
      let* q1 := sub1 q in
      let* _ := slice p q1 in
      Ok (true, q)
    else Ok (false, len).

  (* consume_error: `self.chars[self.position - 1..self.len]`, then
     `self.position += name.chars().count() - 1` for the first name that is a prefix *)
  Fixpoint first_prefix (names : list text) (rest : text) : option text :=
    match names with
    | [] => None
    | n :: r => if prefix_of n rest then Some n else first_prefix r rest
    end.
  Definition consume_error (p : Z) : outcome (Z * Z) :=
    let* s := sub1 p in
    let* rest := slice s len in
    match first_prefix errnames rest with
    | Some n =>
      let* k := sub1 (Z.of_nat (length n)) in       (* count() - 1 *)
      Ok (K_ERROR, p + k)
    | None => Ok (K_SPILL, p)
    end.

  Definition opt_dollar (p : Z) : outcome Z :=
    if p <? len then let* c := get p in Ok (if c =? 36 then p + 1 else p) else Ok p.

  Definition upper_ascii (t : text) : text := map to_ascii_upper t.
  Definition last_row_ok (t : text) : bool :=
    match i32_of t with Some r => r <=? LAST_ROW | None => false end.

  (* ranges.rs consume_reference_a1; every failure goes through set_error (cursor = len) *)
  Definition consume_reference_a1 (p : Z) : outcome (bool * Z) :=
    let* p1 := opt_dollar p in
    let* p2 := scan is_ascii_letter N p1 in
    if p2 =? p1 then Ok (false, len) else
    let* p3 := opt_dollar p2 in
    let* p4 := scan is_digit N p3 in
    if negb (col_ok (upper_ascii (sub p1 p2))) then Ok (false, len) else
    if last_row_ok (sub p3 p4) then Ok (true, p4) else Ok (false, len).

  Definition letters_of (t : text) : text := filter is_ascii_letter t.
  Definition digits_of (t : text) : text := filter is_digit t.
  Definition nonempty (t : text) : bool := match t with [] => false | _ => true end.

  (* result: 0 = Err, 1 = a single reference, 2 = a range *)
  Definition consume_range_a1 (p : Z) : outcome (Z * Z) :=
    let* r := consume_reference_a1 p in
    let '(ok, q) := r in
    if ok then
      let* colon := peek_is q 58 in
      if colon then
        let* r2 := consume_reference_a1 (q + 1) in
        let '(ok2, q2) := r2 in
        if ok2 then Ok (2, q2) else Ok (0, len)
      else Ok (1, q)
    else
      (* self.position = position: row range or column range *)
      let* p1 := opt_dollar p in
      let* p2 := scan is_ascii_alnum N p1 in
      let* colon := (if p2 <? len then let* c := get p2 in Ok (c =? 58) else Ok false) in
      if negb colon then Ok (0, len) else
      let* p4 := opt_dollar (p2 + 1) in
      let* p5 := scan is_ascii_alnum N p4 in
      let left := sub p1 p2 in
      let right := sub p4 p5 in
      if nonempty (digits_of left) then
        if negb (nonempty (digits_of right)) || nonempty (letters_of left) || nonempty (letters_of right)
        then Ok (0, len)
        else if last_row_ok (digits_of left) && last_row_ok (digits_of right) then Ok (2, p5) else Ok (0, len)
      else
        if negb (nonempty (letters_of right)) || nonempty (digits_of right) then Ok (0, len)
        else if col_ok (upper_ascii (letters_of left)) && col_ok (upper_ascii (letters_of right))
             then Ok (2, p5) else Ok (0, len).

  (* expect_char *)
  Definition expect_char (c : Z) (p : Z) : outcome (bool * Z) :=
    if len <=? p then Ok (false, len)
    else let* x := get p in if x =? c then Ok (true, p + 1) else Ok (false, len).

  Section WithRec.
    (* the recursive occurrences of next_token (expect, peek_token) *)
    Variable rec : Z -> outcome (Z * Z).

    (* `self.expect(tk)`: next_token, compare the discriminant, set_error otherwise *)
    Definition expect (k : Z) (p : Z) : outcome (bool * Z) :=
      let* r := rec p in
      let '(k', q) := r in
      if k' =? k then Ok (true, q) else Ok (false, len).

    (* one coordinate of consume_reference_r1c1 (after 'R' or 'C') *)
    Definition rc_coordinate (p : Z) : outcome (bool * Z) :=
      let* o := peek p in
      match o with
      | None => Ok (false, len)
      | Some c =>
        if c =? 91 then
          let* r := expect_char 91 p in
          let '(_, p2) := r in
          (* read_next_char *)
          if p2 <? len then
            let* c2 := get p2 in
            let* ri := consume_integer c2 (p2 + 1) in
            let '(ok, p4) := ri in
            if ok then expect K_RBRACKET p4 else Ok (false, len)
          else Ok (false, len)
        else
          let* r := expect_char c p in
          let '(_, p2) := r in
          let* ri := consume_integer c p2 in
          let '(ok, p4) := ri in
          if ok then Ok (true, p4) else Ok (false, len)
      end.

    Definition consume_reference_r1c1 (p : Z) : outcome (bool * Z) :=
      let* r := expect_char 82 p in
      let '(ok, p1) := r in
      if negb ok then Ok (false, len) else
      let* r := rc_coordinate p1 in
      let '(ok, p2) := r in
      if negb ok then Ok (false, len) else
      let* r := expect_char 67 p2 in
      let '(ok, p3) := r in
      if negb ok then Ok (false, len) else
      let* r := rc_coordinate p3 in
      let '(ok, p4) := r in
      if negb ok then Ok (false, len) else
      let* o := peek p4 in
      match o with
      | Some c => if alnum c then Ok (false, len) else Ok (true, p4)
      | None => Ok (true, p4)
      end.

    Definition consume_range_r1c1 (p : Z) : outcome (Z * Z) :=
      let* r := consume_reference_r1c1 p in
      let '(ok, q) := r in
      if ok then
        let* colon := peek_is q 58 in
        if colon then
          let* r2 := consume_reference_r1c1 (q + 1) in
          let '(ok2, q2) := r2 in
          if ok2 then Ok (2, q2) else Ok (0, len)
        else Ok (1, q)
      else Ok (0, q).

    Definition range_kind (r : Z * Z) : Z * Z :=
      let '(c, q) := r in
      (if c =? 2 then K_RANGE else if c =? 1 then K_REFERENCE else K_ILLEGAL, q).

    Definition consume_range (p : Z) : outcome (Z * Z) :=
      let* r := (if a1 then consume_range_a1 p else consume_range_r1c1 p) in
      Ok (range_kind r).

    (* ---- structured_references.rs ---- *)
    Definition specifiers : list text :=
      [ [35;84;104;105;115;32;82;111;119;93];      (* "#This Row]" *)
        [35;65;108;108;93];                        (* "#All]" *)
        [35;68;97;116;97;93];                      (* "#Data]" *)
        [35;72;101;97;100;101;114;115;93];         (* "#Headers]" *)
        [35;84;111;116;97;108;115;93] ].           (* "#Totals]" *)

    (* result: 0 = Err (cursor unchanged), 1 = Ok(None), 2 = Ok(Some(_)) *)
    Definition consume_table_specifier (p : Z) : outcome (Z * Z) :=
      let* hash := peek_is p 35 in
      if hash then
        let* rest := slice p len in
        match first_prefix specifiers rest with
        | Some s => Ok (2, p + Z.of_nat (length s))
        | None => Ok (0, p)
        end
      else Ok (1, p).

    Fixpoint ccr (end_char : Z) (n : nat) (q : Z) : outcome (option Z) :=
      if q <? len then
        match n with
        | O => Err
        | S n' =>
          let* c := get q in
          if negb (c =? end_char) then
            let q := q + 1 in
            if c =? 39 then (if q =? len then Ok None else ccr end_char n' (q + 1))
            else ccr end_char n' q
          else Ok (Some q)
        end
      else Ok (Some q).

    (* NB: when the closing ']' is missing the cursor ends at len + 1 *)
    Definition consume_column_reference (p : Z) : outcome (bool * Z) :=
      let* p1 := consume_whitespace p in
      let* br := peek_is p1 91 in
      let end_char := if br then 93 else 41 in
      let p2 := if br then p1 + 1 else p1 in
      let* o := ccr end_char N p2 in
      match o with
      | None => Ok (false, p2)
      | Some q =>
        let* _ := slice p2 q in
        Ok (true, if br then q + 1 else q)
      end.

    (* result: (kind, cursor); kind 0 = the caller returns Illegal(set_error) (cursor = len) *)
    Definition consume_structured_reference (p : Z) : outcome (Z * Z) :=
      let* r := expect K_LBRACKET p in
      let '(ok, p1) := r in
      if negb ok then Ok (K_ILLEGAL, len) else
      let* o := peek p1 in
      let is c := match o with Some x => x =? c | None => false end in
      if is 93 then
        let* r := expect K_RBRACKET p1 in
        let '(ok, p2) := r in
        if ok then Ok (K_IDENT, p2) else Ok (K_ILLEGAL, len)
      else if is 35 then
        let* r := consume_table_specifier p1 in
        let '(c, q) := r in
        if c =? 2 then Ok (K_STRUCTURED, q) else Ok (K_ILLEGAL, len)
      else if negb (is 91) then
        let* p0 := sub1 p1 in
        let* r := consume_column_reference p0 in
        let '(ok, q) := r in
        if ok then Ok (K_STRUCTURED, q) else Ok (K_ILLEGAL, len)
      else
        let* r := expect K_LBRACKET p1 in
        let '(ok, p2) := r in
        if negb ok then Ok (K_ILLEGAL, len) else
        let* r := consume_table_specifier p2 in
        let '(c, q) := r in
        if c =? 0 then Ok (K_ILLEGAL, len) else
        (* Some(cursor) = go on with the column reference; None = return value decided *)
        let* cont := (if c =? 2 then
                        let* pk := rec q in                  (* peek_token: the cursor is restored *)
                        let '(k3, q3) := pk in
                        if k3 =? K_COMMA then
                          let* r := expect K_LBRACKET q3 in  (* advance_token; expect *)
                          let '(ok, q4) := r in
                          if ok then Ok (inl q4) else Ok (inr (K_ILLEGAL, len))
                        else if k3 =? K_RBRACKET then Ok (inr (K_STRUCTURED, q))
                        else Ok (inl q)
                      else Ok (inl q)) in
        match cont with
        | inr res => Ok res
        | inl pos =>
          let* p5 := sub1 pos in
          let* r := consume_column_reference p5 in
          let '(ok, q6) := r in
          if negb ok then Ok (K_ILLEGAL, len) else
          let* colon := peek_is q6 58 in
          if colon then
            let* r := consume_column_reference (q6 + 1) in
            let '(ok, q7) := r in
            if negb ok then Ok (K_ILLEGAL, len) else
            let* r := expect K_RBRACKET q7 in
            let '(ok, q8) := r in
            if ok then Ok (K_STRUCTURED, q8) else Ok (K_ILLEGAL, len)
          else
            let* r := expect K_RBRACKET q6 in
            let '(ok, q8) := r in
            if ok then Ok (K_STRUCTURED, q8) else Ok (K_ILLEGAL, len)
        end.

    Definition valid_r1c1_ident (name : text) (next : option Z) : bool :=
      valid_a1_ident name &&
      (valid_ident name || negb (match next with Some c => c =? 91 | None => false end)).

    (* the identifier arm of next_token; [pos] is the cursor after the first character *)
    Definition ident_arm (pos : Z) : outcome (Z * Z) :=
      let* start := sub1 pos in                      (* self.position -= 1 *)
      let* ri := consume_identifier start in
      let '(name, pi) := ri in
      let* pk := peek pi in
      let is c := match pk with Some x => x =? c | None => false end in
      if is 33 then consume_range (pi + 1)
      else if is 36 then let* s := sub1 pos in consume_range s
      else if is_true name || is_false name then Ok (K_BOOLEAN, pi)
      else if is 40 then Ok (K_IDENT, pi)
      else if a1 then
        let pr := ref_a1 name in
        if pr || (col_colon name && is 58) then
          let* s := sub1 pos in
          let* r := consume_range_a1 s in
          let '(c, q) := r in
          if c =? 2 then Ok (K_RANGE, q)
          else if c =? 1 then Ok (K_REFERENCE, q)
          else if pr && is 58 then Ok (K_REFERENCE, pi)
          else Ok (K_ILLEGAL, len)
        else if valid_a1_ident name then
          if is 91 then consume_structured_reference pi else Ok (K_IDENT, pi)
        else Ok (K_ILLEGAL, len)
      else
        let* s := sub1 pos in
        let* r := consume_range_r1c1 s in
        let '(c, q) := r in
        if negb (c =? 0) then
          if q <? pi then
            (if valid_r1c1_ident name pk then Ok (K_IDENT, pi) else Ok (K_ILLEGAL, len))
          else Ok (range_kind (c, q))
        else
          let* s' := sub1 pos in
          let* r2 := consume_reference_r1c1 s' in
          let '(ok, q2) := r2 in
          let* colon := (if ok then peek_is q2 58 else Ok false) in
          if colon then Ok (K_REFERENCE, q2)
          else if valid_r1c1_ident name pk then Ok (K_IDENT, pi) else Ok (K_ILLEGAL, len).

    Definition single (k : Z) (pos : Z) : outcome (Z * Z) := Ok (k, pos).

    Definition next_token_body (p : Z) : outcome (Z * Z) :=
      let* p0 := consume_whitespace p in
      (* read_next_char *)
      if negb (p0 <? len) then Ok (K_EOF, p0) else
      let* c := get p0 in
      let pos := p0 + 1 in
      if (c =? 43) || (c =? 45) then single K_ADDITION pos
      else if (c =? 42) || (c =? 47) then single K_PRODUCT pos
      else if c =? 40 then single K_LPAREN pos
      else if c =? 41 then single K_RPAREN pos
      else if c =? 61 then single K_COMPARE pos
      else if c =? 123 then single K_LBRACE pos
      else if c =? 125 then single K_RBRACE pos
      else if c =? 91 then single K_LBRACKET pos
      else if c =? 93 then single K_RBRACKET pos
      else if c =? 58 then single K_COLON pos
      else if c =? 59 then single K_SEMICOLON pos
      else if c =? 64 then single K_AT pos
      else if c =? 92 then single K_BACKSLASH pos
      else if c =? 44 then
        (if decimal =? 44
         then let* r := consume_number 44 pos in let '(ok, q) := r in Ok (if ok then K_NUMBER else K_ILLEGAL, q)
         else single K_COMMA pos)
      else if c =? 46 then
        (if decimal =? 46
         then let* r := consume_number 46 pos in let '(ok, q) := r in Ok (if ok then K_NUMBER else K_ILLEGAL, q)
         else Ok (K_ILLEGAL, len))
      else if c =? 33 then single K_BANG pos
      else if c =? 94 then single K_POWER pos
      else if c =? 37 then single K_PERCENT pos
      else if c =? 38 then single K_AND pos
      else if c =? 36 then
        (* consume_absolute_reference *)
        (if a1 then let* s := sub1 pos in consume_range s else Ok (K_ILLEGAL, len))
      else if c =? 60 then
        let* o := peek pos in
        (match o with
         | Some x => if (x =? 61) || (x =? 62) then single K_COMPARE (pos + 1) else single K_COMPARE pos
         | None => single K_COMPARE pos
         end)
      else if c =? 62 then
        let* e := peek_is pos 61 in
        if e then single K_COMPARE (pos + 1) else single K_COMPARE pos
      else if c =? 35 then consume_error pos
      else if c =? 34 then
        let* r := consume_string pos in let '(ok, q) := r in Ok (if ok then K_STRING else K_ILLEGAL, q)
      else if c =? 39 then
        (* consume_quoted_sheet_reference *)
        let* r := consume_single_quote_string pos in
        let '(ok, q) := r in
        if negb ok then Ok (K_ILLEGAL, len) else
        let* t := rec q in
        let '(k, q2) := t in
        if k =? K_BANG then consume_range q2 else Ok (K_ILLEGAL, len)
      else if is_digit c then
        let* start := sub1 pos in                    (* let position = self.position - 1 *)
        let* r := consume_number c pos in
        let '(ok, q) := r in
        if ok then
          let* t := rec q in                         (* peek_token *)
          let '(k, _) := t in
          if (k =? K_COLON) && a1 then
            (* self.position = position; consume_range_a1 *)
            let* rr := consume_range_a1 start in
            let '(cc, q2) := rr in
            if cc =? 2 then Ok (K_RANGE, q2) else Ok (K_ILLEGAL, len)
          else Ok (K_NUMBER, q)
        else Ok (K_ILLEGAL, len)
      else if alpha c || (c =? 95) then ident_arm pos
      else Ok (K_ILLEGAL, len).
  End WithRec.

  Fixpoint next_token (fuel : nat) (p : Z) : outcome (Z * Z) :=
    match fuel with
    | O => Err
    | S f => next_token_body (next_token f) p
    end.

  (* the first n tokens (stops after EOF): what `get_tokens` / the parser drive *)
  Fixpoint lex_n (n : nat) (p : Z) : outcome (list (Z * Z)) :=
    match n with
    | O => Ok []
    | S n' =>
      let* t := next_token (S (S N)) p in
      let '(k, q) := t in
      if k =? K_EOF then Ok [t]
      else let* r := lex_n n' q in Ok (t :: r)
    end.
End Lexer.

(* ---------------------------------------------------------------------------------------------- *)
(* executable instantiation for the correspondence run *)
Module Exec.
  (* per-case character table supplied by the harness from the Rust standard library:
     code point -> (class bits: 1 alphabetic, 2 alphanumeric, 4 whitespace; to_uppercase) *)
  Definition ctab := list (Z * (Z * text)).
  Fixpoint tab_find (t : ctab) (c : Z) : option (Z * text) :=
    match t with
    | [] => None
    | (k, v) :: r => if k =? c then Some v else tab_find r c
    end.
  Definition bit (t : ctab) (b : Z) (c : Z) : bool :=
    match tab_find t c with Some (cls, _) => Z.testbit cls b | None => false end.
  Definition upper (t : ctab) (s : text) : text :=
    flat_map (fun c => match tab_find t c with Some (_, u) => u | None => [c] end) s.

  Definition i32_of (s : text) : option Z :=
    let '(neg, d) := match s with
                     | c :: r => if c =? 45 then (true, r) else if c =? 43 then (false, r) else (false, s)
                     | [] => (false, s)
                     end in
    match d with
    | [] => None
    | _ => if forallb is_digit d
           then let v := dec_val 0 d in
                let v := if neg then - v else v in
                if (-2147483648 <=? v) && (v <=? 2147483647) then Some v else None
           else None
    end.

  (* f64 parse of the strings consume_number builds: first ∈ digit | '.' | ',' then digits
     [ '.' digits ] [ 'e' (sign | digit) digits ] *)
  Fixpoint span_d (s : text) : text * text :=
    match s with
    | c :: r => if is_digit c then let (d, r') := span_d r in (c :: d, r') else ([], s)
    | [] => ([], [])
    end.
  Definition f64_ok (s : text) : bool :=
    let (d1, r1) := span_d s in
    let '(d2, r2) := match r1 with
                     | c :: r => if c =? 46 then span_d r else ([], r1)
                     | [] => ([], r1)
                     end in
    let mant := negb (match d1 ++ d2 with [] => true | _ => false end) in
    match r2 with
    | [] => mant
    | c :: r =>
      if (c =? 101) || (c =? 69) then
        let r' := match r with x :: y => if (x =? 45) || (x =? 43) then y else r | [] => r end in
        let (d3, r3) := span_d r' in
        mant && negb (match d3 with [] => true | _ => false end) && (match r3 with [] => true | _ => false end)
      else false
    end.

  Definition col_ok (s : text) : bool := match column_to_number s with Ok _ => true | _ => false end.

  Definition TRUE_ : text := [84;82;85;69].
  Definition FALSE_ : text := [70;65;76;83;69].

  Definition valid_a1_ident (t : ctab) (name : text) : bool :=
    let up := upper t name in
    let n := Z.of_nat (length up) in
    if (255 <? n) || (n =? 0) then false else
    match up with
    | [] => false
    | first :: rest =>
      if negb (is_upper first || is_lower first || (first =? 95) || (first =? 92)) then false
      else if text_eqb up TRUE_ || text_eqb up FALSE_ then false
      else if match parse_reference_a1 name with Some _ => true | None => false end then false
      else if match parse_reference_r1c1 name with Some _ => true | None => false end then false
      else forallb (fun c => bit t 1 c || (c =? 95) || (c =? 46)) rest
    end.
  Definition valid_ident (t : ctab) (name : text) : bool :=
    let up := upper t name in
    if text_eqb up [82] || text_eqb up [67] then false else valid_a1_ident t name.

  Definition lex (t : ctab) (errs : list text) (tr fa : text) (a1 : bool) (decimal : Z) (chars : text) : outcome (list (Z * Z)) :=
    lex_n chars (bit t 0) (bit t 1) (bit t 2) decimal errs
          (fun n => text_eqb (upper t n) tr) (fun n => text_eqb (upper t n) fa)
          f64_ok i32_of col_ok
          (fun n => match parse_reference_a1 (upper t n) with Some _ => true | None => false end)
          (fun n => is_valid_column (upper t n))
          (valid_a1_ident t) (valid_ident t) a1
          (length chars + 3) 0.
End Exec.
