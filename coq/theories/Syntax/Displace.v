(* Syntax/Displace.v — executable models of the reference rewrite that every structural edit
   of rows/columns performs (C12 insert, C13 delete, C14 insert+delete, C15 move).

   Mirrors, with the same case splits and the same order of tests:
     * [stringify_reference] (base/src/expressions/parser/stringify.rs), arms
       [DisplaceData::Row], [Column], [RowMove], [ColumnMove], [None], and its tail
       ([row < 1] -> "#REF!", [number_to_column] = None -> "#REF!", full_row/full_column);
     * the [RangeKind] arm of [stringify] (both corners, full_row/full_column exemption);
     * the parser's construction of [ReferenceKind] from an A1 token (parser/mod.rs:769);
     * where cells, links and row descriptors go in [insert_rows], [insert_columns],
       [delete_rows], [delete_columns], [move_row_unchecked], [move_column_unchecked]
       (base/src/actions.rs) — [cell_map];
     * the loops of [Model::move_rows_action]/[move_columns_action] — [iterate_moves];
     * the hidden-line delta adjustment of [UserModel::move_rows_action]/[move_columns_action]
       (base/src/user_model/common.rs:1270,1311) — [hidden_adjust].
   No proofs in this file (see DisplaceProofs.v). *)
From IronCalc Require Import Base.Prelude Base.Dec Codec.Column Codec.RefA1.

Definition pos := (Z * Z)%type.                      (* (row, column) *)

Definition grid (p : pos) : Prop :=
  1 <= fst p <= LAST_ROW /\ 1 <= snd p <= LAST_COLUMN.

(* a reference as the AST stores it ([Node::ReferenceKind]): a relative part is an offset
   from the cell that holds the formula (the anchor), an absolute part is the coordinate *)
Record aref := {
  a_sheet : Z;            (* sheet_index *)
  a_row : Z; a_col : Z;
  a_abs_row : bool; a_abs_col : bool }.

(* [let mut row = if absolute_row { row } else { row + context.row }] *)
Definition resolve (anchor : pos) (a : aref) : pos :=
  ((if a_abs_row a then a_row a else a_row a + fst anchor),
   (if a_abs_col a then a_col a else a_col a + snd anchor)).

Inductive disp :=
| DRow (sheet row delta : Z)          (* delta > 0: insert_rows, delta < 0: delete_rows *)
| DCol (sheet col delta : Z)
| DRowMove (sheet row delta : Z)
| DColMove (sheet col delta : Z)
| DNone.

(* the arithmetic of the Row and the Column arm on the one coordinate they touch;
   None = the early [return "#REF!"] *)
Definition shift_line (x at_ delta : Z) : option Z :=
  if delta <? 0 then
    if at_ <=? x then
      if x <? at_ - delta then None else Some (x + delta)
    else Some x
  else if at_ <=? x then Some (x + delta)
  else Some x.

(* the arithmetic of the RowMove and the ColumnMove arm: line [i] goes to [i + d], the lines
   it jumps over move one step the other way *)
Definition single_move (i d x : Z) : Z :=
  if x =? i then x + d
  else if 0 <? d then (if (i <? x) && (x <=? i + d) then x - 1 else x)
  else if d <? 0 then (if (x <? i) && (i + d <=? x) then x + 1 else x)
  else x.

Definition displace_pos (d : disp) (full_row full_col : bool) (sheet : Z) (p : pos) : option pos :=
  let '(row, col) := p in
  match d with
  | DRow s r delta =>
    if (sheet =? s) && negb full_row then
      match shift_line row r delta with None => None | Some row' => Some (row', col) end
    else Some (row, col)
  | DCol s c delta =>
    if (sheet =? s) && negb full_col then
      match shift_line col c delta with None => None | Some col' => Some (row, col') end
    else Some (row, col)
  | DRowMove s i delta =>
    if sheet =? s then Some (single_move i delta row, col) else Some (row, col)
  | DColMove s i delta =>
    if sheet =? s then Some (row, single_move i delta col) else Some (row, col)
  | DNone => Some (row, col)
  end.

(* the displaced reference as (absolute row, absolute column, flags); None = "#REF!".
   There is NO test [row > LAST_ROW] in the code, and none here. *)
Definition displace (d : disp) (full_row full_col : bool) (anchor : pos) (a : aref) : option pref :=
  match displace_pos d full_row full_col (a_sheet a) (resolve anchor a) with
  | None => None
  | Some (row, col) =>
    if row <? 1 then None else
    if is_valid_column_number col then
      Some {| p_row := row; p_col := col; p_abs_col := a_abs_col a; p_abs_row := a_abs_row a |}
    else None
  end.

Definition ref_error : text := [35; 82; 69; 70; 33].          (* #REF! *)

(* the string [stringify_reference] returns (A1 mode, no sheet prefix) *)
Definition displace_text (d : disp) (full_row full_col : bool) (anchor : pos) (a : aref) : text :=
  match displace_pos d full_row full_col (a_sheet a) (resolve anchor a) with
  | None => ref_error
  | Some (row, col) =>
    if row <? 1 then ref_error else
    match number_to_column col with
    | None => ref_error
    | Some letters =>
      (if full_col then [] else (if a_abs_col a then [36] else []) ++ letters) ++
      (if full_row then [] else (if a_abs_row a then [36] else []) ++ dec_of_Z row)
    end
  end.

(* what the parser builds from an A1 reference token read in the cell [anchor] *)
Definition of_pref (sheet : Z) (anchor : pos) (p : pref) : aref :=
  {| a_sheet := sheet;
     a_row := if p_abs_row p then p_row p else p_row p - fst anchor;
     a_col := if p_abs_col p then p_col p else p_col p - snd anchor;
     a_abs_row := p_abs_row p; a_abs_col := p_abs_col p |}.

(* what the A1 lexer makes of the printed reference: [parse_reference_a1] rejects a row above
   LAST_ROW ([is_valid_row]), so such a text is not read back as a reference *)
Definition readable (p : pref) : bool := p_row p <=? LAST_ROW.

(* [move_cell]: the formula text is printed in the source cell (no displacement) and typed
   into the target cell, i.e. the same absolute reference seen from another anchor *)
Definition rebase (q q' : pos) (a : aref) : option aref :=
  match displace DNone false false q a with
  | None => None
  | Some p => if readable p then Some (of_pref (a_sheet a) q' p) else None
  end.

(* ---- ranges ([Node::RangeKind]) ---------------------------------------------------- *)
Record arange := {
  g_sheet : Z;
  g_row1 : Z; g_col1 : Z; g_abs_row1 : bool; g_abs_col1 : bool;
  g_row2 : Z; g_col2 : Z; g_abs_row2 : bool; g_abs_col2 : bool }.

Definition corner1 (g : arange) : aref :=
  {| a_sheet := g_sheet g; a_row := g_row1 g; a_col := g_col1 g;
     a_abs_row := g_abs_row1 g; a_abs_col := g_abs_col1 g |}.
Definition corner2 (g : arange) : aref :=
  {| a_sheet := g_sheet g; a_row := g_row2 g; a_col := g_col2 g;
     a_abs_row := g_abs_row2 g; a_abs_col := g_abs_col2 g |}.

(* "A:A": all rows, so row displacement is skipped and the row part is not printed *)
Definition is_full_row (g : arange) : bool :=
  g_abs_row1 g && g_abs_row2 g && (g_row1 g =? 1) && (g_row2 g =? LAST_ROW).
Definition is_full_col (g : arange) : bool :=
  g_abs_col1 g && g_abs_col2 g && (g_col1 g =? 1) && (g_col2 g =? LAST_COLUMN).

Definition displace_range (d : disp) (anchor : pos) (g : arange) : option pref * option pref :=
  (displace d (is_full_row g) (is_full_col g) anchor (corner1 g),
   displace d (is_full_row g) (is_full_col g) anchor (corner2 g)).

(* [format!("{s1}:{s2}")] — a corner that is "#REF!" does not affect the other corner *)
Definition displace_range_text (d : disp) (anchor : pos) (g : arange) : text :=
  displace_text d (is_full_row g) (is_full_col g) anchor (corner1 g) ++ [58] ++
  displace_text d (is_full_row g) (is_full_col g) anchor (corner2 g).

(* ---- where a cell itself goes (actions.rs) ------------------------------------------- *)
(* insert_rows: [if r >= row { move_cell(r -> r + row_count) }]; the same test moves links
   and row descriptors. delete_rows: [r < row] stays, [r < row + row_count] is removed,
   the rest moves up. Columns alike. None = the cell is deleted. *)
Definition line_map (x at_ delta : Z) : option Z :=
  if 0 <? delta then (if at_ <=? x then Some (x + delta) else Some x)
  else
    let count := - delta in
    if x <? at_ then Some x
    else if x <? at_ + count then None
    else Some (x - count).

Definition cell_map (d : disp) (p : pos) : option pos :=
  let '(row, col) := p in
  match d with
  | DRow _ r delta => match line_map row r delta with None => None | Some row' => Some (row', col) end
  | DCol _ c delta => match line_map col c delta with None => None | Some col' => Some (row, col') end
  | DRowMove _ i delta => Some (single_move i delta row, col)
  | DColMove _ i delta => Some (row, single_move i delta col)
  | DNone => Some (row, col)
  end.

(* argument validation of insert_rows / insert_columns (index test added by fix F27, commit
   3e01966) and of delete_rows / delete_columns, in the code's order: count > 0, then the index
   on the grid, then (delete only) the last deleted line on the grid. [delta > 0] = insert of
   [delta] lines, [delta < 0] = delete of [- delta] lines. The workbook-dependent tests (array
   formulas, sheet dimension) come after these and are not part of this function. *)
Definition edit_valid (last at_ delta : Z) : bool :=
  if 0 <? delta then (1 <=? at_) && (at_ <=? last)
  else if delta <? 0 then (1 <=? at_) && (at_ <=? last) && (at_ + (- delta) - 1 <=? last)
  else false.

(* ---- block moves --------------------------------------------------------------------- *)
(* the permutation a move of the block [i, i+n) by [d] is meant to be *)
Definition block_move (i n d x : Z) : Z :=
  if (i <=? x) && (x <? i + n) then x + d
  else if 0 <? d then (if (i + n <=? x) && (x <? i + n + d) then x - n else x)
  else if d <? 0 then (if (i + d <=? x) && (x <? i) then x + n else x)
  else x.

(* [for r in (row..row + row_count).rev() { move_row_unchecked(r, delta) }]: the last line of
   the block first; the function is the composition in execution order *)
Fixpoint iter_last_first (i : Z) (n : nat) (d x : Z) : Z :=
  match n with
  | O => x
  | S n' => iter_last_first i n' d (single_move (i + Z.of_nat n') d x)
  end.

(* [for r in row..row + row_count { move_row_unchecked(r, delta) }] *)
Fixpoint iter_first_first (i : Z) (n : nat) (d x : Z) : Z :=
  match n with
  | O => x
  | S n' => iter_first_first (i + 1) n' d (single_move i d x)
  end.

Definition iterate_moves (i : Z) (n : nat) (d x : Z) : Z :=
  if 0 <? d then iter_last_first i n d x else iter_first_first i n d x.

(* the DisplaceData values the loop issues, in execution order *)
Fixpoint move_disps_last_first (rowwise : bool) (s i : Z) (n : nat) (d : Z) : list disp :=
  match n with
  | O => []
  | S n' => (if rowwise then DRowMove s (i + Z.of_nat n') d else DColMove s (i + Z.of_nat n') d)
            :: move_disps_last_first rowwise s i n' d
  end.
Fixpoint move_disps_first_first (rowwise : bool) (s i : Z) (n : nat) (d : Z) : list disp :=
  match n with
  | O => []
  | S n' => (if rowwise then DRowMove s i d else DColMove s i d)
            :: move_disps_first_first rowwise s (i + 1) n' d
  end.
Definition move_disps (rowwise : bool) (s i : Z) (n : nat) (d : Z) : list disp :=
  if 0 <? d then move_disps_last_first rowwise s i n d else move_disps_first_first rowwise s i n d.

(* a reference's absolute target through a sequence of displacements (each step is
   [displace_pos] without exemptions; None = "#REF!" at some step) *)
Fixpoint displace_pos_seq (ds : list disp) (sheet : Z) (p : pos) : option pos :=
  match ds with
  | [] => Some p
  | d :: ds' => match displace_pos d false false sheet p with
                | None => None
                | Some p' => displace_pos_seq ds' sheet p'
                end
  end.

(* ---- one whole rewrite of one reference ---------------------------------------------- *)
(* [same] = the formula's cell lies on the sheet being edited (then it moves with [cell_map]).
   Steps: move_cell re-types the formula in the moved cell ([rebase]), displace_cells prints it
   with the displacement ([displace]) and, the text having changed, parses it again ([of_pref]).
   Result: the moved anchor and the new stored reference; None = anchor deleted or "#REF!". *)
Definition anchor_map (d : disp) (same : bool) (q : pos) : option pos :=
  if same then cell_map d q else Some q.

Inductive rewritten :=
| RwRef (q' : pos) (a' : aref)    (* still a reference: moved anchor, new stored form *)
| RwRefError                      (* "#REF!" *)
| RwUnreadable                    (* printed with a row above LAST_ROW: no longer parses as a reference *)
| RwGone.                         (* the formula's own cell was deleted *)

Definition apply_disp_full (d : disp) (same : bool) (q : pos) (a : aref) : rewritten :=
  match anchor_map d same q with
  | None => RwGone
  | Some q' =>
    match rebase q q' a with
    | None => RwRefError
    | Some a' =>
      match displace d false false q' a' with
      | None => RwRefError
      | Some p => if readable p then RwRef q' (of_pref (a_sheet a) q' p) else RwUnreadable
      end
    end
  end.

Definition apply_disp (d : disp) (same : bool) (q : pos) (a : aref) : option (pos * aref) :=
  match apply_disp_full d same q a with
  | RwRef q' a' => Some (q', a')
  | _ => None
  end.

(* the block move's sequence of rewrites (each step re-types, displaces, re-parses) *)
Fixpoint apply_disp_seq (ds : list disp) (same : bool) (q : pos) (a : aref) : rewritten :=
  match ds with
  | [] => RwRef q a
  | d :: ds' =>
    match apply_disp_full d same q a with
    | RwRef q' a' => apply_disp_seq ds' same q' a'
    | r => r
    end
  end.

(* ---- UserModel: delta enlarged by the hidden lines of the landing zone ------------------ *)
(* [is_row_hidden]/[is_column_hidden] return Err outside [1, last] *)
Fixpoint count_hidden (hidden : Z -> bool) (last lo : Z) (len : nat) : outcome Z :=
  match len with
  | O => Ok 0
  | S len' =>
    if (1 <=? lo) && (lo <=? last) then
      match count_hidden hidden last (lo + 1) len' with
      | Ok c => Ok (c + (if hidden lo then 1 else 0))
      | Err => Err
      | Panic => Panic
      end
    else Err
  end.

(* delta > 0: [for r in row + row_count..=row + row_count + delta] — delta + 1 lines (inclusive);
   delta < 0: [for r in row + delta..row] — |delta| lines *)
Definition hidden_adjust (hidden : Z -> bool) (last i n d : Z) : outcome Z :=
  if 0 <? d then
    match count_hidden hidden last (i + n) (Z.to_nat (d + 1)) with
    | Ok c => Ok (d + c) | Err => Err | Panic => Panic
    end
  else
    match count_hidden hidden last (i + d) (Z.to_nat (- d)) with
    | Ok c => Ok (d - c) | Err => Err | Panic => Panic
    end.

(* the same with the exclusive bound (exactly the landing zone) — for comparison only *)
Definition hidden_adjust_excl (hidden : Z -> bool) (last i n d : Z) : outcome Z :=
  if 0 <? d then
    match count_hidden hidden last (i + n) (Z.to_nat d) with
    | Ok c => Ok (d + c) | Err => Err | Panic => Panic
    end
  else
    match count_hidden hidden last (i + d) (Z.to_nat (- d)) with
    | Ok c => Ok (d - c) | Err => Err | Panic => Panic
    end.

(* validation of Model::move_rows_action (target and source block inside [1, last]) *)
Definition move_valid (last i n d : Z) : bool :=
  (1 <=? i + d) && (i + d <=? last) && (1 <=? i + n - 1 + d) && (i + n - 1 + d <=? last) &&
  (1 <=? i) && (i <=? last) && (1 <=? i + n - 1) && (i + n - 1 <=? last).
