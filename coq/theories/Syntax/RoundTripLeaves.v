(* Syntax/RoundTripLeaves.v — round-trip proof, part 4: references, the first token of a printed
   tree, ranks forced by [no_bad]. *)
From IronCalc Require Import Base.Prelude Codec.RefA1 Syntax.Token Syntax.Ast Syntax.Printer Syntax.Parser
  Syntax.Shape Syntax.RoundTripLevels Syntax.RoundTripNodes Syntax.RoundTripArgs.
Local Open Scope nat_scope.

Section Leaves.
  Variable m : pmode.
  Variable nm : names.
  Variable env : penv.
  Variable pol : policy.
  Notation pr := (gprint m nm pol).
  Notation xl := (pm_xlsx m).

  (* ---- references ------------------------------------------------------------------------- *)
  Lemma parse_print_pref p q : print_pref m p = Some q -> parse_pref m q = p.
  Proof.
    unfold print_pref, parse_pref. destruct (pm_rc m); [intro H; inversion H; reflexivity|].
    destruct p as [r c ac ar]. cbn [p_row p_col p_abs_col p_abs_row].
    destruct (_ || _); [discriminate|]. intro H; inversion H; subst; clear H.
    cbn [p_row p_col p_abs_col p_abs_row]. destruct ar, ac; f_equal; lia.
  Qed.

  Lemma pref_eta q : {| p_row := p_row q; p_col := p_col q; p_abs_col := p_abs_col q; p_abs_row := p_abs_row q |} = q.
  Proof. destruct q; reflexivity. Qed.

  Lemma parse_range_ok p1 p2 : range_ok m p1 p2 = true ->
    exists q1 q2, print_pref m p1 = Some q1 /\ print_pref m p2 = Some q2 /\ parse_range_prefs m q1 q2 = (p1, p2).
  Proof.
    unfold range_ok. destruct (print_pref m p1) as [q1|] eqn:E1; [|discriminate].
    destruct (print_pref m p2) as [q2|] eqn:E2; [|discriminate].
    intro H. exists q1, q2. split; [reflexivity|]. split; [reflexivity|].
    unfold parse_range_prefs. destruct (pm_rc m) eqn:Erc.
    - unfold print_pref in E1, E2. rewrite Erc in E1, E2. inversion E1; inversion E2; reflexivity.
    - cbn [orb] in H. apply andb_true_iff in H as [Hr Hc]. apply Z.leb_le in Hr, Hc.
      assert (R : (p_row q2 <? p_row q1)%Z = false) by (apply Z.ltb_ge; lia).
      assert (C : (p_col q2 <? p_col q1)%Z = false) by (apply Z.ltb_ge; lia).
      rewrite R, C. rewrite !pref_eta.
      rewrite (parse_print_pref _ _ E1), (parse_print_pref _ _ E2). reflexivity.
  Qed.

  (* ---- ranks -------------------------------------------------------------------------------- *)
  Lemma rank_le_8 e : rank e <= 8.
  Proof. destruct e; cbn; lia. Qed.

  Lemma rank_x_false e : rank_x false e = rank e.
  Proof. destruct e; reflexivity. Qed.

  Lemma rank_x_le b e : rank_x b e <= rank e.
  Proof. destruct e; destruct b; cbn; lia. Qed.

  Lemma rank_x_le_8 b e : rank_x b e <= 8.
  Proof. pose proof (rank_x_le b e). pose proof (rank_le_8 e). lia. Qed.

  Lemma ltb_false a b : (a <? b) = false -> b <= a.
  Proof. intro H. apply Nat.ltb_ge in H. exact H. Qed.

  (* ---- the first token ---------------------------------------------------------------------- *)
  Definition is_sign (t : token) : bool := match t with TAddition _ => true | _ => false end.
  Definition is_at (t : token) : bool := match t with TAt => true | _ => false end.
  Definition startb (t : token) : bool :=
    negb (is_rparen t) && negb (is_sep SepComma t) && negb (is_sep SepSemicolon t)
    && negb (match t with TLBracket => true | _ => false end).

  Definition head_spec (k : nat) (ts : list token) : Prop :=
    exists t r, ts = t :: r /\ startb t = true /\ (k <= 2 -> is_sign t = false) /\ (k <= 0 -> is_at t = false).

  Lemma head_spec_app k ts x : head_spec k ts -> head_spec k (ts ++ x).
  Proof. intros (t & r & -> & H). exists t, (r ++ x). split; [reflexivity|exact H]. Qed.

  Lemma head_spec_weaken k k' ts : k' <= k \/ 3 <= k -> head_spec k' ts -> head_spec k ts.
  Proof. intros Hk (t & r & E & Hs & H2 & H0). exists t, r. repeat split; auto; intro; [apply H2|apply H0]; lia. Qed.

  Lemma head_spec_any k t r : startb t = true -> is_sign t = false -> is_at t = false -> head_spec k (t :: r).
  Proof. intros. exists t, r. repeat split; auto. Qed.

  Lemma startb_start t : startb t = true -> start_tok t.
  Proof.
    unfold startb, start_tok. intro H. apply andb_true_iff in H as [H _]. apply andb_true_iff in H as [H H3]. apply andb_true_iff in H as [H1 H2].
    repeat split; apply negb_true_iff; assumption.
  Qed.

  Lemma startb_not_lbracket t : startb t = true -> t <> TLBracket.
  Proof. intros H ->. discriminate H.
  Qed.

  Lemma head_not_sign k ts rest : k <= 2 -> head_spec k ts -> not_sign (ts ++ rest).
  Proof. intros Hk (t & r & -> & _ & H2 & _). specialize (H2 Hk). destruct t; try exact I. discriminate. Qed.

  Lemma head_not_at k ts rest : k <= 0 -> head_spec k ts -> not_at (ts ++ rest).
  Proof. intros Hk (t & r & -> & _ & _ & H0). specialize (H0 Hk). destruct t; try exact I. discriminate. Qed.

  Lemma wrap_head b k ts : (b = false -> head_spec k ts) -> head_spec k (wrap b ts).
  Proof.
    destruct b; cbn [wrap]; intro H; [|apply H; reflexivity].
    apply head_spec_any; reflexivity.
  Qed.

  Ltac split_and :=
    repeat match goal with
    | H : _ && _ = true |- _ => apply andb_true_iff in H; destruct H
    end.

  Lemma heads e :
    image_at m nm env false e = true -> fragment e = true -> no_bad_with pol xl e = true ->
    head_spec (rank_x xl e) (pr e).
  Proof.
    induction e using ast_rect'; intros Hi Hf Hb; cbn [image_at fragment no_bad_with] in Hi, Hf, Hb; try discriminate;
      cbn [gprint]; split_and.
    - apply head_spec_any; reflexivity.
    - apply head_spec_any; reflexivity.
    - apply head_spec_any; reflexivity.
    - (* ERef *) unfold print_ref. unfold pref_ok in *. destruct (print_pref m p); [|discriminate].
      apply head_spec_any; reflexivity.
    - (* ERange *) unfold print_range. unfold range_ok in *.
      destruct (print_pref m p); [|discriminate]. destruct (print_pref m q); [|discriminate].
      apply head_spec_any; reflexivity.
    - (* ERangeOp *) apply head_spec_app. apply wrap_head. intro E.
      match goal with H : negb (bad_child_with _ _ _) = true |- _ => apply negb_true_iff in H; cbn [bad_child_with] in H;
        apply orb_false_iff in H as [Hl Hr] end.
      rewrite E in Hl. cbn [negb andb] in Hl. apply ltb_false in Hl.
      eapply head_spec_weaken; [|apply IHe1; assumption]. left. change (rank_x xl (ERangeOp e1 e2)) with 2. lia.
    - (* EConcat *) apply head_spec_app. apply wrap_head. intros _. eapply head_spec_weaken; [|apply IHe1; assumption].
      right. cbn. lia.
    - (* ESum *) apply head_spec_app. apply wrap_head. intros _.
      eapply head_spec_weaken; [|apply IHe1; assumption]. right. cbn. lia.
    - (* EProd *) apply head_spec_app. apply wrap_head. intros _.
      eapply head_spec_weaken; [|apply IHe1; assumption]. right. cbn. lia.
    - (* EPow *) apply head_spec_app. apply wrap_head. intros _.
      eapply head_spec_weaken; [|apply IHe1; assumption]. right. cbn. lia.
    - (* EFun *) destruct (bool_of_name nm (fn_name nm f)); apply head_spec_any; reflexivity.
    - (* ELambdaDef *) apply head_spec_any; reflexivity.
    - (* ELambdaCall *) destruct e; try discriminate. apply head_spec_any; reflexivity.
    - (* ENamedFun *) apply head_spec_any; reflexivity.
    - (* EArray *) apply head_spec_any; reflexivity.
    - apply head_spec_any; reflexivity.
    - apply head_spec_any; reflexivity.
    - apply head_spec_any; reflexivity.
    - (* EAt *) destruct xl eqn:Hx; [apply head_spec_any; reflexivity|].
      eexists TAt, _. split; [reflexivity|]. repeat split; try reflexivity. cbn. intro; lia.
    - (* ESpill *) destruct xl eqn:Hx; [apply head_spec_any; reflexivity|]. apply head_spec_app. apply wrap_head. intro E.
      match goal with H : negb (bad_child_with _ _ _) = true |- _ => apply negb_true_iff in H; cbn [bad_child_with negb andb] in H end.
      match goal with H : negb (pol_spill pol e) && _ = false |- _ => rewrite E in H; cbn [negb andb] in H; apply ltb_false in H end.
      eapply head_spec_weaken; [|apply IHe; assumption].
      left. change (rank_x false (ESpill e)) with 1. lia.
    - (* ECmp *) apply head_spec_app. apply wrap_head. intros _. eapply head_spec_weaken; [|apply IHe1; assumption].
      right. cbn. lia.
    - (* ENeg *) exists (TAddition SMinus), (wrap (pol_neg pol e) (pr e)). repeat split; try reflexivity; cbn; intro; lia.
    - (* EPct *) apply head_spec_app. apply wrap_head. intros _. eapply head_spec_weaken; [|apply IHe; assumption]. right. cbn. lia.
    - (* EErr *) unfold is_terror in *. destruct (err_tokens nm e) as [|t l]; [discriminate|].
      destruct t; try discriminate. destruct l; [|discriminate]. apply head_spec_any; reflexivity.
  Qed.
End Leaves.
