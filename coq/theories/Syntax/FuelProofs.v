(* Syntax/FuelProofs.v — the default fuel of [Parser.parse] (2 * tokens + 3) is enough for the
   printed form of every parser image: size e <= 2 * length (print e) + 1. *)
From IronCalc Require Import Base.Prelude Codec.RefA1 Syntax.Token Syntax.Ast Syntax.Printer Syntax.Parser
  Syntax.Shape Syntax.RoundTrip Syntax.FixedProofs.
Local Open Scope nat_scope.

Definition sumlen {A} (l : list (list A)) : nat := fold_right (fun x n => length x + n) 0 l.

Lemma join_len s (l : list (list token)) : sumlen l + length l <= length (join s l) + 1.
Proof.
  induction l as [|x l IH]; [cbn; lia|].
  destruct l as [|y l'].
  - cbn [join sumlen fold_right length]. lia.
  - change (join s (x :: y :: l')) with (x ++ s :: join s (y :: l')).
    rewrite app_length. cbn [length sumlen fold_right] in *. lia.
Qed.

Lemma wrap_len b (ts : list token) : length ts <= length (wrap b ts).
Proof. destruct b; cbn [wrap length]; [rewrite app_length; cbn; lia|lia]. Qed.

Section Fuel.
  Variable m : pmode.
  Variable nm : names.
  Variable env : penv.
  Variable pol : policy.
  Notation pr := (gprint m nm pol).

  Definition bounded (e : ast) : Prop := size e <= 2 * length (pr e) + 1.

  Lemma args_bound (args : list ast) :
    Forall bounded args ->
    fold_right (fun a n => size a + n) 0 args <= 2 * sumlen (map pr args) + length args.
  Proof.
    induction 1 as [|a tl Ha _ IH]; cbn [fold_right map sumlen length]; [lia|].
    unfold bounded in Ha. unfold sumlen in IH. lia.
  Qed.

  Lemma call_bound (args : list ast) (s : token) :
    Forall bounded args ->
    fold_right (fun a n => size a + n) 0 args + length args <= 2 * length (join s (map pr args)) + 2.
  Proof.
    intro H. pose proof (args_bound args H). pose proof (join_len s (map pr args)). rewrite map_length in *. lia.
  Qed.

  Lemma aelem_len a : aelem_ok nm a = true -> 1 <= length (print_aelem nm a).
  Proof.
    destruct a as [b|[|] n|s|k|]; cbn [print_aelem aelem_ok length]; try lia; try discriminate.
    unfold is_terror. destruct (err_tokens nm k) as [|t l]; [discriminate|]. cbn; lia.
  Qed.

  Lemma row_len s (row : list aelem) : forallb (aelem_ok nm) row = true ->
    2 * length row <= length (join s (map (print_aelem nm) row)) + 1.
  Proof.
    intro H. pose proof (join_len s (map (print_aelem nm) row)) as J. rewrite map_length in J.
    assert (length row <= sumlen (map (print_aelem nm) row)).
    { induction row as [|a tl IH]; cbn [map sumlen fold_right length]; [lia|].
      cbn [forallb] in H. apply andb_true_iff in H as [Ha Ht]. pose proof (aelem_len a Ha). specialize (IH Ht).
      unfold sumlen in IH.
      assert (sumlen (map (print_aelem nm) tl) + length tl <= length (join s (map (print_aelem nm) tl)) + 1)
        by (pose proof (join_len s (map (print_aelem nm) tl)) as J'; rewrite map_length in J'; exact J').
      unfold sumlen in *. lia. }
    lia.
  Qed.

  Lemma rows_len s1 s2 (rows : list (list aelem)) :
    forallb (forallb (aelem_ok nm)) rows = true ->
    2 * fold_right (fun r n => length r + n) 0 rows <=
    length (join s1 (map (fun row => join s2 (map (print_aelem nm) row)) rows)) + 1 + length rows.
  Proof.
    intro H. pose proof (join_len s1 (map (fun row => join s2 (map (print_aelem nm) row)) rows)) as J.
    rewrite map_length in J.
    assert (2 * fold_right (fun r n => length r + n) 0 rows
            <= sumlen (map (fun row => join s2 (map (print_aelem nm) row)) rows) + length rows).
    { clear J. induction rows as [|r tl IH]; cbn [map sumlen fold_right length]; [lia|].
      cbn [forallb] in H. apply andb_true_iff in H as [Hr Ht]. pose proof (row_len s2 r Hr). specialize (IH Ht).
      unfold sumlen in IH. lia. }
    lia.
  Qed.

  Ltac split_and :=
    repeat match goal with
    | H : _ && _ = true |- _ => apply andb_true_iff in H; destruct H
    end.

  Lemma forall_bounded (args : list ast) arg :
    Forall (fun a => forall arg, image_at m nm env arg a = true -> bounded a) args ->
    forallb (image_at m nm env arg) args = true -> Forall bounded args.
  Proof.
    induction 1 as [|a tl Ha _ IH]; intro Hi; [constructor|].
    cbn [forallb] in Hi. apply andb_true_iff in Hi as [H1 H2]. constructor; [eapply Ha; exact H1|apply IH; exact H2].
  Qed.

  Theorem size_le_tokens e : forall arg, image_at m nm env arg e = true -> bounded e.
  Proof.
    induction e using ast_rect'; intros arg Hi; unfold bounded in *; cbn [image_at] in Hi; split_and;
      try (cbn [size]; lia).
    all: cbn [size gprint].
    all: cbn [length]; repeat rewrite app_length; cbn [length].
    all: repeat match goal with
         | |- context [length (wrap ?b ?ts)] => pose proof (wrap_len b ts); generalize dependent (length (wrap b ts)); intros
         end.
    all: try (repeat match goal with
              | IH : forall arg, image_at m nm env arg ?c = true -> _, H : image_at m nm env _ ?c = true |- _ =>
                  pose proof (IH _ H); clear IH
              end; lia).
    - (* EFun *)
      pose proof (call_bound args (sep_token (arg_sep m)) (forall_bounded args true H ltac:(assumption))).
      pose proof (length_le_sizes args). lia.
    - (* ELambdaDef *)
      match goal with IH : forall arg, image_at m nm env arg ?c = true -> _, H : image_at m nm env _ ?c = true |- _ => pose proof (IH _ H) end.
      pose proof (join_len (sep_token (arg_sep m)) (map (print_param m) ps ++ [pr e])) as J.
      rewrite app_length, map_length in J. cbn [length] in J.
      assert (length ps + length (pr e) <= sumlen (map (print_param m) ps ++ [pr e])).
      { clear. induction ps as [|p tl IH]; cbn [map app sumlen fold_right length]; [lia|].
        assert (1 <= length (print_param m p)) by (unfold print_param; destruct (pm_xlsx m); [cbn; lia|destruct (lp_opt p); cbn; lia]).
        unfold sumlen in IH. lia. }
      unfold sumlen in *. generalize dependent (length (join (sep_token (arg_sep m)) (map (print_param m) ps ++ [pr e]))). intros X J. generalize dependent (fold_right (fun (x : list token) (n : nat) => length x + n) 0 (map (print_param m) ps ++ [pr e])). intros. lia.
    - (* ELambdaCall *)
      destruct e; try discriminate. repeat rewrite app_length. cbn [length]. repeat rewrite app_length. cbn [length].
      match goal with IH : forall arg, image_at m nm env arg ?c = true -> _, H : image_at m nm env _ ?c = true |- _ => pose proof (IH _ H) end.
      pose proof (call_bound args (sep_token (arg_sep m)) (forall_bounded args true H ltac:(assumption))).
      lia.
    - (* ENamedFun *)
      pose proof (call_bound args (sep_token (arg_sep m)) (forall_bounded args true H ltac:(assumption))).
      lia.
    - (* EArray *)
      destruct rows as [|r0 rs]; [discriminate|]. split_and.
      pose proof (rows_len (sep_token (print_row_sep m)) (sep_token (print_col_sep m)) (r0 :: rs) H1) as R.
      assert (length (r0 :: rs) <= fold_right (fun r n => length r + n) 0 (r0 :: rs)).
      { apply negb_true_iff in H. apply Nat.eqb_neq in H.
        clear - H2 H. induction (r0 :: rs) as [|r tl IH]; cbn [length fold_right forallb] in *; [lia|].
        apply andb_true_iff in H2 as [E1 E2]. apply Nat.eqb_eq in E1. specialize (IH E2). lia. }
      lia.
    - (* EAt *) pose proof (IHe _ H0). pose proof (wrap_len (pol_at pol e) (pr e)).
      destruct (pm_xlsx m); cbn [length]; rewrite ?app_length; cbn [length]; lia.
    - (* ESpill *) pose proof (IHe _ H0). pose proof (wrap_len (pol_spill pol e) (pr e)).
      destruct (pm_xlsx m); cbn [length]; rewrite ?app_length; cbn [length]; lia.
  Qed.
End Fuel.

(* the round trip with the parser's own fuel *)
Theorem roundtrip_parse m nm env e :
  image m nm env e = true -> no_bad (pm_xlsx m) e = true -> lower_stable nm e = true ->
  parse m nm env (print m nm e) = Some (e, []).
Proof.
  intros Hi Hb Hl. unfold parse. apply roundtrip_all; try assumption.
  pose proof (size_le_tokens m nm env stringify_policy e false Hi) as B. unfold bounded in B. unfold print. lia.
Qed.

Theorem roundtrip_parse_fixed m nm env e :
  image m nm env e = true -> lower_stable nm e = true ->
  parse m nm env (print_fixed m nm e) = Some (e, []).
Proof.
  intros Hi Hl. unfold parse. apply roundtrip_fixed; try assumption.
  pose proof (size_le_tokens m nm env fixed_policy e false Hi) as B. unfold bounded in B. unfold print_fixed. lia.
Qed.

Theorem roundtrip_parse_glued m nm env e :
  image m nm env e = true -> no_bad (pm_xlsx m) e = true -> lower_stable nm e = true ->
  glue_free (pm_rc m) (print m nm e) = true ->
  parse m nm env (glue (pm_rc m) (print m nm e)) = Some (e, []).
Proof. intros Hi Hb Hl Hg. rewrite (GlueProofs.glue_id _ _ Hg). apply roundtrip_parse; assumption. Qed.
