(* Extract/Extract_c20.v — extraction of the C20 placement model to OCaml. *)
Require Extraction.
Require Import ExtrOcamlBasic.
From IronCalc Require Import Base.Prelude Num.FormatPlace Num.FormatParse Num.FormatNum.
Extraction Language OCaml.
Extraction "model_c20.ml"
  FormatPlace.place FormatPlace.spec_place FormatPlace.wf_part
  FormatPlace.group_ok FormatPlace.exp_ok FormatPlace.qperiod_ok
  FormatParse.parse FormatNum.format_text FormatNum.get_fract_part FormatNum.spec_fract.
