(* Extract/Extract_c21.v — extraction of the C21 models (calendar, serial numbers, date
   functions, yyyy-mm-dd text) to OCaml.  Only ExtrOcamlBasic; Z stays the extracted datatype. *)
Require Extraction.
Require Import ExtrOcamlBasic.
From IronCalc Require Import Base.Prelude Base.Dec Num.Civil.
Extraction Language OCaml.
Extraction "model_c21.ml"
  Civil.of_serial Civil.to_serial Civil.fmt_iso Civil.iso_text Civil.parse_iso
  Civil.fn_year Civil.fn_month Civil.fn_day Civil.fn_weekday Civil.fn_date
  Civil.weekday Civil.civil_of_days Civil.days_of_civil Civil.valid_dateb Civil.in_serial_range.
