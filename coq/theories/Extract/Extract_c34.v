(* Extract/Extract_c34.v — extraction of the C34 (F4 cycling) model to OCaml.
   Only ExtrOcamlBasic is loaded; Z, positive, nat stay the extracted datatypes. *)
Require Extraction.
Require Import ExtrOcamlBasic.
From IronCalc Require Import Base.Prelude Codec.F4.
Extraction Language OCaml.
Extraction "model_c34.ml"
  F4.cycle_endpoint F4.cycle_token_text_x F4.cycle_reference_x F4.f4_ws.
