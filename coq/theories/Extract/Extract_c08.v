(* Extract/Extract_c08.v — extraction of the evaluator model (shared by C05–C08 runners).
   Only ExtrOcamlBasic is loaded; the numeric carrier stays a type parameter, instantiated
   with native doubles in ocaml/h_c06.ml. *)
Require Extraction.
Require Import ExtrOcamlBasic.
From IronCalc Require Import Base.Prelude Eval.NumOps Eval.Value Eval.Coerce Eval.Ops Eval.Funs Eval.Eval Eval.Store Eval.Denote.
Extraction Language OCaml.
Extraction "model_c08.ml"
  NumOps.mkNumOps Store.evaluate_in Store.store_of Store.value_at Store.fuel_for Store.no_nonfinite_b
  Store.type_number Store.api_set_number Store.import_cell Store.oof Denote.values_consistent_b Denote.values_consistent_in_b Denote.denote Eval.eval Eval.result_of.
