Require Extraction.
Require Import ExtrOcamlBasic.
From IronCalc Require Import UserModel.History UserModel.HistoryId.
Extraction Language OCaml.
Extraction "model_c03.ml" HistoryId.wire_run HistoryId.id_init HistoryId.replica_after HistoryId.flush_after.
