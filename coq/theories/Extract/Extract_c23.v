(* Extract/Extract_c23.v — extraction of the C23 models (and the generated tables they read) to OCaml. *)
Require Extraction.
Require Import ExtrOcamlBasic.
From IronCalc Require Import Base.Prelude Generated.Tables_c23 Codec.Names.
Extraction Language OCaml.
Extraction "model_c23.ml"
  Names.lookup Names.call Names.lex_error Names.error_by_name Names.english_lookup Names.upper
  Names.print_error_literal Names.strip_prefixes Names.resolve Names.localized Names.n_lang.
