(* Extract/Extract_c27.v — extraction of the well-formedness predicate (C27) to OCaml. *)
Require Extraction.
Require Import ExtrOcamlBasic.
From IronCalc Require Import Base.Prelude Eval.Spill Sheet.Wf.
Extraction Language OCaml.
Extraction "model_c27.ml"
  Wf.wf_workbook_b Wf.names_valid_b Wf.names_unique_b Wf.ids_unique_b Wf.cells_ok_b Wf.xfs_ok_b
  Wf.cols_ok_b Wf.rows_ok_b Wf.spills_ok_b Wf.dnames_ok_b Wf.init Wf.mkWb Wf.mkSheet Wf.delete_columns_descrs Wf.insert_columns_descrs.
