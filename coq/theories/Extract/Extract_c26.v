(* Extract/Extract_c26.v — extraction of the C26 model: the loader's re-parse of a stored formula
   (Persist.parse_stored over Syntax.Parser.parse) and the stored integer literal. *)
Require Extraction.
Require Import ExtrOcamlBasic.
From IronCalc Require Import Base.Prelude Codec.RefA1 Syntax.Token Syntax.Ast Syntax.Printer Syntax.Parser Syntax.Shape Sheet.Persist.
Extraction Language OCaml.
Extraction "model_c26.ml" Persist.parse_stored Persist.parse_formulas Persist.store_int Persist.m_rc1 Printer.print Shape.glue.
