(* Extract/Extract_c11.v — extraction of the lexer cursor model to OCaml. *)
Require Extraction.
Require Import ExtrOcamlBasic.
From IronCalc Require Import Base.Prelude Syntax.LexerSafe.
Extraction Language OCaml.
Extraction "model_c11.ml" LexerSafe.Exec.lex.
