(* Extract/Extract_c13.v — extraction of the displacement models for the C13 runner. *)
Require Extraction.
Require Import ExtrOcamlBasic.
From IronCalc Require Import Base.Prelude Base.Dec Codec.Column Codec.RefA1 Syntax.Displace.
Extraction Language OCaml.
Extraction "model_c13.ml"
  Displace.displace_text Displace.displace_range_text Displace.cell_map Displace.apply_disp_full
  Displace.apply_disp_seq Displace.move_disps Displace.iterate_moves Displace.hidden_adjust Displace.move_valid Displace.edit_valid.
