(* Extract/Extract_c31.v — extraction of the spill model (C31) to OCaml. *)
Require Extraction.
Require Import ExtrOcamlBasic.
From IronCalc Require Import Base.Prelude Eval.Spill.
Extraction Language OCaml.
Extraction "model_c31.ml"
  Spill.get Spill.set Spill.eval_anchor Spill.eval_anchors Spill.write_dynamic Spill.clear_own_spills
  Spill.prepare_for_input Spill.input_value Spill.reset_spills
  Spill.spill_exact_b Spill.spill_full_b Spill.spill_covered_b Spill.ext_ok_b Spill.disjoint_pair_b Spill.is_anchor_b Spill.keys.
