(* Extract/Extract_c16.v — extraction of the C16 models (moved printer, reference moves). *)
Require Extraction.
Require Import ExtrOcamlBasic.
From IronCalc Require Import Base.Prelude Codec.RefA1 Syntax.Token Syntax.Ast Syntax.Printer Syntax.Parser Syntax.Shape Syntax.PrinterMoved.
Extraction Language OCaml.
Extraction "model_c16.ml"
  Printer.print Parser.parse Shape.glue Shape.image Shape.no_bad_with Shape.bad_child_with Shape.lower_stable Ast.kind_of Shape.kind_name
  PrinterMoved.print_moved PrinterMoved.move_ast PrinterMoved.moved_class PrinterMoved.moved_policy
  PrinterMoved.move_ref PrinterMoved.move_range PrinterMoved.m_tgt PrinterMoved.m_src PrinterMoved.ref_is_in_area PrinterMoved.external_skipped PrinterMoved.external_rewritten.
