(* Extract/Extract_c29.v — extraction of the C29 models (column descriptors, row records). *)
Require Extraction.
Require Import ExtrOcamlBasic.
From IronCalc Require Import Base.Prelude Sheet.Cols Sheet.Rows.
Extraction Language OCaml.
Extraction "model_c29.ml"
  Cols.step_cop Cols.apply_cop Cols.run_cops Cols.style_at
  Cols.get_column_width Cols.get_actual_column_width Cols.is_column_hidden Cols.get_column_style
  Rows.step_rop Rows.apply_rop Rows.materialises
  Rows.row_height Rows.is_row_hidden Rows.get_row_style Rows.rheight_at Rows.rstyle_at.
