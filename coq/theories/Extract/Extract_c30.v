(* Extract/Extract_c30.v — extraction of the C30 model (style pools). *)
Require Extraction.
Require Import ExtrOcamlBasic.
From IronCalc Require Import Base.Prelude Generated.NumFmts_c30 Sheet.Cols Sheet.Rows Sheet.Styles Sheet.StyleLayer.
Extraction Language OCaml.
Extraction "model_c30.ml"
  Styles.intern Styles.get_style Styles.get_num_fmt Styles.get_default_num_fmt_id
  Styles.get_new_num_fmt_index Styles.NBUILTIN
  StyleLayer.set_cell_style StyleLayer.get_cell_style_index StyleLayer.layer_set_row_style
  StyleLayer.layer_set_column_style Rows.get_row_style Cols.style_at
  StyleLayer.apply_lop StyleLayer.step_lop StyleLayer.get_cell_style_or_none.
