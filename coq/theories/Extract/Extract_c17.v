(* Extract/Extract_c17.v — extraction of the C17 models (node pass, per-formula step, sheet list). *)
Require Extraction.
Require Import ExtrOcamlBasic.
From IronCalc Require Import Base.Prelude Codec.RefA1 Syntax.Token Syntax.Ast Syntax.Printer Syntax.Parser Syntax.Shape Syntax.Rename.
Extraction Language OCaml.
Extraction "model_c17.ml"
  Printer.print Parser.parse Shape.glue Shape.image
  Rename.rename_node Rename.rename_stored Rename.env_renamed Rename.env_dup Rename.dup_node Rename.reindex
  Rename.dup_index Rename.move_list Rename.rename_check Rename.is_valid_sheet_name Rename.m_stored
  Rename.no_ghost_range Rename.no_ghost_named.
