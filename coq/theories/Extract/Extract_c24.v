(* Extract/Extract_c24.v — extraction of the escaping codec models to OCaml. *)
Require Extraction.
Require Import ExtrOcamlBasic.
From IronCalc Require Import Base.Prelude Codec.XmlEscape.
Extraction Language OCaml.
Extraction "model_c24.ml"
  XmlEscape.escape XmlEscape.xesc XmlEscape.decode XmlEscape.xml_unescape XmlEscape.roundtrip XmlEscape.collides.
