(* Extract/Extract_c10.v — extraction of the C10 models: the language instances of the printer /
   parser parameters over the generated tables (Localize.names_of), the display mode, and the
   printer / parser / lexer-glue themselves. *)
Require Extraction.
Require Import ExtrOcamlBasic.
From IronCalc Require Import Base.Prelude Codec.RefA1 Syntax.Token Syntax.Ast Syntax.Printer Syntax.Parser Syntax.Shape Syntax.Localize.
Extraction Language OCaml.
Extraction "model_c10.ml" Localize.names_of Localize.m_display Localize.fn_ok Localize.names_ok Printer.print Parser.parse Shape.glue Shape.no_bad Localize.cf_rule_input_to_internal Localize.cf_slots.
