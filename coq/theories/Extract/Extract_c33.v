(* Extract/Extract_c33.v — extraction of the metadata models (links, conditional-format
   ranges) and of the displacement models they are compared with, for the C33 runner. *)
Require Extraction.
Require Import ExtrOcamlBasic.
From IronCalc Require Import Base.Prelude Base.Dec Codec.Column Codec.RefA1 Syntax.Displace Syntax.Metadata.
Extraction Language OCaml.
Extraction "model_c33.ml"
  Displace.displace_text Displace.displace_range_text Displace.cell_map
  Metadata.link_map Metadata.link_block_move Metadata.cf_sqref Metadata.cf_entry Metadata.cf_on_sheet Metadata.cf_part Metadata.cf_anchor
  Metadata.cf_defect Metadata.cf_cut_sqref Metadata.rel_range.
