(* Extract/Extract_c22.v — extraction of the C22 models to OCaml.
   Only ExtrOcamlBasic is loaded; Z, N, positive stay the extracted datatypes. *)
Require Extraction.
Require Import ExtrOcamlBasic.
From IronCalc Require Import Base.Prelude Base.Dec Codec.Column Codec.RefA1 Codec.RefRC Codec.SheetName.
Extraction Language OCaml.
Extraction "model_c22.ml"
  Dec.dec_of_Z Dec.dec_val
  Column.column_to_number Column.number_to_column Column.is_valid_column Column.col_overflows
  RefA1.parse_reference_a1 RefA1.print_a1 RefRC.parse_reference_r1c1 RefRC.print_rc
  SheetName.quote_name_x SheetName.lex_sheet_prefix_x SheetName.lex_reference_r1c1_x
  SheetName.x_alpha SheetName.x_alnum SheetName.x_ws.
