Require Extraction.
Require Import ExtrOcamlBasic.
From Coq Require Import ZArith.
From IronCalc Require Import UserModel.AtomicTable.
Extraction Language OCaml.
Extraction "model_c04.ml" AtomicTable.predict BinInt.Z.add.  (* Z only so that the shared helpers compile *)
