(* Extract/Extract_c09.v — extraction of the C09 models (printer, parser, bad-pair and glue
   predicates) to OCaml. Only ExtrOcamlBasic is loaded; Z, positive, nat stay datatypes. *)
Require Extraction.
Require Import ExtrOcamlBasic.
From IronCalc Require Import Base.Prelude Codec.RefA1 Syntax.Token Syntax.Ast Syntax.Printer Syntax.Parser Syntax.Shape Syntax.FullRange.
Extraction Language OCaml.
Extraction "model_c09.ml"
  Printer.print Printer.print_fixed Parser.parse Parser.parse_fuel Ast.size Ast.kind_of
  Shape.glue Shape.glue_free Shape.bad_pairs Shape.no_bad Shape.image Shape.fragment Shape.kind_name
  FullRange.full_row FullRange.full_column.
