(* Extract/Extract_c25.v — extraction of the C25 navigation skeleton to OCaml. *)
Require Extraction.
Require Import ExtrOcamlBasic.
From IronCalc Require Import Base.Prelude Xlsx.Skeleton Xlsx.EscapeSafe.
Extraction Language OCaml.
Extraction "model_c25.ml"
  Skeleton.load_skel Skeleton.load_workbook_skel Skeleton.load_rels_skel Skeleton.load_styles_skel
  EscapeSafe.decode_cursor_x.
