(* Extract/Extract_c28.v — extraction of the C28 selection model to OCaml.
   Only ExtrOcamlBasic is loaded; Z, N, positive, nat stay the extracted datatypes. *)
Require Extraction.
Require Import ExtrOcamlBasic.
From IronCalc Require Import Base.Prelude Base.Dec UserModel.Selection.
Extraction Language OCaml.
Extraction "model_c28.ml"
  Dec.dec_of_Z Dec.dec_val Z.opp
  Selection.step_r Selection.state_of Selection.mk_state Selection.new_sheet_rec Selection.SHEET
  Selection.get_sheet Selection.nsheets Selection.zassoc Selection.zmem
  Selection.sel_ok_b Selection.all_ok_b Selection.bad.
