(* Extract/Extract_c18.v — extraction of the C18 models to OCaml. *)
Require Extraction.
Require Import ExtrOcamlBasic.
From IronCalc Require Import Base.Prelude Base.Dec Num.Recognise UserModel.Reenter Generated.Locales_c19.
Extraction Language OCaml.
Extraction "model_c18.ml"
  Reenter.apply_input Reenter.display Reenter.empty_cell
  Locales_c19.locales Locales_c19.languages.
