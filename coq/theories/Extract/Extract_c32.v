(* Extract/Extract_c32.v — extraction of the C32 model: the defined-name rename pass. *)
Require Extraction.
Require Import ExtrOcamlBasic.
From IronCalc Require Import Base.Prelude Codec.RefA1 Syntax.Token Syntax.Ast Syntax.Shape Syntax.RenameName Syntax.Localize.
Extraction Language OCaml.
Extraction "model_c32.ml" RenameName.rename RenameName.defnames RenameName.erase Localize.lower Localize.names_of RenameName.update_name_in_formula Shape.glue.
