(* Extract/Extract_c19.v — extraction of the C19 models to OCaml. *)
Require Extraction.
Require Import ExtrOcamlBasic.
From IronCalc Require Import Base.Prelude Base.Dec Num.Recognise Num.RecogniseSpec Generated.Locales_c19.
Extraction Language OCaml.
Extraction "model_c19.ml"
  Recognise.user_input Recognise.parse_formatted_number Recognise.is_ws Recognise.to_upper
  Recognise.upper_char Recognise.p_commas
  RecogniseSpec.spec_recognise RecogniseSpec.spec_stored RecogniseSpec.agrees RecogniseSpec.known_class
  Locales_c19.locales Locales_c19.languages.
