(* Xlsx/EscapeSafe.v — index arithmetic of `decode_xlsx_escapes` (xlsx/src/import/shared_strings.rs)
   over the BYTES of a &str, with [Panic] for `bytes[j]` out of range and for a `&s[a..b]` whose
   ends are out of range or not on a character boundary.

   What the decoder RETURNS is the business of Codec/XmlEscape.v ([decode], C24); this file only
   follows the cursor: `while i < len`, the guard `i + 6 < len`, `bytes[i]`, `bytes[i + 1]`,
   `bytes[i + 6]`, `&s[i + 2..i + 6]`, `i += 7`, `s[i..].chars().next()`, `i += c.len_utf8()`.
   [strict = true] is the guard of the code (`i + 6 < len`); [strict = false] is the off-by-one
   variant `i + 6 <= len`, kept to show that the model is sensitive to it.
   Indices are [nat] (usize; no subtraction occurs).  [Err] = out of loop fuel.  No proofs here. *)
From IronCalc Require Import Base.Prelude.
Local Open Scope nat_scope.

Definition is_cont (b : Z) : bool := ((128 <=? b) && (b <=? 191))%Z.      (* 10xxxxxx *)
(* char::len_utf8 from the lead byte *)
Definition width (b : Z) : nat :=
  if (b <? 128)%Z then 1 else if (b <? 224)%Z then 2 else if (b <? 240)%Z then 3 else 4.
Definition is_hexdigit (c : Z) : bool :=
  (((48 <=? c) && (c <=? 57)) || ((65 <=? c) && (c <=? 70)) || ((97 <=? c) && (c <=? 102)))%Z.

Section Decode.
  Variable bytes : list Z.
  Variable scalar_ok : list Z -> bool.     (* u32::from_str_radix(hex, 16) + char::from_u32 succeed *)
  Variable strict : bool.

  Definition blen : nat := length bytes.

  (* bytes[j] *)
  Definition byte_at (j : nat) : outcome Z :=
    if j <? blen then Ok (nth j bytes 0%Z) else Panic.

  (* str::is_char_boundary *)
  Definition boundary (j : nat) : bool :=
    (j =? 0) || (j =? blen) || ((j <? blen) && negb (is_cont (nth j bytes 0%Z))).

  (* &s[a..b] *)
  Definition str_slice (a b : nat) : outcome (list Z) :=
    if (a <=? b) && (b <=? blen) && boundary a && boundary b
    then Ok (firstn (b - a) (skipn a bytes)) else Panic.

  (* the `if i + 6 < len && bytes[i] == b'_' && bytes[i + 1] == b'x' && bytes[i + 6] == b'_'` test
     (short-circuit `&&`), then the hex slice and the two conversions: true = `i += 7; continue` *)
  Definition try_escape (i : nat) : outcome bool :=
    if (if strict then i + 6 <? blen else i + 6 <=? blen) then
      obind (byte_at i) (fun b0 =>
      if negb (b0 =? 95)%Z then Ok false else
      obind (byte_at (i + 1)) (fun b1 =>
      if negb (b1 =? 120)%Z then Ok false else
      obind (byte_at (i + 6)) (fun b6 =>
      if negb (b6 =? 95)%Z then Ok false else
      obind (str_slice (i + 2) (i + 6)) (fun hex =>
      Ok (forallb is_hexdigit hex && scalar_ok hex)))))
    else Ok false.

  Fixpoint dloop (fuel : nat) (i : nat) : outcome unit :=
    if i <? blen then
      match fuel with
      | O => Err
      | S f =>
        obind (try_escape i) (fun esc =>
        if esc then dloop f (i + 7)
        else
          (* s[i..].chars().next() *)
          obind (str_slice i blen) (fun rest =>
          match rest with
          | [] => Ok tt                       (* break *)
          | b :: _ => dloop f (i + width b)
          end))
      end
    else Ok tt.

  (* decode_xlsx_escapes(s): the `contains("_x")` shortcut only skips the loop *)
  Definition decode_cursor : outcome unit := dloop blen 0.
End Decode.

(* executable instance for the correspondence run: char::from_u32 rejects exactly the surrogates
   D800..DFFF among four hex digits *)
Definition scalar_ok_x (hex : list Z) : bool :=
  match hex with
  | d1 :: d2 :: _ =>
    negb (((d1 =? 68) || (d1 =? 100)) && (((56 <=? d2) && (d2 <=? 57)) || ((65 <=? d2) && (d2 <=? 70)) || ((97 <=? d2) && (d2 <=? 102))))%Z
  | _ => true
  end.
Definition decode_cursor_x (bytes : list Z) : outcome unit := decode_cursor bytes scalar_ok_x true.

(* well-formed UTF-8 SHAPE (all that the cursor needs): a sequence of characters, each a
   non-continuation lead byte followed by exactly [width lead - 1] continuation bytes *)
Inductive utf8_shape : list Z -> Prop :=
| shape_nil : utf8_shape []
| shape_char b cs rest :
    is_cont b = false -> length cs = width b - 1 -> forallb is_cont cs = true ->
    utf8_shape rest -> utf8_shape (b :: cs ++ rest).
