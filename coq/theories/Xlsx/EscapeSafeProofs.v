(* Xlsx/EscapeSafeProofs.v — `decode_xlsx_escapes` never indexes out of range and never slices off a
   character boundary, for every well-formed byte string; the off-by-one guard does. *)
From IronCalc Require Import Base.Prelude Xlsx.EscapeSafe.
Local Open Scope nat_scope.

Lemma nth_skipn_add {A} (l : list A) i k d : nth (i + k) l d = nth k (skipn i l) d.
Proof.
  revert l; induction i as [|i IH]; intros l; [reflexivity|].
  destruct l as [|a l]; cbn [plus skipn nth]; [destruct k; reflexivity|apply IH].
Qed.

Lemma skipn_add {A} (l : list A) i k : skipn (i + k) l = skipn k (skipn i l).
Proof.
  revert l; induction i as [|i IH]; intros l; [reflexivity|].
  destruct l as [|a l]; cbn [plus skipn]; [destruct k; reflexivity|apply IH].
Qed.

Lemma skipn_cons_nth {A} (l : list A) i b r d : skipn i l = b :: r -> nth i l d = b /\ i < length l.
Proof.
  intros H. split.
  - replace i with (i + 0) by lia. rewrite nth_skipn_add, H. reflexivity.
  - destruct (Nat.lt_ge_cases i (length l)) as [|Hge]; [assumption|].
    rewrite skipn_all2 in H by lia. discriminate.
Qed.

Lemma skipn_nonempty {A} (l : list A) i : i < length l -> exists b r, skipn i l = b :: r.
Proof.
  intros H. destruct (skipn i l) as [|b r] eqn:E; [|eauto].
  exfalso. pose proof (skipn_length i l) as SL. rewrite E in SL. cbn in SL. lia.
Qed.

Lemma width_pos b : 1 <= width b.
Proof. unfold width. repeat destruct (_ <? _)%Z; lia. Qed.

(* one character off the front *)
Lemma shape_step b r : utf8_shape (b :: r) ->
  is_cont b = false /\ width b - 1 <= length r /\ utf8_shape (skipn (width b - 1) r).
Proof.
  intros H. inversion H as [|b' cs rest Hb Hl Hc Hr]; subst.
  split; [exact Hb|]. rewrite app_length. split; [lia|].
  rewrite <- Hl. rewrite skipn_app, skipn_all, Nat.sub_diag. cbn. exact Hr.
Qed.

Lemma shape_ascii b r : utf8_shape (b :: r) -> (b < 128)%Z -> utf8_shape r.
Proof.
  intros H Hb. destruct (shape_step _ _ H) as [_ [_ S]].
  unfold width in S. destruct (b <? 128)%Z eqn:E; [exact S|apply Z.ltb_ge in E; lia].
Qed.

Section Safe.
  Variable bytes : list Z.
  Variable scalar_ok : list Z -> bool.
  Hypothesis shape : utf8_shape bytes.

  Notation len := (blen bytes).

  (* every character start is a suffix in shape *)
  Definition at_char (i : nat) : Prop := i <= len /\ utf8_shape (skipn i bytes).

  Lemma at_char_boundary i : at_char i -> boundary bytes i = true.
  Proof.
    intros [Hi S]. unfold boundary.
    destruct (Nat.eq_dec i len) as [->|Hne]; [rewrite Nat.eqb_refl, orb_true_r; reflexivity|].
    assert (Hlt : i < len) by lia.
    destruct (skipn_nonempty bytes i Hlt) as [b [r E]]. rewrite E in S.
    destruct (shape_step _ _ S) as [Hb _].
    destruct (skipn_cons_nth _ _ _ _ 0%Z E) as [Hn _]. rewrite Hn, Hb.
    apply Nat.ltb_lt in Hlt. unfold blen in *. rewrite Hlt. cbn. rewrite !orb_true_r. reflexivity.
  Qed.

  (* an ASCII byte at a character start: the next position is a character start *)
  Lemma at_char_ascii i :
    at_char i -> i < len -> (nth i bytes 0 < 128)%Z -> at_char (i + 1).
  Proof.
    intros [Hi S] Hlt Hb. destruct (skipn_nonempty bytes i Hlt) as [b [r E]].
    destruct (skipn_cons_nth _ _ _ _ 0%Z E) as [Hn _]. rewrite Hn in Hb. rewrite E in S.
    split; [unfold blen in *; lia|]. rewrite skipn_add, E. cbn [skipn]. eapply shape_ascii; eassumption.
  Qed.

  Lemma byte_at_ok j : j < len -> byte_at bytes j = Ok (nth j bytes 0%Z).
  Proof. intros H. unfold byte_at. apply Nat.ltb_lt in H. rewrite H. reflexivity. Qed.

  Lemma str_slice_ok a b :
    a <= b -> b <= len -> boundary bytes a = true -> boundary bytes b = true ->
    str_slice bytes a b = Ok (firstn (b - a) (skipn a bytes)).
  Proof.
    intros H1 H2 Ba Bb. unfold str_slice.
    apply Nat.leb_le in H1. apply Nat.leb_le in H2. rewrite H1, H2, Ba, Bb. reflexivity.
  Qed.

  Lemma firstn4 (l : list Z) : 4 <= length l ->
    firstn 4 l = [nth 0 l 0%Z; nth 1 l 0%Z; nth 2 l 0%Z; nth 3 l 0%Z].
  Proof. destruct l as [|a [|b [|c [|d l]]]]; cbn [length]; intros H; try lia. reflexivity. Qed.

  Lemma hex_lt_128 c : is_hexdigit c = true -> (c < 128)%Z.
  Proof.
    unfold is_hexdigit. intros H.
    repeat (apply orb_true_iff in H as [H|H]); apply andb_true_iff in H as [_ H]; apply Z.leb_le in H; lia.
  Qed.

  (* the escape test with the guard of the code: no panic; when it fires, i + 7 is a character start *)
  Lemma try_escape_safe i :
    at_char i ->
    exists e, try_escape bytes scalar_ok true i = Ok e /\ (e = true -> at_char (i + 7)).
  Proof.
    intros A. unfold try_escape.
    destruct (i + 6 <? len) eqn:G; [|eexists; split; [reflexivity|discriminate]].
    apply Nat.ltb_lt in G.
    rewrite byte_at_ok by lia. cbn [obind].
    destruct (nth i bytes 0 =? 95)%Z eqn:E0; cbn [negb]; [|eexists; split; [reflexivity|discriminate]].
    apply Z.eqb_eq in E0.
    rewrite byte_at_ok by lia. cbn [obind].
    destruct (nth (i + 1) bytes 0 =? 120)%Z eqn:E1; cbn [negb]; [|eexists; split; [reflexivity|discriminate]].
    apply Z.eqb_eq in E1.
    rewrite byte_at_ok by lia. cbn [obind].
    destruct (nth (i + 6) bytes 0 =? 95)%Z eqn:E6; cbn [negb]; [|eexists; split; [reflexivity|discriminate]].
    apply Z.eqb_eq in E6.
    (* '_' and 'x' are ASCII: i + 2 is a character start, hence a boundary *)
    assert (A1 : at_char (i + 1)) by (apply at_char_ascii; [exact A|lia|lia]).
    assert (A2 : at_char (i + 2)).
    { replace (i + 2) with (i + 1 + 1) by lia. apply at_char_ascii; [exact A1|lia|lia]. }
    (* bytes[i + 6] = '_' is not a continuation byte: i + 6 is a boundary *)
    assert (B6 : boundary bytes (i + 6) = true).
    { unfold boundary. assert (L : (i + 6 <? len) = true) by (apply Nat.ltb_lt; lia).
      rewrite L, E6. cbn. rewrite !orb_true_r. reflexivity. }
    rewrite str_slice_ok; [|lia|lia|apply at_char_boundary; exact A2|exact B6]. cbn [obind].
    eexists; split; [reflexivity|]. intros He. apply andb_true_iff in He as [Hhex _].
    replace (i + 6 - (i + 2)) with 4 in Hhex by lia.
    assert (L4 : 4 <= length (skipn (i + 2) bytes)) by (rewrite skipn_length; unfold blen in *; lia).
    rewrite (firstn4 _ L4) in Hhex. cbn [forallb] in Hhex.
    rewrite <- !nth_skipn_add in Hhex.
    repeat (apply andb_true_iff in Hhex as [? Hhex]).
    assert (A3 : at_char (i + 3)).
    { replace (i + 3) with (i + 2 + 1) by lia. apply at_char_ascii; [exact A2|lia|].
      replace (i + 2) with (i + 2 + 0) by lia. apply hex_lt_128; assumption. }
    assert (A4 : at_char (i + 4)).
    { replace (i + 4) with (i + 3 + 1) by lia. apply at_char_ascii; [exact A3|lia|].
      replace (i + 3) with (i + 2 + 1) by lia. apply hex_lt_128; assumption. }
    assert (A5 : at_char (i + 5)).
    { replace (i + 5) with (i + 4 + 1) by lia. apply at_char_ascii; [exact A4|lia|].
      replace (i + 4) with (i + 2 + 2) by lia. apply hex_lt_128; assumption. }
    assert (A6 : at_char (i + 6)).
    { replace (i + 6) with (i + 5 + 1) by lia. apply at_char_ascii; [exact A5|lia|].
      replace (i + 5) with (i + 2 + 3) by lia. apply hex_lt_128; assumption. }
    replace (i + 7) with (i + 6 + 1) by lia. apply at_char_ascii; [exact A6|lia|lia].
  Qed.

  Lemma dloop_safe fuel i : at_char i -> dloop bytes scalar_ok true fuel i <> Panic.
  Proof.
    revert i; induction fuel as [|f IH]; intros i A; cbn [dloop].
    - destruct (i <? len); discriminate.
    - destruct (i <? len) eqn:Hlt; [|discriminate]. apply Nat.ltb_lt in Hlt.
      destruct (try_escape_safe i A) as [e [He Hn]]. rewrite He. cbn [obind].
      destruct e; [apply IH; apply Hn; reflexivity|].
      destruct A as [Hi S].
      rewrite str_slice_ok; [|lia|lia|apply at_char_boundary; split; assumption|].
      2:{ unfold boundary. rewrite Nat.eqb_refl, orb_true_r. reflexivity. }
      cbn [obind].
      destruct (skipn_nonempty bytes i Hlt) as [b [r E]].
      assert (F : firstn (len - i) (skipn i bytes) = b :: r).
      { rewrite firstn_all2; [exact E|]. rewrite skipn_length. unfold blen. lia. }
      rewrite F. apply IH.
      rewrite E in S. destruct (shape_step _ _ S) as [_ [Hw Sr]].
      pose proof (width_pos b) as Wp.
      assert (Lr : length r = len - i - 1).
      { pose proof (skipn_length i bytes) as SL. rewrite E in SL. cbn [length] in SL. unfold blen. lia. }
      split; [lia|].
      replace (i + width b) with (i + (1 + (width b - 1))) by lia.
      rewrite skipn_add, E. cbn [plus skipn]. exact Sr.
  Qed.

  Theorem decode_cursor_safe : decode_cursor bytes scalar_ok true <> Panic.
  Proof.
    unfold decode_cursor. apply dloop_safe. split; [lia|exact shape].
  Qed.
End Safe.

(* sensitivity: with the off-by-one guard `i + 6 <= len` the cursor model panics on "batch_x2024"
   (the escape look-alike cut off just before its closing '_'): `bytes[i + 6]` with i + 6 = len *)
Definition w_batch : list Z := [98; 97; 116; 99; 104; 95; 120; 50; 48; 50; 52]%Z.

Lemma w_batch_shape : utf8_shape w_batch.
Proof.
  unfold w_batch.
  repeat (apply (shape_char _ [] _); [reflexivity|reflexivity|reflexivity|]). apply shape_nil.
Qed.

Lemma off_by_one_guard_panics : decode_cursor w_batch (fun _ => true) false = Panic.
Proof. vm_compute. reflexivity. Qed.

Lemma code_guard_ok_on_witness : decode_cursor w_batch (fun _ => true) true = Ok tt.
Proof. vm_compute. reflexivity. Qed.
