(* Xlsx/Refutations.v — the unguarded statement "the importer never panics" is false for the
   skeleton as the code stands: witness packages (Generated/Witness_c25.v, the same packages the
   harness builds as zip files and feeds to the real importer) evaluated by vm_compute.
   Each witness violates the guard and makes the skeleton panic (three former witnesses, repaired by
   2db1935 / f8b4521 / d5aa85e, now return Err and satisfy the guard, see the fixed_ lemmas); the valid base packages satisfy
   the guard and load. *)
From IronCalc Require Import Base.Prelude Xlsx.Skeleton Xlsx.SkeletonProofs Generated.Witness_c25.

Definition never_panics : Prop := forall p, load_skel p <> Panic.

(* repaired in /repo: the former witness now satisfies the guard and the importer returns Err *)
Lemma fixed_no_sheetdata : guard w_no_sheetdata = true /\ load_skel w_no_sheetdata = Err.
Proof. split; vm_compute; reflexivity. Qed.

Lemma panics_short_target_empty : guard w_short_target_empty = false /\ load_skel w_short_target_empty = Panic.
Proof. split; vm_compute; reflexivity. Qed.

Lemma refuted_short_target_empty : ~ never_panics.
Proof. intros H. exact (H w_short_target_empty (proj2 panics_short_target_empty)). Qed.

Lemma panics_short_target_one : guard w_short_target_one = false /\ load_skel w_short_target_one = Panic.
Proof. split; vm_compute; reflexivity. Qed.

Lemma refuted_short_target_one : ~ never_panics.
Proof. intros H. exact (H w_short_target_one (proj2 panics_short_target_one)). Qed.

Lemma panics_nonboundary_target : guard w_nonboundary_target = false /\ load_skel w_nonboundary_target = Panic.
Proof. split; vm_compute; reflexivity. Qed.

Lemma refuted_nonboundary_target : ~ never_panics.
Proof. intros H. exact (H w_nonboundary_target (proj2 panics_nonboundary_target)). Qed.

Lemma panics_short_table_target : guard w_short_table_target = false /\ load_skel w_short_table_target = Panic.
Proof. split; vm_compute; reflexivity. Qed.

Lemma refuted_short_table_target : ~ never_panics.
Proof. intros H. exact (H w_short_table_target (proj2 panics_short_table_target)). Qed.

Lemma panics_no_worksheets_dir : guard w_no_worksheets_dir = false /\ load_skel w_no_worksheets_dir = Panic.
Proof. split; vm_compute; reflexivity. Qed.

Lemma refuted_no_worksheets_dir : ~ never_panics.
Proof. intros H. exact (H w_no_worksheets_dir (proj2 panics_no_worksheets_dir)). Qed.

(* repaired in /repo: the former witness now satisfies the guard and the importer returns Err *)
Lemma fixed_dangling_rid : guard w_dangling_rid = true /\ load_skel w_dangling_rid = Err.
Proof. split; vm_compute; reflexivity. Qed.

(* repaired in /repo: the former witness now satisfies the guard and the importer returns Err *)
Lemma fixed_local_sheet_id_out_of_range : guard w_local_sheet_id_out_of_range = true /\ load_skel w_local_sheet_id_out_of_range = Err.
Proof. split; vm_compute; reflexivity. Qed.

Lemma panics_defined_name_without_worksheets : guard w_defined_name_without_worksheets = false /\ load_skel w_defined_name_without_worksheets = Panic.
Proof. split; vm_compute; reflexivity. Qed.

Lemma refuted_defined_name_without_worksheets : ~ never_panics.
Proof. intros H. exact (H w_defined_name_without_worksheets (proj2 panics_defined_name_without_worksheets)). Qed.

Lemma panics_styles_no_fonts : guard w_styles_no_fonts = false /\ load_skel w_styles_no_fonts = Panic.
Proof. split; vm_compute; reflexivity. Qed.

Lemma refuted_styles_no_fonts : ~ never_panics.
Proof. intros H. exact (H w_styles_no_fonts (proj2 panics_styles_no_fonts)). Qed.

Lemma panics_styles_no_fills : guard w_styles_no_fills = false /\ load_skel w_styles_no_fills = Panic.
Proof. split; vm_compute; reflexivity. Qed.

Lemma refuted_styles_no_fills : ~ never_panics.
Proof. intros H. exact (H w_styles_no_fills (proj2 panics_styles_no_fills)). Qed.

Lemma panics_styles_no_borders : guard w_styles_no_borders = false /\ load_skel w_styles_no_borders = Panic.
Proof. split; vm_compute; reflexivity. Qed.

Lemma refuted_styles_no_borders : ~ never_panics.
Proof. intros H. exact (H w_styles_no_borders (proj2 panics_styles_no_borders)). Qed.

Lemma panics_styles_no_cellstylexfs : guard w_styles_no_cellstylexfs = false /\ load_skel w_styles_no_cellstylexfs = Panic.
Proof. split; vm_compute; reflexivity. Qed.

Lemma refuted_styles_no_cellstylexfs : ~ never_panics.
Proof. intros H. exact (H w_styles_no_cellstylexfs (proj2 panics_styles_no_cellstylexfs)). Qed.

Lemma panics_styles_no_cellstyles : guard w_styles_no_cellstyles = false /\ load_skel w_styles_no_cellstyles = Panic.
Proof. split; vm_compute; reflexivity. Qed.

Lemma refuted_styles_no_cellstyles : ~ never_panics.
Proof. intros H. exact (H w_styles_no_cellstyles (proj2 panics_styles_no_cellstyles)). Qed.

Lemma panics_styles_no_cellxfs : guard w_styles_no_cellxfs = false /\ load_skel w_styles_no_cellxfs = Panic.
Proof. split; vm_compute; reflexivity. Qed.

Lemma refuted_styles_no_cellxfs : ~ never_panics.
Proof. intros H. exact (H w_styles_no_cellxfs (proj2 panics_styles_no_cellxfs)). Qed.

Lemma panics_rgb_nonboundary : guard w_rgb_nonboundary = false /\ load_skel w_rgb_nonboundary = Panic.
Proof. split; vm_compute; reflexivity. Qed.

Lemma refuted_rgb_nonboundary : ~ never_panics.
Proof. intros H. exact (H w_rgb_nonboundary (proj2 panics_rgb_nonboundary)). Qed.

Lemma panics_comment_t_without_text : guard w_comment_t_without_text = false /\ load_skel w_comment_t_without_text = Panic.
Proof. split; vm_compute; reflexivity. Qed.

Lemma refuted_comment_t_without_text : ~ never_panics.
Proof. intros H. exact (H w_comment_t_without_text (proj2 panics_comment_t_without_text)). Qed.

Lemma bases_load :
  (guard base_0 = true /\ load_skel base_0 = Ok tt) /\ (guard base_1 = true /\ load_skel base_1 = Ok tt) /\
  (guard base_2 = true /\ load_skel base_2 = Ok tt) /\ (guard base_3 = true /\ load_skel base_3 = Ok tt).
Proof. repeat split; vm_compute; reflexivity. Qed.
