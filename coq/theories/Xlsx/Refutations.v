(* Xlsx/Refutations.v — the FORMER refutation witnesses (Generated/Witness_c25.v: the same packages the
   harness builds as zip files and feeds to the real importer).  Before the repairs each of them made
   the skeleton (and the code) panic; after 2db1935, f8b4521, d5aa85e, dfbff56, 256a2e8, 4ecd40d,
   1babd25, b7d4aff, b5c23c2 each of them is an import error or loads.  Evaluated by vm_compute. *)
From IronCalc Require Import Base.Prelude Xlsx.Skeleton Xlsx.SkeletonProofs Generated.Witness_c25.

Lemma fixed_no_sheetdata : load_skel w_no_sheetdata = Err.
Proof. vm_compute; reflexivity. Qed.

Lemma fixed_short_target_empty : load_skel w_short_target_empty = Err.
Proof. vm_compute; reflexivity. Qed.

Lemma fixed_short_target_one : load_skel w_short_target_one = Err.
Proof. vm_compute; reflexivity. Qed.

Lemma fixed_nonboundary_target : load_skel w_nonboundary_target = Err.
Proof. vm_compute; reflexivity. Qed.

Lemma fixed_short_table_target : load_skel w_short_table_target = Err.
Proof. vm_compute; reflexivity. Qed.

Lemma fixed_no_worksheets_dir : load_skel w_no_worksheets_dir = Err.
Proof. vm_compute; reflexivity. Qed.

Lemma fixed_dangling_rid : load_skel w_dangling_rid = Err.
Proof. vm_compute; reflexivity. Qed.

Lemma fixed_local_sheet_id_out_of_range : load_skel w_local_sheet_id_out_of_range = Err.
Proof. vm_compute; reflexivity. Qed.

Lemma fixed_defined_name_without_worksheets : load_skel w_defined_name_without_worksheets = Err.
Proof. vm_compute; reflexivity. Qed.

Lemma fixed_styles_no_fonts : load_skel w_styles_no_fonts = Err.
Proof. vm_compute; reflexivity. Qed.

Lemma fixed_styles_no_fills : load_skel w_styles_no_fills = Err.
Proof. vm_compute; reflexivity. Qed.

Lemma fixed_styles_no_borders : load_skel w_styles_no_borders = Err.
Proof. vm_compute; reflexivity. Qed.

Lemma fixed_styles_no_cellstylexfs : load_skel w_styles_no_cellstylexfs = Err.
Proof. vm_compute; reflexivity. Qed.

Lemma fixed_styles_no_cellstyles : load_skel w_styles_no_cellstyles = Err.
Proof. vm_compute; reflexivity. Qed.

Lemma fixed_styles_no_cellxfs : load_skel w_styles_no_cellxfs = Err.
Proof. vm_compute; reflexivity. Qed.

Lemma fixed_rgb_nonboundary : load_skel w_rgb_nonboundary = Ok tt.
Proof. vm_compute; reflexivity. Qed.

Lemma fixed_comment_t_without_text : load_skel w_comment_t_without_text = Ok tt.
Proof. vm_compute; reflexivity. Qed.

Lemma bases_load :
  load_skel base_0 = Ok tt /\ load_skel base_1 = Ok tt /\ load_skel base_2 = Ok tt /\ load_skel base_3 = Ok tt.
Proof. repeat split; vm_compute; reflexivity. Qed.
