(* Xlsx/FormulaText.v — formula text through the xlsx file (part of C24).

   A formula is written as  escape_xml (to_excel_string node)  into <f>…</f>, read back by the XML
   parser and parsed by the English parser in A1 mode (import/worksheets.rs from_a1_to_rc).
   Two layers:
   (1) tokens: the C09 round-trip theorem instantiated at the xlsx printer mode, with the name
       tables of the compiled code (Generated/Tables_c23.v): function names are [xlsx_name],
       read back by the English lookup; [xlsx_fun_names_ok] discharges C09's side condition on
       function names for ALL built-in functions (this is C23's xlsx-name theorem in C09's terms).
       What to_excel_string does before printing (remove_redundant_implicit_intersection,
       prefix_bound_variables) and what the reader does after parsing (add_implicit_intersection)
       are NOT modelled: oracle only (finding: an automatic @ is added to names).
   (2) characters: the text is escaped on export but the reader never calls decode_xlsx_escapes
       on it: it comes back as [xesc text]; unchanged iff it has no control character and no
       `_xHHHH_` look-alike ([formula_chars_ok]). *)
From IronCalc Require Import Base.Prelude Codec.RefA1 Syntax.Token Syntax.Ast Syntax.Printer Syntax.Parser
  Syntax.Shape Syntax.RoundTrip Syntax.FuelProofs Codec.XmlEscape Codec.XmlEscapeProofs.
From IronCalc Require Generated.Tables_c23 Codec.Names Codec.NamesProofs.

(* ---------- (1) tokens ---------- *)
Definition xlsx_mode (row col : Z) : pmode :=
  {| pm_rc := false; pm_xlsx := true; pm_dot := true; pm_row := row; pm_col := col |}.

(* the English tables, as the reader uses them; [lower] = str::to_lowercase, which only the
   premise lower_stable (user-defined function names) looks at *)
Definition xlsx_names (lower : text -> text) : names :=
  {| fn_name := fun f => Names.xlsx_name (Z.to_nat f);
     fn_lookup := fun t => option_map Z.of_nat (Names.lookup 0 t);
     bool_of_name := fun t => if text_eqb (Names.upper t) (Names.true_name 0) then Some true
                              else if text_eqb (Names.upper t) (Names.false_name 0) then Some false else None;
     fn_true := Z.of_nat Tables_c23.fn_true;
     fn_false := Z.of_nat Tables_c23.fn_false;
     nm_lower := lower;
     nm_upper := Names.upper;
     err_tokens := fun k => match Names.lex_error 0 (Names.display (Z.to_nat k)) with
                            | Some (e, []) => [TError (Z.of_nat e)]
                            | _ => []
                            end |}.

Definition id_text (t : text) : text := t.

(* Function::Lambda is the one exception by construction: `_xlfn.LAMBDA(` is parsed by parse_lambda
   into a LambdaDefKind, never into FunctionKind{Lambda}; C09 treats lambdas as their own node *)
Lemma xlsx_fun_names_b :
  forallb (fun n => Nat.eqb n Tables_c23.fn_lambda || fun_name_ok (xlsx_names id_text) (Z.of_nat n)) (seq 0 Tables_c23.n_fn) = true.
Proof. vm_compute. reflexivity. Qed.

Lemma fun_name_ok_lower l1 l2 f : fun_name_ok (xlsx_names l1) f = fun_name_ok (xlsx_names l2) f.
Proof. reflexivity. Qed.

(* every built-in function's xlsx name satisfies C09's condition "the name the printer writes is
   read back as that function" *)
Lemma xlsx_fun_names_ok lower f : 0 <= f < Z.of_nat Tables_c23.n_fn -> f <> Z.of_nat Tables_c23.fn_lambda ->
  fun_name_ok (xlsx_names lower) f = true.
Proof.
  intros H Hl. rewrite (fun_name_ok_lower lower id_text).
  pose proof (NamesProofs.seq_forallb _ _ xlsx_fun_names_b (Z.to_nat f)) as A. cbv beta in A.
  rewrite Z2Nat.id in A by lia.
  assert (Hn : (Z.to_nat f < Tables_c23.n_fn)%nat) by lia. specialize (A Hn).
  apply orb_true_iff in A as [A|A]; [|exact A].
  apply Nat.eqb_eq in A. exfalso. apply Hl. rewrite <- A. rewrite Z2Nat.id by lia. reflexivity.
Qed.

(* the English lexer reads every error back from its Display form (12 of 12 since /repo 4a681a0) *)
Lemma xlsx_err_tokens_b :
  forallb (fun n => match err_tokens (xlsx_names id_text) (Z.of_nat n) with [TError k] => Z.of_nat n =? k | _ => false end)
          (seq 0 Names.n_err) = true.
Proof. vm_compute. reflexivity. Qed.

(* the C09 theorem at the xlsx mode *)
Theorem formula_tokens_roundtrip lower env row col e :
  image (xlsx_mode row col) (xlsx_names lower) env e = true ->
  no_bad true e = true ->
  lower_stable (xlsx_names lower) e = true ->
  parse (xlsx_mode row col) (xlsx_names lower) env (print (xlsx_mode row col) (xlsx_names lower) e) = Some (e, []).
Proof. intros Hi Hb Hl. apply roundtrip_parse; assumption. Qed.

(* ---------- (2) characters ---------- *)
Fixpoint formula_chars_ok (t : text) : bool :=
  match t with
  | [] => true
  | c :: r => negb (needs_xlsx_escape c) && negb ((c =? 95) && starts_pattern t) && formula_chars_ok r
  end.

Lemma xesc_id t : formula_chars_ok t = true -> xesc t = t.
Proof.
  induction t as [|c r IH]; intro H; [reflexivity|].
  cbn [formula_chars_ok] in H. apply andb_true_iff in H as [H Hr]. apply andb_true_iff in H as [Hn Hp].
  apply negb_true_iff in Hn, Hp. cbn [xesc]. rewrite Hn, Hp. cbn [app]. rewrite IH by exact Hr. reflexivity.
Qed.

(* what the reader's parser is given for a formula text t *)
Definition formula_text_read (t : text) : outcome text := xml_unescape (escape t).

Theorem formula_chars_partial t :
  forallb text_char_ok t = true -> formula_chars_ok t = true -> formula_text_read t = Ok t.
Proof.
  intros Hok Hc. unfold formula_text_read. rewrite xml_unescape_escape by exact Hok.
  rewrite xesc_id by exact Hc. reflexivity.
Qed.

(* ="<U+0001>" comes back as ="_x0001_", and ="_x0041_" as ="_x005F_x0041_" *)
Lemma formula_chars_refuted :
  formula_text_read [34; 1; 34] = Ok [34; 95; 120; 48; 48; 48; 49; 95; 34] /\
  formula_text_read [34; 95; 120; 48; 48; 52; 49; 95; 34] = Ok [34; 95; 120; 48; 48; 53; 70; 95; 120; 48; 48; 52; 49; 95; 34].
Proof. vm_compute. split; reflexivity. Qed.
