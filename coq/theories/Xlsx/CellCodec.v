(* Xlsx/CellCodec.v — the cell-type codec of the xlsx writer and reader (part of C24).

   [enc_cell]  mirrors the [match cell] of xlsx/src/export/worksheets.rs get_worksheet_xml: which
               `t=` attribute, `<v>` text, `<f>` element, `cm` attribute each (Cell x FormulaValue)
               kind is written with — followed by what the reader's XML parser hands over for the
               `<v>` text (the entity layer of the escaping codec, Codec/XmlEscape.v).
   [dec_cell]  mirrors xlsx/src/import/worksheets.rs get_cell_from_excel together with the three
               decisions load_sheet takes before calling it: the default cell type ("empty" when
               there is neither `t` nor `<v>`, else "n"), the array kind (`<f t="array" ref=…>`,
               dynamic iff cm="1"), and [anchor] = the entry of `array_cell` for this position (the
               cell lies inside the `ref` of an array formula met earlier in the sheet).
   Abstract: numbers are a type [num] with the two Rust primitives the code uses
   (format!("{}") and str::parse::<f64>().unwrap_or(0.0)) as Section variables; the formula is an
   opaque payload (its text is the subject of C24_formula_text); styles are indices; the array
   range is (width, height) — the A1 range text written into `ref` and parsed back is the codec
   of C22. Errors are numbered as in Codec/Names.v; their written form is [display] and the
   reader's lookup is [english_lookup] (tables regenerated from the code, C23).
   No proofs in this file. *)
From IronCalc Require Import Base.Prelude Base.Dec Codec.XmlEscape Generated.Tables_c23 Codec.Names.

Section CellCodec.
  Variable num : Type.
  Variable show_num : num -> text.      (* format!("{v}") of an f64 *)
  Variable read_num : text -> num.      (* s.parse::<f64>().ok().filter(|v| v.is_finite()).unwrap_or(0.0)
                                           (since /repo 3c03706 a non-finite <v> is read as 0) *)
  Variable formula : Type.              (* what <f> carries; not inspected by the codec *)
  Variable finite : num -> bool.        (* f64::is_finite *)

  Inductive fval : Type :=
  | FUneval | FBool (b : bool) | FNum (n : num) | FText (t : text)
  | FErr (e : nat) (origin msg : text).
  Inductive sval : Type := SBool (b : bool) | SNum (n : num) | SText (t : text) | SErr (e : nat).
  Inductive akind : Type := Cse | Dynamic.

  (* ironcalc_base::types::Cell; [CStrText] is a shared string given by its text: what the reader
     makes of a `t="str"` / `t="inlineStr"` cell without formula (it looks the text up in the
     shared-string table or appends it). The writer never starts from it. *)
  Inductive cell : Type :=
  | CEmpty (s : Z)
  | CBool (v : bool) (s : Z)
  | CNum (v : num) (s : Z)
  | CErr (e : nat) (s : Z)
  | CStr (si : Z) (s : Z)
  | CStrText (t : text) (s : Z)
  | CFormula (f : formula) (s : Z) (v : fval)
  | CArray (f : formula) (s : Z) (w h : Z) (k : akind) (v : fval)
  | CSpill (s : Z) (a : Z * Z) (v : sval).

  (* the `<c>` element as the reader sees it *)
  Inductive ctype : Type := TB | TE | TS | TStr | TN | TD | TInline | TOther.
  Record xformula : Type := { xf_formula : formula; xf_array : option (Z * Z) }.
  Record xcell : Type := {
    x_t : option ctype;        (* attribute t *)
    x_s : option Z;            (* attribute s; the writer omits s="0" *)
    x_v : option text;         (* text of <v> as the XML parser returns it *)
    x_is : option text;        (* text of <is> (inline string) *)
    x_f : option xformula;     (* <f> *)
    x_cm : bool;               (* cm="1" *)
    x_vm : option Z            (* vm *)
  }.

  Definition style_attr (s : Z) : option Z := if s =? 0 then None else Some s.
  Definition bool_text (b : bool) : text := if b then [49] else [48].
  Definition mk (t : option ctype) (s : Z) (v : option text) (f : option xformula) (cm : bool) : xcell :=
    {| x_t := t; x_s := style_attr s; x_v := v; x_is := None; x_f := f; x_cm := cm; x_vm := None |}.

  (* escape_xml on the way out, the XML parser on the way in *)
  Definition written_text (t : text) : outcome text := xml_unescape (escape t).

  Definition enc_value (s : Z) (f : option xformula) (cm : bool) (v : fval) : outcome xcell :=
    match v with
    | FUneval => Panic                               (* "Model needs to be evaluated before saving!" *)
    | FBool b => Ok (mk (Some TB) s (Some (bool_text b)) f cm)
    | FNum n => Ok (mk None s (Some (show_num n)) f cm)
    | FText t => match written_text t with
                 | Ok u => Ok (mk (Some TStr) s (Some u) f cm)
                 | Err => Err | Panic => Panic
                 end
    | FErr e _ _ => Ok (mk (Some TE) s (Some (display e)) f cm)
    end.

  Definition is_dynamic (k : akind) : bool := match k with Dynamic => true | Cse => false end.

  Definition enc_cell (c : cell) : outcome xcell :=
    match c with
    | CEmpty s => Ok (mk None s None None false)
    | CBool v s => Ok (mk (Some TB) s (Some (bool_text v)) None false)
    | CNum v s => Ok (mk None s (Some (show_num v)) None false)
    | CErr e s => Ok (mk (Some TE) s (Some (display e)) None false)
    | CStr si s => Ok (mk (Some TS) s (Some (dec_of_Z si)) None false)
    | CStrText t s => match written_text t with
                      | Ok u => Ok (mk (Some TStr) s (Some u) None false)
                      | Err => Err | Panic => Panic
                      end
    | CFormula f s v => enc_value s (Some {| xf_formula := f; xf_array := None |}) false v
    | CArray f s w h k v => enc_value s (Some {| xf_formula := f; xf_array := Some (w, h) |}) (is_dynamic k) v
    | CSpill s _ (SBool b) => Ok (mk (Some TB) s (Some (bool_text b)) None false)
    | CSpill s _ (SNum n) => Ok (mk None s (Some (show_num n)) None false)
    | CSpill s _ (SErr e) => Ok (mk (Some TE) s (Some (display e)) None false)
    | CSpill s _ (SText t) => match written_text t with
                              | Ok u => Ok (mk (Some TStr) s (Some u) None false)
                              | Err => Err | Panic => Panic
                              end
    end.

  (* ---------- the reader ---------- *)
  Definition t_VALUE : text := [35; 86; 65; 76; 85; 69; 33].   (* #VALUE! *)
  Definition t_CALC : text := [35; 67; 65; 76; 67; 33].        (* #CALC! *)
  Definition t_SPILL : text := [35; 83; 80; 73; 76; 76; 33].   (* #SPILL! *)
  Definition t_ERROR : text := [35; 69; 82; 82; 79; 82; 33].   (* #ERROR! *)

  Definition error_name_of (v : option text) (vm : option Z) : text :=
    let name := match v with Some t => t | None => t_ERROR end in
    match vm with
    | Some m => if text_eqb name t_VALUE then (if m =? 1 then t_CALC else if m =? 2 then t_SPILL else name) else name
    | None => name
    end.
  Definition read_error (v : option text) (vm : option Z) : nat :=
    match english_lookup (error_name_of v vm) with Some e => e | None => E_ERROR end.

  Definition read_index (v : option text) : Z :=
    match v with
    | Some (c :: r) => if all_digits (c :: r) then dec_val 0 (c :: r) else 0
    | _ => 0
    end.
  Definition read_number (v : option text) : num := read_num (match v with Some t => t | None => [48] end).
  Definition read_bool (v : option text) : bool := match v with Some t => text_eqb t [49] | None => false end.
  Definition read_text (v : option text) : text := decode (match v with Some t => t | None => [] end).

  Inductive rtype : Type := RB | RE | RS | RStr | RN | RD | RInline | REmpty | ROther.
  Definition cell_type_of (x : xcell) : rtype :=
    match x_t x with
    | Some TB => RB | Some TE => RE | Some TS => RS | Some TStr => RStr | Some TN => RN
    | Some TD => RD | Some TInline => RInline | Some TOther => ROther
    | None => match x_v x with None => REmpty | Some _ => RN end
    end.

  Definition dec_cell (anchor : option (Z * Z)) (here : text) (x : xcell) : cell :=
    let s := match x_s x with Some s => s | None => 0 end in
    let v := x_v x in
    match x_f x with
    | None =>
        match cell_type_of x with
        | RB => match anchor with Some a => CSpill s a (SBool (read_bool v)) | None => CBool (read_bool v) s end
        | RN => match anchor with Some a => CSpill s a (SNum (read_number v)) | None => CNum (read_number v) s end
        | RE => match anchor with Some a => CSpill s a (SErr (read_error v (x_vm x))) | None => CErr (read_error v (x_vm x)) s end
        | RS => CStr (read_index v) s
        | RStr => match anchor with Some a => CSpill s a (SText (read_text v)) | None => CStrText (read_text v) s end
        | RD => CErr E_NIMPL s
        | RInline => CStrText (match x_is x with Some t => t | None => [] end) s
        | REmpty => CEmpty s
        | ROther => CErr E_ERROR s
        end
    | Some xf =>
        let make (fv : fval) : cell :=
          match xf_array xf with
          | None => CFormula (xf_formula xf) s fv
          | Some (w, h) => CArray (xf_formula xf) s w h (if x_cm x then Dynamic else Cse) fv
          end in
        match cell_type_of x with
        | RB => make (FBool (read_bool v))
        | RN => make (FNum (read_number v))
        | RE => make (FErr (read_error v (x_vm x)) here (match v with Some t => t | None => t_ERROR end))
        | RS => make (FErr E_NIMPL here (display E_NIMPL))
        | RStr => make (FText (read_text v))
        | RD => make (FErr E_NIMPL here (display E_NIMPL))
        | RInline => make (FText (match x_is x with Some t => t | None => [] end))
        | REmpty | ROther => make (FErr E_ERROR here (display E_ERROR))
        end
    end.

  (* ---------- what comes back ---------- *)
  Definition canon_text (t : text) : text := decode (xesc t).
  Definition canon_fval (here : text) (v : fval) : fval :=
    match v with
    | FErr e _ _ => FErr e here (display e)   (* origin and message are not stored in the file *)
    | FText t => FText (canon_text t)
    | _ => v
    end.
  Definition canonical (here : text) (c : cell) : cell :=
    match c with
    | CStrText t s => CStrText (canon_text t) s
    | CFormula f s v => CFormula f s (canon_fval here v)
    | CArray f s w h k v => CArray f s w h k (canon_fval here v)
    | CSpill s a (SText t) => CSpill s a (SText (canon_text t))
    | _ => c
    end.

  (* the position context of the reader: a spill cell is recognised iff it lies in the range of an
     array formula written before it *)
  Definition anchor_of (c : cell) : option (Z * Z) := match c with CSpill _ a _ => Some a | _ => None end.

  Definition fval_evaluated (v : fval) : bool := match v with FUneval => false | _ => true end.
  Definition evaluated (c : cell) : bool :=
    match c with CFormula _ _ v | CArray _ _ _ _ _ v => fval_evaluated v | _ => true end.
  Definition fval_text_ok (v : fval) : bool := match v with FText t => forallb text_char_ok t | _ => true end.
  Definition texts_ok (c : cell) : bool :=
    match c with
    | CStrText t _ => forallb text_char_ok t
    | CFormula _ _ v | CArray _ _ _ _ _ v => fval_text_ok v
    | CSpill _ _ (SText t) => forallb text_char_ok t
    | _ => true
    end.
  (* every number in the cell is finite (the engine can store inf / NaN: C08) *)
  Definition fval_finite (v : fval) : bool := match v with FNum n => finite n | _ => true end.
  Definition nums_finite (c : cell) : bool :=
    match c with
    | CNum n _ => finite n
    | CFormula _ _ v | CArray _ _ _ _ _ v => fval_finite v
    | CSpill _ _ (SNum n) => finite n
    | _ => true
    end.
  Definition err_in_range (e : nat) : bool := Nat.ltb e n_err.
  Definition fval_err_ok (v : fval) : bool := match v with FErr e _ _ => err_in_range e | _ => true end.
  Definition ids_ok (c : cell) : bool :=
    match c with
    | CStr si _ => 0 <=? si
    | CErr e _ => err_in_range e
    | CFormula _ _ v | CArray _ _ _ _ _ v => fval_err_ok v
    | CSpill _ _ (SErr e) => err_in_range e
    | _ => true
    end.

  (* nothing is lost: no colliding text, error origin/message already canonical *)
  Definition fval_exact (here : text) (v : fval) : bool :=
    match v with
    | FErr e o m => text_eqb o here && text_eqb m (display e)
    | FText t => negb (collides t)
    | _ => true
    end.
  Definition exact (here : text) (c : cell) : bool :=
    match c with
    | CStrText t _ => negb (collides t)
    | CFormula _ _ v | CArray _ _ _ _ _ v => fval_exact here v
    | CSpill _ _ (SText t) => negb (collides t)
    | _ => true
    end.
End CellCodec.
