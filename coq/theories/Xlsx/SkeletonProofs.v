(* Xlsx/SkeletonProofs.v — the importer skeleton never panics.

   Until the repairs 2db1935, f8b4521, d5aa85e, dfbff56, 256a2e8, 4ecd40d, 1babd25, b7d4aff, b5c23c2 the
   statement was refuted by 17 witness packages and only a guarded form held (the guard listed the
   indexing assumptions of the reader).  Every one of those `[0]` / `[key]` / `unwrap` / slice
   sites is now an `Err` arm (or guarded by `is_char_boundary`), the model follows the code, and
   the statement holds at full strength: for EVERY abstract package the outcome is Ok or Err. *)
From IronCalc Require Import Base.Prelude Xlsx.Skeleton.

(* ---------------------------------------------------------------------------------------------- *)
(* generic lemmas *)

Lemma obind_np {A B} (o : outcome A) (f : A -> outcome B) :
  o <> Panic -> (forall a, o = Ok a -> f a <> Panic) -> obind o f <> Panic.
Proof. destruct o; cbn [obind]; intros H1 H2; auto; congruence. Qed.

Lemma oiter_np {A} (f : A -> outcome unit) (l : list A) :
  (forall x, In x l -> f x <> Panic) -> oiter f l <> Panic.
Proof.
  induction l as [|a l IH]; cbn [oiter]; intros H; [discriminate|].
  apply obind_np; [apply H; left; reflexivity|].
  intros _ _. apply IH. intros x Hx. apply H. right. exact Hx.
Qed.

Lemma omap_np {A B} (f : A -> outcome B) (l : list A) :
  (forall x, In x l -> f x <> Panic) -> omap f l <> Panic.
Proof.
  induction l as [|a l IH]; cbn [omap]; intros H; [discriminate|].
  apply obind_np; [apply H; left; reflexivity|].
  intros y _. apply obind_np; [apply IH; intros x Hx; apply H; right; exact Hx|].
  intros ys _. discriminate.
Qed.

Lemma omap_length {A B} (f : A -> outcome B) (l : list A) ys :
  omap f l = Ok ys -> length ys = length l.
Proof.
  revert ys; induction l as [|a l IH]; cbn [omap]; intros ys H.
  - inversion H; reflexivity.
  - destruct (f a) as [y| |]; cbn [obind] in H; try discriminate.
    destruct (omap f l) as [ys'| |]; cbn [obind] in H; try discriminate.
    inversion H; subst. cbn [length]. f_equal. apply IH. reflexivity.
Qed.

Lemma omap_in {A B} (f : A -> outcome B) (l : list A) ys x :
  omap f l = Ok ys -> In x l -> exists y, f x = Ok y /\ In y ys.
Proof.
  revert ys; induction l as [|a l IH]; cbn [omap]; intros ys H Hx; [destruct Hx|].
  destruct (f a) as [y| |] eqn:Ea; cbn [obind] in H; try discriminate.
  destruct (omap f l) as [ys'| |]; cbn [obind] in H; try discriminate.
  inversion H; subst. destruct Hx as [->|Hx].
  - exists y. split; [exact Ea|left; reflexivity].
  - destruct (IH ys' eq_refl Hx) as [y' [E I]]. exists y'. split; [exact E|right; exact I].
Qed.

Lemma omap_out {A B} (f : A -> outcome B) (l : list A) ys y :
  omap f l = Ok ys -> In y ys -> exists x, In x l /\ f x = Ok y.
Proof.
  revert ys; induction l as [|a l IH]; cbn [omap]; intros ys H Hy.
  - inversion H; subst. destruct Hy.
  - destruct (f a) as [y0| |] eqn:Ea; cbn [obind] in H; try discriminate.
    destruct (omap f l) as [ys'| |]; cbn [obind] in H; try discriminate.
    inversion H; subst. destruct Hy as [<-|Hy].
    + exists a. split; [left; reflexivity|exact Ea].
    + destruct (IH ys' eq_refl Hy) as [x [I E]]. exists x. split; [right; exact I|exact E].
Qed.

Lemma ignore_np {A} (o : outcome A) : o <> Panic -> ignore o <> Panic.
Proof. unfold ignore. intros H. apply obind_np; [exact H|]. intros; discriminate. Qed.

Lemma req_np a x : req a x <> Panic.
Proof. unfold req. destruct (attr a x); discriminate. Qed.

Lemma parse_in_np lo hi v : parse_in lo hi v <> Panic.
Proof. unfold parse_in. destruct v; try discriminate. destruct (_ && _); discriminate. Qed.

Lemma parse_f64_np v : parse_f64 v <> Panic.
Proof. destruct v; discriminate. Qed.

Lemma cell_of_np v : cell_of v <> Panic.
Proof. destruct v; cbn [cell_of]; try discriminate. destruct (valid_cell _ _); discriminate. Qed.

Lemma range_of_np v : range_of v <> Panic.
Proof.
  destruct v; cbn [range_of]; try discriminate.
  - destruct (valid_cell _ _); discriminate.
  - destruct (_ && _); discriminate.
Qed.

Lemma open_part_np parts k : open_part parts k <> Panic.
Proof.
  unfold open_part. destruct k as [k|]; [|discriminate].
  destruct (lookup k parts) as [[| |x]|]; discriminate.
Qed.

Lemma lookup_in {A} k (l : list (Z * A)) v : lookup k l = Some v -> exists k', In (k', v) l.
Proof.
  induction l as [|[k' v'] l IH]; cbn [lookup]; intros H; [discriminate|].
  destruct (k' =? k).
  - inversion H; subst. exists k'. left; reflexivity.
  - destruct (IH H) as [k'' I]. exists k''. right; exact I.
Qed.

Lemma open_part_inv parts k x :
  open_part parts k = Ok x -> exists k', k = Some k' /\ lookup k' parts = Some (Tree x).
Proof.
  unfold open_part. destruct k as [k|]; [|discriminate].
  destruct (lookup k parts) as [[| |y]|] eqn:E; try discriminate.
  intros H; inversion H; subst. exists k. split; [reflexivity|exact E].
Qed.

Lemma first_or_panic_in {A} (l : list A) a : first_or_panic l = Ok a -> In a l.
Proof. destruct l; cbn; intros H; inversion H; subst; left; reflexivity. Qed.

Lemma first_or_err_np {A} (l : list A) : first_or_err l <> Panic.
Proof. destruct l; discriminate. Qed.

(* unconditional "never panics" goals *)
Ltac np_step :=
  match goal with
  | |- obind _ _ <> Panic => apply obind_np; [ | intros ? ? ]
  | |- ignore _ <> Panic => apply ignore_np
  | |- req _ _ <> Panic => apply req_np
  | |- parse_in _ _ _ <> Panic => apply parse_in_np
  | |- parse_f64 _ <> Panic => apply parse_f64_np
  | |- cell_of _ <> Panic => apply cell_of_np
  | |- range_of _ <> Panic => apply range_of_np
  | |- open_part _ _ <> Panic => apply open_part_np
  | |- first_or_err _ <> Panic => apply first_or_err_np
  | |- oiter _ _ <> Panic => apply oiter_np; intros ? ?
  | |- Ok _ <> Panic => discriminate
  | |- Err <> Panic => discriminate
  | |- (if ?c then _ else _) <> Panic => destruct c
  | |- (match ?x with _ => _ end) <> Panic => destruct x
  end.
Ltac np := unfold parse_i32, parse_u32, parse_usize; repeat np_step.

(* ---------------------------------------------------------------------------------------------- *)
(* ---------------------------------------------------------------------------------------------- *)
(* one lemma per reader function *)

Lemma color_skel_np x : color_skel x <> Panic.
Proof. unfold color_skel. np. Qed.

Lemma font_skel_np x : font_skel x <> Panic.
Proof. unfold font_skel. apply oiter_np. intros; apply color_skel_np. Qed.

Lemma pattern_fill_skel_np x : pattern_fill_skel x <> Panic.
Proof.
  unfold pattern_fill_skel. apply oiter_np. intros c _.
  destruct (_ || _); [apply color_skel_np|discriminate].
Qed.

Lemma fill_skel_np x : fill_skel x <> Panic.
Proof.
  unfold fill_skel. destruct (kids_with T_PATTERNFILL x) as [|pf [|? ?]]; try discriminate.
  apply pattern_fill_skel_np.
Qed.

Lemma side_skel_np x : side_skel x <> Panic.
Proof.
  unfold side_skel. destruct (kids_with T_LEFT x) as [|b [|? ?]]; try discriminate.
  destruct (attr A_STYLE b); [|discriminate].
  destruct (kids_with T_COLOR b) as [|c [|? ?]]; try discriminate. apply color_skel_np.
Qed.

Lemma dxf_skel_np x : dxf_skel x <> Panic.
Proof.
  unfold dxf_skel. apply oiter_np. intros c _.
  destruct (has_tag T_FONT c); [apply font_skel_np|].
  destruct (has_tag T_FILL c); [apply fill_skel_np|].
  destruct (has_tag T_BORDER c); [apply side_skel_np|discriminate].
Qed.

Lemma load_styles_np f : load_styles_skel f <> Panic.
Proof.
  destruct f as [| |ss]; cbn [load_styles_skel]; try discriminate.
  apply obind_np; [apply first_or_err_np|]. intros fonts _.
  apply obind_np; [apply oiter_np; intros; apply font_skel_np|]. intros _ _.
  apply obind_np; [apply first_or_err_np|]. intros fills _.
  apply obind_np; [apply oiter_np; intros; apply fill_skel_np|]. intros _ _.
  apply obind_np; [apply first_or_err_np|]. intros borders _.
  apply obind_np; [apply oiter_np; intros; apply side_skel_np|]. intros _ _.
  apply obind_np; [apply first_or_err_np|]. intros _ _.
  apply obind_np; [apply first_or_err_np|]. intros cs _.
  apply obind_np; [np|]. intros _ _.
  apply obind_np; [apply first_or_err_np|]. intros cx _.
  apply obind_np; [np|]. intros _ _.
  destruct (kids_with T_DXFS ss) as [|d ?]; [discriminate|].
  apply oiter_np. intros; apply dxf_skel_np.
Qed.

Lemma sheet_skel_np x : sheet_skel x <> Panic.
Proof. unfold sheet_skel. np. Qed.

Lemma defined_name_skel_np n x : defined_name_skel n x <> Panic.
Proof.
  unfold defined_name_skel. apply obind_np; [apply req_np|]. intros _ _.
  destruct (attr A_LOCALSHEETID x) as [v|]; [|discriminate].
  apply obind_np; [apply parse_in_np|]. intros i _. destruct (i <? n); discriminate.
Qed.

Lemma load_workbook_np f : load_workbook_skel f <> Panic.
Proof.
  destruct f as [| |doc]; cbn [load_workbook_skel]; try discriminate.
  apply obind_np; [apply omap_np; intros; apply sheet_skel_np|].
  intros rids _. apply obind_np; [|intros; discriminate].
  apply oiter_np. intros; apply defined_name_skel_np.
Qed.

Lemma rel_skel_np x : rel_skel x <> Panic.
Proof. unfold rel_skel. np. Qed.

Lemma load_rels_np f : load_rels_skel f <> Panic.
Proof.
  destruct f; cbn [load_rels_skel]; try discriminate.
  apply omap_np. intros; apply rel_skel_np.
Qed.

Lemma load_table_skel_np parts k : load_table_skel parts k <> Panic.
Proof. unfold load_table_skel. np. Qed.

Lemma comment_skel_np c : comment_skel c <> Panic.
Proof. unfold comment_skel. np. Qed.

Lemma load_comments_skel_np parts k : load_comments_skel parts k <> Panic.
Proof.
  unfold load_comments_skel. apply obind_np; [apply open_part_np|]. intros ws _.
  destruct (kids_with T_COMMENTLIST ws) as [|cl [|? ?]]; try discriminate.
  apply oiter_np. intros; apply comment_skel_np.
Qed.

Lemma sheet_rel_skel_np parts x : sheet_rel_skel parts x <> Panic.
Proof.
  unfold sheet_rel_skel, req.
  destruct (attr A_TYPE x) as [t|]; cbn [obind]; [|discriminate].
  destruct (ty_class t =? 1).
  { destruct (attr A_TARGET x) as [g|]; cbn [obind]; [|discriminate].
    destruct (replace_range_ok g); [apply load_comments_skel_np|discriminate]. }
  destruct (ty_class t =? 2).
  { destruct (attr A_ID x); cbn [obind]; [|discriminate]. apply ignore_np.
    destruct (attr A_TARGET x); discriminate. }
  destruct (ty_class t =? 3); [|discriminate].
  destruct (attr A_TARGET x) as [g|]; cbn [obind]; [|discriminate].
  destruct (abs_part g); [apply load_table_skel_np|].
  destruct (replace_range_ok g); [apply load_table_skel_np|discriminate].
Qed.

Lemma load_sheet_rels_skel_np p g : load_sheet_rels_skel p g <> Panic.
Proof.
  unfold load_sheet_rels_skel. destruct (ws_part g) as [part|]; [|discriminate].
  destruct (lookup part (p_srels p)) as [[| |doc]|]; try discriminate.
  apply oiter_np. intros; apply sheet_rel_skel_np.
Qed.

Lemma col_skel_np x : col_skel x <> Panic.
Proof. unfold col_skel. np. Qed.

Lemma formula_skel_np rc f : formula_skel rc f <> Panic.
Proof.
  unfold formula_skel.
  match goal with |- (if ?c then _ else _) <> _ => destruct c end; [discriminate|].
  match goal with |- (if ?c then _ else _) <> _ => destruct c end; [np|].
  match goal with |- (if ?c then _ else _) <> _ => destruct c end.
  - destruct (attr A_REF f) as [v|]; [|discriminate].
    apply obind_np; [apply range_of_np|]. intros [[[r1 c1] r2] c2] _.
    destruct (_ && _); discriminate.
  - match goal with |- (if ?c then _ else _) <> _ => destruct c end; discriminate.
Qed.

Lemma cell_skel_np x : cell_skel x <> Panic.
Proof.
  unfold cell_skel. apply obind_np; [apply req_np|]. intros v _.
  apply obind_np; [apply cell_of_np|]. intros rc _.
  destruct (kids_with T_F x) as [|f [|? ?]]; try discriminate. apply formula_skel_np.
Qed.

Lemma row_skel_np x : row_skel x <> Panic.
Proof.
  unfold row_skel. apply obind_np.
  { destruct (attr A_R x); [|discriminate]. np. }
  intros hi _. apply obind_np; [apply oiter_np; intros; apply cell_skel_np|].
  intros _ _. destruct (_ || _); discriminate.
Qed.

Lemma load_sheet_skel_np parts g : load_sheet_skel parts g <> Panic.
Proof.
  unfold load_sheet_skel. apply obind_np; [apply open_part_np|]. intros ws _.
  apply obind_np.
  { unfold load_columns_skel. destruct (kids_with T_COLS ws) as [|c [|? ?]]; try discriminate.
    apply oiter_np. intros; apply col_skel_np. }
  intros _ _. apply obind_np.
  { unfold load_sheet_color_skel.
    destruct (kids_with T_SHEETPR ws) as [|pr [|? ?]]; try discriminate.
    destruct (kids_with T_TABCOLOR pr) as [|tab [|? ?]]; try discriminate. apply color_skel_np. }
  intros _ _. apply obind_np; [apply first_or_err_np|].
  intros sd _. apply obind_np; [apply oiter_np; intros; apply row_skel_np|].
  intros _ _. apply obind_np.
  { destruct (kids_with T_MERGECELLS ws) as [|m [|? ?]]; try discriminate. np. }
  intros _ _. apply oiter_np. intros h _. unfold hyperlink_skel. np.
Qed.

Lemma load_sheets_skel_np p rels rids : load_sheets_skel p rels rids <> Panic.
Proof.
  unfold load_sheets_skel. apply obind_np.
  - apply oiter_np. intros rid _. unfold rel_index.
    destruct (rel_lookup rid rels) as [rel|]; cbn [obind]; [|discriminate].
    destruct (is_worksheet_rel rel); [apply load_sheet_rels_skel_np|discriminate].
  - intros _ _. apply oiter_np. intros rid _. unfold rel_index.
    destruct (rel_lookup rid rels) as [rel|]; cbn [obind]; [|discriminate].
    destruct (is_worksheet_rel rel); [apply load_sheet_skel_np|discriminate].
Qed.

(* ---------------------------------------------------------------------------------------------- *)
Theorem load_skel_no_panic : forall p, load_skel p <> Panic.
Proof.
  intros p. unfold load_skel.
  apply obind_np; [destruct (p_sst p); discriminate|]. intros _ _.
  apply obind_np; [apply load_workbook_np|]. intros wb _.
  apply obind_np; [apply load_rels_np|]. intros rels _.
  apply obind_np; [apply load_styles_np|]. intros _ _.
  apply obind_np; [apply load_sheets_skel_np|]. intros _ _.
  destruct (_ && _); discriminate.
Qed.
