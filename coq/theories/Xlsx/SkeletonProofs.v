(* Xlsx/SkeletonProofs.v — the indexing guard of the importer skeleton and its no-Panic theorem;
   the refutations of the unguarded statement (witness packages evaluated by vm_compute). *)
From IronCalc Require Import Base.Prelude Xlsx.Skeleton.

(* ---------------------------------------------------------------------------------------------- *)
(* the guard: a decidable, structural predicate on packages.  Each conjunct names one indexing
   assumption of the reader; none of them mentions the reader's control flow. *)

Definition nonempty {A} (l : list A) : bool := match l with [] => false | _ => true end.

Fixpoint all_nodes (P : xml -> bool) (x : xml) : bool :=
  match x with Elem _ _ _ ks => P x && forallb (all_nodes P) ks end.

Definition tree_ok (P : xml -> bool) (f : fstate) : bool :=
  match f with Tree x => P x | _ => true end.

(* G-rgb: no `rgb` attribute whose byte 2 falls inside a character (util.rs `raw[2..]`) *)
Definition color_ok (x : xml) : bool :=
  match attr A_RGB x with Some v => rgb_slice_ok v | None => true end.

(* G-styles: styles.xml has the six containers that are indexed with [0] *)
Definition styles_containers (ss : xml) : bool :=
  nonempty (kids_with T_FONTS ss) && nonempty (kids_with T_FILLS ss) &&
  nonempty (kids_with T_BORDERS ss) && nonempty (kids_with T_CELLSTYLEXFS ss) &&
  nonempty (kids_with T_CELLSTYLES ss) && nonempty (kids_with T_CELLXFS ss).

(* G-comment: every <t> below a child of a <commentList> has text (`n.text().unwrap()`) *)
Definition comment_texts_ok (x : xml) : bool :=
  forallb (fun cl => forallb (fun c => forallb has_text (desc_with T_T c)) (children cl))
          (kids_with T_COMMENTLIST x).

Definition id_matches (v : aval) (r : xml) : bool :=
  match attr A_ID r with Some i => aval_eqb i v | None => false end.
Definition is_ws_node (r : xml) : bool :=
  match attr A_TYPE r with Some t => ty_class t =? 0 | None => false end.

(* G-target: comments / table targets of sheet relationships survive `replace_range(..2, _)` *)
Definition srel_node_ok (x : xml) : bool :=
  match attr A_TYPE x, attr A_TARGET x with
  | Some t, Some g =>
    let c := ty_class t in
    if c =? 1 then replace_range_ok g
    else if c =? 3 then match abs_part g with Some _ => true | None => replace_range_ok g end
    else true
  | _, _ => true
  end.

(* G-dir: the Target of every worksheet relationship contains "/worksheets/" (`v[1]`).
   (The <sheetData> conjunct was dropped when 2db1935 turned the `[0]` into an error.) *)
Definition ws_rel_ok (p : pkg) (r : xml) : bool :=
  if is_ws_node r then
    match attr A_TARGET r with
    | Some g =>
      match ws_part g with
      | None => false
      | Some _ => true
      end
    | None => true
    end
  else true.

(* G-names: if there are defined names, some sheet resolves to worksheet relationships only
   (`worksheets[0]` in reparse_formula_hack) *)
Definition names_have_sheet (doc rd : xml) : bool :=
  negb (nonempty (desc_with T_DEFINEDNAME doc)) ||
  existsb (fun s => match attr A_RID s with
                    | Some v => existsb (id_matches v) (desc_with T_RELATIONSHIP rd) &&
                                forallb (fun r => implb (id_matches v r) (is_ws_node r))
                                        (desc_with T_RELATIONSHIP rd)
                    | None => false
                    end) (desc_with T_SHEET doc).

Definition guard (p : pkg) : bool :=
  tree_ok (fun ss => styles_containers ss && all_nodes color_ok ss) (p_styles p) &&
  forallb (fun kf => tree_ok (fun x => all_nodes color_ok x && comment_texts_ok x) (snd kf)) (p_parts p) &&
  forallb (fun kf => tree_ok (fun d => forallb srel_node_ok (kids_with T_RELATIONSHIP d)) (snd kf)) (p_srels p) &&
  match p_wb p, p_rels p with
  | Tree doc, Tree rd =>
    forallb (ws_rel_ok p) (desc_with T_RELATIONSHIP rd) && names_have_sheet doc rd
  | _, _ => true
  end.

(* ---------------------------------------------------------------------------------------------- *)
(* generic lemmas *)

Lemma obind_np {A B} (o : outcome A) (f : A -> outcome B) :
  o <> Panic -> (forall a, o = Ok a -> f a <> Panic) -> obind o f <> Panic.
Proof. destruct o; cbn [obind]; intros H1 H2; auto; congruence. Qed.

Lemma oiter_np {A} (f : A -> outcome unit) (l : list A) :
  (forall x, In x l -> f x <> Panic) -> oiter f l <> Panic.
Proof.
  induction l as [|a l IH]; cbn [oiter]; intros H; [discriminate|].
  apply obind_np; [apply H; left; reflexivity|].
  intros _ _. apply IH. intros x Hx. apply H. right. exact Hx.
Qed.

Lemma omap_np {A B} (f : A -> outcome B) (l : list A) :
  (forall x, In x l -> f x <> Panic) -> omap f l <> Panic.
Proof.
  induction l as [|a l IH]; cbn [omap]; intros H; [discriminate|].
  apply obind_np; [apply H; left; reflexivity|].
  intros y _. apply obind_np; [apply IH; intros x Hx; apply H; right; exact Hx|].
  intros ys _. discriminate.
Qed.

Lemma omap_length {A B} (f : A -> outcome B) (l : list A) ys :
  omap f l = Ok ys -> length ys = length l.
Proof.
  revert ys; induction l as [|a l IH]; cbn [omap]; intros ys H.
  - inversion H; reflexivity.
  - destruct (f a) as [y| |]; cbn [obind] in H; try discriminate.
    destruct (omap f l) as [ys'| |]; cbn [obind] in H; try discriminate.
    inversion H; subst. cbn [length]. f_equal. apply IH. reflexivity.
Qed.

Lemma omap_in {A B} (f : A -> outcome B) (l : list A) ys x :
  omap f l = Ok ys -> In x l -> exists y, f x = Ok y /\ In y ys.
Proof.
  revert ys; induction l as [|a l IH]; cbn [omap]; intros ys H Hx; [destruct Hx|].
  destruct (f a) as [y| |] eqn:Ea; cbn [obind] in H; try discriminate.
  destruct (omap f l) as [ys'| |]; cbn [obind] in H; try discriminate.
  inversion H; subst. destruct Hx as [->|Hx].
  - exists y. split; [exact Ea|left; reflexivity].
  - destruct (IH ys' eq_refl Hx) as [y' [E I]]. exists y'. split; [exact E|right; exact I].
Qed.

Lemma omap_out {A B} (f : A -> outcome B) (l : list A) ys y :
  omap f l = Ok ys -> In y ys -> exists x, In x l /\ f x = Ok y.
Proof.
  revert ys; induction l as [|a l IH]; cbn [omap]; intros ys H Hy.
  - inversion H; subst. destruct Hy.
  - destruct (f a) as [y0| |] eqn:Ea; cbn [obind] in H; try discriminate.
    destruct (omap f l) as [ys'| |]; cbn [obind] in H; try discriminate.
    inversion H; subst. destruct Hy as [<-|Hy].
    + exists a. split; [left; reflexivity|exact Ea].
    + destruct (IH ys' eq_refl Hy) as [x [I E]]. exists x. split; [right; exact I|exact E].
Qed.

Lemma ignore_np {A} (o : outcome A) : o <> Panic -> ignore o <> Panic.
Proof. unfold ignore. intros H. apply obind_np; [exact H|]. intros; discriminate. Qed.

Lemma req_np a x : req a x <> Panic.
Proof. unfold req. destruct (attr a x); discriminate. Qed.

Lemma parse_in_np lo hi v : parse_in lo hi v <> Panic.
Proof. unfold parse_in. destruct v; try discriminate. destruct (_ && _); discriminate. Qed.

Lemma parse_f64_np v : parse_f64 v <> Panic.
Proof. destruct v; discriminate. Qed.

Lemma cell_of_np v : cell_of v <> Panic.
Proof. destruct v; cbn [cell_of]; try discriminate. destruct (valid_cell _ _); discriminate. Qed.

Lemma range_of_np v : range_of v <> Panic.
Proof.
  destruct v; cbn [range_of]; try discriminate.
  - destruct (valid_cell _ _); discriminate.
  - destruct (_ && _); discriminate.
Qed.

Lemma open_part_np parts k : open_part parts k <> Panic.
Proof.
  unfold open_part. destruct k as [k|]; [|discriminate].
  destruct (lookup k parts) as [[| |x]|]; discriminate.
Qed.

Lemma lookup_in {A} k (l : list (Z * A)) v : lookup k l = Some v -> exists k', In (k', v) l.
Proof.
  induction l as [|[k' v'] l IH]; cbn [lookup]; intros H; [discriminate|].
  destruct (k' =? k).
  - inversion H; subst. exists k'. left; reflexivity.
  - destruct (IH H) as [k'' I]. exists k''. right; exact I.
Qed.

Lemma open_part_inv parts k x :
  open_part parts k = Ok x -> exists k', k = Some k' /\ lookup k' parts = Some (Tree x).
Proof.
  unfold open_part. destruct k as [k|]; [|discriminate].
  destruct (lookup k parts) as [[| |y]|] eqn:E; try discriminate.
  intros H; inversion H; subst. exists k. split; [reflexivity|exact E].
Qed.

Lemma first_or_panic_in {A} (l : list A) a : first_or_panic l = Ok a -> In a l.
Proof. destruct l; cbn; intros H; inversion H; subst; left; reflexivity. Qed.

Lemma first_or_panic_np {A} (l : list A) : nonempty l = true -> first_or_panic l <> Panic.
Proof. destruct l; cbn; intros H; discriminate. Qed.

(* unconditional "never panics" goals *)
Ltac np_step :=
  match goal with
  | |- obind _ _ <> Panic => apply obind_np; [ | intros ? ? ]
  | |- ignore _ <> Panic => apply ignore_np
  | |- req _ _ <> Panic => apply req_np
  | |- parse_in _ _ _ <> Panic => apply parse_in_np
  | |- parse_f64 _ <> Panic => apply parse_f64_np
  | |- cell_of _ <> Panic => apply cell_of_np
  | |- range_of _ <> Panic => apply range_of_np
  | |- open_part _ _ <> Panic => apply open_part_np
  | |- oiter _ _ <> Panic => apply oiter_np; intros ? ?
  | |- Ok _ <> Panic => discriminate
  | |- Err <> Panic => discriminate
  | |- (if ?c then _ else _) <> Panic => destruct c
  | |- (match ?x with _ => _ end) <> Panic => destruct x
  end.
Ltac np := unfold parse_i32, parse_u32, parse_usize; repeat np_step.

(* ---------------------------------------------------------------------------------------------- *)
(* tree navigation *)

Lemma all_nodes_self P x : all_nodes P x = true -> P x = true.
Proof. destruct x; cbn [all_nodes]; intros H; apply andb_true_iff in H; tauto. Qed.

Lemma all_nodes_text P : P text_node = true -> all_nodes P text_node = true.
Proof. unfold text_node. intros H. cbn [all_nodes forallb]. rewrite H. reflexivity. Qed.

Lemma all_nodes_child P x k :
  P text_node = true -> all_nodes P x = true -> In k (children x) -> all_nodes P k = true.
Proof.
  intros Ht H Hk. destruct x as [t a tx ks]. cbn [all_nodes] in H.
  apply andb_true_iff in H as [_ H]. rewrite forallb_forall in H.
  unfold children in Hk; cbn [has_text elems_of] in Hk. destruct tx.
  - destruct Hk as [<-|Hk]; [apply all_nodes_text; exact Ht|apply H; exact Hk].
  - apply H; exact Hk.
Qed.

Lemma kids_with_in t x k : In k (kids_with t x) -> In k (children x).
Proof. unfold kids_with. intros H. apply filter_In in H. tauto. Qed.

Lemma color_ok_text : color_ok text_node = true.
Proof. reflexivity. Qed.

Lemma all_color_kid t x k :
  all_nodes color_ok x = true -> In k (kids_with t x) -> all_nodes color_ok k = true.
Proof. intros H Hk. eapply all_nodes_child; [exact color_ok_text|exact H|eapply kids_with_in; exact Hk]. Qed.

Lemma all_color_child x k :
  all_nodes color_ok x = true -> In k (children x) -> all_nodes color_ok k = true.
Proof. intros H Hk. eapply all_nodes_child; [exact color_ok_text|exact H|exact Hk]. Qed.

(* ---------------------------------------------------------------------------------------------- *)
(* util.rs / styles.rs *)

Lemma color_skel_np x : color_ok x = true -> color_skel x <> Panic.
Proof.
  unfold color_ok, color_skel. destruct (attr A_RGB x) as [v|].
  - intros ->. discriminate.
  - intros _. np.
Qed.

Lemma color_skel_np' x : all_nodes color_ok x = true -> color_skel x <> Panic.
Proof. intros H. apply color_skel_np. apply all_nodes_self. exact H. Qed.

Lemma font_skel_np x : all_nodes color_ok x = true -> font_skel x <> Panic.
Proof.
  intros H. unfold font_skel. apply oiter_np. intros c Hc.
  apply color_skel_np'. eapply all_color_kid; eassumption.
Qed.

Lemma pattern_fill_skel_np x : all_nodes color_ok x = true -> pattern_fill_skel x <> Panic.
Proof.
  intros H. unfold pattern_fill_skel. apply oiter_np. intros c Hc.
  destruct (_ || _); [|discriminate].
  apply color_skel_np'. eapply all_color_child; eassumption.
Qed.

Lemma fill_skel_np x : all_nodes color_ok x = true -> fill_skel x <> Panic.
Proof.
  intros H. unfold fill_skel. destruct (kids_with T_PATTERNFILL x) as [|pf [|? ?]] eqn:E; try discriminate.
  apply pattern_fill_skel_np. eapply all_color_kid; [exact H|]. rewrite E. left; reflexivity.
Qed.

Lemma side_skel_np x : all_nodes color_ok x = true -> side_skel x <> Panic.
Proof.
  intros H. unfold side_skel. destruct (kids_with T_LEFT x) as [|b [|? ?]] eqn:E; try discriminate.
  destruct (attr A_STYLE b); [|discriminate].
  destruct (kids_with T_COLOR b) as [|c [|? ?]] eqn:Ec; try discriminate.
  apply color_skel_np'. eapply all_color_kid; [|rewrite Ec; left; reflexivity].
  eapply all_color_kid; [exact H|]. rewrite E. left; reflexivity.
Qed.

Lemma dxf_skel_np x : all_nodes color_ok x = true -> dxf_skel x <> Panic.
Proof.
  intros H. unfold dxf_skel. apply oiter_np. intros c Hc.
  assert (Hc' : all_nodes color_ok c = true) by (eapply all_color_child; eassumption).
  destruct (has_tag T_FONT c); [apply font_skel_np; exact Hc'|].
  destruct (has_tag T_FILL c); [apply fill_skel_np; exact Hc'|].
  destruct (has_tag T_BORDER c); [apply side_skel_np; exact Hc'|discriminate].
Qed.

Lemma load_styles_np f :
  tree_ok (fun ss => styles_containers ss && all_nodes color_ok ss) f = true ->
  load_styles_skel f <> Panic.
Proof.
  destruct f as [| |ss]; cbn [tree_ok load_styles_skel]; try discriminate.
  intros H. apply andb_true_iff in H as [Hc Ha].
  unfold styles_containers in Hc.
  repeat (apply andb_true_iff in Hc as [Hc ?]).
  apply obind_np; [apply first_or_panic_np; assumption|]. intros fonts Hf.
  apply first_or_panic_in in Hf.
  apply obind_np.
  { apply oiter_np. intros x Hx. apply font_skel_np.
    eapply all_color_child; [|exact Hx]. eapply all_color_kid; eassumption. }
  intros _ _.
  apply obind_np; [apply first_or_panic_np; assumption|]. intros fills Hfi.
  apply first_or_panic_in in Hfi.
  apply obind_np.
  { apply oiter_np. intros x Hx. apply fill_skel_np.
    eapply all_color_child; [|exact Hx]. eapply all_color_kid; eassumption. }
  intros _ _.
  apply obind_np; [apply first_or_panic_np; assumption|]. intros borders Hb.
  apply first_or_panic_in in Hb.
  apply obind_np.
  { apply oiter_np. intros x Hx. apply side_skel_np.
    eapply all_color_child; [|exact Hx]. eapply all_color_kid; eassumption. }
  intros _ _.
  apply obind_np; [apply first_or_panic_np; assumption|]. intros _ _.
  apply obind_np; [apply first_or_panic_np; assumption|]. intros cs _.
  apply obind_np; [np|]. intros _ _.
  apply obind_np; [apply first_or_panic_np; assumption|]. intros cx _.
  apply obind_np; [np|]. intros _ _.
  destruct (kids_with T_DXFS ss) as [|d ?] eqn:Ed; [discriminate|].
  apply oiter_np. intros x Hx. apply dxf_skel_np.
  eapply all_color_child; [|exact Hx]. eapply all_color_kid; [exact Ha|]. rewrite Ed. left; reflexivity.
Qed.

(* ---------------------------------------------------------------------------------------------- *)
(* workbook.rs / load_relationships *)

Lemma sheet_skel_np x : sheet_skel x <> Panic.
Proof. unfold sheet_skel. np. Qed.

Lemma sheet_skel_rid x v : sheet_skel x = Ok v -> attr A_RID x = Some v.
Proof.
  unfold sheet_skel, req.
  destruct (attr A_NAME x); cbn [obind]; [|discriminate].
  destruct (attr A_SHEETID x) as [s|]; cbn [obind]; [|discriminate].
  destruct (parse_u32 s); cbn [obind]; try discriminate.
  destruct (attr A_RID x) as [r|]; cbn [obind]; [|discriminate].
  destruct (attr A_STATE x) as [[]|]; try discriminate.
  - destruct (_ && _); [|discriminate]. intros H; inversion H; reflexivity.
  - intros H; inversion H; reflexivity.
Qed.

Lemma rel_skel_np x : rel_skel x <> Panic.
Proof. unfold rel_skel. np. Qed.

Lemma rel_skel_inv x r :
  rel_skel x = Ok r ->
  attr A_ID x = Some (r_id r) /\ attr A_TYPE x = Some (r_type r) /\ attr A_TARGET x = Some (r_target r).
Proof.
  unfold rel_skel, req.
  destruct (attr A_ID x); cbn [obind]; [|discriminate].
  destruct (attr A_TYPE x); cbn [obind]; [|discriminate].
  destruct (attr A_TARGET x); cbn [obind]; [|discriminate].
  intros H; inversion H; subst; cbn. auto.
Qed.

Lemma load_rels_np f : load_rels_skel f <> Panic.
Proof.
  destruct f; cbn [load_rels_skel]; try discriminate.
  apply omap_np. intros; apply rel_skel_np.
Qed.

Lemma rel_lookup_in id l r : rel_lookup id l = Some r -> In r l /\ aval_eqb (r_id r) id = true.
Proof.
  induction l as [|a l IH]; cbn [rel_lookup]; [discriminate|].
  destruct (rel_lookup id l) as [r'|].
  - intros H; inversion H; subst. destruct (IH eq_refl) as [I E]. split; [right; exact I|exact E].
  - destruct (aval_eqb (r_id a) id) eqn:E; [|discriminate].
    intros H; inversion H; subst. split; [left; reflexivity|exact E].
Qed.

Lemma rel_lookup_some id l r :
  In r l -> aval_eqb (r_id r) id = true -> rel_lookup id l <> None.
Proof.
  induction l as [|a l IH]; cbn [rel_lookup]; intros I E; [destruct I|].
  destruct (rel_lookup id l) eqn:El; [discriminate|].
  destruct I as [->|I].
  - rewrite E. discriminate.
  - exfalso. apply (IH I E). reflexivity.
Qed.

Lemma defined_name_skel_np n x : defined_name_skel n x <> Panic.
Proof.
  unfold defined_name_skel. apply obind_np; [apply req_np|]. intros _ _.
  destruct (attr A_LOCALSHEETID x) as [v|]; [|discriminate].
  apply obind_np; [apply parse_in_np|]. intros i _. destruct (i <? n); discriminate.
Qed.

Lemma load_workbook_np f : load_workbook_skel f <> Panic.
Proof.
  destruct f as [| |doc]; cbn [load_workbook_skel]; try discriminate.
  apply obind_np; [apply omap_np; intros; apply sheet_skel_np|].
  intros rids Hr. apply obind_np; [|intros; discriminate].
  apply oiter_np. intros x Hx. apply defined_name_skel_np.
Qed.

Lemma load_workbook_inv f rids n :
  load_workbook_skel f = Ok (rids, n) ->
  exists doc, f = Tree doc /\ omap sheet_skel (desc_with T_SHEET doc) = Ok rids /\
              n = Z.of_nat (length (desc_with T_DEFINEDNAME doc)).
Proof.
  destruct f as [| |doc]; cbn [load_workbook_skel]; try discriminate.
  destruct (omap sheet_skel (desc_with T_SHEET doc)) as [r| |] eqn:E; cbn [obind]; try discriminate.
  destruct (oiter (defined_name_skel (Z.of_nat (length r))) (desc_with T_DEFINEDNAME doc));
    cbn [obind]; try discriminate.
  intros H; inversion H; subst. exists doc. split; [reflexivity|]. split; [exact E|reflexivity].
Qed.

Lemma load_rels_inv f rels :
  load_rels_skel f = Ok rels -> exists rd, f = Tree rd /\ omap rel_skel (desc_with T_RELATIONSHIP rd) = Ok rels.
Proof.
  destruct f as [| |rd]; cbn [load_rels_skel]; try discriminate.
  intros H. exists rd. auto.
Qed.

(* ---------------------------------------------------------------------------------------------- *)
(* worksheets.rs *)

Lemma load_table_skel_np parts k : load_table_skel parts k <> Panic.
Proof. unfold load_table_skel. np. Qed.

Definition parts_ok (parts : list (Z * fstate)) : bool :=
  forallb (fun kf => tree_ok (fun x => all_nodes color_ok x && comment_texts_ok x) (snd kf)) parts.

Lemma parts_ok_open parts k x :
  parts_ok parts = true -> open_part parts k = Ok x ->
  all_nodes color_ok x = true /\ comment_texts_ok x = true.
Proof.
  intros H Ho. apply open_part_inv in Ho as [k' [_ L]].
  apply lookup_in in L as [k'' I].
  unfold parts_ok in H. rewrite forallb_forall in H. specialize (H _ I).
  cbn [snd tree_ok] in H. apply andb_true_iff in H. exact H.
Qed.

Lemma load_comments_skel_np parts k : parts_ok parts = true -> load_comments_skel parts k <> Panic.
Proof.
  intros H. unfold load_comments_skel. apply obind_np; [apply open_part_np|].
  intros ws Hws. destruct (parts_ok_open _ _ _ H Hws) as [_ Hc].
  destruct (kids_with T_COMMENTLIST ws) as [|cl [|? ?]] eqn:E; try discriminate.
  unfold comment_texts_ok in Hc. rewrite E in Hc. cbn [forallb] in Hc.
  apply andb_true_iff in Hc as [Hc _]. rewrite forallb_forall in Hc.
  apply oiter_np. intros c Hcin. specialize (Hc _ Hcin). rewrite forallb_forall in Hc.
  unfold comment_skel. apply obind_np; [|intros; np].
  apply oiter_np. intros t Ht. rewrite (Hc _ Ht). discriminate.
Qed.

Lemma sheet_rel_skel_np parts x :
  parts_ok parts = true -> srel_node_ok x = true -> sheet_rel_skel parts x <> Panic.
Proof.
  intros Hp H. unfold sheet_rel_skel, req. unfold srel_node_ok in H.
  destruct (attr A_TYPE x) as [t|]; cbn [obind]; [|discriminate].
  destruct (ty_class t =? 1).
  { destruct (attr A_TARGET x) as [g|]; cbn [obind]; [|discriminate].
    rewrite H. apply load_comments_skel_np; exact Hp. }
  destruct (ty_class t =? 2).
  { destruct (attr A_ID x); cbn [obind]; [|discriminate]. apply ignore_np.
    destruct (attr A_TARGET x); discriminate. }
  destruct (ty_class t =? 3); [|discriminate].
  destruct (attr A_TARGET x) as [g|]; cbn [obind]; [|discriminate].
  destruct (abs_part g); [apply load_table_skel_np|].
  rewrite H. apply load_table_skel_np.
Qed.

Lemma col_skel_np x : col_skel x <> Panic.
Proof. unfold col_skel. np. Qed.

Lemma formula_skel_np rc f : formula_skel rc f <> Panic.
Proof.
  unfold formula_skel.
  match goal with |- (if ?c then _ else _) <> _ => destruct c end; [discriminate|].
  match goal with |- (if ?c then _ else _) <> _ => destruct c end; [np|].
  match goal with |- (if ?c then _ else _) <> _ => destruct c end.
  - destruct (attr A_REF f) as [v|]; [|discriminate].
    apply obind_np; [apply range_of_np|]. intros [[[r1 c1] r2] c2] _.
    destruct (_ && _); discriminate.
  - match goal with |- (if ?c then _ else _) <> _ => destruct c end; discriminate.
Qed.

Lemma cell_skel_np x : cell_skel x <> Panic.
Proof.
  unfold cell_skel. apply obind_np; [apply req_np|]. intros v _.
  apply obind_np; [apply cell_of_np|]. intros rc _.
  destruct (kids_with T_F x) as [|f [|? ?]]; try discriminate. apply formula_skel_np.
Qed.

Lemma row_skel_np x : row_skel x <> Panic.
Proof.
  unfold row_skel. apply obind_np.
  { destruct (attr A_R x); [|discriminate]. np. }
  intros hi _. apply obind_np; [apply oiter_np; intros; apply cell_skel_np|].
  intros _ _. destruct (_ || _); discriminate.
Qed.

Lemma load_sheet_skel_np parts g :
  parts_ok parts = true ->
  load_sheet_skel parts g <> Panic.
Proof.
  intros Hp. unfold load_sheet_skel. apply obind_np; [apply open_part_np|].
  intros ws Hws. destruct (parts_ok_open _ _ _ Hp Hws) as [Hc _].
  apply open_part_inv in Hws as [part [Hg L]].
  apply obind_np.
  { unfold load_columns_skel. destruct (kids_with T_COLS ws) as [|c [|? ?]]; try discriminate.
    apply oiter_np. intros; apply col_skel_np. }
  intros _ _. apply obind_np.
  { unfold load_sheet_color_skel.
    destruct (kids_with T_SHEETPR ws) as [|pr [|? ?]] eqn:E; try discriminate.
    destruct (kids_with T_TABCOLOR pr) as [|tab [|? ?]] eqn:Et; try discriminate.
    apply color_skel_np'. eapply all_color_kid; [|rewrite Et; left; reflexivity].
    eapply all_color_kid; [exact Hc|rewrite E; left; reflexivity]. }
  intros _ _. apply obind_np; [destruct (kids_with T_SHEETDATA ws); discriminate|].
  intros sd _. apply obind_np; [apply oiter_np; intros; apply row_skel_np|].
  intros _ _. apply obind_np.
  { destruct (kids_with T_MERGECELLS ws) as [|m [|? ?]]; try discriminate. np. }
  intros _ _. apply oiter_np. intros h _. unfold hyperlink_skel. np.
Qed.

Lemma load_sheet_rels_skel_np p g :
  parts_ok (p_parts p) = true ->
  forallb (fun kf => tree_ok (fun d => forallb srel_node_ok (kids_with T_RELATIONSHIP d)) (snd kf)) (p_srels p) = true ->
  ws_part g <> None ->
  load_sheet_rels_skel p g <> Panic.
Proof.
  intros Hp Hs Hg. unfold load_sheet_rels_skel.
  destruct (ws_part g) as [part|]; [|congruence].
  destruct (lookup part (p_srels p)) as [[| |doc]|] eqn:L; try discriminate.
  apply lookup_in in L as [k' I]. rewrite forallb_forall in Hs. specialize (Hs _ I).
  cbn [snd tree_ok] in Hs. rewrite forallb_forall in Hs.
  apply oiter_np. intros x Hx. apply sheet_rel_skel_np; [exact Hp|apply Hs; exact Hx].
Qed.

(* ---------------------------------------------------------------------------------------------- *)
(* the main theorem *)

Lemma is_ws_node_rel x r : rel_skel x = Ok r -> is_ws_node x = is_worksheet_rel r.
Proof.
  intros H. apply rel_skel_inv in H as [_ [Ht _]].
  unfold is_ws_node, is_worksheet_rel. rewrite Ht. reflexivity.
Qed.

Lemma id_matches_rel x r v : rel_skel x = Ok r -> id_matches v x = aval_eqb (r_id r) v.
Proof.
  intros H. apply rel_skel_inv in H as [Hi _]. unfold id_matches. rewrite Hi. reflexivity.
Qed.

Theorem guard_no_panic : forall p, guard p = true -> load_skel p <> Panic.
Proof.
  intros p G. unfold guard in G.
  apply andb_true_iff in G as [G Gx].
  apply andb_true_iff in G as [G Gsr].
  apply andb_true_iff in G as [Gst Gp].
  unfold load_skel.
  apply obind_np; [destruct (p_sst p); discriminate|]. intros _ _.
  apply obind_np; [apply load_workbook_np|]. intros [rids ndn] Hwb.
  apply obind_np; [apply load_rels_np|]. intros rels Hrels.
  apply obind_np; [apply load_styles_np; exact Gst|]. intros _ _.
  apply load_workbook_inv in Hwb as [doc [Ewb [Hrids Hn]]].
  apply load_rels_inv in Hrels as [rd [Erd Hrl]].
  rewrite Ewb, Erd in Gx.
  apply andb_true_iff in Gx as [Gws Gnames].
  cbn [fst snd].
  (* a relationship that is found comes from a Relationship node *)
  assert (Hfound : forall rid rel, rel_lookup rid rels = Some rel ->
            exists node, In node (desc_with T_RELATIONSHIP rd) /\ rel_skel node = Ok rel).
  { intros rid rel El. destruct (rel_lookup_in _ _ _ El) as [Irel _].
    destruct (omap_out _ _ _ _ Hrl Irel) as [node [Hnd End]]. exists node. auto. }
  assert (Hloop : forall (body : aval -> outcome unit),
            (forall rel node, In node (desc_with T_RELATIONSHIP rd) -> rel_skel node = Ok rel ->
                              is_worksheet_rel rel = true -> body (r_target rel) <> Panic) ->
            oiter (fun rid => obind (rel_index rels rid) (fun rel =>
                     if is_worksheet_rel rel then body (r_target rel) else Ok tt)) rids <> Panic).
  { intros body Hbody. apply oiter_np. intros rid Hin.
    unfold rel_index. destruct (rel_lookup rid rels) as [rel|] eqn:El; cbn [obind]; [|discriminate].
    destruct (Hfound _ _ El) as [node [Hnode Er]].
    destruct (is_worksheet_rel rel) eqn:Ew; [|discriminate].
    eapply Hbody; eassumption. }
  assert (Hwsrel : forall rel node, In node (desc_with T_RELATIONSHIP rd) -> rel_skel node = Ok rel ->
            is_worksheet_rel rel = true -> ws_part (r_target rel) <> None).
  { intros rel node Hnode Er Ew.
    rewrite forallb_forall in Gws. specialize (Gws _ Hnode). unfold ws_rel_ok in Gws.
    rewrite (is_ws_node_rel _ _ Er), Ew in Gws.
    destruct (rel_skel_inv _ _ Er) as [_ [_ Et]]. rewrite Et in Gws.
    destruct (ws_part (r_target rel)); [discriminate|discriminate Gws]. }
  apply obind_np.
  { unfold load_sheets_skel. apply obind_np.
    - apply Hloop. intros rel node Hnode Er Ew.
      apply load_sheet_rels_skel_np; [exact Gp|exact Gsr|eapply Hwsrel; eassumption].
    - intros _ _. apply Hloop. intros rel node Hnode Er Ew.
      apply load_sheet_skel_np; exact Gp. }
  intros _ _.
  (* reparse_formula_hack *)
  destruct (0 <? ndn) eqn:Ednn; [|discriminate]. cbn [andb].
  destruct (loaded_worksheets rels rids) eqn:Elw; [|discriminate].
  exfalso.
  unfold names_have_sheet in Gnames. apply orb_true_iff in Gnames as [Gn|Gn].
  { destruct (desc_with T_DEFINEDNAME doc); [|discriminate Gn].
    cbn in Hn. subst ndn. discriminate. }
  apply existsb_exists in Gn as [s [Hs Gn]].
  destruct (attr A_RID s) as [v|] eqn:Ev; [|discriminate].
  apply andb_true_iff in Gn as [Gex Gall]. rewrite forallb_forall in Gall.
  destruct (omap_in _ _ _ _ Hrids Hs) as [v' [Ev' Iv']].
  pose proof (sheet_skel_rid _ _ Ev') as Ev''. rewrite Ev in Ev''. inversion Ev''; subst v'.
  apply existsb_exists in Gex as [node0 [Hnode0 Hm0]].
  destruct (omap_in _ _ _ _ Hrl Hnode0) as [r0 [Er0 Ir0]].
  rewrite (id_matches_rel _ _ _ Er0) in Hm0.
  destruct (rel_lookup v rels) as [rel|] eqn:El; [|exfalso; eapply rel_lookup_some; eassumption].
  destruct (Hfound _ _ El) as [node [Hnode Er]].
  destruct (rel_lookup_in _ _ _ El) as [_ Em].
  specialize (Gall _ Hnode). rewrite (id_matches_rel _ _ _ Er), Em in Gall. cbn [implb] in Gall.
  rewrite (is_ws_node_rel _ _ Er) in Gall.
  assert (Hin : In v (loaded_worksheets rels rids)).
  { unfold loaded_worksheets. apply filter_In. split; [exact Iv'|]. rewrite El. exact Gall. }
  rewrite Elw in Hin. destruct Hin.
Qed.
