(* Xlsx/Skeleton.v — navigation skeleton of the xlsx importer (xlsx/src/import/*.rs).

   A Gallina function cannot panic, so the importer is modelled at the level where its panics
   live: the sequence of lookups, `?`s, `[0]` indexings, `unwrap`s, HashMap `[...]` indexings and
   string slices it performs over the XML trees of a package.  Everything below the XML level (zip
   container, XML syntax: third-party crates) is abstracted to a file state
   [Missing | Malformed | Tree]; attribute VALUES are abstracted to the few classes the reader
   distinguishes ([aval]); an absent attribute is simply not in the list.

   Every function returns the outcome CLASS of the corresponding Rust function:
   [Ok] = Ok(..), [Err] = Err(XlsxError), [Panic] = the thread panics.

   The numeric tag / attribute / class codes are shared with harness/c25/src/abs.rs, which turns
   the same abstract packages into real zip files (the tie).  No proofs in this file. *)
From IronCalc Require Import Base.Prelude.

(* ---- abstract attribute values ------------------------------------------------------------ *)
Inductive aval : Type :=
| VNum (n : Z)                    (* a decimal integer (possibly out of range of the parsed type) *)
| VBad                            (* present, parses as nothing *)
| VWord (w : Z)                   (* w-th enumerated word of this attribute *)
| VId (k : Z)                     (* relationship id *)
| VTarget (cls part : Z)          (* Target string: class + the part it names *)
| VCell (r c : Z)                 (* A1 cell reference *)
| VRange (r1 c1 r2 c2 : Z)        (* A1 range *)
| VRgb (cls : Z).                 (* 0: 8 ASCII bytes, 1: 6 ASCII bytes, other: 8 bytes, byte 2 inside a character *)

Definition aval_eqb (a b : aval) : bool :=
  match a, b with
  | VNum x, VNum y => x =? y
  | VBad, VBad => true
  | VWord x, VWord y => x =? y
  | VId x, VId y => x =? y
  | VTarget a1 b1, VTarget a2 b2 => (a1 =? a2) && (b1 =? b2)
  | VCell a1 b1, VCell a2 b2 => (a1 =? a2) && (b1 =? b2)
  | VRange a1 b1 c1 d1, VRange a2 b2 c2 d2 => (a1 =? a2) && (b1 =? b2) && (c1 =? c2) && (d1 =? d2)
  | VRgb x, VRgb y => x =? y
  | _, _ => false
  end.

(* ---- trees, files, packages ---------------------------------------------------------------- *)
(* [Elem tag attrs text kids]: [text = true] means the element starts with a text node *)
Inductive xml : Type := Elem (tag : Z) (attrs : list (Z * aval)) (text : bool) (kids : list xml).

Inductive fstate : Type := Missing | Malformed | Tree (x : xml).

Record pkg : Type := {
  p_sst : fstate;                 (* xl/sharedStrings.xml *)
  p_wb : fstate;                  (* xl/workbook.xml *)
  p_rels : fstate;                (* xl/_rels/workbook.xml.rels *)
  p_styles : fstate;              (* xl/styles.xml *)
  p_parts : list (Z * fstate);    (* part id -> sheet / comments / table part *)
  p_srels : list (Z * fstate)     (* sheet part id -> xl/worksheets/_rels/<part>.rels *)
}.

(* tags *)
Definition T_TEXTNODE := 0.
Definition T_SHEET := 3.
Definition T_DEFINEDNAME := 5.
Definition T_RELATIONSHIP := 7.
Definition T_FONTS := 13.
Definition T_FONT := 14.
Definition T_FILLS := 15.
Definition T_FILL := 16.
Definition T_BORDERS := 17.
Definition T_BORDER := 18.
Definition T_CELLSTYLEXFS := 19.
Definition T_CELLSTYLES := 21.
Definition T_CELLXFS := 23.
Definition T_DXFS := 24.
Definition T_COLOR := 26.
Definition T_PATTERNFILL := 27.
Definition T_FGCOLOR := 28.
Definition T_BGCOLOR := 29.
Definition T_COLS := 34.
Definition T_SHEETPR := 36.
Definition T_TABCOLOR := 37.
Definition T_SHEETDATA := 38.
Definition T_F := 42.
Definition T_T := 44.
Definition T_MERGECELLS := 45.
Definition T_HYPERLINKS := 47.
Definition T_HYPERLINK := 48.
Definition T_COMMENTLIST := 52.
Definition T_TABLECOLUMN := 57.
Definition T_LEFT := 63.

(* attributes *)
Definition A_NAME := 1.
Definition A_SHEETID := 2.
Definition A_RID := 3.
Definition A_STATE := 4.
Definition A_LOCALSHEETID := 5.
Definition A_ID := 6.
Definition A_TYPE := 7.
Definition A_TARGET := 8.
Definition A_R := 9.
Definition A_T := 10.
Definition A_SI := 12.
Definition A_REF := 13.
Definition A_MIN := 14.
Definition A_MAX := 15.
Definition A_WIDTH := 16.
Definition A_RGB := 17.
Definition A_INDEXED := 18.
Definition A_THEME := 19.
Definition A_XFID := 20.
Definition A_STYLE := 23.
Definition A_LCID := 24.
Definition A_TOTALSROWCOUNT := 26.
Definition A_HEADERROWCOUNT := 27.
Definition A_CA := 29.

(* ---- navigation primitives (roxmltree) ----------------------------------------------------- *)
Definition text_node : xml := Elem T_TEXTNODE [] false [].

Definition tag_of (x : xml) : Z := match x with Elem t _ _ _ => t end.
Definition attrs_of (x : xml) := match x with Elem _ a _ _ => a end.
Definition has_text (x : xml) : bool := match x with Elem _ _ t _ => t end.
Definition elems_of (x : xml) : list xml := match x with Elem _ _ _ k => k end.

(* node.children(): the text node (if any) comes first *)
Definition children (x : xml) : list xml :=
  if has_text x then text_node :: elems_of x else elems_of x.

Fixpoint attr_in (a : Z) (l : list (Z * aval)) : option aval :=
  match l with
  | [] => None
  | (k, v) :: r => if k =? a then Some v else attr_in a r
  end.
(* node.attribute(a) *)
Definition attr (a : Z) (x : xml) : option aval := attr_in a (attrs_of x).

Definition has_tag (t : Z) (x : xml) : bool := tag_of x =? t.
(* node.children().filter(|n| n.has_tag_name(t)).collect() *)
Definition kids_with (t : Z) (x : xml) : list xml := filter (has_tag t) (children x).

(* node.descendants(): the node itself and everything below it, in document order *)
Fixpoint descendants (x : xml) : list xml :=
  match x with
  | Elem _ _ tx ks => x :: (if tx then [text_node] else []) ++ flat_map descendants ks
  end.
Definition desc_with (t : Z) (x : xml) : list xml := filter (has_tag t) (descendants x).

(* ---- outcome plumbing ----------------------------------------------------------------------- *)
(* `for x in l { f(x)? }` *)
Fixpoint oiter {A} (f : A -> outcome unit) (l : list A) : outcome unit :=
  match l with
  | [] => Ok tt
  | x :: r => obind (f x) (fun _ => oiter f r)
  end.
(* `l.map(f).collect::<Result<_>>()` with early exit *)
Fixpoint omap {A B} (f : A -> outcome B) (l : list A) : outcome (list B) :=
  match l with
  | [] => Ok []
  | x :: r => obind (f x) (fun y => obind (omap f r) (fun ys => Ok (y :: ys)))
  end.

(* get_attribute(&node, a)? *)
Definition req (a : Z) (x : xml) : outcome aval :=
  match attr a x with Some v => Ok v | None => Err end.

Definition parse_in (lo hi : Z) (v : aval) : outcome Z :=
  match v with
  | VNum n => if (lo <=? n) && (n <=? hi) then Ok n else Err
  | _ => Err
  end.
Definition parse_i32 := parse_in (-2147483648) 2147483647.
Definition parse_u32 := parse_in 0 4294967295.
Definition parse_usize := parse_in 0 18446744073709551615.
Definition parse_f64 (v : aval) : outcome unit := match v with VNum _ => Ok tt | _ => Err end.

(* `v[0]` *)
Definition first_or_panic {A} (l : list A) : outcome A :=
  match l with x :: _ => Ok x | [] => Panic end.
(* `.find(..).ok_or_else(..)?` *)
Definition first_or_err {A} (l : list A) : outcome A :=
  match l with x :: _ => Ok x | [] => Err end.

Definition ignore {A} (o : outcome A) : outcome unit := obind o (fun _ => Ok tt).

Fixpoint lookup {A} (k : Z) (l : list (Z * A)) : option A :=
  match l with
  | [] => None
  | (k', v) :: r => if k' =? k then Some v else lookup k r
  end.

(* archive.by_name(path)? ; read_to_string ; Document::parse(..)? *)
Definition open_part (parts : list (Z * fstate)) (k : option Z) : outcome xml :=
  match k with
  | None => Err
  | Some k =>
    match lookup k parts with
    | Some (Tree x) => Ok x
    | _ => Err
    end
  end.

(* ---- util.rs get_color_indexed ---------------------------------------------------------------- *)
(* `raw[2..]` when raw.len() == 8 *)
Definition rgb_slice_ok (v : aval) : bool :=
  match v with
  | VRgb c => (c =? 0) || (c =? 1)
  | _ => true
  end.

Definition color_skel (x : xml) : outcome unit :=
  match attr A_RGB x with
  | Some v => Ok tt   (* `raw[2..]` only when `raw.is_char_boundary(2)` (b7d4aff); [rgb_slice_ok v] no longer matters *)
  | None =>
    match attr A_INDEXED x with
    | Some v => ignore (parse_i32 v)
    | None =>
      match attr A_THEME x with
      | Some v => ignore (parse_i32 v)
      | None => Ok tt
      end
    end
  end.

(* ---- workbook.rs load_workbook ---------------------------------------------------------------- *)
Definition sheet_skel (x : xml) : outcome aval :=
  obind (req A_NAME x) (fun _ =>
  obind (req A_SHEETID x) (fun sid =>
  obind (parse_u32 sid) (fun _ =>
  obind (req A_RID x) (fun rid =>
  match attr A_STATE x with
  | None => Ok rid
  | Some (VWord w) => if (0 <=? w) && (w <=? 2) then Ok rid else Err
  | Some _ => Err
  end)))).

(* `sheets.get(index).ok_or_else(..)?` (repaired by d5aa85e; was `sheets[index]`) *)
Definition defined_name_skel (nsheets : Z) (x : xml) : outcome unit :=
  obind (req A_NAME x) (fun _ =>
  match attr A_LOCALSHEETID x with
  | None => Ok tt
  | Some v => obind (parse_usize v) (fun i => if i <? nsheets then Ok tt else Err)
  end).

(* result: the r:id of every sheet, and the number of defined names *)
Definition load_workbook_skel (f : fstate) : outcome (list aval * Z) :=
  match f with
  | Tree doc =>
    obind (omap sheet_skel (desc_with T_SHEET doc)) (fun rids =>
    obind (oiter (defined_name_skel (Z.of_nat (length rids))) (desc_with T_DEFINEDNAME doc)) (fun _ =>
    Ok (rids, Z.of_nat (length (desc_with T_DEFINEDNAME doc)))))
  | _ => Err
  end.

(* ---- mod.rs load_relationships ------------------------------------------------------------------ *)
Record relrec : Type := { r_id : aval; r_type : aval; r_target : aval }.

Definition rel_skel (x : xml) : outcome relrec :=
  obind (req A_ID x) (fun i =>
  obind (req A_TYPE x) (fun t =>
  obind (req A_TARGET x) (fun g =>
  Ok {| r_id := i; r_type := t; r_target := g |}))).

Definition load_rels_skel (f : fstate) : outcome (list relrec) :=
  match f with
  | Tree doc => omap rel_skel (desc_with T_RELATIONSHIP doc)
  | _ => Err
  end.

(* HashMap semantics: a later insert with the same key replaces the earlier one *)
Fixpoint rel_lookup (id : aval) (l : list relrec) : option relrec :=
  match l with
  | [] => None
  | r :: rest =>
    match rel_lookup id rest with
    | Some r' => Some r'
    | None => if aval_eqb (r_id r) id then Some r else None
    end
  end.

(* rel_type.ends_with("worksheet" | "comments" | "hyperlink" | "table"); 5 = anything else *)
Definition ty_class (v : aval) : Z :=
  match v with
  | VWord w => if (0 <=? w) && (w <=? 4) then w else 5
  | _ => 5
  end.

(* ---- styles.rs load_styles -------------------------------------------------------------------- *)
Definition font_skel (font : xml) : outcome unit :=
  oiter color_skel (kids_with T_COLOR font).

Definition pattern_fill_skel (pf : xml) : outcome unit :=
  oiter (fun feature => if has_tag T_FGCOLOR feature || has_tag T_BGCOLOR feature then color_skel feature else Ok tt)
        (children pf).

Definition fill_skel (fill : xml) : outcome unit :=
  match kids_with T_PATTERNFILL fill with
  | [pf] => pattern_fill_skel pf
  | _ => Ok tt
  end.

(* get_border(node, "left", ..) — the other four sides have the same shape and are not generated *)
Definition side_skel (border : xml) : outcome unit :=
  match kids_with T_LEFT border with
  | [b] =>
    match attr A_STYLE b with
    | None => Ok tt
    | Some _ =>
      match kids_with T_COLOR b with
      | [c] => color_skel c
      | _ => Ok tt
      end
    end
  | _ => Ok tt
  end.

Definition dxf_skel (dxf : xml) : outcome unit :=
  oiter (fun child =>
    if has_tag T_FONT child then font_skel child
    else if has_tag T_FILL child then fill_skel child
    else if has_tag T_BORDER child then side_skel child
    else Ok tt) (children dxf).

Definition load_styles_skel (f : fstate) : outcome unit :=
  match f with
  | Tree ss =>
    obind (first_or_err (kids_with T_FONTS ss)) (fun fonts =>
    obind (oiter font_skel (children fonts)) (fun _ =>
    obind (first_or_err (kids_with T_FILLS ss)) (fun fills =>
    obind (oiter fill_skel (children fills)) (fun _ =>
    obind (first_or_err (kids_with T_BORDERS ss)) (fun borders =>
    obind (oiter side_skel (children borders)) (fun _ =>
    obind (first_or_err (kids_with T_CELLSTYLEXFS ss)) (fun _ =>
    obind (first_or_err (kids_with T_CELLSTYLES ss)) (fun cell_styles =>
    obind (oiter (fun cs => ignore (req A_NAME cs)) (children cell_styles)) (fun _ =>
    obind (first_or_err (kids_with T_CELLXFS ss)) (fun cell_xfs =>
    obind (oiter (fun xf => match attr A_XFID xf with Some v => ignore (parse_i32 v) | None => Ok tt end)
                 (children cell_xfs)) (fun _ =>
    match kids_with T_DXFS ss with
    | [] => Ok tt
    | d :: _ => oiter dxf_skel (children d)
    end)))))))))))
  | _ => Err
  end.

(* ---- worksheets.rs load_sheet_rels ---------------------------------------------------------------- *)
(* `target.is_char_boundary(2)`: false when the string has fewer than two bytes or byte 2 is not a
   character boundary; the reader now returns Err in that case (256a2e8) instead of panicking in
   `target.replace_range(..2, v[0])` *)
Definition replace_range_ok (v : aval) : bool :=
  match v with
  | VTarget cls _ => negb ((cls =? 5) || (cls =? 6) || (cls =? 7))
  | VNum n => negb ((0 <=? n) && (n <=? 9))
  | VRgb c => (c =? 0) || (c =? 1)
  | _ => true
  end.
(* the part a "../pN.xml" target resolves to after the replacement; anything else names no file *)
Definition dotdot_part (v : aval) : option Z :=
  match v with VTarget cls part => if cls =? 4 then Some part else None | _ => None end.
(* target.strip_prefix('/') *)
Definition abs_part (v : aval) : option (option Z) :=
  match v with
  | VTarget cls part => if (cls =? 1) || (cls =? 3) then Some (Some part) else None
  | _ => None
  end.

Definition comment_skel (c : xml) : outcome unit :=
  (* `.map(|n| n.text().unwrap())` over the <t> descendants, then `ref` *)
  (* `.map(|n| n.text().unwrap_or(""))` (4ecd40d; was `unwrap()`): the <t> descendants cannot fail *)
  ignore (req A_REF c).

Definition load_comments_skel (parts : list (Z * fstate)) (k : option Z) : outcome unit :=
  obind (open_part parts k) (fun ws =>
  match kids_with T_COMMENTLIST ws with
  | [cl] => oiter comment_skel (children cl)
  | _ => Ok tt
  end).

Definition load_table_skel (parts : list (Z * fstate)) (k : option Z) : outcome unit :=
  obind (open_part parts k) (fun table =>
  obind (req A_NAME table) (fun _ =>
  obind (req A_REF table) (fun _ =>
  obind (match attr A_TOTALSROWCOUNT table with Some v => ignore (parse_u32 v) | None => Ok tt end) (fun _ =>
  obind (match attr A_HEADERROWCOUNT table with Some v => ignore (parse_u32 v) | None => Ok tt end) (fun _ =>
  oiter (fun tc =>
    obind (req A_NAME tc) (fun _ =>
    obind (req A_LCID tc) (fun i => ignore (parse_u32 i)))) (desc_with T_TABLECOLUMN table)))))).

Definition sheet_rel_skel (parts : list (Z * fstate)) (rel : xml) : outcome unit :=
  obind (req A_TYPE rel) (fun t =>
  let c := ty_class t in
  if c =? 1 then
    obind (req A_TARGET rel) (fun g =>
    if replace_range_ok g then load_comments_skel parts (dotdot_part g) else Err)
  else if c =? 2 then
    obind (req A_ID rel) (fun _ => ignore (req A_TARGET rel))
  else if c =? 3 then
    obind (req A_TARGET rel) (fun g =>
    match abs_part g with
    | Some k => load_table_skel parts k
    | None => if replace_range_ok g then load_table_skel parts (dotdot_part g) else Err
    end)
  else Ok tt).

(* the Target of a workbook relationship: `path.split("/worksheets/")` then `v.get(1).ok_or_else(..)?`
   (repaired by dfbff56; was `v[1]`) *)
Definition ws_part (v : aval) : option Z :=
  match v with VTarget cls part => if (cls =? 0) || (cls =? 1) then Some part else None | _ => None end.

Definition load_sheet_rels_skel (p : pkg) (target : aval) : outcome unit :=
  match ws_part target with
  | None => Err
  | Some part =>
    match lookup part (p_srels p) with
    | None | Some Missing => Ok tt
    | Some Malformed => Err
    | Some (Tree doc) => oiter (sheet_rel_skel (p_parts p)) (kids_with T_RELATIONSHIP doc)
    end
  end.

(* ---- worksheets.rs load_sheet ------------------------------------------------------------------- *)
Definition valid_cell (r c : Z) : bool := (1 <=? r) && (r <=? 1048576) && (1 <=? c) && (c <=? 16384).

(* parse_cell_reference *)
Definition cell_of (v : aval) : outcome (Z * Z) :=
  match v with VCell r c => if valid_cell r c then Ok (r, c) else Err | _ => Err end.
(* parse_range *)
Definition range_of (v : aval) : outcome (Z * Z * Z * Z) :=
  match v with
  | VCell r c => if valid_cell r c then Ok (r, c, r, c) else Err
  | VRange r1 c1 r2 c2 => if valid_cell r1 c1 && valid_cell r2 c2 then Ok (r1, c1, r2, c2) else Err
  | _ => Err
  end.

Definition col_skel (col : xml) : outcome unit :=
  obind (req A_MIN col) (fun v => obind (parse_i32 v) (fun _ =>
  obind (req A_MAX col) (fun v => obind (parse_i32 v) (fun _ =>
  obind (req A_WIDTH col) (fun v => parse_f64 v))))).

Definition load_columns_skel (ws : xml) : outcome unit :=
  match kids_with T_COLS ws with
  | [cols] => oiter col_skel (children cols)
  | _ => Ok tt
  end.

Definition load_sheet_color_skel (ws : xml) : outcome unit :=
  match kids_with T_SHEETPR ws with
  | [pr] => match kids_with T_TABCOLOR pr with [tab] => color_skel tab | _ => Ok tt end
  | _ => Ok tt
  end.

Definition formula_skel (cell_rc : Z * Z) (f : xml) : outcome unit :=
  let ty := match attr A_T f with
            | None => 2
            | Some (VWord w) => if (0 <=? w) && (w <=? 3) then w else 4
            | Some _ => 4
            end in
  let volatile_hint := (ty =? 2)
                       && (match attr A_CA f with Some (VNum 1) => true | _ => false end)
                       && negb (has_text f)
                       && (match elems_of f with [] => true | _ => false end) in
  if volatile_hint then Ok tt
  else if ty =? 0 then obind (req A_SI f) (fun v => ignore (parse_i32 v))
  else if ty =? 1 then
    match attr A_REF f with
    | None => Err
    | Some v =>
      obind (range_of v) (fun rg =>
      match rg with (r1, c1, _, _) =>
        if (r1 =? fst cell_rc) && (c1 =? snd cell_rc) then Ok tt else Err
      end)
    end
  else if ty =? 2 then Ok tt
  else Err.

(* one child of a <row>; result: the cell was read *)
Definition cell_skel (cell : xml) : outcome unit :=
  obind (req A_R cell) (fun v =>
  obind (cell_of v) (fun rc =>
  match kids_with T_F cell with
  | [f] => formula_skel rc f
  | _ => Ok tt
  end)).

Definition row_skel (row : xml) : outcome unit :=
  obind (match attr A_R row with
         | Some v => obind (parse_i32 v) (fun _ => Ok true)
         | None => Ok false
         end) (fun has_index =>
  obind (oiter cell_skel (children row)) (fun _ =>
  (* "Row without a row index": neither the attribute nor a cell supplied one *)
  if has_index || negb (match children row with [] => true | _ => false end) then Ok tt else Err)).

Definition hyperlink_skel (h : xml) : outcome unit :=
  obind (req A_REF h) (fun v => ignore (range_of v)).

Definition load_sheet_skel (parts : list (Z * fstate)) (target : aval) : outcome unit :=
  obind (open_part parts (ws_part target)) (fun ws =>
  obind (load_columns_skel ws) (fun _ =>
  obind (load_sheet_color_skel ws) (fun _ =>
  (* `.find(sheetData).ok_or_else(..)?` (repaired by 2db1935; was `.collect::<Vec<_>>()[0]`) *)
  obind (first_or_err (kids_with T_SHEETDATA ws)) (fun sheet_data =>
  obind (oiter row_skel (children sheet_data)) (fun _ =>
  obind (match kids_with T_MERGECELLS ws with
         | [mc] => oiter (fun m => ignore (req A_REF m)) (children mc)
         | _ => Ok tt
         end) (fun _ =>
  oiter hyperlink_skel (flat_map (kids_with T_HYPERLINK) (kids_with T_HYPERLINKS ws)))))))).

(* ---- worksheets.rs load_sheets -------------------------------------------------------------------- *)
(* `rels.get(&sheet.id).ok_or_else(..)?` (repaired by f8b4521; was `&rels[&sheet.id]`) *)
Definition rel_index (rels : list relrec) (rid : aval) : outcome relrec :=
  match rel_lookup rid rels with Some r => Ok r | None => Err end.

Definition is_worksheet_rel (r : relrec) : bool := ty_class (r_type r) =? 0.

Definition load_sheets_skel (p : pkg) (rels : list relrec) (rids : list aval) : outcome unit :=
  (* first loop: comments, tables and hyperlink relationships of every sheet *)
  obind (oiter (fun rid =>
           obind (rel_index rels rid) (fun rel =>
           if is_worksheet_rel rel then load_sheet_rels_skel p (r_target rel) else Ok tt)) rids) (fun _ =>
  (* second loop: the sheets *)
  oiter (fun rid =>
           obind (rel_index rels rid) (fun rel =>
           if is_worksheet_rel rel then load_sheet_skel (p_parts p) (r_target rel) else Ok tt)) rids).

(* worksheets.len() after a successful load_sheets: the sheets that took the `if` branch *)
Definition loaded_worksheets (rels : list relrec) (rids : list aval) : list aval :=
  filter (fun rid => match rel_lookup rid rels with Some r => is_worksheet_rel r | None => false end) rids.

(* ---- mod.rs load_xlsx_from_reader + Model::from_workbook -------------------------------------------- *)
Definition load_skel (p : pkg) : outcome unit :=
  obind (match p_sst p with Malformed => Err | _ => Ok tt end) (fun _ =>
  obind (load_workbook_skel (p_wb p)) (fun wb =>
  obind (load_rels_skel (p_rels p)) (fun rels =>
  obind (load_styles_skel (p_styles p)) (fun _ =>
  obind (load_sheets_skel p rels (fst wb)) (fun _ =>
  (* reparse_formula_hack: `worksheets.first().ok_or_else(..)?` for every defined name (1babd25; was `worksheets[0]`) *)
  if (0 <? snd wb) && (match loaded_worksheets rels (fst wb) with [] => true | _ => false end)
  then Err else Ok tt))))).
