(* Xlsx/CellCodecProofs.v — [dec_cell (enc_cell c) = canonical c] for every cell kind, the exact
   conditions under which nothing is canonicalised, and the kinds that do not survive. *)
From IronCalc Require Import Base.Prelude Base.Dec Codec.XmlEscape Codec.XmlEscapeProofs
  Generated.Tables_c23 Codec.Names Codec.NamesProofs Xlsx.CellCodec.

(* ---------- errors: Display on the way out, get_error_by_english_name on the way in ---------- *)
Lemma read_error_display_b :
  forallb (fun e => Nat.eqb (read_error (Some (display e)) None) e) (seq 0 n_err) = true.
Proof. vm_compute. reflexivity. Qed.

Lemma read_error_display e : err_in_range e = true -> read_error (Some (display e)) None = e.
Proof.
  unfold err_in_range. intro H. apply Nat.ltb_lt in H.
  apply Nat.eqb_eq. exact (seq_forallb _ _ read_error_display_b e H).
Qed.

(* ---------- shared-string index ---------- *)
Lemma read_index_dec si : 0 <= si -> read_index (Some (dec_of_Z si)) = si.
Proof.
  intro H. unfold dec_of_Z. destruct (si <? 0) eqn:E; [apply Z.ltb_lt in E; lia|].
  unfold read_index. destruct (dec_of_nonneg si) as [|c r] eqn:D.
  - exfalso. exact (dec_of_nonneg_nonempty si D).
  - rewrite <- D. rewrite dec_of_nonneg_digits by exact H. apply dec_of_nonneg_val. exact H.
Qed.

Lemma read_bool_text b : read_bool (Some (bool_text b)) = b.
Proof. destruct b; reflexivity. Qed.

Lemma style_roundtrip s : match style_attr s with Some s' => s' | None => 0 end = s.
Proof. unfold style_attr. destruct (s =? 0) eqn:E; [apply Z.eqb_eq in E; congruence|reflexivity]. Qed.

Section Proofs.
  Variable num : Type.
  Variable show_num : num -> text.
  Variable read_num : text -> num.
  Variable formula : Type.
  Variable finite : num -> bool.
  (* the law of the Rust primitives format!("{}") and parse::<f64> on FINITE numbers (checked by the
     harness on every generated number); since /repo 3c03706 the reader maps a non-finite <v> to 0 *)
  Hypothesis read_show : forall n, finite n = true -> read_num (show_num n) = n.

  Notation cell := (cell num formula).
  Notation enc := (enc_cell num show_num formula).
  Notation dec := (dec_cell num read_num formula).
  Notation canonical := (canonical num formula).
  Notation exact := (exact num formula).

  Lemma written_ok t : forallb text_char_ok t = true -> written_text t = Ok (xesc t).
  Proof. intro H. unfold written_text. apply xml_unescape_escape. exact H. Qed.

  Ltac finish :=
    cbn [dec_cell cell_type_of x_t x_v x_f x_s x_cm x_vm x_is mk xf_array xf_formula anchor_of canonical canon_fval is_dynamic];
    unfold read_number; rewrite ?style_roundtrip, ?read_bool_text; try (rewrite read_show by assumption); try reflexivity.

  (* every kind: the reader returns the canonical form of what the writer was given *)
  Theorem cell_types here (c : cell) :
    evaluated num formula c = true -> texts_ok num formula c = true -> ids_ok num formula c = true ->
    nums_finite num formula finite c = true ->
    exists x, enc c = Ok x /\ dec (anchor_of num formula c) here x = canonical here c.
  Proof.
    intros He Ht Hi Hn. destruct c as [s|v s|v s|e s|si s|t s|f s v|f s w h k v|s a v]; cbn [nums_finite] in Hn.
    - eexists. split; [reflexivity|]. finish.
    - eexists. split; [reflexivity|]. finish.
    - eexists. split; [reflexivity|]. unfold read_number. finish.
    - cbn [ids_ok] in Hi. eexists. split; [reflexivity|]. finish.
      rewrite read_error_display by exact Hi. reflexivity.
    - cbn [ids_ok] in Hi. apply Z.leb_le in Hi. eexists. split; [reflexivity|]. finish.
      rewrite read_index_dec by exact Hi. reflexivity.
    - cbn [texts_ok] in Ht. cbn [enc_cell]. rewrite written_ok by exact Ht.
      eexists. split; [reflexivity|]. finish.
    - cbn [evaluated] in He. cbn [texts_ok] in Ht. cbn [ids_ok] in Hi. cbn [enc_cell].
      destruct v as [|b|n|t|e o m]; cbn [enc_value fval_evaluated fval_text_ok fval_err_ok fval_finite] in *; try discriminate He.
      + eexists. split; [reflexivity|]. finish.
      + eexists. split; [reflexivity|]. unfold read_number. finish.
      + rewrite written_ok by exact Ht. eexists. split; [reflexivity|]. finish.
      + eexists. split; [reflexivity|]. finish. rewrite read_error_display by exact Hi. reflexivity.
    - cbn [evaluated] in He. cbn [texts_ok] in Ht. cbn [ids_ok] in Hi. cbn [enc_cell].
      destruct v as [|b|n|t|e o m]; cbn [enc_value fval_evaluated fval_text_ok fval_err_ok fval_finite] in *; try discriminate He;
        destruct k.
      all: try (rewrite written_ok by exact Ht).
      all: eexists; (split; [reflexivity|]); unfold read_number; finish.
      all: rewrite read_error_display by exact Hi; reflexivity.
    - cbn [texts_ok] in Ht. cbn [ids_ok] in Hi. destruct v as [b|n|t|e]; cbn [enc_cell].
      + eexists. split; [reflexivity|]. finish.
      + eexists. split; [reflexivity|]. unfold read_number. finish.
      + rewrite written_ok by exact Ht. eexists. split; [reflexivity|]. finish.
      + eexists. split; [reflexivity|]. finish. rewrite read_error_display by exact Hi. reflexivity.
  Qed.

  (* nothing at all is lost exactly under [exact] *)
  Lemma canonical_exact here (c : cell) : exact here c = true -> canonical here c = c.
  Proof.
    assert (Hf : forall v, fval_exact num here v = true -> canon_fval num here v = v).
    { intros [|b|n|t|e o m]; cbn [fval_exact canon_fval]; intro H; try reflexivity.
      - unfold canon_text. rewrite decode_xesc; [reflexivity|]. apply negb_true_iff in H. exact H.
      - apply andb_true_iff in H as [Ho Hm]. apply text_eqb_eq in Ho, Hm. congruence. }
    destruct c as [s|v s|v s|e s|si s|t s|f s v|f s w h k v|s a v]; cbn [CellCodec.exact CellCodec.canonical]; intro H; try reflexivity.
    - apply negb_true_iff in H. unfold canon_text. rewrite decode_xesc by exact H. reflexivity.
    - rewrite Hf by exact H. reflexivity.
    - rewrite Hf by exact H. reflexivity.
    - destruct v as [b|n|t|e]; try reflexivity.
      apply negb_true_iff in H. unfold canon_text. rewrite decode_xesc by exact H. reflexivity.
  Qed.

  Theorem cell_types_exact here (c : cell) :
    evaluated num formula c = true -> texts_ok num formula c = true -> ids_ok num formula c = true ->
    nums_finite num formula finite c = true -> exact here c = true ->
    exists x, enc c = Ok x /\ dec (anchor_of num formula c) here x = c.
  Proof.
    intros He Ht Hi Hn Hx. destruct (cell_types here c He Ht Hi Hn) as [x [E D]].
    exists x. split; [exact E|]. rewrite D. apply canonical_exact. exact Hx.
  Qed.

  (* ---------- the kinds that do not survive ---------- *)
  (* a formula that has not been evaluated: the writer panics *)
  Lemma unevaluated_panics f s : enc (CFormula num formula f s (FUneval num)) = Panic.
  Proof. reflexivity. Qed.
  Lemma unevaluated_array_panics f s w h k : enc (CArray num formula f s w h k (FUneval num)) = Panic.
  Proof. destruct k; reflexivity. Qed.

  (* #N/IMPL! survives since /repo 4a681a0 (F01 repaired) *)
  Lemma nimpl_kept here s :
    exists x, enc (CErr num formula E_NIMPL s) = Ok x /\ dec None here x = CErr num formula E_NIMPL s.
  Proof. eexists. split; [reflexivity|]. finish. Qed.

  (* origin and message of an error value are not in the file *)
  Lemma error_origin_lost here f s o m :
    exists x, enc (CFormula num formula f s (FErr num E_DIV o m)) = Ok x /\
              dec None here x = CFormula num formula f s (FErr num E_DIV here (display E_DIV)).
  Proof. eexists. split; [reflexivity|]. finish. Qed.

  (* a spill cell that is not inside the range of an array formula written before it (the reader's
     [anchor] is None) comes back as an ordinary value cell *)
  Lemma orphan_spill_number here s a n : finite n = true ->
    exists x, enc (CSpill num formula s a (SNum num n)) = Ok x /\ dec None here x = CNum num formula n s.
  Proof. intro Hf. eexists. split; [reflexivity|]. unfold read_number. finish. Qed.
  Lemma orphan_spill_bool here s a b :
    exists x, enc (CSpill num formula s a (SBool num b)) = Ok x /\ dec None here x = CBool num formula b s.
  Proof. eexists. split; [reflexivity|]. finish. Qed.
  Lemma orphan_spill_text here s a t : forallb text_char_ok t = true ->
    exists x, enc (CSpill num formula s a (SText num t)) = Ok x /\ dec None here x = CStrText num formula (canon_text t) s.
  Proof. intro Ht. cbn [enc_cell]. rewrite written_ok by exact Ht. eexists. split; [reflexivity|]. finish. Qed.
  (* ... and a value cell inside such a range comes back as a spill cell *)
  Lemma covered_value_becomes_spill here s a n : finite n = true ->
    exists x, enc (CNum num formula n s) = Ok x /\ dec (Some a) here x = CSpill num formula s a (SNum num n).
  Proof. intro Hf. eexists. split; [reflexivity|]. unfold read_number. finish. Qed.

  (* a non-finite number (the engine can hold inf: C08) is written as "inf" / "NaN" and read as
     whatever the reader's fallback is (0.0 since /repo 3c03706) *)
  Lemma nonfinite_number_replaced here s n z : read_num (show_num n) = z ->
    exists x, enc (CNum num formula n s) = Ok x /\ dec None here x = CNum num formula z s.
  Proof. intro Hz. eexists. split; [reflexivity|]. finish. rewrite Hz. reflexivity. Qed.

  (* a cached text result with a colliding look-alike is corrupted (F17) *)
  Lemma text_value_corrupted here f s :
    exists x, enc (CFormula num formula f s (FText num witness)) = Ok x /\
              dec None here x = CFormula num formula f s (FText num [65; 120; 48; 48; 48; 49; 95]).
  Proof.
    cbn [enc_cell enc_value].
    assert (W : written_text witness = Ok (xesc witness)) by (apply written_ok; vm_compute; reflexivity).
    rewrite W. eexists. split; [reflexivity|]. finish.

  Qed.
End Proofs.
