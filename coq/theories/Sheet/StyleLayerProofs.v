(* Sheet/StyleLayerProofs.v — a style assigned to a cell, a row or a column is what the cell-level
   getter resolves, and no other cell changes. *)
From IronCalc Require Import Base.Prelude Sheet.Cols Sheet.ColsProofs Sheet.Rows Sheet.RowsProofs
  Sheet.Styles Sheet.StylesProofs Sheet.StyleLayer.

Lemma cell_put_same r c i cs : cell_style r c (put_cell r c i cs) = Some i.
Proof.
  induction cs as [|[[r' c'] i'] t IH]; cbn [put_cell cell_style].
  - rewrite !Z.eqb_refl. reflexivity.
  - destruct ((r' =? r) && (c' =? c)) eqn:E; cbn [cell_style]; rewrite E; [reflexivity | exact IH].
Qed.

Lemma cell_put_other r c i r' c' cs :
  (r', c') <> (r, c) -> cell_style r' c' (put_cell r c i cs) = cell_style r' c' cs.
Proof.
  intro Hne. induction cs as [|[[r0 c0] i0] t IH]; cbn [put_cell cell_style].
  - destruct ((r =? r') && (c =? c')) eqn:E; [|reflexivity].
    apply andb_true_iff in E as (E1 & E2). apply Z.eqb_eq in E1, E2. congruence.
  - destruct ((r0 =? r) && (c0 =? c)) eqn:E; cbn [cell_style].
    + apply andb_true_iff in E as (E1 & E2). apply Z.eqb_eq in E1, E2. subst r0 c0.
      destruct ((r =? r') && (c =? c')) eqn:E'; [|reflexivity].
      apply andb_true_iff in E' as (E1 & E2). apply Z.eqb_eq in E1, E2. congruence.
    + destruct ((r0 =? r') && (c0 =? c')); [reflexivity | exact IH].
Qed.

Lemma set_cell_style_ok l r c i l' :
  set_cell_style l r c i = Ok l' ->
  l' = mkLayer (put_cell r c i (l_cells l)) (l_rows l) (l_cols l).
Proof.
  unfold set_cell_style. destruct (cell_style r c (l_cells l)); [intro H; injection H as <-; reflexivity|].
  destruct (is_valid_row r && is_valid_column_number c); [intro H; injection H as <-; reflexivity | discriminate].
Qed.

(* the cell that was assigned reads the index; every other cell reads what it read before *)
Theorem set_cell_style_readback l r c i l' :
  set_cell_style l r c i = Ok l' -> get_cell_style_index l' r c = i.
Proof.
  intro H. apply set_cell_style_ok in H. subst l'. unfold get_cell_style_index. cbn [l_cells].
  rewrite cell_put_same. reflexivity.
Qed.

Theorem set_cell_style_frame l r c i l' r' c' :
  set_cell_style l r c i = Ok l' -> (r', c') <> (r, c) ->
  get_cell_style_index l' r' c' = get_cell_style_index l r' c'.
Proof.
  intros H Hne. apply set_cell_style_ok in H. subst l'. unfold get_cell_style_index, row_column_style.
  cbn [l_cells l_rows l_cols]. rewrite cell_put_other by exact Hne. reflexivity.
Qed.

(* rows: the record carries the index; cells of the row without a style of their own read it when
   it is not 0 (index 0 switches custom_format off and the cell falls through to the column) *)
Theorem set_row_style_layer down l r i l' :
  layer_set_row_style down l r i = Ok l' ->
  Rows.get_row_style (l_rows l') r = Some i /\
  forall c, cell_style r c (l_cells l') = None ->
    get_cell_style_index l' r c =
    if i =? 0 then match find_col c (l_cols l') with
                   | Some d => match c_style d with Some k => k | None => 0 end
                   | None => 0 end
    else i.
Proof.
  unfold layer_set_row_style. destruct (Rows.set_row_style down (l_rows l) r i) as [rs| |] eqn:E; try discriminate.
  intro H. injection H as <-. cbn [l_rows l_cells l_cols].
  unfold Rows.get_row_style.
  unfold Rows.set_row_style in E. injection E as <-.
  split.
  - rewrite find_modify_same by reflexivity. destruct (find_row r (l_rows l)); reflexivity.
  - intros c Hc. unfold get_cell_style_index, row_column_style. cbn [l_cells l_rows l_cols]. rewrite Hc.
    rewrite find_modify_same by reflexivity.
    destruct (find_row r (l_rows l)); cbn [r_custom_format r_s]; destruct (i =? 0); reflexivity.
Qed.

(* columns: the descriptor carries the index, and cells of the column without a style of their
   own, in rows without custom_format, read it *)
Theorem set_column_style_layer down up (up_down : forall w, up (down w) = w) l c i l' :
  layer_set_column_style down up l c i = Ok l' ->
  style_at (l_cols l') c = Some i /\
  forall r, cell_style r c (l_cells l') = None ->
    (match find_row r (l_rows l') with Some x => r_custom_format x = false | None => True end) ->
    get_cell_style_index l' r c = i.
Proof.
  unfold layer_set_column_style.
  destruct (Cols.set_column_style down up (l_cols l) c i) as [cs| |] eqn:E; try discriminate.
  intro H. injection H as <-. cbn [l_rows l_cells l_cols].
  pose proof (set_style_same down up up_down (l_cols l) c i cs E) as (Hr & _).
  split; [exact Hr|]. intros r Hc Hrow.
  unfold get_cell_style_index, row_column_style. cbn [l_cells l_rows l_cols]. rewrite Hc.
  unfold style_at in Hr.
  destruct (find_col c cs) as [d|]; [|discriminate]. rewrite Hr.
  destruct (find_row r (l_rows l)) as [x|]; [rewrite Hrow|]; reflexivity.
Qed.


(* ---- the order of attribute operations does not matter for what cells read -------------------- *)
Lemma row_column_style_eq l r c :
  row_column_style l r c =
  (let (s, cf) := rstyle_at (l_rows l) r in
   if cf then s else match style_at (l_cols l) c with Some i => i | None => 0 end).
Proof.
  unfold row_column_style, rstyle_at, style_at.
  destruct (find_row r (l_rows l)) as [x|]; [destruct (r_custom_format x)|]; try reflexivity;
    destruct (find_col c (l_cols l)) as [d|]; reflexivity.
Qed.

(* height / width / hidden operations on any row or column, applied to any layer, change the
   style no cell reads (neither get_cell_style_index nor get_cell_style_or_none) *)
Theorem size_ops_keep_cell_styles down up (up_down : forall w, up (down w) = w) l o r c :
  (match o with LRowHeight _ _ | LRowHidden _ _ | LColWidth _ _ | LColHidden _ _ => True | _ => False end) ->
  get_cell_style_index (step_lop down up l o) r c = get_cell_style_index l r c /\
  get_cell_style_or_none (step_lop down up l o) r c = get_cell_style_or_none l r c.
Proof.
  intro Ho. unfold step_lop.
  destruct (apply_lop down up l o) as [l'| |] eqn:E; try (split; reflexivity).
  assert (Hrows : forall rs' ro, (match ro with SetHeight _ _ | SetRowHidden _ _ => True | _ => False end) ->
            apply_rop down (l_rows l) ro = Ok rs' -> rstyle_at rs' r = rstyle_at (l_rows l) r).
  { intros rs' ro Hro Er.
    pose proof (rows_frame down up up_down (l_rows l) ro r RStyle) as Hf.
    unfold step_rop in Hf. rewrite Er in Hf. cbn [rget] in Hf.
    assert (Hne : (rop_row ro, rop_attr ro) <> (r, RStyle)) by (destruct ro; try contradiction; cbn; congruence).
    specialize (Hf Hne). congruence. }
  assert (Hcols : forall cs' co, (match co with SetWidth _ _ | SetHidden _ _ => True | _ => False end) ->
            apply_cop down up (l_cols l) co = Ok cs' -> style_at cs' c = style_at (l_cols l) c).
  { intros cs' co Hco Ec.
    destruct (Z.eq_dec c (cop_col co)) as [->|Hne].
    - destruct co as [j w|j b|j s0|j]; try contradiction; cbn [cop_col apply_cop] in *.
      + apply (set_width_same down up up_down) in Ec as (_ & _ & H3). exact H3.
      + apply (set_hidden_same down up up_down) in Ec as (_ & _ & H3). exact H3.
    - pose proof (cop_other_columns down up (l_cols l) co cs' c Ec Hne) as Hv.
      apply (obs_of_view up) in Hv as (_ & _ & H3 & _). exact H3. }
  destruct o as [r0 c0 i|r0 i|c0 i|r0 h|r0 b|r0|c0 w|c0 b|c0]; try contradiction; cbn [apply_lop] in E.
  - destruct (Rows.set_row_height down (l_rows l) r0 h) as [rs'| |] eqn:Er; try discriminate.
    injection E as <-. unfold get_cell_style_index, get_cell_style_or_none. cbn [l_cells].
    rewrite !row_column_style_eq. cbn [l_rows l_cols].
    rewrite (Hrows rs' (SetHeight r0 h) I Er). split; reflexivity.
  - destruct (Rows.set_row_hidden down (l_rows l) r0 b) as [rs'| |] eqn:Er; try discriminate.
    injection E as <-. unfold get_cell_style_index, get_cell_style_or_none. cbn [l_cells].
    rewrite !row_column_style_eq. cbn [l_rows l_cols].
    rewrite (Hrows rs' (SetRowHidden r0 b) I Er). split; reflexivity.
  - destruct (Cols.set_column_width down (l_cols l) c0 w) as [cs'| |] eqn:Ec; try discriminate.
    injection E as <-. unfold get_cell_style_index, get_cell_style_or_none. cbn [l_cells].
    rewrite !row_column_style_eq. cbn [l_rows l_cols].
    rewrite (Hcols cs' (SetWidth c0 w) I Ec). split; reflexivity.
  - destruct (Cols.set_column_hidden down up (l_cols l) c0 b) as [cs'| |] eqn:Ec; try discriminate.
    injection E as <-. unfold get_cell_style_index, get_cell_style_or_none. cbn [l_cells].
    rewrite !row_column_style_eq. cbn [l_rows l_cols].
    rewrite (Hcols cs' (SetHidden c0 b) I Ec). split; reflexivity.
Qed.

(* ---- C30 at cell level: assign = intern + store the index; read = index + resolve -------------- *)
Section Cells.
Variables font fill border align : Type.
Variable font_eqb : font -> font -> bool.
Variable fill_eqb : fill -> fill -> bool.
Variable border_eqb : border -> border -> bool.
Variable align_eqb : align -> align -> bool.
Hypothesis font_eqb_eq : forall a b, font_eqb a b = true -> a = b.
Hypothesis fill_eqb_eq : forall a b, fill_eqb a b = true -> a = b.
Hypothesis border_eqb_eq : forall a b, border_eqb a b = true -> a = b.
Hypothesis align_eqb_eq : forall a b, align_eqb a b = true -> a = b.

Notation intern := (intern font_eqb fill_eqb border_eqb align_eqb).

(* Model::set_cell_style followed by Model::get_style_for_cell returns the style, and every other
   cell whose index was valid keeps the style it resolved to *)
Theorem cell_assignment (st : styles font fill border align) s st' i l r c l' :
  wf_styles st -> intern st s = Ok (st', i) -> set_cell_style l r c i = Ok l' ->
  get_style st' (get_cell_style_index l' r c) = Ok s /\
  forall r' c', (r', c') <> (r, c) ->
    get_cell_style_index l' r' c' = get_cell_style_index l r' c' /\
    (0 <= get_cell_style_index l r' c' < len (st_xfs st) ->
     get_style st' (get_cell_style_index l' r' c') = get_style st (get_cell_style_index l r' c')).
Proof.
  intros Hwf Hi Hs. split.
  - rewrite (set_cell_style_readback l r c i l' Hs).
    exact (intern_readback _ _ _ _ _ _ _ _ font_eqb_eq fill_eqb_eq border_eqb_eq align_eqb_eq st s st' i Hwf Hi).
  - intros r' c' Hne. pose proof (set_cell_style_frame l r c i l' r' c' Hs Hne) as Hf.
    split; [exact Hf|]. intro Hk. rewrite Hf.
    exact (proj1 (intern_stable _ _ _ _ _ _ _ _ font_eqb_eq fill_eqb_eq border_eqb_eq align_eqb_eq st s st' i Hwf Hi) _ Hk).
Qed.

(* Model::set_row_style with a non-default style, on ANY layer (whatever record the row had before:
   none, one created by set_row_height / set_row_hidden, one carrying the default style, one
   whose style was deleted): the row getter and every cell of the row without a style of its own
   read the style *)
Theorem row_assignment (st : styles font fill border align) s st' i down l r l' :
  wf_styles st -> intern st s = Ok (st', i) -> i <> 0 -> layer_set_row_style down l r i = Ok l' ->
  (exists k, Rows.get_row_style (l_rows l') r = Some k /\ get_style st' k = Ok s) /\
  forall c, get_cell_style_or_none l' r c = None -> get_style st' (get_cell_style_index l' r c) = Ok s.
Proof.
  intros Hwf Hi Hnz Hs.
  pose proof (intern_readback _ _ _ _ _ _ _ _ font_eqb_eq fill_eqb_eq border_eqb_eq align_eqb_eq st s st' i Hwf Hi) as Hr.
  destruct (set_row_style_layer down l r i l' Hs) as (H1 & H2). split.
  - exists i. split; assumption.
  - intros c Hc. rewrite (H2 c Hc). apply Z.eqb_neq in Hnz. rewrite Hnz. exact Hr.
Qed.

(* the same for columns (rows with custom_format take precedence, as in get_cell_style_index) *)
Theorem column_assignment (st : styles font fill border align) s st' i down up l c l' :
  (forall w, up (down w) = w) ->
  wf_styles st -> intern st s = Ok (st', i) -> layer_set_column_style down up l c i = Ok l' ->
  (exists k, style_at (l_cols l') c = Some k /\ get_style st' k = Ok s) /\
  forall r, get_cell_style_or_none l' r c = None ->
    (match find_row r (l_rows l') with Some x => r_custom_format x = false | None => True end) ->
    get_style st' (get_cell_style_index l' r c) = Ok s.
Proof.
  intros Hud Hwf Hi Hs.
  pose proof (intern_readback _ _ _ _ _ _ _ _ font_eqb_eq fill_eqb_eq border_eqb_eq align_eqb_eq st s st' i Hwf Hi) as Hr.
  destruct (set_column_style_layer down up Hud l c i l' Hs) as (H1 & H2). split.
  - exists i. split; assumption.
  - intros r Hc Hrow. rewrite (H2 r Hc Hrow). exact Hr.
Qed.

End Cells.
