(* Sheet/Rows.v — executable model of the row records of a worksheet (base/src/worksheet.rs:
   set_row_style, delete_row_style, set_row_hidden, set_row_height, is_row_hidden, row_height;
   base/src/model.rs: get_row_style).  No proofs in this file.

   Rows are one record per row, created on demand and pushed at the end of the vector; every
   loop stops at the FIRST record with the row number.  Heights are tokens: the API speaks
   pixels, the record stores pixels / ROW_HEIGHT_FACTOR; the two f64 operations are the Section
   variables [down] and [up]. *)
From IronCalc Require Import Base.Prelude.

Definition DEFAULT_ROW_HEIGHT : Z := 25.

Record row := mkRow {
  r_r : Z; r_height : Z; r_custom_format : bool; r_custom_height : bool; r_s : Z; r_hidden : bool }.
Definition rows := list row.

Definition is_valid_row (r : Z) : bool := (1 <=? r) && (r <=? LAST_ROW).

Fixpoint find_row (r : Z) (rs : rows) : option row :=
  match rs with
  | [] => None
  | x :: t => if r_r x =? r then Some x else find_row r t
  end.

(* [for r in rows.iter_mut() { if r.r == row { <f>; return } }  rows.push(<fresh>)] *)
Fixpoint modify (r : Z) (f : row -> row) (fresh : row) (rs : rows) : rows :=
  match rs with
  | [] => [fresh]
  | x :: t => if r_r x =? r then f x :: t else x :: modify r f fresh t
  end.

(* the same loop without the push (delete_row_style) *)
Fixpoint modify_present (r : Z) (f : row -> row) (rs : rows) : rows :=
  match rs with
  | [] => []
  | x :: t => if r_r x =? r then f x :: t else x :: modify_present r f t
  end.

(* ---- observations without the validity gate ------------------------------------------------ *)
Definition rhidden_at (rs : rows) (r : Z) : bool :=
  match find_row r rs with Some x => r_hidden x | None => false end.
(* the style attribute of a row: the index and the flag that makes cells use it
   (get_row_column_style falls through to the column style when the flag is off) *)
Definition rstyle_at (rs : rows) (r : Z) : Z * bool :=
  match find_row r rs with Some x => (r_s x, r_custom_format x) | None => (0, false) end.
(* Model::get_row_style at index level: Some as soon as a record exists *)
Definition get_row_style (rs : rows) (r : Z) : option Z :=
  match find_row r rs with Some x => Some (r_s x) | None => None end.

Section Rows.
Variables down up : Z -> Z.

Definition rheight_at (rs : rows) (r : Z) : Z :=
  match find_row r rs with Some x => up (r_height x) | None => DEFAULT_ROW_HEIGHT end.

(* ---- getters ------------------------------------------------------------------------------------ *)
Definition is_row_hidden (rs : rows) (r : Z) : outcome bool :=
  if negb (is_valid_row r) then Err else Ok (rhidden_at rs r).

Definition row_height (rs : rows) (r : Z) : outcome Z :=
  if negb (is_valid_row r) then Err
  else Ok (match find_row r rs with
           | Some x => if r_hidden x then 0 else up (r_height x)
           | None => DEFAULT_ROW_HEIGHT
           end).

(* ---- setters ------------------------------------------------------------------------------------ *)
Definition set_row_style (rs : rows) (r s : Z) : outcome rows :=
  let custom_format := negb (s =? 0) in
  Ok (modify r
        (fun x => mkRow (r_r x) (r_height x) custom_format (r_custom_height x) s (r_hidden x))
        (mkRow r (down DEFAULT_ROW_HEIGHT) custom_format false s false) rs).

Definition delete_row_style (rs : rows) (r : Z) : outcome rows :=
  Ok (modify_present r
        (fun x => mkRow (r_r x) (r_height x) false (r_custom_height x) 0 (r_hidden x)) rs).

Definition set_row_hidden (rs : rows) (r : Z) (hidden : bool) : outcome rows :=
  if negb (is_valid_row r) then Err
  else Ok (modify r
        (fun x => mkRow (r_r x) (r_height x) (r_custom_format x) (r_custom_height x) (r_s x) hidden)
        (mkRow r (down DEFAULT_ROW_HEIGHT) false false 0 hidden) rs).

Definition set_row_height (rs : rows) (r h : Z) : outcome rows :=
  if negb (is_valid_row r) then Err
  else if h <? 0 then Err
  else obind (is_row_hidden rs r) (fun hidden =>
       Ok (modify r
        (fun x => mkRow (r_r x) (down h) (r_custom_format x) true (r_s x) (r_hidden x))
        (mkRow r (down h) false true 0 hidden) rs)).

(* ---- operations and histories ------------------------------------------------------------------ *)
Inductive rop :=
| SetHeight (r h : Z)
| SetRowHidden (r : Z) (b : bool)
| SetRowStyle (r s : Z)
| DelRowStyle (r : Z).

Definition rop_row (o : rop) : Z :=
  match o with SetHeight r _ => r | SetRowHidden r _ => r | SetRowStyle r _ => r | DelRowStyle r => r end.

Definition apply_rop (rs : rows) (o : rop) : outcome rows :=
  match o with
  | SetHeight r h => set_row_height rs r h
  | SetRowHidden r b => set_row_hidden rs r b
  | SetRowStyle r s => set_row_style rs r s
  | DelRowStyle r => delete_row_style rs r
  end.

Definition step_rop (rs : rows) (o : rop) : rows :=
  match apply_rop rs o with Ok rs' => rs' | _ => rs end.

Definition run_rops (rs : rows) (os : list rop) : rows := fold_left step_rop os rs.

End Rows.

(* ---- the abstract reading: three independent total maps ---------------------------------------- *)
Record arows := mkAR { ar_height : Z -> Z; ar_hidden : Z -> bool; ar_style : Z -> Z * bool }.

Definition updr {A} (f : Z -> A) (j : Z) (v : A) : Z -> A := fun k => if k =? j then v else f k.

Definition abs_rstep (a : arows) (o : rop) : arows :=
  match o with
  | SetHeight r h =>
      if is_valid_row r && negb (h <? 0) then mkAR (updr (ar_height a) r h) (ar_hidden a) (ar_style a) else a
  | SetRowHidden r b =>
      if is_valid_row r then mkAR (ar_height a) (updr (ar_hidden a) r b) (ar_style a) else a
  | SetRowStyle r s => mkAR (ar_height a) (ar_hidden a) (updr (ar_style a) r (s, negb (s =? 0)))
  | DelRowStyle r => mkAR (ar_height a) (ar_hidden a) (updr (ar_style a) r (0, false))
  end.

Definition abs_rof (height : rows -> Z -> Z) (rs : rows) : arows :=
  mkAR (height rs) (rhidden_at rs) (rstyle_at rs).

(* the one step after which Model::get_row_style answers differently although no style
   operation was applied: a record is created for a row that had none *)
Definition materialises (rs : rows) (o : rop) : bool :=
  match o with
  | SetHeight r h => is_valid_row r && negb (h <? 0) && match find_row r rs with None => true | _ => false end
  | SetRowHidden r _ => is_valid_row r && match find_row r rs with None => true | _ => false end
  | _ => false
  end.

(* ---- the property's own vocabulary ------------------------------------------------------------- *)
Inductive rattr := Height | RHidden | RStyle.
Inductive rval := VHeight (h : Z) | VRHidden (b : bool) | VRStyle (s : Z * bool).

Definition rop_attr (o : rop) : rattr :=
  match o with SetHeight _ _ => Height | SetRowHidden _ _ => RHidden | _ => RStyle end.
Definition rop_val (o : rop) : rval :=
  match o with
  | SetHeight _ h => VHeight h | SetRowHidden _ b => VRHidden b
  | SetRowStyle _ s => VRStyle (s, negb (s =? 0)) | DelRowStyle _ => VRStyle (0, false)
  end.
Definition rget (up : Z -> Z) (a : rattr) (rs : rows) (r : Z) : rval :=
  match a with
  | Height => VHeight (rheight_at up rs r)
  | RHidden => VRHidden (rhidden_at rs r)
  | RStyle => VRStyle (rstyle_at rs r)
  end.
Definition raget (a : rattr) (m : arows) (r : Z) : rval :=
  match a with
  | Height => VHeight (ar_height m r)
  | RHidden => VRHidden (ar_hidden m r)
  | RStyle => VRStyle (ar_style m r)
  end.
