(* Sheet/Wf.v — structural well-formedness of a workbook (property C27).  Executable model.
   The representation mirrors /repo/base/src/types.rs reduced to its structural skeleton:
   sheets (name, upper-cased name as computed by the implementation's to_uppercase, id, cells,
   column descriptors, row numbers of the row records, number of shared formulas), number of
   shared strings, style pools (sizes of fonts/fills/borders, ids of the custom number formats,
   the four component indices of every cell_xfs record), sheet ids of the defined names.
   Cells are the cells of Eval/Spill.v with payload [option Z]: [KValue (Some si)] is a
   SharedString with index si, [KValue None] any other literal. *)
From IronCalc Require Import Base.Prelude Eval.Spill.
From IronCalc Require Sheet.Cols.

Definition vsheet : Type := sheet (option Z).

Record wsheet : Type := mkSheet {
  ws_name : text; ws_uname : text; ws_id : Z; ws_cells : vsheet;
  ws_cols : Cols.cols; ws_rows : list Z; ws_nformulas : Z }.

Record xfr : Type := mkXfr { xf_font : Z; xf_fill : Z; xf_border : Z; xf_numfmt : Z }.
Record pools : Type := mkPools {
  p_fonts : Z; p_fills : Z; p_borders : Z; p_numfmts : list Z; p_xfs : list xfr }.

Record workbook : Type := mkWb {
  wb_sheets : list wsheet; wb_nstrings : Z; wb_pools : pools; wb_names : list (option Z) }.

(* number of built-in number formats (styles.rs DEFAULT_NUM_FMTS has 50 entries; ids 0..49) *)
Definition NBUILTIN : Z := 50.

(* ---- clauses ------------------------------------------------------------------------------------ *)
Definition invalid_char (c : Z) : bool :=
  (c =? 92) || (c =? 47) || (c =? 42) || (c =? 63) || (c =? 58) || (c =? 91) || (c =? 93).
(* new_empty.rs is_valid_sheet_name *)
Definition is_valid_sheet_name (n : text) : bool :=
  negb (Nat.eqb (length n) 0) && (Nat.leb (length n) 31) && negb (existsb invalid_char n).

Fixpoint nodup_b {A} (eqb : A -> A -> bool) (l : list A) : bool :=
  match l with [] => true | x :: r => negb (existsb (eqb x) r) && nodup_b eqb r end.

Definition names_valid_b (wb : workbook) : bool := forallb (fun s => is_valid_sheet_name (ws_name s)) (wb_sheets wb).
Definition names_unique_b (wb : workbook) : bool := nodup_b text_eqb (map ws_uname (wb_sheets wb)).
Definition ids_unique_b (wb : workbook) : bool := nodup_b Z.eqb (map ws_id (wb_sheets wb)).

Definition idx_ok (i n : Z) : bool := (0 <=? i) && (i <? n).

Definition cell_ok_b (nstrings nxfs nformulas : Z) (e : pos * cell (option Z)) : bool :=
  on_grid (fst e) && idx_ok (c_s (snd e)) nxfs &&
  match c_k (snd e) with
  | KValue (Some si) => idx_ok si nstrings
  | KFormula f _ => idx_ok f nformulas
  | KDyn f _ _ _ => idx_ok f nformulas
  | KCse f _ _ _ => idx_ok f nformulas
  | _ => true
  end.
Definition sheet_cells_ok_b (nstrings nxfs : Z) (s : wsheet) : bool :=
  forallb (cell_ok_b nstrings nxfs (ws_nformulas s)) (ws_cells s).
Definition cells_ok_b (wb : workbook) : bool :=
  forallb (sheet_cells_ok_b (wb_nstrings wb) (Z.of_nat (length (p_xfs (wb_pools wb))))) (wb_sheets wb).

Definition xf_ok_b (p : pools) (x : xfr) : bool :=
  idx_ok (xf_font x) (p_fonts p) && idx_ok (xf_fill x) (p_fills p) && idx_ok (xf_border x) (p_borders p) &&
  (idx_ok (xf_numfmt x) NBUILTIN || existsb (Z.eqb (xf_numfmt x)) (p_numfmts p)).
Definition xfs_ok_b (wb : workbook) : bool :=
  negb (Nat.eqb (length (p_xfs (wb_pools wb))) 0) && forallb (xf_ok_b (wb_pools wb)) (p_xfs (wb_pools wb)).

Definition cols_ok_b (wb : workbook) : bool := forallb (fun s => Cols.wf_b (ws_cols s)) (wb_sheets wb).
Definition rows_ok_b (wb : workbook) : bool := forallb (fun s => nodup_b Z.eqb (ws_rows s)) (wb_sheets wb).
Definition spills_ok_b (wb : workbook) : bool := forallb (fun s => spill_exact_b (ws_cells s)) (wb_sheets wb).
Definition name_ok_b (ids : list Z) (o : option Z) : bool :=
  match o with None => true | Some i => existsb (Z.eqb i) ids end.
Definition dnames_ok_b (wb : workbook) : bool :=
  forallb (name_ok_b (map ws_id (wb_sheets wb))) (wb_names wb).

Definition wf_workbook_b (wb : workbook) : bool :=
  names_valid_b wb && names_unique_b wb && ids_unique_b wb && cells_ok_b wb && xfs_ok_b wb &&
  cols_ok_b wb && rows_ok_b wb && spills_ok_b wb && dnames_ok_b wb.

(* ---- the model of Model::new_empty: one sheet "Sheet1" with id 1, default pools -------------------- *)
Definition SHEET1 : text := [83; 104; 101; 101; 116; 49].
Definition SHEET1_U : text := [83; 72; 69; 69; 84; 49].
Definition init : workbook :=
  mkWb [mkSheet SHEET1 SHEET1_U 1 [] [] [] 0] 0 (mkPools 1 2 1 [] [mkXfr 0 0 0 0]) [].

(* ---- the column-descriptor part of delete_columns / insert_columns (actions.rs) -------------------- *)
Definition with_range (c : Cols.col) (lo hi : Z) : Cols.col :=
  Cols.mkCol lo hi (Cols.c_width c) (Cols.c_custom c) (Cols.c_hidden c) (Cols.c_style c).

(* one iteration of the loop "deletes all the column styles" of delete_columns, as it is after
   commit 5240496: cases A-F of the comment; D and E push only when min <= max *)
Definition del_descr (start count : Z) (c : Cols.col) : option Cols.col :=
  let e := start + count - 1 in
  let mn := Cols.c_min c in let mx := Cols.c_max c in
  if start <? mn then
    if e <? mn then Some (with_range c (mn - count) (mx - count))            (* A *)
    else if e <? mx then Some (with_range c start (mx - count))               (* B *)
    else None                                                                 (* C *)
  else if start <=? mx then
    if e <=? mx then (if mn <=? mx - count then Some (with_range c mn (mx - count)) else None)   (* D *)
    else (if mn <=? start - 1 then Some (with_range c mn (start - 1)) else None)                 (* E *)
  else Some c.                                                                (* F *)

Fixpoint del_descrs (start count : Z) (cs : Cols.cols) : Cols.cols :=
  match cs with
  | [] => []
  | c :: r => match del_descr start count c with
              | Some c' => c' :: del_descrs start count r
              | None => del_descrs start count r
              end
  end.

(* the validation delete_columns performs before (count > 0, first column on the grid, band inside
   the grid); the array check and the moving of cells are outside this model *)
Definition delete_columns_descrs (start count : Z) (cs : Cols.cols) : outcome Cols.cols :=
  if count <=? 0 then Err
  else if negb ((1 <=? start) && (start <=? LAST_COLUMN)) then Err
  else if LAST_COLUMN <? start + count - 1 then Err
  else Ok (del_descrs start count cs).

(* the loop at the end of insert_columns: left of the column: untouched; right: displaced; across: widened *)
Definition ins_descr (column count : Z) (c : Cols.col) : Cols.col :=
  if Cols.c_max c <? column then c
  else if column <=? Cols.c_min c then with_range c (Cols.c_min c + count) (Cols.c_max c + count)
  else with_range c (Cols.c_min c) (Cols.c_max c + count).
(* the validation insert_columns performs before (count > 0; since 3e01966 also: the column is on
   the grid, as in delete_columns); a refused call leaves the descriptors as they are *)
Definition insert_columns_descrs (column count : Z) (cs : Cols.cols) : outcome Cols.cols :=
  if count <=? 0 then Err
  else if negb ((1 <=? column) && (column <=? LAST_COLUMN)) then Err
  else Ok (map (ins_descr column count) cs).

(* ---- operations ---------------------------------------------------------------------------------------- *)
Fixpoint upd_nth {A} (n : nat) (f : A -> A) (l : list A) : list A :=
  match l, n with
  | [], _ => []
  | x :: r, O => f x :: r
  | x :: r, S k => x :: upd_nth k f r
  end.

(* every row setter of worksheet.rs: find the record with r == row, else push a new one *)
Definition row_touch (r : Z) (rs : list Z) : list Z := if existsb (Z.eqb r) rs then rs else rs ++ [r].
(* delete_row_style / delete of the record: rows.retain(|x| x.r != row) *)
Definition row_drop (r : Z) (rs : list Z) : list Z := filter (fun x => negb (x =? r)) rs.

(* Styles::create_new_style on the skeleton: every component is either found in its pool
   ([Some i], i being the index the lookup returned) or pushed ([None]: index = old size) *)
Definition pick (o : option Z) (n : Z) : Z * Z := match o with Some i => (i, n) | None => (n, n + 1) end.
Definition push_xf (ofont ofill oborder : option Z) (onumfmt : Z + Z) (p : pools) : option pools :=
  let '(fi, nf) := pick ofont (p_fonts p) in
  let '(li, nl) := pick ofill (p_fills p) in
  let '(bi, nb) := pick oborder (p_borders p) in
  let '(ni, nfs) := match onumfmt with
                    | inl i => (i, p_numfmts p)           (* built-in or existing custom id *)
                    | inr i => (i, p_numfmts p ++ [i])    (* new custom format with the fresh id i *)
                    end in
  let x := mkXfr fi li bi ni in
  let p' := mkPools nf nl nb nfs (p_xfs p ++ [x]) in
  (* a found index is by construction inside its pool *)
  if xf_ok_b p' x then Some p' else None.

Definition max_id (l : list wsheet) : Z := fold_right (fun s m => Z.max (ws_id s) m) 0 l.

Inductive op : Type :=
| OpCol (sheet : nat) (o : Cols.cop)
| OpRowTouch (sheet : nat) (r : Z)
| OpRowDrop (sheet : nat) (r : Z)
| OpStyle (ofont ofill oborder : option Z) (onumfmt : Z + Z)
| OpString                                   (* a new shared string is pushed *)
| OpNewSheet (name uname : text)             (* the candidate the name search of new_sheet stops at *)
| OpRename (sheet : nat) (name uname : text)
| OpDeleteSheet (sheet : nat).

Section Step.
Variables down up : Z -> Z.

Definition step (wb : workbook) (o : op) : workbook :=
  match o with
  | OpCol i c =>
      mkWb (upd_nth i (fun s => mkSheet (ws_name s) (ws_uname s) (ws_id s) (ws_cells s)
                                  (Cols.step_cop down up (ws_cols s) c) (ws_rows s) (ws_nformulas s)) (wb_sheets wb))
           (wb_nstrings wb) (wb_pools wb) (wb_names wb)
  | OpRowTouch i r =>
      if (1 <=? r) && (r <=? LAST_ROW) then
      mkWb (upd_nth i (fun s => mkSheet (ws_name s) (ws_uname s) (ws_id s) (ws_cells s) (ws_cols s)
                                  (row_touch r (ws_rows s)) (ws_nformulas s)) (wb_sheets wb))
           (wb_nstrings wb) (wb_pools wb) (wb_names wb)
      else wb
  | OpRowDrop i r =>
      mkWb (upd_nth i (fun s => mkSheet (ws_name s) (ws_uname s) (ws_id s) (ws_cells s) (ws_cols s)
                                  (row_drop r (ws_rows s)) (ws_nformulas s)) (wb_sheets wb))
           (wb_nstrings wb) (wb_pools wb) (wb_names wb)
  | OpStyle a b c d =>
      match push_xf a b c d (wb_pools wb) with
      | Some p' => mkWb (wb_sheets wb) (wb_nstrings wb) p' (wb_names wb)
      | None => wb
      end
  | OpString => mkWb (wb_sheets wb) (wb_nstrings wb + 1) (wb_pools wb) (wb_names wb)
  | OpNewSheet name uname =>
      (* the search loop leaves with the first candidate no sheet has (ignoring case) *)
      if existsb (fun s => text_eqb (ws_uname s) uname) (wb_sheets wb) then wb
      else if negb (is_valid_sheet_name name) then wb     (* "Sheet<k>" is valid for k < 10^26 *)
      else mkWb (wb_sheets wb ++ [mkSheet name uname (max_id (wb_sheets wb) + 1) [] [] [] 0])
                (wb_nstrings wb) (wb_pools wb) (wb_names wb)
  | OpRename i name uname =>
      (* rename_sheet_by_index: valid name; no OTHER sheet has it ignoring case; the index exists *)
      if negb (is_valid_sheet_name name) then wb
      else if existsb (text_eqb uname) (map ws_uname (firstn i (wb_sheets wb) ++ skipn (S i) (wb_sheets wb))) then wb
      else mkWb (upd_nth i (fun s => mkSheet name uname (ws_id s) (ws_cells s) (ws_cols s) (ws_rows s) (ws_nformulas s))
                           (wb_sheets wb))
                (wb_nstrings wb) (wb_pools wb) (wb_names wb)
  | OpDeleteSheet i =>
      (* delete_sheet: refuses the last sheet; defined names scoped to the sheet go with it *)
      match nth_error (wb_sheets wb) i with
      | None => wb
      | Some s =>
          if Nat.leb (length (wb_sheets wb)) 1 then wb
          else mkWb (firstn i (wb_sheets wb) ++ skipn (S i) (wb_sheets wb)) (wb_nstrings wb) (wb_pools wb)
                    (filter (fun o => match o with Some j => negb (j =? ws_id s) | None => true end) (wb_names wb))
      end
  end.

Definition run (ops : list op) : workbook := fold_left step ops init.
End Step.
