(* Sheet/Persist.v — the internal binary format: [Model::to_bytes] / [Model::from_bytes] /
   [Model::from_workbook] (base/src/model.rs:3382, :1644, :1668) and the re-parse of the stored
   formulas on load ([parse_formulas], base/src/new_empty.rs:91).

     to_bytes   = bitcode::encode(&self.workbook)
     from_bytes = bitcode::decode(s)  then  from_workbook(workbook, language_id)
     from_workbook: get_locale(settings.locale)?  Tz::parse(settings.tz)?  get_language(id)?
                    Model { workbook, parsed_formulas = [], .. }; parse_formulas(); parse_defined_names();
                    evaluate_conditional_formatting()
   The last call evaluates the formulas of conditional-format rules, which evaluates the cells they
   read and WRITES their computed values into the workbook: [cf_eval] (a parameter; it leaves
   everything [view] shows untouched and is the identity on a workbook without conditional formats —
   premises of the theorems, checked on every run).

   The stored workbook [W] (types.rs [Workbook]) and the codec are parameters; what the loader
   reads of the workbook is the projection [view].  Every shared formula of every worksheet is
   lexed in R1C1 mode with the English tables ([lex_rc], the character level: a parameter, tied on
   every run) and parsed by [Syntax.Parser.parse] in the stored form [m_rc1]; the parser's
   environment is the workbook's sheet list, its defined names and tables, the context sheet is the
   worksheet the formula lives in.  No proofs in this file (Sheet/PersistProofs.v). *)
From IronCalc Require Import Base.Prelude Codec.RefA1 Syntax.Token Syntax.Ast Syntax.Printer Syntax.Parser Syntax.Shape.

(* the stored text form: R1C1, English, decimal point; CellReferenceRC { row: 1, column: 1 } *)
Definition m_rc1 : pmode := {| pm_rc := true; pm_xlsx := false; pm_dot := true; pm_row := 1; pm_col := 1 |}.

(* what [from_workbook] reads of a [Workbook] *)
Record wb_view := {
  v_sheets : list (text * list text);             (* per worksheet: name, shared_formulas *)
  v_defnames : list (text * option Z * text);     (* get_defined_names_with_scope() *)
  v_tables : list text;                           (* workbook.tables (names) *)
  v_locale : text;                                (* settings.locale *)
  v_tz : text;                                    (* settings.tz *)
  v_has_cf : bool;                                (* some worksheet has a conditional format *)
}.

(* the fields of [Model] the property talks about; PN = parsed_defined_names *)
Record model (W PN : Type) := {
  m_wb : W;                         (* workbook *)
  m_parsed : list (list ast);       (* parsed_formulas, without the static-analysis component *)
  m_names : PN;
  m_lang : text;                    (* language (not part of the stored workbook) *)
}.
Arguments m_wb {W PN} _.
Arguments m_parsed {W PN} _.
Arguments m_names {W PN} _.
Arguments m_lang {W PN} _.

Section Persist.
  Variable W : Type.                       (* types.rs Workbook *)
  Variable B : Type.                       (* Vec<u8> *)
  Variable enc : W -> B.                   (* bitcode::encode *)
  Variable dec : B -> option W.            (* bitcode::decode *)
  Variable PN : Type.
  Variable view : W -> wb_view.
  Variable parse_names : wb_view -> PN.    (* parse_defined_names: reads workbook.defined_names, the sheet list and settings.locale *)
  Variable cf_eval : W -> W.               (* evaluate_conditional_formatting: rewrites computed cell values only *)
  Variable valid_locale : text -> bool.    (* get_locale(..).is_ok() *)
  Variable valid_tz : text -> bool.        (* Tz::parse(..).is_ok() *)
  Variable valid_lang : text -> bool.      (* get_language(..).is_ok() *)
  Variable lex_rc : text -> list token.    (* Lexer in LexerMode::R1C1, locale "en", language "en" *)
  Variable nm : names.                     (* the English name tables *)

  Definition env_of (v : wb_view) (sheet : text) : penv :=
    {| pe_sheets := map fst (v_sheets v); pe_ctx_sheet := sheet;
       pe_defnames := v_defnames v; pe_tables := v_tables v |}.

  (* self.parser.parse(formula, &cell_reference): a failed parse is the node ParseErrorKind;
     tokens after a complete expression are ignored *)
  Definition parse_stored (v : wb_view) (sheet : text) (t : text) : ast :=
    match parse m_rc1 nm (env_of v sheet) (lex_rc t) with
    | Some (e, _) => e
    | None => EParseError
    end.

  Definition parse_formulas (v : wb_view) : list (list ast) :=
    map (fun sf => map (parse_stored v (fst sf)) (snd sf)) (v_sheets v).

  Definition from_workbook (w : W) (lang : text) : outcome (model W PN) :=
    if negb (valid_locale (v_locale (view w))) then Err
    else if negb (valid_tz (v_tz (view w))) then Err
    else if negb (valid_lang lang) then Err
    else Ok {| m_wb := cf_eval w; m_parsed := parse_formulas (view w); m_names := parse_names (view w); m_lang := lang |}.

  Definition to_bytes (m : model W PN) : B := enc (m_wb m).

  Definition from_bytes (b : B) (lang : text) : outcome (model W PN) :=
    match dec b with
    | Some w => from_workbook w lang
    | None => Err
    end.

  (* ---- the invariant of a live model the property needs ------------------------------------ *)
  (* [set_user_input] parses the user's text to a node [e], stores [to_rc_format(e)] in
     shared_formulas and keeps [e] in parsed_formulas.  [stored_ok]: the stored text [t] is the
     stored-form print of the node kept in memory (as the lexer reads it), and [e] is inside the
     proved part of the print/parse round trip (C09): a tree the parser returns, without one of
     the three associative bare pairs, user function names in lower case (F62), no lexer glue
     around ':' (F04 family). *)
  Definition stored_ok (v : wb_view) (sheet : text) (t : text) (e : ast) : Prop :=
    image m_rc1 nm (env_of v sheet) e = true /\ no_bad false e = true /\ lower_stable nm e = true /\
    glue_free true (print m_rc1 nm e) = true /\
    lex_rc t = glue true (print m_rc1 nm e).

  Definition consistent (m : model W PN) : Prop :=
    Forall2 (fun sf ps => Forall2 (stored_ok (view (m_wb m)) (fst sf)) (snd sf) ps)
            (v_sheets (view (m_wb m))) (m_parsed m).
End Persist.

(* ---- number literals (finding F03) ------------------------------------------------------------ *)
(* [stringify] prints NumberKind with to_excel_precision_str = format!("{:.14e}") (15 significant
   digits, exact decimal expansion rounded half to even) re-read and printed shortest.  For a
   non-negative integer literal below 2^53 (exactly representable, at most 16 digits) the stored
   literal is: *)
Definition store_int (n : Z) : Z :=
  if n <? 10 ^ 15 then n
  else
    let q := n / 10 in
    let r := n mod 10 in
    10 * (if r <? 5 then q else if 5 <? r then q + 1 else if Z.even q then q else q + 1).
