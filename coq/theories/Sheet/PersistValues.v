(* Sheet/PersistValues.v — C26, values: after load the evaluator starts from the same inputs, hence
   (C07) computes the same values whatever the order of evaluation and whatever stale values or
   marks either state carries.  The connection between the stored workbook and the evaluator's
   input map is the parameter [inputs_of] (cell contents of the workbook with the formula trees of
   parsed_formulas in place of the formula indices — the dump of harness/c06, tied there). *)
From IronCalc Require Import Base.Prelude Eval.NumOps Eval.Value Eval.Store Eval.StoreProofs Eval.OrderProofs.
From IronCalc Require Syntax.Ast Syntax.Token Syntax.Printer.
From IronCalc Require Import Sheet.Persist Sheet.PersistProofs.

Section PersistValues.
  Variable W : Type.
  Variable B : Type.
  Variable enc : W -> B.
  Variable dec : B -> option W.
  Variable PN : Type.
  Variable view : W -> wb_view.
  Variable parse_names : wb_view -> PN.
  Variable cf_eval : W -> W.
  Variable valid_locale valid_tz valid_lang : text -> bool.
  Variable lex_rc : text -> list Token.token.
  Variable nm : Printer.names.
  Hypothesis bitcode_rt : forall w, dec (enc w) = Some w.
  Hypothesis cf_view : forall w, view (cf_eval w) = view w.
  Hypothesis cf_none : forall w, v_has_cf (view w) = false -> cf_eval w = w.

  Variable num : Type.
  Variable N : NumOps num.
  (* the evaluator's inputs: a function of the stored workbook and the parsed formulas *)
  Variable inputs_of : W -> list (list Ast.ast) -> cref -> content (num:=num).
  (* evaluate_conditional_formatting rewrites computed values, not inputs *)
  Hypothesis cf_inputs : forall w p, same_inputs (inputs_of (cf_eval w) p) (inputs_of w p).

  Theorem load_save_values (m m' : model W PN) lang :
    consistent W PN view lex_rc nm m ->
    from_bytes W B dec PN view parse_names cf_eval valid_locale valid_tz valid_lang lex_rc nm (to_bytes W B enc PN m) lang = Ok m' ->
    let cont0 := inputs_of (m_wb m) (m_parsed m) in
    let cont0' := inputs_of (m_wb m') (m_parsed m') in
    (forall c, plain_content (cont0 c)) ->
    forall rank : cref -> nat,
    (forall c f v d, cont0 c = CFormula f v -> In d (EvalProofs.refs f) -> (rank d < rank c)%nat) ->
    (forall c f v, cont0 c = CFormula f v -> stable_result N (Eval.result_of N (dn N cont0 rank) c f)) ->
    forall k, (forall c, (rank c < k)%nat) ->
    forall o1 o2 st1 st2,
    same_inputs cont0 (cont st1) -> oof st1 = false ->      (* the live model, any stale values *)
    same_inputs cont0' (cont st2) -> oof st2 = false ->     (* the loaded model *)
    forall c, In c o1 -> In c o2 ->
    value_at (evaluate_in N k o1 st1) c = value_at (evaluate_in N k o2 st2) c.
  Proof.
    intros Hc Hl cont0 cont0'.
    assert (E : same_inputs cont0' cont0).
    { unfold cont0', cont0.
      rewrite (load_save_formulas W B enc dec PN view parse_names cf_eval valid_locale valid_tz valid_lang lex_rc nm bitcode_rt cf_view cf_none m lang m' Hc Hl).
      destruct (load_save_workbook W B enc dec PN view parse_names cf_eval valid_locale valid_tz valid_lang lex_rc nm bitcode_rt cf_view cf_none m lang m' Hl) as (Hw & _).
      rewrite Hw. apply cf_inputs. }
    intros Hp rank Hr Hs k Hk o1 o2 st1 st2 H1 H2 H3 H4 c I1 I2.
    assert (H3' : same_inputs cont0 (cont st2)).
    { intro x. rewrite <- (E x). apply H3. }
    exact (values_depend_on_inputs_only N cont0 Hp rank Hr Hs k Hk o1 o2 st1 st2 H1 H2 H3' H4 c I1 I2).
  Qed.
End PersistValues.
