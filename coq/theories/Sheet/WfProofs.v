(* Sheet/WfProofs.v — well-formedness is established by new_empty and preserved by the modelled
   operations (property C27).  Reuses ColsProofs (column descriptor surgery) and SpillProofs. *)
From IronCalc Require Import Base.Prelude Eval.Spill Eval.SpillProofs Sheet.Wf.
From IronCalc Require Sheet.Cols Sheet.ColsProofs.

(* ---- lists --------------------------------------------------------------------------------------- *)
Lemma forallb_upd_nth {A} (P : A -> bool) f i (l : list A) :
  (forall x, P x = true -> P (f x) = true) -> forallb P l = true -> forallb P (upd_nth i f l) = true.
Proof.
  intros Hf. revert i; induction l as [|x r IH]; intros i H; [destruct i; reflexivity|]. cbn [upd_nth].
  cbn [forallb] in H. apply andb_true_iff in H as [Hx Hr].
  destruct i; cbn [upd_nth forallb]; apply andb_true_iff; split; auto.
Qed.

Lemma map_upd_nth_same {A B} (g : A -> B) f i (l : list A) :
  (forall x, g (f x) = g x) -> map g (upd_nth i f l) = map g l.
Proof.
  intros Hf. revert i; induction l as [|x r IH]; intros i; [destruct i; reflexivity|]. cbn [upd_nth].
  destruct i; cbn [upd_nth map]; [rewrite Hf; reflexivity | rewrite IH; reflexivity].
Qed.

Lemma forallb_weaken {A} (P Q : A -> bool) l : (forall x, P x = true -> Q x = true) -> forallb P l = true -> forallb Q l = true.
Proof. intros H. rewrite !forallb_forall. auto. Qed.

Lemma existsb_Zeqb_In i l : existsb (Z.eqb i) l = true <-> In i l.
Proof.
  rewrite existsb_exists. split.
  - intros [x [Hin He]]. apply Z.eqb_eq in He. subst. exact Hin.
  - intros H. exists i. split; [exact H | apply Z.eqb_refl].
Qed.

Section NoDup.
Context {A : Type} (eqb : A -> A -> bool).
Hypothesis eqb_eq : forall a b, eqb a b = true <-> a = b.

Lemma existsb_eqb_In x l : existsb (eqb x) l = true <-> In x l.
Proof.
  rewrite existsb_exists. split.
  - intros [y [Hin He]]. apply eqb_eq in He. subst. exact Hin.
  - intros H. exists x. split; [exact H | apply eqb_eq; reflexivity].
Qed.

Lemma nodup_b_iff l : nodup_b eqb l = true <-> NoDup l.
Proof.
  induction l as [|x r IH]; cbn [nodup_b].
  - split; [constructor | reflexivity].
  - rewrite andb_true_iff, negb_true_iff, IH. split.
    + intros [H1 H2]. constructor; [|exact H2]. intros Hin. apply existsb_eqb_In in Hin. congruence.
    + intros H. inversion H; subst. split; [|assumption].
      destruct (existsb (eqb x) r) eqn:E; [|reflexivity]. apply existsb_eqb_In in E. contradiction.
Qed.
End NoDup.

Lemma text_eqb_iff a b : text_eqb a b = true <-> a = b.
Proof. apply text_eqb_eq. Qed.

Lemma NoDup_snoc {A} (l : list A) x : NoDup l -> ~ In x l -> NoDup (l ++ [x]).
Proof.
  induction l as [|y r IH]; intros Hnd Hx; cbn [app].
  - constructor; [intros []|constructor].
  - inversion Hnd; subst. constructor.
    + rewrite in_app_iff. intros [H|[H|[]]]; [contradiction | subst; apply Hx; left; reflexivity].
    + apply IH; [assumption | intros H; apply Hx; right; exact H].
Qed.

Lemma firstn_In {A} (l : list A) n x : In x (firstn n l) -> In x l.
Proof.
  revert n; induction l as [|y r IH]; intros n H; destruct n; cbn [firstn] in H; try destruct H as [H|H]; try contradiction.
  - left; exact H.
  - right; eapply IH; exact H.
Qed.
Lemma In_skipn {A} (l : list A) n x : In x (skipn n l) -> In x l.
Proof.
  revert n; induction l as [|y r IH]; intros n H; destruct n; cbn [skipn] in H; try exact H; try contradiction.
  right; eapply IH; exact H.
Qed.

Lemma NoDup_remove_nth {A} (l : list A) i : NoDup l -> NoDup (firstn i l ++ skipn (S i) l).
Proof.
  revert i; induction l as [|x r IH]; intros i H.
  - destruct i; cbn; constructor.
  - inversion H; subst. destruct i; [cbn; assumption|].
    change (firstn (S i) (x :: r) ++ skipn (S (S i)) (x :: r)) with (x :: (firstn i r ++ skipn (S i) r)).
    constructor; [|apply IH; assumption].
    rewrite in_app_iff. intros [Hin|Hin]; [apply firstn_In in Hin | apply (In_skipn) in Hin]; contradiction.
Qed.

Lemma In_remove_nth {A} (l : list A) i x d : NoDup l -> In x l -> x <> nth i l d -> In x (firstn i l ++ skipn (S i) l).
Proof.
  revert i; induction l as [|y r IH]; intros i Hnd Hin Hne; [destruct Hin|].
  inversion Hnd; subst. destruct i.
  - cbn in *. destruct Hin as [->|Hin]; [contradiction | exact Hin].
  - change (firstn (S i) (y :: r) ++ skipn (S (S i)) (y :: r)) with (y :: (firstn i r ++ skipn (S i) r)).
    cbn [nth] in Hne. destruct Hin as [->|Hin]; [left; reflexivity | right; apply IH; assumption].
Qed.

Lemma forallb_remove_nth {A} (P : A -> bool) l i : forallb P l = true -> forallb P (firstn i l ++ skipn (S i) l) = true.
Proof.
  rewrite !forallb_forall. intros H x Hin. apply H. apply in_app_iff in Hin as [Hin|Hin];
    [eapply firstn_In; eauto | eapply In_skipn; eauto].
Qed.

(* ---- columns: the boolean check is complete ------------------------------------------------------ *)
Lemma wf_b_complete lo cs : Cols.wf_from lo cs -> Cols.wf_from_b lo cs = true.
Proof.
  revert lo; induction cs as [|c r IH]; intros lo H; cbn [Cols.wf_from_b]; [reflexivity|].
  cbn [Cols.wf_from] in H. destruct H as [H1 [H2 [H3 H4]]].
  rewrite !andb_true_iff. repeat split; try (apply Z.ltb_lt; assumption); try (apply Z.leb_le; assumption).
  apply IH; assumption.
Qed.

Lemma cols_step_ok down up cs o : Cols.wf_b cs = true -> Cols.wf_b (Cols.step_cop down up cs o) = true.
Proof.
  intros H. apply wf_b_complete. apply ColsProofs.step_cop_wf. apply ColsProofs.wf_b_sound. exact H.
Qed.

(* ---- rows ---------------------------------------------------------------------------------------------- *)
Lemma Zeqb_iff a b : Z.eqb a b = true <-> a = b.
Proof. apply Z.eqb_eq. Qed.

Lemma row_touch_ok r rs : nodup_b Z.eqb rs = true -> nodup_b Z.eqb (row_touch r rs) = true.
Proof.
  intros H. unfold row_touch. destruct (existsb (Z.eqb r) rs) eqn:E; [exact H|].
  apply (nodup_b_iff Z.eqb Zeqb_iff). apply NoDup_snoc; [apply (nodup_b_iff Z.eqb Zeqb_iff); exact H|].
  intros Hin. apply existsb_Zeqb_In in Hin. congruence.
Qed.

Lemma row_drop_ok r rs : nodup_b Z.eqb rs = true -> nodup_b Z.eqb (row_drop r rs) = true.
Proof.
  intros H. apply (nodup_b_iff Z.eqb Zeqb_iff). apply NoDup_filter. apply (nodup_b_iff Z.eqb Zeqb_iff). exact H.
Qed.

(* ---- monotonicity in the pool sizes ---------------------------------------------------------------- *)
Lemma idx_ok_mono i n m : n <= m -> idx_ok i n = true -> idx_ok i m = true.
Proof. unfold idx_ok. rewrite !andb_true_iff, !Z.leb_le, !Z.ltb_lt. lia. Qed.

Lemma cell_ok_mono ns ns' nx nx' nf e :
  ns <= ns' -> nx <= nx' -> cell_ok_b ns nx nf e = true -> cell_ok_b ns' nx' nf e = true.
Proof.
  intros H1 H2. unfold cell_ok_b. rewrite !andb_true_iff. intros [[Hg Hs] Hk].
  split; [split; [exact Hg | eapply idx_ok_mono; eauto]|].
  destruct (c_k (snd e)) as [|[si|]| | | |]; try exact Hk. eapply idx_ok_mono; eauto.
Qed.

Lemma cells_ok_mono ns ns' nx nx' l :
  ns <= ns' -> nx <= nx' -> forallb (sheet_cells_ok_b ns nx) l = true -> forallb (sheet_cells_ok_b ns' nx') l = true.
Proof.
  intros H1 H2. apply forallb_weaken. intros s. unfold sheet_cells_ok_b. apply forallb_weaken.
  intros e. apply cell_ok_mono; assumption.
Qed.

(* ---- the clauses as a record of facts --------------------------------------------------------------- *)
Lemma wf_split wb : wf_workbook_b wb = true <->
  names_valid_b wb = true /\ names_unique_b wb = true /\ ids_unique_b wb = true /\ cells_ok_b wb = true /\
  xfs_ok_b wb = true /\ cols_ok_b wb = true /\ rows_ok_b wb = true /\ spills_ok_b wb = true /\ dnames_ok_b wb = true.
Proof. unfold wf_workbook_b. rewrite !andb_true_iff. tauto. Qed.

Theorem init_wf : wf_workbook_b init = true.
Proof. vm_compute. reflexivity. Qed.

Section Preservation.
Variables down up : Z -> Z.

(* an update of one sheet that keeps name, id, cells and formula count *)
Lemma sheet_update_wf wb i f :
  (forall s, ws_name (f s) = ws_name s /\ ws_uname (f s) = ws_uname s /\ ws_id (f s) = ws_id s /\
             ws_cells (f s) = ws_cells s /\ ws_nformulas (f s) = ws_nformulas s) ->
  (forall s, Cols.wf_b (ws_cols s) = true -> Cols.wf_b (ws_cols (f s)) = true) ->
  (forall s, nodup_b Z.eqb (ws_rows s) = true -> nodup_b Z.eqb (ws_rows (f s)) = true) ->
  wf_workbook_b wb = true ->
  wf_workbook_b (mkWb (upd_nth i f (wb_sheets wb)) (wb_nstrings wb) (wb_pools wb) (wb_names wb)) = true.
Proof.
  intros Hf Hc Hr H. apply wf_split in H as (H1 & H2 & H3 & H4 & H5 & H6 & H7 & H8 & H9).
  apply wf_split. unfold names_valid_b, names_unique_b, ids_unique_b, cells_ok_b, xfs_ok_b, cols_ok_b, rows_ok_b, spills_ok_b, dnames_ok_b in *.
  cbn [wb_sheets wb_nstrings wb_pools wb_names].
  rewrite (map_upd_nth_same ws_uname), (map_upd_nth_same ws_id) by (intros s; apply Hf).
  repeat split; try assumption.
  - apply forallb_upd_nth; [|exact H1]. intros s. destruct (Hf s) as [-> _]. auto.
  - apply forallb_upd_nth; [|exact H4]. intros s. unfold sheet_cells_ok_b. destruct (Hf s) as (_ & _ & _ & -> & ->). auto.
  - apply forallb_upd_nth; [|exact H6]. exact Hc.
  - apply forallb_upd_nth; [|exact H7]. exact Hr.
  - apply forallb_upd_nth; [|exact H8]. intros s. destruct (Hf s) as (_ & _ & _ & -> & _). auto.
Qed.

Lemma push_xf_ok a b c d p p' :
  forallb (xf_ok_b p) (p_xfs p) = true -> push_xf a b c d p = Some p' ->
  forallb (xf_ok_b p') (p_xfs p') = true /\ (length (p_xfs p) <= length (p_xfs p'))%nat /\ length (p_xfs p') <> 0%nat.
Proof.
  unfold push_xf. destruct (pick a (p_fonts p)) as [fi nf] eqn:Ea. destruct (pick b (p_fills p)) as [li nl] eqn:Eb.
  destruct (pick c (p_borders p)) as [bi nb] eqn:Ec.
  destruct (match d with inl i => (i, p_numfmts p) | inr i => (i, p_numfmts p ++ [i]) end) as [ni nfs] eqn:Ed.
  set (x := mkXfr fi li bi ni). set (q := mkPools nf nl nb nfs (p_xfs p ++ [x])).
  intros Hold H. destruct (xf_ok_b q x) eqn:Hx; [|discriminate]. inversion H; subst p'. clear H.
  assert (Gf : p_fonts p <= nf) by (destruct a; inversion Ea; lia).
  assert (Gl : p_fills p <= nl) by (destruct b; inversion Eb; lia).
  assert (Gb : p_borders p <= nb) by (destruct c; inversion Ec; lia).
  assert (Gn : forall i, existsb (Z.eqb i) (p_numfmts p) = true -> existsb (Z.eqb i) nfs = true).
  { intros i Hi. destruct d; inversion Ed; subst; [exact Hi|]. rewrite existsb_app, Hi. reflexivity. }
  split; [|split].
  - cbn [p_xfs q]. rewrite forallb_app. apply andb_true_iff. split.
    + revert Hold. apply forallb_weaken. intros y. unfold xf_ok_b. cbn [p_fonts p_fills p_borders p_numfmts q].
      rewrite !andb_true_iff, !orb_true_iff. intros [[[A1 A2] A3] A4].
      repeat split; try (eapply idx_ok_mono; eauto). destruct A4 as [A4|A4]; [left; exact A4 | right; apply Gn; exact A4].
    + cbn [forallb]. rewrite Hx. reflexivity.
  - cbn [p_xfs q]. rewrite app_length. lia.
  - cbn [p_xfs q]. rewrite app_length. cbn [length]. lia.
Qed.

Theorem step_wf wb o : wf_workbook_b wb = true -> wf_workbook_b (step down up wb o) = true.
Proof.
  intros H. destruct o as [i c|i r|i r|a b c d| |name uname|i name uname|i]; cbn [step].
  - (* column operation *)
    apply sheet_update_wf; try exact H; cbn [ws_name ws_uname ws_id ws_cells ws_nformulas ws_cols ws_rows]; auto.
    intros s. apply cols_step_ok.
  - destruct ((1 <=? r) && (r <=? LAST_ROW)); [|exact H].
    apply sheet_update_wf; try exact H; cbn [ws_name ws_uname ws_id ws_cells ws_nformulas ws_cols ws_rows]; auto.
    intros s. apply row_touch_ok.
  - apply sheet_update_wf; try exact H; cbn [ws_name ws_uname ws_id ws_cells ws_nformulas ws_cols ws_rows]; auto.
    intros s. apply row_drop_ok.
  - (* style interning *)
    destruct (push_xf a b c d (wb_pools wb)) as [p'|] eqn:E; [|exact H].
    apply wf_split in H as (H1 & H2 & H3 & H4 & H5 & H6 & H7 & H8 & H9). apply wf_split.
    unfold xfs_ok_b in H5. apply andb_true_iff in H5 as [_ H5].
    destruct (push_xf_ok a b c d _ _ H5 E) as (K1 & K2 & K3).
    unfold names_valid_b, names_unique_b, ids_unique_b, cells_ok_b, xfs_ok_b, cols_ok_b, rows_ok_b, spills_ok_b, dnames_ok_b in *.
    cbn [wb_sheets wb_nstrings wb_pools wb_names]. repeat split; try assumption.
    + eapply cells_ok_mono; [| |exact H4]; lia.
    + apply andb_true_iff. split; [|exact K1]. apply negb_true_iff. apply Nat.eqb_neq. exact K3.
  - (* a shared string is pushed *)
    apply wf_split in H as (H1 & H2 & H3 & H4 & H5 & H6 & H7 & H8 & H9). apply wf_split.
    unfold names_valid_b, names_unique_b, ids_unique_b, cells_ok_b, xfs_ok_b, cols_ok_b, rows_ok_b, spills_ok_b, dnames_ok_b in *.
    cbn [wb_sheets wb_nstrings wb_pools wb_names]. repeat split; try assumption.
    eapply cells_ok_mono; [| |exact H4]; lia.
  - (* new sheet *)
    destruct (existsb (fun s => text_eqb (ws_uname s) uname) (wb_sheets wb)) eqn:Eu; [exact H|].
    destruct (is_valid_sheet_name name) eqn:Ev; cbn [negb]; [|exact H].
    apply wf_split in H as (H1 & H2 & H3 & H4 & H5 & H6 & H7 & H8 & H9). apply wf_split.
    unfold names_valid_b, names_unique_b, ids_unique_b, cells_ok_b, xfs_ok_b, cols_ok_b, rows_ok_b, spills_ok_b, dnames_ok_b in *.
    cbn [wb_sheets wb_nstrings wb_pools wb_names]. rewrite !map_app, !forallb_app. cbn [map forallb ws_name ws_uname ws_id ws_cells ws_cols ws_rows ws_nformulas].
    assert (Hmax : forall l i, In i (map ws_id l) -> i <= max_id l).
    { induction l as [|s l IH]; intros j Hj; cbn [map max_id fold_right] in *; [destruct Hj|].
      destruct Hj as [<-|Hj]; [lia|]. specialize (IH j Hj). unfold max_id in IH. lia. }
    repeat split.
    + rewrite H1, Ev. reflexivity.
    + apply (nodup_b_iff text_eqb text_eqb_iff). apply NoDup_snoc; [apply (nodup_b_iff text_eqb text_eqb_iff); exact H2|].
      intros Hin. apply in_map_iff in Hin as [s [Hs Hin]].
      assert (X : existsb (fun s => text_eqb (ws_uname s) uname) (wb_sheets wb) = true).
      { apply existsb_exists. exists s. split; [exact Hin | apply text_eqb_eq; exact Hs]. }
      congruence.
    + apply (nodup_b_iff Z.eqb Zeqb_iff). apply NoDup_snoc; [apply (nodup_b_iff Z.eqb Zeqb_iff); exact H3|].
      intros Hin. apply Hmax in Hin. lia.
    + rewrite H4. reflexivity.
    + exact H5.
    + rewrite H6. reflexivity.
    + rewrite H7. reflexivity.
    + rewrite H8. reflexivity.
    + revert H9. apply forallb_weaken. intros [j|]; cbn [name_ok_b]; [|auto]. rewrite existsb_app. intros ->. reflexivity.
  - (* rename *)
    destruct (is_valid_sheet_name name) eqn:Ev; cbn [negb]; [|exact H].
    destruct (existsb (text_eqb uname) (map ws_uname (firstn i (wb_sheets wb) ++ skipn (S i) (wb_sheets wb)))) eqn:Eo; [exact H|].
    apply wf_split in H as (H1 & H2 & H3 & H4 & H5 & H6 & H7 & H8 & H9). apply wf_split.
    unfold names_valid_b, names_unique_b, ids_unique_b, cells_ok_b, xfs_ok_b, cols_ok_b, rows_ok_b, spills_ok_b, dnames_ok_b in *.
    cbn [wb_sheets wb_nstrings wb_pools wb_names].
    rewrite (map_upd_nth_same ws_id) by reflexivity.
    repeat split; try assumption.
    + apply forallb_upd_nth; [|exact H1]. intros s _. exact Ev.
    + (* uniqueness ignoring case *)
      apply (nodup_b_iff text_eqb text_eqb_iff). apply (nodup_b_iff text_eqb text_eqb_iff) in H2.
      assert (Hnot : ~ In uname (map ws_uname (firstn i (wb_sheets wb) ++ skipn (S i) (wb_sheets wb)))).
      { intros Hin. apply (existsb_eqb_In text_eqb text_eqb_iff) in Hin. congruence. }
      clear Eo. revert i Hnot H2. generalize (wb_sheets wb) as l. induction l as [|s l IH]; intros i Hnot Hnd.
      * destruct i; constructor.
      * cbn [map] in Hnd. inversion Hnd as [|? ? Hnotin Hnd']; subst. destruct i as [|i].
        -- cbn [upd_nth map ws_uname]. cbn [firstn skipn app] in Hnot. constructor; assumption.
        -- change (firstn (S i) (s :: l) ++ skipn (S (S i)) (s :: l)) with (s :: (firstn i l ++ skipn (S i) l)) in Hnot.
           cbn [map] in Hnot. cbn [upd_nth map]. constructor.
           ++ intros Hin. apply in_map_iff in Hin as [t [Ht Hin]].
              (* t is an untouched sheet of l, or the renamed one *)
              assert (X : In (ws_uname t) (map ws_uname l) \/ ws_uname t = uname).
              { clear - Hin. revert i Hin. induction l as [|y l IHl]; intros i Hin; [destruct i; destruct Hin|].
                destruct i as [|i]; cbn [upd_nth In] in Hin.
                - destruct Hin as [<-|Hin]; [right; reflexivity | left; right; apply in_map; exact Hin].
                - destruct Hin as [<-|Hin]; [left; left; reflexivity|].
                  destruct (IHl i Hin) as [H|H]; [left; right; exact H | right; exact H]. }
              destruct X as [X|X]; [apply Hnotin; rewrite <- Ht; exact X|].
              apply Hnot. left. congruence.
           ++ apply IH; [|exact Hnd']. intros Hin. apply Hnot. right. exact Hin.
    + apply forallb_upd_nth; [|exact H4]. intros s. unfold sheet_cells_ok_b. cbn [ws_cells ws_nformulas]. auto.
    + apply forallb_upd_nth; [|exact H6]. intros s. cbn [ws_cols]. auto.
    + apply forallb_upd_nth; [|exact H7]. intros s. cbn [ws_rows]. auto.
    + apply forallb_upd_nth; [|exact H8]. intros s. cbn [ws_cells]. auto.
  - (* delete sheet *)
    destruct (nth_error (wb_sheets wb) i) as [s|] eqn:En; [|exact H].
    destruct (Nat.leb (length (wb_sheets wb)) 1); [exact H|].
    apply wf_split in H as (H1 & H2 & H3 & H4 & H5 & H6 & H7 & H8 & H9). apply wf_split.
    unfold names_valid_b, names_unique_b, ids_unique_b, cells_ok_b, xfs_ok_b, cols_ok_b, rows_ok_b, spills_ok_b, dnames_ok_b in *.
    cbn [wb_sheets wb_nstrings wb_pools wb_names].
    rewrite !map_app, <- !firstn_map, <- !skipn_map.
    repeat split; try assumption; try (apply forallb_remove_nth; assumption).
    + apply (nodup_b_iff text_eqb text_eqb_iff). apply NoDup_remove_nth. apply (nodup_b_iff text_eqb text_eqb_iff). exact H2.
    + apply (nodup_b_iff Z.eqb Zeqb_iff). apply NoDup_remove_nth. apply (nodup_b_iff Z.eqb Zeqb_iff). exact H3.
    + apply forallb_forall. intros o Ho. apply filter_In in Ho as [Ho Hk].
      rewrite forallb_forall in H9. specialize (H9 o Ho). destruct o as [j|]; cbn [name_ok_b] in *; [|reflexivity].
      apply existsb_Zeqb_In. apply existsb_Zeqb_In in H9.
      apply (In_remove_nth _ i j 0); [apply (nodup_b_iff Z.eqb Zeqb_iff); exact H3 | exact H9 |].
      apply negb_true_iff, Z.eqb_neq in Hk. intros Heq. apply Hk. rewrite Heq.
      apply nth_error_nth. rewrite nth_error_map, En. reflexivity.
Qed.

Theorem reachable_wf ops : wf_workbook_b (run down up ops) = true.
Proof.
  unfold run. assert (G : forall wb, wf_workbook_b wb = true -> wf_workbook_b (fold_left (step down up) ops wb) = true).
  { induction ops as [|o r IH]; intros wb H; cbn [fold_left]; [exact H|]. apply IH. apply step_wf. exact H. }
  apply G. exact init_wf.
Qed.
End Preservation.

(* ---- spill bookkeeping: the spill clause of one sheet is kept by the C31 operations --------------- *)
Theorem spill_clause_eval (spill_err calc_err : option Z) dflt (sh sh' : vsheet) a res :
  spill_exact_b sh = true -> spill_full_b sh = true ->
  eval_anchor spill_err calc_err dflt a res sh = Ok sh' -> spill_exact_b sh' = true /\ spill_full_b sh' = true.
Proof.
  intros H1 H2 E. apply (spill_exact_b_sound dflt) in H1. apply spill_full_b_sound in H2.
  destruct (eval_anchor_inv spill_err calc_err dflt sh sh' a res H1 H2 E) as [I F].
  split; [apply (spill_exact_b_complete dflt); exact I | apply spill_full_b_complete; exact F].
Qed.

Theorem spill_clause_reset (uneval : option Z) dflt (sh : vsheet) order :
  NoDup order -> spill_exact_b sh = true -> spill_full_b sh = true ->
  spill_exact_b (reset_spills uneval dflt order sh) = true /\ spill_full_b (reset_spills uneval dflt order sh) = true.
Proof.
  intros Hnd H1 H2. apply (spill_exact_b_sound dflt) in H1. apply spill_full_b_sound in H2.
  destruct (reset_spills_inv uneval dflt sh order Hnd H1 H2) as [I F].
  split; [apply (spill_exact_b_complete dflt); exact I | apply spill_full_b_complete; exact F].
Qed.

Theorem spill_clause_prepare (uneval : option Z) dflt (sh sh' : vsheet) p :
  spill_exact_b sh = true -> spill_full_b sh = true ->
  prepare_for_input uneval dflt p sh = Ok sh' -> spill_exact_b sh' = true /\ spill_full_b sh' = true.
Proof.
  intros H1 H2 E. apply (spill_exact_b_sound dflt) in H1. apply spill_full_b_sound in H2.
  destruct (prepare_inv uneval dflt sh sh' p H1 H2 E) as [I F].
  split; [apply (spill_exact_b_complete dflt); exact I | apply spill_full_b_complete; exact F].
Qed.

(* ---- delete_columns / insert_columns: the descriptor surgery keeps the layout well-formed ----------- *)
Ltac zb := rewrite ?Z.ltb_lt, ?Z.ltb_ge, ?Z.leb_le, ?Z.leb_gt in *.
Ltac ifs := repeat match goal with
  | |- context [if ?b then _ else _] => let E := fresh "E" in destruct b eqn:E
  | H : context [if ?b then _ else _] |- _ => let E := fresh "E" in destruct b eqn:E
  end.

Lemma wf_from_weaken lo lo' cs : lo <= lo' -> Cols.wf_from lo' cs -> Cols.wf_from lo cs.
Proof. destruct cs as [|c r]; cbn [Cols.wf_from]; [auto|]. intros H [H1 H2]. split; [lia | exact H2]. Qed.

(* where column x ends up when the band [start, start+count-1] is deleted (deleted columns collapse
   onto start-1) *)
Definition dshift (start count x : Z) : Z :=
  if x <? start then x else if x <=? start + count - 1 then start - 1 else x - count.

Lemma del_descr_spec start count lo c :
  1 <= count -> lo < Cols.c_min c -> Cols.c_min c <= Cols.c_max c ->
  dshift start count lo <= dshift start count (Cols.c_max c) /\ dshift start count (Cols.c_max c) <= Cols.c_max c /\
  match del_descr start count c with
  | Some c' => dshift start count lo < Cols.c_min c' /\ Cols.c_min c' <= Cols.c_max c' /\
               Cols.c_max c' = dshift start count (Cols.c_max c)
  | None => True
  end.
Proof.
  intros Hc H1 H2. unfold del_descr, dshift, with_range. cbv zeta.
  ifs; cbn [Cols.c_min Cols.c_max]; zb; repeat split; try lia.
Qed.

Lemma del_descrs_wf start count : 1 <= count ->
  forall cs lo, Cols.wf_from lo cs -> Cols.wf_from (dshift start count lo) (del_descrs start count cs).
Proof.
  intros Hc. induction cs as [|c r IH]; intros lo H; cbn [del_descrs]; [exact I|].
  cbn [Cols.wf_from] in H. destruct H as (H1 & H2 & H3 & H4).
  destruct (del_descr_spec start count lo c Hc H1 H2) as (S1 & S2 & S3).
  specialize (IH _ H4).
  destruct (del_descr start count c) as [c'|].
  - destruct S3 as (A & B & C). cbn [Cols.wf_from]. rewrite C. repeat split; try lia. exact IH.
  - eapply wf_from_weaken; [exact S1 | exact IH].
Qed.

Theorem delete_columns_descrs_wf start count cs cs' :
  Cols.wf cs -> delete_columns_descrs start count cs = Ok cs' -> Cols.wf cs'.
Proof.
  unfold delete_columns_descrs, Cols.wf. intros H E.
  destruct (count <=? 0) eqn:E1; [discriminate|].
  destruct (negb ((1 <=? start) && (start <=? LAST_COLUMN))) eqn:E2; [discriminate|].
  destruct (LAST_COLUMN <? start + count - 1); [discriminate|]. inversion E; subst cs'.
  apply negb_false_iff, andb_true_iff in E2 as [E2 _]. zb.
  replace 0 with (dshift start count 0) at 1 by (unfold dshift; ifs; zb; lia).
  apply del_descrs_wf; [lia | exact H].
Qed.

Definition ishift (column count x : Z) : Z := if x <? column then x else x + count.

Lemma ins_descrs_wf column count : 0 <= count ->
  forall cs lo, Cols.wf_from lo cs ->
  (forall c, In c cs -> column <= Cols.c_max c -> Cols.c_max c + count <= LAST_COLUMN) ->
  Cols.wf_from (ishift column count lo) (map (ins_descr column count) cs).
Proof.
  intros Hc. induction cs as [|c r IH]; intros lo H Hfit; cbn [map]; [exact I|].
  cbn [Cols.wf_from] in H. destruct H as (H1 & H2 & H3 & H4).
  assert (Hf : column <= Cols.c_max c -> Cols.c_max c + count <= LAST_COLUMN) by (apply Hfit; left; reflexivity).
  assert (IH' := IH _ H4 (fun c0 Hin => Hfit c0 (or_intror Hin))).
  cbn [Cols.wf_from].
  assert (X : Cols.c_max (ins_descr column count c) = ishift column count (Cols.c_max c) /\
              ishift column count lo < Cols.c_min (ins_descr column count c) /\
              Cols.c_min (ins_descr column count c) <= Cols.c_max (ins_descr column count c) /\
              ishift column count (Cols.c_max c) <= LAST_COLUMN).
  { unfold ins_descr, ishift, with_range. ifs; cbn [Cols.c_min Cols.c_max]; zb; repeat split; try lia. }
  destruct X as (X1 & X2 & X3 & X4). rewrite X1. repeat split; try lia. exact IH'.
Qed.

(* insert_columns checks the cells' dimension only: descriptors whose shifted end stays on the grid
   keep the layout well-formed ... *)
Theorem insert_columns_descrs_partial column count cs cs' :
  Cols.wf cs ->
  (forall c, In c cs -> column <= Cols.c_max c -> Cols.c_max c + count <= LAST_COLUMN) ->
  insert_columns_descrs column count cs = Ok cs' -> Cols.wf cs'.
Proof.
  unfold insert_columns_descrs, Cols.wf. intros H Hfit E.
  destruct (count <=? 0) eqn:E1; [discriminate|].
  destruct (negb ((1 <=? column) && (column <=? LAST_COLUMN))) eqn:E2; [discriminate|].
  inversion E; subst cs'. apply negb_false_iff, andb_true_iff in E2 as [E2 _]. zb.
  replace 0 with (ishift column count 0) at 1 by (unfold ishift; ifs; zb; lia).
  apply ins_descrs_wf; [lia | exact H | exact Hfit].
Qed.

(* a call with an index outside the grid is refused (3e01966) *)
Theorem insert_columns_descrs_refused column count cs :
  column < 1 \/ LAST_COLUMN < column \/ count <= 0 -> insert_columns_descrs column count cs = Err.
Proof.
  intros H. unfold insert_columns_descrs. destruct (count <=? 0) eqn:E1; [reflexivity|].
  destruct (negb ((1 <=? column) && (column <=? LAST_COLUMN))) eqn:E2; [reflexivity|].
  apply negb_false_iff, andb_true_iff in E2 as [E2 E3]. zb. lia.
Qed.

(* ... and a descriptor on the last column is pushed off the grid *)
Theorem insert_columns_descrs_refuted :
  exists cs column count cs', Cols.wf_b cs = true /\ insert_columns_descrs column count cs = Ok cs' /\ Cols.wf_b cs' = false.
Proof.
  exists [Cols.mkCol 16384 16384 50 true false None], 1, 1, [Cols.mkCol 16385 16385 50 true false None].
  vm_compute. repeat split; reflexivity.
Qed.
