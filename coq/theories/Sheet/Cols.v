(* Sheet/Cols.v — executable model of the column descriptors of a worksheet
   (base/src/worksheet.rs: set_column_width_and_style, set_column_width, set_column_hidden,
   set_column_style, delete_column_style and the getters).  No proofs in this file.

   Columns are RANGE descriptors [Col{min,max,width,custom_width,hidden,style}] kept in a vector.
   Widths are tokens (Z): the API speaks pixels, the descriptor stores pixels / COLUMN_WIDTH_FACTOR.
   The two f64 operations [w / COLUMN_WIDTH_FACTOR] and [x * COLUMN_WIDTH_FACTOR] are the Section
   variables [down] and [up]; theorems state what they need of them as an explicit premise.
   Style is [option Z] (an index into the style pool, see Sheet/Styles.v). *)
From IronCalc Require Import Base.Prelude.

Definition DEFAULT_COLUMN_WIDTH : Z := 90.

Record col := mkCol {
  c_min : Z; c_max : Z; c_width : Z; c_custom : bool; c_hidden : bool; c_style : option Z }.
Definition cols := list col.

Definition is_valid_column_number (j : Z) : bool := (1 <=? j) && (j <=? LAST_COLUMN).

(* [column >= min && column <= max] *)
Definition covers (c : col) (j : Z) : bool := (c_min c <=? j) && (j <=? c_max c).

(* the getters' loop: first descriptor (in vector order) whose range contains the column *)
Fixpoint find_col (j : Z) (cs : cols) : option col :=
  match cs with
  | [] => None
  | c :: r => if covers c j then Some c else find_col j r
  end.

(* ---- observations without the validity gate (used by the theorems) ------------------- *)
Definition style_at (cs : cols) (j : Z) : option Z :=
  match find_col j cs with Some c => c_style c | None => None end.
Definition hidden_at (cs : cols) (j : Z) : bool :=
  match find_col j cs with Some c => c_hidden c | None => false end.
Section Cols.
Variables down up : Z -> Z.

Definition width_at (cs : cols) (j : Z) : Z :=
  match find_col j cs with
  | Some c => if c_custom c then up (c_width c) else DEFAULT_COLUMN_WIDTH
  | None => DEFAULT_COLUMN_WIDTH
  end.
Definition shown_width_at (cs : cols) (j : Z) : Z :=
  match find_col j cs with
  | Some c => if c_hidden c then 0 else if c_custom c then up (c_width c) else DEFAULT_COLUMN_WIDTH
  | None => DEFAULT_COLUMN_WIDTH
  end.

(* ---- the getters ------------------------------------------------------------------------ *)
Definition get_column_width (cs : cols) (j : Z) : outcome Z :=
  if negb (is_valid_column_number j) then Err else Ok (shown_width_at cs j).
Definition get_actual_column_width (cs : cols) (j : Z) : outcome Z :=
  if negb (is_valid_column_number j) then Err else Ok (width_at cs j).
Definition is_column_hidden (cs : cols) (j : Z) : outcome bool :=
  if negb (is_valid_column_number j) then Err else Ok (hidden_at cs j).
Definition get_column_style (cs : cols) (j : Z) : outcome (option Z) :=
  if negb (is_valid_column_number j) then Err else Ok (style_at cs j).

(* ---- set_column_width_and_style: the descriptor surgery ------------------------------------
   loop over the vector: exact hit -> update in place; inside a wider descriptor -> replace it by
   pre / col / post (pre and post only when non-empty; col carries the width, hidden flag and
   style that were passed in); column < min -> insert here; end of vector -> push. *)
Fixpoint place (j : Z) (nc : col) (cs : cols) : cols :=
  match cs with
  | [] => [nc]
  | c :: r =>
      if covers c j then
        if (c_min c =? j) && (c_max c =? j) then
          mkCol (c_min c) (c_max c) (c_width nc) (c_custom nc) (c_hidden nc) (c_style nc) :: r
        else
          let pre := mkCol (c_min c) (j - 1) (c_width c) (c_custom c) (c_hidden c) (c_style c) in
          let post := mkCol (j + 1) (c_max c) (c_width c) (c_custom c) (c_hidden c) (c_style c) in
          let mid := mkCol j j (c_width nc) (c_custom nc) (c_hidden nc) (c_style nc) in
          (if j =? c_min c then [] else [pre]) ++ mid :: (if j =? c_max c then [] else [post]) ++ r
      else if j <? c_min c then nc :: c :: r
      else c :: place j nc r
  end.

Definition set_column_width_and_style (cs : cols) (j w : Z) (hidden : bool) (style : option Z)
  : outcome cols :=
  if negb (is_valid_column_number j) then Err
  else if w <? 0 then Err
  else Ok (place j (mkCol j j (down w) (negb (w =? DEFAULT_COLUMN_WIDTH)) hidden style) cs).

Definition set_column_width (cs : cols) (j w : Z) : outcome cols :=
  obind (get_column_style cs j) (fun style =>
  obind (is_column_hidden cs j) (fun hidden =>
  set_column_width_and_style cs j w hidden style)).

Definition set_column_hidden (cs : cols) (j : Z) (hidden : bool) : outcome cols :=
  let width := match get_actual_column_width cs j with Ok w => w | _ => DEFAULT_COLUMN_WIDTH end in
  obind (get_column_style cs j) (fun style =>
  set_column_width_and_style cs j width hidden style).

Definition set_column_style (cs : cols) (j s : Z) : outcome cols :=
  let width := match get_actual_column_width cs j with Ok w => w | _ => DEFAULT_COLUMN_WIDTH end in
  obind (is_column_hidden cs j) (fun hidden =>
  set_column_width_and_style cs j width hidden (Some s)).

(* ---- delete_column_style ---------------------------------------------------------------------
   the containing descriptor (exact or wider) is replaced by pre / col / post where col has
   style None, keeps width and hidden flag, and is only kept when custom_width or hidden *)
Fixpoint unstyle (j : Z) (cs : cols) : cols :=
  match cs with
  | [] => []
  | c :: r =>
      if covers c j then
        let pre := mkCol (c_min c) (j - 1) (c_width c) (c_custom c) (c_hidden c) (c_style c) in
        let post := mkCol (j + 1) (c_max c) (c_width c) (c_custom c) (c_hidden c) (c_style c) in
        let mid := mkCol j j (c_width c) (c_custom c) (c_hidden c) None in
        (if j =? c_min c then [] else [pre]) ++ (if c_custom c || c_hidden c then [mid] else [])
          ++ (if j =? c_max c then [] else [post]) ++ r
      else if j <? c_min c then c :: r
      else c :: unstyle j r
  end.

Definition delete_column_style (cs : cols) (j : Z) : outcome cols :=
  if negb (is_valid_column_number j) then Err else Ok (unstyle j cs).

(* ---- operations and histories --------------------------------------------------------------- *)
Inductive cop :=
| SetWidth (j w : Z)
| SetHidden (j : Z) (b : bool)
| SetStyle (j s : Z)
| DelStyle (j : Z).

Definition apply_cop (cs : cols) (o : cop) : outcome cols :=
  match o with
  | SetWidth j w => set_column_width cs j w
  | SetHidden j b => set_column_hidden cs j b
  | SetStyle j s => set_column_style cs j s
  | DelStyle j => delete_column_style cs j
  end.

Definition cop_col (o : cop) : Z :=
  match o with SetWidth j _ => j | SetHidden j _ => j | SetStyle j _ => j | DelStyle j => j end.

(* a failing call returns before any mutation: the state is kept *)
Definition step_cop (cs : cols) (o : cop) : cols :=
  match apply_cop cs o with Ok cs' => cs' | _ => cs end.

Definition run_cops (cs : cols) (os : list cop) : cols := fold_left step_cop os cs.

End Cols.

(* ---- well-formed layouts: sorted by min, min <= max, pairwise disjoint, inside the grid ------ *)
Fixpoint wf_from (lo : Z) (cs : cols) : Prop :=
  match cs with
  | [] => True
  | c :: r => lo < c_min c /\ c_min c <= c_max c /\ c_max c <= LAST_COLUMN /\ wf_from (c_max c) r
  end.
Definition wf (cs : cols) : Prop := wf_from 0 cs.

Fixpoint wf_from_b (lo : Z) (cs : cols) : bool :=
  match cs with
  | [] => true
  | c :: r => (lo <? c_min c) && (c_min c <=? c_max c) && (c_max c <=? LAST_COLUMN) && wf_from_b (c_max c) r
  end.
Definition wf_b (cs : cols) : bool := wf_from_b 0 cs.

(* ---- the abstract reading of a layout: three independent total maps -------------------------- *)
Record acols := mkA { a_width : Z -> Z; a_hidden : Z -> bool; a_style : Z -> option Z }.

Definition upd {A} (f : Z -> A) (j : Z) (v : A) : Z -> A := fun k => if k =? j then v else f k.

Definition abs_step (a : acols) (o : cop) : acols :=
  match o with
  | SetWidth j w =>
      if is_valid_column_number j && negb (w <? 0) then mkA (upd (a_width a) j w) (a_hidden a) (a_style a) else a
  | SetHidden j b =>
      (* the call re-validates the width it read back: a negative one is refused *)
      if is_valid_column_number j && negb (a_width a j <? 0) then mkA (a_width a) (upd (a_hidden a) j b) (a_style a) else a
  | SetStyle j s =>
      if is_valid_column_number j && negb (a_width a j <? 0) then mkA (a_width a) (a_hidden a) (upd (a_style a) j (Some s)) else a
  | DelStyle j =>
      if is_valid_column_number j then mkA (a_width a) (a_hidden a) (upd (a_style a) j None) else a
  end.

Definition abs_of (width : cols -> Z -> Z) (cs : cols) : acols :=
  mkA (width cs) (hidden_at cs) (style_at cs).

(* ---- the property's own vocabulary: attributes, values, get / set ------------------------------ *)
Inductive attr := Width | Hidden | Style.
Inductive aval := VWidth (w : Z) | VHidden (b : bool) | VStyle (s : option Z).

Definition cop_attr (o : cop) : attr :=
  match o with SetWidth _ _ => Width | SetHidden _ _ => Hidden | SetStyle _ _ => Style | DelStyle _ => Style end.
Definition cop_val (o : cop) : aval :=
  match o with
  | SetWidth _ w => VWidth w | SetHidden _ b => VHidden b
  | SetStyle _ s => VStyle (Some s) | DelStyle _ => VStyle None
  end.

(* the getters: get_actual_column_width, is_column_hidden, get_column_style *)
Definition get (up : Z -> Z) (a : attr) (cs : cols) (j : Z) : aval :=
  match a with
  | Width => VWidth (width_at up cs j)
  | Hidden => VHidden (hidden_at cs j)
  | Style => VStyle (style_at cs j)
  end.
Definition aget (a : attr) (m : acols) (j : Z) : aval :=
  match a with
  | Width => VWidth (a_width m j)
  | Hidden => VHidden (a_hidden m j)
  | Style => VStyle (a_style m j)
  end.

(* the property C29 for columns, at full strength *)
Definition cols_frame_statement (down up : Z -> Z) : Prop :=
  forall cs o j' at', wf cs -> (cop_col o, cop_attr o) <> (j', at') ->
  get up at' (step_cop down up cs o) j' = get up at' cs j'.
Definition cols_readback_statement (down up : Z -> Z) : Prop :=
  forall cs o cs', wf cs -> apply_cop down up cs o = Ok cs' ->
  get up (cop_attr o) cs' (cop_col o) = cop_val o.

Definition agrees (up : Z -> Z) (cs : cols) (a : acols) : Prop :=
  forall j, width_at up cs j = a_width a j /\ hidden_at cs j = a_hidden a j /\
            style_at cs j = a_style a j.

(* histories: the getters read three independent total maps updated pointwise *)
Definition cols_history_statement (down up : Z -> Z) : Prop :=
  forall cs os, wf cs ->
  agrees up (run_cops down up cs os) (fold_left abs_step os (abs_of (width_at up) cs)).
