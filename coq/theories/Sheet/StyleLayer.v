(* Sheet/StyleLayer.v — where a cell takes its style from (base/src/model.rs get_cell_style_index /
   get_style_for_cell, base/src/worksheet.rs set_cell_style): the cell's own style index, else the
   row record when custom_format, else the column descriptor, else 0.  No proofs in this file.
   The sheet data (HashMap<row, HashMap<column, Cell>>) is an association list with one entry per
   cell; only the style index of a cell matters here. *)
From IronCalc Require Import Base.Prelude Sheet.Cols Sheet.Rows Sheet.Styles.

Record layer := mkLayer { l_cells : list (Z * Z * Z); l_rows : rows; l_cols : cols }.

Fixpoint cell_style (r c : Z) (cs : list (Z * Z * Z)) : option Z :=
  match cs with
  | [] => None
  | (r', c', i) :: t => if (r' =? r) && (c' =? c) then Some i else cell_style r c t
  end.

Fixpoint put_cell (r c i : Z) (cs : list (Z * Z * Z)) : list (Z * Z * Z) :=
  match cs with
  | [] => [(r, c, i)]
  | (r', c', i') :: t => if (r' =? r) && (c' =? c) then (r', c', i) :: t else (r', c', i') :: put_cell r c i t
  end.

(* an existing cell gets the style; otherwise an empty cell with the style is created, which
   validates the coordinates (update_cell) *)
Definition set_cell_style (l : layer) (r c i : Z) : outcome layer :=
  match cell_style r c (l_cells l) with
  | Some _ => Ok (mkLayer (put_cell r c i (l_cells l)) (l_rows l) (l_cols l))
  | None =>
      if is_valid_row r && is_valid_column_number c
      then Ok (mkLayer (put_cell r c i (l_cells l)) (l_rows l) (l_cols l))
      else Err
  end.

Definition row_column_style (l : layer) (r c : Z) : Z :=
  let from_cols := match find_col c (l_cols l) with
                   | Some d => match c_style d with Some i => i | None => 0 end
                   | None => 0
                   end in
  match find_row r (l_rows l) with
  | Some x => if r_custom_format x then r_s x else from_cols
  | None => from_cols
  end.

Definition get_cell_style_index (l : layer) (r c : Z) : Z :=
  match cell_style r c (l_cells l) with
  | Some i => i
  | None => row_column_style l r c
  end.

(* Model::set_row_style / set_column_style on the layer *)
Definition layer_set_row_style (down : Z -> Z) (l : layer) (r i : Z) : outcome layer :=
  match Rows.set_row_style down (l_rows l) r i with
  | Ok rs => Ok (mkLayer (l_cells l) rs (l_cols l))
  | _ => Err
  end.
Definition layer_set_column_style (down up : Z -> Z) (l : layer) (c i : Z) : outcome layer :=
  match Cols.set_column_style down up (l_cols l) c i with
  | Ok cs => Ok (mkLayer (l_cells l) (l_rows l) cs)
  | _ => Err
  end.

(* ---- every attribute operation that can precede a styled read-back, on the layer ------------------
   (Model::set_cell_style / set_row_style / set_column_style with the index already interned,
   set_row_height, set_row_hidden, delete_row_style, set_column_width, set_column_hidden,
   delete_column_style).  A refused call keeps the layer. *)
Inductive lop :=
| LCell (r c i : Z) | LRowStyle (r i : Z) | LColStyle (c i : Z)
| LRowHeight (r h : Z) | LRowHidden (r : Z) (b : bool) | LRowDel (r : Z)
| LColWidth (c w : Z) | LColHidden (c : Z) (b : bool) | LColDel (c : Z).

Definition with_rows (l : layer) (o : outcome rows) : outcome layer :=
  match o with Ok rs => Ok (mkLayer (l_cells l) rs (l_cols l)) | _ => Err end.
Definition with_cols (l : layer) (o : outcome cols) : outcome layer :=
  match o with Ok cs => Ok (mkLayer (l_cells l) (l_rows l) cs) | _ => Err end.

Definition apply_lop (down up : Z -> Z) (l : layer) (o : lop) : outcome layer :=
  match o with
  | LCell r c i => set_cell_style l r c i
  | LRowStyle r i => layer_set_row_style down l r i
  | LColStyle c i => layer_set_column_style down up l c i
  | LRowHeight r h => with_rows l (Rows.set_row_height down (l_rows l) r h)
  | LRowHidden r b => with_rows l (Rows.set_row_hidden down (l_rows l) r b)
  | LRowDel r => with_rows l (Rows.delete_row_style (l_rows l) r)
  | LColWidth c w => with_cols l (Cols.set_column_width down (l_cols l) c w)
  | LColHidden c b => with_cols l (Cols.set_column_hidden down up (l_cols l) c b)
  | LColDel c => with_cols l (Cols.delete_column_style (l_cols l) c)
  end.

Definition step_lop (down up : Z -> Z) (l : layer) (o : lop) : layer :=
  match apply_lop down up l o with Ok l' => l' | _ => l end.

(* Model::get_cell_style_or_none at index level: only the cell's own style *)
Definition get_cell_style_or_none (l : layer) (r c : Z) : option Z := cell_style r c (l_cells l).
