(* Sheet/RowsProofs.v — every row operation changes exactly one (row, attribute) pair. *)
From IronCalc Require Import Base.Prelude Sheet.Rows.

Lemma find_modify_same r f fresh rs :
  (forall x, r_r (f x) = r_r x) -> r_r fresh = r ->
  find_row r (modify r f fresh rs) =
  Some (match find_row r rs with Some x => f x | None => fresh end).
Proof.
  intros Hf Hfr. induction rs as [|x t IH]; cbn [modify find_row].
  - rewrite Hfr, Z.eqb_refl. reflexivity.
  - destruct (r_r x =? r) eqn:E; cbn [find_row].
    + rewrite Hf, E. reflexivity.
    + rewrite E. exact IH.
Qed.

Lemma find_modify_other r r' f fresh rs :
  (forall x, r_r (f x) = r_r x) -> r_r fresh = r -> r' <> r ->
  find_row r' (modify r f fresh rs) = find_row r' rs.
Proof.
  intros Hf Hfr Hne. induction rs as [|x t IH]; cbn [modify find_row].
  - rewrite Hfr. apply Z.eqb_neq in Hne. rewrite Z.eqb_sym, Hne. reflexivity.
  - destruct (r_r x =? r) eqn:E; cbn [find_row].
    + rewrite Hf. apply Z.eqb_eq in E. rewrite E.
      apply Z.eqb_neq in Hne. rewrite Z.eqb_sym, Hne. reflexivity.
    + destruct (r_r x =? r'); [reflexivity | exact IH].
Qed.

Lemma find_present_same r f rs :
  (forall x, r_r (f x) = r_r x) ->
  find_row r (modify_present r f rs) = option_map f (find_row r rs).
Proof.
  intros Hf. induction rs as [|x t IH]; cbn [modify_present find_row]; [reflexivity|].
  destruct (r_r x =? r) eqn:E; cbn [find_row].
  - rewrite Hf, E. reflexivity.
  - rewrite E. exact IH.
Qed.

Lemma find_present_other r r' f rs :
  (forall x, r_r (f x) = r_r x) -> r' <> r ->
  find_row r' (modify_present r f rs) = find_row r' rs.
Proof.
  intros Hf Hne. induction rs as [|x t IH]; cbn [modify_present find_row]; [reflexivity|].
  destruct (r_r x =? r) eqn:E; cbn [find_row].
  - rewrite Hf. apply Z.eqb_eq in E. rewrite E.
    apply Z.eqb_neq in Hne. rewrite Z.eqb_sym, Hne. reflexivity.
  - destruct (r_r x =? r'); [reflexivity | exact IH].
Qed.

Section Ops.
Variables down up : Z -> Z.
Hypothesis up_down : forall w, up (down w) = w.

Definition ragrees (rs : rows) (a : arows) : Prop :=
  forall r, rheight_at up rs r = ar_height a r /\ rhidden_at rs r = ar_hidden a r /\
            rstyle_at rs r = ar_style a r.

Lemma ragrees_abs_rof rs : ragrees rs (abs_rof (rheight_at up) rs).
Proof. intro r. repeat split; reflexivity. Qed.

Lemma updr_same {A} (f : Z -> A) j v : updr f j v j = v.
Proof. unfold updr. rewrite Z.eqb_refl. reflexivity. Qed.

Lemma updr_other {A} (f : Z -> A) j v k : k <> j -> updr f j v k = f k.
Proof. unfold updr. intro H. apply Z.eqb_neq in H. rewrite H. reflexivity. Qed.

(* ---- FRAME, other rows: the record found for any other row is the same record --------------- *)
Theorem rop_other_rows rs o rs' r' :
  apply_rop down rs o = Ok rs' -> r' <> rop_row o -> find_row r' rs' = find_row r' rs.
Proof.
  destruct o as [r h|r b|r s|r]; cbn [apply_rop rop_row]; intros H Hne.
  - unfold set_row_height, is_row_hidden in H. destruct (is_valid_row r); cbn [negb] in H; [|discriminate].
    destruct (h <? 0); [discriminate|]. cbn [obind] in H. injection H as <-.
    apply find_modify_other; [reflexivity | reflexivity | exact Hne].
  - unfold set_row_hidden in H. destruct (is_valid_row r); cbn [negb] in H; [|discriminate].
    injection H as <-. apply find_modify_other; [reflexivity | reflexivity | exact Hne].
  - unfold set_row_style in H. injection H as <-.
    apply find_modify_other; [reflexivity | reflexivity | exact Hne].
  - unfold delete_row_style in H. injection H as <-.
    apply find_present_other; [reflexivity | exact Hne].
Qed.

(* ---- FRAME, the row itself ------------------------------------------------------------------------ *)
Theorem set_height_same rs r h rs' :
  set_row_height down rs r h = Ok rs' ->
  rheight_at up rs' r = h /\ rhidden_at rs' r = rhidden_at rs r /\ rstyle_at rs' r = rstyle_at rs r.
Proof.
  unfold set_row_height, is_row_hidden. destruct (is_valid_row r); cbn [negb]; [|discriminate].
  destruct (h <? 0); [discriminate|]. cbn [obind]. intro H. injection H as <-.
  unfold rheight_at, rhidden_at, rstyle_at. rewrite find_modify_same by reflexivity.
  destruct (find_row r rs) as [x|]; cbn [r_height r_hidden r_s r_custom_format];
    rewrite up_down; repeat split; reflexivity.
Qed.

Theorem set_rhidden_same rs r b rs' :
  set_row_hidden down rs r b = Ok rs' ->
  rhidden_at rs' r = b /\ rheight_at up rs' r = rheight_at up rs r /\ rstyle_at rs' r = rstyle_at rs r.
Proof.
  unfold set_row_hidden. destruct (is_valid_row r); cbn [negb]; [|discriminate].
  intro H. injection H as <-.
  unfold rheight_at, rhidden_at, rstyle_at. rewrite find_modify_same by reflexivity.
  destruct (find_row r rs) as [x|]; cbn [r_height r_hidden r_s r_custom_format];
    rewrite ?up_down; repeat split; reflexivity.
Qed.

Theorem set_rstyle_same rs r s rs' :
  set_row_style down rs r s = Ok rs' ->
  rstyle_at rs' r = (s, negb (s =? 0)) /\ rheight_at up rs' r = rheight_at up rs r /\
  rhidden_at rs' r = rhidden_at rs r.
Proof.
  unfold set_row_style. intro H. injection H as <-.
  unfold rheight_at, rhidden_at, rstyle_at. rewrite find_modify_same by reflexivity.
  destruct (find_row r rs) as [x|]; cbn [r_height r_hidden r_s r_custom_format];
    rewrite ?up_down; repeat split; reflexivity.
Qed.

Theorem del_rstyle_same rs r rs' :
  delete_row_style rs r = Ok rs' ->
  rstyle_at rs' r = (0, false) /\ rheight_at up rs' r = rheight_at up rs r /\
  rhidden_at rs' r = rhidden_at rs r.
Proof.
  unfold delete_row_style. intro H. injection H as <-.
  unfold rheight_at, rhidden_at, rstyle_at. rewrite find_present_same by reflexivity.
  destruct (find_row r rs) as [x|]; cbn [option_map r_height r_hidden r_s r_custom_format];
    repeat split; reflexivity.
Qed.

(* ---- one step is the point update; histories ---------------------------------------------------- *)
Theorem rsim_step rs a o :
  ragrees rs a -> ragrees (step_rop down rs o) (abs_rstep a o).
Proof.
  intros Hag. unfold step_rop.
  destruct (apply_rop down rs o) as [rs'| |] eqn:E.
  - intro k. destruct (Z.eq_dec k (rop_row o)) as [->|Hne].
    + destruct (Hag (rop_row o)) as (G1 & G2 & G3).
      destruct o as [r h|r b|r s|r]; cbn [rop_row apply_rop abs_rstep] in *.
      * pose proof E as E'. unfold set_row_height in E'.
        destruct (is_valid_row r); cbn [negb] in E'; [|discriminate].
        destruct (h <? 0); [discriminate|]. cbn [andb negb ar_height ar_hidden ar_style].
        apply set_height_same in E as (H1 & H2 & H3). rewrite updr_same. repeat split; congruence.
      * pose proof E as E'. unfold set_row_hidden in E'.
        destruct (is_valid_row r); cbn [negb] in E'; [|discriminate].
        cbn [ar_height ar_hidden ar_style].
        apply set_rhidden_same in E as (H1 & H2 & H3). rewrite updr_same. repeat split; congruence.
      * cbn [ar_height ar_hidden ar_style].
        apply set_rstyle_same in E as (H1 & H2 & H3). rewrite updr_same. repeat split; congruence.
      * cbn [ar_height ar_hidden ar_style].
        apply del_rstyle_same in E as (H1 & H2 & H3). rewrite updr_same. repeat split; congruence.
    + pose proof (rop_other_rows rs o rs' k E Hne) as Hf.
      destruct (Hag k) as (G1 & G2 & G3).
      unfold rheight_at, rhidden_at, rstyle_at in *. rewrite Hf.
      destruct o as [r h|r b|r s|r]; cbn [rop_row] in *; cbn [abs_rstep];
        try match goal with |- context [if ?c then _ else _] =>
              match c with context [is_valid_row] => destruct c end end;
        cbn [ar_height ar_hidden ar_style]; rewrite ?updr_other by exact Hne;
        repeat split; assumption.
  - assert (abs_rstep a o = a) as ->; [|exact Hag].
    destruct o as [r h|r b|r s|r]; cbn [apply_rop abs_rstep] in *.
    + unfold set_row_height, is_row_hidden in E. destruct (is_valid_row r); cbn [negb andb] in *; [|reflexivity].
      destruct (h <? 0); [reflexivity | discriminate].
    + unfold set_row_hidden in E. destruct (is_valid_row r); cbn [negb] in *; [discriminate | reflexivity].
    + discriminate.
    + discriminate.
  - exfalso. destruct o as [r h|r b|r s|r]; cbn [apply_rop] in E.
    + unfold set_row_height, is_row_hidden in E. destruct (is_valid_row r); cbn [negb] in E; [|discriminate].
      destruct (h <? 0); discriminate.
    + unfold set_row_hidden in E. destruct (is_valid_row r); discriminate.
    + discriminate.
    + discriminate.
Qed.

Theorem rows_history rs os :
  ragrees (run_rops down rs os) (fold_left abs_rstep os (abs_rof (rheight_at up) rs)).
Proof.
  pose proof (ragrees_abs_rof rs) as Hag. revert Hag. generalize (abs_rof (rheight_at up) rs).
  unfold run_rops. revert rs.
  induction os as [|o t IH]; intros rs a Hag; cbn [fold_left]; [exact Hag|].
  apply IH. apply rsim_step. exact Hag.
Qed.

(* ---- Model::get_row_style: Some as soon as a record exists ---------------------------------- *)
(* it changes without a style operation exactly when the step creates the record *)
Theorem get_row_style_frame rs o r' :
  (match o with SetRowStyle r _ | DelRowStyle r => r <> r' | _ => True end) ->
  get_row_style (step_rop down rs o) r' =
  if materialises rs o && (rop_row o =? r') then Some 0 else get_row_style rs r'.
Proof.
  intro Hns. unfold step_rop.
  destruct (Z.eq_dec r' (rop_row o)) as [Heq|Hne].
  - subst r'. rewrite Z.eqb_refl, andb_true_r.
    destruct o as [r h|r b|r s|r]; cbn [rop_row apply_rop materialises] in *; try congruence.
    + unfold set_row_height, is_row_hidden. destruct (is_valid_row r); cbn [negb andb]; [|reflexivity].
      destruct (h <? 0); cbn [negb obind]; [reflexivity|].
      unfold get_row_style. rewrite find_modify_same by reflexivity.
      destruct (find_row r rs) as [x|]; reflexivity.
    + unfold set_row_hidden. destruct (is_valid_row r); cbn [negb andb]; [|reflexivity].
      unfold get_row_style. rewrite find_modify_same by reflexivity.
      destruct (find_row r rs) as [x|]; reflexivity.
  - assert (rop_row o =? r' = false) as -> by (apply Z.eqb_neq; congruence).
    rewrite andb_false_r.
    destruct (apply_rop down rs o) as [rs'| |] eqn:E; try reflexivity.
    unfold get_row_style. rewrite (rop_other_rows rs o rs' r' E Hne). reflexivity.
Qed.

(* ---- the property in its own words ------------------------------------------------------------ *)
Lemma ragrees_get rs a at' r : ragrees rs a -> rget up at' rs r = raget at' a r.
Proof. intro H. destruct (H r) as (G1 & G2 & G3). destruct at'; cbn [rget raget]; congruence. Qed.

Lemma abs_rstep_frame a o at' r' :
  (rop_row o, rop_attr o) <> (r', at') -> raget at' (abs_rstep a o) r' = raget at' a r'.
Proof.
  intro Hne.
  destruct o as [r h|r b|r s|r]; cbn [abs_rstep rop_row rop_attr] in *;
    try match goal with |- context [if ?c then _ else _] =>
          match c with context [is_valid_row] => destruct c end end; try reflexivity;
    destruct at'; cbn [raget ar_height ar_hidden ar_style]; try reflexivity;
    (destruct (Z.eq_dec r' r) as [->|Hj]; [congruence | rewrite updr_other by exact Hj; reflexivity]).
Qed.

Theorem rows_frame rs o r' at' :
  (rop_row o, rop_attr o) <> (r', at') ->
  rget up at' (step_rop down rs o) r' = rget up at' rs r'.
Proof.
  intro Hne. pose proof (rsim_step rs _ o (ragrees_abs_rof rs)) as Hag.
  rewrite (ragrees_get _ _ at' r' Hag), abs_rstep_frame by exact Hne.
  symmetry. apply ragrees_get. apply ragrees_abs_rof.
Qed.

Theorem rows_readback rs o rs' :
  apply_rop down rs o = Ok rs' -> rget up (rop_attr o) rs' (rop_row o) = rop_val o.
Proof.
  intro E. destruct o as [r h|r b|r s|r]; cbn [apply_rop rop_attr rop_row rop_val rget] in *.
  - apply set_height_same in E as (H1 & _). congruence.
  - apply set_rhidden_same in E as (H1 & _). congruence.
  - apply set_rstyle_same in E as (H1 & _). congruence.
  - apply del_rstyle_same in E as (H1 & _). congruence.
Qed.

End Ops.

(* Model::get_row_style changes from None to Some(default) when a height is set *)
Lemma row_style_materialises_refuted :
  exists rs r h rs', set_row_height (fun z => z) rs r h = Ok rs' /\
    get_row_style rs r = None /\ get_row_style rs' r = Some 0.
Proof. exists [], 3, 50. eexists. repeat split; vm_compute; reflexivity. Qed.
