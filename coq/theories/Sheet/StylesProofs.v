(* Sheet/StylesProofs.v — interning a style reads back the same style, never changes what an
   existing index resolves to, and hands out different indices for different styles. *)
From IronCalc Require Import Base.Prelude Generated.NumFmts_c30 Sheet.Styles.

(* ---- lists indexed by Z ---------------------------------------------------------------------- *)
Lemma len_cons {A} (x : A) l : len (x :: l) = len l + 1.
Proof. unfold len. cbn [length]. lia. Qed.

Lemma len_nonneg {A} (l : list A) : 0 <= len l.
Proof. unfold len. lia. Qed.

Lemma len_app {A} (l e : list A) : len (l ++ e) = len l + len e.
Proof. unfold len. rewrite app_length. lia. Qed.

Lemma znth_some_range {A} (l : list A) i x : znth l i = Some x -> 0 <= i < len l.
Proof.
  revert i; induction l as [|y r IH]; intros i H; cbn [znth] in H; [discriminate|].
  rewrite len_cons. pose proof (len_nonneg r).
  destruct (i =? 0) eqn:E0; [apply Z.eqb_eq in E0; lia|].
  destruct (i <? 0) eqn:E1; [discriminate|].
  apply Z.eqb_neq in E0. apply Z.ltb_ge in E1. apply IH in H. lia.
Qed.

Lemma znth_in_range {A} (l : list A) i : 0 <= i < len l -> exists x, znth l i = Some x.
Proof.
  revert i; induction l as [|y r IH]; intros i H.
  - unfold len in H. cbn [length] in H. lia.
  - rewrite len_cons in H. cbn [znth].
    destruct (i =? 0) eqn:E0; [eexists; reflexivity|].
    apply Z.eqb_neq in E0. assert (i <? 0 = false) as -> by (apply Z.ltb_ge; lia).
    apply IH. lia.
Qed.

Lemma znth_app_l {A} (l e : list A) i x : znth l i = Some x -> znth (l ++ e) i = Some x.
Proof.
  revert i; induction l as [|y r IH]; intros i H; cbn [znth app] in *; [discriminate|].
  destruct (i =? 0); [exact H|]. destruct (i <? 0); [discriminate|]. apply IH. exact H.
Qed.

Lemma znth_app_range {A} (l e : list A) i : 0 <= i < len l -> znth (l ++ e) i = znth l i.
Proof.
  intro H. destruct (znth_in_range l i H) as (x & Hx). rewrite Hx. apply znth_app_l. exact Hx.
Qed.

Lemma znth_last {A} (l : list A) x : znth (l ++ [x]) (len l) = Some x.
Proof.
  induction l as [|y r IH]; cbn [app znth].
  - reflexivity.
  - rewrite len_cons. pose proof (len_nonneg r).
    assert (len r + 1 =? 0 = false) as -> by (apply Z.eqb_neq; lia).
    assert (len r + 1 <? 0 = false) as -> by (apply Z.ltb_ge; lia).
    replace (len r + 1 - 1) with (len r) by lia. exact IH.
Qed.

Lemma znth_In {A} (l : list A) i x : znth l i = Some x -> In x l.
Proof.
  revert i; induction l as [|y r IH]; intros i H; cbn [znth] in H; [discriminate|].
  destruct (i =? 0); [injection H as ->; left; reflexivity|].
  destruct (i <? 0); [discriminate|]. right. eapply IH. exact H.
Qed.

Lemma index_from_sound {A} (eqb : A -> A -> bool) i x l k :
  (forall a b, eqb a b = true -> a = b) ->
  index_from eqb i x l = Some k -> znth l (k - i) = Some x /\ i <= k < i + len l.
Proof.
  intro Heq. revert i; induction l as [|y r IH]; intros i H; cbn [index_from] in H; [discriminate|].
  rewrite len_cons. pose proof (len_nonneg r).
  destruct (eqb y x) eqn:E.
  - injection H as <-. apply Heq in E. subst y. cbn [znth]. replace (i - i) with 0 by lia.
    split; [reflexivity | lia].
  - apply IH in H as (H1 & H2). cbn [znth].
    assert (k - i =? 0 = false) as -> by (apply Z.eqb_neq; lia).
    assert (k - i <? 0 = false) as -> by (apply Z.ltb_ge; lia).
    replace (k - i - 1) with (k - (i + 1)) by lia. split; [exact H1 | lia].
Qed.

Lemma find_or_push_spec {A} (eqb : A -> A -> bool) x l l' i :
  (forall a b, eqb a b = true -> a = b) ->
  find_or_push eqb x l = (l', i) ->
  znth l' i = Some x /\ (exists e, l' = l ++ e) /\ 0 <= i < len l'.
Proof.
  intros Heq H. unfold find_or_push, index_of in H.
  destruct (index_from eqb 0 x l) as [k|] eqn:E.
  - injection H as <- <-. apply (index_from_sound eqb 0 x l k Heq) in E as (H1 & H2).
    replace (k - 0) with k in H1 by lia.
    split; [exact H1 | split; [exists []; rewrite app_nil_r; reflexivity | lia]].
  - injection H as <- <-. pose proof (len_nonneg l).
    split; [apply znth_last | split; [eexists; reflexivity|]].
    rewrite len_app. change (len [x]) with 1. lia.
Qed.

(* ---- number formats ------------------------------------------------------------------------------ *)
Definition ids (nfs : list num_fmt) : list Z := map nf_id nfs.

Lemma find_nf_by_id_some id nfs c :
  find_nf_by_id id nfs = Some c -> exists nf, In nf nfs /\ nf_id nf = id /\ nf_code nf = c.
Proof.
  induction nfs as [|nf r IH]; cbn [find_nf_by_id]; [discriminate|].
  destruct (nf_id nf =? id) eqn:E.
  - intro H. injection H as <-. apply Z.eqb_eq in E. exists nf. repeat split; [left; reflexivity | exact E].
  - intro H. destruct (IH H) as (x & H1 & H2). exists x. split; [right; exact H1 | exact H2].
Qed.

Lemma find_nf_by_id_none id nfs : find_nf_by_id id nfs = None <-> ~ In id (ids nfs).
Proof.
  induction nfs as [|nf r IH]; cbn [find_nf_by_id ids map In]; [tauto|].
  destruct (nf_id nf =? id) eqn:E.
  - apply Z.eqb_eq in E. split; [discriminate | intro H; exfalso; apply H; left; exact E].
  - apply Z.eqb_neq in E. fold (ids r). rewrite IH. tauto.
Qed.

Lemma find_nf_by_id_app id nfs e :
  find_nf_by_id id (nfs ++ e) =
  match find_nf_by_id id nfs with Some c => Some c | None => find_nf_by_id id e end.
Proof.
  induction nfs as [|nf r IH]; cbn [find_nf_by_id app]; [reflexivity|].
  destruct (nf_id nf =? id); [reflexivity | exact IH].
Qed.

Lemma find_nf_by_id_In nfs nf :
  NoDup (ids nfs) -> In nf nfs -> find_nf_by_id (nf_id nf) nfs = Some (nf_code nf).
Proof.
  induction nfs as [|x r IH]; cbn [ids map In find_nf_by_id]; [tauto|].
  intros Hnd [->|Hin].
  - rewrite Z.eqb_refl. reflexivity.
  - inversion Hnd as [|? ? Hx Hr]; subst.
    destruct (nf_id x =? nf_id nf) eqn:E.
    + apply Z.eqb_eq in E. exfalso. apply Hx. rewrite E. apply in_map. exact Hin.
    + apply IH; assumption.
Qed.

Lemma find_nf_by_code_sound code nfs id :
  find_nf_by_code code nfs = Some id -> exists nf, In nf nfs /\ nf_id nf = id /\ nf_code nf = code.
Proof.
  induction nfs as [|nf r IH]; cbn [find_nf_by_code]; [discriminate|].
  destruct (text_eqb (nf_code nf) code) eqn:E.
  - intro H. injection H as <-. apply text_eqb_eq in E. exists nf. repeat split; [left; reflexivity | exact E].
  - intro H. destruct (IH H) as (x & H1 & H2). exists x. split; [right; exact H1 | exact H2].
Qed.

Lemma id_used_iff id nfs : id_used id nfs = true <-> In id (ids nfs).
Proof.
  unfold id_used, ids. rewrite existsb_exists. split.
  - intros (nf & H1 & H2). apply Z.eqb_eq in H2. subst id. apply in_map. exact H1.
  - intro H. apply in_map_iff in H as (nf & H1 & H2). exists nf. split; [exact H2 | apply Z.eqb_eq; exact H1].
Qed.

(* how many formats have an id >= index *)
Definition cnt (index : Z) (nfs : list num_fmt) : nat :=
  length (filter (fun nf => index <=? nf_id nf) nfs).

Lemma cnt_mono index nfs : (cnt (index + 1) nfs <= cnt index nfs)%nat.
Proof.
  unfold cnt. induction nfs as [|nf r IH]; cbn [filter length]; [lia|].
  destruct (Z.leb_spec (index + 1) (nf_id nf)); destruct (Z.leb_spec index (nf_id nf)); cbn [length]; lia.
Qed.

Lemma cnt_step index nfs : id_used index nfs = true -> (cnt (index + 1) nfs < cnt index nfs)%nat.
Proof.
  unfold id_used. induction nfs as [|nf r IH]; cbn [existsb]; [discriminate|].
  intro H. unfold cnt in *. cbn [filter].
  pose proof (cnt_mono index r) as Hm. unfold cnt in Hm.
  destruct (Z.eqb_spec (nf_id nf) index) as [E|E].
  - destruct (Z.leb_spec (index + 1) (nf_id nf)); destruct (Z.leb_spec index (nf_id nf)); cbn [length]; lia.
  - cbn [orb] in H. specialize (IH H).
    destruct (Z.leb_spec (index + 1) (nf_id nf)); destruct (Z.leb_spec index (nf_id nf)); cbn [length]; lia.
Qed.

Lemma fresh_id_ge fuel index nfs : index <= fresh_id fuel index nfs.
Proof.
  revert index; induction fuel as [|f IH]; intro index; cbn [fresh_id]; [lia|].
  destruct (id_used index nfs); [specialize (IH (index + 1)); lia | lia].
Qed.

Lemma fresh_id_unused fuel index nfs :
  (cnt index nfs < fuel)%nat -> id_used (fresh_id fuel index nfs) nfs = false.
Proof.
  revert index; induction fuel as [|f IH]; intros index H; [lia|].
  cbn [fresh_id]. destruct (id_used index nfs) eqn:E; [|exact E].
  apply IH. pose proof (cnt_step index nfs E). lia.
Qed.

Lemma filter_len_le {A} (f : A -> bool) l : (length (filter f l) <= length l)%nat.
Proof. induction l as [|x r IH]; cbn [filter length]; [lia|]. destruct (f x); cbn [length]; lia. Qed.

(* FRESH IDS: the id handed out for a new format is beyond the built-ins and unused *)
Theorem new_num_fmt_index_fresh nfs :
  NBUILTIN <= get_new_num_fmt_index nfs /\ ~ In (get_new_num_fmt_index nfs) (ids nfs).
Proof.
  unfold get_new_num_fmt_index. split; [apply fresh_id_ge|].
  rewrite <- id_used_iff. rewrite fresh_id_unused; [discriminate|].
  unfold cnt. pose proof (filter_len_le (fun nf => NBUILTIN <=? nf_id nf) nfs). lia.
Qed.

Lemma default_id_sound code i :
  get_default_num_fmt_id code = Some i -> znth DEFAULT_NUM_FMTS i = Some code /\ 0 <= i < NBUILTIN.
Proof.
  unfold get_default_num_fmt_id, index_of. intro H.
  apply (index_from_sound text_eqb 0 code DEFAULT_NUM_FMTS i) in H as (H1 & H2).
  - replace (i - 0) with i in H1 by lia. split; [exact H1 | unfold NBUILTIN; lia].
  - intros a b E. apply text_eqb_eq. exact E.
Qed.

Lemma NoDup_app_single (l : list Z) x : NoDup l -> ~ In x l -> NoDup (l ++ [x]).
Proof.
  induction l as [|y r IH]; intros Hnd Hx; cbn [app].
  - constructor; [intros [] | constructor].
  - inversion Hnd as [|? ? Hy Hr]; subst. constructor.
    + rewrite in_app_iff. intros [H|[H|[]]]; [contradiction | subst; apply Hx; left; reflexivity].
    + apply IH; [exact Hr | intro H; apply Hx; right; exact H].
Qed.

(* what nf_find_or_push guarantees on well-formed format lists *)
Lemma nf_find_or_push_spec code nfs nfs' id :
  nfs_ok nfs -> nf_find_or_push code nfs = (nfs', id) ->
  get_num_fmt id nfs' = Ok code /\ nfs_ok nfs' /\ 0 <= id /\
  (NBUILTIN <= id -> In id (ids nfs')) /\
  (exists e, nfs' = nfs ++ e /\ forall nf, In nf e -> NBUILTIN <= nf_id nf /\ ~ In (nf_id nf) (ids nfs)).
Proof.
  intros (Hnd & Hsh) H. unfold nf_find_or_push, get_num_fmt_index in H.
  assert (Hext0 : exists e : list num_fmt, nfs = nfs ++ e /\
            forall nf, In nf e -> NBUILTIN <= nf_id nf /\ ~ In (nf_id nf) (ids nfs))
    by (exists []; rewrite app_nil_r; split; [reflexivity | intros ? []]).
  destruct (get_default_num_fmt_id code) as [i|] eqn:Ed.
  - (* a built-in code *)
    injection H as <- <-. apply default_id_sound in Ed as (Hz & Hr).
    repeat split; try assumption; try lia.
    unfold get_num_fmt. destruct (find_nf_by_id i nfs) as [c|] eqn:Ef.
    + apply find_nf_by_id_some in Ef as (nf & Hin & Hid & Hc).
      specialize (Hsh nf Hin ltac:(lia)). rewrite Hid, Hz in Hsh. congruence.
    + assert (i <? NBUILTIN = true) as -> by (apply Z.ltb_lt; lia). rewrite Hz. reflexivity.
  - destruct (find_nf_by_code code nfs) as [j|] eqn:Ec.
    + (* a format the workbook already defines *)
      injection H as <- <-. apply find_nf_by_code_sound in Ec as (nf & Hin & Hid & Hc).
      assert (Hj : In j (ids nfs)) by (rewrite <- Hid; apply in_map; exact Hin).
      repeat split; try assumption.
      * unfold get_num_fmt. rewrite <- Hid, (find_nf_by_id_In nfs nf Hnd Hin), Hc. reflexivity.
      * destruct (Z.lt_ge_cases j NBUILTIN) as [Hlt|Hge].
        -- rewrite <- Hid in Hlt. specialize (Hsh nf Hin Hlt). apply znth_some_range in Hsh. lia.
        -- pose proof (len_nonneg DEFAULT_NUM_FMTS). unfold NBUILTIN in Hge. lia.
      * intros _. exact Hj.
    + (* a new format with a fresh id *)
      injection H as <- <-. destruct (new_num_fmt_index_fresh nfs) as (Hge & Hfr).
      set (i := get_new_num_fmt_index nfs) in *.
      pose proof (len_nonneg DEFAULT_NUM_FMTS) as Hl. fold NBUILTIN in Hl.
      split; [|split; [|split; [|split]]].
      * unfold get_num_fmt. rewrite find_nf_by_id_app.
        apply find_nf_by_id_none in Hfr. rewrite Hfr. cbn [find_nf_by_id nf_id nf_code].
        rewrite Z.eqb_refl. reflexivity.
      * split.
        -- unfold ids in *. rewrite map_app. cbn [map nf_id]. apply NoDup_app_single; assumption.
        -- intros nf Hin Hlt. apply in_app_iff in Hin as [Hin|[<-|[]]]; [apply Hsh; assumption|].
           cbn [nf_id] in Hlt. lia.
      * lia.
      * intros _. unfold ids. rewrite map_app, in_app_iff. right. left. reflexivity.
      * eexists. split; [reflexivity|]. intros nf [<-|[]]. cbn [nf_id]. split; assumption.
Qed.

(* ---- BUILT-IN FORMATS: every code of the regenerated table is stored as a built-in id that
   reads back as the same code (the lookup returns the FIRST match: ids 23-36 are all "general") -- *)
Theorem builtin_formats_roundtrip :
  forall code, In code DEFAULT_NUM_FMTS ->
  exists i, get_default_num_fmt_id code = Some i /\ get_num_fmt i [] = Ok code.
Proof.
  assert (H : forallb (fun code =>
            match get_default_num_fmt_id code with
            | Some i => match get_num_fmt i [] with Ok c => text_eqb c code | _ => false end
            | None => false
            end) DEFAULT_NUM_FMTS = true) by (vm_compute; reflexivity).
  rewrite forallb_forall in H. intros code Hin. specialize (H code Hin).
  destruct (get_default_num_fmt_id code) as [i|]; [|discriminate]. exists i. split; [reflexivity|].
  destruct (get_num_fmt i []) as [c| |]; try discriminate. apply text_eqb_eq in H. congruence.
Qed.

(* every built-in id resolves (no panic) and resolves to a code that maps back to an id with the same code *)
Theorem builtin_ids_roundtrip :
  forall i, 0 <= i < NBUILTIN ->
  exists code j, get_num_fmt i [] = Ok code /\ get_default_num_fmt_id code = Some j /\ get_num_fmt j [] = Ok code.
Proof.
  intros i Hi. unfold get_num_fmt at 1. cbn [find_nf_by_id].
  assert (i <? NBUILTIN = true) as -> by (apply Z.ltb_lt; lia).
  destruct (znth_in_range DEFAULT_NUM_FMTS i Hi) as (code & Hc). rewrite Hc.
  destruct (builtin_formats_roundtrip code (znth_In _ _ _ Hc)) as (j & H1 & H2).
  exists code, j. repeat split; assumption.
Qed.

(* the table regenerated from the code is not empty (DEFAULT_NUM_FMTS[0] does not panic) *)
Lemma default_table_nonempty : exists c, znth DEFAULT_NUM_FMTS 0 = Some c.
Proof. vm_compute. eexists. reflexivity. Qed.

(* ------------------------------------------------------------------------------------------------ *)
Section Proofs.
Variables font fill border align : Type.
Variable font_eqb : font -> font -> bool.
Variable fill_eqb : fill -> fill -> bool.
Variable border_eqb : border -> border -> bool.
Variable align_eqb : align -> align -> bool.
(* soundness of Rust's derived PartialEq on the component types *)
Hypothesis font_eqb_eq : forall a b, font_eqb a b = true -> a = b.
Hypothesis fill_eqb_eq : forall a b, fill_eqb a b = true -> a = b.
Hypothesis border_eqb_eq : forall a b, border_eqb a b = true -> a = b.
Hypothesis align_eqb_eq : forall a b, align_eqb a b = true -> a = b.

Notation style := (style font fill border align).
Notation styles := (styles font fill border align).
Notation xf := (xf align).
Notation style_eqb := (style_eqb font_eqb fill_eqb border_eqb align_eqb).
Notation gsi_loop := (gsi_loop font_eqb fill_eqb border_eqb align_eqb).
Notation get_style_index := (get_style_index font_eqb fill_eqb border_eqb align_eqb).
Notation create_new_style := (create_new_style font_eqb fill_eqb border_eqb).
Notation intern := (intern font_eqb fill_eqb border_eqb align_eqb).
Notation intern_all := (intern_all font_eqb fill_eqb border_eqb align_eqb).

Lemma style_eqb_eq (a b : style) : style_eqb a b = true -> a = b.
Proof.
  destruct a as [a1 a2 a3 a4 a5 a6], b as [b1 b2 b3 b4 b5 b6]. unfold Styles.style_eqb.
  cbn [s_align s_num_fmt s_fill s_font s_border s_quote]. intro H.
  repeat (apply andb_true_iff in H as (H & ?)).
  f_equal.
  - destruct a1 as [x|], b1 as [y|]; cbn [oalign_eqb] in H; try discriminate; [|reflexivity].
    apply align_eqb_eq in H. congruence.
  - apply text_eqb_eq. assumption.
  - apply fill_eqb_eq. assumption.
  - apply font_eqb_eq. assumption.
  - apply border_eqb_eq. assumption.
  - apply Bool.eqb_prop. assumption.
Qed.

(* ---- resolving a well-formed record never panics and is unaffected by growth ------------------ *)
Lemma get_num_fmt_ok id nfs :
  0 <= id -> exists c, get_num_fmt id nfs = Ok c.
Proof.
  intro H0. unfold get_num_fmt. destruct (find_nf_by_id id nfs) as [c|]; [eexists; reflexivity|].
  destruct (id <? NBUILTIN) eqn:E.
  - apply Z.ltb_lt in E. unfold NBUILTIN in E.
    assert (Hr : 0 <= id < len DEFAULT_NUM_FMTS) by lia.
    destruct (znth_in_range DEFAULT_NUM_FMTS id Hr) as (c & ->). eexists; reflexivity.
  - destruct default_table_nonempty as (c & ->). eexists; reflexivity.
Qed.

Lemma resolve_ok (st : styles) (x : xf) : xf_ok st x -> exists s, resolve st x = Ok s.
Proof.
  intros (H1 & H2 & H3 & H4 & _). unfold resolve.
  destruct (get_num_fmt_ok (x_num_fmt_id x) (st_num_fmts st) H4) as (c & ->).
  destruct (znth_in_range _ _ H2) as (fi & ->). destruct (znth_in_range _ _ H1) as (fo & ->).
  destruct (znth_in_range _ _ H3) as (bo & ->). eexists; reflexivity.
Qed.

(* [grows st st']: pools are extended at the end; new formats have fresh ids beyond the built-ins *)
Definition grows (st st' : styles) : Prop :=
  (exists e, st_num_fmts st' = st_num_fmts st ++ e /\
             forall nf, In nf e -> NBUILTIN <= nf_id nf /\ ~ In (nf_id nf) (ids (st_num_fmts st))) /\
  (exists e, st_fonts st' = st_fonts st ++ e) /\ (exists e, st_fills st' = st_fills st ++ e) /\
  (exists e, st_borders st' = st_borders st ++ e) /\ (exists e, st_xfs st' = st_xfs st ++ e).

Lemma find_nf_by_id_fresh id e :
  (forall nf, In nf e -> nf_id nf <> id) -> find_nf_by_id id e = None.
Proof.
  intro H. apply find_nf_by_id_none. unfold ids. intro Hin. apply in_map_iff in Hin as (nf & H1 & H2).
  exact (H nf H2 H1).
Qed.

Lemma resolve_grows (st st' : styles) (x : xf) :
  xf_ok st x -> grows st st' -> resolve st' x = resolve st x.
Proof.
  intros (H1 & H2 & H3 & H4 & H5) ((e & En & Hfr) & (e1 & E1) & (e2 & E2) & (e3 & E3) & _).
  unfold resolve. rewrite En, E1, E2, E3.
  rewrite !znth_app_range by assumption.
  replace (get_num_fmt (x_num_fmt_id x) (st_num_fmts st ++ e))
    with (get_num_fmt (x_num_fmt_id x) (st_num_fmts st)); [reflexivity|].
  unfold get_num_fmt. rewrite find_nf_by_id_app.
  destruct (find_nf_by_id (x_num_fmt_id x) (st_num_fmts st)) as [c|] eqn:Ef; [reflexivity|].
  rewrite find_nf_by_id_fresh; [reflexivity|].
  intros nf Hin Heq. destruct (Hfr nf Hin) as (Hge & Hnot).
  apply find_nf_by_id_none in Ef. apply Ef. apply H5. lia.
Qed.

Lemma xf_ok_grows (st st' : styles) (x : xf) : xf_ok st x -> grows st st' -> xf_ok st' x.
Proof.
  intros (H1 & H2 & H3 & H4 & H5) ((e & En & _) & (e1 & E1) & (e2 & E2) & (e3 & E3) & _).
  unfold xf_ok. rewrite En, E1, E2, E3, !len_app.
  pose proof (len_nonneg e1). pose proof (len_nonneg e2). pose proof (len_nonneg e3).
  repeat split; try lia. intro Hge. unfold ids in *. rewrite map_app, in_app_iff. left. apply H5. exact Hge.
Qed.

(* ---- get_style_index ------------------------------------------------------------------------------ *)
Lemma gsi_loop_found (st : styles) (s : style) i xs k :
  gsi_loop st s i xs = Ok (Some k) ->
  exists x, znth xs (k - i) = Some x /\ resolve st x = Ok s /\ i <= k.
Proof.
  revert i; induction xs as [|x r IH]; intros i H; cbn [Styles.gsi_loop] in H; [discriminate|].
  assert (Hrec : Styles.gsi_loop font_eqb fill_eqb border_eqb align_eqb st s (i + 1) r = Ok (Some k) ->
                 exists x0, znth (x :: r) (k - i) = Some x0 /\ resolve st x0 = Ok s /\ i <= k).
  { intro H'. apply IH in H' as (x0 & G1 & G2 & G3). exists x0. cbn [znth].
    assert (k - i =? 0 = false) as -> by (apply Z.eqb_neq; lia).
    assert (k - i <? 0 = false) as -> by (apply Z.ltb_ge; lia).
    replace (k - i - 1) with (k - (i + 1)) by lia. repeat split; [exact G1 | exact G2 | lia]. }
  destruct (negb (x_xf_id x =? 0)); [exact (Hrec H)|].
  destruct (resolve st x) as [s'| |] eqn:Er; try discriminate.
  destruct (style_eqb s s') eqn:Ee; [|exact (Hrec H)].
  injection H as <-. apply style_eqb_eq in Ee. subst s'.
  exists x. cbn [znth]. replace (i - i) with 0 by lia. repeat split; [exact Er | lia].
Qed.

Lemma gsi_loop_total (st : styles) (s : style) i xs :
  Forall (xf_ok st) xs -> exists r, gsi_loop st s i xs = Ok r.
Proof.
  revert i; induction xs as [|x r IH]; intros i Hok; cbn [Styles.gsi_loop]; [eexists; reflexivity|].
  inversion Hok as [|? ? Hx Hr]; subst.
  destruct (negb (x_xf_id x =? 0)); [apply IH; exact Hr|].
  destruct (resolve_ok st x Hx) as (s' & ->).
  destruct (style_eqb s s'); [eexists; reflexivity | apply IH; exact Hr].
Qed.

(* ---- create_new_style ------------------------------------------------------------------------------ *)
Lemma create_new_style_spec (st : styles) (s : style) st' i :
  wf_styles st -> create_new_style st s = (st', i) ->
  wf_styles st' /\ grows st st' /\ get_style st' i = Ok s /\ i = len (st_xfs st) /\
  len (st_xfs st') = len (st_xfs st) + 1.
Proof.
  intros (Hnf & Hxs) H. unfold Styles.create_new_style in H.
  destruct (find_or_push font_eqb (s_font s) (st_fonts st)) as (fonts & font_id) eqn:Efo.
  destruct (find_or_push fill_eqb (s_fill s) (st_fills st)) as (fills & fill_id) eqn:Efi.
  destruct (find_or_push border_eqb (s_border s) (st_borders st)) as (borders & border_id) eqn:Ebo.
  destruct (nf_find_or_push (s_num_fmt s) (st_num_fmts st)) as (nfs & num_fmt_id) eqn:Enf.
  injection H as <- <-.
  apply (find_or_push_spec font_eqb _ _ _ _ font_eqb_eq) in Efo as (Fo1 & Fo2 & Fo3).
  apply (find_or_push_spec fill_eqb _ _ _ _ fill_eqb_eq) in Efi as (Fi1 & Fi2 & Fi3).
  apply (find_or_push_spec border_eqb _ _ _ _ border_eqb_eq) in Ebo as (Bo1 & Bo2 & Bo3).
  apply (nf_find_or_push_spec _ _ _ _ Hnf) in Enf as (N1 & N2 & N3 & N4 & N5).
  set (nx := mkXf 0 num_fmt_id font_id fill_id border_id 0 (s_quote s) (s_align s)).
  set (st' := mkStyles nfs fonts fills borders (st_xfs st ++ [nx])).
  assert (Hg : grows st st').
  { unfold grows, st'. cbn [st_num_fmts st_fonts st_fills st_borders st_xfs].
    repeat split; try assumption. eexists; reflexivity. }
  assert (Hnx : xf_ok st' nx).
  { unfold xf_ok, st', nx. cbn [st_num_fmts st_fonts st_fills st_borders x_font_id x_fill_id x_border_id x_num_fmt_id].
    repeat split; try lia. exact N4. }
  split; [|split; [exact Hg|split; [|split; [reflexivity|]]]].
  - split; [exact N2|]. unfold st' at 2. cbn [st_xfs]. apply Forall_app. split.
    + eapply Forall_impl; [|exact Hxs]. intros x Hx. eapply xf_ok_grows; eassumption.
    + constructor; [exact Hnx | constructor].
  - unfold get_style. unfold st' at 1. cbn [st_xfs]. rewrite znth_last.
    unfold resolve, st', nx. cbn [st_num_fmts st_fonts st_fills st_borders x_font_id x_fill_id x_border_id x_num_fmt_id x_align x_quote].
    rewrite N1, Fi1, Fo1, Bo1. destruct s; reflexivity.
  - unfold st'. cbn [st_xfs]. rewrite len_app. change (len [nx]) with 1. lia.
Qed.

(* ---- one assignment ---------------------------------------------------------------------------------- *)
Theorem intern_total (st : styles) (s : style) : wf_styles st -> exists r, intern st s = Ok r.
Proof.
  intros (_ & Hxs). unfold Styles.intern, Styles.get_style_index.
  destruct (gsi_loop_total st s 0 (st_xfs st) Hxs) as ([k|] & ->); eexists; reflexivity.
Qed.

Theorem intern_spec (st : styles) (s : style) st' i :
  wf_styles st -> intern st s = Ok (st', i) ->
  wf_styles st' /\ grows st st' /\ get_style st' i = Ok s /\
  len (st_xfs st) <= len (st_xfs st') /\ 0 <= i < len (st_xfs st').
Proof.
  intros Hwf H. unfold Styles.intern, Styles.get_style_index in H.
  destruct (gsi_loop st s 0 (st_xfs st)) as [[k|]| |] eqn:Eg; try discriminate.
  - (* an existing index *)
    injection H as <- <-. apply gsi_loop_found in Eg as (x & G1 & G2 & G3).
    replace (k - 0) with k in G1 by lia.
    split; [exact Hwf|]. split.
    { unfold grows. repeat split; try (exists []; rewrite app_nil_r; reflexivity).
      exists []. rewrite app_nil_r. split; [reflexivity | intros ? []]. }
    split; [unfold get_style; rewrite G1; exact G2|].
    split; [lia | eapply znth_some_range; exact G1].
  - (* a new record *)
    injection H as H. apply (create_new_style_spec st s st' i Hwf) in H as (H1 & H2 & H3 & H4 & H5).
    pose proof (len_nonneg (st_xfs st)).
    split; [exact H1 | split; [exact H2 | split; [exact H3 | lia]]].
Qed.

(* READ-BACK *)
Theorem intern_readback (st : styles) (s : style) st' i :
  wf_styles st -> intern st s = Ok (st', i) -> get_style st' i = Ok s.
Proof. intros Hwf H. apply (intern_spec st s st' i Hwf) in H as (_ & _ & H & _). exact H. Qed.

Lemma get_style_grows (st st' : styles) k :
  wf_styles st -> grows st st' -> 0 <= k < len (st_xfs st) -> get_style st' k = get_style st k.
Proof.
  intros (_ & Hxs) Hg Hk. pose proof Hg as (_ & _ & _ & _ & (e & Ex)).
  unfold get_style. rewrite Ex, znth_app_range by exact Hk.
  destruct (znth_in_range _ _ Hk) as (x & Hx). rewrite Hx.
  apply resolve_grows; [|exact Hg]. rewrite Forall_forall in Hxs. apply Hxs. eapply znth_In. exact Hx.
Qed.

(* STABILITY: interning never changes what an existing index resolves to; pools only grow *)
Theorem intern_stable (st : styles) (s : style) st' i :
  wf_styles st -> intern st s = Ok (st', i) ->
  (forall k, 0 <= k < len (st_xfs st) -> get_style st' k = get_style st k) /\ extends st st'.
Proof.
  intros Hwf H. apply (intern_spec st s st' i Hwf) in H as (_ & Hg & _).
  split; [intros k Hk; apply get_style_grows; assumption|].
  destruct Hg as ((e & En & _) & G2 & G3 & G4 & G5). unfold extends.
  repeat split; try assumption. exists e. exact En.
Qed.

Theorem intern_wf (st : styles) (s : style) st' i :
  wf_styles st -> intern st s = Ok (st', i) -> wf_styles st'.
Proof. intros Hwf H. apply (intern_spec st s st' i Hwf) in H as (H & _). exact H. Qed.

(* ---- histories ------------------------------------------------------------------------------------------ *)
Lemma intern_all_stable (st : styles) ss st' is :
  wf_styles st -> intern_all st ss = Ok (st', is) ->
  wf_styles st' /\ len (st_xfs st) <= len (st_xfs st') /\
  forall k, 0 <= k < len (st_xfs st) -> get_style st' k = get_style st k.
Proof.
  revert st st' is; induction ss as [|s r IH]; intros st st' is Hwf H; cbn [Styles.intern_all] in H.
  - injection H as <- <-. split; [exact Hwf | split; [lia | intros; reflexivity]].
  - destruct (intern st s) as [[st1 i]| |] eqn:E1; try discriminate.
    destruct (Styles.intern_all font_eqb fill_eqb border_eqb align_eqb st1 r) as [[st2 is2]| |] eqn:E2; try discriminate.
    injection H as <- <-.
    pose proof (intern_spec st s st1 i Hwf E1) as (W1 & G1 & _ & L1 & _).
    destruct (IH st1 st2 is2 W1 E2) as (W2 & L2 & S2).
    split; [exact W2 | split; [lia|]]. intros k Hk.
    rewrite S2 by lia. apply get_style_grows; assumption.
Qed.

(* after any history of assignments every index handed out resolves, in the final pools, to the
   style it was handed out for *)
Theorem intern_all_readback (st : styles) ss st' is :
  wf_styles st -> intern_all st ss = Ok (st', is) ->
  Forall2 (fun s i => get_style st' i = Ok s) ss is.
Proof.
  revert st st' is; induction ss as [|s r IH]; intros st st' is Hwf H; cbn [Styles.intern_all] in H.
  - injection H as <- <-. constructor.
  - destruct (intern st s) as [[st1 i]| |] eqn:E1; try discriminate.
    destruct (Styles.intern_all font_eqb fill_eqb border_eqb align_eqb st1 r) as [[st2 is2]| |] eqn:E2; try discriminate.
    injection H as <- <-.
    pose proof (intern_spec st s st1 i Hwf E1) as (W1 & _ & R1 & _ & I1).
    constructor; [|eapply IH; eassumption].
    destruct (intern_all_stable st1 r st2 is2 W1 E2) as (_ & _ & S2). rewrite S2 by exact I1. exact R1.
Qed.

Theorem intern_all_total (st : styles) ss : wf_styles st -> exists r, intern_all st ss = Ok r.
Proof.
  revert st; induction ss as [|s r IH]; intros st Hwf; cbn [Styles.intern_all]; [eexists; reflexivity|].
  destruct (intern_total st s Hwf) as ((st1 & i) & E1). rewrite E1.
  destruct (IH st1 (intern_wf st s st1 i Hwf E1)) as ((st2 & is2) & ->). eexists; reflexivity.
Qed.

(* NO SHARING: two assignments of different styles anywhere in a history get different indices *)
Theorem no_sharing (st : styles) ss st' is a b sa sb ia ib :
  wf_styles st -> intern_all st ss = Ok (st', is) ->
  nth_error ss a = Some sa -> nth_error is a = Some ia ->
  nth_error ss b = Some sb -> nth_error is b = Some ib ->
  sa <> sb -> ia <> ib.
Proof.
  intros Hwf H Ha Ia Hb Ib Hne Heq. pose proof (intern_all_readback st ss st' is Hwf H) as HF.
  assert (Hget : forall n s i, nth_error ss n = Some s -> nth_error is n = Some i -> get_style st' i = Ok s).
  { clear -HF. induction HF as [|s0 i0 ss0 is0 H0 HF IH]; intros n s i Hs Hi.
    - destruct n; discriminate.
    - destruct n as [|n]; cbn [nth_error] in Hs, Hi.
      + injection Hs as <-. injection Hi as <-. exact H0.
      + eapply IH; eassumption. }
  pose proof (Hget a sa ia Ha Ia) as Ga. pose proof (Hget b sb ib Hb Ib) as Gb.
  subst ib. rewrite Ga in Gb. injection Gb as Gb. contradiction.
Qed.

End Proofs.

(* ---- the pools of a new workbook are well formed (Styles::default) ------------------------------- *)
Lemma nbuiltin_pos : 0 < NBUILTIN.
Proof. destruct default_table_nonempty as (c & H). apply znth_some_range in H. unfold NBUILTIN. lia. Qed.

Theorem default_pools_wf {font fill border align : Type} (f0 : font) (fi0 : fill) (b0 : border) :
  @wf_styles font fill border align (mkStyles [] [f0] [fi0; fi0] [b0] [mkXf 0 0 0 0 0 0 false None]).
Proof.
  split.
  - split; [constructor | intros nf []].
  - constructor; [|constructor]. unfold xf_ok.
    cbn [st_fonts st_fills st_borders st_num_fmts x_font_id x_fill_id x_border_id x_num_fmt_id].
    pose proof nbuiltin_pos. change (len [f0]) with 1. change (len [fi0; fi0]) with 2. change (len [b0]) with 1.
    repeat split; try lia.
Qed.

(* ---- each clause of wf_styles is needed: pools outside it, as an import can produce them ---------- *)
Definition zintern := @intern Z Z Z Z Z.eqb Z.eqb Z.eqb Z.eqb.
Definition zdefault (nfs : list num_fmt) (extra : list (xf Z)) : styles Z Z Z Z :=
  mkStyles nfs [0] [0; 0] [0] (mkXf 0 0 0 0 0 0 false None :: extra).
Definition zstyle (code : text) : style Z Z Z Z := mkStyle None code 0 0 0 false.

(* (a) the workbook defines built-in id 14 with another code: assigning the built-in code of id 14
       stores id 14, which reads back as the workbook's code *)
Lemma shadowed_builtin_refuted :
  exists st s st' i c, st = zdefault [mkNf 14 [100; 100; 47; 109; 109; 47; 121; 121; 121; 121]] [] /\
    znth DEFAULT_NUM_FMTS 14 = Some c /\ s = zstyle c /\
    zintern st s = Ok (st', i) /\ get_style st' i <> Ok s.
Proof.
  eexists _, _, _, _, _. split; [reflexivity|]. split; [vm_compute; reflexivity|]. split; [reflexivity|].
  split; [vm_compute; reflexivity|]. vm_compute. discriminate.
Qed.

(* (b) a record refers to a custom id nobody defines (it reads "general"): the next new format
       takes that id and the old record changes its meaning *)
Lemma dangling_id_refuted :
  exists st s st' i, st = zdefault [] [mkXf 0 NBUILTIN 0 0 0 0 false None] /\ s = zstyle [122; 122] /\
    zintern st s = Ok (st', i) /\ get_style st' 1 <> get_style st 1.
Proof.
  eexists _, _, _, _. split; [reflexivity|]. split; [reflexivity|].
  split; [vm_compute; reflexivity|]. vm_compute. discriminate.
Qed.

(* (c) two workbook formats share an id: the second one cannot be read back *)
Lemma duplicate_id_refuted :
  exists st s st' i, st = zdefault [mkNf 60 [97]; mkNf 60 [98]] [] /\ s = zstyle [98] /\
    zintern st s = Ok (st', i) /\ get_style st' i <> Ok s.
Proof.
  eexists _, _, _, _. split; [reflexivity|]. split; [reflexivity|].
  split; [vm_compute; reflexivity|]. vm_compute. discriminate.
Qed.

(* non-vacuity: a history on the pools of a new workbook; equal styles share, different ones do not *)
Example history_example :
  let st := zdefault [] [] in
  let a := mkStyle None [48; 46; 48; 48] 0 1 0 false in      (* built-in code "0.00", a new font *)
  let b := mkStyle (Some 5) [120] 7 1 0 true in              (* custom code "x", a new fill *)
  match @intern_all Z Z Z Z Z.eqb Z.eqb Z.eqb Z.eqb st [a; b; a; zstyle [103; 101; 110; 101; 114; 97; 108]; b] with
  | Ok (st', is) =>
      is = [1; 2; 1; 0; 2] /\ st_num_fmts st' = [mkNf NBUILTIN [120]] /\ st_fonts st' = [0; 1] /\
      st_fills st' = [0; 0; 7] /\ get_style st' 2 = Ok b
  | _ => False
  end.
Proof. vm_compute. repeat split; reflexivity. Qed.
