(* Sheet/PersistProofs.v — proofs about Sheet/Persist.v (C26). *)
From IronCalc Require Import Base.Prelude Codec.RefA1 Syntax.Token Syntax.Ast Syntax.Printer Syntax.Parser Syntax.Shape
  Syntax.FuelProofs Sheet.Persist.

Section PersistProofs.
  Variable W : Type.
  Variable B : Type.
  Variable enc : W -> B.
  Variable dec : B -> option W.
  Variable PN : Type.
  Variable view : W -> wb_view.
  Variable parse_names : wb_view -> PN.
  Variable cf_eval : W -> W.
  Variable valid_locale valid_tz valid_lang : text -> bool.
  Variable lex_rc : text -> list token.
  Variable nm : names.
  (* the codec law: checked by the harness on every generated workbook (Workbook: PartialEq) *)
  Hypothesis bitcode_rt : forall w, dec (enc w) = Some w.
  (* evaluate_conditional_formatting writes computed values only; nothing to do without conditional formats *)
  Hypothesis cf_view : forall w, view (cf_eval w) = view w.
  Hypothesis cf_none : forall w, v_has_cf (view w) = false -> cf_eval w = w.

  Notation from_workbook := (from_workbook W PN view parse_names cf_eval valid_locale valid_tz valid_lang lex_rc nm).
  Notation from_bytes := (from_bytes W B dec PN view parse_names cf_eval valid_locale valid_tz valid_lang lex_rc nm).
  Notation to_bytes := (to_bytes W B enc PN).
  Notation loadable := (fun (m : model W PN) (lang : text) =>
    valid_locale (v_locale (view (m_wb m))) = true /\ valid_tz (v_tz (view (m_wb m))) = true /\ valid_lang lang = true).

  (* from_bytes (to_bytes m) is from_workbook of the very same workbook *)
  Lemma load_save_is_from_workbook m lang : from_bytes (to_bytes m) lang = from_workbook (m_wb m) lang.
  Proof. unfold Persist.from_bytes, Persist.to_bytes. rewrite bitcode_rt. reflexivity. Qed.

  (* it succeeds exactly when the three identifiers are valid *)
  Lemma load_ok_iff m lang :
    (exists m', from_bytes (to_bytes m) lang = Ok m') <-> loadable m lang.
  Proof.
    rewrite load_save_is_from_workbook. unfold Persist.from_workbook.
    destruct (valid_locale _) eqn:E1, (valid_tz _) eqn:E2, (valid_lang lang) eqn:E3; cbn [negb];
      split; intro H; try (destruct H as [m' H]; discriminate H);
      try (destruct H as (H1 & H2 & H3); discriminate); eauto.
  Qed.

  Lemma load_never_panics m lang : from_bytes (to_bytes m) lang <> Panic.
  Proof.
    rewrite load_save_is_from_workbook. unfold Persist.from_workbook.
    destruct (valid_locale _), (valid_tz _), (valid_lang lang); cbn [negb]; discriminate.
  Qed.

  (* the workbook of the loaded model is the stored one up to the values evaluate_conditional_formatting
     rewrote: everything [view] shows is identical; without conditional formats it is IDENTICAL.
     The language is the one asked for, the parsed structures are functions of the stored view. *)
  Theorem load_save_workbook m lang m' :
    from_bytes (to_bytes m) lang = Ok m' ->
    m_wb m' = cf_eval (m_wb m) /\ view (m_wb m') = view (m_wb m) /\
    (v_has_cf (view (m_wb m)) = false -> m_wb m' = m_wb m) /\ m_lang m' = lang /\
    m_parsed m' = parse_formulas lex_rc nm (view (m_wb m)) /\ m_names m' = parse_names (view (m_wb m)).
  Proof.
    rewrite load_save_is_from_workbook. unfold Persist.from_workbook.
    destruct (valid_locale _), (valid_tz _), (valid_lang lang); cbn [negb]; try discriminate.
    intro H. injection H as <-. cbn. repeat split; auto.
  Qed.

  Theorem load_save_exists m lang : loadable m lang ->
    exists m', from_bytes (to_bytes m) lang = Ok m' /\ view (m_wb m') = view (m_wb m).
  Proof.
    intro H. apply load_ok_iff in H as [m' H]. exists m'. split; [exact H|].
    apply load_save_workbook in H. tauto.
  Qed.

  (* ---- formulas: C09 in the stored form ---------------------------------------------------- *)
  Theorem stored_formula_reparses v sheet t e :
    stored_ok lex_rc nm v sheet t e -> parse_stored lex_rc nm v sheet t = e.
  Proof.
    intros (Himg & Hbad & Hlow & Hglue & Hlex). unfold parse_stored. rewrite Hlex.
    change true with (pm_rc m_rc1) at 1.
    rewrite (roundtrip_parse_glued m_rc1 nm (env_of v sheet) e Himg Hbad Hlow Hglue). reflexivity.
  Qed.

  Lemma stored_row_reparses v sheet ts ps :
    Forall2 (stored_ok lex_rc nm v sheet) ts ps -> map (parse_stored lex_rc nm v sheet) ts = ps.
  Proof.
    induction 1 as [|t e ts ps H _ IH]; cbn [map]; [reflexivity|].
    rewrite (stored_formula_reparses _ _ _ _ H), IH. reflexivity.
  Qed.

  Lemma sheets_reparse v (l : list (text * list text)) (ps : list (list ast)) :
    Forall2 (fun sf p => Forall2 (stored_ok lex_rc nm v (fst sf)) (snd sf) p) l ps ->
    map (fun sf => map (parse_stored lex_rc nm v (fst sf)) (snd sf)) l = ps.
  Proof.
    induction 1 as [|sf p l ps H _ IH]; cbn [map]; [reflexivity|].
    rewrite (stored_row_reparses _ _ _ _ H), IH. reflexivity.
  Qed.

  Lemma consistent_parse_formulas (m : model W PN) :
    consistent W PN view lex_rc nm m -> parse_formulas lex_rc nm (view (m_wb m)) = m_parsed m.
  Proof. intro H. apply sheets_reparse. exact H. Qed.

  Theorem load_save_formulas m lang m' :
    consistent W PN view lex_rc nm m -> from_bytes (to_bytes m) lang = Ok m' -> m_parsed m' = m_parsed m.
  Proof.
    intros Hc H. apply load_save_workbook in H as (_ & _ & _ & _ & H & _). rewrite H.
    apply consistent_parse_formulas. exact Hc.
  Qed.

  (* a second save/load changes nothing any more in what is stored and parsed (no consistency
     premise); the whole model is the same if evaluate_conditional_formatting has nothing left to
     rewrite in the loaded workbook *)
  Theorem load_save_idempotent m lang m' m'' :
    from_bytes (to_bytes m) lang = Ok m' -> from_bytes (to_bytes m') lang = Ok m'' ->
    view (m_wb m'') = view (m_wb m') /\ m_parsed m'' = m_parsed m' /\ m_names m'' = m_names m' /\ m_lang m'' = m_lang m' /\
    (cf_eval (m_wb m') = m_wb m' -> m'' = m').
  Proof.
    intros H1 H2. apply load_save_workbook in H1 as (Hw & Hv & _ & Hl & Hp & Hn).
    apply load_save_workbook in H2 as (Hw2 & Hv2 & _ & Hl2 & Hp2 & Hn2).
    rewrite Hv in Hp2, Hn2.
    repeat split; try congruence.
    intro Hfix. destruct m' as [w' p' n' l'], m'' as [w'' p'' n'' l'']. cbn in *. subst. rewrite Hfix. reflexivity.
  Qed.
End PersistProofs.

(* ---- number literals ------------------------------------------------------------------------ *)
Lemma store_int_short n : n < 10 ^ 15 -> store_int n = n.
Proof. intro H. unfold store_int. apply Z.ltb_lt in H. rewrite H. reflexivity. Qed.

Lemma store_int_tens k : store_int (10 * k) = 10 * k.
Proof.
  unfold store_int. destruct (10 * k <? 10 ^ 15); [reflexivity|].
  replace (10 * k / 10) with k by (symmetry; rewrite Z.mul_comm; apply Z.div_mul; lia).
  replace (10 * k mod 10) with 0 by (symmetry; rewrite Z.mul_comm; apply Z.mod_mul; lia).
  reflexivity.
Qed.

Lemma store_int_idempotent n : store_int (store_int n) = store_int n.
Proof.
  assert (H : store_int n = n \/ exists k, store_int n = 10 * k).
  { unfold store_int. destruct (n <? 10 ^ 15); [left; reflexivity | right; eexists; reflexivity]. }
  destruct H as [H | [k H]]; rewrite H; [exact H | apply store_int_tens].
Qed.

Lemma store_int_lossy : 0 <= 1000000000000001 < 2 ^ 53 /\ store_int 1000000000000001 = 1000000000000000.
Proof. vm_compute. repeat split; discriminate. Qed.

(* ---- a concrete instance (non-vacuity of the hypotheses) -------------------------------------- *)
Module Example.
  Definition nm0 : names :=
    {| fn_name := fun _ => [70]; fn_lookup := fun _ => None; bool_of_name := fun _ => None; fn_true := 0; fn_false := 1;
       nm_lower := fun t => t; nm_upper := fun t => t; err_tokens := fun k => [TError k] |}.
  Definition r0 := ERef None (Some 0) {| p_row := 0; p_col := 0; p_abs_col := false; p_abs_row := false |}.
  (* the workbook is its own view, the codec is the identity *)
  Definition t1 : text := [49; 43; 50].                                   (* "1+2" *)
  Definition t2 : text := [45; 82; 91; 48; 93; 67; 91; 48; 93; 37].       (* "-R[0]C[0]%" *)
  Definition e1 := ESum SAdd (ENum [49]) (ENum [50]).
  Definition e2 := EPct (ENeg r0).
  Definition lex0 (t : text) : list token :=
    if text_eqb t t1 then print m_rc1 nm0 e1 else if text_eqb t t2 then print m_rc1 nm0 e2 else [TIllegal].
  Definition w0 : wb_view :=
    {| v_sheets := [([83], [t1; t2])]; v_defnames := []; v_tables := []; v_locale := [101; 110]; v_tz := [85; 84; 67]; v_has_cf := false |}.
  Definition m0 : model wb_view unit := {| m_wb := w0; m_parsed := [[e1; e2]]; m_names := tt; m_lang := [101; 110] |}.
  Definition yes (_ : text) := true.

  Lemma m0_consistent : consistent wb_view unit (fun w => w) lex0 nm0 m0.
  Proof.
    unfold consistent. cbn. repeat constructor; vm_compute; reflexivity.
  Qed.
  Lemma m0_loads :
    from_bytes wb_view wb_view Some unit (fun w => w) (fun _ => tt) (fun w => w) yes yes yes lex0 nm0
      (to_bytes wb_view wb_view (fun w => w) unit m0) [101; 110] = Ok m0.
  Proof. vm_compute. reflexivity. Qed.
End Example.
