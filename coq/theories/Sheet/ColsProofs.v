(* Sheet/ColsProofs.v — the column-descriptor surgery keeps layouts well formed and changes
   exactly one (column, attribute) pair.  (The three situations in which the code used to break
   this — F23a/b/c — were repaired in /repo by acf9a86, ae7cffd, 973383c; the model follows the
   repaired code and the theorems are at full strength.) *)
From IronCalc Require Import Base.Prelude Sheet.Cols.

Ltac zb := repeat match goal with
  | H : andb _ _ = true |- _ => apply andb_true_iff in H; destruct H
  | H : negb _ = true |- _ => apply negb_true_iff in H
  | H : negb _ = false |- _ => apply negb_false_iff in H
  | H : (_ <=? _) = true |- _ => apply Z.leb_le in H
  | H : (_ <=? _) = false |- _ => apply Z.leb_gt in H
  | H : (_ <? _) = true |- _ => apply Z.ltb_lt in H
  | H : (_ <? _) = false |- _ => apply Z.ltb_ge in H
  | H : (_ =? _) = true |- _ => apply Z.eqb_eq in H
  | H : (_ =? _) = false |- _ => apply Z.eqb_neq in H
  end.

Ltac zcases := repeat match goal with
  | |- context [?a <=? ?b] => destruct (Z.leb_spec a b)
  | |- context [?a <? ?b] => destruct (Z.ltb_spec a b)
  | |- context [?a =? ?b] => destruct (Z.eqb_spec a b)
  end; cbn [andb negb orb].

Lemma valid_iff j : is_valid_column_number j = true <-> 1 <= j <= LAST_COLUMN.
Proof.
  unfold is_valid_column_number. rewrite andb_true_iff, Z.leb_le, Z.leb_le. reflexivity.
Qed.

Lemma covers_iff c j : covers c j = true <-> c_min c <= j <= c_max c.
Proof. unfold covers. rewrite andb_true_iff, Z.leb_le, Z.leb_le. reflexivity. Qed.

Lemma covers_false_iff c j : covers c j = false <-> (j < c_min c \/ c_max c < j).
Proof. unfold covers. rewrite andb_false_iff, Z.leb_gt, Z.leb_gt. reflexivity. Qed.

(* what the getters read of a descriptor *)
Definition view (c : col) : Z * bool * bool * option Z :=
  (c_width c, c_custom c, c_hidden c, c_style c).
Definition view_at (cs : cols) (j : Z) : option (Z * bool * bool * option Z) :=
  option_map view (find_col j cs).

(* the descriptor at which the surgery loops stop (they break at the first min > column) *)
Fixpoint reached (j : Z) (cs : cols) : option col :=
  match cs with
  | [] => None
  | c :: r => if covers c j then Some c else if j <? c_min c then None else reached j r
  end.

Lemma find_none_below lo cs j : wf_from lo cs -> j <= lo -> find_col j cs = None.
Proof.
  revert lo; induction cs as [|c r IH]; intros lo Hwf Hj; cbn [find_col]; [reflexivity|].
  cbn [wf_from] in Hwf. destruct Hwf as (H1 & H2 & H3 & H4).
  assert (covers c j = false) as -> by (apply covers_false_iff; lia).
  apply (IH (c_max c)); [exact H4 | lia].
Qed.

Lemma reached_find_wf lo cs j : wf_from lo cs -> reached j cs = find_col j cs.
Proof.
  revert lo; induction cs as [|c r IH]; intros lo Hwf; cbn [reached find_col]; [reflexivity|].
  cbn [wf_from] in Hwf. destruct Hwf as (H1 & H2 & H3 & H4).
  destruct (covers c j) eqn:Ec; [reflexivity|].
  destruct (j <? c_min c) eqn:El.
  - apply Z.ltb_lt in El. symmetry. apply (find_none_below (c_max c)); [exact H4 | lia].
  - apply (IH (c_max c)). exact H4.
Qed.

Lemma reached_find j cs c : reached j cs = Some c -> find_col j cs = Some c.
Proof.
  induction cs as [|d r IH]; cbn [reached find_col]; [discriminate|].
  destruct (covers d j); [exact (fun H => H)|].
  destruct (j <? c_min d); [discriminate | exact IH].
Qed.

(* ------------------------------------------------------------------------------------------ *)
(* [place]: other columns                                                                       *)

Lemma view_at_place_other j j' nc cs :
  j' <> j -> c_min nc = j -> c_max nc = j ->
  view_at (place j nc cs) j' = view_at cs j'.
Proof.
  intros Hne Hmin Hmax. unfold view_at.
  induction cs as [|c r IH]; cbn [place].
  - cbn [find_col]. assert (covers nc j' = false) as -> by (apply covers_false_iff; lia). reflexivity.
  - destruct (covers c j) eqn:Ec.
    + apply covers_iff in Ec.
      destruct ((c_min c =? j) && (c_max c =? j)) eqn:Ee.
      * zb. cbn [find_col]. unfold covers at 1. cbn [c_min c_max].
        assert (covers c j' = false) as Hc by (apply covers_false_iff; lia).
        rewrite Hc. unfold covers in Hc. rewrite Hc. reflexivity.
      * destruct (j =? c_min c) eqn:E1; destruct (j =? c_max c) eqn:E2; zb;
          cbn [app find_col]; unfold covers; cbn [c_min c_max];
          zcases; try reflexivity; try lia.
    + destruct (j <? c_min c) eqn:El.
      * cbn [find_col]. assert (covers nc j' = false) as -> by (apply covers_false_iff; lia).
        reflexivity.
      * cbn [find_col]. destruct (covers c j'); [reflexivity | exact IH].
Qed.

(* [place]: the column itself reads exactly what was passed in *)
Lemma find_place_same j nc cs :
  c_min nc = j -> c_max nc = j ->
  exists c', find_col j (place j nc cs) = Some c' /\ view c' = view nc.
Proof.
  intros Hmin Hmax.
  assert (covers nc j = true) as Hnc by (apply covers_iff; lia).
  induction cs as [|c r IH]; cbn [place].
  - exists nc. cbn [find_col]. rewrite Hnc. split; reflexivity.
  - destruct (covers c j) eqn:Ec.
    + pose proof Ec as Ec'. apply covers_iff in Ec'.
      destruct ((c_min c =? j) && (c_max c =? j)) eqn:Ee.
      * eexists. cbn [find_col]. unfold covers at 1. cbn [c_min c_max].
        unfold covers in Ec. rewrite Ec. split; reflexivity.
      * eexists (mkCol j j (c_width nc) (c_custom nc) (c_hidden nc) (c_style nc)).
        split; [|reflexivity].
        destruct (j =? c_min c) eqn:E1; destruct (j =? c_max c) eqn:E2; zb;
          cbn [app find_col]; unfold covers; cbn [c_min c_max];
          zcases; try reflexivity; try lia.
    + destruct (j <? c_min c) eqn:El.
      * exists nc. cbn [find_col]. rewrite Hnc. split; reflexivity.
      * cbn [find_col]. rewrite Ec. exact IH.
Qed.

(* [place] keeps layouts well formed *)
Lemma place_wf lo j nc cs :
  wf_from lo cs -> lo < j -> j <= LAST_COLUMN -> c_min nc = j -> c_max nc = j ->
  wf_from lo (place j nc cs).
Proof.
  intros Hwf Hlo Hhi Hmin Hmax. revert lo Hwf Hlo.
  induction cs as [|c r IH]; intros lo Hwf Hlo; cbn [place].
  - cbn [wf_from]. repeat split; lia.
  - cbn [wf_from] in Hwf. destruct Hwf as (H1 & H2 & H3 & H4).
    destruct (covers c j) eqn:Ec.
    + apply covers_iff in Ec.
      destruct ((c_min c =? j) && (c_max c =? j)) eqn:Ee.
      * cbn [wf_from c_min c_max]. repeat split; try lia. exact H4.
      * destruct (j =? c_min c) eqn:E1; destruct (j =? c_max c) eqn:E2; zb;
          cbn [app wf_from c_min c_max]; repeat split; try lia; try exact H4.
        -- subst j. rewrite <- E2 in H4. exact H4.
    + apply covers_false_iff in Ec.
      destruct (j <? c_min c) eqn:El; zb.
      * cbn [wf_from]. repeat split; try lia. exact H4.
      * cbn [wf_from]. repeat split; try lia. apply IH; [exact H4 | lia].
Qed.


(* ------------------------------------------------------------------------------------------ *)
(* [unstyle]                                                                                    *)

Lemma view_at_unstyle_other j j' cs :
  j' <> j -> view_at (unstyle j cs) j' = view_at cs j'.
Proof.
  intros Hne. unfold view_at.
  induction cs as [|c r IH]; cbn [unstyle]; [reflexivity|].
  destruct (covers c j) eqn:Ec.
  - apply covers_iff in Ec.
    destruct (j =? c_min c) eqn:E1; destruct (j =? c_max c) eqn:E2;
      destruct (c_custom c || c_hidden c) eqn:Ek; zb;
      cbn [app find_col]; unfold covers; cbn [c_min c_max];
      zcases; try reflexivity; try lia.
  - destruct (j <? c_min c) eqn:El; [reflexivity|].
    cbn [find_col]. destruct (covers c j'); [reflexivity | exact IH].
Qed.

Lemma find_unstyle_same lo j cs :
  wf_from lo cs ->
  find_col j (unstyle j cs) =
  match find_col j cs with
  | Some c => if c_custom c || c_hidden c
              then Some (mkCol j j (c_width c) (c_custom c) (c_hidden c) None) else None
  | None => None
  end.
Proof.
  revert lo; induction cs as [|c r IH]; intros lo Hwf; cbn [unstyle find_col]; [reflexivity|].
  cbn [wf_from] in Hwf. destruct Hwf as (H1 & H2 & H3 & H4).
  destruct (covers c j) eqn:Ec.
  - apply covers_iff in Ec.
    assert (find_col j r = None) as Hr by (apply (find_none_below (c_max c)); [exact H4 | lia]).
    destruct (j =? c_min c) eqn:E1; destruct (j =? c_max c) eqn:E2;
      destruct (c_custom c || c_hidden c) eqn:Ek; zb;
      cbn [app find_col]; unfold covers; cbn [c_min c_max];
      zcases; try reflexivity; try lia; try exact Hr.
  - pose proof Ec as Ec'. apply covers_false_iff in Ec'.
    destruct (j <? c_min c) eqn:El; zb.
    + cbn [find_col]. rewrite Ec.
      rewrite (find_none_below (c_max c) r j H4) by lia. reflexivity.
    + cbn [find_col]. rewrite Ec. apply (IH (c_max c)). exact H4.
Qed.

Lemma unstyle_wf lo j cs : wf_from lo cs -> wf_from lo (unstyle j cs).
Proof.
  revert lo; induction cs as [|c r IH]; intros lo Hwf; cbn [unstyle]; [exact I|].
  cbn [wf_from] in Hwf. destruct Hwf as (H1 & H2 & H3 & H4).
  destruct (covers c j) eqn:Ec.
  - apply covers_iff in Ec.
    assert (Hr : forall lo', lo' <= c_max c -> wf_from lo' r).
    { intros lo' Hle. destruct r as [|d r']; [exact I|]. cbn [wf_from] in *.
      destruct H4 as (G1 & G2 & G3 & G4). repeat split; try lia. exact G4. }
    destruct (j =? c_min c) eqn:E1; destruct (j =? c_max c) eqn:E2;
      destruct (c_custom c || c_hidden c) eqn:Ek; zb;
      cbn [app wf_from c_min c_max]; repeat split; try lia; try exact H4;
      try (apply Hr; lia).
  - destruct (j <? c_min c) eqn:El.
    + cbn [wf_from]. repeat split; try lia. exact H4.
    + cbn [wf_from]. repeat split; try lia. apply IH. exact H4.
Qed.

(* ------------------------------------------------------------------------------------------ *)
(* observations are functions of the view                                                       *)

Lemma obs_of_view up cs cs' j j' :
  view_at cs' j' = view_at cs j ->
  width_at up cs' j' = width_at up cs j /\ hidden_at cs' j' = hidden_at cs j /\
  style_at cs' j' = style_at cs j /\ shown_width_at up cs' j' = shown_width_at up cs j.
Proof.
  unfold view_at, width_at, hidden_at, style_at, shown_width_at.
  destruct (find_col j' cs') as [a|]; destruct (find_col j cs) as [b|]; cbn [option_map]; intro H;
    try discriminate; [|repeat split; reflexivity].
  unfold view in H. injection H as H1 H2 H3 H4. rewrite H1, H2, H3, H4. repeat split; reflexivity.
Qed.

Lemma shown_eq up cs j :
  shown_width_at up cs j = if hidden_at cs j then 0 else width_at up cs j.
Proof.
  unfold shown_width_at, hidden_at, width_at. destruct (find_col j cs) as [c|]; reflexivity.
Qed.

Section Ops.
Variables down up : Z -> Z.
Hypothesis up_down : forall w, up (down w) = w.

Lemma width_norm w :
  (if negb (w =? DEFAULT_COLUMN_WIDTH) then up (down w) else DEFAULT_COLUMN_WIDTH) = w.
Proof.
  destruct (Z.eqb_spec w DEFAULT_COLUMN_WIDTH) as [->|]; cbn [negb]; [reflexivity | apply up_down].
Qed.

(* ---- set_column_width_and_style ---------------------------------------------------------- *)
Lemma scwas_ok cs j w h s cs' :
  set_column_width_and_style down cs j w h s = Ok cs' ->
  is_valid_column_number j = true /\ 0 <= w /\
  cs' = place j (mkCol j j (down w) (negb (w =? DEFAULT_COLUMN_WIDTH)) h s) cs.
Proof.
  unfold set_column_width_and_style.
  destruct (is_valid_column_number j); cbn [negb]; [|discriminate].
  destruct (w <? 0) eqn:E; [discriminate|]. intro H. injection H as <-.
  apply Z.ltb_ge in E. repeat split; [exact E].
Qed.

Lemma scwas_err cs j w h s :
  (exists cs', set_column_width_and_style down cs j w h s = Ok cs') \/
  (set_column_width_and_style down cs j w h s = Err /\
   (is_valid_column_number j = false \/ w < 0)).
Proof.
  unfold set_column_width_and_style.
  destruct (is_valid_column_number j); cbn [negb]; [|right; split; [reflexivity | left; reflexivity]].
  destruct (w <? 0) eqn:E; [right; split; [reflexivity | right; apply Z.ltb_lt; exact E]|].
  left. eexists. reflexivity.
Qed.

Lemma scwas_other cs j w h s cs' j' :
  set_column_width_and_style down cs j w h s = Ok cs' -> j' <> j ->
  view_at cs' j' = view_at cs j'.
Proof.
  intros H Hne. apply scwas_ok in H as (_ & _ & ->).
  apply view_at_place_other; [exact Hne | reflexivity | reflexivity].
Qed.

(* the column reads exactly the width, hidden flag and style that were passed in *)
Lemma scwas_same cs j w h s cs' :
  set_column_width_and_style down cs j w h s = Ok cs' ->
  width_at up cs' j = w /\ hidden_at cs' j = h /\ style_at cs' j = s.
Proof.
  intro H. apply scwas_ok in H as (_ & _ & ->).
  destruct (find_place_same j (mkCol j j (down w) (negb (w =? DEFAULT_COLUMN_WIDTH)) h s) cs
              eq_refl eq_refl) as (c' & Hf & Hv).
  unfold view in Hv. cbn [c_width c_custom c_hidden c_style] in Hv. injection Hv as V1 V2 V3 V4.
  unfold width_at, hidden_at, style_at. rewrite Hf, V1, V2, V3, V4.
  rewrite width_norm. repeat split; reflexivity.
Qed.

Lemma scwas_wf cs j w h s cs' :
  wf cs -> set_column_width_and_style down cs j w h s = Ok cs' -> wf cs'.
Proof.
  intros Hwf H. apply scwas_ok in H as (Hv & _ & ->). apply valid_iff in Hv.
  apply place_wf; [exact Hwf | lia | lia | reflexivity | reflexivity].
Qed.

(* ---- the four operations: what they boil down to --------------------------------------------- *)
Definition core (cs : cols) (o : cop) : outcome cols :=
  match o with
  | SetWidth j w => set_column_width_and_style down cs j w (hidden_at cs j) (style_at cs j)
  | SetHidden j b => set_column_width_and_style down cs j (width_at up cs j) b (style_at cs j)
  | SetStyle j s => set_column_width_and_style down cs j (width_at up cs j) (hidden_at cs j) (Some s)
  | DelStyle j => delete_column_style cs j
  end.

Lemma apply_core cs o : apply_cop down up cs o = core cs o.
Proof.
  destruct o as [j w|j b|j s|j]; cbn [apply_cop core]; try reflexivity;
    unfold set_column_width, set_column_hidden, set_column_style, get_column_style, is_column_hidden,
      get_actual_column_width, set_column_width_and_style;
    destruct (is_valid_column_number j); reflexivity.
Qed.

Lemma apply_ok_valid cs o cs' :
  apply_cop down up cs o = Ok cs' -> is_valid_column_number (cop_col o) = true.
Proof.
  rewrite apply_core. destruct o as [j w|j b|j s|j]; cbn [core cop_col]; intro H;
    try (apply scwas_ok in H as (Hv & _); exact Hv).
  unfold delete_column_style in H. destruct (is_valid_column_number j); [reflexivity | discriminate].
Qed.

(* ---- FRAME, part 1: every other column keeps every attribute (any layout, no premise) ---------- *)
Theorem cop_other_columns cs o cs' j' :
  apply_cop down up cs o = Ok cs' -> j' <> cop_col o ->
  view_at cs' j' = view_at cs j'.
Proof.
  rewrite apply_core. destruct o as [j w|j b|j s|j]; cbn [core cop_col]; intros H Hne;
    try (eapply scwas_other; eassumption).
  unfold delete_column_style in H. destruct (is_valid_column_number j); [|discriminate].
  injection H as <-. apply view_at_unstyle_other. exact Hne.
Qed.

(* ---- FRAME, part 2: the column itself ----------------------------------------------------------- *)
Theorem set_width_same cs j w cs' :
  set_column_width down cs j w = Ok cs' ->
  width_at up cs' j = w /\ hidden_at cs' j = hidden_at cs j /\ style_at cs' j = style_at cs j.
Proof.
  intro H. change (apply_cop down up cs (SetWidth j w) = Ok cs') in H. rewrite apply_core in H.
  cbn [core] in H. apply scwas_same in H. exact H.
Qed.

Theorem set_hidden_same cs j b cs' :
  set_column_hidden down up cs j b = Ok cs' ->
  hidden_at cs' j = b /\ width_at up cs' j = width_at up cs j /\ style_at cs' j = style_at cs j.
Proof.
  intro H. change (apply_cop down up cs (SetHidden j b) = Ok cs') in H. rewrite apply_core in H.
  cbn [core] in H. apply scwas_same in H as (H1 & H2 & H3). repeat split; assumption.
Qed.

Theorem set_style_same cs j s cs' :
  set_column_style down up cs j s = Ok cs' ->
  style_at cs' j = Some s /\ width_at up cs' j = width_at up cs j /\ hidden_at cs' j = hidden_at cs j.
Proof.
  intro H. change (apply_cop down up cs (SetStyle j s) = Ok cs') in H. rewrite apply_core in H.
  cbn [core] in H. apply scwas_same in H as (H1 & H2 & H3). repeat split; assumption.
Qed.

Theorem del_style_same cs j cs' :
  wf cs -> delete_column_style cs j = Ok cs' ->
  style_at cs' j = None /\ width_at up cs' j = width_at up cs j /\ hidden_at cs' j = hidden_at cs j.
Proof.
  intros Hwf H. unfold delete_column_style in H.
  destruct (is_valid_column_number j); [|discriminate]. injection H as <-.
  unfold style_at, width_at, hidden_at. rewrite (find_unstyle_same 0 j cs Hwf).
  destruct (find_col j cs) as [c|]; [|repeat split; reflexivity].
  destruct (c_custom c) eqn:Ecu; destruct (c_hidden c) eqn:Eh;
    cbn [orb c_style c_custom c_width c_hidden]; repeat split; reflexivity.
Qed.

(* ---- well-formedness is preserved by every operation (reused by C27) ---------------------------- *)
Theorem apply_cop_wf cs o cs' : wf cs -> apply_cop down up cs o = Ok cs' -> wf cs'.
Proof.
  intro Hwf. rewrite apply_core. destruct o as [j w|j b|j s|j]; cbn [core]; intro H;
    try (eapply scwas_wf; eassumption).
  unfold delete_column_style in H. destruct (is_valid_column_number j); [|discriminate].
  injection H as <-. apply unstyle_wf. exact Hwf.
Qed.

Theorem step_cop_wf cs o : wf cs -> wf (step_cop down up cs o).
Proof.
  intro Hwf. unfold step_cop. destruct (apply_cop down up cs o) as [cs'| |] eqn:E; try exact Hwf.
  eapply apply_cop_wf; eassumption.
Qed.

Theorem run_cops_wf cs os : wf cs -> wf (run_cops down up cs os).
Proof.
  unfold run_cops. revert cs; induction os as [|o r IH]; intros cs Hwf; cbn [fold_left]; [exact Hwf|].
  apply IH. apply step_cop_wf. exact Hwf.
Qed.

End Ops.

(* ------------------------------------------------------------------------------------------ *)
(* histories: the layout behaves as three independent total maps                                *)

Section History.
Variables down up : Z -> Z.
Hypothesis up_down : forall w, up (down w) = w.

Lemma agrees_abs_of cs : agrees up cs (abs_of (width_at up) cs).
Proof. intro j. cbn [abs_of a_width a_hidden a_style]. repeat split; reflexivity. Qed.

Lemma upd_same {A} (f : Z -> A) j v : upd f j v j = v.
Proof. unfold upd. rewrite Z.eqb_refl. reflexivity. Qed.

Lemma upd_other {A} (f : Z -> A) j v k : k <> j -> upd f j v k = f k.
Proof. unfold upd. intro H. apply Z.eqb_neq in H. rewrite H. reflexivity. Qed.

(* one step is simulated by the point update *)
Theorem sim_step cs a o :
  wf cs -> agrees up cs a -> agrees up (step_cop down up cs o) (abs_step a o).
Proof.
  intros Hwf Hag. unfold step_cop.
  destruct (apply_cop down up cs o) as [cs'| |] eqn:E.
  - (* the call succeeded *)
    pose proof (apply_ok_valid down up cs o cs' E) as Hv.
    intro k. destruct (Z.eq_dec k (cop_col o)) as [->|Hne].
    + pose proof E as E'. rewrite apply_core in E'.
      destruct o as [j w|j b|j s|j]; cbn [cop_col] in *; cbn [apply_cop] in E; cbn [abs_step core] in *;
        destruct (Hag j) as (G1 & G2 & G3).
      * apply scwas_ok in E' as (_ & Hw & _).
        apply (set_width_same down up up_down) in E as (H1 & H2 & H3).
        rewrite Hv. assert (w <? 0 = false) as -> by (apply Z.ltb_ge; exact Hw).
        cbn [andb negb a_width a_hidden a_style]. rewrite upd_same. repeat split; congruence.
      * apply scwas_ok in E' as (_ & Hw & _).
        apply (set_hidden_same down up up_down) in E as (H1 & H2 & H3).
        rewrite Hv. assert (a_width a j <? 0 = false) as -> by (apply Z.ltb_ge; rewrite <- G1; exact Hw).
        cbn [andb negb a_width a_hidden a_style]. rewrite upd_same. repeat split; congruence.
      * apply scwas_ok in E' as (_ & Hw & _).
        apply (set_style_same down up up_down) in E as (H1 & H2 & H3).
        rewrite Hv. assert (a_width a j <? 0 = false) as -> by (apply Z.ltb_ge; rewrite <- G1; exact Hw).
        cbn [andb negb a_width a_hidden a_style]. rewrite upd_same. repeat split; congruence.
      * apply (del_style_same up cs j cs' Hwf) in E as (H1 & H2 & H3).
        rewrite Hv. cbn [a_width a_hidden a_style]. rewrite upd_same. repeat split; congruence.
    + (* another column *)
      pose proof (cop_other_columns down up cs o cs' k E Hne) as Hvw.
      apply (obs_of_view up) in Hvw as (H1 & H2 & H3 & _).
      destruct (Hag k) as (G1 & G2 & G3).
      destruct o as [j w|j b|j s|j]; cbn [cop_col] in *; cbn [abs_step];
        match goal with |- context [if ?c then _ else _] => destruct c end;
        cbn [a_width a_hidden a_style]; rewrite ?upd_other by exact Hne;
        repeat split; congruence.
  - (* the call was refused: nothing changes on either side *)
    rewrite apply_core in E.
    assert (abs_step a o = a) as ->; [|exact Hag].
    destruct o as [j w|j b|j s|j]; cbn [core abs_step] in *.
    + destruct (scwas_err down cs j w (hidden_at cs j) (style_at cs j)) as [(x & Hx)|(_ & [Hi|Hn])];
        [congruence | rewrite Hi; reflexivity |].
      apply Z.ltb_lt in Hn. rewrite Hn, andb_false_r. reflexivity.
    + destruct (scwas_err down cs j (width_at up cs j) b (style_at cs j)) as [(x & Hx)|(_ & [Hi|Hn])];
        [congruence | rewrite Hi; reflexivity |].
      destruct (Hag j) as (G1 & _). rewrite <- G1. apply Z.ltb_lt in Hn. rewrite Hn, andb_false_r. reflexivity.
    + destruct (scwas_err down cs j (width_at up cs j) (hidden_at cs j) (Some s)) as [(x & Hx)|(_ & [Hi|Hn])];
        [congruence | rewrite Hi; reflexivity |].
      destruct (Hag j) as (G1 & _). rewrite <- G1. apply Z.ltb_lt in Hn. rewrite Hn, andb_false_r. reflexivity.
    + unfold delete_column_style in E. destruct (is_valid_column_number j); [discriminate | reflexivity].
  - (* no operation panics *)
    rewrite apply_core in E. exfalso.
    destruct o as [j w|j b|j s|j]; cbn [core] in E;
      try (match type of E with set_column_width_and_style _ _ ?j ?w ?h ?s = _ =>
             destruct (scwas_err down cs j w h s) as [(x & Hx)|(Hx & _)]; congruence end).
    unfold delete_column_style in E. destruct (is_valid_column_number j); discriminate.
Qed.

(* HISTORIES *)
Theorem cols_history : cols_history_statement down up.
Proof.
  intros cs os Hwf. pose proof (agrees_abs_of cs) as Hag. revert Hag. generalize (abs_of (width_at up) cs).
  unfold run_cops. revert cs Hwf.
  induction os as [|o r IH]; intros cs Hwf a Hag; cbn [fold_left]; [exact Hag|].
  apply IH; [apply step_cop_wf; exact Hwf | apply sim_step; assumption].
Qed.

(* ---- the property in its own words ------------------------------------------------------------ *)
Lemma agrees_get cs a at' j : agrees up cs a -> get up at' cs j = aget at' a j.
Proof. intro H. destruct (H j) as (G1 & G2 & G3). destruct at'; cbn [get aget]; congruence. Qed.

Lemma abs_step_frame a o at' j' :
  (cop_col o, cop_attr o) <> (j', at') -> aget at' (abs_step a o) j' = aget at' a j'.
Proof.
  intro Hne.
  destruct o as [j w|j b|j s|j]; cbn [abs_step cop_col cop_attr] in *;
    match goal with |- context [if ?c then _ else _] => destruct c end; try reflexivity;
    destruct at'; cbn [aget a_width a_hidden a_style]; try reflexivity;
    (destruct (Z.eq_dec j' j) as [->|Hj]; [congruence | rewrite upd_other by exact Hj; reflexivity]).
Qed.

Lemma abs_step_readback cs a o cs' :
  agrees up cs a -> apply_cop down up cs o = Ok cs' ->
  aget (cop_attr o) (abs_step a o) (cop_col o) = cop_val o.
Proof.
  intros Hag E. pose proof (apply_ok_valid down up cs o cs' E) as Hv.
  rewrite apply_core in E.
  destruct o as [j w|j b|j s|j]; cbn [core cop_col cop_attr cop_val abs_step] in *;
    destruct (Hag j) as (G1 & G2 & G3).
  - apply scwas_ok in E as (_ & Hw & _). rewrite Hv.
    assert (w <? 0 = false) as -> by (apply Z.ltb_ge; exact Hw).
    cbn [andb negb aget a_width]. rewrite upd_same. reflexivity.
  - apply scwas_ok in E as (_ & Hw & _). rewrite Hv.
    assert (a_width a j <? 0 = false) as -> by (apply Z.ltb_ge; rewrite <- G1; exact Hw).
    cbn [andb negb aget a_hidden]. rewrite upd_same. reflexivity.
  - apply scwas_ok in E as (_ & Hw & _). rewrite Hv.
    assert (a_width a j <? 0 = false) as -> by (apply Z.ltb_ge; rewrite <- G1; exact Hw).
    cbn [andb negb aget a_style]. rewrite upd_same. reflexivity.
  - rewrite Hv. cbn [aget a_style]. rewrite upd_same. reflexivity.
Qed.

(* FRAME: every other (column, attribute) pair keeps its value — also when the call is refused *)
Theorem cols_frame : cols_frame_statement down up.
Proof.
  intros cs o j' at' Hwf Hne.
  pose proof (sim_step cs _ o Hwf (agrees_abs_of cs)) as Hag.
  rewrite (agrees_get _ _ at' j' Hag), abs_step_frame by exact Hne.
  symmetry. apply agrees_get. apply agrees_abs_of.
Qed.

(* READ-BACK: the pair that was set has the value that was set *)
Theorem cols_readback : cols_readback_statement down up.
Proof.
  intros cs o cs' Hwf E.
  pose proof (sim_step cs _ o Hwf (agrees_abs_of cs)) as Hag.
  unfold step_cop in Hag. rewrite E in Hag.
  rewrite (agrees_get _ _ _ _ Hag). eapply abs_step_readback; [apply agrees_abs_of | exact E].
Qed.

End History.

(* ------------------------------------------------------------------------------------------ *)
Lemma wf_b_sound lo cs : wf_from_b lo cs = true -> wf_from lo cs.
Proof.
  revert lo; induction cs as [|c r IH]; intros lo H; cbn [wf_from_b wf_from] in *; [exact I|].
  zb. repeat split; try assumption. apply IH. assumption.
Qed.

Definition idz (z : Z) : Z := z.

(* the three former witnesses of F23a/b/c now satisfy the property (regression examples) *)
Example former_witnesses_pass :
  (* a: style set inside a multi-column descriptor *)
  (exists cs', set_column_style idz idz [mkCol 2 5 5 true false None] 3 7 = Ok cs' /\
               style_at cs' 3 = Some 7 /\ style_at cs' 2 = None /\ style_at cs' 4 = None) /\
  (* b: style set on a hidden column keeps its width *)
  (exists cs', set_column_style idz idz [mkCol 3 3 45 true true None] 3 7 = Ok cs' /\
               width_at idz cs' 3 = 45 /\ hidden_at cs' 3 = true) /\
  (* c: deleting the style of a hidden column keeps it hidden, with or without custom width *)
  (exists cs', delete_column_style [mkCol 3 3 45 true true (Some 7)] 3 = Ok cs' /\
               hidden_at cs' 3 = true /\ style_at cs' 3 = None) /\
  (exists cs', delete_column_style [mkCol 2 4 5 false true (Some 7)] 3 = Ok cs' /\
               hidden_at cs' 3 = true /\ style_at cs' 3 = None /\ style_at cs' 2 = Some 7).
Proof. repeat split; eexists; repeat split; vm_compute; reflexivity. Qed.

(* non-vacuity: a history over a layout with a 4-column descriptor and a descriptor at 16384 *)
Example history_example :
  let cs := [mkCol 2 5 5 true false (Some 1); mkCol 16384 16384 20 true true None] in
  let os := [SetWidth 3 45; SetHidden 4 true; SetStyle 9 2; DelStyle 3; SetHidden 16384 false; SetStyle 3 1;
             SetStyle 4 2; DelStyle 4] in
  wf_b cs = true /\
  run_cops idz idz cs os =
    [mkCol 2 2 5 true false (Some 1); mkCol 3 3 45 true false (Some 1); mkCol 4 4 5 true true None;
     mkCol 5 5 5 true false (Some 1); mkCol 9 9 90 false false (Some 2);
     mkCol 16384 16384 20 true false None].
Proof. vm_compute. split; reflexivity. Qed.

(* corollary in the property's vocabulary *)
Theorem cols_other_columns_get down up cs o cs' j' at' :
  apply_cop down up cs o = Ok cs' -> j' <> cop_col o -> get up at' cs' j' = get up at' cs j'.
Proof.
  intros E Hne. pose proof (cop_other_columns down up cs o cs' j' E Hne) as Hv.
  apply (obs_of_view up) in Hv as (H1 & H2 & H3 & _).
  destruct at'; cbn [get]; congruence.
Qed.
