(* Sheet/Styles.v — executable model of the style pools (base/src/styles.rs: get_style_index,
   create_new_style, get_style_index_or_create, get_style; base/src/number_format.rs:
   get_default_num_fmt_id, get_num_fmt, get_new_num_fmt_index).  No proofs in this file.

   Fonts, fills, borders and alignments are abstract values with a decidable equality (Section
   variables); number formats are text looked up in the built-in table regenerated from the code
   (Generated/NumFmts_c30.v).  Vec indexing with an i32 that is negative or too large is [Panic]. *)
From IronCalc Require Import Base.Prelude Generated.NumFmts_c30.

Definition len {A} (l : list A) : Z := Z.of_nat (length l).

(* l[i] for an i32 index cast to usize: None = out of bounds *)
Fixpoint znth {A} (l : list A) (i : Z) : option A :=
  match l with
  | [] => None
  | x :: r => if i =? 0 then Some x else if i <? 0 then None else znth r (i - 1)
  end.

(* for (index, item) in l.iter().enumerate() { if item == x { return Some(index) } } None *)
Fixpoint index_from {A} (eqb : A -> A -> bool) (i : Z) (x : A) (l : list A) : option Z :=
  match l with
  | [] => None
  | y :: r => if eqb y x then Some i else index_from eqb (i + 1) x r
  end.
Definition index_of {A} (eqb : A -> A -> bool) (x : A) (l : list A) : option Z := index_from eqb 0 x l.

(* ---- number formats --------------------------------------------------------------------------- *)
Record num_fmt := mkNf { nf_id : Z; nf_code : text }.

Definition NBUILTIN : Z := len DEFAULT_NUM_FMTS.

Definition get_default_num_fmt_id (code : text) : option Z := index_of text_eqb code DEFAULT_NUM_FMTS.

Fixpoint find_nf_by_id (id : Z) (nfs : list num_fmt) : option text :=
  match nfs with
  | [] => None
  | nf :: r => if nf_id nf =? id then Some (nf_code nf) else find_nf_by_id id r
  end.

Fixpoint find_nf_by_code (code : text) (nfs : list num_fmt) : option Z :=
  match nfs with
  | [] => None
  | nf :: r => if text_eqb (nf_code nf) code then Some (nf_id nf) else find_nf_by_code code r
  end.

(* workbook formats first, then the built-in table, then DEFAULT_NUM_FMTS[0] *)
Definition get_num_fmt (id : Z) (nfs : list num_fmt) : outcome text :=
  match find_nf_by_id id nfs with
  | Some c => Ok c
  | None =>
      if id <? NBUILTIN
      then match znth DEFAULT_NUM_FMTS id with Some c => Ok c | None => Panic end
      else match znth DEFAULT_NUM_FMTS 0 with Some c => Ok c | None => Panic end
  end.

Definition id_used (id : Z) (nfs : list num_fmt) : bool := existsb (fun nf => nf_id nf =? id) nfs.

(* let mut index = len; while found { rescan }: the least id >= index that no format uses;
   every round but the last consumes one used id, so length + 1 rounds suffice *)
Fixpoint fresh_id (fuel : nat) (index : Z) (nfs : list num_fmt) : Z :=
  match fuel with
  | O => index
  | S f => if id_used index nfs then fresh_id f (index + 1) nfs else index
  end.
Definition get_new_num_fmt_index (nfs : list num_fmt) : Z := fresh_id (S (length nfs)) NBUILTIN nfs.

(* get_num_fmt_index: the built-in table first, then the workbook formats *)
Definition get_num_fmt_index (code : text) (nfs : list num_fmt) : option Z :=
  match get_default_num_fmt_id code with
  | Some i => Some i
  | None => find_nf_by_code code nfs
  end.

(* if let Some(index) = get_X_index(x) { index } else { pool.push(x.clone()); pool.len() - 1 } *)
Definition find_or_push {A} (eqb : A -> A -> bool) (x : A) (l : list A) : list A * Z :=
  match index_of eqb x l with
  | Some i => (l, i)
  | None => (l ++ [x], len l)
  end.

Definition nf_find_or_push (code : text) (nfs : list num_fmt) : list num_fmt * Z :=
  match get_num_fmt_index code nfs with
  | Some i => (nfs, i)
  | None => let i := get_new_num_fmt_index nfs in (nfs ++ [mkNf i code], i)
  end.

Section Styles.
Variables font fill border align : Type.
Variable font_eqb : font -> font -> bool.
Variable fill_eqb : fill -> fill -> bool.
Variable border_eqb : border -> border -> bool.
Variable align_eqb : align -> align -> bool.

Record style := mkStyle {
  s_align : option align; s_num_fmt : text; s_fill : fill; s_font : font; s_border : border;
  s_quote : bool }.

(* a cell_xfs record; [x_apply] packs the six apply_* flags (all false for created styles) *)
Record xf := mkXf {
  x_xf_id : Z; x_num_fmt_id : Z; x_font_id : Z; x_fill_id : Z; x_border_id : Z; x_apply : Z;
  x_quote : bool; x_align : option align }.

Record styles := mkStyles {
  st_num_fmts : list num_fmt; st_fonts : list font; st_fills : list fill;
  st_borders : list border; st_xfs : list xf }.

Definition oalign_eqb (a b : option align) : bool :=
  match a, b with Some x, Some y => align_eqb x y | None, None => true | _, _ => false end.

(* derived PartialEq of Style *)
Definition style_eqb (a b : style) : bool :=
  oalign_eqb (s_align a) (s_align b) && text_eqb (s_num_fmt a) (s_num_fmt b) &&
  fill_eqb (s_fill a) (s_fill b) && font_eqb (s_font a) (s_font b) &&
  border_eqb (s_border a) (s_border b) && Bool.eqb (s_quote a) (s_quote b).

(* Style { alignment, num_fmt: get_num_fmt(..), fill: fills[fill_id], font: fonts[font_id], border: borders[border_id], quote_prefix } *)
Definition resolve (st : styles) (x : xf) : outcome style :=
  match get_num_fmt (x_num_fmt_id x) (st_num_fmts st) with
  | Ok code =>
      match znth (st_fills st) (x_fill_id x), znth (st_fonts st) (x_font_id x),
            znth (st_borders st) (x_border_id x) with
      | Some fi, Some fo, Some bo => Ok (mkStyle (x_align x) code fi fo bo (x_quote x))
      | _, _, _ => Panic
      end
  | _ => Panic
  end.

Definition get_style (st : styles) (i : Z) : outcome style :=
  match znth (st_xfs st) i with
  | None => Err
  | Some x => resolve st x
  end.

(* get_style_index: only anonymous formats (xf_id = 0) qualify *)
Fixpoint gsi_loop (st : styles) (s : style) (i : Z) (xs : list xf) : outcome (option Z) :=
  match xs with
  | [] => Ok None
  | x :: r =>
      if negb (x_xf_id x =? 0) then gsi_loop st s (i + 1) r
      else match resolve st x with
           | Ok s' => if style_eqb s s' then Ok (Some i) else gsi_loop st s (i + 1) r
           | _ => Panic
           end
  end.
Definition get_style_index (st : styles) (s : style) : outcome (option Z) :=
  gsi_loop st s 0 (st_xfs st).

(* get_or_create_component_ids + the push of the new cell_xfs record *)
Definition create_new_style (st : styles) (s : style) : styles * Z :=
  let '(fonts, font_id) := find_or_push font_eqb (s_font s) (st_fonts st) in
  let '(fills, fill_id) := find_or_push fill_eqb (s_fill s) (st_fills st) in
  let '(borders, border_id) := find_or_push border_eqb (s_border s) (st_borders st) in
  let '(nfs, num_fmt_id) := nf_find_or_push (s_num_fmt s) (st_num_fmts st) in
  (mkStyles nfs fonts fills borders
     (st_xfs st ++ [mkXf 0 num_fmt_id font_id fill_id border_id 0 (s_quote s) (s_align s)]),
   len (st_xfs st)).

(* get_style_index_or_create *)
Definition intern (st : styles) (s : style) : outcome (styles * Z) :=
  match get_style_index st s with
  | Ok (Some i) => Ok (st, i)
  | Ok None => Ok (create_new_style st s)
  | _ => Panic
  end.

(* a history of assignments: the indices handed out, in order *)
Fixpoint intern_all (st : styles) (ss : list style) : outcome (styles * list Z) :=
  match ss with
  | [] => Ok (st, [])
  | s :: r =>
      match intern st s with
      | Ok (st1, i) =>
          match intern_all st1 r with
          | Ok (st2, is) => Ok (st2, i :: is)
          | _ => Panic
          end
      | _ => Panic
      end
  end.

(* ---- well-formed pools --------------------------------------------------------------------------- *)
Definition xf_ok (st : styles) (x : xf) : Prop :=
  0 <= x_font_id x < len (st_fonts st) /\ 0 <= x_fill_id x < len (st_fills st) /\
  0 <= x_border_id x < len (st_borders st) /\ 0 <= x_num_fmt_id x /\
  (NBUILTIN <= x_num_fmt_id x -> In (x_num_fmt_id x) (map nf_id (st_num_fmts st))).

Definition nfs_ok (nfs : list num_fmt) : Prop :=
  NoDup (map nf_id nfs) /\
  forall nf, In nf nfs -> nf_id nf < NBUILTIN -> znth DEFAULT_NUM_FMTS (nf_id nf) = Some (nf_code nf).

Definition wf_styles (st : styles) : Prop :=
  nfs_ok (st_num_fmts st) /\ Forall (xf_ok st) (st_xfs st).

(* pools only grow *)
Definition extends (st st' : styles) : Prop :=
  (exists e, st_num_fmts st' = st_num_fmts st ++ e) /\ (exists e, st_fonts st' = st_fonts st ++ e) /\
  (exists e, st_fills st' = st_fills st ++ e) /\ (exists e, st_borders st' = st_borders st ++ e) /\
  (exists e, st_xfs st' = st_xfs st ++ e).

End Styles.

Arguments mkStyle {font fill border align}.
Arguments s_align {font fill border align}.
Arguments s_num_fmt {font fill border align}.
Arguments s_fill {font fill border align}.
Arguments s_font {font fill border align}.
Arguments s_border {font fill border align}.
Arguments s_quote {font fill border align}.
Arguments mkXf {align}.
Arguments x_xf_id {align}.
Arguments x_num_fmt_id {align}.
Arguments x_font_id {align}.
Arguments x_fill_id {align}.
Arguments x_border_id {align}.
Arguments x_apply {align}.
Arguments x_quote {align}.
Arguments x_align {align}.
Arguments mkStyles {font fill border align}.
Arguments st_num_fmts {font fill border align}.
Arguments st_fonts {font fill border align}.
Arguments st_fills {font fill border align}.
Arguments st_borders {font fill border align}.
Arguments st_xfs {font fill border align}.
Arguments resolve {font fill border align}.
Arguments get_style {font fill border align}.
Arguments style_eqb {font fill border align}.
Arguments gsi_loop {font fill border align}.
Arguments get_style_index {font fill border align}.
Arguments create_new_style {font fill border align}.
Arguments intern {font fill border align}.
Arguments intern_all {font fill border align}.
Arguments xf_ok {font fill border align}.
Arguments wf_styles {font fill border align}.
Arguments extends {font fill border align}.
