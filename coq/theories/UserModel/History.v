(* UserModel/History.v — the undo/redo/replication machine of base/src/user_model
   (history.rs: History::{push,undo,redo}; common.rs: push_diff_list, undo, redo,
   flush_send_queue, apply_external_diffs; undo_redo.rs: apply_diff_list walks a diff list
   forwards, apply_undo_diff_list walks it backwards), for an ARBITRARY type of states and
   diffs. What one diff does forwards/backwards is a parameter; the per-operation content
   (is the recorded diff list faithful?) is the hypothesis [faithful], discharged operation
   by operation in UserModel/Ops*.v and checked on the implementation by the harness. *)
From Coq Require Import List.
Import ListNotations.

Section Machine.
  Variables St Df : Type.
  Variable apply unapply : Df -> St -> St.

  Definition difflist := list Df.

  (* apply_diff_list: forwards; apply_undo_diff_list: [for diff in list.iter().rev()] *)
  Definition apply_list (dl : difflist) (s : St) : St := fold_left (fun s d => apply d s) dl s.
  Definition unapply_list (dl : difflist) (s : St) : St := fold_left (fun s d => unapply d s) (rev dl) s.

  Inductive tag := TUndo | TRedo.
  Definition qentry := (tag * difflist)%type.

  Record machine := { st : St; undo_stack : list difflist; redo_stack : list difflist; queue : list qentry }.

  (* a successful operation is abstracted to its effect: the new state and the recorded diffs *)
  Inductive event := Do (s' : St) (dl : difflist) | Undo | Redo.

  Definition step (m : machine) (e : event) : machine :=
    match e with
    | Do s' dl =>           (* push_diff_list: history.push clears redo; queue gets a Redo entry *)
      {| st := s'; undo_stack := dl :: undo_stack m; redo_stack := []; queue := queue m ++ [(TRedo, dl)] |}
    | Undo =>
      match undo_stack m with
      | dl :: u => {| st := unapply_list dl (st m); undo_stack := u; redo_stack := dl :: redo_stack m;
                      queue := queue m ++ [(TUndo, dl)] |}
      | [] => m
      end
    | Redo =>
      match redo_stack m with
      | dl :: r => {| st := apply_list dl (st m); undo_stack := dl :: undo_stack m; redo_stack := r;
                      queue := queue m ++ [(TRedo, dl)] |}
      | [] => m
      end
    end.

  Definition run (m : machine) (es : list event) : machine := fold_left step es m.

  Definition can_undo (m : machine) : bool := match undo_stack m with [] => false | _ => true end.
  Definition can_redo (m : machine) : bool := match redo_stack m with [] => false | _ => true end.

  (* apply_external_diffs on a replica *)
  Definition replica_apply (r : St) (q : qentry) : St :=
    match fst q with TRedo => apply_list (snd q) r | TUndo => unapply_list (snd q) r end.
  Definition replica_batch (r : St) (batch : list qentry) : St := fold_left replica_apply batch r.

  (* ---- the abstract specification: a cursor over the list of visited states ---- *)
  (* zipper: states before the cursor (most recent first), the current one, states after *)
  Record spec := { before : list St; cur : St; after : list St }.

  Definition spec_step (sp : spec) (e : event) : spec :=
    match e with
    | Do s' _ => {| before := cur sp :: before sp; cur := s'; after := [] |}
    | Undo => match before sp with
              | b :: bs => {| before := bs; cur := b; after := cur sp :: after sp |}
              | [] => sp
              end
    | Redo => match after sp with
              | a :: ars => {| before := cur sp :: before sp; cur := a; after := ars |}
              | [] => sp
              end
    end.

  Definition spec_run (sp : spec) (es : list event) : spec := fold_left spec_step es sp.

  (* the log of the property statement and the cursor into it *)
  Definition log (sp : spec) : list St := rev (before sp) ++ cur sp :: after sp.
  Definition cursor (sp : spec) : nat := length (before sp).

  (* a recorded diff list is faithful between s and s' *)
  Definition faithful (s : St) (dl : difflist) (s' : St) : Prop :=
    apply_list dl s = s' /\ unapply_list dl s' = s.

  (* every Do event of a trace records a faithful diff list at the state where it happens *)
  Fixpoint valid (m : machine) (es : list event) : Prop :=
    match es with
    | [] => True
    | e :: es' =>
      match e with Do s' dl => faithful (st m) dl s' | _ => True end /\ valid (step m e) es'
    end.
End Machine.

Arguments Do {St Df} s' dl.
Arguments Undo {St Df}.
Arguments Redo {St Df}.
