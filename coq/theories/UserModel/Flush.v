(* UserModel/Flush.v — the outgoing queue as the code has it: [flush_send_queue] (common.rs)
   hands out everything enqueued since the previous flush and EMPTIES the queue; the caller
   ships each batch to a replica, which applies batches in the order they were flushed
   ([apply_external_diffs]) but possibly later (batches in flight). The system state is the
   primary machine, the batches flushed but not yet delivered, and the replica. *)
From Coq Require Import List.
Import ListNotations.
From IronCalc Require Import UserModel.History.

Section Flush.
  Variables St Df : Type.
  Variable apply unapply : Df -> St -> St.

  Notation machine := (machine St Df).
  Notation step := (step St Df apply unapply).
  Notation replica_batch := (replica_batch St Df apply unapply).

  (* what the network may do between two user-model calls *)
  Inductive fevent :=
  | Ev (e : event St Df)      (* a successful operation, undo or redo on the primary *)
  | Flush                     (* flush_send_queue: take the queue, empty it, send it *)
  | Deliver.                  (* the oldest batch in flight reaches the replica *)

  Record system := { prim : machine; inflight : list (list (qentry Df)); repl : St }.

  Definition clear_queue (m : machine) : machine :=
    {| st := st St Df m; undo_stack := undo_stack St Df m; redo_stack := redo_stack St Df m; queue := [] |}.

  Definition fstep (s : system) (f : fevent) : system :=
    match f with
    | Ev e => {| prim := step (prim s) e; inflight := inflight s; repl := repl s |}
    | Flush => {| prim := clear_queue (prim s); inflight := inflight s ++ [queue St Df (prim s)]; repl := repl s |}
    | Deliver => match inflight s with
                 | b :: bs => {| prim := prim s; inflight := bs; repl := replica_batch (repl s) b |}
                 | [] => s
                 end
    end.

  Definition frun (s : system) (fs : list fevent) : system := fold_left fstep fs s.

  (* the replica's state once everything in flight and everything still queued has arrived *)
  Definition settled (s : system) : St :=
    replica_batch (fold_left replica_batch (inflight s) (repl s)) (queue St Df (prim s)).

  (* nothing in flight and nothing queued: the replica is up to date *)
  Definition quiescent (s : system) : Prop := inflight s = [] /\ queue St Df (prim s) = [].

  (* every Do of the trace records a diff list whose forward replay reproduces its effect *)
  Fixpoint fvalid (s : system) (fs : list fevent) : Prop :=
    match fs with
    | [] => True
    | f :: fs' =>
      match f with Ev (Do s' dl) => apply_list St Df apply dl (st St Df (prim s)) = s' | _ => True end
      /\ fvalid (fstep s f) fs'
    end.

  Definition finit (s0 : St) : system :=
    {| prim := {| st := s0; undo_stack := []; redo_stack := []; queue := [] |}; inflight := []; repl := s0 |}.
End Flush.

Arguments Ev {St Df} e.
Arguments Flush {St Df}.
Arguments Deliver {St Df}.
