(* UserModel/Selection.v — executable model of the selection state of IronCalc's UserModel
   (base/src/user_model/ui.rs, the sheet operations of common.rs and their undo/redo arms in
   undo_redo.rs).  Models only; the proofs are in SelectionProofs.v.

   State: the list of worksheets (name, visibility, view, geometry), the selected sheet index of
   workbook view 0, the window size, and the undo / redo stacks (only what the sheet and line
   operations record).  The geometry (hidden rows / columns, pixel sizes, non-empty cells) is an
   explicit finite description per sheet; sizes are the UI-rounded pixel values that
   [ui_row_height] / [ui_column_width] return (integers, so the f64 sums of the code are exact).
   Every method returns [ROk s'] / [RErr s'] (Rust [Ok(())] / [Err(_)], with the state the code
   leaves behind, which may be partially updated), [RPanic] or [RFuel] (a fuelled loop ran out:
   never happens, see the fuel lemmas in SelectionProofs.v). *)
From IronCalc Require Import Base.Prelude Base.Dec.

(* ------------------------------------------------------------------ geometry *)

Record geom := {
  g_hrows : list Z;          (* hidden rows *)
  g_rowh  : list (Z * Z);    (* row -> stored pixel height (latest first); default 25 *)
  g_hcols : list Z;          (* hidden columns *)
  g_colw  : list (Z * Z);    (* column -> stored pixel width; default 90 *)
  g_cells : list (Z * Z)     (* non-empty cells (row, column) *)
}.
Definition geom0 : geom := {| g_hrows := []; g_rowh := []; g_hcols := []; g_colw := []; g_cells := [] |}.

Definition valid_row (r : Z) : bool := (1 <=? r) && (r <=? LAST_ROW).
Definition valid_col (c : Z) : bool := (1 <=? c) && (c <=? LAST_COLUMN).
Definition zmem (x : Z) (l : list Z) : bool := existsb (Z.eqb x) l.
Fixpoint zassoc (k : Z) (l : list (Z * Z)) (d : Z) : Z :=
  match l with [] => d | (a, b) :: t => if a =? k then b else zassoc k t d end.
Definition zremove (x : Z) (l : list Z) : list Z := filter (fun y => negb (y =? x)) l.

(* Worksheet::is_row_hidden / is_column_hidden *)
Definition is_row_hidden (g : geom) (r : Z) : outcome bool :=
  if valid_row r then Ok (zmem r (g_hrows g)) else Err.
Definition is_col_hidden (g : geom) (c : Z) : outcome bool :=
  if valid_col c then Ok (zmem c (g_hcols g)) else Err.
(* ui_row_height / ui_column_width: 0 when hidden *)
Definition row_height (g : geom) (r : Z) : outcome Z :=
  if valid_row r then Ok (if zmem r (g_hrows g) then 0 else zassoc r (g_rowh g) 25) else Err.
Definition col_width (g : geom) (c : Z) : outcome Z :=
  if valid_col c then Ok (if zmem c (g_hcols g) then 0 else zassoc c (g_colw g) 90) else Err.
Definition is_empty_cell (g : geom) (r c : Z) : outcome bool :=
  if valid_col c && valid_row r
  then Ok (negb (existsb (fun p => (fst p =? r) && (snd p =? c)) (g_cells g))) else Err.

Definition set_row_hidden (g : geom) (r : Z) (b : bool) : outcome geom :=
  if valid_row r then
    Ok {| g_hrows := if b then r :: zremove r (g_hrows g) else zremove r (g_hrows g);
          g_rowh := g_rowh g; g_hcols := g_hcols g; g_colw := g_colw g; g_cells := g_cells g |}
  else Err.
Definition set_col_hidden (g : geom) (c : Z) (b : bool) : outcome geom :=
  if valid_col c then
    Ok {| g_hrows := g_hrows g; g_rowh := g_rowh g;
          g_hcols := if b then c :: zremove c (g_hcols g) else zremove c (g_hcols g);
          g_colw := g_colw g; g_cells := g_cells g |}
  else Err.
Definition set_row_height (g : geom) (r h : Z) : outcome geom :=
  if valid_row r then
    if h <? 0 then Err else
    Ok {| g_hrows := g_hrows g; g_rowh := (r, h) :: g_rowh g; g_hcols := g_hcols g;
          g_colw := g_colw g; g_cells := g_cells g |}
  else Err.
Definition set_col_width (g : geom) (c w : Z) : outcome geom :=
  if valid_col c then
    if w <? 0 then Err else
    Ok {| g_hrows := g_hrows g; g_rowh := g_rowh g; g_hcols := g_hcols g;
          g_colw := (c, w) :: g_colw g; g_cells := g_cells g |}
  else Err.

(* ------------------------------------------------------------------ views, sheets, state *)

Record view := { v_row : Z; v_col : Z; v_r1 : Z; v_c1 : Z; v_r2 : Z; v_c2 : Z; v_top : Z; v_left : Z }.
Definition view0 : view :=
  {| v_row := 1; v_col := 1; v_r1 := 1; v_c1 := 1; v_r2 := 1; v_c2 := 1; v_top := 1; v_left := 1 |}.

Record sheet := { sh_name : text; sh_vis : bool; sh_view : view; sh_geom : geom }.

(* what the history records (Diff lists of common.rs, by shape) *)
Inductive entry :=
| ENewSheet (idx : Z) (name : text)
| EDeleteSheet (idx : Z) (name : text) (vis : bool) (g : geom)
| EDuplicate (src new : Z)
| ERename (idx : Z) (old new : text)
| EMove (from to : Z)
| ESetState (idx : Z) (newv oldv : bool)
| EOther                                             (* sheet colour, pasted styles *)
| ERowsHidden (sh : Z) (l : list (Z * bool * bool))  (* row, new, old *)
| EColsHidden (sh : Z) (l : list (Z * bool * bool))
| ERowsHeight (sh : Z) (l : list (Z * Z * Z))        (* row, new, old *)
| EColsWidth (sh : Z) (l : list (Z * Z * Z)).

Record state := {
  sheets : list sheet; sel : Z; win_w : Z; win_h : Z;
  undo_st : list entry; redo_st : list entry
}.

Inductive result := ROk (s : state) | RErr (s : state) | RPanic (s : state) | RFuel (s : state).
Definition state_of (r : result) : state :=
  match r with ROk s | RErr s | RPanic s | RFuel s => s end.

Definition nsheets (s : state) : Z := Z.of_nat (length (sheets s)).

Definition get_sheet (l : list sheet) (i : Z) : option sheet :=
  if i <? 0 then None else nth_error l (Z.to_nat i).
Fixpoint set_nth {A} (n : nat) (x : A) (l : list A) : list A :=
  match l, n with
  | [], _ => []
  | _ :: t, O => x :: t
  | a :: t, S k => a :: set_nth k x t
  end.
Fixpoint insert_at {A} (n : nat) (x : A) (l : list A) : list A :=
  match n, l with
  | O, _ => x :: l
  | S k, a :: t => a :: insert_at k x t
  | S _, [] => [x]
  end.
Fixpoint remove_at {A} (n : nat) (l : list A) : list A :=
  match l, n with
  | [], _ => []
  | _ :: t, O => t
  | a :: t, S k => a :: remove_at k t
  end.

Definition with_sheets (s : state) (l : list sheet) : state :=
  {| sheets := l; sel := sel s; win_w := win_w s; win_h := win_h s; undo_st := undo_st s; redo_st := redo_st s |}.
Definition with_sel (s : state) (i : Z) : state :=
  {| sheets := sheets s; sel := i; win_w := win_w s; win_h := win_h s; undo_st := undo_st s; redo_st := redo_st s |}.
Definition with_hist (s : state) (u r : list entry) : state :=
  {| sheets := sheets s; sel := sel s; win_w := win_w s; win_h := win_h s; undo_st := u; redo_st := r |}.
(* History::push *)
Definition push (s : state) (e : entry) : state := with_hist s (e :: undo_st s) [].

Definition set_view (sh : sheet) (v : view) : sheet :=
  {| sh_name := sh_name sh; sh_vis := sh_vis sh; sh_view := v; sh_geom := sh_geom sh |}.
Definition set_geom (sh : sheet) (g : geom) : sheet :=
  {| sh_name := sh_name sh; sh_vis := sh_vis sh; sh_view := sh_view sh; sh_geom := g |}.
Definition set_vis (sh : sheet) (b : bool) : sheet :=
  {| sh_name := sh_name sh; sh_vis := b; sh_view := sh_view sh; sh_geom := sh_geom sh |}.
Definition set_name (sh : sheet) (n : text) : sheet :=
  {| sh_name := n; sh_vis := sh_vis sh; sh_view := sh_view sh; sh_geom := sh_geom sh |}.

Definition put_sheet (s : state) (i : Z) (sh : sheet) : state :=
  with_sheets s (set_nth (Z.to_nat i) sh (sheets s)).

(* ------------------------------------------------------------------ fuelled loops *)

(* [loop p f a] iterates [f] at most [p] times; the recursion is on the binary digits of the
   fuel, so a fuel of a million costs nothing unless the iterations are actually executed.
   [Continue _] as the final answer means the fuel ran out. *)
Inductive lstep (A B : Type) := Continue (a : A) | Stop (b : B).
Arguments Continue {A B} a.
Arguments Stop {A B} b.
Fixpoint loop {A B} (p : positive) (f : A -> lstep A B) (a : A) : lstep A B :=
  match p with
  | xH => f a
  | xO q => match loop q f a with Continue a' => loop q f a' | r => r end
  | xI q => match f a with
            | Continue a1 => match loop q f a1 with Continue a2 => loop q f a2 | r => r end
            | r => r
            end
  end.
Arguments loop : simpl never.

Inductive lres := LDone (z : Z) | LErr | LFuel.
Definition lfinish {A} (r : lstep A lres) : lres := match r with Stop x => x | Continue _ => LFuel end.

(* while guard c && hid c ? { c += d } *)
Definition scan_step (hid : Z -> outcome bool) (guard : Z -> bool) (d : Z) (c : Z) : lstep Z lres :=
  if guard c then
    match hid c with
    | Ok true => Continue (c + d)
    | Ok false => Stop (LDone c)
    | _ => Stop LErr
    end
  else Stop (LDone c).
Definition scan (hid : Z -> outcome bool) (guard : Z -> bool) (d : Z) (fuel : positive) (c : Z) : lres :=
  lfinish (loop fuel (scan_step hid guard d) c).
Arguments scan : simpl never.

(* while c <= hi { acc += w c ?; c += 1 } *)
Definition sum_step (w : Z -> outcome Z) (hi : Z) (st : Z * Z) : lstep (Z * Z) lres :=
  let (c, acc) := st in
  if c <=? hi then
    match w c with Ok x => Continue (c + 1, acc + x) | _ => Stop LErr end
  else Stop (LDone acc).
Definition sum_up (w : Z -> outcome Z) (hi : Z) (fuel : positive) (c acc : Z) : lres :=
  lfinish (loop fuel (sum_step w hi) (c, acc)).
Arguments sum_up : simpl never.

(* while acc > win { acc -= w left ?; left += 1 }   (on_area_selecting) *)
Definition shrink_step (w : Z -> outcome Z) (win : Z) (st : Z * Z) : lstep (Z * Z) lres :=
  let (acc, left) := st in
  if win <? acc then
    match w left with Ok x => Continue (acc - x, left + 1) | _ => Stop LErr end
  else Stop (LDone left).
Definition shrink (w : Z -> outcome Z) (win : Z) (fuel : positive) (acc left : Z) : lres :=
  lfinish (loop fuel (shrink_step w win) (acc, left)).
Arguments shrink : simpl never.

(* while acc <= win { last += 1; acc += h last ? }   (on_page_down) *)
Definition grow_down_step (h : Z -> outcome Z) (win : Z) (st : Z * Z) : lstep (Z * Z) lres :=
  let (last, acc) := st in
  if acc <=? win then
    match h (last + 1) with Ok x => Continue (last + 1, acc + x) | _ => Stop LErr end
  else Stop (LDone last).
Definition grow_down (h : Z -> outcome Z) (win : Z) (fuel : positive) (last acc : Z) : lres :=
  lfinish (loop fuel (grow_down_step h win) (last, acc)).
Arguments grow_down : simpl never.

(* while acc <= win && first > 1 { first -= 1; acc += h first ? }   (on_page_up, edge navigation) *)
Definition grow_up_step (h : Z -> outcome Z) (win : Z) (st : Z * Z) : lstep (Z * Z) lres :=
  let (first, acc) := st in
  if (acc <=? win) && (1 <? first) then
    match h (first - 1) with Ok x => Continue (first - 1, acc + x) | _ => Stop LErr end
  else Stop (LDone first).
Definition grow_up (h : Z -> outcome Z) (win : Z) (fuel : positive) (first acc : Z) : lres :=
  lfinish (loop fuel (grow_up_step h win) (first, acc)).
Arguments grow_up : simpl never.

Definition fuel_to (a b : Z) : positive := Z.to_pos (b + 2 - a).   (* counting up from a to b *)
Definition fuel_down (a : Z) : positive := Z.to_pos (a + 1).       (* counting down from a to 1 *)

(* ------------------------------------------------------------------ view-level setters *)

Inductive vres := VOk (v : view) | VErr (v : view) | VFuel.

Definition v_set_cell (v : view) (r c : Z) : outcome view :=
  if negb (valid_col c) then Err else
  if negb (valid_row r) then Err else
  Ok {| v_row := r; v_col := c; v_r1 := r; v_c1 := c; v_r2 := r; v_c2 := c; v_top := v_top v; v_left := v_left v |}.

Definition with_range (v : view) (r1 c1 r2 c2 : Z) : view :=
  {| v_row := v_row v; v_col := v_col v; v_r1 := r1; v_c1 := c1; v_r2 := r2; v_c2 := c2;
     v_top := v_top v; v_left := v_left v |}.
Definition with_top_left (v : view) (t l : Z) : view :=
  {| v_row := v_row v; v_col := v_col v; v_r1 := v_r1 v; v_c1 := v_c1 v; v_r2 := v_r2 v; v_c2 := v_c2 v;
     v_top := t; v_left := l |}.

Definition v_set_range (v : view) (r1 c1 r2 c2 : Z) : outcome view :=
  if negb (valid_col c1) then Err else
  if negb (valid_row r1) then Err else
  if negb (valid_col c2) then Err else
  if negb (valid_row r2) then Err else
  if (r1 =? 1) && (r2 =? LAST_ROW) then
    if negb (v_col v =? c1) && negb (v_col v =? c2) then Err else Ok (with_range v r1 c1 r2 c2)
  else if (c1 =? 1) && (c2 =? LAST_COLUMN) then
    if negb (v_row v =? r1) && negb (v_row v =? r2) then Err else Ok (with_range v r1 c1 r2 c2)
  else
    if negb (v_row v =? r1) && negb (v_row v =? r2) then Err else
    if negb (v_col v =? c1) && negb (v_col v =? c2) then Err else Ok (with_range v r1 c1 r2 c2).

Definition v_set_top_left (v : view) (t l : Z) : outcome view :=
  if negb (valid_col l) then Err else
  if negb (valid_row t) then Err else Ok (with_top_left v t l).

Definition single (v : view) (r c t l : Z) : view :=
  {| v_row := r; v_col := c; v_r1 := r; v_c1 := c; v_r2 := r; v_c2 := c; v_top := t; v_left := l |}.

(* ------------------------------------------------------------------ keyboard navigation *)

Inductive dir := DUp | DDown | DLeft | DRight.
Inductive key := KUp | KDown | KLeft | KRight | KOther.

Definition arrow_view (g : geom) (ww wh : Z) (d : dir) (v : view) : vres :=
  match d with
  | DRight =>
    match scan (is_col_hidden g) (fun c => c <=? LAST_COLUMN) 1 (fuel_to (v_col v + 1) LAST_COLUMN) (v_col v + 1) with
    | LFuel => VFuel | LErr => VErr v
    | LDone nc =>
      if negb (valid_col nc) then VOk v else
      match sum_up (col_width g) nc (fuel_to (v_left v) nc) (v_left v) 0 with
      | LFuel => VFuel | LErr => VErr v
      | LDone width => VOk (single v (v_row v) nc (v_top v) (if ww <? width then v_left v + 1 else v_left v))
      end
    end
  | DLeft =>
    match scan (is_col_hidden g) (fun c => 1 <=? c) (-1) (fuel_down (v_col v - 1)) (v_col v - 1) with
    | LFuel => VFuel | LErr => VErr v
    | LDone nc =>
      if negb (valid_col nc) then VOk v else
      VOk (single v (v_row v) nc (v_top v) (if nc <? v_left v then nc else v_left v))
    end
  | DUp =>
    match scan (is_row_hidden g) (fun r => 1 <=? r) (-1) (fuel_down (v_row v - 1)) (v_row v - 1) with
    | LFuel => VFuel | LErr => VErr v
    | LDone nr =>
      if negb (valid_row nr) then VOk v else
      VOk (single v nr (v_col v) (if nr <? v_top v then nr else v_top v) (v_left v))
    end
  | DDown =>
    match scan (is_row_hidden g) (fun r => r <=? LAST_ROW) 1 (fuel_to (v_row v + 1) LAST_ROW) (v_row v + 1) with
    | LFuel => VFuel | LErr => VErr v
    | LDone nr =>
      if negb (valid_row nr) then VOk v else
      let hi := Z.min (nr + 1) LAST_ROW in
      match sum_up (row_height g) hi (fuel_to (v_top v) hi) (v_top v) 0 with
      | LFuel => VFuel | LErr => VErr v
      | LDone height => VOk (single v nr (v_col v) (if wh <? height then v_top v + 1 else v_top v) (v_left v))
      end
    end
  end.

(* i32::clamp(1, LAST_ROW) *)
Definition clamp_row (x : Z) : Z := if x <? 1 then 1 else if LAST_ROW <? x then LAST_ROW else x.

Definition page_down_view (g : geom) (wh : Z) (v : view) : vres :=
  match row_height g (v_top v) with
  | Ok h0 =>
    match grow_down (row_height g) wh (fuel_to (v_top v) (LAST_ROW + 1)) (v_top v) h0 with
    | LFuel => VFuel | LErr => VErr v
    | LDone last =>
      if negb (valid_row last) then VOk v else
      let r := clamp_row (last + (v_row v - v_top v)) in
      VOk (single v r (v_col v) last (v_left v))
    end
  | _ => VErr v
  end.

Definition page_up_view (g : geom) (wh : Z) (v : view) : vres :=
  match row_height g (v_top v) with
  | Ok h0 =>
    match grow_up (row_height g) wh (fuel_down (v_top v)) (v_top v) h0 with
    | LFuel => VFuel | LErr => VErr v
    | LDone first =>
      let r := clamp_row (first + (v_row v - v_top v)) in
      VOk (single v r (v_col v) first (v_left v))
    end
  | _ => VErr v
  end.

Definition area_selecting_view (g : geom) (ww wh : Z) (tr tc : Z) (v : view) : vres :=
  let new_left :=
    if v_col v <=? tc then
      match sum_up (col_width g) tc (fuel_to (v_left v) tc) (v_left v) 0 with
      | LDone width => shrink (col_width g) ww (fuel_to (v_left v) (LAST_COLUMN + 1)) width (v_left v)
      | r => r
      end
    else if tc <? v_left v then LDone tc else LDone (v_left v) in
  match new_left with
  | LFuel => VFuel | LErr => VErr v
  | LDone nl =>
    let new_top :=
      if v_row v <=? tr then
        match sum_up (row_height g) tr (fuel_to (v_top v) tr) (v_top v) 0 with
        | LDone height => shrink (row_height g) wh (fuel_to (v_top v) (LAST_ROW + 1)) height (v_top v)
        | r => r
        end
      else if tr <? v_top v then LDone tr else LDone (v_top v) in
    match new_top with
    | LFuel => VFuel | LErr => VErr v
    | LDone nt =>
      VOk {| v_row := v_row v; v_col := v_col v; v_r1 := v_r1 v; v_c1 := v_c1 v; v_r2 := tr; v_c2 := tc;
             v_top := nt; v_left := nl |}
    end
  end.

(* worksheet.rs: step_in_direction, walk_in_direction, navigate_to_edge_in_direction *)
Definition step_dir (r c : Z) (d : dir) : option (Z * Z) :=
  match d with
  | DUp => if r =? 1 then None else Some (r - 1, c)
  | DDown => if r =? LAST_ROW then None else Some (r + 1, c)
  | DLeft => if c =? 1 then None else Some (r, c - 1)
  | DRight => if c =? LAST_COLUMN then None else Some (r, c + 1)
  end.

Inductive wres := WDone (found : option (Z * Z)) (prev : Z * Z) | WErr | WFuel.
Definition walk_step (pred : Z -> Z -> outcome bool) (d : dir) (st : (Z * Z) * option (Z * Z))
  : lstep ((Z * Z) * option (Z * Z)) wres :=
  let (prev, cur) := st in
  match cur with
  | None => Stop (WDone None prev)
  | Some (r, c) =>
    match pred r c with
    | Ok false => Continue ((r, c), step_dir r c d)
    | Ok true => Stop (WDone (Some (r, c)) prev)
    | _ => Stop WErr
    end
  end.
Definition walk (pred : Z -> Z -> outcome bool) (d : dir) (fuel : positive) (prev : Z * Z) (cur : option (Z * Z)) : wres :=
  match loop fuel (walk_step pred d) (prev, cur) with Stop r => r | Continue _ => WFuel end.
Arguments walk : simpl never.

Definition walk_fuel : positive := Z.to_pos (LAST_ROW + 2).
Definition non_empty (g : geom) (r c : Z) : outcome bool :=
  match is_empty_cell g r c with Ok b => Ok (negb b) | Err => Err | Panic => Panic end.

Inductive nres := NDone (r c : Z) | NErr | NFuel.
Definition first_non_empty (g : geom) (r c : Z) (d : dir) : nres :=
  match walk (non_empty g) d walk_fuel (r, c) (step_dir r c d) with
  | WDone (Some (a, b)) _ => NDone a b
  | WDone None (a, b) => NDone a b
  | WErr => NErr | WFuel => NFuel
  end.
Definition navigate_to_edge (g : geom) (r c : Z) (d : dir) : nres :=
  if negb (valid_col c) || negb (valid_row r) then NErr else
  match step_dir r c d with
  | None => NDone r c
  | Some (nr, nc) =>
    match is_empty_cell g r c with
    | Ok true => first_non_empty g r c d
    | Ok false =>
      match is_empty_cell g nr nc with
      | Ok true => first_non_empty g r c d
      | Ok false =>
        match walk (is_empty_cell g) d walk_fuel (r, c) (step_dir r c d) with
        | WDone _ (a, b) => NDone a b
        | WErr => NErr | WFuel => NFuel
        end
      | _ => NErr
      end
    | _ => NErr
    end
  end.

Definition nav_edge_view (g : geom) (ww wh : Z) (d : dir) (v : view) : vres :=
  if negb (valid_row (v_row v)) || negb (valid_col (v_col v)) then VErr v else
  match navigate_to_edge g (v_row v) (v_col v) d with
  | NFuel => VFuel | NErr => VErr v
  | NDone nr nc =>
    if negb (valid_row nr) || negb (valid_col nc) then VErr v else
    if (nr =? v_row v) && (nc =? v_col v) then VOk v else
    match d with
    | DLeft | DRight =>
      if nc <? v_left v then VOk (single v nr nc (v_top v) nc) else
      match col_width g nc with
      | Ok w0 =>
        match grow_up (col_width g) ww (fuel_down nc) nc w0 with
        | LFuel => VFuel | LErr => VErr v
        | LDone c => VOk (single v nr nc (v_top v) (if v_left v <? c then c else v_left v))
        end
      | _ => VErr v
      end
    | DUp | DDown =>
      if nr <? v_top v then VOk (single v nr nc nr (v_left v)) else
      match row_height g nr with
      | Ok h0 =>
        match grow_up (row_height g) wh (fuel_down nr) nr h0 with
        | LFuel => VFuel | LErr => VErr v
        | LDone r => VOk (single v nr nc (if v_top v <? r then r else v_top v) (v_left v))
        end
      | _ => VErr v
      end
    end
  end.

(* on_expand_selected_range: the two setters it calls are the validated ones; the first may have
   been applied when the second fails ([VErr] carries the view the code leaves behind) *)
Definition finish_range (v : view) (o : outcome view) : vres :=
  match o with Ok v' => VOk v' | _ => VErr v end.
(* optional scroll, then the range *)
Definition scroll_then_range (v : view) (scroll : bool) (t l : Z) (r1 c1 r2 c2 : Z) : vres :=
  if scroll then
    match v_set_top_left v t l with
    | Ok v1 => finish_range v1 (v_set_range v1 r1 c1 r2 c2)
    | _ => VErr v
    end
  else finish_range v (v_set_range v r1 c1 r2 c2).

Definition expand_view (g : geom) (ww wh : Z) (k : key) (v : view) : vres :=
  let rs := v_r1 v in let cs := v_c1 v in let re := v_r2 v in let ce := v_c2 v in
  match k with
  | KOther => VOk v
  | KRight =>
    if (cs =? 1) && (ce =? LAST_COLUMN) then VOk v else
    if cs <? v_col v then
      match scan (is_col_hidden g) (fun c => c <? LAST_COLUMN) 1 (fuel_to (cs + 1) LAST_COLUMN) (cs + 1) with
      | LFuel => VFuel | LErr => VErr v
      | LDone nc => if negb (valid_col nc) then VOk v else finish_range v (v_set_range v rs nc re ce)
      end
    else
      match scan (is_col_hidden g) (fun c => c <? LAST_COLUMN) 1 (fuel_to (ce + 1) LAST_COLUMN) (ce + 1) with
      | LFuel => VFuel | LErr => VErr v
      | LDone nc =>
        if negb (valid_col nc) then VOk v else
        match sum_up (col_width g) nc (fuel_to (v_left v) nc) (v_left v) 0 with
        | LFuel => VFuel | LErr => VErr v
        | LDone width => scroll_then_range v (ww <? width) (v_top v) (v_left v + 1) rs cs re nc
        end
      end
  | KLeft =>
    if (cs =? 1) && (ce =? LAST_COLUMN) then VOk v else
    if v_col v <? ce then
      match scan (is_col_hidden g) (fun c => 1 <? c) (-1) (fuel_down (ce - 1)) (ce - 1) with
      | LFuel => VFuel | LErr => VErr v
      | LDone nc =>
        if negb (valid_col nc) then VOk v else
        scroll_then_range v (nc <? v_left v) (v_top v) nc rs cs re nc
      end
    else
      match scan (is_col_hidden g) (fun c => 1 <? c) (-1) (fuel_down (cs - 1)) (cs - 1) with
      | LFuel => VFuel | LErr => VErr v
      | LDone nc =>
        if negb (valid_col nc) then VOk v else
        scroll_then_range v (nc <? v_left v) (v_top v) nc rs nc re ce
      end
  | KUp =>
    if (rs =? 1) && (re =? LAST_ROW) then VOk v else
    if v_row v <? re then
      match scan (is_row_hidden g) (fun r => 1 <? r) (-1) (fuel_down (re - 1)) (re - 1) with
      | LFuel => VFuel | LErr => VErr v
      | LDone nr => if negb (valid_row nr) then VOk v else finish_range v (v_set_range v rs cs nr ce)
      end
    else
      match scan (is_row_hidden g) (fun r => 1 <? r) (-1) (fuel_down (rs - 1)) (rs - 1) with
      | LFuel => VFuel | LErr => VErr v
      | LDone nr =>
        if negb (valid_row nr) then VOk v else
        scroll_then_range v (nr <? v_top v) nr (v_left v) nr cs re ce
      end
  | KDown =>
    if (rs =? 1) && (re =? LAST_ROW) then VOk v else
    if rs <? v_row v then
      match scan (is_row_hidden g) (fun r => r <? LAST_ROW) 1 (fuel_to (rs + 1) LAST_ROW) (rs + 1) with
      | LFuel => VFuel | LErr => VErr v
      | LDone nr => if negb (valid_row nr) then VOk v else finish_range v (v_set_range v nr cs re ce)
      end
    else
      match scan (is_row_hidden g) (fun r => r <? LAST_ROW) 1 (fuel_to (re + 1) LAST_ROW) (re + 1) with
      | LFuel => VFuel | LErr => VErr v
      | LDone nr =>
        if negb (valid_row nr) then VOk v else
        match sum_up (row_height g) (nr + 1) (fuel_to (v_top v) (nr + 1)) (v_top v) 0 with
        | LFuel => VFuel | LErr => VErr v
        | LDone height => scroll_then_range v (wh <=? height) (v_top v + 1) (v_left v) rs cs nr ce
        end
      end
  end.

(* on_paste_styles: every cell of the enlarged range is styled (fails on the first off-grid cell,
   before the range is touched); [None] = nothing to iterate *)
Definition paste_view (h w : Z) (v : view) : vres :=
  let last_row := Z.max (v_r2 v) (v_r1 v + h - 1) in
  let last_col := Z.max (v_c2 v) (v_c1 v + w - 1) in
  if (valid_row (v_r1 v) && valid_col (v_c1 v) && valid_row last_row && valid_col last_col)
  then VOk (with_range v (v_r1 v) (v_c1 v) last_row last_col)
  else VErr v.

(* ------------------------------------------------------------------ sheet names *)

Definition upper (t : text) : text := map to_ascii_upper t.
Definition bad_name_char (c : Z) : bool :=
  (c =? 92) || (c =? 47) || (c =? 42) || (c =? 63) || (c =? 58) || (c =? 91) || (c =? 93).
Definition valid_sheet_name (t : text) : bool :=
  negb (Nat.eqb (length t) 0) && Nat.leb (length t) 31 && negb (existsb bad_name_char t).
Definition name_taken (l : list sheet) (n : text) : bool :=
  existsb (fun sh => text_eqb (upper (sh_name sh)) (upper n)) l.
Fixpoint index_of_name (l : list sheet) (n : text) (i : Z) : option Z :=
  match l with
  | [] => None
  | sh :: t => if text_eqb (upper (sh_name sh)) (upper n) then Some i else index_of_name t n (i + 1)
  end.

Definition SHEET : text := [83; 104; 101; 101; 116].
(* Model::new_sheet: the first "Sheet{k}" (k = 1, 2, …) that no sheet carries, case-insensitively *)
Fixpoint new_name (l : list sheet) (fuel : nat) (k : Z) : option text :=
  match fuel with
  | O => None
  | S f => let cand := SHEET ++ dec_of_Z k in
           if name_taken l cand then new_name l f (k + 1) else Some cand
  end.
(* Model::duplicate_sheet: "{base} ({k})", the base truncated so that the name fits 31 chars *)
Definition dup_candidate (src : text) (k : Z) : text :=
  let suffix := [32; 40] ++ dec_of_Z k ++ [41] in
  let base := if Nat.ltb 31 (length src + length suffix) then firstn (31 - length suffix) src else src in
  base ++ suffix.
Fixpoint dup_name (l : list sheet) (src : text) (fuel : nat) (k : Z) : option text :=
  match fuel with
  | O => None
  | S f => let cand := dup_candidate src k in
           if valid_sheet_name cand && negb (name_taken l cand) then Some cand else dup_name l src f (k + 1)
  end.

(* ------------------------------------------------------------------ Model-level sheet functions *)

Definition new_sheet_rec (n : text) : sheet := {| sh_name := n; sh_vis := true; sh_view := view0; sh_geom := geom0 |}.

(* Model::insert_sheet *)
Definition m_insert_sheet (l : list sheet) (n : text) (idx : Z) : outcome (list sheet) :=
  if negb (valid_sheet_name n) then Err else
  if name_taken l n then Err else
  if (idx <? 0) || (Z.of_nat (length l) <? idx) then Err else
  Ok (insert_at (Z.to_nat idx) (new_sheet_rec n) l).
(* Model::delete_sheet *)
Definition m_delete_sheet (l : list sheet) (idx : Z) : outcome (list sheet) :=
  if Z.of_nat (length l) =? 1 then Err else
  if (idx <? 0) || (Z.of_nat (length l) <=? idx) then Err else
  Ok (remove_at (Z.to_nat idx) l).
(* Model::move_sheet *)
Definition m_move_sheet (l : list sheet) (i j : Z) : outcome (list sheet) :=
  let n := Z.of_nat (length l) in
  if (i <? 0) || (n <=? i) then Err else
  if (j <? 0) || (n <=? j) then Err else
  if i =? j then Ok l else
  match nth_error l (Z.to_nat i) with
  | Some sh => Ok (insert_at (Z.to_nat j) sh (remove_at (Z.to_nat i) l))
  | None => Err
  end.
(* Model::rename_sheet_by_index *)
Definition m_rename (l : list sheet) (idx : Z) (n : text) : outcome (list sheet) :=
  if negb (valid_sheet_name n) then Err else
  match index_of_name l n 0 with
  | Some j => if negb (j =? idx) then Err else
              match get_sheet l idx with Some sh => Ok (set_nth (Z.to_nat idx) (set_name sh n) l) | None => Err end
  | None => match get_sheet l idx with Some sh => Ok (set_nth (Z.to_nat idx) (set_name sh n) l) | None => Err end
  end.
(* Model::duplicate_sheet: the copy (cells, sizes, visibility and the views) goes right after the source *)
Inductive dres := DDone (l : list sheet) | DErr | DFuel.
Definition m_duplicate (l : list sheet) (src : Z) : dres :=
  match get_sheet l src with
  | None => DErr
  | Some sh =>
    match dup_name l (sh_name sh) (S (length l)) 1 with
    | None => DFuel
    | Some n => DDone (insert_at (Z.to_nat (src + 1)) (set_name sh n) l)
    end
  end.
(* Model::set_sheet_state *)
Definition m_set_state (l : list sheet) (idx : Z) (b : bool) : outcome (list sheet) :=
  match get_sheet l idx with Some sh => Ok (set_nth (Z.to_nat idx) (set_vis sh b) l) | None => Err end.

(* common.rs: selected_sheet_after_move *)
Definition after_move (selected from to : Z) : Z :=
  if selected =? from then to else
  let after_remove := if from <? selected then selected - 1 else selected in
  if to <=? after_remove then after_remove + 1 else after_remove.

(* ------------------------------------------------------------------ ui.rs at the state level *)

(* set_selected_sheet *)
Definition set_selected_sheet (s : state) (i : Z) : result :=
  match get_sheet (sheets s) i with None => RErr s | Some _ => ROk (with_sel s i) end.

(* a method acting on the view of the selected sheet; [no_sheet] is what the method returns when
   the selected index has no worksheet (some return Ok(()), others Err) *)
Definition on_sel_view (s : state) (no_sheet_ok : bool) (f : sheet -> vres) : result :=
  match get_sheet (sheets s) (sel s) with
  | None => if no_sheet_ok then ROk s else RErr s
  | Some sh =>
    match f sh with
    | VOk v => ROk (put_sheet s (sel s) (set_view sh v))
    | VErr v => RErr (put_sheet s (sel s) (set_view sh v))
    | VFuel => RFuel s
    end
  end.
Definition of_outcome (v : view) (o : outcome view) : vres :=
  match o with Ok v' => VOk v' | _ => VErr v end.

(* set_selected_cell / set_selected_range / set_top_left_visible_cell validate their arguments
   before they look at the worksheet: both orders give Err and leave the state alone *)
Definition set_selected_cell (s : state) (r c : Z) : result :=
  on_sel_view s false (fun sh => of_outcome (sh_view sh) (v_set_cell (sh_view sh) r c)).
Definition set_selected_range (s : state) (r1 c1 r2 c2 : Z) : result :=
  on_sel_view s false (fun sh => of_outcome (sh_view sh) (v_set_range (sh_view sh) r1 c1 r2 c2)).
Definition set_top_left (s : state) (t l : Z) : result :=
  on_sel_view s false (fun sh => of_outcome (sh_view sh) (v_set_top_left (sh_view sh) t l)).

(* ------------------------------------------------------------------ line operations of common.rs *)

Inductive gres {A} := GDone (g : geom) (l : list A) | GErr (g : geom) | GFuel.
Arguments gres : clear implicits.

(* for line in a..=b { old = get ?; diffs.push; set ? } *)
Definition hide_step (is_hid : geom -> Z -> outcome bool) (set_hid : geom -> Z -> bool -> outcome geom)
           (b : bool) (hi : Z) (st : geom * Z * list (Z * bool * bool))
  : lstep (geom * Z * list (Z * bool * bool)) (gres (Z * bool * bool)) :=
  let '(g, c, acc) := st in
  if c <=? hi then
    match is_hid g c with
    | Ok old => match set_hid g c b with
                | Ok g' => Continue (g', c + 1, acc ++ [(c, b, old)])
                | _ => Stop (GErr g)
                end
    | _ => Stop (GErr g)
    end
  else Stop (GDone g acc).
Definition hide_lines (is_hid : geom -> Z -> outcome bool) (set_hid : geom -> Z -> bool -> outcome geom)
           (b : bool) (hi : Z) (fuel : positive) (g : geom) (c : Z) (acc : list (Z * bool * bool)) : gres (Z * bool * bool) :=
  match loop fuel (hide_step is_hid set_hid b hi) (g, c, acc) with Stop r => r | Continue _ => GFuel end.
Arguments hide_lines : simpl never.
Definition size_step (get : geom -> Z -> outcome Z) (set : geom -> Z -> Z -> outcome geom)
           (x : Z) (hi : Z) (st : geom * Z * list (Z * Z * Z))
  : lstep (geom * Z * list (Z * Z * Z)) (gres (Z * Z * Z)) :=
  let '(g, c, acc) := st in
  if c <=? hi then
    match get g c with
    | Ok old => match set g c x with
                | Ok g' => Continue (g', c + 1, acc ++ [(c, x, old)])
                | _ => Stop (GErr g)
                end
    | _ => Stop (GErr g)
    end
  else Stop (GDone g acc).
Definition size_lines (get : geom -> Z -> outcome Z) (set : geom -> Z -> Z -> outcome geom)
           (x : Z) (hi : Z) (fuel : positive) (g : geom) (c : Z) (acc : list (Z * Z * Z)) : gres (Z * Z * Z) :=
  match loop fuel (size_step get set x hi) (g, c, acc) with Stop r => r | Continue _ => GFuel end.
Arguments size_lines : simpl never.

(* "select the next visible line": while hid c ? { c += 1; if c > last { break } } *)
Definition next_visible_step (hid : Z -> outcome bool) (last : Z) (c : Z) : lstep Z lres :=
  match hid c with
  | Ok true => if last <? c + 1 then Stop (LDone (c + 1)) else Continue (c + 1)
  | Ok false => Stop (LDone c)
  | _ => Stop LErr
  end.
Definition next_visible (hid : Z -> outcome bool) (last : Z) (fuel : positive) (c : Z) : lres :=
  lfinish (loop fuel (next_visible_step hid last) c).
Arguments next_visible : simpl never.
(* while hid c ? { c -= 1; if c <= 0 { c = 1; break } } *)
Definition prev_visible_step (hid : Z -> outcome bool) (c : Z) : lstep Z lres :=
  match hid c with
  | Ok true => if c - 1 <=? 0 then Stop (LDone 1) else Continue (c - 1)
  | Ok false => Stop (LDone c)
  | _ => Stop LErr
  end.
Definition prev_visible (hid : Z -> outcome bool) (fuel : positive) (c : Z) : lres :=
  lfinish (loop fuel (prev_visible_step hid) c).
Arguments prev_visible : simpl never.

Definition pick_visible (hid : Z -> outcome bool) (last a b : Z) : lres :=
  match next_visible hid last (fuel_to (b + 1) (last + 1)) (b + 1) with
  | LDone c => if last <? c then prev_visible hid (fuel_down (a - 1)) (a - 1) else LDone c
  | r => r
  end.

(* set_columns_hidden / set_rows_hidden *)
Definition set_lines_hidden (rows : bool) (s : state) (shi a b : Z) (hid : bool) : result :=
  match get_sheet (sheets s) shi with
  | None =>
    (* the loop body fails on the first line; an empty range skips it *)
    if a <=? b then RErr s else
    if hid && (sel s =? shi) then RErr s else
    ROk (push s (if rows then ERowsHidden shi [] else EColsHidden shi []))
  | Some sh =>
    let r := if rows
             then hide_lines is_row_hidden set_row_hidden hid b (fuel_to a b) (sh_geom sh) a []
             else hide_lines is_col_hidden set_col_hidden hid b (fuel_to a b) (sh_geom sh) a [] in
    match r with
    | GFuel => RFuel s
    | GErr g => RErr (put_sheet s shi (set_geom sh g))
    | GDone g l =>
      let sh1 := set_geom sh g in
      let s1 := put_sheet s shi sh1 in
      let e := if rows then ERowsHidden shi l else EColsHidden shi l in
      if hid && (sel s =? shi) then
        match (if rows then pick_visible (is_row_hidden g) LAST_ROW a b
               else pick_visible (is_col_hidden g) LAST_COLUMN a b) with
        | LFuel => RFuel s1
        | LErr => RErr s1
        | LDone c =>
          let o1 := if rows then v_set_cell (sh_view sh1) c 1 else v_set_cell (sh_view sh1) 1 c in
          match o1 with
          | Ok v1 =>
            let s2 := put_sheet s shi (set_view sh1 v1) in
            let o2 := if rows then v_set_range v1 c 1 c LAST_COLUMN else v_set_range v1 1 c LAST_ROW c in
            match o2 with
            | Ok v2 => ROk (push (put_sheet s shi (set_view sh1 v2)) e)
            | _ => RErr s2
            end
          | _ => RErr s1
          end
        end
      else ROk (push s1 e)
    end
  end.

(* set_rows_height / set_columns_width *)
Definition set_lines_size (rows : bool) (s : state) (shi a b x : Z) : result :=
  match get_sheet (sheets s) shi with
  | None => if a <=? b then RErr s else ROk (push s (if rows then ERowsHeight shi [] else EColsWidth shi []))
  | Some sh =>
    let r := if rows
             then size_lines row_height set_row_height x b (fuel_to a b) (sh_geom sh) a []
             else size_lines col_width set_col_width x b (fuel_to a b) (sh_geom sh) a [] in
    match r with
    | GFuel => RFuel s
    | GErr g => RErr (put_sheet s shi (set_geom sh g))
    | GDone g l => ROk (push (put_sheet s shi (set_geom sh g)) (if rows then ERowsHeight shi l else EColsWidth shi l))
    end
  end.

(* on_paste_styles *)
Definition paste_styles (s : state) (h w : Z) : result :=
  if h <? 1 then RPanic s else                       (* styles[0] *)
  match get_sheet (sheets s) (sel s) with
  | None => ROk s
  | Some sh =>
    let v := sh_view sh in
    if w <? 1 then
      (* `% 0` as soon as there is a cell to style *)
      if v_c1 v <=? v_c2 v then RPanic s
      else ROk (put_sheet (push s EOther) (sel s)
                  (set_view sh (with_range v (v_r1 v) (v_c1 v) (Z.max (v_r2 v) (v_r1 v + h - 1)) (v_c1 v - 1))))
    else
      match paste_view h w v with
      | VOk v' => ROk (put_sheet (push s EOther) (sel s) (set_view sh v'))
      | _ => RErr s
      end
  end.

(* ------------------------------------------------------------------ sheet operations of common.rs *)

Definition new_sheet (s : state) : result :=
  match new_name (sheets s) (S (length (sheets s))) 1 with
  | None => RFuel s
  | Some n =>
    let l := sheets s ++ [new_sheet_rec n] in
    let idx := Z.of_nat (length l) - 1 in
    ROk (push (with_sel (with_sheets s l) idx) (ENewSheet idx n))
  end.

Definition duplicate_sheet (s : state) (i : Z) : result :=
  match m_duplicate (sheets s) i with
  | DErr => RErr s
  | DFuel => RFuel s
  | DDone l => ROk (push (with_sel (with_sheets s l) (i + 1)) (EDuplicate i (i + 1)))
  end.

(* Model::delete_sheet first (fails on the only sheet: nothing recorded, nothing changed); then the
   diff; then the selection: deleting the last sheet selects n-2, otherwise an index that would
   point past the end moves down by one *)
Definition delete_sheet (s : state) (i : Z) : result :=
  match get_sheet (sheets s) i with
  | None => RErr s
  | Some sh =>
    let n := nsheets s in
    match m_delete_sheet (sheets s) i with
    | Ok l =>
      let s1 := push (with_sheets s l) (EDeleteSheet i (sh_name sh) (sh_vis sh) (sh_geom sh)) in
      if (i =? n - 1) && (1 <? n) then ROk (with_sel s1 (n - 2))
      else if (n <=? sel s + 1) && (0 <? sel s) then ROk (with_sel s1 (sel s - 1))
      else ROk s1
    | _ => RErr s
    end
  end.

Definition rename_sheet (s : state) (i : Z) (n : text) : result :=
  match get_sheet (sheets s) i with
  | None => RErr s
  | Some sh =>
    if text_eqb (sh_name sh) n then ROk s else
    match m_rename (sheets s) i n with
    | Ok l => ROk (push (with_sheets s l) (ERename i (sh_name sh) n))
    | _ => RErr s
    end
  end.

Definition move_sheet (s : state) (i j : Z) : result :=
  let n := nsheets s in
  if (i <? 0) || (n <=? i) then RErr s else
  if (j <? 0) || (n <=? j) then RErr s else
  if i =? j then ROk s else
  match m_move_sheet (sheets s) i j with
  | Ok l =>
    let s1 := with_sheets s l in
    match set_selected_sheet s1 (after_move (sel s) i j) with
    | ROk s2 => ROk (push s2 (EMove i j))
    | r => RErr (state_of r)
    end
  | _ => RErr s
  end.

(* for index in 1..count { k = (sheet + index) % count (u32); if visible { select k; break } } *)
Fixpoint next_visible_sheet (l : list sheet) (i count : Z) (fuel : nat) (index : Z) : option Z :=
  match fuel with
  | O => None
  | S f =>
    if count <=? index then None else
    let k := ((i + index) mod 4294967296) mod count in
    match get_sheet l k with
    | Some sh => if sh_vis sh then Some k else next_visible_sheet l i count f (index + 1)
    | None => None
    end
  end.

Definition hide_sheet (s : state) (i : Z) : result :=
  let s1 := match next_visible_sheet (sheets s) i (nsheets s) (length (sheets s)) 1 with
            | Some k => with_sel s k | None => s end in
  match get_sheet (sheets s1) i with
  | None => RErr s1
  | Some sh =>
    let s2 := push s1 (ESetState i false (sh_vis sh)) in
    match m_set_state (sheets s2) i false with Ok l => ROk (with_sheets s2 l) | _ => RErr s2 end
  end.

Definition unhide_sheet (s : state) (i : Z) : result :=
  match get_sheet (sheets s) i with
  | None => RErr s
  | Some sh =>
    let s2 := push s (ESetState i true (sh_vis sh)) in
    match m_set_state (sheets s2) i true with Ok l => ROk (with_sheets s2 l) | _ => RErr s2 end
  end.

Definition set_sheet_color (s : state) (i : Z) : result :=
  match get_sheet (sheets s) i with None => RErr s | Some _ => ROk (push s EOther) end.

(* ------------------------------------------------------------------ undo_redo.rs *)

Definition lift (s : state) (o : outcome (list sheet)) (k : state -> result) : result :=
  match o with Ok l => k (with_sheets s l) | _ => RErr s end.

Fixpoint apply_hidden (rows : bool) (use_old : bool) (l : list (Z * bool * bool)) (g : geom) : outcome geom :=
  match l with
  | [] => Ok g
  | (c, nw, old) :: t =>
    match (if rows then set_row_hidden g c (if use_old then old else nw)
           else set_col_hidden g c (if use_old then old else nw)) with
    | Ok g' => apply_hidden rows use_old t g'
    | o => o
    end
  end.
Fixpoint apply_size (rows : bool) (use_old : bool) (l : list (Z * Z * Z)) (g : geom) : outcome geom :=
  match l with
  | [] => Ok g
  | (c, nw, old) :: t =>
    match (if rows then set_row_height g c (if use_old then old else nw)
           else set_col_width g c (if use_old then old else nw)) with
    | Ok g' => apply_size rows use_old t g'
    | o => o
    end
  end.
(* every diff of such a list addresses the same sheet and a line that was valid when it was
   recorded, so either the first application fails (no such sheet) or none does *)
Definition apply_lines (s : state) (shi : Z) (f : geom -> outcome geom) (empty : bool) : result :=
  if empty then ROk s else
  match get_sheet (sheets s) shi with
  | None => RErr s
  | Some sh => match f (sh_geom sh) with
               | Ok g => ROk (put_sheet s shi (set_geom sh g))
               | _ => RErr s
               end
  end.
Definition is_nil {A} (l : list A) : bool := match l with [] => true | _ => false end.

Definition apply_undo (s : state) (e : entry) : result :=
  match e with
  | ENewSheet idx _ =>
    lift s (m_delete_sheet (sheets s) idx) (fun s1 =>
      if 0 <? idx then set_selected_sheet s1 (idx - 1) else ROk s1)
  | EDuplicate src new =>
    match get_sheet (sheets s) new with
    | None => RErr s
    | Some _ => lift s (m_delete_sheet (sheets s) new) (fun s1 => set_selected_sheet s1 src)
    end
  | ERename idx old _ => lift s (m_rename (sheets s) idx old) ROk
  | EMove from to =>
    lift s (m_move_sheet (sheets s) to from) (fun s1 => set_selected_sheet s1 (after_move (sel s) to from))
  | ESetState idx _ old => lift s (m_set_state (sheets s) idx old) ROk
  | EDeleteSheet idx name vis g =>
    lift s (m_insert_sheet (sheets s) name idx) (fun s1 =>
      match get_sheet (sheets s1) idx with
      | None => RErr s1
      | Some sh => set_selected_sheet (put_sheet s1 idx (set_vis (set_geom sh g) vis)) idx
      end)
  | EOther => ROk s
  | ERowsHidden shi l => apply_lines s shi (apply_hidden true true (rev l)) (is_nil l)
  | EColsHidden shi l => apply_lines s shi (apply_hidden false true (rev l)) (is_nil l)
  | ERowsHeight shi l => apply_lines s shi (apply_size true true (rev l)) (is_nil l)
  | EColsWidth shi l => apply_lines s shi (apply_size false true (rev l)) (is_nil l)
  end.

Definition apply_redo (s : state) (e : entry) : result :=
  match e with
  | EDeleteSheet idx _ _ _ =>
    (* set_selected_sheet(sheet.saturating_sub(1)) *)
    lift s (m_delete_sheet (sheets s) idx) (fun s1 => set_selected_sheet s1 (Z.max 0 (idx - 1)))
  | ENewSheet idx name =>
    lift s (m_insert_sheet (sheets s) name idx) (fun s1 => set_selected_sheet s1 idx)
  | EDuplicate src new =>
    match m_duplicate (sheets s) src with
    | DErr => RErr s
    | DFuel => RFuel s
    | DDone l => set_selected_sheet (with_sheets s l) new
    end
  | ERename idx _ new => lift s (m_rename (sheets s) idx new) ROk
  | EMove from to =>
    lift s (m_move_sheet (sheets s) from to) (fun s1 => set_selected_sheet s1 (after_move (sel s) from to))
  | ESetState idx new _ => lift s (m_set_state (sheets s) idx new) ROk
  | EOther => ROk s
  | ERowsHidden shi l => apply_lines s shi (apply_hidden true false l) (is_nil l)
  | EColsHidden shi l => apply_lines s shi (apply_hidden false false l) (is_nil l)
  | ERowsHeight shi l => apply_lines s shi (apply_size true false l) (is_nil l)
  | EColsWidth shi l => apply_lines s shi (apply_size false false l) (is_nil l)
  end.

(* History::undo moves the entry to the redo stack before it is applied *)
Definition undo (s : state) : result :=
  match undo_st s with
  | [] => ROk s
  | e :: u => apply_undo (with_hist s u (e :: redo_st s)) e
  end.
Definition redo (s : state) : result :=
  match redo_st s with
  | [] => ROk s
  | e :: r => apply_redo (with_hist s (e :: undo_st s) r) e
  end.

(* ------------------------------------------------------------------ operations *)

Inductive op :=
| OSetSheet (i : Z) | OSetCell (r c : Z) | OSetRange (r1 c1 r2 c2 : Z) | OExpand (k : key)
| OTopLeft (t l : Z) | OWinW (w : Z) | OWinH (h : Z)
| OArrow (d : dir) | OPageDown | OPageUp | OAreaSel (r c : Z) | ONavEdge (d : dir)
| ONewSheet | ODuplicate (i : Z) | ODelete (i : Z) | ORename (i : Z) (n : text) | OMove (i j : Z)
| OHide (i : Z) | OUnhide (i : Z) | OColor (i : Z)
| OColsHidden (sh a b : Z) (hid : bool) | ORowsHidden (sh a b : Z) (hid : bool)
| ORowsHeight (sh a b h : Z) | OColsWidth (sh a b w : Z)
| OPaste (h w : Z) | OUndo | ORedo.

Definition with_win (s : state) (w h : Z) : state :=
  {| sheets := sheets s; sel := sel s; win_w := w; win_h := h; undo_st := undo_st s; redo_st := redo_st s |}.

Definition step_r (s : state) (o : op) : result :=
  match o with
  | OSetSheet i => set_selected_sheet s i
  | OSetCell r c => set_selected_cell s r c
  | OSetRange r1 c1 r2 c2 => set_selected_range s r1 c1 r2 c2
  | OExpand k => on_sel_view s true (fun sh => expand_view (sh_geom sh) (win_w s) (win_h s) k (sh_view sh))
  | OTopLeft t l => set_top_left s t l
  | OWinW w => ROk (with_win s w (win_h s))
  | OWinH h => ROk (with_win s (win_w s) h)
  | OArrow d => on_sel_view s false (fun sh => arrow_view (sh_geom sh) (win_w s) (win_h s) d (sh_view sh))
  | OPageDown => on_sel_view s false (fun sh => page_down_view (sh_geom sh) (win_h s) (sh_view sh))
  | OPageUp => on_sel_view s false (fun sh => page_up_view (sh_geom sh) (win_h s) (sh_view sh))
  | OAreaSel r c => on_sel_view s true (fun sh => area_selecting_view (sh_geom sh) (win_w s) (win_h s) r c (sh_view sh))
  | ONavEdge d => on_sel_view s false (fun sh => nav_edge_view (sh_geom sh) (win_w s) (win_h s) d (sh_view sh))
  | ONewSheet => new_sheet s
  | ODuplicate i => duplicate_sheet s i
  | ODelete i => delete_sheet s i
  | ORename i n => rename_sheet s i n
  | OMove i j => move_sheet s i j
  | OHide i => hide_sheet s i
  | OUnhide i => unhide_sheet s i
  | OColor i => set_sheet_color s i
  | OColsHidden sh a b hid => set_lines_hidden false s sh a b hid
  | ORowsHidden sh a b hid => set_lines_hidden true s sh a b hid
  | ORowsHeight sh a b h => set_lines_size true s sh a b h
  | OColsWidth sh a b w => set_lines_size false s sh a b w
  | OPaste h w => paste_styles s h w
  | OUndo => undo s
  | ORedo => redo s
  end.

Definition step (s : state) (o : op) : state := state_of (step_r s o).
Definition run (s : state) (ops : list op) : state := fold_left step ops s.

(* UserModel::new_empty: one visible sheet "Sheet1", window 800 x 600 *)
Definition mk_state (l : list sheet) : state :=
  {| sheets := l; sel := 0; win_w := 800; win_h := 600; undo_st := []; redo_st := [] |}.
Definition init : state := mk_state [new_sheet_rec (SHEET ++ [49])].

(* ------------------------------------------------------------------ the property, executable *)

Definition grid (r c : Z) : bool := valid_row r && valid_col c.
Definition in_hull (v : view) : bool :=
  (Z.min (v_r1 v) (v_r2 v) <=? v_row v) && (v_row v <=? Z.max (v_r1 v) (v_r2 v)) &&
  (Z.min (v_c1 v) (v_c2 v) <=? v_col v) && (v_col v <=? Z.max (v_c1 v) (v_c2 v)).
Definition view_ok_b (v : view) : bool :=
  grid (v_row v) (v_col v) && grid (v_r1 v) (v_c1 v) && grid (v_r2 v) (v_c2 v) && in_hull v.
(* the statement of C28: the selected sheet exists; its selected cell and range are on the grid
   and the cell is inside the range *)
Definition sel_ok_b (s : state) : bool :=
  match get_sheet (sheets s) (sel s) with Some sh => view_ok_b (sh_view sh) | None => false end.
(* … for every sheet (any of them can become the selected one) *)
Definition all_ok_b (s : state) : bool :=
  (0 <=? sel s) && (sel s <? nsheets s) && forallb (fun sh => view_ok_b (sh_view sh)) (sheets s).

(* ------------------------------------------------------------------ the known defect classes
   (the classes of delete_sheet, redo of DeleteSheet, on_page_down and on_page_up disappeared with
   the repairs 422225e, ccc73d8, 0ee396a of /repo) *)

Definition sel_view (s : state) : option view :=
  match get_sheet (sheets s) (sel s) with Some sh => Some (sh_view sh) | None => None end.
Definition hull_has (r1 c1 r2 c2 r c : Z) : bool :=
  (Z.min r1 r2 <=? r) && (r <=? Z.max r1 r2) && (Z.min c1 c2 <=? c) && (c <=? Z.max c1 c2).

(* on_area_selecting stores the target unvalidated, and anchors the range at its old start
   corner, which need not be the selected cell *)
Definition bad_area (s : state) (r c : Z) : bool :=
  match sel_view s with
  | Some v => negb (grid r c) || negb (hull_has (v_r1 v) (v_c1 v) r c (v_row v) (v_col v))
  | None => false
  end.
(* on_paste_styles rebuilds the range from its start corner assuming start <= end *)
Definition bad_paste (s : state) (h w : Z) : bool :=
  match sel_view s with
  | Some v =>
    (h <? 1) || (w <? 1) ||
    negb (hull_has (v_r1 v) (v_c1 v) (Z.max (v_r2 v) (v_r1 v + h - 1)) (Z.max (v_c2 v) (v_c1 v + w - 1)) (v_row v) (v_col v))
  | None => false
  end.

Definition bad (s : state) (o : op) : bool :=
  match o with
  | OAreaSel r c => bad_area s r c
  | OPaste h w => bad_paste s h w
  | _ => false
  end.

(* a history avoids the known classes *)
Fixpoint avoids (s : state) (ops : list op) : bool :=
  match ops with
  | [] => true
  | o :: t => negb (bad s o) && avoids (step s o) t
  end.
