(* UserModel/WalkBack.v — "repeated undo walks back through the whole history" (C01) and its
   mirror for redo (C02): after ANY valid history, k further undos put the workbook in the
   state k places before the cursor in the log, the log itself is untouched by undo and redo,
   its first entry is the initial state, so undoing [cursor] times restores the initial
   workbook exactly; k redos after that walk forward again through the same states. *)
From Coq Require Import List Lia PeanoNat.
Import ListNotations.
From IronCalc Require Import UserModel.History UserModel.HistoryProofs.

Section WalkBack.
  Variables St Df : Type.
  Variable apply unapply : Df -> St -> St.

  Notation step := (step St Df apply unapply).
  Notation run := (run St Df apply unapply).
  Notation valid := (valid St Df apply unapply).
  Notation init := (init St Df).
  Notation spec_step := (spec_step St Df).
  Notation spec_run := (spec_run St Df).
  Notation log := (log St).
  Notation cursor := (cursor St).

  Lemma valid_app es1 : forall m es2, valid m es1 -> valid (run m es1) es2 -> valid m (es1 ++ es2).
  Proof.
    induction es1 as [|e es1 IH]; intros m es2 H1 H2; [exact H2|].
    destruct H1 as [He H1]. split; [exact He|]. apply IH; assumption.
  Qed.

  Lemma valid_moves m es : Forall (fun e => e = Undo \/ e = Redo) es -> valid m es.
  Proof.
    revert m. induction es as [|e es IH]; intros m H; [exact I|].
    inversion H as [|e' es' He Hes]; subst. split; [destruct He; subst; exact I|apply IH; exact Hes].
  Qed.

  (* undo and redo never change the log, they move the cursor by one (when they can) *)
  Lemma log_undo sp : log (spec_step sp Undo) = log sp.
  Proof.
    destruct sp as [bs c ars]. destruct bs as [|b bs]; [reflexivity|].
    unfold History.log. cbn. rewrite <- app_assoc. reflexivity.
  Qed.
  Lemma log_redo sp : log (spec_step sp Redo) = log sp.
  Proof.
    destruct sp as [bs c ars]. destruct ars as [|a ars]; [reflexivity|].
    unfold History.log. cbn. rewrite <- app_assoc. reflexivity.
  Qed.
  Lemma cursor_undo sp : cursor (spec_step sp Undo) = cursor sp - 1.
  Proof. destruct sp as [bs c ars]. destruct bs as [|b bs]; cbn; lia. Qed.
  Lemma cursor_redo sp : cursor sp + 1 < length (log sp) -> cursor (spec_step sp Redo) = cursor sp + 1.
  Proof.
    destruct sp as [bs c ars]. unfold History.log, History.cursor. cbn. rewrite app_length, rev_length. cbn.
    destruct ars as [|a ars]; cbn; lia.
  Qed.
  Lemma cursor_in_log sp : cursor sp < length (log sp).
  Proof. unfold History.log, History.cursor. rewrite app_length, rev_length. cbn. lia. Qed.

  Lemma undo_k k : forall sp, log (spec_run sp (repeat Undo k)) = log sp /\
                              cursor (spec_run sp (repeat Undo k)) = cursor sp - k.
  Proof.
    induction k as [|k IH]; intro sp; [cbn; split; [reflexivity|lia]|].
    cbn [repeat History.spec_run fold_left]. destruct (IH (spec_step sp Undo)) as [Hl Hc].
    unfold History.spec_run in *. rewrite Hl, Hc, log_undo, cursor_undo. split; [reflexivity|lia].
  Qed.

  Lemma redo_k k : forall sp, cursor sp + k < length (log sp) ->
    log (spec_run sp (repeat Redo k)) = log sp /\ cursor (spec_run sp (repeat Redo k)) = cursor sp + k.
  Proof.
    induction k as [|k IH]; intros sp Hk; [cbn; split; [reflexivity|lia]|].
    cbn [repeat History.spec_run fold_left].
    assert (Hc1 : cursor (spec_step sp Redo) = cursor sp + 1) by (apply cursor_redo; lia).
    destruct (IH (spec_step sp Redo)) as [Hl Hc]; [rewrite log_redo, Hc1; lia|].
    unfold History.spec_run in *. rewrite Hl, Hc, log_redo, Hc1. split; [reflexivity|lia].
  Qed.

  (* the log of a history from [s0] always starts with [s0] *)
  Lemma log_head_step sp e s0 : (exists l, log sp = s0 :: l) -> exists l, log (spec_step sp e) = s0 :: l.
  Proof.
    intros [l Hl]. destruct e as [s' dl| |].
    - destruct (new_operation_truncates St Df sp s' dl) as [_ Hlog]. rewrite Hlog.
      unfold History.log in Hl. destruct (rev (before St sp)) as [|x r].
      + cbn in Hl |- *. inversion Hl; subst. eexists; reflexivity.
      + cbn in Hl |- *. inversion Hl; subst. eexists; reflexivity.
    - rewrite log_undo. exists l; exact Hl.
    - rewrite log_redo. exists l; exact Hl.
  Qed.
  Lemma log_head s0 es : exists l, log (spec_run (spec_init St s0) es) = s0 :: l.
  Proof.
    assert (H : forall sp, (exists l, log sp = s0 :: l) -> exists l, log (spec_run sp es) = s0 :: l).
    { induction es as [|e es IH]; intros sp Hsp; [exact Hsp|]. cbn. apply IH. apply log_head_step. exact Hsp. }
    apply H. exists []. reflexivity.
  Qed.

  (* C01: k more undos after any valid history *)
  Theorem walk_back_k s0 es k :
    valid (init s0) es ->
    let sp := spec_run (spec_init St s0) es in
    st St Df (run (run (init s0) es) (repeat Undo k)) = nth (cursor sp - k) (log sp) s0.
  Proof.
    intros Hv sp.
    assert (Hv' : valid (init s0) (es ++ repeat Undo k)).
    { apply valid_app; [exact Hv|]. apply valid_moves. apply Forall_forall. intros e He.
      apply repeat_spec in He. left; exact He. }
    destruct (cursor_semantics St Df apply unapply s0 (es ++ repeat Undo k) Hv') as [Hst _].
    unfold History.run in Hst |- *. rewrite fold_left_app in Hst. rewrite Hst.
    unfold History.spec_run. rewrite fold_left_app. fold (spec_run (spec_init St s0) es). fold sp.
    destruct (undo_k k sp) as [Hl Hc]. unfold History.spec_run in Hl, Hc. rewrite Hl, Hc. reflexivity.
  Qed.

  (* C01: undoing as many times as the cursor says restores the initial workbook *)
  Theorem walk_back_all s0 es :
    valid (init s0) es ->
    let sp := spec_run (spec_init St s0) es in
    st St Df (run (run (init s0) es) (repeat Undo (cursor sp))) = s0.
  Proof.
    intros Hv sp. rewrite (walk_back_k s0 es (cursor sp) Hv). fold sp. rewrite Nat.sub_diag.
    destruct (log_head s0 es) as [l Hl]. fold sp in Hl. rewrite Hl. reflexivity.
  Qed.

  (* C02: k undos then j <= k redos: the state k - j places before the cursor *)
  Theorem walk_back_then_forward s0 es k j :
    valid (init s0) es -> k <= cursor (spec_run (spec_init St s0) es) -> j <= k ->
    let sp := spec_run (spec_init St s0) es in
    st St Df (run (run (init s0) es) (repeat Undo k ++ repeat Redo j)) = nth (cursor sp - k + j) (log sp) s0.
  Proof.
    intros Hv Hk Hj sp. fold sp in Hk.
    assert (Hv' : valid (init s0) (es ++ repeat Undo k ++ repeat Redo j)).
    { apply valid_app; [exact Hv|]. apply valid_moves. apply Forall_forall. intros e He.
      apply in_app_or in He. destruct He as [He|He]; apply repeat_spec in He; [left|right]; exact He. }
    destruct (cursor_semantics St Df apply unapply s0 _ Hv') as [Hst _].
    unfold History.run in Hst |- *. rewrite fold_left_app in Hst. rewrite Hst.
    unfold History.spec_run. rewrite !fold_left_app. fold (spec_run (spec_init St s0) es). fold sp.
    destruct (undo_k k sp) as [Hl Hc]. unfold History.spec_run in Hl, Hc.
    pose proof (cursor_in_log sp) as Hin.
    destruct (redo_k j (fold_left spec_step (repeat Undo k) sp)) as [Hl2 Hc2]; [rewrite Hl, Hc; lia|].
    unfold History.spec_run in Hl2, Hc2. rewrite Hl2, Hc2, Hl, Hc. reflexivity.
  Qed.
End WalkBack.
