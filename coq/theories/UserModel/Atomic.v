(* UserModel/Atomic.v — the three disciplines a public UserModel method follows when its
   argument is invalid (base/src/user_model/common.rs), over the generic machine:
     Checked     validate, then mutate, then push_diff_list          (most methods)
     PushFirst   push_diff_list, then call the validating function   (paste_csv_string; until
                 the repairs also set_timezone, set_locale, set_frozen_rows_count,
                 set_frozen_columns_count and delete_sheet)
     PartialLoop mutate item by item, return on the first error, push nothing
                 (set_columns_width/hidden, set_rows_height/hidden, update_range_style,
                  set_area_with_border) *)
From Coq Require Import List.
Import ListNotations.
From IronCalc Require Import UserModel.History.

Section Atomic.
  Variables St Df : Type.
  Variable apply unapply : Df -> St -> St.
  Notation machine := (machine St Df).
  Notation step := (step St Df apply unapply).

  (* an operation on valid items: each item either is rejected or maps the state and yields diffs *)
  Variable item : Type.
  Variable valid_item : item -> St -> bool.
  Variable do_item : item -> St -> St * list Df.

  (* run the items in order, stopping at the first invalid one: (state reached, diffs so far, failed?) *)
  Fixpoint run_items (is : list item) (s : St) (acc : list Df) : St * list Df * bool :=
    match is with
    | [] => (s, acc, false)
    | i :: is' => if valid_item i s
                  then let (s', d) := do_item i s in run_items is' s' (acc ++ d)
                  else (s, acc, true)
    end.

  Definition all_valid (is : list item) (s : St) : bool :=
    let '(_, _, failed) := run_items is s [] in negb failed.

  (* Checked: nothing happens unless every item validates *)
  Definition perform_checked (is : list item) (m : machine) : machine * bool :=
    if all_valid is (st St Df m)
    then let '(s', dl, _) := run_items is (st St Df m) [] in (step m (Do s' dl), true)
    else (m, false).

  (* PartialLoop: the items before the failing one stay applied, nothing is recorded *)
  Definition perform_partial (is : list item) (m : machine) : machine * bool :=
    let '(s', dl, failed) := run_items is (st St Df m) [] in
    if failed
    then ({| st := s'; undo_stack := undo_stack St Df m; redo_stack := redo_stack St Df m; queue := queue St Df m |}, false)
    else (step m (Do s' dl), true).

  (* PushFirst: the diff is pushed (clearing the redo stack, feeding the queue), then validation fails *)
  Definition perform_push_first (is : list item) (intended : list Df) (m : machine) : machine * bool :=
    let pushed := {| st := st St Df m; undo_stack := intended :: undo_stack St Df m; redo_stack := [];
                     queue := queue St Df m ++ [(TRedo, intended)] |} in
    let '(s', _, failed) := run_items is (st St Df m) [] in
    if failed then (pushed, false)
    else ({| st := s'; undo_stack := undo_stack St Df pushed; redo_stack := []; queue := queue St Df pushed |}, true).
End Atomic.
