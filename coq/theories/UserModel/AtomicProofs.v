(* UserModel/AtomicProofs.v — a failed Checked operation changes nothing (state, undo stack,
   redo stack, outgoing queue); the other two disciplines do, with witnesses. *)
From Coq Require Import List ZArith Lia.
Import ListNotations.
From IronCalc Require Import UserModel.History UserModel.Atomic.

Section Proofs.
  Variables St Df : Type.
  Variable apply unapply : Df -> St -> St.
  Variable item : Type.
  Variable valid_item : item -> St -> bool.
  Variable do_item : item -> St -> St * list Df.

  (* C04 for the Checked discipline: for every machine state (any history, any redo list)
     and every argument, failure leaves the machine — workbook, undo stack, redo stack and
     queue — exactly as it was *)
  Theorem checked_failure_changes_nothing is (m : machine St Df) :
    snd (perform_checked St Df apply unapply item valid_item do_item is m) = false ->
    fst (perform_checked St Df apply unapply item valid_item do_item is m) = m.
  Proof.
    unfold perform_checked. destruct (all_valid St Df item valid_item do_item is (st St Df m)).
    - destruct (run_items St Df item valid_item do_item is (st St Df m) []) as [[s' dl] f]. cbn. discriminate.
    - reflexivity.
  Qed.

  (* ... and undoing afterwards behaves as if the failed call never happened *)
  Theorem checked_failure_then_undo is (m : machine St Df) :
    snd (perform_checked St Df apply unapply item valid_item do_item is m) = false ->
    step St Df apply unapply (fst (perform_checked St Df apply unapply item valid_item do_item is m)) Undo
    = step St Df apply unapply m Undo.
  Proof. intro H. rewrite (checked_failure_changes_nothing is m H). reflexivity. Qed.

  (* a successful Checked operation is one Do event of the history machine *)
  Theorem checked_success_is_do is (m : machine St Df) :
    snd (perform_checked St Df apply unapply item valid_item do_item is m) = true ->
    exists s' dl, fst (perform_checked St Df apply unapply item valid_item do_item is m)
                  = step St Df apply unapply m (Do s' dl).
  Proof.
    unfold perform_checked. destruct (all_valid St Df item valid_item do_item is (st St Df m)).
    - destruct (run_items St Df item valid_item do_item is (st St Df m) []) as [[s' dl] f]. cbn.
      intros _. exists s', dl. reflexivity.
    - cbn. discriminate.
  Qed.
End Proofs.

(* the two other disciplines violate the property; witnesses over St := Z, Df := Z * Z *)
Definition z_valid (i : Z) (_ : Z) : bool := (0 <=? i)%Z.
Definition z_do (i : Z) (s : Z) : Z * list (Z * Z) := ((s + i)%Z, [(s, (s + i)%Z)]).
Definition z_apply (d : Z * Z) (_ : Z) : Z := snd d.
Definition z_unapply (d : Z * Z) (_ : Z) : Z := fst d.
Definition m_with_redo : machine Z (Z * Z) :=
  {| st := 5%Z; undo_stack := [[(0, 5)%Z]]; redo_stack := [[(5, 9)%Z]]; queue := [] |}.

(* set_timezone-style: the call fails, yet an undo entry appears, the redo list is gone and
   the replicas are told about a change that never happened *)
Lemma push_first_refuted :
  let r := perform_push_first Z (Z * Z) Z z_valid z_do [(-1)%Z] [(5, 5)%Z] m_with_redo in
  snd r = false /\ fst r <> m_with_redo /\ redo_stack Z (Z * Z) (fst r) = [] /\
  length (undo_stack Z (Z * Z) (fst r)) = 2%nat /\ length (queue Z (Z * Z) (fst r)) = 1%nat.
Proof. vm_compute. repeat split; congruence. Qed.

(* set_columns_width-style: the call fails after the first column was changed; nothing is
   recorded, so the partial edit cannot even be undone *)
Lemma partial_loop_refuted :
  let r := perform_partial Z (Z * Z) z_apply z_unapply Z z_valid z_do [3; (-1)]%Z m_with_redo in
  snd r = false /\ st Z (Z * Z) (fst r) = 8%Z /\ st Z (Z * Z) (fst r) <> st Z (Z * Z) m_with_redo /\
  undo_stack Z (Z * Z) (fst r) = undo_stack Z (Z * Z) m_with_redo.
Proof. vm_compute. repeat split; congruence. Qed.

(* non-vacuity: the Checked discipline does fail on this input, and does succeed on another *)
Example checked_fails_somewhere :
  snd (perform_checked Z (Z * Z) z_apply z_unapply Z z_valid z_do [3; (-1)]%Z m_with_redo) = false /\
  snd (perform_checked Z (Z * Z) z_apply z_unapply Z z_valid z_do [3; 1]%Z m_with_redo) = true.
Proof. vm_compute. split; reflexivity. Qed.

(* general form of the two defective disciplines' failures, for every machine and argument *)
Section Defective.
  Variables St Df : Type.
  Variable apply unapply : Df -> St -> St.
  Variable item : Type.
  Variable valid_item : item -> St -> bool.
  Variable do_item : item -> St -> St * list Df.

  Theorem push_first_failure is intended (m : machine St Df) :
    snd (perform_push_first St Df item valid_item do_item is intended m) = false ->
    let m' := fst (perform_push_first St Df item valid_item do_item is intended m) in
    st St Df m' = st St Df m /\ undo_stack St Df m' = intended :: undo_stack St Df m /\
    redo_stack St Df m' = [] /\ queue St Df m' = queue St Df m ++ [(TRedo, intended)].
  Proof.
    unfold perform_push_first.
    destruct (run_items St Df item valid_item do_item is (st St Df m) []) as [[s' dl] f].
    destruct f; cbn; [intros _; repeat split | discriminate].
  Qed.

  Theorem partial_failure is (m : machine St Df) :
    snd (perform_partial St Df apply unapply item valid_item do_item is m) = false ->
    let m' := fst (perform_partial St Df apply unapply item valid_item do_item is m) in
    st St Df m' = fst (fst (run_items St Df item valid_item do_item is (st St Df m) [])) /\
    undo_stack St Df m' = undo_stack St Df m /\ redo_stack St Df m' = redo_stack St Df m /\
    queue St Df m' = queue St Df m.
  Proof.
    unfold perform_partial.
    destruct (run_items St Df item valid_item do_item is (st St Df m) []) as [[s' dl] f].
    destruct f; cbn; [intros _; repeat split | discriminate].
  Qed.
End Defective.
