(* UserModel/Reenter.v — model of "the content the editor shows" (Model::get_localized_cell_content,
   Cell::get_localized_text) and of typing a text into a cell (Model::set_user_input), on top of the
   recogniser of Num/Recognise.v. Models only.
   Two steps are ORACLE inputs, supplied per case by the harness and not modelled here:
   the f64 -> text step of a number cell (to_excel_precision_str with the locale's decimal
   separator, or format_number for a date-formatted cell) and the printed text of a formula. *)
From IronCalc Require Import Base.Prelude Base.Dec Num.Recognise.

Inductive cval : Type :=
| VEmpty
| VNumber (v : value)        (* description of the stored f64, see Recognise.value *)
| VBool (b : bool)
| VError (i : Z)             (* index in the order of get_error_by_name *)
| VText (s : text)
| VFormula (body : text).

Record cell : Type := { c_val : cval; c_qp : bool; c_fmt : text }.

Definition fmt_general : text := [103; 101; 110; 101; 114; 97; 108].
Definition empty_cell : cell := {| c_val := VEmpty; c_qp := false; c_fmt := fmt_general |}.

(* is_likely_date_number_format on the formats that occur here: a d, m or y token *)
Definition is_date_fmt (f : text) : bool := existsb (fun c => (c =? 100) || (c =? 109) || (c =? 121)) f.

(* Model::set_user_input on a cell whose current state is [old] *)
Definition apply_input (L : locale) (G : language) (old : cell) (v : text) : cell :=
  match user_input L G v with
  | IEmpty => {| c_val := VEmpty; c_qp := c_qp old; c_fmt := c_fmt old |}
  | IQuoted s => {| c_val := VText s; c_qp := true; c_fmt := c_fmt old |}
  | IFormula b => {| c_val := VFormula b; c_qp := false; c_fmt := c_fmt old |}
  | INumber r =>
      {| c_val := VNumber (r_value r); c_qp := false;
         c_fmt := match r_fmt r with
                  | Some f => if is_date_fmt (c_fmt old) && is_date_fmt f then c_fmt old else f
                  | None => c_fmt old
                  end |}
  | IBool b => {| c_val := VBool b; c_qp := false; c_fmt := c_fmt old |}
  | IError i => {| c_val := VError i; c_qp := false; c_fmt := c_fmt old |}
  | IText s => {| c_val := VText s; c_qp := false; c_fmt := c_fmt old |}
  end.

(* Cell::get_localized_text for the kinds that need no float *)
Definition localized_text (G : language) (oracle : text) (c : cell) : text :=
  match c_val c with
  | VEmpty => []
  | VNumber _ => oracle
  | VBool b => if b then g_true G else g_false G
  | VError i => nth (Z.to_nat i) (g_errors G) []
  | VText s => s
  | VFormula _ => oracle
  end.

(* Model::get_localized_cell_content *)
Definition display (G : language) (oracle : text) (c : cell) : text :=
  match c_val c with
  | VFormula _ => oracle
  | _ => if c_qp c then Recognise.c_quote :: localized_text G oracle c else localized_text G oracle c
  end.

Definition is_number (c : cell) : bool := match c_val c with VNumber _ => true | _ => false end.
Definition is_formula (c : cell) : bool := match c_val c with VFormula _ => true | _ => false end.
Definition is_bool (c : cell) : bool := match c_val c with VBool _ => true | _ => false end.
Definition is_error (c : cell) : bool := match c_val c with VError _ => true | _ => false end.
Definition is_text (c : cell) : bool := match c_val c with VText _ => true | _ => false end.
Definition is_empty_quoted (c : cell) : bool :=
  match c_val c with VEmpty => c_qp c | _ => false end.
