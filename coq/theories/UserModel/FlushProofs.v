(* UserModel/FlushProofs.v — with a queue that is emptied by every flush and batches that are
   delivered late (in order), the replica is always exactly "what is still on its way" behind
   the primary, and equal to it whenever nothing is on its way. *)
From Coq Require Import List.
Import ListNotations.
From IronCalc Require Import UserModel.History UserModel.HistoryProofs UserModel.Flush.

Section Proofs.
  Variables St Df : Type.
  Variable apply unapply : Df -> St -> St.

  Notation step := (step St Df apply unapply).
  Notation replica_batch := (replica_batch St Df apply unapply).
  Notation fstep := (fstep St Df apply unapply).
  Notation frun := (frun St Df apply unapply).
  Notation fvalid := (fvalid St Df apply unapply).
  Notation settled := (settled St Df apply unapply).
  Notation system := (system St Df).

  (* the invariant: the replica, once all pending entries arrive, is in the primary's state *)
  Definition Sync (s : system) : Prop := settled s = st St Df (prim St Df s).

  Lemma sync_init s0 : Sync (finit St Df s0).
  Proof. reflexivity. Qed.

  Lemma step_settles m e r :
    (match e with Do s' dl => apply_list St Df apply dl (st St Df m) = s' | _ => True end) ->
    replica_batch r (queue St Df m) = st St Df m ->
    replica_batch r (queue St Df (step m e)) = st St Df (step m e).
  Proof.
    intros Hv Hs. destruct m as [s us rs q]. cbn [queue st] in *.
    destruct e as [s' dl| |]; cbn [History.step queue st undo_stack redo_stack].
    - rewrite (replica_batch_app St Df apply unapply), Hs. exact Hv.
    - destruct us as [|dl u]; cbn [queue st]; [exact Hs|].
      rewrite (replica_batch_app St Df apply unapply), Hs. reflexivity.
    - destruct rs as [|dl r0]; cbn [queue st]; [exact Hs|].
      rewrite (replica_batch_app St Df apply unapply), Hs. reflexivity.
  Qed.

  Lemma sync_step s f :
    (match f with Ev (Do s' dl) => apply_list St Df apply dl (st St Df (prim St Df s)) = s' | _ => True end) ->
    Sync s -> Sync (fstep s f).
  Proof.
    unfold Sync, settled. intros Hv Hs. destruct s as [m fl r]. destruct f as [e| |]; cbn in *.
    - apply step_settles; [destruct e; auto|exact Hs].
    - rewrite fold_left_app. cbn. exact Hs.
    - destruct fl as [|b bs]; cbn in *; exact Hs.
  Qed.

  Theorem sync_run fs : forall s, Sync s -> fvalid s fs -> Sync (frun s fs).
  Proof.
    induction fs as [|f fs IH]; intros s Hs Hv; [exact Hs|].
    destruct Hv as [Hf Hv]. cbn [frun fold_left]. apply IH; [apply sync_step; assumption|exact Hv].
  Qed.

  (* C03 at every quiescent point of any schedule of operations, flushes and late deliveries *)
  Theorem converged_when_quiescent s0 fs :
    fvalid (finit St Df s0) fs ->
    quiescent St Df (frun (finit St Df s0) fs) ->
    repl St Df (frun (finit St Df s0) fs) = st St Df (prim St Df (frun (finit St Df s0) fs)).
  Proof.
    intros Hv [Hfl Hq]. pose proof (sync_run fs _ (sync_init s0) Hv) as Hs.
    unfold Sync, settled in Hs. rewrite Hfl, Hq in Hs. exact Hs.
  Qed.

  (* flushing and delivering everything makes any reachable system quiescent, so the replica
     can always catch up: Flush, then one Deliver per batch in flight *)
  Definition drain (s : system) : list (fevent St Df) :=
    Flush :: repeat Deliver (S (length (inflight St Df s))).

  Lemma deliver_all n : forall s, length (inflight St Df s) <= n ->
    inflight St Df (frun s (repeat Deliver n)) = [] /\
    prim St Df (frun s (repeat Deliver n)) = prim St Df s.
  Proof.
    induction n as [|n IH]; intros s Hl.
    - cbn. destruct (inflight St Df s); [auto|cbn in Hl; inversion Hl].
    - cbn [repeat frun fold_left]. destruct s as [m fl r]. destruct fl as [|b bs].
      + apply (IH {| prim := m; inflight := []; repl := r |}). cbn. apply le_0_n.
      + cbn [fstep inflight]. cbn [inflight length] in Hl.
        destruct (IH {| prim := m; inflight := bs; repl := replica_batch r b |}) as [H1 H2].
        * cbn. apply le_S_n. exact Hl.
        * split; [exact H1|exact H2].
  Qed.

  Theorem drain_quiesces s : quiescent St Df (frun s (drain s)).
  Proof.
    unfold drain. cbn [frun fold_left].
    destruct (deliver_all (S (length (inflight St Df s))) (fstep s Flush)) as [H1 H2].
    - cbn. rewrite app_length. cbn. rewrite PeanoNat.Nat.add_1_r. apply le_n.
    - split; [exact H1|]. unfold frun in H2 |- *. rewrite H2. reflexivity.
  Qed.

  Lemma fvalid_app fs1 : forall s fs2, fvalid s fs1 -> fvalid (frun s fs1) fs2 -> fvalid s (fs1 ++ fs2).
  Proof.
    induction fs1 as [|f fs1 IH]; intros s fs2 H1 H2; [exact H2|].
    destruct H1 as [Hf H1]. split; [exact Hf|]. apply IH; assumption.
  Qed.

  Lemma fvalid_drain s : fvalid s (drain s).
  Proof.
    unfold drain. split; [exact I|]. generalize (fstep s Flush) as s'.
    generalize (S (length (inflight St Df s))) as n.
    induction n as [|n IH]; intro s'; cbn; [exact I|]. split; [exact I|apply IH].
  Qed.

  (* eventual convergence: after any valid schedule, draining brings the replica to exactly the
     primary's state, which draining does not change *)
  Theorem replica_catches_up s0 fs :
    fvalid (finit St Df s0) fs ->
    let s := frun (finit St Df s0) fs in
    repl St Df (frun s (drain s)) = st St Df (prim St Df s).
  Proof.
    intros Hv s.
    assert (Hv' : fvalid (finit St Df s0) (fs ++ drain s)) by (apply fvalid_app; [exact Hv|apply fvalid_drain]).
    pose proof (converged_when_quiescent s0 (fs ++ drain s) Hv') as Hc.
    unfold frun in Hc. rewrite fold_left_app in Hc. fold (frun (finit St Df s0) fs) in Hc. fold s in Hc.
    fold (frun s (drain s)) in Hc. rewrite (Hc (drain_quiesces s)).
    unfold drain. cbn [frun fold_left].
    destruct (deliver_all (S (length (inflight St Df s))) (fstep s Flush)) as [_ H2].
    - cbn. rewrite app_length. cbn. rewrite PeanoNat.Nat.add_1_r. apply le_n.
    - unfold frun in H2. rewrite H2. reflexivity.
  Qed.
End Proofs.
