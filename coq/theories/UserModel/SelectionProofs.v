(* UserModel/SelectionProofs.v — the selection invariant of the UserModel model (C28).
   [inv]: the selected sheet index is inside the workbook, every sheet's view has its cell and
   both range corners on the grid and the cell inside the hull of the range, and the history
   stacks only hold well-formed sheet entries.  One preservation lemma per operation; the
   operations whose preservation FAILS on the current code are exactly those of the decidable
   classes [bad] of Selection.v (on_area_selecting, on_paste_styles; each refuted by a concrete
   history below). *)
From IronCalc Require Import Base.Prelude Base.Dec UserModel.Selection.

(* ------------------------------------------------------------------ the invariant *)

Definition view_ok (v : view) : Prop :=
  (1 <= v_row v <= LAST_ROW) /\ (1 <= v_col v <= LAST_COLUMN) /\
  (1 <= v_r1 v <= LAST_ROW) /\ (1 <= v_c1 v <= LAST_COLUMN) /\
  (1 <= v_r2 v <= LAST_ROW) /\ (1 <= v_c2 v <= LAST_COLUMN) /\
  (Z.min (v_r1 v) (v_r2 v) <= v_row v <= Z.max (v_r1 v) (v_r2 v)) /\
  (Z.min (v_c1 v) (v_c2 v) <= v_col v <= Z.max (v_c1 v) (v_c2 v)).

Definition sheet_ok (sh : sheet) : Prop := view_ok (sh_view sh).

Definition entry_ok (e : entry) : Prop :=
  match e with
  | ENewSheet idx _ => 1 <= idx
  | EDuplicate src new => 0 <= src /\ new = src + 1
  | _ => True
  end.

(* the statement of C28 on a state *)
Definition sel_ok (s : state) : Prop :=
  exists sh, get_sheet (sheets s) (sel s) = Some sh /\ view_ok (sh_view sh).

Definition winv (s : state) : Prop :=
  Forall sheet_ok (sheets s) /\ Forall entry_ok (undo_st s) /\ Forall entry_ok (redo_st s).
Definition inv (s : state) : Prop :=
  0 <= sel s < nsheets s /\ winv s.

Ltac unfold_consts := unfold LAST_ROW, LAST_COLUMN in *.
Ltac b2p :=
  repeat match goal with
  | H : _ && _ = true |- _ => apply andb_true_iff in H; destruct H
  | H : _ && _ = false |- _ => apply andb_false_iff in H
  | H : _ || _ = true |- _ => apply orb_true_iff in H
  | H : _ || _ = false |- _ => apply orb_false_iff in H; destruct H
  | H : negb _ = true |- _ => apply negb_true_iff in H
  | H : negb _ = false |- _ => apply negb_false_iff in H
  | H : (_ <=? _) = true |- _ => apply Z.leb_le in H
  | H : (_ <=? _) = false |- _ => apply Z.leb_gt in H
  | H : (_ <? _) = true |- _ => apply Z.ltb_lt in H
  | H : (_ <? _) = false |- _ => apply Z.ltb_ge in H
  | H : (_ =? _) = true |- _ => apply Z.eqb_eq in H
  | H : (_ =? _) = false |- _ => apply Z.eqb_neq in H
  end.

Lemma view_ok_b_iff v : view_ok_b v = true <-> view_ok v.
Proof.
  unfold view_ok_b, view_ok, grid, in_hull, valid_row, valid_col. split.
  - intro H. b2p. lia.
  - intro H. repeat (apply andb_true_iff; split); try apply Z.leb_le; lia.
Qed.

(* ------------------------------------------------------------------ lists *)

Lemma get_sheet_Some l i sh : get_sheet l i = Some sh -> 0 <= i < Z.of_nat (length l) /\ In sh l.
Proof.
  unfold get_sheet. destruct (i <? 0) eqn:E; [discriminate|]. b2p. intro H. split.
  - assert (Hn := proj1 (nth_error_Some l (Z.to_nat i))). rewrite H in Hn.
    assert (Z.to_nat i < length l)%nat by (apply Hn; discriminate). lia.
  - eapply nth_error_In; eauto.
Qed.
Lemma get_sheet_None l i : get_sheet l i = None -> i < 0 \/ Z.of_nat (length l) <= i.
Proof.
  unfold get_sheet. destruct (i <? 0) eqn:E; b2p; [lia|]. intro H.
  apply nth_error_None in H. lia.
Qed.

Lemma length_set_nth {A} n (x : A) l : length (set_nth n x l) = length l.
Proof. revert n; induction l as [|a l IH]; intros [|n]; cbn [set_nth length]; auto. Qed.
Lemma Forall_set_nth {A} (P : A -> Prop) n x l : Forall P l -> P x -> Forall P (set_nth n x l).
Proof.
  revert n; induction l as [|a l IH]; intros [|n] Hl Hx; cbn [set_nth]; auto;
    inversion Hl; subst; constructor; auto.
Qed.
Lemma length_insert_at {A} n (x : A) l : length (insert_at n x l) = S (length l).
Proof. revert l; induction n as [|n IH]; intros [|a l]; cbn [insert_at length]; auto. Qed.
Lemma Forall_insert_at {A} (P : A -> Prop) n x l : Forall P l -> P x -> Forall P (insert_at n x l).
Proof.
  revert l; induction n as [|n IH]; intros [|a l] Hl Hx; cbn [insert_at]; auto.
  inversion Hl; subst; constructor; auto.
Qed.
Lemma length_remove_at {A} n (l : list A) : (n < length l)%nat -> S (length (remove_at n l)) = length l.
Proof.
  revert n; induction l as [|a l IH]; intros [|n] H; cbn [remove_at length] in *; try lia.
  rewrite IH; lia.
Qed.
Lemma Forall_remove_at {A} (P : A -> Prop) n l : Forall P l -> Forall P (remove_at n l).
Proof.
  revert n; induction l as [|a l IH]; intros [|n] Hl; cbn [remove_at]; auto;
    inversion Hl; subst; auto.
Qed.

(* ------------------------------------------------------------------ state updates *)

Lemma view0_ok : view_ok view0.
Proof. unfold view_ok, view0; cbn; unfold_consts; lia. Qed.

Lemma winv_with_sheets s l : winv s -> Forall sheet_ok l -> winv (with_sheets s l).
Proof. unfold winv; cbn; tauto. Qed.
Lemma winv_with_sel s i : winv s -> winv (with_sel s i).
Proof. unfold winv; cbn; tauto. Qed.
Lemma winv_push s e : winv s -> entry_ok e -> winv (push s e).
Proof. unfold winv, push; cbn; intuition. Qed.
Lemma winv_put_sheet s i sh : winv s -> sheet_ok sh -> winv (put_sheet s i sh).
Proof. unfold winv, put_sheet; cbn. intros (H1 & H2 & H3) Hs. repeat split; auto. apply Forall_set_nth; auto. Qed.
Lemma nsheets_put_sheet s i sh : nsheets (put_sheet s i sh) = nsheets s.
Proof. unfold nsheets, put_sheet; cbn. rewrite length_set_nth. reflexivity. Qed.
Lemma nsheets_push s e : nsheets (push s e) = nsheets s.
Proof. reflexivity. Qed.

Lemma inv_push s e : inv s -> entry_ok e -> inv (push s e).
Proof. intros [H1 H2] He; split; [exact H1 | apply winv_push; auto]. Qed.
Lemma inv_put_sheet s i sh : inv s -> sheet_ok sh -> inv (put_sheet s i sh).
Proof.
  intros [H1 H2] Hs; split; [rewrite nsheets_put_sheet; exact H1 | apply winv_put_sheet; auto].
Qed.
Lemma inv_with_win s w h : inv s -> inv (with_win s w h).
Proof. intros [H1 H2]; split; auto. Qed.
Lemma inv_with_hist s u r : inv s -> Forall entry_ok u -> Forall entry_ok r -> inv (with_hist s u r).
Proof. intros [H1 (H2 & _ & _)] Hu Hr; split; [exact H1 | repeat split; auto]. Qed.
Lemma inv_winv s : inv s -> winv s.
Proof. intros [_ H]; exact H. Qed.

Lemma inv_sel_ok s : inv s -> sel_ok s.
Proof.
  intros [Hs (Hf & _)]. unfold sel_ok. destruct (get_sheet (sheets s) (sel s)) as [sh|] eqn:E.
  - exists sh; split; auto. apply get_sheet_Some in E as [_ Hin].
    rewrite Forall_forall in Hf. apply Hf; auto.
  - apply get_sheet_None in E. unfold nsheets in Hs. lia.
Qed.

Lemma sheet_ok_in s sh i : winv s -> get_sheet (sheets s) i = Some sh -> sheet_ok sh.
Proof.
  intros (Hf & _) E. apply get_sheet_Some in E as [_ Hin]. rewrite Forall_forall in Hf; auto.
Qed.

(* set_selected_sheet on a state whose sheet list has just been changed *)
Lemma set_selected_sheet_inv s i :
  winv s -> (get_sheet (sheets s) i = None -> 0 <= sel s < nsheets s) ->
  inv (state_of (set_selected_sheet s i)).
Proof.
  intros Hw Hn. unfold set_selected_sheet. destruct (get_sheet (sheets s) i) as [sh|] eqn:E; cbn [state_of].
  - apply get_sheet_Some in E as [Hr _]. split; [exact Hr | apply winv_with_sel; auto].
  - split; auto.
Qed.

(* ------------------------------------------------------------------ Model-level sheet functions *)

Lemma m_delete_sheet_ok l idx l' :
  m_delete_sheet l idx = Ok l' ->
  0 <= idx < Z.of_nat (length l) /\ 2 <= Z.of_nat (length l) /\ Z.of_nat (length l') = Z.of_nat (length l) - 1 /\
  (Forall sheet_ok l -> Forall sheet_ok l').
Proof.
  unfold m_delete_sheet. destruct (Z.of_nat (length l) =? 1) eqn:E1; [discriminate|].
  destruct ((idx <? 0) || (Z.of_nat (length l) <=? idx)) eqn:E; [discriminate|]. b2p.
  intro Hinv; inversion Hinv; subst; clear Hinv. split; [lia|]. split; [lia|]. split.
  - assert (Hl := length_remove_at (Z.to_nat idx) l ltac:(lia)). lia.
  - apply Forall_remove_at.
Qed.

Lemma new_sheet_rec_ok n : sheet_ok (new_sheet_rec n).
Proof. exact view0_ok. Qed.

Lemma m_insert_sheet_ok l n idx l' :
  m_insert_sheet l n idx = Ok l' ->
  0 <= idx <= Z.of_nat (length l) /\ Z.of_nat (length l') = Z.of_nat (length l) + 1 /\
  (Forall sheet_ok l -> Forall sheet_ok l').
Proof.
  unfold m_insert_sheet. destruct (negb (valid_sheet_name n)); [discriminate|].
  destruct (name_taken l n); [discriminate|].
  destruct ((idx <? 0) || (Z.of_nat (length l) <? idx)) eqn:E; [discriminate|]. b2p.
  intro Hinv; inversion Hinv; subst; clear Hinv. split; [lia|]. split.
  - rewrite length_insert_at. lia.
  - intro Hf. apply Forall_insert_at; auto. apply new_sheet_rec_ok.
Qed.

Lemma m_move_sheet_ok l i j l' :
  m_move_sheet l i j = Ok l' ->
  0 <= i < Z.of_nat (length l) /\ 0 <= j < Z.of_nat (length l) /\
  Z.of_nat (length l') = Z.of_nat (length l) /\ (Forall sheet_ok l -> Forall sheet_ok l').
Proof.
  unfold m_move_sheet.
  destruct ((i <? 0) || (Z.of_nat (length l) <=? i)) eqn:E1; [discriminate|].
  destruct ((j <? 0) || (Z.of_nat (length l) <=? j)) eqn:E2; [discriminate|]. b2p.
  destruct (i =? j).
  - intro Hinv; inversion Hinv; subst. repeat split; auto; lia.
  - destruct (nth_error l (Z.to_nat i)) as [sh|] eqn:E; [|discriminate].
    intro Hinv; inversion Hinv; subst; clear Hinv. repeat split; try lia.
    + rewrite length_insert_at. assert (Hl := length_remove_at (Z.to_nat i) l ltac:(lia)). lia.
    + intro Hf. apply Forall_insert_at; [apply Forall_remove_at; auto|].
      rewrite Forall_forall in Hf. apply Hf. eapply nth_error_In; eauto.
Qed.

Lemma set_name_ok sh n : sheet_ok sh -> sheet_ok (set_name sh n).
Proof. auto. Qed.
Lemma set_vis_ok sh b : sheet_ok sh -> sheet_ok (set_vis sh b).
Proof. auto. Qed.
Lemma set_geom_ok sh g : sheet_ok sh -> sheet_ok (set_geom sh g).
Proof. auto. Qed.

Lemma set_nth_sheet_ok l i sh sh' :
  get_sheet l i = Some sh -> sheet_ok sh' -> Forall sheet_ok l -> Forall sheet_ok (set_nth (Z.to_nat i) sh' l).
Proof. intros _ H1 H2. apply Forall_set_nth; auto. Qed.

Lemma m_rename_ok l idx n l' :
  m_rename l idx n = Ok l' ->
  Z.of_nat (length l') = Z.of_nat (length l) /\ (Forall sheet_ok l -> Forall sheet_ok l').
Proof.
  unfold m_rename. destruct (negb (valid_sheet_name n)); [discriminate|].
  assert (Hk : match get_sheet l idx with Some sh => Ok (set_nth (Z.to_nat idx) (set_name sh n) l) | None => Err end = Ok l' ->
          Z.of_nat (length l') = Z.of_nat (length l) /\ (Forall sheet_ok l -> Forall sheet_ok l')).
  { destruct (get_sheet l idx) as [sh|] eqn:E; [|discriminate].
    intro Hinv; inversion Hinv; subst; clear Hinv. rewrite length_set_nth. split; auto.
    intro Hf. apply Forall_set_nth; auto. apply set_name_ok.
    apply get_sheet_Some in E as [_ Hin]. rewrite Forall_forall in Hf; auto. }
  destruct (index_of_name l n 0) as [j|]; [destruct (negb (j =? idx)); [discriminate|]|]; exact Hk.
Qed.

Lemma m_set_state_ok l idx b l' :
  m_set_state l idx b = Ok l' ->
  Z.of_nat (length l') = Z.of_nat (length l) /\ (Forall sheet_ok l -> Forall sheet_ok l').
Proof.
  unfold m_set_state. destruct (get_sheet l idx) as [sh|] eqn:E; [|discriminate].
  intro Hinv; inversion Hinv; subst; clear Hinv. rewrite length_set_nth. split; auto.
  intro Hf. apply Forall_set_nth; auto. apply set_vis_ok.
  apply get_sheet_Some in E as [_ Hin]. rewrite Forall_forall in Hf; auto.
Qed.

Lemma m_duplicate_ok l src l' :
  m_duplicate l src = DDone l' ->
  0 <= src < Z.of_nat (length l) /\ Z.of_nat (length l') = Z.of_nat (length l) + 1 /\
  (Forall sheet_ok l -> Forall sheet_ok l').
Proof.
  unfold m_duplicate. destruct (get_sheet l src) as [sh|] eqn:E; [|discriminate].
  destruct (dup_name l (sh_name sh) (S (length l)) 1) as [n|]; [|discriminate].
  intro Hinv; inversion Hinv; subst; clear Hinv. apply get_sheet_Some in E as [Hr Hin].
  split; [exact Hr|]. split; [rewrite length_insert_at; lia|].
  intro Hf. apply Forall_insert_at; auto. apply set_name_ok. rewrite Forall_forall in Hf; auto.
Qed.

Lemma after_move_range n selected from to :
  0 <= selected < n -> 0 <= from < n -> 0 <= to < n -> 0 <= after_move selected from to < n.
Proof.
  intros H1 H2 H3. unfold after_move.
  destruct (selected =? from) eqn:E1; [lia|]. b2p.
  destruct (from <? selected) eqn:E2; b2p;
    match goal with |- context [if ?c then _ else _] => destruct c eqn:E3 end; b2p; lia.
Qed.

(* ------------------------------------------------------------------ sheet operations *)

Lemma set_selected_sheet_op_inv s i : inv s -> inv (state_of (set_selected_sheet s i)).
Proof. intros [H1 H2]. apply set_selected_sheet_inv; auto. Qed.

Lemma new_sheet_inv s : inv s -> inv (state_of (new_sheet s)).
Proof.
  intros Hi. unfold new_sheet. destruct (new_name _ _ _) as [n|]; cbn [state_of]; auto.
  destruct Hi as [Hs (Hf & Hu & Hr)]. unfold nsheets in Hs.
  split; [|repeat split]; cbn; rewrite ?app_length; cbn [length]; try (unfold nsheets; cbn; rewrite app_length; cbn [length]); try lia; auto.
  - apply Forall_app; split; auto. constructor; auto. apply new_sheet_rec_ok.
  - constructor; auto. cbn. lia.
Qed.

Lemma duplicate_sheet_inv s i : inv s -> inv (state_of (duplicate_sheet s i)).
Proof.
  intros Hi. unfold duplicate_sheet. destruct (m_duplicate (sheets s) i) as [l| |] eqn:E; cbn [state_of]; auto.
  apply m_duplicate_ok in E as (Hr & Hl & Hf). destruct Hi as [Hs (Hf0 & Hu & Hr0)].
  apply inv_push; [|cbn; lia]. split; [unfold nsheets; cbn; lia|].
  repeat split; cbn; auto.
Qed.

Lemma delete_sheet_inv s i : inv s -> inv (state_of (delete_sheet s i)).
Proof.
  intros Hi. unfold delete_sheet. destruct (get_sheet (sheets s) i) as [sh|] eqn:E; cbn [state_of]; auto.
  cbv zeta. destruct (m_delete_sheet (sheets s) i) as [l| |] eqn:Ed; cbn [state_of]; auto.
  apply m_delete_sheet_ok in Ed as (Hd1 & Hd0 & Hd2 & Hd3).
  destruct Hi as [Hs (Hf & Hu & Hr)]. unfold nsheets in *.
  assert (Hw : winv (push (with_sheets s l) (EDeleteSheet i (sh_name sh) (sh_vis sh) (sh_geom sh)))).
  { apply winv_push; [|exact I]. repeat split; cbn; auto. }
  destruct ((i =? Z.of_nat (length (sheets s)) - 1) && (1 <? Z.of_nat (length (sheets s)))) eqn:Ec; cbn [state_of].
  - b2p. split; [unfold nsheets; cbn; lia | apply winv_with_sel; auto].
  - destruct ((Z.of_nat (length (sheets s)) <=? sel s + 1) && (0 <? sel s)) eqn:Ec2; cbn [state_of].
    + b2p. split; [unfold nsheets; cbn; lia | apply winv_with_sel; auto].
    + split; [|exact Hw]. unfold nsheets; cbn. b2p.
      destruct Ec as [Ec|Ec]; destruct Ec2 as [Ec2|Ec2]; b2p; lia.
Qed.

Lemma rename_sheet_inv s i n : inv s -> inv (state_of (rename_sheet s i n)).
Proof.
  intros Hi. unfold rename_sheet. destruct (get_sheet (sheets s) i) as [sh|]; cbn [state_of]; auto.
  destruct (text_eqb (sh_name sh) n); cbn [state_of]; auto.
  destruct (m_rename (sheets s) i n) as [l| |] eqn:E; cbn [state_of]; auto.
  apply m_rename_ok in E as (Hl & Hf). destruct Hi as [Hs (Hf0 & Hu & Hr0)].
  apply inv_push; [|exact I]. split; [unfold nsheets in *; cbn; lia|]. repeat split; cbn; auto.
Qed.

Lemma move_sheet_inv s i j : inv s -> inv (state_of (move_sheet s i j)).
Proof.
  intros Hi. unfold move_sheet.
  destruct ((i <? 0) || (nsheets s <=? i)); cbn [state_of]; auto.
  destruct ((j <? 0) || (nsheets s <=? j)); cbn [state_of]; auto.
  destruct (i =? j); cbn [state_of]; auto.
  destruct (m_move_sheet (sheets s) i j) as [l| |] eqn:E; cbn [state_of]; auto.
  apply m_move_sheet_ok in E as (Hi1 & Hj1 & Hl & Hf). destruct Hi as [Hs (Hf0 & Hu & Hr0)].
  assert (Hx : inv (state_of (set_selected_sheet (with_sheets s l) (after_move (sel s) i j)))).
  { apply set_selected_sheet_inv; [repeat split; cbn; auto|].
    intros _. unfold nsheets in *. cbn. lia. }
  destruct (set_selected_sheet (with_sheets s l) (after_move (sel s) i j)) as [s2|s2|s2|s2]; cbn [state_of] in *; auto.
  apply inv_push; auto. exact I.
Qed.

Lemma next_visible_sheet_range l i count fuel index k :
  next_visible_sheet l i count fuel index = Some k -> 0 <= k < Z.of_nat (length l).
Proof.
  revert index; induction fuel as [|f IH]; intros index; cbn [next_visible_sheet]; [discriminate|].
  destruct (count <=? index); [discriminate|].
  destruct (get_sheet l (((i + index) mod 4294967296) mod count)) as [sh|] eqn:E; [|discriminate].
  destruct (sh_vis sh).
  - intro Hinv; inversion Hinv; subst. apply get_sheet_Some in E. tauto.
  - apply IH.
Qed.

Lemma hide_sheet_inv s i : inv s -> inv (state_of (hide_sheet s i)).
Proof.
  intros Hi. unfold hide_sheet.
  set (s1 := match next_visible_sheet (sheets s) i (nsheets s) (length (sheets s)) 1 with
             | Some k => with_sel s k | None => s end).
  assert (H1 : inv s1).
  { subst s1. destruct (next_visible_sheet _ _ _ _ _) as [k|] eqn:E; auto.
    apply next_visible_sheet_range in E. destruct Hi as [_ Hw]. split; [exact E | apply winv_with_sel; auto]. }
  destruct (get_sheet (sheets s1) i) as [sh|]; cbn [state_of]; auto.
  assert (H2 : inv (push s1 (ESetState i false (sh_vis sh)))) by (apply inv_push; auto; exact I).
  destruct (m_set_state _ i false) as [l| |] eqn:E; cbn [state_of]; auto.
  apply m_set_state_ok in E as (Hl & Hf). destruct H2 as [Hs (Hf0 & Hu & Hr0)].
  split; [unfold nsheets in *; cbn in *; lia|]. repeat split; cbn; auto.
Qed.

Lemma unhide_sheet_inv s i : inv s -> inv (state_of (unhide_sheet s i)).
Proof.
  intros Hi. unfold unhide_sheet.
  destruct (get_sheet (sheets s) i) as [sh|]; cbn [state_of]; auto.
  assert (H2 : inv (push s (ESetState i true (sh_vis sh)))) by (apply inv_push; auto; exact I).
  destruct (m_set_state _ i true) as [l| |] eqn:E; cbn [state_of]; auto.
  apply m_set_state_ok in E as (Hl & Hf). destruct H2 as [Hs (Hf0 & Hu & Hr0)].
  split; [unfold nsheets in *; cbn in *; lia|]. repeat split; cbn; auto.
Qed.

Lemma set_sheet_color_inv s i : inv s -> inv (state_of (set_sheet_color s i)).
Proof.
  intros Hi. unfold set_sheet_color. destruct (get_sheet (sheets s) i); cbn [state_of]; auto.
  apply inv_push; auto. exact I.
Qed.

(* ------------------------------------------------------------------ undo / redo *)

Lemma lift_inv s o k :
  inv s -> (forall l, o = Ok l -> inv (state_of (k (with_sheets s l)))) -> inv (state_of (lift s o k)).
Proof. intros Hi Hk. unfold lift. destruct o; cbn [state_of]; auto. Qed.

Lemma apply_lines_inv s shi f e : inv s -> inv (state_of (apply_lines s shi f e)).
Proof.
  intros Hi. unfold apply_lines. destruct e; cbn [state_of]; auto.
  destruct (get_sheet (sheets s) shi) as [sh|] eqn:E; cbn [state_of]; auto.
  destruct (f (sh_geom sh)); cbn [state_of]; auto.
  apply inv_put_sheet; auto. apply set_geom_ok. eapply sheet_ok_in; eauto. apply inv_winv; auto.
Qed.

Lemma apply_undo_inv s e : inv s -> entry_ok e -> inv (state_of (apply_undo s e)).
Proof.
  intros Hi He. pose proof Hi as [Hs (Hf & Hu & Hr)]. unfold nsheets in Hs.
  destruct e as [idx n|idx n vis g|src new|idx old new|from to|idx nv ov| |shi l|shi l|shi l|shi l];
    cbn [apply_undo]; try (apply apply_lines_inv; auto); auto.
  - (* NewSheet *)
    apply lift_inv; auto. intros l E. apply m_delete_sheet_ok in E as (H1 & H0 & H2 & H3).
    cbn in He. destruct (0 <? idx) eqn:Ei; b2p; [|lia].
    apply set_selected_sheet_inv; [repeat split; cbn; auto|].
    cbn. intro Hn. apply get_sheet_None in Hn. lia.
  - (* DeleteSheet *)
    apply lift_inv; auto. intros l E. apply m_insert_sheet_ok in E as (H1 & H2 & H3).
    cbn [sheets with_sheets].
    destruct (get_sheet l idx) as [sh|] eqn:Eg; cbn [state_of].
    + assert (Hsh : sheet_ok sh).
      { apply get_sheet_Some in Eg as [_ Hin]. specialize (H3 Hf). rewrite Forall_forall in H3; auto. }
      apply set_selected_sheet_inv.
      * apply winv_put_sheet; [repeat split; cbn; auto|]. apply set_vis_ok, set_geom_ok; auto.
      * intros _. rewrite nsheets_put_sheet. unfold nsheets; cbn. lia.
    + split; [unfold nsheets; cbn; lia | repeat split; cbn; auto].
  - (* DuplicateSheet *)
    cbn in He. destruct He as [He1 He2]. subst new.
    destruct (get_sheet (sheets s) (src + 1)) as [sh|] eqn:Eg; cbn [state_of]; auto.
    apply lift_inv; auto. intros l E. apply m_delete_sheet_ok in E as (H1 & H0 & H2 & H3).
    apply set_selected_sheet_inv; [repeat split; cbn; auto|].
    cbn. intro Hn. apply get_sheet_None in Hn. lia.
  - (* RenameSheet *)
    apply lift_inv; auto. intros l E. apply m_rename_ok in E as (H1 & H2). cbn [state_of].
    split; [unfold nsheets; cbn; lia | repeat split; cbn; auto].
  - (* MoveSheet *)
    apply lift_inv; auto. intros l E. apply m_move_sheet_ok in E as (H1 & H2 & H3 & H4).
    apply set_selected_sheet_inv; [repeat split; cbn; auto|].
    cbn. intro Hn. apply get_sheet_None in Hn.
    assert (Hr' := after_move_range (Z.of_nat (length (sheets s))) (sel s) to from Hs H1 H2). lia.
  - (* SetSheetState *)
    apply lift_inv; auto. intros l E. apply m_set_state_ok in E as (H1 & H2). cbn [state_of].
    split; [unfold nsheets; cbn; lia | repeat split; cbn; auto].
Qed.

Lemma apply_redo_inv s e : inv s -> entry_ok e -> inv (state_of (apply_redo s e)).
Proof.
  intros Hi He. pose proof Hi as [Hs (Hf & Hu & Hr)]. unfold nsheets in Hs.
  destruct e as [idx n|idx n vis g|src new|idx old new|from to|idx nv ov| |shi l|shi l|shi l|shi l];
    cbn [apply_redo]; try (apply apply_lines_inv; auto); auto.
  - (* NewSheet *)
    apply lift_inv; auto. intros l E. apply m_insert_sheet_ok in E as (H1 & H2 & H3).
    apply set_selected_sheet_inv; [repeat split; cbn; auto|].
    cbn. intro Hn. apply get_sheet_None in Hn. lia.
  - (* DeleteSheet *)
    apply lift_inv; auto. intros l E. apply m_delete_sheet_ok in E as (H1 & H0 & H2 & H3).
    apply set_selected_sheet_inv; [repeat split; cbn; auto|].
    cbn. intro Hn. apply get_sheet_None in Hn. lia.
  - (* DuplicateSheet *)
    cbn in He. destruct He as [He1 He2]. subst new.
    destruct (m_duplicate (sheets s) src) as [l| |] eqn:E; cbn [state_of]; auto.
    apply m_duplicate_ok in E as (H1 & H2 & H3).
    apply set_selected_sheet_inv; [repeat split; cbn; auto|].
    cbn. intro Hn. apply get_sheet_None in Hn. lia.
  - (* RenameSheet *)
    apply lift_inv; auto. intros l E. apply m_rename_ok in E as (H1 & H2). cbn [state_of].
    split; [unfold nsheets; cbn; lia | repeat split; cbn; auto].
  - (* MoveSheet *)
    apply lift_inv; auto. intros l E. apply m_move_sheet_ok in E as (H1 & H2 & H3 & H4).
    apply set_selected_sheet_inv; [repeat split; cbn; auto|].
    cbn. intro Hn. apply get_sheet_None in Hn.
    assert (Hr' := after_move_range (Z.of_nat (length (sheets s))) (sel s) from to Hs H1 H2). lia.
  - (* SetSheetState *)
    apply lift_inv; auto. intros l E. apply m_set_state_ok in E as (H1 & H2). cbn [state_of].
    split; [unfold nsheets; cbn; lia | repeat split; cbn; auto].
Qed.

Lemma undo_inv s : inv s -> inv (state_of (undo s)).
Proof.
  intros Hi. unfold undo. destruct (undo_st s) as [|e u] eqn:E; cbn [state_of]; auto.
  pose proof Hi as [Hs (Hf & Hu & Hr)]. rewrite E in Hu. inversion Hu; subst.
  apply apply_undo_inv; auto. apply inv_with_hist; auto.
Qed.

Lemma redo_inv s : inv s -> inv (state_of (redo s)).
Proof.
  intros Hi. unfold redo. destruct (redo_st s) as [|e r] eqn:E; cbn [state_of]; auto.
  pose proof Hi as [Hs (Hf & Hu & Hr)]. rewrite E in Hr. inversion Hr; subst.
  apply apply_redo_inv; auto. apply inv_with_hist; auto.
Qed.

(* ------------------------------------------------------------------ loops *)

Lemma loop_xH {A B} (f : A -> lstep A B) a : loop xH f a = f a.
Proof. reflexivity. Qed.
Lemma loop_xO {A B} q (f : A -> lstep A B) a :
  loop (xO q) f a = match loop q f a with Continue a' => loop q f a' | r => r end.
Proof. reflexivity. Qed.
Lemma loop_xI {A B} q (f : A -> lstep A B) a :
  loop (xI q) f a = match f a with
                    | Continue a1 => match loop q f a1 with Continue a2 => loop q f a2 | r => r end
                    | r => r end.
Proof. reflexivity. Qed.

(* an invariant of the loop state holds at the exit *)
Lemma loop_inv {A B} (I : A -> Prop) (Q : B -> Prop) (f : A -> lstep A B) :
  (forall a, I a -> match f a with Continue a' => I a' | Stop b => Q b end) ->
  forall p a, I a -> match loop p f a with Continue a' => I a' | Stop b => Q b end.
Proof.
  intros Hf. induction p as [q IH|q IH|]; intros a Ha.
  - rewrite loop_xI. pose proof (Hf a Ha) as H1. destruct (f a) as [a1|b]; auto.
    pose proof (IH a1 H1) as H2. destruct (loop q f a1) as [a2|b]; auto. apply IH; exact H2.
  - rewrite loop_xO. pose proof (IH a Ha) as H2. destruct (loop q f a) as [a2|b]; auto. apply IH; exact H2.
  - rewrite loop_xH. apply Hf; auto.
Qed.

Lemma grow_down_ge h win fuel last acc l : grow_down h win fuel last acc = LDone l -> last <= l.
Proof.
  unfold grow_down. intro H.
  assert (Hl := loop_inv (fun st : Z * Z => last <= fst st)
                         (fun r => match r with LDone x => last <= x | _ => True end)
                         (grow_down_step h win)).
  specialize (Hl ltac:(intros [l0 a0] Hl0; cbn in *; unfold grow_down_step;
                       destruct (a0 <=? win); [destruct (h (l0 + 1)); cbn; auto; lia | cbn; auto])
                 fuel (last, acc) ltac:(cbn; lia)).
  destruct (loop fuel (grow_down_step h win) (last, acc)) as [a|b]; cbn in H; [discriminate|].
  subst b. exact Hl.
Qed.

Lemma grow_up_le h win fuel first acc l : grow_up h win fuel first acc = LDone l -> l <= first.
Proof.
  unfold grow_up. intro H.
  assert (Hl := loop_inv (fun st : Z * Z => fst st <= first)
                         (fun r => match r with LDone x => x <= first | _ => True end)
                         (grow_up_step h win)).
  specialize (Hl ltac:(intros [l0 a0] Hl0; cbn in *; unfold grow_up_step;
                       destruct ((a0 <=? win) && (1 <? l0)); [destruct (h (l0 - 1)); cbn; auto; lia | cbn; auto])
                 fuel (first, acc) ltac:(cbn; lia)).
  destruct (loop fuel (grow_up_step h win) (first, acc)) as [a|b]; cbn in H; [discriminate|].
  subst b. exact Hl.
Qed.

(* ------------------------------------------------------------------ view-level operations *)

Definition vres_ok (r : vres) : Prop :=
  match r with VOk v | VErr v => view_ok v | VFuel => True end.

Ltac vr := unfold valid_row, valid_col in *; b2p; unfold_consts.

Lemma single_ok v r c t l : valid_row r = true -> valid_col c = true -> view_ok (single v r c t l).
Proof. intros Hr Hc. unfold view_ok, single; cbn. vr. lia. Qed.

Lemma v_set_cell_ok v r c v' : v_set_cell v r c = Ok v' -> view_ok v'.
Proof.
  unfold v_set_cell. destruct (negb (valid_col c)) eqn:Ec; [discriminate|].
  destruct (negb (valid_row r)) eqn:Er; [discriminate|].
  intro Hinv; inversion Hinv; subst; clear Hinv. unfold view_ok; cbn. vr. lia.
Qed.

Lemma v_set_range_ok v r1 c1 r2 c2 v' : view_ok v -> v_set_range v r1 c1 r2 c2 = Ok v' -> view_ok v'.
Proof.
  intros Hv. unfold v_set_range.
  destruct (negb (valid_col c1)) eqn:E1; [discriminate|].
  destruct (negb (valid_row r1)) eqn:E2; [discriminate|].
  destruct (negb (valid_col c2)) eqn:E3; [discriminate|].
  destruct (negb (valid_row r2)) eqn:E4; [discriminate|].
  unfold view_ok in *.
  destruct ((r1 =? 1) && (r2 =? LAST_ROW)) eqn:Ea.
  - destruct (negb (v_col v =? c1) && negb (v_col v =? c2)) eqn:Eb; [discriminate|].
    intro Hinv; inversion Hinv; subst; clear Hinv. cbn. vr.
    destruct Eb as [Eb|Eb]; b2p; lia.
  - destruct ((c1 =? 1) && (c2 =? LAST_COLUMN)) eqn:Ec.
    + destruct (negb (v_row v =? r1) && negb (v_row v =? r2)) eqn:Eb; [discriminate|].
      intro Hinv; inversion Hinv; subst; clear Hinv. cbn. clear Ea. vr.
      destruct Eb as [Eb|Eb]; b2p; lia.
    + destruct (negb (v_row v =? r1) && negb (v_row v =? r2)) eqn:Eb; [discriminate|].
      destruct (negb (v_col v =? c1) && negb (v_col v =? c2)) eqn:Ed; [discriminate|].
      intro Hinv; inversion Hinv; subst; clear Hinv. cbn. clear Ea Ec. vr.
      destruct Eb as [Eb|Eb]; destruct Ed as [Ed|Ed]; b2p; lia.
Qed.

Lemma v_set_top_left_ok v t l v' : view_ok v -> v_set_top_left v t l = Ok v' -> view_ok v'.
Proof.
  intros Hv. unfold v_set_top_left.
  destruct (negb (valid_col l)); [discriminate|]. destruct (negb (valid_row t)); [discriminate|].
  intro Hinv; inversion Hinv; subst; clear Hinv. exact Hv.
Qed.

Lemma of_outcome_ok v o : view_ok v -> (forall v', o = Ok v' -> view_ok v') -> vres_ok (of_outcome v o).
Proof. intros Hv Ho. unfold of_outcome. destruct o; cbn; auto. Qed.

Lemma finish_range_ok v r1 c1 r2 c2 : view_ok v -> vres_ok (finish_range v (v_set_range v r1 c1 r2 c2)).
Proof.
  intros Hv. unfold finish_range. destruct (v_set_range v r1 c1 r2 c2) eqn:E; cbn; auto.
  eapply v_set_range_ok; eauto.
Qed.

Lemma scroll_then_range_ok v b t l r1 c1 r2 c2 :
  view_ok v -> vres_ok (scroll_then_range v b t l r1 c1 r2 c2).
Proof.
  intros Hv. unfold scroll_then_range. destruct b; [|apply finish_range_ok; auto].
  destruct (v_set_top_left v t l) as [v1| |] eqn:E; cbn; auto.
  apply finish_range_ok. eapply v_set_top_left_ok; eauto.
Qed.

(* destruct every match of the goal *)
Ltac dall :=
  repeat match goal with
  | |- context [match ?x with _ => _ end] => destruct x eqn:?
  end.

Lemma arrow_view_ok g ww wh d v : view_ok v -> vres_ok (arrow_view g ww wh d v).
Proof.
  intros Hv. pose proof Hv as Hv'. unfold view_ok in Hv'.
  destruct d; unfold arrow_view; dall; cbn [vres_ok]; auto; apply single_ok; vr; lia.
Qed.

Lemma clamp_row_valid x : valid_row (clamp_row x) = true.
Proof.
  unfold clamp_row, valid_row. destruct (x <? 1) eqn:E1; [reflexivity|].
  destruct (LAST_ROW <? x) eqn:E2; [reflexivity|]. b2p.
  apply andb_true_iff; split; apply Z.leb_le; lia.
Qed.

Lemma page_down_view_ok g wh v : view_ok v -> vres_ok (page_down_view g wh v).
Proof.
  intros Hv. pose proof Hv as Hv'. unfold view_ok in Hv'. unfold page_down_view.
  destruct (row_height g (v_top v)) as [h0| |]; cbn [vres_ok]; auto.
  destruct (grow_down _ _ _ _ _) as [last| |] eqn:E; cbn [vres_ok]; auto.
  destruct (negb (valid_row last)) eqn:El; cbn [vres_ok]; auto.
  cbv zeta. apply single_ok; [apply clamp_row_valid | vr; lia].
Qed.

Lemma page_up_view_ok g wh v : view_ok v -> vres_ok (page_up_view g wh v).
Proof.
  intros Hv. pose proof Hv as Hv'. unfold view_ok in Hv'. unfold page_up_view.
  destruct (row_height g (v_top v)) as [h0| |]; cbn [vres_ok]; auto.
  destruct (grow_up _ _ _ _ _) as [first| |] eqn:E; cbn [vres_ok]; auto.
  cbv zeta. apply single_ok; [apply clamp_row_valid | vr; lia].
Qed.

Lemma area_selecting_view_ok g ww wh tr tc v :
  view_ok v -> grid tr tc = true -> hull_has (v_r1 v) (v_c1 v) tr tc (v_row v) (v_col v) = true ->
  vres_ok (area_selecting_view g ww wh tr tc v).
Proof.
  intros Hv Hg Hh. pose proof Hv as Hv'. unfold view_ok in Hv'. unfold area_selecting_view.
  match goal with |- context [match ?x with LDone _ => _ | LErr => _ | LFuel => _ end] => destruct x as [nl| |] end;
    cbn [vres_ok]; auto.
  match goal with |- context [match ?x with LDone _ => _ | LErr => _ | LFuel => _ end] => destruct x as [nt| |] end;
    cbn [vres_ok]; auto.
  unfold view_ok; cbn. unfold grid, hull_has in *. vr. lia.
Qed.

Lemma nav_edge_view_ok g ww wh d v : view_ok v -> vres_ok (nav_edge_view g ww wh d v).
Proof.
  intros Hv. unfold nav_edge_view.
  destruct (negb (valid_row (v_row v)) || negb (valid_col (v_col v))); cbn [vres_ok]; auto.
  destruct (navigate_to_edge g (v_row v) (v_col v) d) as [nr nc| |]; cbn [vres_ok]; auto.
  destruct (negb (valid_row nr) || negb (valid_col nc)) eqn:En; cbn [vres_ok]; auto.
  apply orb_false_iff in En as [En1 En2]. apply negb_false_iff in En1, En2.
  destruct ((nr =? v_row v) && (nc =? v_col v)); cbn [vres_ok]; auto.
  destruct d; dall; cbn [vres_ok]; auto; apply single_ok; auto.
Qed.

Lemma expand_view_ok g ww wh k v : view_ok v -> vres_ok (expand_view g ww wh k v).
Proof.
  intros Hv. unfold expand_view. cbv zeta.
  destruct k; dall; cbn [vres_ok]; auto using finish_range_ok, scroll_then_range_ok.
Qed.

Lemma paste_view_ok h w v :
  view_ok v ->
  hull_has (v_r1 v) (v_c1 v) (Z.max (v_r2 v) (v_r1 v + h - 1)) (Z.max (v_c2 v) (v_c1 v + w - 1)) (v_row v) (v_col v) = true ->
  vres_ok (paste_view h w v).
Proof.
  intros Hv Hh. pose proof Hv as Hv'. unfold view_ok in Hv'. unfold paste_view. cbv zeta.
  match goal with |- context [if ?c then _ else _] => destruct c eqn:Ec end; cbn [vres_ok]; auto.
  unfold view_ok, with_range; cbn. unfold hull_has in Hh. vr. lia.
Qed.

(* ------------------------------------------------------------------ ui.rs at the state level *)

Lemma on_sel_view_inv s b f :
  inv s -> (forall sh, sheet_ok sh -> vres_ok (f sh)) -> inv (state_of (on_sel_view s b f)).
Proof.
  intros Hi Hf. unfold on_sel_view.
  destruct (get_sheet (sheets s) (sel s)) as [sh|] eqn:E.
  - assert (Hsh : sheet_ok sh) by (eapply sheet_ok_in; eauto; apply inv_winv; auto).
    specialize (Hf sh Hsh). destruct (f sh) as [v|v|]; cbn [state_of]; auto; apply inv_put_sheet; auto.
  - destruct b; cbn [state_of]; auto.
Qed.

Lemma set_selected_cell_inv s r c : inv s -> inv (state_of (set_selected_cell s r c)).
Proof.
  intros Hi. apply on_sel_view_inv; auto. intros sh Hsh. apply of_outcome_ok; auto.
  intros v' E. eapply v_set_cell_ok; eauto.
Qed.
Lemma set_selected_range_inv s r1 c1 r2 c2 : inv s -> inv (state_of (set_selected_range s r1 c1 r2 c2)).
Proof.
  intros Hi. apply on_sel_view_inv; auto. intros sh Hsh. apply of_outcome_ok; auto.
  intros v' E. eapply v_set_range_ok; eauto.
Qed.
Lemma set_top_left_inv s t l : inv s -> inv (state_of (set_top_left s t l)).
Proof.
  intros Hi. apply on_sel_view_inv; auto. intros sh Hsh. apply of_outcome_ok; auto.
  intros v' E. eapply v_set_top_left_ok; eauto.
Qed.

(* the view-level premises of area selecting, from the negated class *)
Lemma area_selecting_inv s r c : inv s -> bad_area s r c = false ->
  inv (state_of (on_sel_view s true (fun sh => area_selecting_view (sh_geom sh) (win_w s) (win_h s) r c (sh_view sh)))).
Proof.
  intros Hi Hb. unfold on_sel_view. unfold bad_area, sel_view in Hb.
  destruct (get_sheet (sheets s) (sel s)) as [sh|] eqn:E; cbn [state_of]; auto.
  assert (Hsh : sheet_ok sh) by (eapply sheet_ok_in; eauto; apply inv_winv; auto).
  apply orb_false_iff in Hb as [Hb1 Hb2]. apply negb_false_iff in Hb1, Hb2.
  assert (Hv : vres_ok (area_selecting_view (sh_geom sh) (win_w s) (win_h s) r c (sh_view sh)))
    by (apply area_selecting_view_ok; auto).
  destruct (area_selecting_view _ _ _ _ _ _) as [v|v|]; cbn [state_of]; auto; apply inv_put_sheet; auto.
Qed.

Lemma paste_styles_inv s h w : inv s -> bad_paste s h w = false -> inv (state_of (paste_styles s h w)).
Proof.
  intros Hi Hb. unfold paste_styles. unfold bad_paste, sel_view in Hb.
  destruct (h <? 1) eqn:Eh; cbn [state_of]; auto.
  destruct (get_sheet (sheets s) (sel s)) as [sh|] eqn:E; cbn [state_of]; auto.
  cbn [orb] in Hb. apply orb_false_iff in Hb as [Hw Hb]. rewrite Hw.
  apply negb_false_iff in Hb.
  assert (Hsh : sheet_ok sh) by (eapply sheet_ok_in; eauto; apply inv_winv; auto).
  assert (Hv : vres_ok (paste_view h w (sh_view sh))) by (apply paste_view_ok; auto).
  destruct (paste_view h w (sh_view sh)) as [v|v|]; cbn [state_of]; auto.
  apply inv_put_sheet; auto. apply inv_push; auto. exact I.
Qed.

(* set_columns_hidden / set_rows_hidden / set_rows_height / set_columns_width *)
Lemma set_lines_size_inv rows s shi a b x : inv s -> inv (state_of (set_lines_size rows s shi a b x)).
Proof.
  intros Hi. unfold set_lines_size.
  destruct (get_sheet (sheets s) shi) as [sh|] eqn:E.
  - assert (Hsh : sheet_ok sh) by (eapply sheet_ok_in; eauto; apply inv_winv; auto).
    match goal with |- context [match ?x with GDone _ _ => _ | GErr _ => _ | GFuel => _ end] => destruct x as [g l|g|] end;
      cbn [state_of]; auto.
    + apply inv_push; [apply inv_put_sheet; auto | destruct rows; exact I].
    + apply inv_put_sheet; auto.
  - destruct (a <=? b); cbn [state_of]; auto. apply inv_push; auto. destruct rows; exact I.
Qed.

Lemma set_lines_hidden_inv rows s shi a b hid : inv s -> inv (state_of (set_lines_hidden rows s shi a b hid)).
Proof.
  intros Hi. unfold set_lines_hidden.
  destruct (get_sheet (sheets s) shi) as [sh|] eqn:E.
  - assert (Hsh : sheet_ok sh) by (eapply sheet_ok_in; eauto; apply inv_winv; auto).
    match goal with |- context [match ?x with GDone _ _ => _ | GErr _ => _ | GFuel => _ end] => destruct x as [g l|g|] end;
      cbn [state_of]; auto; [|apply inv_put_sheet; auto].
    cbv zeta.
    assert (H1 : inv (put_sheet s shi (set_geom sh g))) by (apply inv_put_sheet; auto).
    assert (He : entry_ok (if rows then ERowsHidden shi l else EColsHidden shi l)) by (destruct rows; exact I).
    destruct (hid && (sel s =? shi)); [|cbn [state_of]; apply inv_push; auto].
    match goal with |- context [match ?x with LDone _ => _ | LErr => _ | LFuel => _ end] => destruct x as [c| |] end;
      cbn [state_of]; auto.
    match goal with |- context [match ?x with Ok _ => _ | Err => _ | Panic => _ end] => destruct x as [v1| |] eqn:E1 end;
      cbn [state_of]; auto.
    assert (Hv1 : view_ok v1) by (destruct rows; eapply v_set_cell_ok; eauto).
    match goal with |- context [match ?x with Ok _ => _ | Err => _ | Panic => _ end] => destruct x as [v2| |] eqn:E2 end;
      cbn [state_of]; try (apply inv_put_sheet; auto).
    apply inv_push; auto. apply inv_put_sheet; auto.
    destruct rows; eapply v_set_range_ok; eauto.
  - destruct (a <=? b); cbn [state_of]; auto.
    destruct (hid && (sel s =? shi)); cbn [state_of]; auto. apply inv_push; auto. destruct rows; exact I.
Qed.

(* ------------------------------------------------------------------ all operations *)

Theorem step_inv s o : inv s -> bad s o = false -> inv (step s o).
Proof.
  intros Hi Hb. unfold step. destruct o; cbn [step_r bad] in *.
  - apply set_selected_sheet_op_inv; auto.
  - apply set_selected_cell_inv; auto.
  - apply set_selected_range_inv; auto.
  - apply on_sel_view_inv; auto. intros sh Hsh. apply expand_view_ok; auto.
  - apply set_top_left_inv; auto.
  - cbn [state_of]. apply inv_with_win; auto.
  - cbn [state_of]. apply inv_with_win; auto.
  - apply on_sel_view_inv; auto. intros sh Hsh. apply arrow_view_ok; auto.
  - apply on_sel_view_inv; auto. intros sh Hsh. apply page_down_view_ok; auto.
  - apply on_sel_view_inv; auto. intros sh Hsh. apply page_up_view_ok; auto.
  - apply area_selecting_inv; auto.
  - apply on_sel_view_inv; auto. intros sh Hsh. apply nav_edge_view_ok; auto.
  - apply new_sheet_inv; auto.
  - apply duplicate_sheet_inv; auto.
  - apply delete_sheet_inv; auto.
  - apply rename_sheet_inv; auto.
  - apply move_sheet_inv; auto.
  - apply hide_sheet_inv; auto.
  - apply unhide_sheet_inv; auto.
  - apply set_sheet_color_inv; auto.
  - apply set_lines_hidden_inv; auto.
  - apply set_lines_hidden_inv; auto.
  - apply set_lines_size_inv; auto.
  - apply set_lines_size_inv; auto.
  - apply paste_styles_inv; auto.
  - apply undo_inv; auto.
  - apply redo_inv; auto.
Qed.

Theorem run_inv ops : forall s, inv s -> avoids s ops = true -> inv (run s ops).
Proof.
  induction ops as [|o t IH]; intros s Hi Ha; cbn [run fold_left avoids] in *; auto.
  apply andb_true_iff in Ha as [Hb Ht]. apply negb_true_iff in Hb.
  apply IH; auto. apply step_inv; auto.
Qed.

Lemma mk_state_inv l : l <> [] -> Forall sheet_ok l -> inv (mk_state l).
Proof.
  intros Hn Hf. split; [|repeat split; cbn; auto].
  unfold nsheets; cbn. destruct l; [congruence|]. cbn [length]. lia.
Qed.

Lemma init_inv : inv init.
Proof. apply mk_state_inv; [discriminate|]. constructor; auto. apply new_sheet_rec_ok. Qed.

Lemma sel_ok_b_iff s : sel_ok_b s = true <-> sel_ok s.
Proof.
  unfold sel_ok_b, sel_ok. destruct (get_sheet (sheets s) (sel s)) as [sh|]; split.
  - intro H. exists sh; split; auto. apply view_ok_b_iff; auto.
  - intros (sh' & E & Hv). inversion E; subst. apply view_ok_b_iff; auto.
  - discriminate.
  - intros (sh' & E & _). discriminate.
Qed.

Lemma all_ok_b_inv s : inv s -> all_ok_b s = true.
Proof.
  intros [Hs (Hf & _)]. unfold all_ok_b. repeat (apply andb_true_iff; split).
  - apply Z.leb_le; lia.
  - apply Z.ltb_lt; lia.
  - apply forallb_forall. intros sh Hin. apply view_ok_b_iff. rewrite Forall_forall in Hf. apply Hf; auto.
Qed.

(* ------------------------------------------------------------------ the property *)

Definition C28_statement : Prop := forall ops, sel_ok (run init ops).

(* along every history that avoids the six known classes the invariant holds — for the
   selected sheet and for every other sheet *)
Theorem C28_partial_thm : forall ops, avoids init ops = true -> sel_ok (run init ops) /\ all_ok_b (run init ops) = true.
Proof.
  intros ops Ha. assert (Hi := run_inv ops init init_inv Ha). split; [apply inv_sel_ok | apply all_ok_b_inv]; auto.
Qed.

(* … and from any workbook (any number of sheets, any geometry, any valid views) *)
Theorem C28_partial_any_workbook : forall l ops,
  l <> [] -> Forall sheet_ok l -> avoids (mk_state l) ops = true -> sel_ok (run (mk_state l) ops).
Proof. intros l ops Hn Hf Ha. apply inv_sel_ok. apply run_inv; auto. apply mk_state_inv; auto. Qed.

(* the witnesses (each replayed on the implementation by harness/c28) *)
Definition w_area_offgrid : list op := [OAreaSel 0 (-5)].
Definition w_area_anchor : list op := [OSetCell 5 5; OSetRange 1 1 5 5; OAreaSel 2 2].
Definition w_paste : list op := [OSetRange 5 5 1 1; OPaste 1 1].

Lemma refute ops : sel_ok_b (run init ops) = false -> ~ sel_ok (run init ops).
Proof. intros H Hs. apply sel_ok_b_iff in Hs. congruence. Qed.

Theorem refuted_area_offgrid : ~ sel_ok (run init w_area_offgrid).
Proof. apply refute. vm_compute. reflexivity. Qed.
Theorem refuted_area_anchor : ~ sel_ok (run init w_area_anchor).
Proof. apply refute. vm_compute. reflexivity. Qed.
Theorem refuted_paste : ~ sel_ok (run init w_paste).
Proof. apply refute. vm_compute. reflexivity. Qed.

Theorem C28_refuted_thm : ~ C28_statement.
Proof. intro H. exact (refuted_area_offgrid (H w_area_offgrid)). Qed.

(* each witness meets exactly one class, at its last step (the classes are independent) *)
Definition only_last_bad (ops : list op) : bool :=
  avoids init (removelast ops) && bad (run init (removelast ops)) (last ops OUndo).
Lemma witnesses_tight : forallb only_last_bad [w_area_offgrid; w_area_anchor; w_paste] = true.
Proof. vm_compute. reflexivity. Qed.

(* the histories that refuted the property before the repairs of delete_sheet (422225e), redo of
   DeleteSheet (ccc73d8) and page down / up (0ee396a) now satisfy it and meet no class *)
Definition w_delete : list op := [ONewSheet; ONewSheet; ODelete 0].
Definition w_redo : list op := [ONewSheet; OSetSheet 0; ODelete 0; OUndo; OSetSheet 1; ORedo].
Definition w_page_down : list op := [OSetCell 1048576 1; OPageDown].
Definition w_page_up : list op := [OTopLeft 100 1; OPageUp].
Lemma repaired_witnesses :
  forallb (fun ops => avoids init ops && sel_ok_b (run init ops)) [w_delete; w_redo; w_page_down; w_page_up] = true.
Proof. vm_compute. reflexivity. Qed.

(* non-vacuity: a history through every kind of operation that avoids the classes *)
Definition nv_history : list op :=
  [ONewSheet; ONewSheet; OSetSheet 1; ODelete 0; OUndo; ORedo; OUndo; ODuplicate 1; OMove 0 2; OUndo; ORedo;
   OHide 1; OUnhide 1; ORename 0 [65]; OColor 0; OSetCell 10 4; OSetRange 10 4 20 8; OExpand KDown; OExpand KRight;
   OArrow DDown; OArrow DRight; OArrow DUp; OArrow DLeft; OPageDown; OPageUp; OAreaSel 30 6; OTopLeft 5 2;
   ORowsHidden 2 3 5 true; OColsHidden 2 2 3 true; ORowsHeight 2 7 8 40; OColsWidth 2 4 4 200; OPaste 2 2;
   OWinW 100; OWinH 50; ONavEdge DRight; OUndo; OUndo; ORedo; ODelete 2; OUndo; ODelete 1; ONewSheet; OUndo; ORedo].
Lemma nv_history_avoids : avoids init nv_history = true /\ length nv_history = 44%nat.
Proof. vm_compute. split; reflexivity. Qed.

(* ------------------------------------------------------------------ per-group corollaries *)

Lemma setters_inv s : inv s ->
  (forall i, inv (step s (OSetSheet i))) /\
  (forall r c, inv (step s (OSetCell r c))) /\
  (forall r1 c1 r2 c2, inv (step s (OSetRange r1 c1 r2 c2))) /\
  (forall t l, inv (step s (OTopLeft t l))).
Proof. intros Hi. repeat split; intros; apply step_inv; auto. Qed.

Lemma navigation_inv s : inv s ->
  (forall d, inv (step s (OArrow d))) /\
  (forall k, inv (step s (OExpand k))) /\
  (forall d, inv (step s (ONavEdge d))) /\
  inv (step s OPageDown) /\ inv (step s OPageUp).
Proof. intros Hi. repeat split; intros; apply step_inv; auto. Qed.

Lemma sheet_operations_inv s : inv s ->
  inv (step s ONewSheet) /\ (forall i, inv (step s (ODuplicate i))) /\ (forall i, inv (step s (ODelete i))) /\
  (forall i j, inv (step s (OMove i j))) /\
  (forall i, inv (step s (OHide i))) /\ (forall i, inv (step s (OUnhide i))) /\
  (forall i n, inv (step s (ORename i n))) /\ inv (step s OUndo) /\ inv (step s ORedo) /\
  (forall sh a b h, inv (step s (ORowsHidden sh a b h))) /\ (forall sh a b h, inv (step s (OColsHidden sh a b h))).
Proof. intros Hi. repeat split; intros; apply step_inv; auto. Qed.

(* ------------------------------------------------------------------ fuel *)

(* a loop whose every continuation decreases a non-negative measure stops within that many steps *)
Lemma loop_measure {A B} (m : A -> Z) (f : A -> lstep A B) :
  (forall a a', f a = Continue a' -> m a' <= m a - 1 /\ 0 <= m a') ->
  forall p a a', loop p f a = Continue a' -> m a' <= m a - Z.pos p /\ 0 <= m a'.
Proof.
  intros Hf. induction p as [q IH|q IH|]; intros a a' H.
  - rewrite loop_xI in H. destruct (f a) as [a1|b] eqn:E1; [|discriminate].
    destruct (loop q f a1) as [a2|b] eqn:E2; [|discriminate].
    apply Hf in E1. apply IH in E2. apply IH in H. lia.
  - rewrite loop_xO in H. destruct (loop q f a) as [a2|b] eqn:E2; [|discriminate].
    apply IH in E2. apply IH in H. lia.
  - rewrite loop_xH in H. apply Hf in H. lia.
Qed.

Lemma loop_stops {A B} (m : A -> Z) (f : A -> lstep A B) p a :
  (forall a a', f a = Continue a' -> m a' <= m a - 1 /\ 0 <= m a') ->
  m a < Z.pos p -> exists b, loop p f a = Stop b.
Proof.
  intros Hf Hm. destruct (loop p f a) as [a'|b] eqn:E; eauto.
  apply (loop_measure m f Hf) in E. lia.
Qed.

Lemma to_pos_ge x : x <= Z.pos (Z.to_pos x).
Proof. destruct x; cbn; lia. Qed.

Lemma scan_fuel_up hid limit c :
  scan hid (fun x => x <=? limit) 1 (fuel_to c limit) c <> LFuel /\
  scan hid (fun x => x <? limit) 1 (fuel_to c limit) c <> LFuel.
Proof.
  unfold scan, fuel_to. split.
  - destruct (loop_stops (fun x => limit + 1 - x) (scan_step hid (fun x => x <=? limit) 1) (Z.to_pos (limit + 2 - c)) c) as [b Hb].
    + intros a a'. unfold scan_step. destruct (a <=? limit) eqn:E; [|discriminate].
      destruct (hid a) as [[|]| |]; try discriminate. intro Hinv; inversion Hinv; subst. b2p. lia.
    + assert (Hp := to_pos_ge (limit + 2 - c)). lia.
    + rewrite Hb. cbn. unfold scan_step in Hb.
      intro Hf. subst b.
      assert (Hq := loop_inv (fun _ : Z => True) (fun r => r <> LFuel) (scan_step hid (fun x => x <=? limit) 1)).
      specialize (Hq ltac:(intros a _; unfold scan_step; destruct (a <=? limit); [destruct (hid a) as [[|]| |]|]; auto; discriminate)
                     (Z.to_pos (limit + 2 - c)) c I).
      unfold scan_step in Hq. rewrite Hb in Hq. congruence.
  - destruct (loop_stops (fun x => limit + 1 - x) (scan_step hid (fun x => x <? limit) 1) (Z.to_pos (limit + 2 - c)) c) as [b Hb].
    + intros a a'. unfold scan_step. destruct (a <? limit) eqn:E; [|discriminate].
      destruct (hid a) as [[|]| |]; try discriminate. intro Hinv; inversion Hinv; subst. b2p. lia.
    + assert (Hp := to_pos_ge (limit + 2 - c)). lia.
    + rewrite Hb. cbn. intro Hf. subst b.
      assert (Hq := loop_inv (fun _ : Z => True) (fun r => r <> LFuel) (scan_step hid (fun x => x <? limit) 1)).
      specialize (Hq ltac:(intros a _; unfold scan_step; destruct (a <? limit); [destruct (hid a) as [[|]| |]|]; auto; discriminate)
                     (Z.to_pos (limit + 2 - c)) c I).
      rewrite Hb in Hq. congruence.
Qed.

Lemma scan_fuel_down hid c :
  scan hid (fun x => 1 <=? x) (-1) (fuel_down c) c <> LFuel /\
  scan hid (fun x => 1 <? x) (-1) (fuel_down c) c <> LFuel.
Proof.
  unfold scan, fuel_down. split.
  - destruct (loop_stops (fun x => x) (scan_step hid (fun x => 1 <=? x) (-1)) (Z.to_pos (c + 1)) c) as [b Hb].
    + intros a a'. unfold scan_step. destruct (1 <=? a) eqn:E; [|discriminate].
      destruct (hid a) as [[|]| |]; try discriminate. intro Hinv; inversion Hinv; subst. b2p. lia.
    + assert (Hp := to_pos_ge (c + 1)). lia.
    + rewrite Hb. cbn. intro Hf. subst b.
      assert (Hq := loop_inv (fun _ : Z => True) (fun r => r <> LFuel) (scan_step hid (fun x => 1 <=? x) (-1))).
      specialize (Hq ltac:(intros a _; unfold scan_step; destruct (1 <=? a); [destruct (hid a) as [[|]| |]|]; auto; discriminate)
                     (Z.to_pos (c + 1)) c I).
      rewrite Hb in Hq. congruence.
  - destruct (loop_stops (fun x => x) (scan_step hid (fun x => 1 <? x) (-1)) (Z.to_pos (c + 1)) c) as [b Hb].
    + intros a a'. unfold scan_step. destruct (1 <? a) eqn:E; [|discriminate].
      destruct (hid a) as [[|]| |]; try discriminate. intro Hinv; inversion Hinv; subst. b2p. lia.
    + assert (Hp := to_pos_ge (c + 1)). lia.
    + rewrite Hb. cbn. intro Hf. subst b.
      assert (Hq := loop_inv (fun _ : Z => True) (fun r => r <> LFuel) (scan_step hid (fun x => 1 <? x) (-1))).
      specialize (Hq ltac:(intros a _; unfold scan_step; destruct (1 <? a); [destruct (hid a) as [[|]| |]|]; auto; discriminate)
                     (Z.to_pos (c + 1)) c I).
      rewrite Hb in Hq. congruence.
Qed.
