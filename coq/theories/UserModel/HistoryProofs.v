(* UserModel/HistoryProofs.v — the machine refines the cursor specification, undo restores
   the state before the undone operation, redo reproduces the state after it, and a replica
   that applies the queue — cut into batches in any way — converges. For every type of
   states and diffs and every forward/backward interpretation of a diff. *)
From Coq Require Import List Lia.
Import ListNotations.
From IronCalc Require Import UserModel.History.

Section Proofs.
  Variables St Df : Type.
  Variable apply unapply : Df -> St -> St.

  Notation machine := (machine St Df).
  Notation step := (step St Df apply unapply).
  Notation run := (run St Df apply unapply).
  Notation valid := (valid St Df apply unapply).
  Notation faithful := (faithful St Df apply unapply).
  Notation apply_list := (apply_list St Df apply).
  Notation unapply_list := (unapply_list St Df unapply).
  Notation replica_apply := (replica_apply St Df apply unapply).
  Notation replica_batch := (replica_batch St Df apply unapply).

  (* undo entries are faithful between consecutive states before the cursor ... *)
  Fixpoint rel_undo (c : St) (bs : list St) (us : list (list Df)) : Prop :=
    match bs, us with
    | [], [] => True
    | b :: bs', dl :: us' => faithful b dl c /\ rel_undo b bs' us'
    | _, _ => False
    end.
  (* ... and redo entries between consecutive states after it *)
  Fixpoint rel_redo (c : St) (ars : list St) (rs : list (list Df)) : Prop :=
    match ars, rs with
    | [], [] => True
    | a :: ars', dl :: rs' => faithful c dl a /\ rel_redo a ars' rs'
    | _, _ => False
    end.

  Definition R (m : machine) (sp : spec St) : Prop :=
    st St Df m = cur St sp /\ rel_undo (cur St sp) (before St sp) (undo_stack St Df m)
    /\ rel_redo (cur St sp) (after St sp) (redo_stack St Df m).

  Lemma R_step m sp e :
    R m sp -> (match e with Do s' dl => faithful (st St Df m) dl s' | _ => True end) ->
    R (step m e) (spec_step St Df sp e).
  Proof.
    intros (Hst & Hu & Hr) Hv. destruct m as [s us rs q], sp as [bs c ars]. cbn in *. subst s.
    destruct e as [s' dl| |]; cbn.
    - repeat split; cbn; auto; apply Hv.
    - destruct us as [|dl us'], bs as [|b bs']; cbn in Hu; try contradiction; cbn.
      + repeat split; auto.
      + destruct Hu as [Hf Hu']. repeat split; cbn; auto; apply Hf.
    - destruct rs as [|dl rs'], ars as [|a ars']; cbn in Hr; try contradiction; cbn.
      + repeat split; auto.
      + destruct Hr as [Hf Hr']. repeat split; cbn; auto; apply Hf.
  Qed.

  Theorem refinement es : forall m sp,
    R m sp -> valid m es -> R (run m es) (spec_run St Df sp es).
  Proof.
    induction es as [|e es IH]; intros m sp HR Hv; cbn in *; [exact HR|].
    destruct Hv as [He Hv]. apply IH; [apply R_step; assumption | exact Hv].
  Qed.

  Definition init (s0 : St) : machine :=
    {| st := s0; undo_stack := []; redo_stack := []; queue := [] |}.
  Definition spec_init (s0 : St) : spec St := {| before := []; cur := s0; after := [] |}.

  Lemma R_init s0 : R (init s0) (spec_init s0).
  Proof. repeat split. Qed.

  Lemma rel_undo_length bs : forall us c, rel_undo c bs us -> length us = length bs.
  Proof.
    induction bs as [|b bs IH]; intros us c H; destruct us; cbn in *; try contradiction; auto.
    destruct H as [_ H]. f_equal. eapply IH; eauto.
  Qed.
  Lemma rel_redo_length ars : forall rs c, rel_redo c ars rs -> length rs = length ars.
  Proof.
    induction ars as [|a ars IH]; intros rs c H; destruct rs; cbn in *; try contradiction; auto.
    destruct H as [_ H]. f_equal. eapply IH; eauto.
  Qed.

  Lemma R_lengths m sp : R m sp ->
    length (undo_stack St Df m) = length (before St sp) /\ length (redo_stack St Df m) = length (after St sp).
  Proof.
    intros (_ & Hu & Hr). split; [eapply rel_undo_length | eapply rel_redo_length]; eauto.
  Qed.

  (* C02: after any valid interleaving of operations, undo and redo the workbook is the
     state under the cursor, and can_undo / can_redo say whether the cursor can move *)
  Theorem cursor_semantics s0 es :
    valid (init s0) es ->
    let m := run (init s0) es in
    let sp := spec_run St Df (spec_init s0) es in
    st St Df m = nth (cursor St sp) (log St sp) s0 /\
    (can_undo St Df m = true <-> 0 < cursor St sp) /\
    (can_redo St Df m = true <-> cursor St sp + 1 < length (log St sp)).
  Proof.
    intros Hv m sp. pose proof (refinement es _ _ (R_init s0) Hv) as HR. fold m sp in HR.
    pose proof (R_lengths _ _ HR) as [Hlu Hlr]. destruct HR as (Hst & _ & _).
    unfold log, cursor. split; [|split].
    - rewrite Hst. rewrite app_nth2 by (rewrite rev_length; lia). rewrite rev_length, PeanoNat.Nat.sub_diag. reflexivity.
    - unfold can_undo. destruct (undo_stack St Df m); cbn in Hlu; rewrite <- Hlu; cbn; split; intro; try discriminate; try lia; reflexivity.
    - unfold can_redo. rewrite app_length, rev_length. cbn [length].
      destruct (redo_stack St Df m); cbn in Hlr; rewrite <- Hlr; cbn; split; intro; try discriminate; try lia; reflexivity.
  Qed.

  (* C01: undoing the most recent operation gives back exactly the state it started from *)
  Theorem undo_restores m sp s' dl :
    R m sp -> faithful (st St Df m) dl s' ->
    st St Df (step (step m (Do s' dl)) Undo) = st St Df m.
  Proof. intros _ [_ Hun]. cbn. exact Hun. Qed.

  (* C02: undo then redo reproduces the state that followed the original operation *)
  Theorem undo_redo_identity m sp :
    R m sp -> can_undo St Df m = true -> st St Df (step (step m Undo) Redo) = st St Df m.
  Proof.
    intros (Hst & Hu & _) Hcan. destruct m as [s us rs q], sp as [bs c ars]. cbn in *. subst s.
    destruct us as [|dl us']; [discriminate|]. cbn.
    destruct bs as [|b bs']; cbn in Hu; [contradiction|]. destruct Hu as [[Hap Hun] _].
    rewrite Hun. exact Hap.
  Qed.

  (* a new operation discards everything after the cursor *)
  Theorem new_operation_truncates sp s' dl :
    after St (spec_step St Df sp (Do s' dl)) = [] /\
    log St (spec_step St Df sp (Do s' dl)) = rev (before St sp) ++ [cur St sp; s'].
  Proof. split; [reflexivity|]. unfold log. cbn. rewrite <- app_assoc. reflexivity. Qed.

  (* ---- replication (C03) ---- *)

  (* what one event appends to the outgoing queue *)
  Lemma queue_step m e : exists qs, queue St Df (step m e) = queue St Df m ++ qs /\
    forall sp, R m sp -> (match e with Do s' dl => faithful (st St Df m) dl s' | _ => True end) ->
    replica_batch (st St Df m) qs = st St Df (step m e).
  Proof.
    destruct e as [s' dl| |]; cbn.
    - exists [(TRedo, dl)]. split; [reflexivity|]. intros sp _ [Hap _]. cbn. exact Hap.
    - destruct (undo_stack St Df m) as [|dl u] eqn:E.
      + exists []. rewrite app_nil_r. split; reflexivity.
      + exists [(TUndo, dl)]. split; reflexivity.
    - destruct (redo_stack St Df m) as [|dl r] eqn:E.
      + exists []. rewrite app_nil_r. split; reflexivity.
      + exists [(TRedo, dl)]. split; reflexivity.
  Qed.

  Lemma replica_batch_app r a b : replica_batch r (a ++ b) = replica_batch (replica_batch r a) b.
  Proof. unfold replica_batch. apply fold_left_app. Qed.

  (* a replica in the primary's state that applies what the primary enqueued while running
     [es] ends in the primary's state *)
  Theorem replica_follows es : forall m sp,
    R m sp -> valid m es ->
    exists qs, queue St Df (run m es) = queue St Df m ++ qs /\
               replica_batch (st St Df m) qs = st St Df (run m es).
  Proof.
    induction es as [|e es IH]; intros m sp HR Hv.
    - exists []. rewrite app_nil_r. split; reflexivity.
    - destruct Hv as [He Hv].
      change (run m (e :: es)) with (run (step m e) es).
      destruct (queue_step m e) as (q1 & Hq1 & Hsim).
      specialize (Hsim sp HR He).
      destruct (IH (step m e) (spec_step St Df sp e) (R_step _ _ _ HR He) Hv) as (q2 & Hq2 & Hrep).
      exists (q1 ++ q2). split.
      + rewrite Hq2, Hq1, app_assoc. reflexivity.
      + rewrite replica_batch_app, Hsim. exact Hrep.
  Qed.

  (* however the queue is cut into batches, applying the batches in order is applying the queue *)
  Theorem batching_irrelevant (batches : list (list (qentry Df))) r :
    fold_left replica_batch batches r = replica_batch r (concat batches).
  Proof.
    revert r. induction batches as [|b bs IH]; intro r; cbn [fold_left concat]; [reflexivity|].
    rewrite IH, replica_batch_app. reflexivity.
  Qed.

  (* C03: same initial state, any valid history, any flush schedule: the replica converges *)
  Theorem replicas_converge s0 es batches :
    valid (init s0) es ->
    concat batches = queue St Df (run (init s0) es) ->
    fold_left replica_batch batches s0 = st St Df (run (init s0) es).
  Proof.
    intros Hv Hcut. rewrite batching_irrelevant, Hcut.
    destruct (replica_follows es _ _ (R_init s0) Hv) as (qs & Hq & Hrep).
    cbn in Hq. rewrite Hq. exact Hrep.
  Qed.
End Proofs.
