(* UserModel/ReenterProofs.v — re-entering the displayed content *)
From IronCalc Require Import Base.Prelude Base.Dec Num.Recognise UserModel.Reenter Generated.Locales_c19.

(* quote-prefixed text: whatever the text looks like, it comes back as the same quoted text *)
Lemma reenter_quoted L G old s f :
  let c := {| c_val := VText s; c_qp := true; c_fmt := f |} in
  apply_input L G old (display G [] c) = {| c_val := VText s; c_qp := true; c_fmt := c_fmt old |}.
Proof.
  cbv zeta. unfold display. cbn [c_val c_qp localized_text].
  unfold apply_input, user_input. rewrite Z.eqb_refl. reflexivity.
Qed.

Lemma user_input_text_same L G v s : user_input L G v = IText s -> s = v.
Proof.
  unfold user_input. destruct v as [|c r]; [discriminate|].
  destruct (c =? c_quote); [discriminate|].
  destruct (formula_without_prefix L (c :: r)); [discriminate|].
  destruct (parse_formatted_number L (c :: r)); [discriminate|].
  destruct (parse_bool (c :: r)); [discriminate|].
  destruct (position (to_upper (c :: r)) (g_errors G) 0); [discriminate|].
  intro H; inversion H; reflexivity.
Qed.

(* a text cell produced by user input either carries the quote prefix or holds exactly what was
   typed, and what was typed is not recognised as anything else; recognition depends on the text,
   the locale and the language only, so typing the displayed content again reproduces the cell *)
Theorem strings_reenter L G old v oracle :
  let c := apply_input L G old v in
  is_text c = true -> apply_input L G c (display G oracle c) = c.
Proof.
  intro c. unfold c, apply_input. destruct (user_input L G v) as [|s|b|r|b|i|s] eqn:E; try discriminate; intros _.
  - cbn [display c_val c_qp localized_text]. unfold user_input. rewrite Z.eqb_refl. reflexivity.
  - pose proof (user_input_text_same _ _ _ _ E); subst s.
    cbn [display c_val c_qp localized_text]. rewrite E. reflexivity.
Qed.

(* any cell whose displayed content is classified the same way again is reproduced *)
Definition same_class (a b : input_class) : bool :=
  match a, b with
  | IBool x, IBool y => Bool.eqb x y
  | IError i, IError j => i =? j
  | _, _ => false
  end.

Lemma position_ge s l : forall i j, position s l i = Some j -> i <= j < i + Z.of_nat (length l).
Proof.
  induction l as [|x l IH]; intros i j H; cbn [position] in H; [discriminate|].
  destruct (text_eqb x s).
  - inversion H; subst. cbn [length]. lia.
  - apply IH in H. cbn [length]. lia.
Qed.

Definition bool_ok (L : locale) (G : language) : bool :=
  match user_input L G (g_true G), user_input L G (g_false G) with
  | IBool true, IBool false => true
  | _, _ => false
  end.

Definition error_ok (L : locale) (G : language) (i : nat) : bool :=
  match user_input L G (nth i (g_errors G) []) with
  | IError j => j =? Z.of_nat i
  | _ => false
  end.
Definition errors_ok (L : locale) (G : language) : bool :=
  forallb (error_ok L G) (seq 0 (length (g_errors G))).

Theorem nontext_reenter L G old v oracle :
  let c := apply_input L G old v in
  (is_bool c = true -> bool_ok L G = true) ->
  (is_error c = true -> errors_ok L G = true) ->
  is_number c = false -> is_formula c = false -> is_empty_quoted c = false ->
  apply_input L G c (display G oracle c) = c.
Proof.
  intros c Hb He Hn Hf Heq.
  destruct (is_text c) eqn:Et; [apply strings_reenter; exact Et|].
  unfold c, apply_input in *. destruct (user_input L G v) as [|s|b|r|b|i|s] eqn:E;
    cbn [is_text is_number is_formula is_empty_quoted c_val c_qp] in *; try discriminate.
  - (* empty *) rewrite Heq. unfold display. cbn [c_val c_qp localized_text]. unfold user_input. reflexivity.
  - (* boolean *)
    specialize (Hb eq_refl). unfold bool_ok in Hb. cbn [display c_val c_qp localized_text].
    destruct b.
    + destruct (user_input L G (g_true G)) as [| | | |[|]| |]; try discriminate. reflexivity.
    + destruct (user_input L G (g_true G)) as [| | | |[|]| |]; try discriminate.
      destruct (user_input L G (g_false G)) as [| | | |[|]| |]; try discriminate. reflexivity.
  - (* error *)
    specialize (He eq_refl). cbn [display c_val c_qp localized_text].
    assert (Hi : 0 <= i < Z.of_nat (length (g_errors G))).
    { unfold user_input in E. destruct v as [|c0 r0]; [discriminate|].
      destruct (c0 =? c_quote); [discriminate|].
      destruct (formula_without_prefix L (c0 :: r0)); [discriminate|].
      destruct (parse_formatted_number L (c0 :: r0)); [discriminate|].
      destruct (parse_bool (c0 :: r0)); [discriminate|].
      destruct (position (to_upper (c0 :: r0)) (g_errors G) 0) eqn:Ep; [|discriminate].
      inversion E; subst. apply position_ge in Ep. lia. }
    unfold errors_ok in He. rewrite forallb_forall in He.
    specialize (He (Z.to_nat i)). unfold error_ok in He.
    assert (Hin : In (Z.to_nat i) (seq 0 (length (g_errors G)))) by (apply in_seq; lia).
    specialize (He Hin).
    destruct (user_input L G (nth (Z.to_nat i) (g_errors G) [])) as [| | | | |j|]; try discriminate.
    apply Z.eqb_eq in He. rewrite Z2Nat.id in He by lia. subst j. reflexivity.
Qed.
