(* UserModel/AtomicTable.v — which discipline each (method, class of invalid argument) cell of
   the C04 matrix follows in base/src/user_model/common.rs, as read from the code; the
   correspondence compares the predicted observation with the implementation's on every run.
   A cell not listed follows the Checked discipline. *)
From Coq Require Import List String.
Import ListNotations.
Open Scope string_scope.

Inductive discipline := Checked | PushFirst | PartialLoop.

(* push_diff_list comes before the call that validates *)
(* set_timezone, set_locale, set_frozen_rows_count, set_frozen_columns_count and delete_sheet
   were in this list until the repair 'fix: record the history entry only after the operation
   succeeded' / 'fix: delete_sheet records history ... only after the deletion succeeded' *)
Definition push_first_cells : list string :=
  [ "paste_csv/partly-off-grid" ].

(* a loop that mutates item by item; the listed argument classes have valid items before the bad one *)
Definition partial_loop_cells : list string :=
  [ "border/off-grid"; "border/partly-off-grid"; "columns_hidden/range-past"; "columns_width/range-past";
    "range_style/off-grid"; "range_style/partly-off-grid"; "rows_height/range-past"; "rows_hidden/range-past" ].

Definition mem (k : string) (l : list string) : bool := existsb (String.eqb k) l.

Definition cell_discipline (key : string) : discipline :=
  if mem key push_first_cells then PushFirst
  else if mem key partial_loop_cells then PartialLoop
  else Checked.

(* what the property oracle observes when a call of that discipline returns Err *)
Definition expected_observation (d : discipline) : string :=
  match d with
  | Checked => "unchanged"
  | PushFirst => "changed:history"
  | PartialLoop => "changed:partial-edit"
  end.

Definition predict (key : string) : string := expected_observation (cell_discipline key).
