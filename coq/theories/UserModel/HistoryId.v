(* UserModel/HistoryId.v — the generic machine instantiated at snapshot identifiers: a state is
   the identifier the harness gave to a snapshot of the real workbook, a diff is the pair
   (state before, state after) of the operation that recorded it. This is the instance the
   correspondence runs: the implementation's undo/redo/replication must move between
   snapshots exactly as the machine moves between identifiers. *)
From Coq Require Import List ZArith.
Import ListNotations.
From IronCalc Require Import UserModel.History.
Open Scope Z_scope.

Definition idiff := (Z * Z)%type.
Definition id_apply (d : idiff) (s : Z) : Z := if s =? fst d then snd d else -1.
Definition id_unapply (d : idiff) (s : Z) : Z := if s =? snd d then fst d else -1.

Definition id_machine := machine Z idiff.
Definition id_step := step Z idiff id_apply id_unapply.
Definition id_init (s0 : Z) : id_machine := {| st := s0; undo_stack := []; redo_stack := []; queue := [] |}.

(* events on the wire: Do to snapshot n / undo / redo / a successful call that records nothing *)
Inductive wire_event := WDo (n : Z) | WUndo | WRedo | WNop.

Definition wire_step (m : id_machine) (e : wire_event) : id_machine :=
  match e with
  | WDo n => id_step m (Do n [(st Z idiff m, n)])
  | WUndo => id_step m Undo
  | WRedo => id_step m Redo
  | WNop => m
  end.

(* observation after each event: (state id, can_undo, can_redo) *)
Fixpoint wire_run (m : id_machine) (es : list wire_event) : list (Z * bool * bool) :=
  match es with
  | [] => []
  | e :: es' => let m' := wire_step m e in
                (st Z idiff m', can_undo Z idiff m', can_redo Z idiff m') :: wire_run m' es'
  end.

(* replication: the entries each step appends to the queue, grouped into batches of the given
   numbers of steps, applied to a replica that starts in the primary's initial state *)
Fixpoint step_entries (m : id_machine) (es : list wire_event) : list (list (qentry idiff)) * id_machine :=
  match es with
  | [] => ([], m)
  | e :: es' =>
    let m' := wire_step m e in
    let new := skipn (length (queue Z idiff m)) (queue Z idiff m') in
    let (rest, mf) := step_entries m' es' in (new :: rest, mf)
  end.

Fixpoint group (sizes : list nat) (xs : list (list (qentry idiff))) : list (list (qentry idiff)) :=
  match sizes with
  | [] => [concat xs]
  | n :: ns => concat (firstn n xs) :: group ns (skipn n xs)
  end.

Definition replica_after (s0 : Z) (es : list wire_event) (cuts : list nat) : Z * Z :=
  let (per_step, mf) := step_entries (id_init s0) es in
  (fold_left (replica_batch Z idiff id_apply id_unapply) (group cuts per_step) s0, st Z idiff mf).

(* the same schedule run through the flush-and-clear system of UserModel/Flush.v: the queue is
   emptied at every cut, all batches stay in flight until the end and are then delivered in
   order. Second, independent route to the replica's final state. *)
From IronCalc Require Import UserModel.Flush.
Inductive wire_fevent := WE (e : wire_event) | WFlush | WDeliver.
Definition id_system := system Z idiff.
Definition id_fstep (s : id_system) (f : wire_fevent) : id_system :=
  match f with
  | WE e => {| prim := wire_step (prim Z idiff s) e; inflight := inflight Z idiff s; repl := repl Z idiff s |}
  | WFlush => fstep Z idiff id_apply id_unapply s Flush
  | WDeliver => fstep Z idiff id_apply id_unapply s Deliver
  end.
Fixpoint interleave (cuts : list nat) (es : list wire_event) : list wire_fevent :=
  match cuts with
  | [] => map WE es ++ [WFlush]
  | n :: ns => map WE (firstn n es) ++ WFlush :: interleave ns (skipn n es)
  end.
Definition flush_after (s0 : Z) (es : list wire_event) (cuts : list nat) : Z * Z :=
  let sched := interleave cuts es ++ repeat WDeliver (S (length cuts)) in
  let s := fold_left id_fstep sched (finit Z idiff s0) in
  (repl Z idiff s, st Z idiff (prim Z idiff s)).
