(* Eval/Store.v — the store side of evaluation (model.rs): cell contents, get_cell_value,
   set_cells_with_result with its scalar / dynamic-array / CSE / 1x1-coercion branches,
   the memoising evaluate_cell with its Evaluating/Evaluated marks (the READER of a cell that
   is being evaluated receives #CIRC!; the reader that triggers an evaluation receives the raw
   result, later readers the stored one), and evaluate over an explicit cell order.
   The restart loop over dynamic-array anchors (phase 1 of Model::evaluate) only determines
   the order and is not modelled: [evaluate_in] takes the order.  No proofs here. *)
From IronCalc Require Import Base.Prelude Eval.NumOps Eval.Value Eval.Coerce Eval.Ops Eval.Funs Eval.Eval.

Section Store.
Context {num : Type} (N : NumOps num).
Notation value := (value num). Notation scalar := (scalar num). Notation array := (array num).
Notation ast := (ast num). Notation fvalue := (fvalue num). Notation spillv := (spillv num).

(* Cell (types.rs); styles dropped; a missing cell and EmptyCell are both CEmpty *)
Inductive content : Type :=
| CEmpty
| CNumber (n : num)
| CString (t : text)
| CBoolean (b : bool)
| CError (e : err)
| CFormula (f : ast) (v : fvalue)
| CArrayFormula (dyn : bool) (w h : Z) (f : ast) (v : fvalue)     (* r = (width, height) *)
| CSpill (arow acol : Z) (v : spillv).

Inductive mark : Type := Evaluating | Evaluated.

Record store : Type := mkstore {
  cont : cref -> content;
  marks : cref -> option mark;     (* Model::cells *)
  oof : bool;                      (* the model ran out of fuel (excluded by the theorems) *)
}.

Definition upd {A} (m : cref -> A) (c : cref) (x : A) : cref -> A :=
  fun d => if cref_eqb c d then x else m d.
Definition set_cont (st : store) (c : cref) (x : content) : store :=
  mkstore (upd (cont st) c x) (marks st) (oof st).
Definition set_mark (st : store) (c : cref) (m : mark) : store :=
  mkstore (cont st) (upd (marks st) c (Some m)) (oof st).
Definition clear_marks (st : store) : store := mkstore (cont st) (fun _ => None) (oof st).

Definition of_fvalue (v : fvalue) : value :=
  match v with
  | FUnevaluated => VErr EERROR
  | FNum n => VNum n | FText t => VStr t | FBool b => VBool b | FErr e => VErr e
  end.
Definition of_spillv (v : spillv) : value :=
  match v with PNum n => VNum n | PText t => VStr t | PBool b => VBool b | PErr e => VErr e end.

(* get_cell_value *)
Definition get_cell_value (x : content) : value :=
  match x with
  | CEmpty => VEmptyCell
  | CNumber n => VNum n
  | CString t => VStr t
  | CBoolean b => VBool b
  | CError e => VErr e
  | CFormula _ v => of_fvalue v
  | CArrayFormula _ _ _ _ v => of_fvalue v
  | CSpill _ _ v => of_spillv v
  end.
Definition value_at (st : store) (c : cref) : value := get_cell_value (cont st c).

Definition formula_of (x : content) : option ast :=
  match x with CFormula f _ => Some f | CArrayFormula _ _ _ f _ => Some f | _ => None end.

(* array_node_to_formula_value / array_node_to_spill_value: the two conversions every array sink of
   set_cells_with_result goes through (dynamic anchor and spill cells, CSE anchor and cells, 1x1 coercion).
   Since /repo e9b497e they carry the same safety belt as the scalar branch: a non-finite number is #NUM! *)
Definition afv (s : scalar) : fvalue :=
  match s with
  | SBool b => FBool b
  | SNum n => if nis_finite N n then FNum n else FErr ENUM
  | SStr t => FText t | SErr e => FErr e
  | SEmpty => FNum (nzero N)
  end.
Definition asv (s : scalar) : spillv :=
  match s with
  | SBool b => PBool b
  | SNum n => if nis_finite N n then PNum n else PErr ENUM
  | SStr t => PText t | SErr e => PErr e
  | SEmpty => PNum (nzero N)
  end.
Definition fv_to_spill (v : fvalue) : spillv :=
  match v with
  | FUnevaluated => PErr EERROR
  | FBool b => PBool b | FNum n => PNum n | FText t => PText t | FErr e => PErr e
  end.

(* the scalar branch (model.rs:1110): the only place with the "safety belt" *)
Definition scalar_fvalue (r : value) : option fvalue :=
  match r with
  | VNum x => Some (if nis_finite N x then FNum x else FErr ENUM)
  | VStr t => Some (FText t)
  | VBool b => Some (FBool b)
  | VErr e => Some (FErr e)
  | VEmptyCell | VEmptyArg => Some (FNum (nzero N))
  | VRange _ _ _ _ _ => None            (* Err("Cannot set a range as cell value") *)
  | VArray _ => None                    (* handled before *)
  end.

Definition area (sheet row col w h : Z) : list cref :=
  range_cells sheet row col (row + h - 1) (col + w - 1).

Definition is_anchor (c d : cref) : bool := cref_eqb c d.

(* writes the scalar [fv] into the anchor and, for a CSE formula, into its whole area *)
Definition write_scalar (c : cref) (cell : content) (fv : fvalue) (st : store) : store :=
  match cell with
  | CArrayFormula true _ _ f _ => set_cont st c (CArrayFormula true 1 1 f fv)
  | CArrayFormula false w h f _ =>
      let st1 := fold_left (fun s d => if is_anchor c d then s
                                       else set_cont s d (CSpill (c_row c) (c_col c) (fv_to_spill fv)))
                           (area (c_sheet c) (c_row c) (c_col c) w h) st in
      set_cont st1 c (CArrayFormula false w h f fv)
  | CFormula f _ => set_cont st c (CFormula f fv)
  | _ => st
  end.

Definition get_value_from_array (a : array) (row col : Z) : option scalar :=
  let width := Z.of_nat (arr_cols a) in let height := Z.of_nat (arr_rows a) in
  if (row <? 1) || (height <? row) || (col <? 1) || (width <? col) then None
  else match nth_error a (Z.to_nat (row - 1)) with
       | Some r => nth_error r (Z.to_nat (col - 1))
       | None => None
       end.

(* a cell blocks a spill unless it is empty or a spill cell of the same anchor *)
Definition blocking (c : cref) (x : content) : bool :=
  match x with
  | CEmpty => false
  | CSpill ar ac _ => negb ((ar =? c_row c) && (ac =? c_col c))
  | _ => true
  end.

(* set_cells_with_result; None = the function returned Err *)
Definition write (c : cref) (cell : content) (r : value) (st : store) : option store :=
  match formula_of cell with
  | None => Some st
  | Some f =>
    match r with
    | VArray a =>
        if (Nat.eqb (arr_rows a) 0) || (Nat.eqb (arr_cols a) 0) then Some (write_scalar c cell (FErr ECALC) st)
        else
        let aw := Z.of_nat (arr_cols a) in let ah := Z.of_nat (arr_rows a) in
        match cell with
        | CArrayFormula true _ _ _ _ =>
            if (LAST_ROW <? c_row c + ah - 1) || (LAST_COLUMN <? c_col c + aw - 1)
            then Some (write_scalar c cell (FErr ESPILL) st)
            else if existsb (fun d => negb (is_anchor c d) && blocking c (cont st d))
                            (area (c_sheet c) (c_row c) (c_col c) aw ah)
            then Some (write_scalar c cell (FErr ESPILL) st)
            else Some (fold_left (fun s d =>
                   match get_value_from_array a (c_row d - c_row c + 1) (c_col d - c_col c + 1) with
                   | Some node =>
                       if is_anchor c d then set_cont s d (CArrayFormula true aw ah f (afv node))
                       else set_cont s d (CSpill (c_row c) (c_col c) (asv node))
                   | None => s
                   end) (area (c_sheet c) (c_row c) (c_col c) aw ah) st)
        | CArrayFormula false w h _ _ =>
            Some (fold_left (fun s d =>
                   let node := get_value_from_array a (c_row d - c_row c + 1) (c_col d - c_col c + 1) in
                   if is_anchor c d then
                     set_cont s d (CArrayFormula false w h f
                        (match node with Some x => afv x | None => FErr ENIMPL end))
                   else set_cont s d (CSpill (c_row c) (c_col c)
                        (match node with Some x => asv x | None => PErr EVALUE end)))
                 (area (c_sheet c) (c_row c) (c_col c) w h) st)
        | _ =>
            (* a plain formula produced an array: 1x1 is unwrapped (through afv, guarded), larger is #VALUE! *)
            let coerced := if (aw =? 1) && (ah =? 1)
                           then match get_value_from_array a 1 1 with Some x => afv x | None => FErr EVALUE end
                           else FErr EVALUE in
            Some (set_cont st c (CFormula f coerced))
        end
    | _ =>
        match scalar_fvalue r with
        | Some fv => Some (write_scalar c cell fv st)
        | None => None
        end
    end
  end.

(* what evaluate_cell returns to the reader that triggered the evaluation (model.rs:1552) *)
Definition returned (is_array_formula : bool) (r : value) : value :=
  match r with
  | VArray a =>
      let h := arr_rows a in let w := arr_cols a in
      if negb is_array_formula && negb (Nat.eqb w 1 && Nat.eqb h 1) then VErr EVALUE
      else if Nat.eqb h 0 || Nat.eqb w 0 then VErr ECALC
      else match a with
           | (x :: _) :: _ => value_of_scalar x
           | _ => VErr ECALC
           end
  | _ => r
  end.

Definition is_array_formula (x : content) : bool :=
  match x with CArrayFormula _ _ _ _ _ => true | _ => false end.

(* clearing the previous spill of a dynamic formula before re-evaluating it *)
Definition clear_own_spill (c : cref) (w h : Z) (st : store) : store :=
  fold_left (fun s d =>
    if is_anchor c d then s
    else match cont s d with
         | CSpill ar ac _ => if (ar =? c_row c) && (ac =? c_col c) then set_cont s d CEmpty else s
         | _ => s
         end) (area (c_sheet c) (c_row c) (c_col c) w h) st.

Fixpoint evaluate_cell (fuel : nat) (c : cref) (st : store) : value * store :=
  match fuel with
  | O => (VErr EERROR, mkstore (cont st) (marks st) true)
  | Datatypes.S k =>
    match cont st c with
    | CSpill ar ac _ =>
        let (_, st1) := evaluate_cell k (mkref (c_sheet c) ar ac) st in
        (value_at st1 c, st1)
    | original =>
      match formula_of original with
      | None => (get_cell_value original, st)
      | Some f =>
        match marks st c with
        | Some Evaluating => (VErr ECIRC, st)
        | Some Evaluated => (get_cell_value original, st)
        | None =>
          let st0 := match original with
                     | CArrayFormula true w h _ _ => clear_own_spill c w h st
                     | _ => st
                     end in
          let st1 := set_mark st0 c Evaluating in
          let (r, st2) := eval_formula N (evaluate_cell k) c f st1 in
          match write c original r st2 with
          | None => (VErr EERROR, set_mark st2 c Evaluated)
          | Some st3 => (returned (is_array_formula original) r, set_mark st3 c Evaluated)
          end
        end
      end
    end
  end.

(* Model::evaluate: marks cleared, then every cell of [order] *)
Fixpoint eval_cells (fuel : nat) (order : list cref) (st : store) : store :=
  match order with
  | [] => st
  | c :: r => eval_cells fuel r (snd (evaluate_cell fuel c st))
  end.
Definition evaluate_in (fuel : nat) (order : list cref) (st : store) : store :=
  eval_cells fuel order (clear_marks st).

(* a workbook as a finite list of cells; later bindings are shadowed by earlier ones *)
Definition workbook : Type := list (cref * content).
Fixpoint lookup (wb : workbook) (c : cref) : content :=
  match wb with
  | [] => CEmpty
  | (d, x) :: r => if cref_eqb d c then x else lookup r c
  end.
Definition store_of (wb : workbook) : store := mkstore (lookup wb) (fun _ => None) false.
Definition fuel_for (wb : workbook) : nat := Datatypes.S (Datatypes.S (2 * length wb)).
Definition evaluate (order : list cref) (wb : workbook) : store :=
  evaluate_in (fuel_for wb) order (store_of wb).

(* C08: no stored number is non-finite *)
Definition fv_finite (v : fvalue) : bool := match v with FNum n => nis_finite N n | _ => true end.
Definition sv_finite (v : spillv) : bool := match v with PNum n => nis_finite N n | _ => true end.
Definition content_finite (x : content) : bool :=
  match x with
  | CNumber n => nis_finite N n
  | CFormula _ v => fv_finite v
  | CArrayFormula _ _ _ _ v => fv_finite v
  | CSpill _ _ v => sv_finite v
  | _ => true
  end.
Definition finite_store (st : store) : Prop := forall c, content_finite (cont st c) = true.
Definition no_nonfinite_b (cells : list cref) (st : store) : bool :=
  forallb (fun c => content_finite (cont st c)) cells.

(* the typed path: set_user_input -> parse_formatted_number -> set_cell_with_number.  [nof_text] stands for
   the recogniser WITHOUT its finiteness test; since /repo 6e3cec0 parse_number rejects a value that
   str::parse turned into a non-finite number, and the input is then stored like any other text that is
   not a number (booleans and error names, which cannot hold a number either, are not distinguished here) *)
Definition type_number (c : cref) (t : text) (st : store) : store :=
  match nof_text N t with
  | Some v => if nis_finite N v then set_cont st c (CNumber v) else set_cont st c (CString t)
  | None => set_cont st c (CString t)
  end.

(* the public API Model::update_cell_with_number: since /repo 0aeb22c it starts with
   `if !value.is_finite() { return Err(..) }`; None = Err, nothing written *)
Definition api_set_number (c : cref) (v : num) (st : store) : option store :=
  if nis_finite N v then Some (set_cont st c (CNumber v)) else None.

(* the xlsx importer, a cell of type "n": since /repo 3c03706 the text of <v> is read as
   cell_value.unwrap_or("0").parse::<f64>().ok().filter(|v| v.is_finite()).unwrap_or(0.0) at its three
   sites: a number cell, the number of a spill cell, the cached value of a formula *)
Definition import_number (t : option text) : num :=
  match nof_text_strict N (match t with Some x => x | None => [48] end) with
  | Some v => if nis_finite N v then v else nzero N
  | None => nzero N
  end.
Inductive import_site : Type := ImpNumberCell | ImpSpillCell (arow acol : Z) | ImpFormulaValue (f : ast).
Definition import_content (k : import_site) (t : option text) : content :=
  match k with
  | ImpNumberCell => CNumber (import_number t)
  | ImpSpillCell ar ac => CSpill ar ac (PNum (import_number t))
  | ImpFormulaValue f => CFormula f (FNum (import_number t))
  end.
Definition import_cell (c : cref) (k : import_site) (t : option text) (st : store) : store :=
  set_cont st c (import_content k t).

End Store.
Arguments CEmpty {num}.
