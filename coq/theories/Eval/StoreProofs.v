(* Eval/StoreProofs.v — C05/C07 for workbooks of plain cells (literals and ordinary formula
   cells): on an acyclic workbook whose reference results are storable as they are, the
   memoising store evaluator computes the reference semantics, whatever the order of cells. *)
From IronCalc Require Import Base.Prelude Eval.NumOps Eval.Value Eval.Coerce Eval.Ops Eval.Funs
  Eval.Eval Eval.Store Eval.Denote Eval.EvalProofs.

Lemma cref_eqb_eq a b : cref_eqb a b = true <-> a = b.
Proof.
  unfold cref_eqb. destruct a, b; cbn. rewrite !andb_true_iff, !Z.eqb_eq. split.
  - intros [[-> ->] ->]. reflexivity.
  - intro H; inversion H; auto.
Qed.
Lemma cref_eqb_refl a : cref_eqb a a = true. Proof. apply cref_eqb_eq. reflexivity. Qed.
Lemma cref_eqb_neq a b : a <> b -> cref_eqb a b = false.
Proof. intro H. destruct (cref_eqb a b) eqn:E; [apply cref_eqb_eq in E; contradiction | reflexivity]. Qed.
Lemma cref_dec (a b : cref) : a = b \/ a <> b.
Proof. destruct (cref_eqb a b) eqn:E; [left; apply cref_eqb_eq; exact E | right; intro H; apply cref_eqb_eq in H; congruence]. Qed.
Lemma upd_same {A} (m : cref -> A) c x : upd m c x c = x.
Proof. unfold upd. rewrite cref_eqb_refl. reflexivity. Qed.
Lemma upd_other {A} (m : cref -> A) c d x : c <> d -> upd m c x d = m d.
Proof. intro H. unfold upd. rewrite cref_eqb_neq by exact H. reflexivity. Qed.

Section Plain.
Context {num : Type} (N : NumOps num).
Notation value := (value num). Notation ast := (ast num).
Notation content := (content (num:=num)). Notation store := (store (num:=num)).

Definition plain_content (x : content) : Prop :=
  match x with CArrayFormula _ _ _ _ _ | CSpill _ _ _ => False | _ => True end.
(* what the user entered: the stored value of a formula cell is not an input *)
Definition input_of (x : content) : content :=
  match x with CFormula f _ => CFormula f FUnevaluated | other => other end.
Definition same_inputs (k1 k2 : cref -> content) : Prop := forall c, input_of (k1 c) = input_of (k2 c).

Lemma not_range_of_fvalue v : not_range (of_fvalue (num:=num) v).
Proof. destruct v; exact I. Qed.
Lemma not_range_get_cell_value x : not_range (get_cell_value (num:=num) x).
Proof. destruct x; cbn; try exact I; try apply not_range_of_fvalue. destruct v; exact I. Qed.
Lemma not_range_denote k cont c : not_range (denote_fuel N k cont c).
Proof. destruct k; cbn [denote_fuel]; [exact I|]. destruct (cont c); try apply not_range_get_cell_value. apply not_range_of_fvalue. Qed.

(* two environments that agree on the cells a formula mentions give the same result *)
Lemma result_of_ext env1 env2 anchor f :
  (forall d, In d (refs f) -> env1 d = env2 d) -> (forall d, not_range (env1 d)) ->
  result_of N env1 anchor f = result_of N env2 anchor f.
Proof.
  intros Hagree Hnr. unfold result_of.
  pose proof (eval_formula_rel N (S1:=unit) (S2:=unit) (fun _ _ => True) (fun d => env1 d = env2 d)
                (fun c s => (env1 c, s)) (fun c s => (env2 c, s))) as H.
  assert (Hrd : forall c, env1 c = env2 c -> mrelP (fun _ _ : unit => True) not_range (fun s => (env1 c, s)) (fun s => (env2 c, s))).
  { intros c Hc s1 s2 _. cbn. auto. }
  specialize (H Hrd anchor f Hagree tt tt I). tauto.
Qed.

Lemma not_range_result_of env anchor f : (forall d, not_range (env d)) -> not_range (result_of N env anchor f).
Proof.
  intro Hnr. unfold result_of.
  pose proof (eval_formula_rel N (S1:=unit) (S2:=unit) (fun _ _ => True) (fun _ => True)
                (fun c s => (env c, s)) (fun c s => (env c, s))) as H.
  assert (Hrd : forall c, True -> mrelP (fun _ _ : unit => True) not_range (fun s => (env c, s)) (fun s => (env c, s))).
  { intros c _ s1 s2 _. cbn. auto. }
  specialize (H Hrd anchor f (fun _ _ => I) tt tt I). tauto.
Qed.

(* the reference semantics ignores the stored values of formula cells *)
Lemma denote_same_inputs k k1 k2 : same_inputs k1 k2 -> forall c, denote_fuel N k k1 c = denote_fuel N k k2 c.
Proof.
  intro Hs. induction k as [|k IH]; intro c; cbn [denote_fuel]; [reflexivity|].
  specialize (Hs c). destruct (k1 c), (k2 c); cbn [input_of] in Hs; try discriminate; inversion Hs; subst; try reflexivity.
  f_equal. f_equal. apply result_of_ext; [intros; apply IH | intro; apply not_range_denote].
Qed.

Variable cont0 : cref -> content.
Hypothesis Hplain : forall c, plain_content (cont0 c).
Variable rank : cref -> nat.
Hypothesis Hrank : forall c f v d, cont0 c = CFormula f v -> In d (refs f) -> (rank d < rank c)%nat.

Lemma denote_stable k1 : forall k2 c, (rank c < k1)%nat -> (rank c < k2)%nat ->
  denote_fuel N k1 cont0 c = denote_fuel N k2 cont0 c.
Proof.
  induction k1 as [|k1 IH]; intros k2 c H1 H2; [lia|]. destruct k2 as [|k2]; [lia|].
  cbn [denote_fuel]. destruct (cont0 c) eqn:Ec; try reflexivity.
  f_equal. f_equal. apply result_of_ext; [|intro; apply not_range_denote].
  intros d Hd. pose proof (Hrank c f v d Ec Hd). apply IH; lia.
Qed.

(* the reference value of a cell *)
Definition dn (c : cref) : value := denote_fuel N (Datatypes.S (rank c)) cont0 c.
Lemma dn_fuel k c : (rank c < k)%nat -> denote_fuel N k cont0 c = dn c.
Proof. intro H. apply denote_stable; lia. Qed.
Lemma not_range_dn c : not_range (dn c). Proof. apply not_range_denote. Qed.

Lemma dn_formula c f v : cont0 c = CFormula f v -> dn c = of_fvalue (sink_plain N (result_of N dn c f)).
Proof.
  intro Ec. unfold dn at 1. cbn [denote_fuel]. rewrite Ec. f_equal. f_equal.
  apply result_of_ext; [|intro; apply not_range_denote].
  intros d Hd. apply dn_fuel. exact (Hrank c f v d Ec Hd).
Qed.
Lemma dn_literal c : formula_of (cont0 c) = None -> dn c = get_cell_value (cont0 c).
Proof. intro H. unfold dn. cbn [denote_fuel]. destruct (cont0 c); try reflexivity. discriminate. Qed.

(* every formula's reference result survives the sink unchanged: it is not an empty value
   (stored as 0) and not a non-finite number (stored as #NUM!) *)
Definition stable_result (r : value) : Prop := of_fvalue (sink_plain N r) = returned false r.
Hypothesis Hstorable : forall c f v, cont0 c = CFormula f v -> stable_result (result_of N dn c f).

Definition ext (a b : store) : Prop := forall d, marks a d = Some Evaluated -> marks b d = Some Evaluated.

Record Inv (E : cref -> Prop) (s : store) : Prop := mkInv {
  inv_inputs : same_inputs cont0 (cont s);
  inv_evaluating : forall c, marks s c = Some Evaluating <-> E c;
  inv_evaluated : forall c, marks s c = Some Evaluated -> value_at s c = dn c;
  inv_fuel : oof s = false;
}.

Lemma write_plain c f v r st : not_range r ->
  write N c (CFormula f v) r st = Some (set_cont st c (CFormula f (sink_plain N r))).
Proof.
  intro Hr. unfold write. cbn [formula_of]. destruct r; cbn [scalar_fvalue write_scalar sink_plain]; try reflexivity; try contradiction.
  destruct ((arr_rows a =? 0)%nat || (arr_cols a =? 0)%nat); reflexivity.
Qed.

Lemma literal_same c s : same_inputs cont0 (cont s) -> formula_of (cont s c) = None ->
  get_cell_value (cont s c) = dn c.
Proof.
  intros Hs Hf. specialize (Hs c). pose proof (Hplain c) as Hp.
  destruct (cont0 c) eqn:E0, (cont s c) eqn:E1; cbn [input_of] in Hs; try discriminate; cbn in Hp; try contradiction;
    inversion Hs; subst; rewrite dn_literal; rewrite ?E0; reflexivity.
Qed.

Theorem evaluate_cell_ok : forall k c s E,
  (rank c < k)%nat -> Inv E s -> (forall e, E e -> (rank c < rank e)%nat) ->
  fst (evaluate_cell N k c s) = dn c /\
  Inv E (snd (evaluate_cell N k c s)) /\
  ext s (snd (evaluate_cell N k c s)) /\
  (formula_of (cont0 c) <> None -> marks (snd (evaluate_cell N k c s)) c = Some Evaluated).
Proof.
  induction k as [|k IH]; intros c s E Hk HI HE; [lia|].
  cbn [evaluate_cell].
  pose proof (inv_inputs _ _ HI c) as Hin. pose proof (Hplain c) as Hp.
  destruct (cont s c) as [| | | | |f v| |] eqn:Ec.
  1-5: (assert (Hl : formula_of (cont s c) = None) by (rewrite Ec; reflexivity);
        pose proof (literal_same c s (inv_inputs _ _ HI) Hl) as Hv; rewrite Ec in Hv;
        cbn [formula_of fst snd]; split; [exact Hv | split; [exact HI | split; [intros d Hd; exact Hd|]]];
        intro Hf; exfalso; apply Hf; destruct (cont0 c); cbn [input_of] in Hin; try discriminate; reflexivity).
  3: { exfalso. destruct (cont0 c); cbn [input_of] in Hin; try discriminate; cbn in Hp; contradiction. }
  2: { exfalso. destruct (cont0 c); cbn [input_of] in Hin; try discriminate; cbn in Hp; contradiction. }
  (* a formula cell *)
  assert (E0 : exists v0, cont0 c = CFormula f v0).
  { destruct (cont0 c); cbn [input_of] in Hin; try discriminate. inversion Hin. eexists; reflexivity. }
  destruct E0 as [v0 E0].
  cbn [formula_of].
  destruct (marks s c) as [[|]|] eqn:Em.
  - exfalso. apply (inv_evaluating _ _ HI) in Em. apply HE in Em. lia.
  - cbn [fst snd]. split; [|split; [exact HI | split; [intros d Hd; exact Hd | intros _; exact Em]]].
    rewrite <- Ec. apply (inv_evaluated _ _ HI). exact Em.
  - set (st1 := set_mark s c Evaluating).
    set (E' := fun d => E d \/ d = c).
    assert (HI1 : Inv E' st1).
    { constructor.
      - exact (inv_inputs _ _ HI).
      - intro d. unfold st1, E'. cbn [marks set_mark]. destruct (cref_dec c d) as [->|Hne].
        + rewrite upd_same. split; auto.
        + rewrite upd_other by exact Hne. rewrite (inv_evaluating _ _ HI). split; [auto|]. intros [H|H]; [exact H|congruence].
      - intros d. unfold st1, value_at. cbn [marks set_mark cont]. destruct (cref_dec c d) as [->|Hne].
        + rewrite upd_same. discriminate.
        + rewrite upd_other by exact Hne. apply (inv_evaluated _ _ HI).
      - exact (inv_fuel _ _ HI). }
    pose proof (eval_formula_rel N (S1:=store) (S2:=unit)
                  (fun s1 _ => Inv E' s1 /\ ext st1 s1) (fun d => (rank d < rank c)%nat)
                  (evaluate_cell N k) (fun d u => (dn d, u))) as Hrel.
    assert (Hrd : forall d, (rank d < rank c)%nat ->
              mrelP (fun s1 (_ : unit) => Inv E' s1 /\ ext st1 s1) not_range (evaluate_cell N k d) (fun u => (dn d, u))).
    { intros d Hd s1 u [HIs Hext].
      destruct (IH d s1 E' ltac:(lia) HIs) as [A [B [C _]]].
      { intros e [He| ->]; [specialize (HE e He); lia | exact Hd]. }
      cbn [fst snd]. split; [exact A | split; [split; [exact B | intros x Hx; apply C, Hext, Hx] | rewrite A; apply not_range_dn]]. }
    specialize (Hrel Hrd c f (fun d Hd => Hrank c f v0 d E0 Hd) st1 tt (conj HI1 (fun d H => H))).
    destruct Hrel as [Hres [[HI2 Hext2] Hnr]].
    change (fst (eval_formula N (fun d u => (dn d, u)) c f tt)) with (result_of N dn c f) in Hres.
    destruct (eval_formula N (evaluate_cell N k) c f st1) as [r st2] eqn:Eev.
    cbn [fst snd] in Hres, HI2, Hext2, Hnr. subst r.
    rewrite write_plain by exact Hnr. cbn [is_array_formula].
    set (r := result_of N dn c f) in *.
    assert (Hdn : dn c = returned false r).
    { rewrite (dn_formula c f v0 E0). apply (Hstorable c f v0 E0). }
    cbn [fst snd]. split; [symmetry; exact Hdn|].
    assert (HnE : ~ E c) by (intro H; specialize (HE c H); lia).
    split; [|split].
    + constructor.
      * intro d. cbn [cont set_mark set_cont]. destruct (cref_dec c d) as [->|Hne].
        -- rewrite upd_same. rewrite E0. reflexivity.
        -- rewrite upd_other by exact Hne. apply (inv_inputs _ _ HI2).
      * intro d. cbn [marks set_mark set_cont]. destruct (cref_dec c d) as [->|Hne].
        -- rewrite upd_same. split; [discriminate | intro H; contradiction].
        -- rewrite upd_other by exact Hne. rewrite (inv_evaluating _ _ HI2). unfold E'. split; [intros [H|H]; [exact H|congruence] | auto].
      * intro d. unfold value_at. cbn [marks set_mark set_cont cont]. destruct (cref_dec c d) as [->|Hne].
        -- rewrite !upd_same. intros _. cbn [get_cell_value]. rewrite (dn_formula d f v0 E0). reflexivity.
        -- rewrite !upd_other by exact Hne. apply (inv_evaluated _ _ HI2).
      * exact (inv_fuel _ _ HI2).
    + intros d Hd. cbn [marks set_mark set_cont]. destruct (cref_dec c d) as [->|Hne].
      * rewrite upd_same. reflexivity.
      * rewrite upd_other by exact Hne. apply Hext2. unfold st1. cbn [marks set_mark]. rewrite upd_other by exact Hne. exact Hd.
    + intros _. cbn [marks set_mark set_cont]. apply upd_same.
Qed.

(* Model::evaluate over any order of cells *)
Lemma eval_cells_ok k order : forall s, (forall c, (rank c < k)%nat) -> Inv (fun _ => False) s ->
  Inv (fun _ => False) (eval_cells N k order s) /\ ext s (eval_cells N k order s) /\
  (forall c, In c order -> formula_of (cont0 c) <> None -> marks (eval_cells N k order s) c = Some Evaluated).
Proof.
  induction order as [|c order IH]; intros s Hk HI; cbn [eval_cells].
  - split; [exact HI | split; [intros d H; exact H | intros c []]].
  - destruct (evaluate_cell_ok k c s _ (Hk c) HI (fun e (H : False) => match H with end)) as [_ [HI1 [Hext1 Hm]]].
    destruct (IH _ Hk HI1) as [HI2 [Hext2 Hall]].
    split; [exact HI2 | split; [intros d Hd; apply Hext2, Hext1, Hd |]].
    intros d [->|Hd] Hf; [apply Hext2, Hm, Hf | apply Hall; assumption].
Qed.

Lemma inv_clear st0 : same_inputs cont0 (cont st0) -> oof st0 = false -> Inv (fun _ => False) (clear_marks st0).
Proof.
  intros Hs Ho. constructor; cbn [clear_marks cont marks oof]; try assumption.
  - intro c. split; [discriminate | intros []].
  - intros c H; discriminate.
Qed.

(* C05 on acyclic workbooks: every cell of the order ends up holding the reference value *)
Theorem evaluate_is_denote k order st0 :
  (forall c, (rank c < k)%nat) -> same_inputs cont0 (cont st0) -> oof st0 = false ->
  forall c, (In c order \/ formula_of (cont0 c) = None) ->
  value_at (evaluate_in N k order st0) c = dn c.
Proof.
  intros Hk Hs Ho c Hc. unfold evaluate_in.
  destruct (eval_cells_ok k order _ Hk (inv_clear st0 Hs Ho)) as [HI [_ Hall]].
  destruct (formula_of (cont0 c)) eqn:Ef.
  - destruct Hc as [Hc|Hc]; [|discriminate].
    apply (inv_evaluated _ _ HI). apply Hall; [exact Hc | congruence].
  - unfold value_at. apply literal_same; [exact (inv_inputs _ _ HI)|].
    pose proof (inv_inputs _ _ HI c) as Hin. destruct (cont0 c), (cont (eval_cells N k order (clear_marks st0)) c); cbn [input_of] in Hin; try discriminate; try reflexivity; discriminate.
Qed.

Theorem evaluate_preserves k order st0 :
  (forall c, (rank c < k)%nat) -> same_inputs cont0 (cont st0) -> oof st0 = false ->
  same_inputs cont0 (cont (evaluate_in N k order st0)) /\ oof (evaluate_in N k order st0) = false.
Proof.
  intros Hk Hs Ho. unfold evaluate_in.
  destruct (eval_cells_ok k order _ Hk (inv_clear st0 Hs Ho)) as [HI _].
  split; [exact (inv_inputs _ _ HI) | exact (inv_fuel _ _ HI)].
Qed.

(* consistency: each formula cell holds what its formula produces over the stored values *)
Theorem evaluate_consistent k order st0 :
  (forall c, (rank c < k)%nat) -> same_inputs cont0 (cont st0) -> oof st0 = false ->
  (forall c, formula_of (cont0 c) <> None -> In c order) ->
  forall c f v, cont0 c = CFormula f v ->
  value_at (evaluate_in N k order st0) c =
  of_fvalue (sink_plain N (result_of N (value_at (evaluate_in N k order st0)) c f)).
Proof.
  intros Hk Hs Ho Hcov c f v Ec.
  assert (Hall : forall d, value_at (evaluate_in N k order st0) d = dn d).
  { intro d. apply evaluate_is_denote; try assumption.
    destruct (formula_of (cont0 d)) eqn:Ef; [left; apply Hcov; congruence | right; reflexivity]. }
  rewrite Hall, (dn_formula c f v Ec). f_equal. f_equal. symmetry.
  apply result_of_ext; [intros; apply Hall|]. intro d. rewrite Hall. apply not_range_dn.
Qed.

End Plain.
