(* Eval/Eval.v — evaluate_node_in_context (model.rs:551) for the core language, over a small
   AST (references already resolved to absolute sheet/row/column by the harness).
   Reading a cell goes through a parameter [rd : cref -> S -> value * S] (evaluate_cell, which
   memoises and may mutate the store), so the same definition gives
     - the store evaluator of Store.v (S := store, rd := evaluate_cell fuel), and
     - the pure expression semantics [eval env anchor e] (S := unit, rd := env).
   The order in which operands, arguments and range cells are forced, laziness (IF, IFERROR,
   AND/OR short circuit) and early exits on errors are those of the code.  No proofs here. *)
From IronCalc Require Import Base.Prelude Eval.NumOps Eval.Value Eval.Coerce Eval.Ops Eval.Funs.

Section Ast.
Context {num : Type}.
Inductive ast : Type :=
| ENum (n : num)
| EStr (t : text)
| EBool (b : bool)
| EErr (e : err)
| EEmptyArg
| ERef (sheet row col : Z)
| ERange (sheet r1 c1 r2 c2 : Z)          (* r1 <= r2, c1 <= c2: the code takes min/max *)
| EArray (a : array num)
| EUnary (k : unop) (e : ast)
| EBin (o : binop) (l r : ast)
| EConcat (l r : ast)
| ECmp (k : cmpop) (l r : ast)
| EImplicit (e : ast)                      (* the @ operator, inserted by static analysis *)
| EFun (f : fname) (args : list ast).
End Ast.
Arguments ast : clear implicits.

Definition zseq (start : Z) (n : nat) : list Z := map (fun i => start + Z.of_nat i) (seq 0 n).
Definition zspan (a b : Z) : list Z := zseq a (Z.to_nat (b - a + 1)).
Definition row_cells (sheet r c1 c2 : Z) : list cref := map (fun c => mkref sheet r c) (zspan c1 c2).
(* row-major, as every loop over a range in the code *)
Definition range_cells (sheet r1 c1 r2 c2 : Z) : list cref :=
  flat_map (fun r => row_cells sheet r c1 c2) (zspan r1 r2).

(* implicit_intersection.rs *)
Definition implicit_intersection (anchor : cref) (sheet r1 c1 r2 c2 : Z) : option cref :=
  if negb (c_sheet anchor =? sheet) then None
  else if (r1 <=? c_row anchor) && (c_row anchor <=? r2) then
         (if negb (c1 =? c2) then None else Some (mkref (c_sheet anchor) (c_row anchor) c1))
  else if (c1 <=? c_col anchor) && (c_col anchor <=? c2) then
         (if negb (r1 =? r2) then None else Some (mkref (c_sheet anchor) r1 (c_col anchor)))
  else if (r1 =? r2) && (c1 =? c2) then Some (mkref (c_sheet anchor) r1 c2)
  else None.

Section EvalSt.
Context {num : Type} (N : NumOps num) {S : Type}.
Notation value := (value num). Notation scalar := (scalar num). Notation array := (array num).
Notation ast := (ast num).

Definition M (A : Type) : Type := S -> A * S.
Definition ret {A} (a : A) : M A := fun s => (a, s).
Definition bind {A B} (m : M A) (k : A -> M B) : M B := fun s => let (a, s1) := m s in k a s1.

Variable rd : cref -> M value.

Fixpoint mapM {A B} (f : A -> M B) (l : list A) : M (list B) :=
  match l with
  | [] => ret []
  | x :: r => bind (f x) (fun y => bind (mapM f r) (fun ys => ret (y :: ys)))
  end.

(* evaluate_range / the loop of get_number_or_array: every cell is forced, row by row *)
Definition read_range (conv : value -> scalar) (sheet r1 c1 r2 c2 : Z) : M array :=
  mapM (fun r => mapM (fun c => bind (rd c) (fun v => ret (conv v))) (row_cells sheet r c1 c2)) (zspan r1 r2).

(* the conversion in get_number_or_array: a range/array inside a cell "can never happen" -> 0 *)
Definition scalar_of_cell_value0 (v : value) : scalar :=
  match v with
  | VRange _ _ _ _ _ | VArray _ => SNum (nzero N)
  | _ => scalar_of_value v
  end.

(* a loop over the cells of a range with early exit *)
Fixpoint scan_cells (f : fname) (cs : list cref) (a : acc) : M (step acc) :=
  match cs with
  | [] => ret (Continue a)
  | c :: r => bind (rd c) (fun v =>
              match agg_cell N f a v with
              | Continue a' => scan_cells f r a'
              | Stop x => ret (Stop x)
              end)
  end.

(* get_number_or_array on an evaluated operand *)
Definition number_or_array (v : value) : M (res (num_or_array (num:=num))) :=
  match v with
  | VNum f => ret (ROk (NANum f))
  | VStr s => ret (match nof_text N s with Some f => ROk (NANum f) | None => RErr EVALUE end)
  | VBool b => ret (ROk (NANum (num_of_bool N b)))
  | VEmptyCell | VEmptyArg => ret (ROk (NANum (nzero N)))
  | VRange sheet r1 c1 r2 c2 =>
      bind (read_range scalar_of_cell_value0 sheet r1 c1 r2 c2) (fun a => ret (ROk (NAArr a)))
  | VArray a => ret (ROk (NAArr a))
  | VErr e => ret (RErr e)
  end.

Definition value_or_array (v : value) : M (res (val_or_array (num:=num))) :=
  match v with
  | VErr e => ret (RErr e)
  | VRange sheet r1 c1 r2 c2 =>
      bind (read_range scalar_of_cell_value sheet r1 c1 r2 c2) (fun a => ret (ROk (VAArr a)))
  | VArray a => ret (ROk (VAArr a))
  | other => ret (ROk (VAVal other))
  end.

Definition string_or_array (v : value) : M (res (str_or_array (num:=num))) :=
  match v with
  | VErr e => ret (RErr e)
  | VRange sheet r1 c1 r2 c2 =>
      bind (read_range scalar_of_cell_value sheet r1 c1 r2 c2) (fun a => ret (ROk (SAArr a)))
  | VArray a => ret (ROk (SAArr a))
  | other => ret (match cast_to_string N other with ROk s => ROk (SAStr s) | RErr e => RErr e end)
  end.

(* a branch argument of IF / IFERROR in their array form *)
Definition to_ifarg (v : value) : M (ifarg (num:=num)) :=
  match v with
  | VRange sheet r1 c1 r2 c2 =>
      bind (read_range scalar_of_cell_value sheet r1 c1 r2 c2) (fun a => ret (IAArr a))
  | VArray a => ret (IAArr a)
  | other => ret (IAScalar (scalar_of_value other))
  end.

(* one argument of an aggregate, already evaluated to [v]; [reeval] evaluates it again *)
Definition agg_arg (f : fname) (isref : bool) (a : acc) (v : value) (reeval : M value) : M (step acc) :=
  match v with
  | VRange sheet r1 c1 r2 c2 => scan_cells f (range_cells sheet r1 c1 r2 c2) a
  | VArray arr =>
      match f with
      | FCount => ret (Continue a)
      | FConcat => ret (Stop (VErr ENIMPL))
      | _ => ret (agg_array N f arr a)
      end
  | VStr _ =>
      match f with
      | FAnd | FOr => if isref then ret (agg_direct N f isref a v v)
                      else bind reeval (fun v2 => ret (agg_direct N f isref a v v2))
      | _ => ret (agg_direct N f isref a v v)
      end
  | _ => ret (agg_direct N f isref a v v)
  end.

Definition is_ref (e : ast) : bool := match e with ERef _ _ _ => true | _ => false end.

Variable anchor : cref.

Fixpoint eval_st (e : ast) : M value :=
  match e with
  | ENum n => ret (VNum n)
  | EStr t => ret (VStr t)
  | EBool b => ret (VBool b)
  | EErr x => ret (VErr x)
  | EEmptyArg => ret VEmptyArg
  | ERef sheet row col => rd (mkref sheet row col)
  | ERange sheet r1 c1 r2 c2 => ret (VRange sheet r1 c1 r2 c2)
  | EArray a => ret (VArray a)
  | EUnary k x =>
      bind (eval_st x) (fun v =>
      ret (match cast_to_number N v with ROk f => unary N k f | RErr er => VErr er end))
  | EBin o l r =>
      bind (eval_st l) (fun vl => bind (number_or_array vl) (fun nl =>
      match nl with
      | RErr er => ret (VErr er)
      | ROk xl =>
          bind (eval_st r) (fun vr => bind (number_or_array vr) (fun nr =>
          match nr with
          | RErr er => ret (VErr er)
          | ROk xr => ret (arith N o xl xr)
          end))
      end))
  | EConcat l r =>
      bind (eval_st l) (fun vl => bind (string_or_array vl) (fun nl =>
      match nl with
      | RErr er => ret (VErr er)
      | ROk xl =>
          bind (eval_st r) (fun vr => bind (string_or_array vr) (fun nr =>
          match nr with
          | RErr er => ret (VErr er)
          | ROk xr => ret (concat N xl xr)
          end))
      end))
  | ECmp k l r =>
      bind (eval_st l) (fun vl => bind (value_or_array vl) (fun nl =>
      match nl with
      | RErr er => ret (VErr er)
      | ROk xl =>
          bind (eval_st r) (fun vr => bind (value_or_array vr) (fun nr =>
          match nr with
          | RErr er => ret (VErr er)
          | ROk xr => ret (comparison_op N k xl xr)
          end))
      end))
  | EImplicit c =>
      (* evaluate_node_with_reference: a reference or range is not forced *)
      bind (match c with
            | ERef sheet row col => ret (VRange sheet row col row col)
            | ERange sheet r1 c1 r2 c2 => ret (VRange sheet r1 c1 r2 c2)
            | _ => eval_st c
            end) (fun w =>
      match w with
      | VRange sheet r1 c1 r2 c2 =>
          match implicit_intersection anchor sheet r1 c1 r2 c2 with
          | Some cr => rd cr
          | None => ret (VErr EVALUE)
          end
      | _ => eval_st c       (* the child is evaluated a second time *)
      end)
  | EFun f args =>
      if is_aggregate f then
        if needs_args f && (match args with [] => true | _ => false end) then ret (VErr EERROR)
        else
          (fix loop (l : list ast) (a : acc) : M value :=
             match l with
             | [] => ret (agg_finish N f a)
             | x :: rest =>
                 bind (match f, x with
                       | FSum, ERef sheet row col => ret (VRange sheet row col row col)
                       | _, _ => eval_st x
                       end) (fun v =>
                 bind (agg_arg f (is_ref x) a v (eval_st x)) (fun st =>
                 match st with
                 | Continue a' => loop rest a'
                 | Stop out => ret out
                 end))
             end) args (agg_init N f)
      else
      match f with
      | FIf =>
          match args with
          | c :: t :: rest =>
              match rest with
              | [] | [_] =>
                bind (eval_st c) (fun vc =>
                match vc with
                | VErr er => ret (VErr er)
                | VRange _ _ _ _ _ | VArray _ =>
                    bind (match vc with
                          | VRange sheet r1 c1 r2 c2 => read_range scalar_of_cell_value sheet r1 c1 r2 c2
                          | VArray a => ret a
                          | _ => ret []
                          end) (fun cond =>
                    bind (eval_st t) (fun vt => bind (to_ifarg vt) (fun ta =>
                    match rest with
                    | el :: _ =>
                        bind (eval_st el) (fun ve => bind (to_ifarg ve) (fun fa =>
                        ret (VArray (if_array N cond ta (Some fa)))))
                    | [] => ret (VArray (if_array N cond ta None))
                    end)))
                | other =>
                    match cast_to_bool N other with
                    | RErr er => ret (VErr er)
                    | ROk true => eval_st t
                    | ROk false => match rest with el :: _ => eval_st el | [] => ret (VBool false) end
                    end
                end)
              | _ => ret (VErr EERROR)
              end
          | _ => ret (VErr EERROR)
          end
      | FIferror =>
          match args with
          | [x; fb] =>
              bind (eval_st x) (fun v =>
              match v with
              | VRange _ _ _ _ _ | VArray _ =>
                  bind (match v with
                        | VRange sheet r1 c1 r2 c2 => read_range scalar_of_cell_value sheet r1 c1 r2 c2
                        | VArray a => ret a
                        | _ => ret []
                        end) (fun va =>
                  bind (eval_st fb) (fun vf => bind (to_ifarg vf) (fun fa =>
                  ret (VArray (iferror_array va fa)))))
              | VErr _ => eval_st fb
              | other => ret other
              end)
          | _ => ret (VErr EERROR)
          end
      | FNot =>
          match args with
          | [x] => bind (eval_st x) (fun v =>
                   ret (match cast_to_bool N v with ROk b => VBool (negb b) | RErr er => VErr er end))
          | _ => ret (VErr EERROR)
          end
      | FAbs =>
          match args with
          | [x] => bind (eval_st x) (fun v => bind (number_or_array v) (fun na =>
                   ret (match na with
                        | ROk (NANum f) => VNum (nabs N f)
                        | ROk (NAArr a) => VArray (abs_array N a)
                        | RErr er => VErr er
                        end)))
          | _ => ret (VErr EERROR)
          end
      | FRound =>
          match args with
          | [x; d] =>
              bind (eval_st x) (fun vx =>
              match cast_to_number N vx with
              | RErr er => ret (VErr er)
              | ROk fx =>
                  bind (eval_st d) (fun vd =>
                  ret (match cast_to_number N vd with
                       | RErr er => VErr er
                       | ROk fd => VNum (nround N fx fd)
                       end))
              end)
          | _ => ret (VErr EERROR)
          end
      | FLen =>
          match args with
          | [x] => bind (eval_st x) (fun v => ret (len_value N v))
          | _ => ret (VErr EERROR)
          end
      | FIsnumber =>
          match args with
          | [x] => bind (eval_st x) (fun v => ret (VBool (is_number_value v)))
          | _ => ret (VErr EERROR)
          end
      | FIstext =>
          match args with
          | [x] => bind (eval_st x) (fun v => ret (VBool (is_text_value v)))
          | _ => ret (VErr EERROR)
          end
      | FIsblank =>
          match args with
          | [x] => bind (eval_st x) (fun v => ret (VBool (is_blank_value v)))
          | _ => ret (VErr EERROR)
          end
      | _ => ret (VErr EERROR)
      end
  end.

(* evaluate_cell, after the node is evaluated: "a range needs to be transformed into an array"
   (model.rs:1508); a single-cell range is read, a larger one is read into an array unless it
   would not fit below/right of the anchor *)
Definition finish_range (v : value) : M value :=
  match v with
  | VRange sheet r1 c1 r2 c2 =>
      if (r1 =? r2) && (c1 =? c2) then rd (mkref sheet r1 c1)
      else if (LAST_ROW <? c_row anchor + (r2 - r1 + 1) - 1) || (LAST_COLUMN <? c_col anchor + (c2 - c1 + 1) - 1)
           then ret (VErr ESPILL)
           else bind (read_range scalar_of_cell_value sheet r1 c1 r2 c2) (fun a => ret (VArray a))
  | _ => ret v
  end.

(* the result of a formula cell, as handed to set_cells_with_result *)
Definition eval_formula (f : ast) : M value := bind (eval_st f) finish_range.

End EvalSt.

(* the pure expression semantics over an environment of cell values *)
Definition eval {num : Type} (N : NumOps num) (env : cref -> value num) (anchor : cref) (e : ast num) : value num :=
  fst (eval_st N (S := unit) (fun c s => (env c, s)) anchor e tt).

Definition result_of {num : Type} (N : NumOps num) (env : cref -> value num) (anchor : cref) (f : ast num) : value num :=
  fst (eval_formula N (S := unit) (fun c s => (env c, s)) anchor f tt).
