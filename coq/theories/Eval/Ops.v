(* Eval/Ops.v — the operators on already-evaluated operands: handle_arithmetic's four cases
   with size-1 broadcasting, handle_concatenate, handle_comparison and compare_values
   (functions/util.rs).  Reading the operands (which may force cells) is in Eval.v.
   No proofs here. *)
From IronCalc Require Import Base.Prelude Eval.NumOps Eval.Value Eval.Coerce.

Inductive binop : Type := OAdd | OSub | OMul | ODiv | OPow.
Inductive cmpop : Type := CEq | CLt | CGt | CLe | CGe | CNe.
Inductive unop : Type := UMinus | UPercent.

(* lexicographic order on code points = byte order of UTF-8 = String::cmp *)
Fixpoint text_cmp (a b : text) : comparison :=
  match a, b with
  | [], [] => Eq
  | [], _ :: _ => Lt
  | _ :: _, [] => Gt
  | x :: a', y :: b' => match Z.compare x y with Eq => text_cmp a' b' | c => c end
  end.

Definition bool_cmp (a b : bool) : comparison :=
  if Bool.eqb a b then Eq else if a then Gt else Lt.

Definition error_sort_rank (e : err) : Z :=
  match e with
  | ENULL => 1 | EDIV => 2 | EVALUE => 3 | EREF => 4 | ENAME => 5 | ENUM => 6 | ENA => 7 | _ => 8
  end.

(* bcast_idx *)
Definition bcast_idx (len i : nat) : option nat :=
  if Nat.eqb len 1 then Some O else if Nat.ltb i len then Some i else None.

Section Ops.
Context {num : Type} (N : NumOps num).
Notation value := (value num). Notation scalar := (scalar num). Notation array := (array num).

(* the closure passed to handle_arithmetic *)
Definition apply_op (o : binop) (f1 f2 : num) : res num :=
  match o with
  | OAdd => ROk (nadd N f1 f2)
  | OSub => ROk (nsub N f1 f2)
  | OMul => ROk (nmul N f1 f2)
  | ODiv => if nis_zero N f2 then RErr EDIV else ROk (ndiv N f1 f2)
  | OPow => ROk (npow N f1 f2)
  end.

Definition res_scalar (r : res num) : scalar :=
  match r with ROk x => SNum x | RErr e => SErr e end.
Definition res_value (r : res num) : value :=
  match r with ROk x => VNum x | RErr e => VErr e end.

(* one element of an array result: (to_f64 v1, to_f64 v2) with the left error first *)
Definition arith_nodes (o : binop) (v1 v2 : scalar) : scalar :=
  match to_f64 N v1, to_f64 N v2 with
  | ROk f1, ROk f2 => res_scalar (apply_op o f1 f2)
  | RErr e, _ => SErr e
  | _, RErr e => SErr e
  end.

Definition map_array (f : scalar -> scalar) (a : array) : array := map (map f) a.

Definition arr_rows (a : array) : nat := length a.
Definition arr_cols (a : array) : nat := match a with [] => O | r :: _ => length r end.

Definition arr_get (a : array) (n m i j : nat) : option scalar :=
  match bcast_idx n i with
  | Some ri => match nth_error a ri with
               | Some row => match bcast_idx m j with Some cj => nth_error row cj | None => None end
               | None => None
               end
  | None => None
  end.

(* the (Array, Array) case of the three element-wise operators *)
Definition bcast2 (f : scalar -> scalar -> scalar) (a1 a2 : array) : array :=
  let n1 := arr_rows a1 in let m1 := arr_cols a1 in
  let n2 := arr_rows a2 in let m2 := arr_cols a2 in
  map (fun i => map (fun j =>
        match arr_get a1 n1 m1 i j, arr_get a2 n2 m2 i j with
        | Some v1, Some v2 => f v1 v2
        | _, _ => SErr EVALUE
        end) (seq 0 (Nat.max m1 m2))) (seq 0 (Nat.max n1 n2)).

(* NumberOrArray *)
Inductive num_or_array : Type := NANum (f : num) | NAArr (a : array).

Definition arith (o : binop) (l r : num_or_array) : value :=
  match l, r with
  | NANum f1, NANum f2 => res_value (apply_op o f1 f2)
  | NANum f1, NAArr a2 =>
      VArray (map_array (fun node => match to_f64 N node with
                                     | ROk f2 => res_scalar (apply_op o f1 f2)
                                     | RErr e => SErr e end) a2)
  | NAArr a1, NANum f2 =>
      VArray (map_array (fun node => match to_f64 N node with
                                     | ROk f1 => res_scalar (apply_op o f1 f2)
                                     | RErr e => SErr e end) a1)
  | NAArr a1, NAArr a2 => VArray (bcast2 (arith_nodes o) a1 a2)
  end.

(* concatenation *)
Inductive str_or_array : Type := SAStr (s : text) | SAArr (a : array).

Definition concat_nodes (a b : scalar) : scalar :=
  match array_node_to_string N a, array_node_to_string N b with
  | ROk sa, ROk sb => SStr (sa ++ sb)
  | RErr e, _ => SErr e
  | _, RErr e => SErr e
  end.

Definition concat (l r : str_or_array) : value :=
  match l, r with
  | SAStr s1, SAStr s2 => VStr (s1 ++ s2)
  | SAStr s1, SAArr a2 => VArray (map_array (fun n => concat_nodes (SStr s1) n) a2)
  | SAArr a1, SAStr s2 => VArray (map_array (fun n => concat_nodes n (SStr s2)) a1)
  | SAArr a1, SAArr a2 => VArray (bcast2 concat_nodes a1 a2)
  end.

(* compare_values (functions/util.rs), same order of arms; Lt = -1, Eq = 0, Gt = 1 *)
Definition compare_values (l r : value) : comparison :=
  match l, r with
  | VNum a, VNum b => ncmp N a b
  | VNum _, VStr _ => Lt
  | VNum _, VBool _ => Lt
  | VStr a, VStr b => text_cmp (str_upper N a) (str_upper N b)
  | VStr _, VBool _ => Lt
  | VBool a, VBool b => bool_cmp a b
  | VEmptyCell, VStr b => text_cmp (str_upper N []) (str_upper N b)
  | VStr a, VEmptyCell => text_cmp (str_upper N a) (str_upper N [])
  | VEmptyCell, VNum b => ncmp N (nzero N) b
  | VNum a, VEmptyCell => ncmp N a (nzero N)
  | VEmptyCell, VBool b => bool_cmp false b
  | VBool a, VEmptyCell => bool_cmp a false
  | VEmptyCell, VEmptyCell => Eq
  | VErr e1, VErr e2 => Z.compare (error_sort_rank e1) (error_sort_rank e2)
  | VErr _, _ => Gt
  | _, VErr _ => Lt
  | _, _ => Gt
  end.

Definition cmp_holds (k : cmpop) (c : comparison) : bool :=
  match k, c with
  | CEq, Eq => true | CEq, _ => false
  | CLt, Lt => true | CLt, _ => false
  | CGt, Gt => true | CGt, _ => false
  | CLe, Gt => false | CLe, _ => true
  | CGe, Lt => false | CGe, _ => true
  | CNe, Eq => false | CNe, _ => true
  end.

Definition apply_cmp (k : cmpop) (l r : value) : bool := cmp_holds k (compare_values l r).

(* ValueOrArray *)
Inductive val_or_array : Type := VAVal (v : value) | VAArr (a : array).

Definition cmp_nodes (k : cmpop) (a b : scalar) : scalar :=
  SBool (apply_cmp k (value_of_scalar a) (value_of_scalar b)).

Definition comparison_op (k : cmpop) (l r : val_or_array) : value :=
  match l, r with
  | VAVal lv, VAVal rv => VBool (apply_cmp k lv rv)
  | VAArr la, VAVal rv => VArray (map_array (fun n => SBool (apply_cmp k (value_of_scalar n) rv)) la)
  | VAVal lv, VAArr ra => VArray (map_array (fun n => SBool (apply_cmp k lv (value_of_scalar n))) ra)
  | VAArr la, VAArr ra => VArray (bcast2 (cmp_nodes k) la ra)
  end.

(* UnaryKind *)
Definition unary (k : unop) (r : num) : value :=
  match k with
  | UMinus => VNum (nneg N r)
  | UPercent => VNum (ndiv N r (nof_Z N 100))
  end.

End Ops.
