(* Eval/TermProofs.v — termination of the store evaluator on workbooks of plain cells, for
   EVERY dependency shape (cycles included): with fuel above the number of cells the model
   never takes its out-of-fuel exit.  Measure: the cells of the workbook not yet marked; every
   nested evaluate_cell that consumes fuel marks a new one, and marks are never removed. *)
From IronCalc Require Import Base.Prelude Eval.NumOps Eval.Value Eval.Coerce Eval.Ops Eval.Funs
  Eval.Eval Eval.Store Eval.Denote Eval.EvalProofs Eval.StoreProofs.

Section Term.
Context {num : Type} (N : NumOps num).
Notation content := (content (num:=num)). Notation store := (store (num:=num)).
Variable wb : workbook (num:=num).
Hypothesis Hplain : forall c, plain_content (lookup wb c).
Let cont0 := lookup wb.
Let dom : list cref := map fst wb.

Lemma lookup_in_gen (w : workbook (num:=num)) c : lookup w c <> CEmpty -> In c (map fst w).
Proof.
  induction w as [|[d x] r IH]; cbn [lookup map fst]; [congruence|].
  destruct (cref_eqb d c) eqn:E; [apply cref_eqb_eq in E; subst; left; reflexivity | right; apply IH; assumption].
Qed.
Lemma lookup_in c : lookup wb c <> CEmpty -> In c dom.
Proof. apply lookup_in_gen. Qed.
Lemma filter_len {A} (f : A -> bool) (l : list A) : (length (filter f l) <= length l)%nat.
Proof. induction l as [|x l IH]; cbn [filter length]; [lia | destruct (f x); cbn [length]; lia]. Qed.

Definition unmarkedb (s : store) (c : cref) : bool := match marks s c with None => true | Some _ => false end.
Definition unmarked (s : store) : nat := length (filter (unmarkedb s) dom).
Definition mono (a b : store) : Prop := forall d, marks a d <> None -> marks b d <> None.

Lemma filter_le {A} (f g : A -> bool) l : (forall x, g x = true -> f x = true) -> (length (filter g l) <= length (filter f l))%nat.
Proof.
  intro H. induction l as [|x l IH]; cbn [filter]; [lia|].
  destruct (g x) eqn:Eg; [rewrite (H x Eg); cbn [length]; lia | destruct (f x); cbn [length]; lia].
Qed.
Lemma filter_lt {A} (f g : A -> bool) l x0 : (forall x, g x = true -> f x = true) -> In x0 l -> f x0 = true -> g x0 = false ->
  (length (filter g l) < length (filter f l))%nat.
Proof.
  intros H Hin Hf Hg. induction l as [|x l IH]; [contradiction|]. cbn [filter]. destruct Hin as [->|Hin].
  - rewrite Hf, Hg. cbn [length]. pose proof (filter_le f g l H). lia.
  - specialize (IH Hin). destruct (g x) eqn:Eg; [rewrite (H x Eg); cbn [length]; lia | destruct (f x); cbn [length]; lia].
Qed.

Lemma unmarked_mono a b : mono a b -> (unmarked b <= unmarked a)%nat.
Proof.
  intro H. apply filter_le. intros x. unfold unmarkedb. specialize (H x).
  destruct (marks b x); [discriminate|]. destruct (marks a x); [exfalso; apply H; congruence | reflexivity].
Qed.
Lemma unmarked_set_mark s c m : In c dom -> marks s c = None -> (unmarked (set_mark s c m) < unmarked s)%nat.
Proof.
  intros Hin Hm. unfold unmarked. apply filter_lt with (x0 := c); try assumption.
  - intros x. unfold unmarkedb. cbn [set_mark marks]. unfold upd. destruct (cref_eqb c x); [discriminate | auto].
  - unfold unmarkedb. rewrite Hm. reflexivity.
  - unfold unmarkedb. cbn [set_mark marks]. rewrite upd_same. reflexivity.
Qed.

Definition J (s : store) : Prop := same_inputs cont0 (cont s) /\ oof s = false.

Theorem evaluate_cell_terminates : forall k c s, J s -> (unmarked s < k)%nat ->
  J (snd (evaluate_cell N k c s)) /\ mono s (snd (evaluate_cell N k c s)) /\ not_range (fst (evaluate_cell N k c s)).
Proof.
  induction k as [|k IH]; intros c s [Hin Hoof] Hk; [lia|].
  cbn [evaluate_cell]. pose proof (Hin c) as Hc. pose proof (Hplain c) as Hp. fold cont0 in Hp.
  destruct (cont s c) as [| | | | |f v| |] eqn:Ec.
  1-5: (cbn [formula_of fst snd]; split; [split; assumption | split; [intros d Hd; exact Hd | exact I]]).
  3: { exfalso. destruct (cont0 c); cbn [input_of] in Hc; try discriminate; cbn in Hp; contradiction. }
  2: { exfalso. destruct (cont0 c); cbn [input_of] in Hc; try discriminate; cbn in Hp; contradiction. }
  cbn [formula_of].
  destruct (marks s c) as [[|]|] eqn:Em.
  - cbn [fst snd]. split; [split; assumption | split; [intros d Hd; exact Hd | exact I]].
  - cbn [fst snd]. split; [split; assumption | split; [intros d Hd; exact Hd | apply not_range_of_fvalue]].
  - set (st1 := set_mark s c Evaluating).
    assert (Hdom : In c dom).
    { apply lookup_in. fold cont0. destruct (cont0 c); cbn [input_of] in Hc; discriminate. }
    assert (Hlt : (unmarked st1 < k)%nat) by (pose proof (unmarked_set_mark s c Evaluating Hdom Em); unfold st1; lia).
    pose proof (eval_formula_rel N (S1:=store) (S2:=store)
                  (fun s1 s2 => s1 = s2 /\ J s1 /\ mono st1 s1) (fun _ => True)
                  (evaluate_cell N k) (evaluate_cell N k)) as Hrel.
    assert (Hrd : forall d, True ->
              mrelP (fun s1 s2 : store => s1 = s2 /\ J s1 /\ mono st1 s1) not_range (evaluate_cell N k d) (evaluate_cell N k d)).
    { intros d _ s1 s2 [<- [HJ Hm]].
      destruct (IH d s1 HJ) as [A [B C]]; [pose proof (unmarked_mono st1 s1 Hm); lia|].
      split; [reflexivity | split; [split; [reflexivity | split; [exact A | intros x Hx; apply B, Hm, Hx]] | exact C]]. }
    specialize (Hrel Hrd c f (fun _ _ => I) st1 st1).
    destruct Hrel as [_ [[_ [[Hin2 Hoof2] Hm2]] Hnr]].
    { split; [reflexivity | split; [split; assumption | intros d Hd; exact Hd]]. }
    destruct (eval_formula N (evaluate_cell N k) c f st1) as [r st2] eqn:Eev. cbn [fst snd] in *.
    rewrite write_plain by exact Hnr. cbn [fst snd is_array_formula].
    split; [|split].
    + split; [|exact Hoof2]. intro d. cbn [cont set_mark set_cont]. destruct (cref_dec c d) as [->|Hne].
      * rewrite upd_same. specialize (Hin d). rewrite Ec in Hin. rewrite Hin. reflexivity.
      * rewrite upd_other by exact Hne. apply Hin2.
    + intros d Hd. cbn [marks set_mark set_cont]. destruct (cref_dec c d) as [->|Hne].
      * rewrite upd_same. discriminate.
      * rewrite upd_other by exact Hne. apply Hm2. unfold st1. cbn [marks set_mark]. rewrite upd_other by exact Hne. exact Hd.
    + destruct r; cbn [returned]; try exact I; try contradiction.
      repeat match goal with |- context [if ?b then _ else _] => destruct b end; try exact I.
      destruct a as [|[|x ?] ?]; try exact I. destruct x; exact I.
Qed.

Lemma eval_cells_terminates k order : forall s, J s -> (unmarked s < k)%nat -> oof (eval_cells N k order s) = false.
Proof.
  induction order as [|c order IH]; intros s HJ Hk; cbn [eval_cells]; [exact (proj2 HJ)|].
  destruct (evaluate_cell_terminates k c s HJ Hk) as [HJ' [Hm _]].
  apply IH; [exact HJ' | pose proof (unmarked_mono _ _ Hm); lia].
Qed.

(* fuel suffices: Model::evaluate on a workbook of plain cells, any order, any dependency shape *)
Theorem fuel_suffices order : oof (evaluate N order wb) = false.
Proof.
  unfold evaluate, evaluate_in. apply eval_cells_terminates.
  - split; [intro c; reflexivity | reflexivity].
  - unfold unmarked, fuel_for. pose proof (filter_len (unmarkedb (clear_marks (store_of wb))) dom) as H.
    assert (Hl : length dom = length wb) by (unfold dom; apply map_length). lia.
Qed.

End Term.
