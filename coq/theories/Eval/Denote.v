(* Eval/Denote.v — the reference semantics of a workbook of plain cells: the value of a formula
   cell is what its formula produces over the values of the cells it reads, stored through
   the scalar sink; recursion on fuel (any fuel above the dependency depth gives the same
   answer; a cell that reaches itself runs out of fuel and shows #CIRC!).  No proofs here. *)
From IronCalc Require Import Base.Prelude Eval.NumOps Eval.Value Eval.Coerce Eval.Ops Eval.Funs Eval.Eval Eval.Store.

Section Denote.
Context {num : Type} (N : NumOps num).
Notation value := (value num). Notation ast := (ast num).

(* what a plain formula cell stores for a result (scalar branch and 1x1 coercion of [write]) *)
Definition sink_plain (r : value) : fvalue num :=
  match r with
  | VArray a =>
      if (Nat.eqb (arr_rows a) 0) || (Nat.eqb (arr_cols a) 0) then FErr ECALC
      else if (Z.of_nat (arr_cols a) =? 1) && (Z.of_nat (arr_rows a) =? 1)
           then match get_value_from_array a 1 1 with Some x => afv N x | None => FErr EVALUE end
           else FErr EVALUE
  | _ => match scalar_fvalue N r with Some fv => fv | None => FErr EERROR end
  end.

Fixpoint denote_fuel (fuel : nat) (cont : cref -> content (num:=num)) (c : cref) : value :=
  match fuel with
  | O => VErr ECIRC
  | Datatypes.S k =>
      match cont c with
      | CFormula f _ => of_fvalue (sink_plain (result_of N (denote_fuel k cont) c f))
      | other => get_cell_value other
      end
  end.

Definition denote (wb : workbook (num:=num)) (c : cref) : value :=
  denote_fuel (fuel_for wb) (lookup wb) c.

(* the property statement as a boolean: every formula cell of [cells] holds what its formula
   produces over the stored values (evaluated on dumps of the implementation's state) *)
Definition value_eqb (eqn : num -> num -> bool) (a b : value) : bool :=
  match a, b with
  | VNum x, VNum y => eqn x y
  | VStr x, VStr y => text_eqb x y
  | VBool x, VBool y => Bool.eqb x y
  | VErr x, VErr y => err_eqb x y
  | VEmptyCell, VEmptyCell => true
  | VEmptyArg, VEmptyArg => true
  | _, _ => false
  end.

(* a plain formula cell holds what its formula produces over the stored values; an array
   formula (CSE or dynamic) is consistent when writing what its formula produces over the
   stored values through the sink changes no value of [cells] (anchor and spill cells) *)
Definition cell_consistent_b (eqn : num -> num -> bool) (cont : cref -> content (num:=num)) (cells : list cref) (c : cref) : bool :=
  match cont c with
  | CFormula f v =>
      value_eqb eqn (of_fvalue v)
                (of_fvalue (sink_plain (result_of N (fun d => get_cell_value (cont d)) c f)))
  | CArrayFormula _ _ _ f _ =>
      let st := mkstore cont (fun _ => None) false in
      match write N c (cont c) (result_of N (fun d => get_cell_value (cont d)) c f) st with
      | Some st' => forallb (fun d => value_eqb eqn (value_at st' d) (value_at st d)) cells
      | None => false
      end
  | _ => true
  end.
(* [check]: the cells whose consistency is asked; [cells]: every cell of the workbook *)
Definition values_consistent_in_b (eqn : num -> num -> bool) (cont : cref -> content (num:=num)) (cells check : list cref) : bool :=
  forallb (cell_consistent_b eqn cont cells) check.
Definition values_consistent_b (eqn : num -> num -> bool) (cont : cref -> content (num:=num)) (cells : list cref) : bool :=
  values_consistent_in_b eqn cont cells cells.

End Denote.
