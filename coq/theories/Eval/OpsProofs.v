(* Eval/OpsProofs.v — the semantic laws of the core language (C06) as facts about the model,
   for every NumOps instance.  The laws of the number comparison that the pre-order theorem
   needs are hypotheses of its Section. *)
From IronCalc Require Import Base.Prelude Eval.NumOps Eval.Value Eval.Coerce Eval.Ops Eval.Funs Eval.Eval.

Lemma text_cmp_refl a : text_cmp a a = Eq.
Proof. induction a as [|x a IH]; cbn [text_cmp]; [reflexivity|]. rewrite Z.compare_refl. exact IH. Qed.
Lemma text_cmp_antisym a : forall b, text_cmp b a = CompOpp (text_cmp a b).
Proof.
  induction a as [|x a IH]; intros [|y b]; cbn [text_cmp]; try reflexivity.
  rewrite (Z.compare_antisym x y). destruct (x ?= y); cbn [CompOpp]; [apply IH | reflexivity | reflexivity].
Qed.
Lemma text_cmp_trans a : forall b c, text_cmp a b <> Gt -> text_cmp b c <> Gt -> text_cmp a c <> Gt.
Proof.
  induction a as [|x a IH]; intros [|y b] [|z c]; cbn [text_cmp]; try congruence.
  destruct (x ?= y) eqn:E1; destruct (y ?= z) eqn:E2; try congruence;
    try (apply Z.compare_eq in E1; subst); try (apply Z.compare_eq in E2; subst);
    try rewrite E1; try rewrite E2; try rewrite Z.compare_refl; try congruence.
  - apply IH.
  - intros _ _. rewrite Z.compare_lt_iff in E1, E2. assert (H : x < z) by lia. apply Z.compare_lt_iff in H. rewrite H. congruence.
Qed.
Lemma bool_cmp_refl a : bool_cmp a a = Eq. Proof. destruct a; reflexivity. Qed.

Section Laws.
Context {num : Type} (N : NumOps num).
Notation value := (value num). Notation ast := (ast num).

(* --- coercions: Empty is 0 / "" / FALSE by context, TRUE is 1, text goes through of_text --- *)
Lemma empty_as_number : cast_to_number N VEmptyCell = ROk (nzero N). Proof. reflexivity. Qed.
Lemma empty_as_text : cast_to_string N VEmptyCell = ROk []. Proof. reflexivity. Qed.
Lemma empty_as_bool : cast_to_bool N VEmptyCell = ROk false. Proof. reflexivity. Qed.
Lemma true_as_number : cast_to_number N (VBool true) = ROk (none_ N). Proof. reflexivity. Qed.
Lemma false_as_number : cast_to_number N (VBool false) = ROk (nzero N). Proof. reflexivity. Qed.
Lemma text_as_number s : cast_to_number N (VStr s) = match nof_text N s with Some f => ROk f | None => RErr EVALUE end.
Proof. reflexivity. Qed.
Lemma error_through_casts e : cast_to_number N (VErr e) = RErr e /\ cast_to_string N (VErr e) = RErr e /\ cast_to_bool N (VErr e) = RErr e.
Proof. repeat split. Qed.

(* --- text as a logical: the comparison is made after lowercasing, so every case variant counts --- *)
Theorem text_as_bool_case_insensitive s :
  (str_lower N s = t_true -> cast_to_bool N (VStr s) = ROk true) /\
  (str_lower N s = t_false -> cast_to_bool N (VStr s) = ROk false) /\
  (str_lower N s <> t_true -> str_lower N s <> t_false -> cast_to_bool N (VStr s) = RErr EVALUE).
Proof.
  unfold cast_to_bool, bool_of_text. repeat split.
  - intro H. rewrite H. reflexivity.
  - intro H. rewrite H. reflexivity.
  - intros H1 H2. destruct (text_eqb (str_lower N s) t_true) eqn:E1; [apply text_eqb_eq in E1; contradiction|].
    destruct (text_eqb (str_lower N s) t_false) eqn:E2; [apply text_eqb_eq in E2; contradiction | reflexivity].
Qed.
(* the same cast is used for an element of an array *)
Theorem text_element_as_bool_case_insensitive s :
  (str_lower N s = t_true -> array_node_to_bool N (SStr s) = ROk true) /\
  (str_lower N s = t_false -> array_node_to_bool N (SStr s) = ROk false).
Proof. unfold array_node_to_bool, bool_of_text. split; intro H; rewrite H; reflexivity. Qed.

Variable env : cref -> value.
Variable anchor : cref.
Notation ev := (eval N env anchor).

Ltac run l := unfold eval in *; cbn [eval_st is_aggregate]; unfold bind;
  destruct (eval_st N (fun c s => (env c, s)) anchor l tt) as [? []]; cbn [fst] in *; subst.

(* --- error propagation: the left operand's error wins in every binary operator --- *)
Theorem left_error_wins_arith o l r e : ev l = VErr e -> ev (EBin o l r) = VErr e.
Proof. intro H. run l. reflexivity. Qed.
Theorem left_error_wins_concat l r e : ev l = VErr e -> ev (EConcat l r) = VErr e.
Proof. intro H. run l. reflexivity. Qed.
Theorem left_error_wins_compare k l r e : ev l = VErr e -> ev (ECmp k l r) = VErr e.
Proof. intro H. run l. reflexivity. Qed.
Theorem right_error_after_left_number o l r x e : ev l = VNum x -> ev r = VErr e -> ev (EBin o l r) = VErr e.
Proof. intros H1 H2. run l. cbn. run r. reflexivity. Qed.
Theorem unary_error k x e : ev x = VErr e -> ev (EUnary k x) = VErr e.
Proof. intro H. run x. reflexivity. Qed.

(* --- arithmetic on scalars --- *)
Theorem arith_numbers o l r x y : ev l = VNum x -> ev r = VNum y -> ev (EBin o l r) = res_value (apply_op N o x y).
Proof. intros H1 H2. run l. cbn. run r. reflexivity. Qed.
Theorem division_by_zero l r x y : ev l = VNum x -> ev r = VNum y -> nis_zero N y = true -> ev (EBin ODiv l r) = VErr EDIV.
Proof. intros H1 H2 Hz. rewrite (arith_numbers ODiv l r x y H1 H2). cbn. rewrite Hz. reflexivity. Qed.
Theorem text_operand_not_numeric o l r s : ev l = VStr s -> nof_text N s = None -> ev (EBin o l r) = VErr EVALUE.
Proof. intros H1 H2. run l. cbn. rewrite H2. reflexivity. Qed.
Theorem text_operand_numeric o l r s x y : ev l = VStr s -> nof_text N s = Some x -> ev r = VNum y ->
  ev (EBin o l r) = res_value (apply_op N o x y).
Proof. intros H1 H2 H3. run l. cbn. rewrite H2. run r. reflexivity. Qed.
Theorem bool_and_empty_operands o l r b : ev l = VBool b -> ev r = VEmptyCell ->
  ev (EBin o l r) = res_value (apply_op N o (num_of_bool N b) (nzero N)).
Proof. intros H1 H2. run l. cbn. run r. reflexivity. Qed.

(* --- every operator returns a value of a fixed class (or an error, or an array of them) --- *)
Definition is_num_err_arr (v : value) : Prop := match v with VNum _ | VErr _ | VArray _ => True | _ => False end.
Definition is_str_err_arr (v : value) : Prop := match v with VStr _ | VErr _ | VArray _ => True | _ => False end.
Definition is_bool_err_arr (v : value) : Prop := match v with VBool _ | VErr _ | VArray _ => True | _ => False end.
Lemma arith_class o l r : is_num_err_arr (arith N o l r).
Proof. destruct l, r; cbn; try exact I. destruct (apply_op N o f f0); exact I. Qed.
Lemma concat_class l r : is_str_err_arr (concat N l r). Proof. destruct l, r; exact I. Qed.
Lemma compare_class k l r : is_bool_err_arr (comparison_op N k l r). Proof. destruct l, r; exact I. Qed.

Theorem arith_returns_number o l r : is_num_err_arr (ev (EBin o l r)).
Proof.
  run l. destruct (number_or_array N _ _ tt) as [[xl|er] []]; [|exact I].
  destruct (eval_st N _ anchor r tt) as [vr []]. destruct (number_or_array N _ vr tt) as [[xr|er] []]; [|exact I].
  apply arith_class.
Qed.
Theorem concat_returns_text l r : is_str_err_arr (ev (EConcat l r)).
Proof.
  run l. destruct (string_or_array N _ _ tt) as [[xl|er] []]; [|exact I].
  destruct (eval_st N _ anchor r tt) as [vr []]. destruct (string_or_array N _ vr tt) as [[xr|er] []]; [|exact I].
  apply concat_class.
Qed.
Theorem compare_returns_boolean k l r : is_bool_err_arr (ev (ECmp k l r)).
Proof.
  run l. destruct (value_or_array _ _ tt) as [[xl|er] []]; [|exact I].
  destruct (eval_st N _ anchor r tt) as [vr []]. destruct (value_or_array _ vr tt) as [[xr|er] []]; [|exact I].
  apply compare_class.
Qed.

(* --- IF and IFERROR are lazy: the branch that is not taken is not evaluated at all --- *)
Theorem if_true_lazy c t e : ev c = VBool true -> ev (EFun FIf [c; t; e]) = ev t.
Proof. intro H. run c. reflexivity. Qed.
Theorem if_false_lazy c t e : ev c = VBool false -> ev (EFun FIf [c; t; e]) = ev e.
Proof. intro H. run c. reflexivity. Qed.
Theorem if_false_no_else c t : ev c = VBool false -> ev (EFun FIf [c; t]) = VBool false.
Proof. intro H. run c. reflexivity. Qed.
Theorem if_condition_error c t e x : ev c = VErr x -> ev (EFun FIf [c; t; e]) = VErr x.
Proof. intro H. run c. reflexivity. Qed.
Theorem iferror_passes_value x fb v : ev x = v -> (match v with VErr _ | VRange _ _ _ _ _ | VArray _ => False | _ => True end) ->
  ev (EFun FIferror [x; fb]) = v.
Proof. intros H Hv. run x. destruct v; try contradiction; reflexivity. Qed.
Theorem iferror_replaces_error x fb e : ev x = VErr e -> ev (EFun FIferror [x; fb]) = ev fb.
Proof. intro H. run x. reflexivity. Qed.
(* the same on the store evaluator: the untaken branch causes no cell to be read *)
Theorem if_true_lazy_stateful {S} (rd : cref -> M (S:=S) value) c t e s s1 :
  eval_st N rd anchor c s = (VBool true, s1) ->
  eval_st N rd anchor (EFun FIf [c; t; e]) s = eval_st N rd anchor t s1.
Proof. intro H. cbn [eval_st is_aggregate]. unfold bind. rewrite H. reflexivity. Qed.
Theorem iferror_lazy_stateful {S} (rd : cref -> M (S:=S) value) x fb s s1 n :
  eval_st N rd anchor x s = (VNum n, s1) ->
  eval_st N rd anchor (EFun FIferror [x; fb]) s = (VNum n, s1).
Proof. intro H. cbn [eval_st is_aggregate]. unfold bind. rewrite H. reflexivity. Qed.

(* --- aggregates: range elements are filtered, direct arguments are coerced --- *)
Theorem sum_skips_text_in_range a s : agg_cell N FSum a (VStr s) = Continue a. Proof. reflexivity. Qed.
Theorem sum_skips_bool_in_range a b : agg_cell N FSum a (VBool b) = Continue a. Proof. reflexivity. Qed.
Theorem sum_skips_empty_in_range a : agg_cell N FSum a VEmptyCell = Continue a. Proof. reflexivity. Qed.
Theorem sum_error_in_range a e : agg_cell N FSum a (VErr e) = Stop (VErr e). Proof. reflexivity. Qed.
Theorem sum_coerces_direct_bool a b v2 :
  agg_direct N FSum false a (VBool b) v2 = Continue (set_num a (nadd N (a_num a) (num_of_bool N b))).
Proof. reflexivity. Qed.
Theorem sum_coerces_direct_text a s x v2 : nof_text N s = Some x ->
  agg_direct N FSum false a (VStr s) v2 = Continue (set_num a (nadd N (a_num a) x)).
Proof. intro H. cbn. rewrite H. reflexivity. Qed.
Theorem sum_rejects_direct_text a s v2 : nof_text N s = None ->
  agg_direct N FSum false a (VStr s) v2 = Stop (VErr EVALUE).
Proof. intro H. cbn. rewrite H. reflexivity. Qed.
Theorem average_coerces_direct_bool a b v2 :
  agg_direct N FAverage false a (VBool b) v2 = Continue (avg_add N a (num_of_bool N b)).
Proof. reflexivity. Qed.
Theorem average_skips_bool_in_range a b : agg_cell N FAverage a (VBool b) = Continue a. Proof. reflexivity. Qed.
Theorem count_counts_direct_bool a b v2 : agg_direct N FCount false a (VBool b) v2 = Continue (inc_cnt a). Proof. reflexivity. Qed.
Theorem count_skips_bool_in_range a b : agg_cell N FCount a (VBool b) = Continue a. Proof. reflexivity. Qed.
Theorem counta_counts_everything_but_empty a v : v <> VEmptyCell -> v <> VEmptyArg -> agg_cell N FCounta a v = Continue (inc_cnt a).
Proof. destruct v; cbn; congruence. Qed.
Theorem and_ignores_text_in_range a s : agg_cell N FAnd a (VStr s) = short_check FAnd a. Proof. reflexivity. Qed.
(* a reference argument is treated like a one-cell range *)
Theorem count_reference_argument_like_range a b v2 : agg_direct N FCount true a (VBool b) v2 = Continue a. Proof. reflexivity. Qed.

(* where the code departs from the spreadsheet rule "direct arguments are coerced":
   MIN and MAX ignore booleans and texts given directly (Excel: MIN(TRUE) = 1, MIN("5") = 5,
   MIN("abc") = #VALUE!) *)
Theorem minmax_ignore_direct_text_and_bool a s b v2 :
  agg_direct N FMin false a (VStr s) v2 = Continue a /\ agg_direct N FMin false a (VBool b) v2 = Continue a /\
  agg_direct N FMax false a (VStr s) v2 = Continue a /\ agg_direct N FMax false a (VBool b) v2 = Continue a.
Proof. repeat split. Qed.

End Laws.

(* --- comparison is a total pre-order with the class order Number < Text < Boolean --- *)
Section Order.
Context {num : Type} (N : NumOps num).
Notation value := (value num).
Hypothesis ncmp_refl : forall a, ncmp N a a = Eq.
Hypothesis ncmp_antisym : forall a b, ncmp N b a = CompOpp (ncmp N a b).
Hypothesis ncmp_trans : forall a b c, ncmp N a b <> Gt -> ncmp N b c <> Gt -> ncmp N a c <> Gt.

Definition plain_value (v : value) : Prop := match v with VNum _ | VStr _ | VBool _ => True | _ => False end.
Definition vle (a b : value) : Prop := compare_values N a b <> Gt.

Theorem class_order x s b :
  compare_values N (VNum x) (VStr s) = Lt /\ compare_values N (VStr s) (VBool b) = Lt /\
  compare_values N (VNum x) (VBool b) = Lt /\ compare_values N (VStr s) (VNum x) = Gt /\
  compare_values N (VBool b) (VStr s) = Gt /\ compare_values N (VBool b) (VNum x) = Gt.
Proof. repeat split. Qed.

Theorem compare_antisym a b : plain_value a -> plain_value b -> compare_values N b a = CompOpp (compare_values N a b).
Proof.
  destruct a, b; cbn; try contradiction; intros _ _; try reflexivity.
  - apply ncmp_antisym. - apply text_cmp_antisym. - destruct b0, b; reflexivity.
Qed.
Theorem compare_refl a : plain_value a -> compare_values N a a = Eq.
Proof. destruct a; cbn; try contradiction; intros _; [apply ncmp_refl | apply text_cmp_refl | apply bool_cmp_refl]. Qed.
Theorem compare_total a b : plain_value a -> plain_value b -> vle a b \/ vle b a.
Proof.
  intros Ha Hb. unfold vle. rewrite (compare_antisym a b Ha Hb). destruct (compare_values N a b); cbn; [left|left|right]; congruence.
Qed.
Theorem compare_trans a b c : plain_value a -> plain_value b -> plain_value c -> vle a b -> vle b c -> vle a c.
Proof.
  unfold vle. destruct a, b, c; cbn; try contradiction; intros _ _ _; try congruence.
  - apply ncmp_trans. - apply text_cmp_trans.
  - destruct b0, b1, b; cbn; congruence.
Qed.
Theorem text_comparison_ignores_case a b : str_upper N a = str_upper N b -> compare_values N (VStr a) (VStr b) = Eq.
Proof. intro H. cbn. rewrite H. apply text_cmp_refl. Qed.
(* an empty cell is compared as 0, "" or FALSE according to the other operand *)
Theorem empty_compares_as_other_side x s b :
  compare_values N VEmptyCell (VNum x) = compare_values N (VNum (nzero N)) (VNum x) /\
  compare_values N VEmptyCell (VStr s) = compare_values N (VStr []) (VStr s) /\
  compare_values N VEmptyCell (VBool b) = compare_values N (VBool false) (VBool b).
Proof. repeat split. Qed.
End Order.

(* every case variant of "true" / "false" (2^4 and 2^5 spellings), with ASCII case mapping *)
Fixpoint case_variants (t : text) : list text :=
  match t with
  | [] => [[]]
  | c :: r => flat_map (fun v => [to_ascii_lower c :: v; to_ascii_upper c :: v]) (case_variants r)
  end.
Lemma all_case_variants_of_true_false :
  forallb (fun v => match cast_to_bool ZOps (VStr v) with ROk true => true | _ => false end) (case_variants t_true) = true /\
  forallb (fun v => match cast_to_bool ZOps (VStr v) with ROk false => true | _ => false end) (case_variants t_false) = true /\
  length (case_variants t_true) = 16%nat /\ length (case_variants t_false) = 32%nat /\
  cast_to_bool ZOps (VStr [32; 84; 82; 85; 69]) = RErr EVALUE.
Proof. vm_compute. repeat split; reflexivity. Qed.
