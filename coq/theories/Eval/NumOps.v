(* Eval/NumOps.v — the numeric (and the two case-mapping) primitives the evaluator takes from
   f64 and the Rust standard library, as a record.  The evaluator (Coerce/Ops/Funs/Eval/Store)
   is parametric in an instance; theorems hold for every instance; the few laws a proof needs
   are hypotheses of the Section that states it (never global assumptions).  The OCaml runner
   instantiates the record with native doubles (ocaml/h_c06.ml); the in-Coq examples use the
   toy instances at the end of this file.  No proofs here. *)
From IronCalc Require Import Base.Prelude Base.Dec.

Record NumOps (num : Type) : Type := mkNumOps {
  nadd : num -> num -> num;           (* f1 + f2 *)
  nsub : num -> num -> num;
  nmul : num -> num -> num;
  ndiv : num -> num -> num;           (* f1 / f2, the caller has tested f2 == 0.0 *)
  npow : num -> num -> num;           (* f64::powf *)
  nneg : num -> num;
  nabs : num -> num;
  nmin : num -> num -> num;           (* f64::min: the non-NaN operand if one is NaN *)
  nmax : num -> num -> num;
  nround : num -> num -> num;         (* the kernel of ROUND: to_precision 15, 10^d, round, divide *)
  nis_zero : num -> bool;             (* f == 0.0 *)
  nis_finite : num -> bool;           (* !(is_nan || is_infinite) *)
  ncmp : num -> num -> comparison;    (* compare_values on two numbers: 15 digits, epsilon *)
  nof_text : text -> option num;      (* cast_number: trim + str::parse::<f64>, else parse_formatted_number *)
  nof_text_strict : text -> option num; (* str::parse::<f64> alone (array elements, COUNT, AVERAGEA) *)
  nto_text : num -> text;             (* format!("{f}") *)
  nof_Z : Z -> num;                   (* small integer constants and counters (n as f64) *)
  nnan : num;                         (* f64::NAN, the start value of MIN/MAX *)
  str_upper : text -> text;           (* str::to_uppercase *)
  str_lower : text -> text;           (* str::to_lowercase *)
}.
Arguments nadd {num} _. Arguments nsub {num} _. Arguments nmul {num} _. Arguments ndiv {num} _.
Arguments npow {num} _. Arguments nneg {num} _. Arguments nabs {num} _. Arguments nmin {num} _.
Arguments nmax {num} _. Arguments nround {num} _. Arguments nis_zero {num} _.
Arguments nis_finite {num} _. Arguments ncmp {num} _. Arguments nof_text {num} _.
Arguments nof_text_strict {num} _. Arguments nto_text {num} _. Arguments nof_Z {num} _.
Arguments nnan {num} _. Arguments str_upper {num} _. Arguments str_lower {num} _.

Definition nzero {num} (N : NumOps num) : num := nof_Z N 0.
Definition none_ {num} (N : NumOps num) : num := nof_Z N 1.

Definition ascii_upper (t : text) : text := map to_ascii_upper t.
Definition to_ascii_lower (c : Z) : Z := if is_upper c then c + 32 else c.
Definition ascii_lower (t : text) : text := map to_ascii_lower t.

(* decimal reader used by the toy instances: optional '-', digits *)
Definition Z_of_text (t : text) : option Z :=
  match t with
  | [] => None
  | c :: r => if c =? 45 then (match r with [] => None | _ => if all_digits r then Some (- dec_val 0 r) else None end)
              else if all_digits t then Some (dec_val 0 t) else None
  end.

(* Toy instance 1: exact integers, every number finite (x / y is the quotient; 0 ^ negative = 0). *)
Definition ZOps : NumOps Z := {|
  nadd := Z.add; nsub := Z.sub; nmul := Z.mul; ndiv := Z.div; npow := Z.pow; nneg := Z.opp;
  nabs := Z.abs; nmin := Z.min; nmax := Z.max; nround := fun x _ => x;
  nis_zero := fun x => x =? 0; nis_finite := fun _ => true; ncmp := Z.compare;
  nof_text := Z_of_text; nof_text_strict := Z_of_text; nto_text := dec_of_Z;
  nof_Z := fun z => z; nnan := 0; str_upper := ascii_upper; str_lower := ascii_lower |}.

(* Toy instance 2: integers of magnitude at most [zmax] plus one non-finite element [None]
   (overflow, like f64 overflowing to infinity; None is absorbing). *)
Definition zmax : Z := 1000000.
Definition zclip (z : Z) : option Z := if Z.abs z <=? zmax then Some z else None.
Definition zlift2 (f : Z -> Z -> Z) (a b : option Z) : option Z :=
  match a, b with Some x, Some y => zclip (f x y) | _, _ => None end.
Definition BOps : NumOps (option Z) := {|
  nadd := zlift2 Z.add; nsub := zlift2 Z.sub; nmul := zlift2 Z.mul; ndiv := zlift2 Z.div;
  npow := zlift2 Z.pow; nneg := option_map Z.opp; nabs := option_map Z.abs;
  nmin := fun a b => match a, b with Some x, Some y => Some (Z.min x y) | Some x, None => Some x | None, y => y end;
  nmax := fun a b => match a, b with Some x, Some y => Some (Z.max x y) | Some x, None => Some x | None, y => y end;
  nround := fun x _ => x;
  nis_zero := fun a => match a with Some x => x =? 0 | None => false end;
  nis_finite := fun a => match a with Some _ => true | None => false end;
  ncmp := fun a b => match a, b with Some x, Some y => Z.compare x y | _, _ => Gt end;
  nof_text := fun t => match Z_of_text t with Some z => Some (zclip z) | None => None end;
  nof_text_strict := fun t => match Z_of_text t with Some z => Some (zclip z) | None => None end;
  nto_text := fun a => match a with Some x => dec_of_Z x | None => [105; 110; 102] end;
  nof_Z := zclip; nnan := None; str_upper := ascii_upper; str_lower := ascii_lower |}.
