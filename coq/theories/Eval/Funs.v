(* Eval/Funs.v — the pure parts of the 18 core functions: what each does with one evaluated
   direct argument, with one cell of a range argument and with one element of an array
   argument (these three differ: direct arguments are coerced, range elements are filtered),
   how the accumulator is finished, and the array forms of IF and IFERROR.  The order in which
   arguments and cells are forced, laziness and early exits are in Eval.v.  No proofs here. *)
From IronCalc Require Import Base.Prelude Eval.NumOps Eval.Value Eval.Coerce Eval.Ops.

Inductive fname : Type :=
| FIf | FAnd | FOr | FNot | FSum | FMin | FMax | FCount | FCounta | FAverage | FAbs | FRound
| FLen | FConcat | FIsnumber | FIstext | FIsblank | FIferror.

(* the n-ary functions that fold over arguments, ranges and arrays *)
Definition is_aggregate (f : fname) : bool :=
  match f with
  | FAnd | FOr | FSum | FMin | FMax | FCount | FCounta | FAverage | FConcat => true
  | _ => false
  end.
(* those that answer "Wrong number of arguments" (#ERROR!) on an empty argument list *)
Definition needs_args (f : fname) : bool :=
  match f with FAnd | FOr | FSum | FCount | FCounta | FAverage => true | _ => false end.

Section Funs.
Context {num : Type} (N : NumOps num).
Notation value := (value num). Notation scalar := (scalar num). Notation array := (array num).

(* loop control: go on with a new accumulator, or leave the function with a result *)
Inductive step (A : Type) : Type := Continue (a : A) | Stop (v : value).
Arguments Continue {A} a. Arguments Stop {A} v.

(* one accumulator type for all aggregates *)
Record acc : Type := mkacc {
  a_num : num;             (* running sum / min / max *)
  a_cnt : Z;               (* COUNT, COUNTA, AVERAGE's count *)
  a_bool : option bool;    (* AND / OR running result *)
  a_text : text;           (* CONCAT *)
}.
Definition set_num (a : acc) (x : num) : acc := mkacc x (a_cnt a) (a_bool a) (a_text a).
Definition inc_cnt (a : acc) : acc := mkacc (a_num a) (a_cnt a + 1) (a_bool a) (a_text a).
Definition set_bool (a : acc) (b : option bool) : acc := mkacc (a_num a) (a_cnt a) b (a_text a).
Definition add_text (a : acc) (t : text) : acc := mkacc (a_num a) (a_cnt a) (a_bool a) (a_text a ++ t).

Definition agg_init (f : fname) : acc :=
  match f with
  | FMin | FMax => mkacc (nnan N) 0 None []
  | _ => mkacc (nzero N) 0 None []
  end.

(* AND: acc.unwrap_or(true) && v, short-circuit on false; OR: acc.unwrap_or(false) || v, on true *)
Definition logical_fold (f : fname) (r : option bool) (v : bool) : bool :=
  match f with
  | FAnd => (match r with Some x => x | None => true end) && v
  | _ => (match r with Some x => x | None => false end) || v
  end.
Definition short_value (f : fname) : bool := match f with FAnd => false | _ => true end.
(* the check made after every cell, element and argument *)
Definition short_check (f : fname) (a : acc) : step acc :=
  match a_bool a with
  | Some cur => if Bool.eqb cur (short_value f) then Stop (VBool cur) else Continue a
  | None => Continue a
  end.
Definition logical_add (f : fname) (a : acc) (v : bool) : acc :=
  set_bool a (Some (logical_fold f (a_bool a) v)).

Definition avg_add (a : acc) (x : num) : acc := inc_cnt (set_num a (nadd N (a_num a) x)).

(* one cell of a range argument (the value evaluate_cell returned) *)
Definition agg_cell (f : fname) (a : acc) (v : value) : step acc :=
  match f with
  | FAnd | FOr =>
      match v with
      | VBool b => short_check f (logical_add f a b)
      | VNum n => short_check f (logical_add f a (negb (nis_zero N n)))
      | VErr e => Stop (VErr e)
      | VArray _ => Stop (VErr ENIMPL)
      | _ => short_check f a
      end
  | FSum =>
      match v with
      | VNum x => Continue (set_num a (nadd N (a_num a) x))
      | VErr e => Stop (VErr e)
      | _ => Continue a
      end
  | FMin =>
      match v with
      | VNum x => Continue (set_num a (nmin N x (a_num a)))
      | VErr e => Stop (VErr e)
      | _ => Continue a
      end
  | FMax =>
      match v with
      | VNum x => Continue (set_num a (nmax N x (a_num a)))
      | VErr e => Stop (VErr e)
      | _ => Continue a
      end
  | FCount => match v with VNum _ => Continue (inc_cnt a) | _ => Continue a end
  | FCounta => match v with VEmptyCell | VEmptyArg => Continue a | _ => Continue (inc_cnt a) end
  | FAverage =>
      match v with
      | VNum x => Continue (avg_add a x)
      | VErr e => Stop (VErr e)
      | VRange _ _ _ _ _ => Stop (VErr EERROR)
      | _ => Continue a
      end
  | FConcat =>
      match v with
      | VStr t => Continue (add_text a t)
      | VNum x => Continue (add_text a (nto_text N x))
      | VBool b => Continue (add_text a (bool_text b))
      | VErr e => Stop (VErr e)
      | VEmptyCell | VEmptyArg => Continue a
      | VRange _ _ _ _ _ => Continue a
      | VArray _ => Stop (VErr ENIMPL)
      end
  | _ => Continue a
  end.

(* one element of an array argument *)
Definition agg_node (f : fname) (a : acc) (s : scalar) : step acc :=
  match f with
  | FAnd | FOr =>
      match s with
      | SBool b => short_check f (logical_add f a b)
      | SNum n => short_check f (logical_add f a (negb (nis_zero N n)))
      | SErr e => Stop (VErr e)
      | _ => short_check f a
      end
  | FSum => match s with SNum x => Continue (set_num a (nadd N (a_num a) x)) | SErr e => Stop (VErr e) | _ => Continue a end
  | FMin => match s with SNum x => Continue (set_num a (nmin N x (a_num a))) | SErr e => Stop (VErr e) | _ => Continue a end
  | FMax => match s with SNum x => Continue (set_num a (nmax N x (a_num a))) | SErr e => Stop (VErr e) | _ => Continue a end
  | FCounta => match s with SEmpty => Continue a | _ => Continue (inc_cnt a) end
  | FAverage =>
      match s with
      | SNum x => Continue (avg_add a x)
      | SBool b => Continue (avg_add a (num_of_bool N b))
      | SErr e => Stop (VErr e)
      | _ => Continue a
      end
  | _ => Continue a
  end.

Fixpoint fold_nodes (f : fname) (l : list scalar) (a : acc) : step acc :=
  match l with
  | [] => Continue a
  | s :: r => match agg_node f a s with Continue a' => fold_nodes f r a' | Stop v => Stop v end
  end.
Definition agg_array (f : fname) (arr : array) (a : acc) : step acc := fold_nodes f (List.concat arr) a.

(* a direct argument that is neither a range nor an array; [isref]: the argument node is a
   plain cell reference; [reeval]: the value of evaluating the argument a second time
   (AND/OR re-read a text argument through get_boolean) *)
Definition agg_direct (f : fname) (isref : bool) (a : acc) (v : value) (reeval : value) : step acc :=
  match f with
  | FAnd | FOr =>
      match v with
      | VBool b => short_check f (logical_add f a b)
      | VNum n => short_check f (logical_add f a (negb (nis_zero N n)))
      | VErr e => Stop (VErr e)
      | VEmptyArg => short_check f (set_bool a (Some (match a_bool a with Some x => x | None => false end)))
      | VStr _ =>
          if isref then short_check f a
          else match cast_to_bool N reeval with
               | ROk b => short_check f (logical_add f a b)
               | RErr _ => short_check f a
               end
      | _ => short_check f a
      end
  | FSum =>
      match v with
      | VErr e => Stop (VErr e)
      | _ => match cast_to_number N v with
             | ROk x => Continue (set_num a (nadd N (a_num a) x))
             | RErr e => Stop (VErr e)
             end
      end
  | FMin => match v with VNum x => Continue (set_num a (nmin N x (a_num a))) | VErr e => Stop (VErr e) | _ => Continue a end
  | FMax => match v with VNum x => Continue (set_num a (nmax N x (a_num a))) | VErr e => Stop (VErr e) | _ => Continue a end
  | FCount =>
      match v with
      | VNum _ => Continue (inc_cnt a)
      | VBool _ => if isref then Continue a else Continue (inc_cnt a)
      | VStr s => if isref then Continue a
                  else match nof_text_strict N s with Some _ => Continue (inc_cnt a) | None => Continue a end
      | _ => Continue a
      end
  | FCounta => match v with VEmptyCell | VEmptyArg => Continue a | _ => Continue (inc_cnt a) end
  | FAverage =>
      match v with
      | VNum x => Continue (avg_add a x)
      | VBool b => if isref then Continue a else Continue (avg_add a (num_of_bool N b))
      | VStr s => if isref then Continue a
                  else match nof_text N s with Some x => Continue (avg_add a x) | None => Stop (VErr EVALUE) end
      | VErr e => Stop (VErr e)
      | _ => Continue a
      end
  | FConcat =>
      match v with
      | VStr t => Continue (add_text a t)
      | VNum x => Continue (add_text a (nto_text N x))
      | VBool b => Continue (add_text a (bool_text b))
      | VErr e => Stop (VErr e)
      | _ => Continue a
      end
  | _ => Continue a
  end.

Definition agg_finish (f : fname) (a : acc) : value :=
  match f with
  | FAnd | FOr => match a_bool a with Some r => VBool r | None => VErr EVALUE end
  | FSum => VNum (a_num a)
  | FMin | FMax => if nis_finite N (a_num a) then VNum (a_num a) else VNum (nzero N)
  | FCount | FCounta => VNum (nof_Z N (a_cnt a))
  | FAverage => if a_cnt a =? 0 then VErr EDIV else VNum (ndiv N (a_num a) (nof_Z N (a_cnt a)))
  | FConcat => VStr (a_text a)
  | _ => VErr EERROR
  end.

(* IF / IFERROR on arrays (logical/mod.rs) *)
Inductive ifarg : Type := IAScalar (s : scalar) | IAArr (a : array).
Definition if_arg_dims (x : ifarg) : nat * nat :=
  match x with IAScalar _ => (1%nat, 1%nat) | IAArr a => (arr_rows a, arr_cols a) end.
Definition if_arg_at (x : ifarg) (r c : nat) : scalar :=
  match x with
  | IAScalar s => s
  | IAArr a => match arr_get a (arr_rows a) (arr_cols a) r c with Some n => n | None => SErr ENA end
  end.

Definition if_array (cond : array) (t : ifarg) (f : option ifarg) : array :=
  let cr := arr_rows cond in let cc := arr_cols cond in
  let '(tr, tc) := if_arg_dims t in
  let '(fr, fc) := match f with Some x => if_arg_dims x | None => (1%nat, 1%nat) end in
  map (fun r => map (fun c =>
        match arr_get cond cr cc r c with
        | None => SErr ENA
        | Some n => match array_node_to_bool N n with
                    | RErr e => SErr e
                    | ROk true => if_arg_at t r c
                    | ROk false => match f with Some fa => if_arg_at fa r c | None => SBool false end
                    end
        end) (seq 0 (Nat.max (Nat.max cc tc) fc))) (seq 0 (Nat.max (Nat.max cr tr) fr)).

Definition iferror_array (v : array) (fb : ifarg) : array :=
  let vr := arr_rows v in let vc := arr_cols v in
  let '(fr, fc) := if_arg_dims fb in
  map (fun r => map (fun c =>
        match arr_get v vr vc r c with
        | Some (SErr _) => if_arg_at fb r c
        | Some n => n
        | None => if_arg_at fb r c
        end) (seq 0 (Nat.max vc fc))) (seq 0 (Nat.max vr fr)).

(* single_number_fn!(fn_abs): the array case *)
Definition abs_array (a : array) : array :=
  map_array (fun s => match to_f64_cast N s with ROk f => SNum (nabs N f) | RErr e => SErr e end) a.

Definition len_value (v : value) : value :=
  match v with
  | VNum x => VNum (nof_Z N (Z.of_nat (length (nto_text N x))))
  | VStr s => VNum (nof_Z N (Z.of_nat (length s)))
  | VBool b => VNum (nof_Z N (Z.of_nat (length (bool_text b))))
  | VErr e => VErr e
  | VRange _ _ _ _ _ => VErr ENIMPL
  | VEmptyCell | VEmptyArg => VNum (nof_Z N 0)
  | VArray _ => VErr ENIMPL
  end.

Definition is_number_value (v : value) : bool := match v with VNum _ => true | _ => false end.
Definition is_text_value (v : value) : bool := match v with VStr _ => true | _ => false end.
Definition is_blank_value (v : value) : bool := match v with VEmptyCell => true | _ => false end.

End Funs.
Arguments Continue {num A} a. Arguments Stop {num A} v.
