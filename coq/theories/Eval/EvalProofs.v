(* Eval/EvalProofs.v — the relational ("simulation") lemma of the expression evaluator:
   two runs of [eval_st] whose cell readers agree on the cells the expression mentions, and
   preserve a relation between their states, return the same value and preserve the relation.
   It is used three times: store evaluator vs reference semantics (C05), independence of the
   reference semantics from fuel and from stored values (C05/C07), invariant preservation. *)
From IronCalc Require Import Base.Prelude Eval.NumOps Eval.Value Eval.Coerce Eval.Ops Eval.Funs Eval.Eval.

Section AstInd.
Context {num : Type}.
Notation ast := (ast num).
Variable P : ast -> Prop.
Hypothesis Hnum : forall n, P (ENum n).
Hypothesis Hstr : forall t, P (EStr t).
Hypothesis Hbool : forall b, P (EBool b).
Hypothesis Herr : forall e, P (EErr e).
Hypothesis Hea : P EEmptyArg.
Hypothesis Href : forall s r c, P (ERef s r c).
Hypothesis Hrange : forall s r1 c1 r2 c2, P (ERange s r1 c1 r2 c2).
Hypothesis Harr : forall a, P (EArray a).
Hypothesis Hun : forall k e, P e -> P (EUnary k e).
Hypothesis Hbin : forall o l r, P l -> P r -> P (EBin o l r).
Hypothesis Hcat : forall l r, P l -> P r -> P (EConcat l r).
Hypothesis Hcmp : forall k l r, P l -> P r -> P (ECmp k l r).
Hypothesis Himp : forall e, P e -> P (EImplicit e).
Hypothesis Hfun : forall f args, Forall P args -> P (EFun f args).
Fixpoint ast_ind' (e : ast) : P e :=
  match e with
  | ENum n => Hnum n | EStr t => Hstr t | EBool b => Hbool b | EErr x => Herr x | EEmptyArg => Hea
  | ERef s r c => Href s r c | ERange s r1 c1 r2 c2 => Hrange s r1 c1 r2 c2 | EArray a => Harr a
  | EUnary k x => Hun k x (ast_ind' x)
  | EBin o l r => Hbin o l r (ast_ind' l) (ast_ind' r)
  | EConcat l r => Hcat l r (ast_ind' l) (ast_ind' r)
  | ECmp k l r => Hcmp k l r (ast_ind' l) (ast_ind' r)
  | EImplicit x => Himp x (ast_ind' x)
  | EFun f args => Hfun f args ((fix go (l : list ast) : Forall P l :=
                      match l with [] => Forall_nil _ | x :: r => Forall_cons x (ast_ind' x) (go r) end) args)
  end.
End AstInd.

(* the cells an expression mentions (a superset of those it reads) *)
Fixpoint refs {num} (e : ast num) : list cref :=
  match e with
  | ERef s r c => [mkref s r c]
  | ERange s r1 c1 r2 c2 => range_cells s r1 c1 r2 c2
  | EUnary _ x => refs x
  | EImplicit x => refs x
  | EBin _ l r => refs l ++ refs r
  | EConcat l r => refs l ++ refs r
  | ECmp _ l r => refs l ++ refs r
  | EFun _ args => flat_map refs args
  | _ => []
  end.

Lemma range_cells_single s r c : range_cells s r c r c = [mkref s r c].
Proof.
  unfold range_cells, row_cells, zspan, zseq.
  replace (r - r + 1) with 1 by lia. replace (c - c + 1) with 1 by lia.
  change (Z.to_nat 1) with 1%nat. cbn [seq map flat_map app Z.of_nat]. rewrite !Z.add_0_r. reflexivity.
Qed.

Lemma in_zspan a b x : In x (zspan a b) <-> a <= x <= b.
Proof.
  unfold zspan, zseq. rewrite in_map_iff. split.
  - intros [i [<- Hi]]. apply in_seq in Hi. lia.
  - intro H. exists (Z.to_nat (x - a)). split; [lia|]. apply in_seq. lia.
Qed.

Lemma in_range_cells s r1 c1 r2 c2 d :
  In d (range_cells s r1 c1 r2 c2) <-> c_sheet d = s /\ r1 <= c_row d <= r2 /\ c1 <= c_col d <= c2.
Proof.
  unfold range_cells, row_cells. rewrite in_flat_map. split.
  - intros [r [Hr Hd]]. apply in_map_iff in Hd as [c [<- Hc]]. apply in_zspan in Hr. apply in_zspan in Hc. cbn. auto.
  - intros [Hs [Hr Hc]]. exists (c_row d). split; [apply in_zspan; exact Hr|].
    apply in_map_iff. exists (c_col d). split; [destruct d; cbn in *; subst; reflexivity | apply in_zspan; exact Hc].
Qed.

Lemma implicit_in_range anchor s r1 c1 r2 c2 d :
  implicit_intersection anchor s r1 c1 r2 c2 = Some d -> In d (range_cells s r1 c1 r2 c2).
Proof.
  unfold implicit_intersection. intro H. apply in_range_cells.
  destruct (c_sheet anchor =? s) eqn:Es; cbn [negb] in H; [|discriminate]. apply Z.eqb_eq in Es.
  destruct ((r1 <=? c_row anchor) && (c_row anchor <=? r2)) eqn:E1.
  - apply andb_true_iff in E1 as [A B]. apply Z.leb_le in A, B.
    destruct (c1 =? c2) eqn:Ec; cbn [negb] in H; [|discriminate]. apply Z.eqb_eq in Ec.
    inversion H; subst; cbn. lia.
  - destruct ((c1 <=? c_col anchor) && (c_col anchor <=? c2)) eqn:E2.
    + apply andb_true_iff in E2 as [A B]. apply Z.leb_le in A, B.
      destruct (r1 =? r2) eqn:Er; cbn [negb] in H; [|discriminate]. apply Z.eqb_eq in Er.
      inversion H; subst; cbn. lia.
    + destruct ((r1 =? r2) && (c1 =? c2)) eqn:E3; [|discriminate].
      apply andb_true_iff in E3 as [A B]. apply Z.eqb_eq in A, B. inversion H; subst; cbn. lia.
Qed.

Section Rel.
Context {num : Type} (N : NumOps num) {S1 S2 : Type}.
Notation value := (value num). Notation ast := (ast num).
Variable R : S1 -> S2 -> Prop.
Variable allowed : cref -> Prop.

(* related computations: same result, related final states, and a fact about the result *)
Definition mrelP {A} (P : A -> Prop) (m1 : M (S:=S1) A) (m2 : M (S:=S2) A) : Prop :=
  forall s1 s2, R s1 s2 ->
    fst (m1 s1) = fst (m2 s2) /\ R (snd (m1 s1)) (snd (m2 s2)) /\ P (fst (m1 s1)).

Definition not_range (v : value) : Prop := match v with VRange _ _ _ _ _ => False | _ => True end.
(* a range value only spans allowed cells *)
Definition val_ok (v : value) : Prop :=
  match v with
  | VRange s r1 c1 r2 c2 => forall c, In c (range_cells s r1 c1 r2 c2) -> allowed c
  | _ => True
  end.
Lemma not_range_ok v : not_range v -> val_ok v.
Proof. destruct v; cbn; tauto. Qed.

Lemma mrelP_ret {A} (P : A -> Prop) a : P a -> mrelP P (ret a) (ret a).
Proof. intros H s1 s2 HR. cbn. auto. Qed.

Lemma mrelP_bind {A B} (P : A -> Prop) (Q : B -> Prop) m1 m2 k1 k2 :
  mrelP P m1 m2 -> (forall a, P a -> mrelP Q (k1 a) (k2 a)) -> mrelP Q (bind m1 k1) (bind m2 k2).
Proof.
  intros Hm Hk s1 s2 HR. unfold bind. specialize (Hm s1 s2 HR).
  destruct (m1 s1) as [a1 t1], (m2 s2) as [a2 t2]. cbn in Hm. destruct Hm as [-> [HR' HP]].
  apply Hk; assumption.
Qed.

Lemma mrelP_weaken {A} (P Q : A -> Prop) m1 m2 : (forall a, P a -> Q a) -> mrelP P m1 m2 -> mrelP Q m1 m2.
Proof. intros H Hm s1 s2 HR. destruct (Hm s1 s2 HR) as [a [b c]]. auto. Qed.

Variable rd1 : cref -> M (S:=S1) value.
Variable rd2 : cref -> M (S:=S2) value.
Hypothesis Hrd : forall c, allowed c -> mrelP not_range (rd1 c) (rd2 c).

Definition T {A} : A -> Prop := fun _ => True.

Lemma mrelP_mapM {A B} (f1 : A -> M (S:=S1) B) (f2 : A -> M (S:=S2) B) l :
  (forall x, In x l -> mrelP T (f1 x) (f2 x)) -> mrelP T (mapM f1 l) (mapM f2 l).
Proof.
  induction l as [|x l IH]; intro H; cbn [mapM].
  - apply mrelP_ret. exact I.
  - eapply mrelP_bind; [apply H; left; reflexivity|]. intros y _.
    eapply mrelP_bind; [apply IH; intros z Hz; apply H; right; exact Hz|]. intros ys _.
    apply mrelP_ret. exact I.
Qed.

Lemma mrelP_read_range conv s r1 c1 r2 c2 :
  (forall c, In c (range_cells s r1 c1 r2 c2) -> allowed c) ->
  mrelP T (read_range rd1 conv s r1 c1 r2 c2) (read_range rd2 conv s r1 c1 r2 c2).
Proof.
  intro H. unfold read_range. apply mrelP_mapM. intros r Hr.
  apply mrelP_mapM. intros c Hc.
  eapply mrelP_bind; [apply Hrd; apply H; unfold range_cells; apply in_flat_map; exists r; auto|].
  intros v _. apply mrelP_ret. exact I.
Qed.

(* a function is only ever left early with a value that is not a range *)
Definition step_ok (st : step (num:=num) (acc (num:=num))) : Prop := match st with Stop v => not_range v | Continue _ => True end.
Lemma short_check_ok f a : step_ok (short_check f a).
Proof. unfold short_check. destruct (a_bool a) as [cur|]; [destruct (Bool.eqb cur (short_value f))|]; exact I. Qed.
Lemma agg_cell_ok f a v : step_ok (agg_cell N f a v).
Proof. destruct f, v; cbn [agg_cell]; try exact I; apply short_check_ok. Qed.
Lemma agg_node_ok f a x : step_ok (agg_node N f a x).
Proof. destruct f, x; cbn [agg_node]; try exact I; apply short_check_ok. Qed.
Lemma fold_nodes_ok f l a : step_ok (fold_nodes N f l a).
Proof.
  revert a; induction l as [|x l IH]; intro a; cbn [fold_nodes]; [exact I|].
  pose proof (agg_node_ok f a x) as H. destruct (agg_node N f a x); [apply IH | exact H].
Qed.
Lemma agg_direct_ok f isref a v v2 : step_ok (agg_direct N f isref a v v2).
Proof.
  destruct f, v; cbn [agg_direct]; try exact I; try apply short_check_ok;
  repeat match goal with |- context [match ?x with _ => _ end] => destruct x end; try exact I; apply short_check_ok.
Qed.

Lemma mrelP_scan_cells f cs a :
  (forall c, In c cs -> allowed c) ->
  mrelP step_ok (scan_cells N rd1 f cs a) (scan_cells N rd2 f cs a).
Proof.
  revert a. induction cs as [|c cs IH]; intros a H; cbn [scan_cells].
  - apply mrelP_ret. exact I.
  - eapply mrelP_bind; [apply Hrd; apply H; left; reflexivity|]. intros v _.
    pose proof (agg_cell_ok f a v) as Hok.
    destruct (agg_cell N f a v); [apply IH; intros d Hd; apply H; right; exact Hd | apply mrelP_ret; exact Hok].
Qed.

Lemma mrelP_number_or_array v : val_ok v -> mrelP T (number_or_array N rd1 v) (number_or_array N rd2 v).
Proof.
  intro Hv. destruct v; cbn [number_or_array]; try (apply mrelP_ret; exact I).
  eapply mrelP_bind; [apply mrelP_read_range; exact Hv|]. intros a _. apply mrelP_ret. exact I.
Qed.
Lemma mrelP_value_or_array v : val_ok v -> mrelP T (value_or_array rd1 v) (value_or_array rd2 v).
Proof.
  intro Hv. destruct v; cbn [value_or_array]; try (apply mrelP_ret; exact I).
  eapply mrelP_bind; [apply mrelP_read_range; exact Hv|]. intros a _. apply mrelP_ret. exact I.
Qed.
Lemma mrelP_string_or_array v : val_ok v -> mrelP T (string_or_array N rd1 v) (string_or_array N rd2 v).
Proof.
  intro Hv. destruct v; cbn [string_or_array]; try (apply mrelP_ret; exact I).
  eapply mrelP_bind; [apply mrelP_read_range; exact Hv|]. intros a _. apply mrelP_ret. exact I.
Qed.
Lemma mrelP_to_ifarg v : val_ok v -> mrelP T (to_ifarg rd1 v) (to_ifarg rd2 v).
Proof.
  intro Hv. destruct v; cbn [to_ifarg]; try (apply mrelP_ret; exact I).
  eapply mrelP_bind; [apply mrelP_read_range; exact Hv|]. intros a _. apply mrelP_ret. exact I.
Qed.

Lemma mrelP_agg_arg f isref a v re1 re2 :
  val_ok v -> mrelP val_ok re1 re2 ->
  mrelP step_ok (agg_arg N rd1 f isref a v re1) (agg_arg N rd2 f isref a v re2).
Proof.
  intros Hv Hre. destruct v; cbn [agg_arg]; try (apply mrelP_ret; apply agg_direct_ok).
  - destruct f; try (apply mrelP_ret; apply agg_direct_ok);
      (destruct isref; [apply mrelP_ret; apply agg_direct_ok | eapply mrelP_bind; [exact Hre|]; intros v2 _; apply mrelP_ret; apply agg_direct_ok]).
  - apply mrelP_scan_cells. exact Hv.
  - destruct f; apply mrelP_ret; try exact I; apply fold_nodes_ok.
Qed.

Lemma not_range_arith o l r : not_range (arith N o l r).
Proof. destruct l, r; cbn; try exact I; match goal with |- context [apply_op ?a ?b ?c ?d] => destruct (apply_op a b c d) end; exact I. Qed.
Lemma not_range_concat l r : not_range (concat N l r).
Proof. destruct l, r; exact I. Qed.
Lemma not_range_cmp k l r : not_range (comparison_op N k l r).
Proof. destruct l, r; exact I. Qed.
Lemma not_range_unary k f : not_range (unary N k f).
Proof. destruct k; exact I. Qed.
Lemma not_range_finish f a : not_range (agg_finish N f a).
Proof. destruct f; cbn; try exact I; repeat match goal with |- context [match ?x with _ => _ end] => destruct x end; exact I. Qed.

Variable anchor : cref.

Ltac ret_nr := apply mrelP_ret; apply not_range_ok; try exact I.

Lemma in_app_l {A} (x : A) l r : In x l -> In x (l ++ r). Proof. intro; apply in_or_app; auto. Qed.
Lemma in_app_r {A} (x : A) l r : In x r -> In x (l ++ r). Proof. intro; apply in_or_app; auto. Qed.

Theorem eval_st_rel : forall e, (forall c, In c (refs e) -> allowed c) ->
  mrelP val_ok (eval_st N rd1 anchor e) (eval_st N rd2 anchor e).
Proof.
  induction e as [n|t|b|x| |s r c|s r1 c1 r2 c2|a|k e IH|o l r IHl IHr|l r IHl IHr|k l r IHl IHr|e IH|f args IH] using ast_ind';
    intro Hall; cbn [eval_st].
  - ret_nr. - ret_nr. - ret_nr. - ret_nr. - ret_nr.
  - eapply mrelP_weaken; [apply not_range_ok | apply Hrd; apply Hall; left; reflexivity].
  - apply mrelP_ret. exact Hall.
  - ret_nr.
  - eapply mrelP_bind; [apply IH; exact Hall|]. intros v _. apply mrelP_ret. apply not_range_ok.
    destruct (cast_to_number N v); [apply not_range_unary | exact I].
  - cbn [refs] in Hall.
    eapply mrelP_bind; [apply IHl; intros; apply Hall, in_app_l; assumption|]. intros vl Hvl.
    eapply mrelP_bind; [apply mrelP_number_or_array; exact Hvl|]. intros nl _.
    destruct nl; [|ret_nr].
    eapply mrelP_bind; [apply IHr; intros; apply Hall, in_app_r; assumption|]. intros vr Hvr.
    eapply mrelP_bind; [apply mrelP_number_or_array; exact Hvr|]. intros nr _.
    destruct nr; [|ret_nr]. apply mrelP_ret, not_range_ok, not_range_arith.
  - cbn [refs] in Hall.
    eapply mrelP_bind; [apply IHl; intros; apply Hall, in_app_l; assumption|]. intros vl Hvl.
    eapply mrelP_bind; [apply mrelP_string_or_array; exact Hvl|]. intros nl _.
    destruct nl; [|ret_nr].
    eapply mrelP_bind; [apply IHr; intros; apply Hall, in_app_r; assumption|]. intros vr Hvr.
    eapply mrelP_bind; [apply mrelP_string_or_array; exact Hvr|]. intros nr _.
    destruct nr; [|ret_nr]. apply mrelP_ret, not_range_ok, not_range_concat.
  - cbn [refs] in Hall.
    eapply mrelP_bind; [apply IHl; intros; apply Hall, in_app_l; assumption|]. intros vl Hvl.
    eapply mrelP_bind; [apply mrelP_value_or_array; exact Hvl|]. intros nl _.
    destruct nl; [|ret_nr].
    eapply mrelP_bind; [apply IHr; intros; apply Hall, in_app_r; assumption|]. intros vr Hvr.
    eapply mrelP_bind; [apply mrelP_value_or_array; exact Hvr|]. intros nr _.
    destruct nr; [|ret_nr]. apply mrelP_ret, not_range_ok, not_range_cmp.
  - (* EImplicit *)
    cbn [refs] in Hall.
    assert (Hw : mrelP val_ok
      (match e with ERef s r c => ret (VRange s r c r c) | ERange s r1 c1 r2 c2 => ret (VRange s r1 c1 r2 c2) | _ => eval_st N rd1 anchor e end)
      (match e with ERef s r c => ret (VRange s r c r c) | ERange s r1 c1 r2 c2 => ret (VRange s r1 c1 r2 c2) | _ => eval_st N rd2 anchor e end)).
    { destruct e; try (apply IH; exact Hall).
      apply mrelP_ret. cbn [val_ok]. rewrite range_cells_single. exact Hall. }
    eapply mrelP_bind; [exact Hw|]. intros w Hwok.
    destruct w; try (apply IH; exact Hall).
    destruct (implicit_intersection anchor sheet r1 c1 r2 c2) as [cr|] eqn:Ei; [|ret_nr].
    eapply mrelP_weaken; [apply not_range_ok|]. apply Hrd. apply Hwok. eapply implicit_in_range; exact Ei.
  - (* EFun *)
    destruct (is_aggregate f) eqn:Eagg.
    + destruct (needs_args f && match args with [] => true | _ :: _ => false end); [ret_nr|].
      generalize (agg_init N f) as a0. revert IH Hall.
      induction args as [|x rest IHl]; intros IH Hall a0.
      * apply mrelP_ret, not_range_ok, not_range_finish.
      * inversion IH as [|? ? Hx Hrest]; subst.
        assert (Hax : forall c, In c (refs x) -> allowed c) by (intros; apply Hall; cbn [refs flat_map]; apply in_app_l; assumption).
        assert (Har : forall c, In c (refs (EFun f rest)) -> allowed c) by (intros; apply Hall; cbn [refs flat_map]; apply in_app_r; assumption).
        eapply mrelP_bind.
        { instantiate (1 := val_ok).
          destruct f; try (apply Hx; exact Hax).
          destruct x; try (apply Hx; exact Hax).
          apply mrelP_ret. cbn [val_ok]. rewrite range_cells_single. exact Hax. }
        intros v Hv.
        eapply mrelP_bind; [apply mrelP_agg_arg; [exact Hv | apply Hx; exact Hax]|]. intros st Hst.
        destruct st; [apply IHl; assumption | apply mrelP_ret, not_range_ok; exact Hst].
    + (* the functions with a fixed argument pattern *)
      cbn [refs] in Hall.
      assert (Hargs : forall x, In x args -> mrelP val_ok (eval_st N rd1 anchor x) (eval_st N rd2 anchor x)).
      { intros x Hx. rewrite Forall_forall in IH. apply IH; [exact Hx|].
        intros c Hc. apply Hall. apply in_flat_map. exists x. auto. }
      clear IH Hall.
      destruct f; try discriminate Eagg; try ret_nr.
      * (* IF *)
        destruct args as [|c [|t rest]]; try ret_nr.
        destruct rest as [|el [|? ?]]; try ret_nr.
        -- eapply mrelP_bind; [apply Hargs; cbn; auto|]. intros vc Hvc.
           destruct vc; try (cbn [cast_to_bool]; repeat match goal with |- context [match ?x with _ => _ end] => destruct x end; try ret_nr; apply Hargs; cbn; auto).
           ++ eapply mrelP_bind; [apply mrelP_read_range; exact Hvc|]. intros cond _.
              eapply mrelP_bind; [apply Hargs; cbn; auto|]. intros vt Hvt.
              eapply mrelP_bind; [apply mrelP_to_ifarg; exact Hvt|]. intros ta _. ret_nr.
           ++ eapply mrelP_bind; [apply mrelP_ret; exact I|]. intros cond _.
              eapply mrelP_bind; [apply Hargs; cbn; auto|]. intros vt Hvt.
              eapply mrelP_bind; [apply mrelP_to_ifarg; exact Hvt|]. intros ta _. ret_nr.
        -- eapply mrelP_bind; [apply Hargs; cbn; auto|]. intros vc Hvc.
           destruct vc; try (cbn [cast_to_bool]; repeat match goal with |- context [match ?x with _ => _ end] => destruct x end; try ret_nr; apply Hargs; cbn; auto).
           ++ eapply mrelP_bind; [apply mrelP_read_range; exact Hvc|]. intros cond _.
              eapply mrelP_bind; [apply Hargs; cbn; auto|]. intros vt Hvt.
              eapply mrelP_bind; [apply mrelP_to_ifarg; exact Hvt|]. intros ta _.
              eapply mrelP_bind; [apply Hargs; cbn; auto|]. intros ve Hve.
              eapply mrelP_bind; [apply mrelP_to_ifarg; exact Hve|]. intros fa _. ret_nr.
           ++ eapply mrelP_bind; [apply mrelP_ret; exact I|]. intros cond _.
              eapply mrelP_bind; [apply Hargs; cbn; auto|]. intros vt Hvt.
              eapply mrelP_bind; [apply mrelP_to_ifarg; exact Hvt|]. intros ta _.
              eapply mrelP_bind; [apply Hargs; cbn; auto|]. intros ve Hve.
              eapply mrelP_bind; [apply mrelP_to_ifarg; exact Hve|]. intros fa _. ret_nr.
      * (* NOT *)
        destruct args as [|x [|? ?]]; try ret_nr.
        eapply mrelP_bind; [apply Hargs; cbn; auto|]. intros v _. apply mrelP_ret, not_range_ok.
        destruct (cast_to_bool N v); exact I.
      * (* ABS *)
        destruct args as [|x [|? ?]]; try ret_nr.
        eapply mrelP_bind; [apply Hargs; cbn; auto|]. intros v Hv.
        eapply mrelP_bind; [apply mrelP_number_or_array; exact Hv|]. intros na _.
        apply mrelP_ret, not_range_ok. destruct na as [[?|?]|?]; exact I.
      * (* ROUND *)
        destruct args as [|x [|d [|? ?]]]; try ret_nr.
        eapply mrelP_bind; [apply Hargs; cbn; auto|]. intros vx _.
        destruct (cast_to_number N vx); [|ret_nr].
        eapply mrelP_bind; [apply Hargs; cbn; auto|]. intros vd _.
        apply mrelP_ret, not_range_ok. destruct (cast_to_number N vd); exact I.
      * (* LEN *)
        destruct args as [|x [|? ?]]; try ret_nr.
        eapply mrelP_bind; [apply Hargs; cbn; auto|]. intros v _. apply mrelP_ret, not_range_ok. destruct v; exact I.
      * destruct args as [|x [|? ?]]; try ret_nr.
        eapply mrelP_bind; [apply Hargs; cbn; auto|]. intros v _. ret_nr.
      * destruct args as [|x [|? ?]]; try ret_nr.
        eapply mrelP_bind; [apply Hargs; cbn; auto|]. intros v _. ret_nr.
      * destruct args as [|x [|? ?]]; try ret_nr.
        eapply mrelP_bind; [apply Hargs; cbn; auto|]. intros v _. ret_nr.
      * (* IFERROR *)
        destruct args as [|x [|fb [|? ?]]]; try ret_nr.
        eapply mrelP_bind; [apply Hargs; cbn; auto|]. intros v Hv.
        destruct v; try (apply mrelP_ret; exact Hv); try (apply Hargs; cbn; auto).
        -- eapply mrelP_bind; [apply mrelP_read_range; exact Hv|]. intros va _.
           eapply mrelP_bind; [apply Hargs; cbn; auto|]. intros vf Hvf.
           eapply mrelP_bind; [apply mrelP_to_ifarg; exact Hvf|]. intros fa _. ret_nr.
        -- eapply mrelP_bind; [apply mrelP_ret; exact I|]. intros va _.
           eapply mrelP_bind; [apply Hargs; cbn; auto|]. intros vf Hvf.
           eapply mrelP_bind; [apply mrelP_to_ifarg; exact Hvf|]. intros fa _. ret_nr.
Qed.

(* the post-processing of a formula result *)
Lemma finish_range_rel v : val_ok v ->
  mrelP not_range (finish_range rd1 anchor v) (finish_range rd2 anchor v).
Proof.
  intro Hv. destruct v; cbn [finish_range]; try (apply mrelP_ret; exact I).
  destruct ((r1 =? r2) && (c1 =? c2)) eqn:E.
  - apply Hrd. apply Hv. apply andb_true_iff in E as [A B]. apply Z.eqb_eq in A, B. subst.
    rewrite range_cells_single. left. reflexivity.
  - match goal with |- context [if ?b then _ else _] => destruct b end; [apply mrelP_ret; exact I|].
    eapply mrelP_bind; [apply mrelP_read_range; exact Hv|]. intros a _. apply mrelP_ret. exact I.
Qed.

Theorem eval_formula_rel f : (forall c, In c (refs f) -> allowed c) ->
  mrelP not_range (eval_formula N rd1 anchor f) (eval_formula N rd2 anchor f).
Proof.
  intro H. unfold eval_formula. eapply mrelP_bind; [apply eval_st_rel; exact H|].
  intros v Hv. apply finish_range_rel. exact Hv.
Qed.

End Rel.
