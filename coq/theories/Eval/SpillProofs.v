(* Eval/SpillProofs.v — proofs about the spill model (property C31). *)
From IronCalc Require Import Base.Prelude Eval.Spill.

Section SpillProofs.
Context {V : Type}.
Variable spill_err calc_err uneval : V.
Variable dflt : pos -> Z.

Notation cell := (cell V).
Notation sheet := (sheet V).
Notation style_at := (style_at dflt).
Notation style_of := (style_of dflt).
Notation clear_contents := (clear_contents dflt).
Notation clear_own_spills := (clear_own_spills dflt).
Notation clear_own_step := (clear_own_step dflt).
Notation write_cells := (write_cells dflt).
Notation write_step := (write_step dflt).
Notation write_dynamic := (write_dynamic spill_err calc_err dflt).
Notation eval_anchor := (eval_anchor spill_err calc_err dflt).
Notation eval_anchors := (eval_anchors spill_err calc_err dflt).
Notation reset_one := (reset_one uneval dflt).
Notation reset_spills_from := (reset_spills_from uneval dflt).
Notation reset_spills := (reset_spills uneval dflt).
Notation prepare_for_input := (prepare_for_input uneval dflt).
Notation clear_but := (clear_but dflt).

(* ---- positions ---------------------------------------------------------------------------- *)
Lemma pos_eqb_eq (p q : pos) : pos_eqb p q = true <-> p = q.
Proof.
  destruct p as [a b], q as [c d]; unfold pos_eqb; cbn [fst snd].
  rewrite andb_true_iff, !Z.eqb_eq. split; [intros [-> ->]; reflexivity | intros H; inversion H; auto].
Qed.
Lemma pos_eqb_refl (p : pos) : pos_eqb p p = true.
Proof. apply pos_eqb_eq; reflexivity. Qed.
Lemma pos_eqb_neq (p q : pos) : pos_eqb p q = false <-> p <> q.
Proof.
  split; intros H.
  - intros E. apply pos_eqb_eq in E. congruence.
  - destruct (pos_eqb p q) eqn:E; [apply pos_eqb_eq in E; contradiction | reflexivity].
Qed.
Lemma pos_eqb_sym (p q : pos) : pos_eqb p q = pos_eqb q p.
Proof.
  destruct (pos_eqb p q) eqn:E.
  - apply pos_eqb_eq in E; subst. symmetry; apply pos_eqb_refl.
  - symmetry. apply pos_eqb_neq. apply pos_eqb_neq in E. congruence.
Qed.
Lemma pos_eta (p : pos) : (fst p, snd p) = p.
Proof. destruct p; reflexivity. Qed.

(* ---- the finite map ---------------------------------------------------------------------- *)
Lemma get_remove (sh : sheet) p q : get (remove p sh) q = if pos_eqb p q then None else get sh q.
Proof.
  induction sh as [|[r c] sh IH]; cbn [remove get].
  - destruct (pos_eqb p q); reflexivity.
  - destruct (pos_eqb r p) eqn:E.
    + apply pos_eqb_eq in E; subst r. rewrite IH. destruct (pos_eqb p q); reflexivity.
    + cbn [get]. rewrite IH. destruct (pos_eqb r q) eqn:E2; [|reflexivity].
      apply pos_eqb_eq in E2; subst r. rewrite pos_eqb_sym, E. reflexivity.
Qed.

Lemma get_set (sh : sheet) p c q : get (set p c sh) q = if pos_eqb p q then Some c else get sh q.
Proof. unfold set; cbn [get]. rewrite get_remove. destruct (pos_eqb p q); reflexivity. Qed.

Lemma get_in_keys (sh : sheet) p c : get sh p = Some c -> In p (keys sh).
Proof.
  induction sh as [|[r c'] sh IH]; cbn [get keys map fst]; [discriminate|].
  destruct (pos_eqb r p) eqn:E; intros H.
  - apply pos_eqb_eq in E; left; exact E.
  - right; apply IH; exact H.
Qed.

(* ---- rectangles -------------------------------------------------------------------------- *)
Lemma in_zrange s n x : In x (zrange s n) <-> s <= x < s + Z.of_nat n.
Proof.
  revert s; induction n as [|n IH]; intros s; cbn [zrange In].
  - lia.
  - rewrite IH. lia.
Qed.

Lemma in_rect_iff a w h p : In p (rect a w h) <-> in_rect a w h p = true.
Proof.
  unfold rect, in_rect. rewrite in_flat_map.
  rewrite !andb_true_iff, !Z.leb_le, !Z.ltb_lt.
  split.
  - intros [r [Hr Hp]]. apply in_map_iff in Hp as [c [<- Hc]]. cbn [fst snd].
    apply in_zrange in Hr, Hc. lia.
  - intros [[[H1 H2] H3] H4]. exists (fst p). split.
    + apply in_zrange. lia.
    + apply in_map_iff. exists (snd p). split; [apply pos_eta|]. apply in_zrange. lia.
Qed.

Lemma existsb_rect a w h q : existsb (pos_eqb q) (rect a w h) = in_rect a w h q.
Proof.
  destruct (in_rect a w h q) eqn:E.
  - apply existsb_exists. exists q. split; [apply in_rect_iff; exact E | apply pos_eqb_refl].
  - destruct (existsb (pos_eqb q) (rect a w h)) eqn:E2; [|reflexivity].
    apply existsb_exists in E2 as [x [Hx Hq]]. apply pos_eqb_eq in Hq; subst x.
    apply in_rect_iff in Hx. congruence.
Qed.

Lemma in_rect_anchor a w h : 1 <= w -> 1 <= h -> in_rect a w h a = true.
Proof. intros; unfold in_rect; rewrite !andb_true_iff, !Z.leb_le, !Z.ltb_lt; lia. Qed.

Lemma in_rect_11 a p : in_rect a 1 1 p = pos_eqb a p.
Proof.
  apply eq_true_iff_eq. unfold in_rect, pos_eqb.
  rewrite !andb_true_iff, !Z.leb_le, !Z.ltb_lt, !Z.eqb_eq. lia.
Qed.

(* ---- folds of local updates --------------------------------------------------------------- *)
Lemma fold_local (step : sheet -> pos -> sheet) (u : pos -> option cell -> option cell) :
  (forall sh p q, get (step sh p) q = if pos_eqb p q then u p (get sh p) else get sh q) ->
  (forall p x, u p (u p x) = u p x) ->
  forall l sh q, get (fold_left step l sh) q = if existsb (pos_eqb q) l then u q (get sh q) else get sh q.
Proof.
  intros Hstep Hidem l. induction l as [|p l IH]; intros sh q; cbn [fold_left existsb]; [reflexivity|].
  rewrite IH, !Hstep. rewrite (pos_eqb_sym q p).
  destruct (pos_eqb p q) eqn:E; cbn [orb].
  - apply pos_eqb_eq in E; subst p. rewrite Hidem. destruct (existsb (pos_eqb q) l); reflexivity.
  - reflexivity.
Qed.

(* the update performed by cell_clear_contents when [cond] holds *)
Definition clr (cond : pos -> option cell -> bool) (p : pos) (x : option cell) : option cell :=
  if cond p x && on_grid p then Some (mkcell (style_of x p) KEmpty) else x.

Lemma clr_idem cond p x : clr cond p (clr cond p x) = clr cond p x.
Proof.
  unfold clr. destruct (cond p x && on_grid p) eqn:E; [|rewrite E; reflexivity].
  cbn [Spill.style_of c_s].
  destruct (cond p (Some (mkcell (style_of x p) KEmpty)) && on_grid p); reflexivity.
Qed.

Lemma get_clear_contents (sh : sheet) p q :
  get (clear_contents sh p) q = if pos_eqb p q then clr (fun _ _ => true) p (get sh p) else get sh q.
Proof.
  unfold Spill.clear_contents, clr. cbn [andb]. destruct (on_grid p).
  - rewrite get_set. reflexivity.
  - destruct (pos_eqb p q) eqn:E; [apply pos_eqb_eq in E; subst; reflexivity | reflexivity].
Qed.

Lemma get_cond_clear (cond : pos -> option cell -> bool) (sh : sheet) p q :
  get (if cond p (get sh p) then clear_contents sh p else sh) q
  = if pos_eqb p q then clr cond p (get sh p) else get sh q.
Proof.
  unfold clr. destruct (cond p (get sh p)) eqn:C; cbn [andb].
  - rewrite get_clear_contents. unfold clr. cbn [andb]. reflexivity.
  - destruct (pos_eqb p q) eqn:E; [apply pos_eqb_eq in E; subst; reflexivity | reflexivity].
Qed.

Lemma fold_cond_clear (cond : pos -> option cell -> bool) l (sh : sheet) q :
  get (fold_left (fun sh p => if cond p (get sh p) then clear_contents sh p else sh) l sh) q
  = if existsb (pos_eqb q) l then clr cond q (get sh q) else get sh q.
Proof.
  apply (fold_local (fun sh p => if cond p (get sh p) then clear_contents sh p else sh) (clr cond)).
  - intros; apply get_cond_clear.
  - intros; apply clr_idem.
Qed.


Lemma pair_eq {A B} (a c : A) (b d : B) : a = c -> b = d -> (a, b) = (c, d).
Proof. intros -> ->; reflexivity. Qed.
Ltac peq := repeat (apply pair_eq); try reflexivity; try lia.

(* ---- the cells written by the double loop ------------------------------------------------- *)
Lemma in_row_cells r c w (vs : list V) p v :
  In (p, v) (row_cells r c w vs) <->
  exists j, (j < w)%nat /\ nth_error vs j = Some v /\ p = (r, c + Z.of_nat j).
Proof.
  revert c vs; induction w as [|w IH]; intros c vs; cbn [row_cells].
  - split; [intros [] | intros [j [H _]]; lia].
  - destruct vs as [|x vs]; cbn [In].
    + split; [intros [] | intros [j [_ [H _]]]; destruct j; discriminate].
    + rewrite IH. split.
      * intros [H | [j [Hj [Hn Hp]]]].
        -- inversion H; subst. exists 0%nat. split; [lia|]. split; [reflexivity|]. peq.
        -- exists (S j). split; [lia|]. split; [exact Hn|]. subst p. peq.
      * intros [j [Hj [Hn Hp]]]. destruct j as [|j].
        -- left. cbn [nth_error] in Hn. inversion Hn; subst. peq.
        -- right. exists j. split; [lia|]. split; [exact Hn|]. subst p. peq.
Qed.

Lemma in_block_cells r c w (arr : list (list V)) p v :
  In (p, v) (block_cells r c w arr) <->
  exists i j, (j < w)%nat /\ elem arr i j = Some v /\ p = (r + Z.of_nat i, c + Z.of_nat j).
Proof.
  revert r; induction arr as [|vs arr IH]; intros r; cbn [block_cells].
  - split; [intros [] | intros [i [j [_ [H _]]]]; unfold elem in H; destruct i; discriminate].
  - rewrite in_app_iff, in_row_cells, IH. split.
    + intros [[j [Hj [Hn Hp]]] | [i [j [Hj [He Hp]]]]].
      * exists 0%nat, j. split; [exact Hj|]. split; [exact Hn|]. subst p. peq.
      * exists (S i), j. split; [exact Hj|]. split; [exact He|]. subst p. peq.
    + intros [i [j [Hj [He Hp]]]]. destruct i as [|i].
      * left. exists j. split; [exact Hj|]. split; [exact He|]. subst p. peq.
      * right. exists i, j. split; [exact Hj|]. split; [exact He|]. subst p. peq.
Qed.

Lemma elem_some_of_not_short w (arr : list (list V)) i j :
  short_row w arr = false -> (i < length arr)%nat -> (j < w)%nat -> exists v, elem arr i j = Some v.
Proof.
  intros Hs Hi Hj. unfold elem.
  destruct (nth_error arr i) as [row|] eqn:E; [|apply nth_error_None in E; lia].
  assert (Hlen : (w <= length row)%nat).
  { destruct (Nat.ltb (length row) w) eqn:L.
    - exfalso. assert (X : short_row w arr = true).
      { apply existsb_exists. exists row. split; [eapply nth_error_In; exact E | exact L]. }
      congruence.
    - apply Nat.ltb_ge in L. exact L. }
  destruct (nth_error row j) as [v|] eqn:E2; [exists v; reflexivity | apply nth_error_None in E2; lia].
Qed.

Fixpoint lookup (cells : list (pos * V)) (q : pos) : option V :=
  match cells with
  | [] => None
  | (p, v) :: r => if pos_eqb p q then Some v else lookup r q
  end.

Lemma lookup_some cells q (v : V) : lookup cells q = Some v -> In (q, v) cells.
Proof.
  induction cells as [|[p x] r IH]; cbn [lookup]; [discriminate|].
  destruct (pos_eqb p q) eqn:E; intros H.
  - apply pos_eqb_eq in E. inversion H; subst. left; reflexivity.
  - right; apply IH; exact H.
Qed.
Lemma lookup_none cells q : lookup cells q = None -> forall v, ~ In (q, v) cells.
Proof.
  induction cells as [|[p x] r IH]; cbn [lookup]; intros H v Hin; [exact Hin|].
  destruct (pos_eqb p q) eqn:E; [discriminate|].
  destruct Hin as [Hin | Hin].
  - inversion Hin; subst. rewrite pos_eqb_refl in E. discriminate.
  - exact (IH H v Hin).
Qed.
Lemma lookup_app c1 c2 q : lookup (c1 ++ c2) q = match lookup c1 q with Some v => Some v | None => lookup c2 q end.
Proof.
  induction c1 as [|[p x] r IH]; cbn [lookup app]; [reflexivity|].
  destruct (pos_eqb p q); [reflexivity | exact IH].
Qed.

Lemma new_cell_style a f s w h q (v v' : V) sty :
  new_cell a f s w h q v' (c_s (new_cell a f s w h q v sty)) = new_cell a f s w h q v' sty.
Proof. unfold new_cell. destruct (pos_eqb q a); reflexivity. Qed.

Lemma get_write_cells a f s w h cells (sh : sheet) q :
  get (write_cells a f s w h cells sh) q =
  match lookup (rev cells) q with
  | Some v => Some (new_cell a f s w h q v (style_at sh q))
  | None => get sh q
  end.
Proof.
  unfold Spill.write_cells. revert sh; induction cells as [|[p x] r IH]; intros sh; cbn [fold_left rev lookup]; [reflexivity|].
  rewrite IH, lookup_app. cbn [lookup].
  assert (G : forall q', get (Spill.write_step dflt a f s w h sh (p, x)) q'
              = if pos_eqb p q' then Some (new_cell a f s w h p x (style_at sh p)) else get sh q').
  { intros q'. unfold Spill.write_step. cbn [fst snd]. apply get_set. }
  unfold Spill.style_at at 1. rewrite !G.
  destruct (lookup (rev r) q) as [v|]; destruct (pos_eqb p q) eqn:E; try reflexivity;
    apply pos_eqb_eq in E; subst p; [|reflexivity].
  cbn [Spill.style_of]. rewrite new_cell_style. reflexivity.
Qed.

(* what the block loop leaves at every position *)
Lemma get_write_block a f s wn (arr : list (list V)) (sh : sheet) q :
  short_row wn arr = false ->
  let w := Z.of_nat wn in let h := Z.of_nat (length arr) in
  get (write_cells a f s w h (block_cells (fst a) (snd a) wn arr) sh) q =
  if in_rect a w h q
  then match elem arr (Z.to_nat (fst q - fst a)) (Z.to_nat (snd q - snd a)) with
       | Some v => Some (new_cell a f s w h q v (style_at sh q))
       | None => None
       end
  else get sh q.
Proof.
  intros Hs w h. rewrite get_write_cells.
  destruct (lookup (rev (block_cells (fst a) (snd a) wn arr)) q) as [v|] eqn:L.
  - apply lookup_some in L. apply in_rev in L. apply in_block_cells in L as [i [j [Hj [He Hp]]]].
    assert (Hi : (i < length arr)%nat).
    { unfold elem in He. destruct (nth_error arr i) eqn:E; [|discriminate]. apply nth_error_Some. congruence. }
    subst q. cbn [fst snd].
    replace (in_rect a w h (fst a + Z.of_nat i, snd a + Z.of_nat j)) with true.
    2:{ symmetry. unfold in_rect; cbn [fst snd]. rewrite !andb_true_iff, !Z.leb_le, !Z.ltb_lt. subst w h. lia. }
    replace (Z.to_nat (fst a + Z.of_nat i - fst a)) with i by lia.
    replace (Z.to_nat (snd a + Z.of_nat j - snd a)) with j by lia.
    rewrite He. reflexivity.
  - destruct (in_rect a w h q) eqn:R; [|reflexivity]. exfalso.
    unfold in_rect in R. rewrite !andb_true_iff, !Z.leb_le, !Z.ltb_lt in R. destruct R as [[[R1 R2] R3] R4].
    destruct (elem_some_of_not_short wn arr (Z.to_nat (fst q - fst a)) (Z.to_nat (snd q - snd a)) Hs) as [v Hv]; [subst h; lia | subst w; lia |].
    apply (lookup_none _ _ L v). apply -> in_rev. apply in_block_cells.
    exists (Z.to_nat (fst q - fst a)), (Z.to_nat (snd q - snd a)). split; [subst w; lia|]. split; [exact Hv|].
    destruct q as [qr qc]; cbn [fst snd] in *. peq.
Qed.


(* ---- the invariant --------------------------------------------------------------------------- *)
Definition is_dyn (sh : sheet) (a : pos) : Prop :=
  exists c f w h v, get sh a = Some c /\ c_k c = KDyn f w h v.

(* every spill cell has an anchor (dynamic or CSE) whose current extent covers it *)
Definition covered (sh : sheet) : Prop :=
  forall p c ar ac v, get sh p = Some c -> c_k c = KSpill ar ac v ->
  exists w h, ext_of sh (ar, ac) = Some (w, h) /\ in_rect (ar, ac) w h p = true /\ p <> (ar, ac).

(* extents are non-empty and inside the grid *)
Definition exts_ok (sh : sheet) : Prop :=
  forall a w h, ext_of sh a = Some (w, h) ->
  1 <= w /\ 1 <= h /\ on_grid a = true /\ fst a + h - 1 <= LAST_ROW /\ snd a + w - 1 <= LAST_COLUMN.

(* extents of different anchors have no cell in common *)
Definition exts_disjoint (sh : sheet) : Prop :=
  forall a1 a2 w1 h1 w2 h2 q, a1 <> a2 ->
  ext_of sh a1 = Some (w1, h1) -> ext_of sh a2 = Some (w2, h2) ->
  in_rect a1 w1 h1 q = true -> in_rect a2 w2 h2 q = true -> False.

Definition spill_inv (sh : sheet) : Prop := covered sh /\ exts_ok sh /\ exts_disjoint sh.

(* every cell of an extent except the anchor is a spill cell of that anchor ("fills exactly") *)
Definition full_at (sh : sheet) (a : pos) : Prop :=
  forall w h q, ext_of sh a = Some (w, h) -> in_rect a w h q = true -> q <> a ->
  is_own_spill a (get sh q) = true.
Definition full (sh : sheet) : Prop := forall a, full_at sh a.
Definition full_except (x : pos) (sh : sheet) : Prop := forall a, a <> x -> full_at sh a.
Definition no_own (a : pos) (sh : sheet) : Prop := forall q, is_own_spill a (get sh q) = false.

Lemma own_spill_elim a (x : option cell) :
  is_own_spill a x = true -> exists c v, x = Some c /\ c_k c = KSpill (fst a) (snd a) v.
Proof.
  destruct x as [c|]; cbn [is_own_spill]; [|discriminate].
  destruct (c_k c) eqn:K; try discriminate. intros H. apply pos_eqb_eq in H. subst a. cbn [fst snd]. eauto.
Qed.

Lemma own_spill_intro a (x : option cell) c v :
  x = Some c -> c_k c = KSpill (fst a) (snd a) v -> is_own_spill a x = true.
Proof. intros -> K. cbn [is_own_spill]. rewrite K, pos_eta. apply pos_eqb_refl. Qed.

Lemma own_spill_not_anchor a (sh : sheet) q : is_own_spill a (get sh q) = true -> ext_of sh q = None.
Proof. intros H. apply own_spill_elim in H as [c [v [G K]]]. unfold ext_of, anchor_ext. rewrite G, K. reflexivity. Qed.

Lemma anchor_blocks a (sh : sheet) b e : ext_of sh b = Some e -> blocks a (get sh b) = true.
Proof.
  unfold ext_of, anchor_ext, blocks. destruct (get sh b) as [c|]; [|discriminate].
  destruct (c_k c); try discriminate; reflexivity.
Qed.

Lemma own_spill_blocks a b (x : option cell) : is_own_spill b x = true -> b <> a -> blocks a x = true.
Proof.
  intros H N. apply own_spill_elim in H as [c [v [-> K]]]. cbn [blocks]. rewrite K, pos_eta.
  apply negb_true_iff. apply pos_eqb_neq. exact N.
Qed.

Lemma own_spill_unique a b (x : option cell) : is_own_spill a x = true -> is_own_spill b x = true -> a = b.
Proof.
  intros H1 H2. apply own_spill_elim in H1 as [c [v [-> K]]]. cbn [is_own_spill] in H2. rewrite K in H2.
  apply pos_eqb_eq in H2. rewrite pos_eta in H2. exact H2.
Qed.

Lemma dyn_ext (sh : sheet) a : is_dyn sh a -> exists w h, ext_of sh a = Some (w, h).
Proof. intros [c [f [w [h [v [G K]]]]]]. exists w, h. unfold ext_of, anchor_ext. rewrite G, K. reflexivity. Qed.

Lemma dyn_not_spill (sh : sheet) a b : is_dyn sh a -> is_own_spill b (get sh a) = false.
Proof. intros [c [f [w [h [v [G K]]]]]]. rewrite G. cbn [is_own_spill]. rewrite K. reflexivity. Qed.

Lemma not_blocked_elim a w h (sh : sheet) q :
  blocked a w h sh = false -> in_rect a w h q = true -> q <> a -> blocks a (get sh q) = false.
Proof.
  intros Hb Hr Hn. unfold blocked in Hb.
  destruct (blocks a (get sh q)) eqn:B; [|reflexivity].
  assert (X : existsb (fun p => negb (pos_eqb p a) && blocks a (get sh p)) (rect a w h) = true).
  { apply existsb_exists. exists q. split; [apply in_rect_iff; exact Hr|].
    rewrite B. apply pos_eqb_neq in Hn. rewrite Hn. reflexivity. }
  congruence.
Qed.

(* Writing a full block for anchor [a] over a state in which [a] owns no spill cell and the
   block is not blocked re-establishes the invariant and fullness for every anchor. *)
Lemma block_inv (sh sh' : sheet) a w h :
  spill_inv sh -> full_except a sh -> no_own a sh -> is_dyn sh a -> on_grid a = true ->
  1 <= w -> 1 <= h -> fst a + h - 1 <= LAST_ROW -> snd a + w - 1 <= LAST_COLUMN ->
  blocked a w h sh = false ->
  (forall q, in_rect a w h q = false -> get sh' q = get sh q) ->
  ext_of sh' a = Some (w, h) ->
  (forall q, in_rect a w h q = true -> q <> a -> is_own_spill a (get sh' q) = true) ->
  spill_inv sh' /\ full sh'.
Proof.
  intros [Hcov [Hok Hdis]] Hfull Hno Hdyn Hg Hw Hh Hfr Hfc Hub Hout Hanc Hin.
  assert (U : forall q, in_rect a w h q = true -> q <> a -> blocks a (get sh q) = false)
    by (intros; eapply not_blocked_elim; eauto).
  assert (N1 : forall b e, b <> a -> ext_of sh b = Some e -> in_rect a w h b = false).
  { intros b e Nb Eb. destruct (in_rect a w h b) eqn:R; [|reflexivity].
    pose proof (U b R Nb) as Ub. rewrite (anchor_blocks a sh b e Eb) in Ub. discriminate. }
  assert (N2 : forall b wb hb q, b <> a -> ext_of sh b = Some (wb, hb) -> in_rect b wb hb q = true ->
               in_rect a w h q = false).
  { intros b wb hb q Nb Eb Rq. destruct (pos_eqb q b) eqn:Eqb.
    - apply pos_eqb_eq in Eqb; subst q. eapply N1; eauto.
    - apply pos_eqb_neq in Eqb. pose proof (Hfull b Nb wb hb q Eb Rq Eqb) as Own.
      destruct (in_rect a w h q) eqn:R; [|reflexivity].
      destruct (pos_eqb q a) eqn:Eqa.
      + apply pos_eqb_eq in Eqa; subst q. rewrite (dyn_not_spill sh a b Hdyn) in Own. discriminate.
      + apply pos_eqb_neq in Eqa. pose proof (U q R Eqa) as Uq. rewrite (own_spill_blocks a b _ Own Nb) in Uq. discriminate. }
  assert (E : forall q e, ext_of sh' q = Some e -> (q = a /\ e = (w, h)) \/ (q <> a /\ in_rect a w h q = false /\ ext_of sh q = Some e)).
  { intros q e Eq. destruct (pos_eqb q a) eqn:Eqa.
    - apply pos_eqb_eq in Eqa; subst q. left. split; [reflexivity|]. congruence.
    - apply pos_eqb_neq in Eqa. right. split; [exact Eqa|].
      destruct (in_rect a w h q) eqn:R.
      + rewrite (own_spill_not_anchor a sh' q (Hin q R Eqa)) in Eq. discriminate.
      + split; [reflexivity|]. unfold ext_of in *. rewrite <- (Hout q R). exact Eq. }
  assert (K : forall b e, b <> a -> ext_of sh b = Some e -> ext_of sh' b = Some e).
  { intros b e Nb Eb. unfold ext_of. rewrite (Hout b (N1 b e Nb Eb)). exact Eb. }
  split; [split; [|split]|].
  - (* covered *)
    intros p c ar ac v G Kc. destruct (in_rect a w h p) eqn:R.
    + destruct (pos_eqb p a) eqn:Eqa.
      * apply pos_eqb_eq in Eqa; subst p. unfold ext_of, anchor_ext in Hanc. rewrite G, Kc in Hanc. discriminate.
      * apply pos_eqb_neq in Eqa. pose proof (Hin p R Eqa) as Own. rewrite G in Own. cbn [is_own_spill] in Own.
        rewrite Kc in Own. apply pos_eqb_eq in Own. rewrite Own. exists w, h. split; [exact Hanc|]. split; [exact R | exact Eqa].
    + rewrite (Hout p R) in G. destruct (Hcov p c ar ac v G Kc) as [w' [h' [Eb [Rb Nb]]]].
      assert (Na : (ar, ac) <> a).
      { intros Ea. pose proof (Hno p) as X. rewrite G in X. cbn [is_own_spill] in X. rewrite Kc, Ea, pos_eqb_refl in X. discriminate. }
      exists w', h'. split; [apply K; assumption|]. split; assumption.
  - (* exts_ok *)
    intros b wb hb Eb. destruct (E b _ Eb) as [[-> Ee] | [Nb [_ Eb']]].
    + inversion Ee; subst. repeat split; assumption.
    + exact (Hok b wb hb Eb').
  - (* disjoint *)
    intros a1 a2 w1 h1 w2 h2 q N E1 E2 R1 R2.
    destruct (E a1 _ E1) as [[-> Ee1] | [N1' [_ E1']]]; destruct (E a2 _ E2) as [[-> Ee2] | [N2' [_ E2']]].
    + contradiction.
    + inversion Ee1; subst. rewrite (N2 a2 w2 h2 q N2' E2' R2) in R1. discriminate.
    + inversion Ee2; subst. rewrite (N2 a1 w1 h1 q N1' E1' R1) in R2. discriminate.
    + exact (Hdis a1 a2 w1 h1 w2 h2 q N E1' E2' R1 R2).
  - (* full *)
    intros b wb hb q Eb Rq Nq. destruct (E b _ Eb) as [[-> Ee] | [Nb [_ Eb']]].
    + inversion Ee; subst. apply Hin; assumption.
    + rewrite (Hout q (N2 b wb hb q Nb Eb' Rq)). exact (Hfull b Nb wb hb q Eb' Rq Nq).
Qed.

(* Replacing own spill cells of [a] by empty cells keeps the invariant; fullness survives for the
   other anchors. *)
Lemma erase_inv (sh sh1 : sheet) a :
  spill_inv sh -> full sh ->
  (forall q, get sh1 q = get sh q \/
             (is_own_spill a (get sh q) = true /\ exists s, get sh1 q = Some (mkcell s KEmpty))) ->
  spill_inv sh1 /\ full_except a sh1 /\ (forall q, ext_of sh1 q = ext_of sh q).
Proof.
  intros [Hcov [Hok Hdis]] Hfull Hch.
  assert (X : forall q, ext_of sh1 q = ext_of sh q).
  { intros q. unfold ext_of. destruct (Hch q) as [-> | [Own [s G]]]; [reflexivity|].
    rewrite G. apply own_spill_elim in Own as [c [v [-> Kc]]]. unfold anchor_ext. rewrite Kc. reflexivity. }
  split; [split; [|split]|split].
  - intros p c ar ac v G Kc. destruct (Hch p) as [Same | [_ [s G']]].
    + rewrite Same in G. destruct (Hcov p c ar ac v G Kc) as [w [h [Eb R]]]. exists w, h. rewrite X. split; assumption.
    + rewrite G' in G. inversion G; subst c. cbn [c_k] in Kc. discriminate.
  - intros b w h Eb. rewrite X in Eb. exact (Hok b w h Eb).
  - intros a1 a2 w1 h1 w2 h2 q N E1 E2. rewrite X in E1, E2. exact (Hdis a1 a2 w1 h1 w2 h2 q N E1 E2).
  - intros b Nb w h q Eb R Nq. rewrite X in Eb. pose proof (Hfull b w h q Eb R Nq) as Own.
    destruct (Hch q) as [-> | [Own' _]]; [exact Own|].
    exfalso. apply Nb. symmetry. eapply own_spill_unique; eauto.
  - exact X.
Qed.

(* An anchor that owns no spill cell can be replaced by an empty cell. *)
Lemma drop_anchor_inv (sh1 sh' : sheet) a s :
  spill_inv sh1 -> full_except a sh1 -> no_own a sh1 -> is_dyn sh1 a ->
  (forall q, get sh' q = if pos_eqb a q then Some (mkcell s KEmpty) else get sh1 q) ->
  spill_inv sh' /\ full sh'.
Proof.
  intros [Hcov [Hok Hdis]] Hfull Hno Hdyn Hsp.
  assert (E : forall q e, ext_of sh' q = Some e -> q <> a /\ ext_of sh1 q = Some e).
  { intros q e Eq. unfold ext_of in Eq. rewrite Hsp in Eq. destruct (pos_eqb a q) eqn:Ea.
    - cbn in Eq. discriminate.
    - apply pos_eqb_neq in Ea. split; [congruence | exact Eq]. }
  assert (K : forall b, b <> a -> get sh' b = get sh1 b).
  { intros b Nb. rewrite Hsp. apply not_eq_sym in Nb. apply pos_eqb_neq in Nb. rewrite Nb. reflexivity. }
  split; [split; [|split]|].
  - intros p c ar ac v G Kc. destruct (pos_eqb a p) eqn:Ea.
    + rewrite Hsp, Ea in G. inversion G; subst c. discriminate.
    + apply pos_eqb_neq in Ea. rewrite K in G by congruence.
      destruct (Hcov p c ar ac v G Kc) as [w [h [Eb R]]].
      assert (Na : (ar, ac) <> a).
      { intros Eq. pose proof (Hno p) as X. rewrite G in X. cbn [is_own_spill] in X. rewrite Kc, Eq, pos_eqb_refl in X. discriminate. }
      exists w, h. split; [|exact R]. unfold ext_of. rewrite K by exact Na. exact Eb.
  - intros b w h Eb. apply E in Eb as [_ Eb]. exact (Hok b w h Eb).
  - intros a1 a2 w1 h1 w2 h2 q N E1 E2. apply E in E1 as [_ E1]. apply E in E2 as [_ E2].
    exact (Hdis a1 a2 w1 h1 w2 h2 q N E1 E2).
  - intros b w h q Eb R Nq. apply E in Eb as [Nb Eb].
    pose proof (Hfull b Nb w h q Eb R Nq) as Own.
    destruct (pos_eqb a q) eqn:Ea.
    + apply pos_eqb_eq in Ea; subst q. rewrite (dyn_not_spill sh1 a b Hdyn) in Own. discriminate.
    + apply pos_eqb_neq in Ea. rewrite K by congruence. exact Own.
Qed.


(* ---- evaluate_cell: clearing the previous extent ------------------------------------------------ *)
Definition own_cond (a : pos) : pos -> option cell -> bool :=
  fun p x => negb (pos_eqb p a) && is_own_spill a x.

Lemma get_clear_own a w h (sh : sheet) q :
  get (clear_own_spills a w h sh) q =
  if in_rect a w h q then clr (own_cond a) q (get sh q) else get sh q.
Proof.
  unfold Spill.clear_own_spills. rewrite <- existsb_rect.
  apply (fold_cond_clear (own_cond a)).
Qed.

Lemma rect_on_grid a w h q :
  on_grid a = true -> fst a + h - 1 <= LAST_ROW -> snd a + w - 1 <= LAST_COLUMN ->
  in_rect a w h q = true -> on_grid q = true.
Proof.
  unfold on_grid, in_rect. rewrite !andb_true_iff, !Z.leb_le, !Z.ltb_lt. lia.
Qed.

Lemma clear_own_inv (sh : sheet) a c f w h v :
  spill_inv sh -> full sh -> get sh a = Some c -> c_k c = KDyn f w h v ->
  let sh1 := clear_own_spills a w h sh in
  spill_inv sh1 /\ full_except a sh1 /\ no_own a sh1 /\ get sh1 a = get sh a /\
  (forall q, is_own_spill a (get sh q) = false -> get sh1 q = get sh q).
Proof.
  intros Hinv Hfull G K sh1.
  assert (Ea : ext_of sh a = Some (w, h)) by (unfold ext_of, anchor_ext; rewrite G, K; reflexivity).
  assert (Hch : forall q, get sh1 q = get sh q \/
             (is_own_spill a (get sh q) = true /\ exists s, get sh1 q = Some (mkcell s KEmpty))).
  { intros q. subst sh1. rewrite get_clear_own. destruct (in_rect a w h q); [|left; reflexivity].
    unfold clr, own_cond. destruct (negb (pos_eqb q a) && is_own_spill a (get sh q) && on_grid q) eqn:C.
    - right. apply andb_true_iff in C as [C _]. apply andb_true_iff in C as [_ C]. split; [exact C|]. eauto.
    - left; reflexivity. }
  destruct (erase_inv sh sh1 a Hinv Hfull Hch) as [Hinv1 [Hfe Hext]].
  split; [exact Hinv1|]. split; [exact Hfe|].
  assert (Hsame : forall q, is_own_spill a (get sh q) = false -> get sh1 q = get sh q).
  { intros q Hq. destruct (Hch q) as [E | [Own _]]; [exact E | congruence]. }
  split; [|split].
  - intros q. destruct (is_own_spill a (get sh1 q)) eqn:O; [|reflexivity]. exfalso.
    destruct (Hch q) as [Same | [_ [s G']]].
    + rewrite Same in O. destruct Hinv as [Hcov [Hok _]].
      destruct (own_spill_elim a _ O) as [cq [vq [Gq Kq]]].
      destruct (Hcov q cq _ _ vq Gq Kq) as [w' [h' [Eb [Rb Nb]]]]. rewrite pos_eta in Eb, Rb, Nb.
      rewrite Ea in Eb. inversion Eb; subst w' h'.
      destruct (Hok a w h Ea) as [_ [_ [Hg [Hr Hc]]]].
      pose proof (rect_on_grid a w h q Hg Hr Hc Rb) as Gq'.
      assert (X : get sh1 q = Some (mkcell (style_of (get sh q) q) KEmpty)).
      { subst sh1. rewrite get_clear_own, Rb. unfold clr, own_cond. rewrite O, Gq'.
        apply pos_eqb_neq in Nb. rewrite Nb. reflexivity. }
      rewrite Same, Gq in X. inversion X as [Y]. rewrite Y in Kq. discriminate.
    + rewrite G' in O. discriminate.
  - apply Hsame. rewrite G. cbn [is_own_spill]. rewrite K. reflexivity.
  - exact Hsame.
Qed.

(* ---- set_cells_with_result ----------------------------------------------------------------------- *)
Lemma blocked_11 a (sh : sheet) : blocked a 1 1 sh = false.
Proof.
  unfold blocked, rect. change (Z.to_nat 1) with 1%nat. cbn [zrange flat_map map app existsb].
  rewrite pos_eta, pos_eqb_refl. reflexivity.
Qed.

Lemma get_write_scalar a f s v (sh : sheet) q :
  get (write_scalar a f s v sh) q = if pos_eqb a q then Some (mkcell s (KDyn f 1 1 v)) else get sh q.
Proof. apply get_set. Qed.

Lemma scalar_inv (sh : sheet) a f s v :
  spill_inv sh -> full_except a sh -> no_own a sh -> is_dyn sh a -> on_grid a = true ->
  spill_inv (write_scalar a f s v sh) /\ full (write_scalar a f s v sh).
Proof.
  intros Hinv Hfe Hno Hdyn Hg.
  apply (block_inv sh _ a 1 1 Hinv Hfe Hno Hdyn Hg); try lia.
  - unfold on_grid in Hg. rewrite !andb_true_iff, !Z.leb_le in Hg. lia.
  - unfold on_grid in Hg. rewrite !andb_true_iff, !Z.leb_le in Hg. lia.
  - apply blocked_11.
  - intros q R. rewrite in_rect_11 in R. rewrite get_write_scalar, R. reflexivity.
  - unfold ext_of. rewrite get_write_scalar, pos_eqb_refl. reflexivity.
  - intros q R N. rewrite in_rect_11 in R. apply pos_eqb_eq in R. congruence.
Qed.

(* case analysis of the dynamic branch *)
Inductive write_case (a : pos) (f s : Z) (res : result V) (sh sh' : sheet) : Prop :=
| WScalar v : sh' = write_scalar a f s v sh ->
    (res = RScalar v
     \/ (v = calc_err /\ exists arr, res = RArray arr /\ (length arr = 0%nat \/ length (hd [] arr) = 0%nat))
     \/ (v = spill_err /\ exists arr, res = RArray arr /\ length arr <> 0%nat /\ length (hd [] arr) <> 0%nat /\
           (LAST_ROW < fst a + Z.of_nat (length arr) - 1 \/ LAST_COLUMN < snd a + Z.of_nat (length (hd [] arr)) - 1
            \/ blocked a (Z.of_nat (length (hd [] arr))) (Z.of_nat (length arr)) sh = true))) ->
    write_case a f s res sh sh'
| WBlock arr : res = RArray arr ->
    length arr <> 0%nat -> length (hd [] arr) <> 0%nat ->
    fst a + Z.of_nat (length arr) - 1 <= LAST_ROW ->
    snd a + Z.of_nat (length (hd [] arr)) - 1 <= LAST_COLUMN ->
    blocked a (Z.of_nat (length (hd [] arr))) (Z.of_nat (length arr)) sh = false ->
    short_row (length (hd [] arr)) arr = false ->
    sh' = write_cells a f s (Z.of_nat (length (hd [] arr))) (Z.of_nat (length arr))
            (block_cells (fst a) (snd a) (length (hd [] arr)) arr) sh ->
    write_case a f s res sh sh'.

Lemma write_dynamic_cases a f s res (sh sh' : sheet) :
  write_dynamic a f s res sh = Ok sh' -> on_grid a = true /\ write_case a f s res sh sh'.
Proof.
  unfold Spill.write_dynamic. destruct (on_grid a) eqn:Hg; cbn [negb]; [|discriminate].
  intros H. split; [reflexivity|]. destruct res as [v | arr].
  - inversion H; subst. apply (WScalar _ _ _ _ _ _ v); [reflexivity | left; reflexivity].
  - cbv zeta in H.
    destruct ((Z.of_nat (length arr) =? 0) || (Z.of_nat (length (hd [] arr)) =? 0)) eqn:Z0.
    { inversion H; subst. apply (WScalar _ _ _ _ _ _ calc_err); [reflexivity|]. right; left. split; [reflexivity|].
      exists arr. split; [reflexivity|]. apply orb_true_iff in Z0. rewrite !Z.eqb_eq in Z0. lia. }
    apply orb_false_iff in Z0 as [Zh Zw]. apply Z.eqb_neq in Zh, Zw.
    destruct ((LAST_ROW <? fst a + Z.of_nat (length arr) - 1) || (LAST_COLUMN <? snd a + Z.of_nat (length (hd [] arr)) - 1)) eqn:Fit.
    { inversion H; subst. apply (WScalar _ _ _ _ _ _ spill_err); [reflexivity|]. right; right. split; [reflexivity|].
      exists arr. split; [reflexivity|]. split; [lia|]. split; [lia|].
      apply orb_true_iff in Fit. rewrite !Z.ltb_lt in Fit. tauto. }
    apply orb_false_iff in Fit as [Fr Fc]. apply Z.ltb_ge in Fr, Fc.
    destruct (blocked a (Z.of_nat (length (hd [] arr))) (Z.of_nat (length arr)) sh) eqn:B.
    { inversion H; subst. apply (WScalar _ _ _ _ _ _ spill_err); [reflexivity|]. right; right. split; [reflexivity|].
      exists arr. split; [reflexivity|]. split; [lia|]. split; [lia|]. tauto. }
    destruct (short_row (length (hd [] arr)) arr) eqn:S; [discriminate|].
    inversion H; subst. apply (WBlock _ _ _ _ _ _ arr); try reflexivity; try assumption; lia.
Qed.

Lemma write_dynamic_inv (sh sh' : sheet) a f s res :
  spill_inv sh -> full_except a sh -> no_own a sh -> is_dyn sh a ->
  write_dynamic a f s res sh = Ok sh' -> spill_inv sh' /\ full sh'.
Proof.
  intros Hinv Hfe Hno Hdyn H. apply write_dynamic_cases in H as [Hg C].
  destruct C as [v -> _ | arr -> Hh Hw Fr Fc B S ->].
  - apply scalar_inv; assumption.
  - set (w := Z.of_nat (length (hd [] arr))) in *. set (h := Z.of_nat (length arr)) in *.
    apply (block_inv sh _ a w h Hinv Hfe Hno Hdyn Hg); try (subst w h; lia); try assumption.
    + intros q R. subst w h. rewrite (get_write_block a f s _ arr sh q S). cbv zeta. rewrite R. reflexivity.
    + unfold ext_of. subst w h. rewrite (get_write_block a f s _ arr sh a S). cbv zeta.
      rewrite in_rect_anchor by lia. rewrite !Z.sub_diag. cbn [Z.to_nat].
      destruct (elem_some_of_not_short _ arr 0 0 S) as [v Hv]; [lia | lia |]. rewrite Hv.
      unfold new_cell. rewrite pos_eqb_refl. reflexivity.
    + intros q R N. subst w h. rewrite (get_write_block a f s _ arr sh q S). cbv zeta. rewrite R.
      unfold in_rect in R. rewrite !andb_true_iff, !Z.leb_le, !Z.ltb_lt in R.
      destruct (elem_some_of_not_short _ arr (Z.to_nat (fst q - fst a)) (Z.to_nat (snd q - snd a)) S) as [v Hv]; [lia | lia |].
      rewrite Hv. unfold new_cell. apply pos_eqb_neq in N. rewrite N.
      eapply own_spill_intro; [reflexivity | reflexivity].
Qed.

Lemma eval_anchor_inv (sh sh' : sheet) a res :
  spill_inv sh -> full sh -> eval_anchor a res sh = Ok sh' -> spill_inv sh' /\ full sh'.
Proof.
  intros Hinv Hfull H. unfold Spill.eval_anchor in H.
  destruct (get sh a) as [c|] eqn:G; [|discriminate].
  destruct (c_k c) as [| | |f w h v| |] eqn:K; try discriminate.
  destruct (clear_own_inv sh a c f w h v Hinv Hfull G K) as [I1 [F1 [N1 [G1 _]]]].
  eapply write_dynamic_inv; eauto.
  exists c, f, w, h, v. split; [rewrite G1; exact G | exact K].
Qed.

Lemma eval_anchors_inv l : forall (sh sh' : sheet),
  spill_inv sh -> full sh -> eval_anchors l sh = Ok sh' -> spill_inv sh' /\ full sh'.
Proof.
  induction l as [|[a res] l IH]; intros sh sh' Hinv Hfull H; cbn [Spill.eval_anchors] in H.
  - inversion H; subst; split; assumption.
  - destruct (Spill.eval_anchor spill_err calc_err dflt a res sh) as [sh1| |] eqn:E; cbn [obind] in H; try discriminate.
    destruct (eval_anchor_inv sh sh1 a res Hinv Hfull E) as [I1 F1]. exact (IH sh1 sh' I1 F1 H).
Qed.


(* ---- C31: exactness of a write --------------------------------------------------------------------- *)
(* the blocking condition in words *)
Lemma blocked_iff a w h (sh : sheet) :
  blocked a w h sh = true <->
  exists q c, in_rect a w h q = true /\ q <> a /\ get sh q = Some c /\ c_k c <> KEmpty /\
              (forall v, c_k c <> KSpill (fst a) (snd a) v).
Proof.
  unfold blocked. rewrite existsb_exists. split.
  - intros [q [Hin Hb]]. apply andb_true_iff in Hb as [Hn Hb]. apply negb_true_iff, pos_eqb_neq in Hn.
    unfold blocks in Hb. destruct (get sh q) as [c|] eqn:G; [|discriminate].
    exists q, c. split; [apply in_rect_iff; exact Hin|]. split; [exact Hn|]. split; [exact G|].
    destruct (c_k c) eqn:K; try discriminate; split; try discriminate; try (intros; discriminate).
    intros v0 E. inversion E; subst. rewrite pos_eta, pos_eqb_refl in Hb. discriminate.
  - intros [q [c [R [N [G [K1 K2]]]]]]. exists q. split; [apply in_rect_iff; exact R|].
    apply pos_eqb_neq in N. rewrite N. cbn [negb andb]. rewrite G. cbn [blocks].
    destruct (c_k c) eqn:K; try reflexivity; [congruence|].
    apply negb_true_iff. apply pos_eqb_neq. intros E. apply (K2 v). rewrite <- E. reflexivity.
Qed.

Theorem write_exact a f s (arr : list (list V)) (sh sh' : sheet) :
  let wn := length (hd [] arr) in let w := Z.of_nat wn in let h := Z.of_nat (length arr) in
  1 <= w -> 1 <= h ->
  write_dynamic a f s (RArray arr) sh = Ok sh' ->
  let fits := fst a + h - 1 <= LAST_ROW /\ snd a + w - 1 <= LAST_COLUMN in
  (fits /\ blocked a w h sh = false ->
     (forall i j, (i < length arr)%nat -> (j < wn)%nat ->
        exists v, elem arr i j = Some v /\
          get sh' (fst a + Z.of_nat i, snd a + Z.of_nat j) =
          Some (if (i =? 0)%nat && (j =? 0)%nat then mkcell s (KDyn f w h v)
                else mkcell (style_at sh (fst a + Z.of_nat i, snd a + Z.of_nat j)) (KSpill (fst a) (snd a) v)))
     /\ (forall q, in_rect a w h q = false -> get sh' q = get sh q))
  /\ (~ fits \/ blocked a w h sh = true ->
     get sh' a = Some (mkcell s (KDyn f 1 1 spill_err)) /\ (forall q, q <> a -> get sh' q = get sh q)).
Proof.
  intros wn w h Hw Hh H fits. apply write_dynamic_cases in H as [Hg C].
  destruct C as [v -> Hc | arr' Ea Hh' Hw' Fr Fc B Hsr ->].
  - assert (Hv : v = spill_err /\ (~ fits \/ blocked a w h sh = true)).
    { destruct Hc as [Hc | [[_ [arr' [Ea Hz]]] | [-> [arr' [Ea [_ [_ Hz]]]]]]].
      - discriminate.
      - inversion Ea; subst arr'. subst w h wn. lia.
      - inversion Ea; subst arr'. split; [reflexivity|]. subst fits w h wn.
        destruct Hz as [Hz | [Hz | Hz]]; [left; lia | left; lia | right; exact Hz]. }
    destruct Hv as [-> Hv]. split.
    + intros [Hf Hb]. exfalso. destruct Hv as [Hv | Hv]; [exact (Hv Hf) | congruence].
    + intros _. split.
      * rewrite get_write_scalar, pos_eqb_refl. reflexivity.
      * intros q N. rewrite get_write_scalar. apply not_eq_sym in N. apply pos_eqb_neq in N. rewrite N. reflexivity.
  - inversion Ea; subst arr'. subst fits w h wn. split.
    + intros _. split.
      * intros i j Hi Hj. destruct (elem_some_of_not_short _ arr i j Hsr Hi Hj) as [v Hv]. exists v. split; [exact Hv|].
        rewrite (get_write_block a f s _ arr sh _ Hsr). cbv zeta. cbn [fst snd].
        replace (in_rect a (Z.of_nat (length (hd [] arr))) (Z.of_nat (length arr)) (fst a + Z.of_nat i, snd a + Z.of_nat j)) with true.
        2:{ symmetry. unfold in_rect; cbn [fst snd]. rewrite !andb_true_iff, !Z.leb_le, !Z.ltb_lt. lia. }
        replace (Z.to_nat (fst a + Z.of_nat i - fst a)) with i by lia.
        replace (Z.to_nat (snd a + Z.of_nat j - snd a)) with j by lia.
        rewrite Hv. f_equal. unfold new_cell.
        destruct i as [|i]; destruct j as [|j]; cbn [Nat.eqb andb].
        -- replace (fst a + Z.of_nat 0, snd a + Z.of_nat 0) with a by (destruct a; cbn [fst snd]; peq).
           rewrite pos_eqb_refl. reflexivity.
        -- replace (pos_eqb (fst a + Z.of_nat 0, snd a + Z.of_nat (S j)) a) with false; [reflexivity|].
           symmetry. apply pos_eqb_neq. intros E. apply (f_equal snd) in E. cbn [snd] in E. lia.
        -- replace (pos_eqb (fst a + Z.of_nat (S i), snd a + Z.of_nat 0) a) with false; [reflexivity|].
           symmetry. apply pos_eqb_neq. intros E. apply (f_equal fst) in E. cbn [fst] in E. lia.
        -- replace (pos_eqb (fst a + Z.of_nat (S i), snd a + Z.of_nat (S j)) a) with false; [reflexivity|].
           symmetry. apply pos_eqb_neq. intros E. apply (f_equal fst) in E. cbn [fst] in E. lia.
      * intros q R. rewrite (get_write_block a f s _ arr sh q Hsr). cbv zeta. rewrite R. reflexivity.
    + intros [Hn | Hb]; [exfalso; apply Hn; split; lia | congruence].
Qed.

(* content a write never touches: everything except the anchor itself, empty cells and the
   anchor's own spill cells *)
Definition foreign (a : pos) (x : option cell) : Prop := blocks a x = true.

Theorem write_never_overwrites a f s res (sh sh' : sheet) p :
  write_dynamic a f s res sh = Ok sh' -> p <> a -> foreign a (get sh p) -> get sh' p = get sh p.
Proof.
  intros H N F. apply write_dynamic_cases in H as [Hg C].
  assert (Np : pos_eqb a p = false) by (apply pos_eqb_neq; congruence).
  destruct C as [v -> _ | arr -> Hh Hw Fr Fc B S ->].
  - rewrite get_write_scalar, Np. reflexivity.
  - rewrite (get_write_block a f s _ arr sh p S). cbv zeta.
    destruct (in_rect a (Z.of_nat (length (hd [] arr))) (Z.of_nat (length arr)) p) eqn:R; [|reflexivity].
    exfalso. pose proof (not_blocked_elim a _ _ sh p B R N) as X. unfold foreign in F. congruence.
Qed.

Theorem eval_never_overwrites a res (sh sh' : sheet) p :
  eval_anchor a res sh = Ok sh' -> p <> a -> foreign a (get sh p) -> get sh' p = get sh p.
Proof.
  intros H N F. unfold Spill.eval_anchor in H.
  destruct (get sh a) as [c|] eqn:G; [|discriminate].
  destruct (c_k c) as [| | |f w h v| |] eqn:K; try discriminate.
  assert (X : get (clear_own_spills a w h sh) p = get sh p).
  { rewrite get_clear_own. destruct (in_rect a w h p); [|reflexivity].
    unfold clr, own_cond. replace (is_own_spill a (get sh p)) with false; [rewrite andb_false_r; reflexivity|].
    symmetry. unfold foreign, blocks in F. unfold is_own_spill. destruct (get sh p) as [cp|]; [|reflexivity].
    destruct (c_k cp); try reflexivity. apply negb_true_iff in F. exact F. }
  rewrite <- X. eapply write_never_overwrites; eauto. unfold foreign. rewrite X. exact F.
Qed.

(* ---- C31: no stale spill cell ---------------------------------------------------------------------- *)
Theorem no_stale a res (sh sh' : sheet) :
  spill_inv sh -> full sh -> eval_anchor a res sh = Ok sh' ->
  forall q c v, get sh' q = Some c -> c_k c = KSpill (fst a) (snd a) v ->
  exists arr, res = RArray arr /\
    ext_of sh' a = Some (Z.of_nat (length (hd [] arr)), Z.of_nat (length arr)) /\
    in_rect a (Z.of_nat (length (hd [] arr))) (Z.of_nat (length arr)) q = true /\ q <> a /\
    elem arr (Z.to_nat (fst q - fst a)) (Z.to_nat (snd q - snd a)) = Some v.
Proof.
  intros Hinv Hfull H q cq v Gq Kq. unfold Spill.eval_anchor in H.
  destruct (get sh a) as [c|] eqn:G; [|discriminate].
  destruct (c_k c) as [| | |f w h v0| |] eqn:K; try discriminate.
  destruct (clear_own_inv sh a c f w h v0 Hinv Hfull G K) as [I1 [F1 [N1 [G1 _]]]].
  set (sh1 := clear_own_spills a w h sh) in *.
  apply write_dynamic_cases in H as [Hg C].
  assert (Own : is_own_spill a (get sh' q) = true) by (eapply own_spill_intro; eauto).
  destruct C as [v1 -> _ | arr -> Hh Hw Fr Fc B S ->].
  - exfalso. rewrite get_write_scalar in Own. destruct (pos_eqb a q); [discriminate|]. rewrite (N1 q) in Own. discriminate.
  - exists arr. split; [reflexivity|].
    set (wz := Z.of_nat (length (hd [] arr))) in *. set (hz := Z.of_nat (length arr)) in *.
    assert (Hanc : get (write_cells a f (c_s c) wz hz (block_cells (fst a) (snd a) (length (hd [] arr)) arr) sh1) a
                   = Some (mkcell (c_s c) (KDyn f wz hz match elem arr 0 0 with Some x => x | None => v end))).
    { subst wz hz. rewrite (get_write_block a f (c_s c) _ arr sh1 a S). cbv zeta.
      rewrite in_rect_anchor by lia. rewrite !Z.sub_diag. cbn [Z.to_nat].
      destruct (elem_some_of_not_short _ arr 0 0 S) as [x Hx]; [lia | lia |]. rewrite Hx.
      unfold new_cell. rewrite pos_eqb_refl. reflexivity. }
    split; [unfold ext_of; rewrite Hanc; reflexivity|].
    subst wz hz. rewrite (get_write_block a f (c_s c) _ arr sh1 q S) in Gq, Own. cbv zeta in Gq, Own.
    destruct (in_rect a (Z.of_nat (length (hd [] arr))) (Z.of_nat (length arr)) q) eqn:R.
    2:{ rewrite (N1 q) in Own. discriminate. }
    split; [reflexivity|].
    destruct (elem arr (Z.to_nat (fst q - fst a)) (Z.to_nat (snd q - snd a))) as [x|] eqn:E; [|discriminate].
    unfold new_cell in Gq. destruct (pos_eqb q a) eqn:Eqa.
    + inversion Gq; subst cq. cbn [c_k] in Kq. discriminate.
    + split; [apply pos_eqb_neq; exact Eqa|]. inversion Gq; subst cq. cbn [c_k] in Kq. inversion Kq; subst. reflexivity.
Qed.


(* ---- reset_dynamic_array_spills ------------------------------------------------------------------ *)
Definition but_cond (a : pos) : pos -> option cell -> bool := fun p _ => negb (pos_eqb p a).

Lemma get_clear_but a (sh : sheet) p q :
  get (clear_but a sh p) q = if pos_eqb p q then clr (but_cond a) p (get sh p) else get sh q.
Proof.
  unfold Spill.clear_but, clr, but_cond. destruct (pos_eqb p a) eqn:E; cbn [negb andb].
  - destruct (pos_eqb p q) eqn:E2; [apply pos_eqb_eq in E2; subst; reflexivity | reflexivity].
  - rewrite get_clear_contents. unfold clr. cbn [andb]. reflexivity.
Qed.

Lemma get_reset_one a f s w h (sh : sheet) q :
  get (reset_one a f s w h sh) q =
  if pos_eqb a q then Some (mkcell s (KDyn f 1 1 uneval))
  else if in_rect a w h q then clr (fun _ _ => true) q (get sh q) else get sh q.
Proof.
  unfold Spill.reset_one.
  rewrite (fold_local (Spill.clear_but dflt a) (clr (but_cond a)) (get_clear_but a) (clr_idem (but_cond a))).
  rewrite existsb_rect, get_set. unfold clr, but_cond. rewrite (pos_eqb_sym q a).
  destruct (pos_eqb a q); cbn [negb andb].
  - destruct (in_rect a w h q); reflexivity.
  - reflexivity.
Qed.

Lemma reset_one_inv (sh : sheet) a c f0 v0 f s w h :
  spill_inv sh -> full sh -> get sh a = Some c -> c_k c = KDyn f0 w h v0 ->
  spill_inv (reset_one a f s w h sh) /\ full (reset_one a f s w h sh).
Proof.
  intros Hinv Hfull G K.
  assert (Ea : ext_of sh a = Some (w, h)) by (unfold ext_of, anchor_ext; rewrite G, K; reflexivity).
  destruct (clear_own_inv sh a c f0 w h v0 Hinv Hfull G K) as [I1 [F1 [N1 [G1 _]]]].
  set (sh1 := clear_own_spills a w h sh) in *.
  destruct Hinv as [_ [Hok _]]. destruct (Hok a w h Ea) as [_ [_ [Hg [Hr Hc]]]].
  apply (block_inv sh1 _ a 1 1 I1 F1 N1); try lia.
  - exists c, f0, w, h, v0. split; [rewrite G1; exact G | exact K].
  - exact Hg.
  - unfold on_grid in Hg. rewrite !andb_true_iff, !Z.leb_le in Hg. lia.
  - unfold on_grid in Hg. rewrite !andb_true_iff, !Z.leb_le in Hg. lia.
  - apply blocked_11.
  - intros q R. rewrite in_rect_11 in R. rewrite get_reset_one, R. subst sh1. rewrite get_clear_own.
    destruct (in_rect a w h q) eqn:Rq; [|reflexivity].
    apply pos_eqb_neq in R. assert (Nq : q <> a) by congruence.
    pose proof (Hfull a w h q Ea Rq Nq) as Own. unfold clr, own_cond. rewrite Own.
    apply pos_eqb_neq in Nq. rewrite Nq. reflexivity.
  - unfold ext_of. rewrite get_reset_one, pos_eqb_refl. reflexivity.
  - intros q R N. rewrite in_rect_11 in R. apply pos_eqb_eq in R. congruence.
Qed.

(* cells of other anchors are not touched *)
Lemma reset_one_frame (sh : sheet) a f s w h b e :
  full sh -> ext_of sh a = Some (w, h) -> b <> a -> ext_of sh b = Some e ->
  get (reset_one a f s w h sh) b = get sh b.
Proof.
  intros Hfull Ea Nb Eb. rewrite get_reset_one.
  assert (X : pos_eqb a b = false) by (apply pos_eqb_neq; congruence). rewrite X.
  destruct (in_rect a w h b) eqn:R; [|reflexivity].
  pose proof (Hfull a w h b Ea R Nb) as Own. rewrite (own_spill_not_anchor a sh b Own) in Eb. discriminate.
Qed.

Lemma dyn_info_ext (sh : sheet) p f s w h : dyn_info sh p = Some (f, s, w, h) ->
  exists c v, get sh p = Some c /\ c_k c = KDyn f w h v /\ c_s c = s.
Proof.
  unfold dyn_info. destruct (get sh p) as [c|]; [|discriminate]. destruct (c_k c) eqn:K; try discriminate.
  intros H; inversion H; subst. eauto.
Qed.

Lemma reset_from_inv (sh0 : sheet) order : forall acc : sheet,
  NoDup order -> spill_inv acc -> full acc ->
  (forall p i, In p order -> dyn_info sh0 p = Some i -> dyn_info acc p = Some i) ->
  spill_inv (reset_spills_from sh0 order acc) /\ full (reset_spills_from sh0 order acc).
Proof.
  unfold Spill.reset_spills_from. induction order as [|p order IH]; intros acc Hnd Hinv Hfull Hsame; cbn [fold_left].
  - split; assumption.
  - inversion Hnd as [|? ? Hnotin Hnd']; subst.
    destruct (dyn_info sh0 p) as [[[[f s] w] h]|] eqn:D.
    + pose proof (Hsame p _ (or_introl eq_refl) D) as Dacc.
      destruct (dyn_info_ext acc p f s w h Dacc) as [c [v [G [K Sc]]]].
      destruct (reset_one_inv acc p c f v f s w h Hinv Hfull G K) as [I1 F1].
      apply IH; try assumption.
      intros p' i Hin' D'. pose proof (Hsame p' i (or_intror Hin') D') as Da.
      assert (Np : p' <> p) by (intros ->; contradiction).
      destruct i as [[[f' s'] w'] h']. destruct (dyn_info_ext acc p' f' s' w' h' Da) as [c' [v' [G' [K' Sc']]]].
      unfold dyn_info. rewrite (reset_one_frame acc p f s w h p' (w', h') Hfull); try assumption.
      * unfold ext_of, anchor_ext. rewrite G, K. reflexivity.
      * unfold ext_of, anchor_ext. rewrite G', K'. reflexivity.
    + apply IH; try assumption. intros p' i Hin'. apply Hsame. right; exact Hin'.
Qed.

Theorem reset_spills_inv (sh : sheet) order :
  NoDup order -> spill_inv sh -> full sh ->
  spill_inv (reset_spills order sh) /\ full (reset_spills order sh).
Proof. intros Hnd Hinv Hfull. apply reset_from_inv; auto. Qed.

(* ---- prepare_cell_for_user_input ------------------------------------------------------------------- *)
Theorem prepare_inv (sh sh' : sheet) p :
  spill_inv sh -> full sh -> prepare_for_input p sh = Ok sh' -> spill_inv sh' /\ full sh'.
Proof.
  intros Hinv Hfull H. unfold Spill.prepare_for_input in H.
  destruct (on_grid p) eqn:Hg; cbn [negb] in H; [|discriminate].
  destruct (get sh p) as [c|] eqn:G; [|inversion H; subst; split; assumption].
  destruct (c_k c) as [|v|f v|f w h v|f w h v|ar ac v] eqn:K; try (inversion H; subst; split; assumption).
  - (* dynamic anchor: the whole extent, anchor included, is cleared *)
    inversion H; subst sh'; clear H.
    assert (Ea : ext_of sh p = Some (w, h)) by (unfold ext_of, anchor_ext; rewrite G, K; reflexivity).
    destruct (clear_own_inv sh p c f w h v Hinv Hfull G K) as [I1 [F1 [N1 [G1 _]]]].
    set (sh1 := clear_own_spills p w h sh) in *.
    apply (drop_anchor_inv sh1 _ p (c_s c) I1 F1 N1).
    + exists c, f, w, h, v. split; [rewrite G1; exact G | exact K].
    + intros q. rewrite (fold_cond_clear (fun _ _ => true)), existsb_rect.
      destruct (pos_eqb p q) eqn:E.
      * apply pos_eqb_eq in E; subst q. destruct Hinv as [_ [Hok _]]. destruct (Hok p w h Ea) as [Hw [Hh _]].
        rewrite in_rect_anchor by assumption. unfold clr. rewrite Hg, G. reflexivity.
      * subst sh1. rewrite get_clear_own. destruct (in_rect p w h q) eqn:R; [|reflexivity].
        apply pos_eqb_neq in E. assert (Nq : q <> p) by congruence.
        pose proof (Hfull p w h q Ea R Nq) as Own. unfold clr, own_cond. rewrite Own.
        apply pos_eqb_neq in Nq. rewrite Nq. reflexivity.
  - destruct ((1 <? w) || (1 <? h)); [discriminate | inversion H; subst; split; assumption].
  - (* a spill cell of a dynamic anchor: the anchor is reset *)
    destruct (get sh (ar, ac)) as [ca|] eqn:Ga; [|discriminate].
    destruct (c_k ca) as [| | |f w h v0| |] eqn:Ka; try discriminate.
    inversion H; subst sh'. eapply reset_one_inv; eauto.
Qed.

(* ---- the executable predicates decide the invariant ------------------------------------------------ *)
Lemma rects_disjoint_b_sound a1 w1 h1 a2 w2 h2 q :
  rects_disjoint_b a1 w1 h1 a2 w2 h2 = true -> in_rect a1 w1 h1 q = true -> in_rect a2 w2 h2 q = true -> False.
Proof.
  unfold rects_disjoint_b, in_rect. rewrite !orb_true_iff, !andb_true_iff, !Z.leb_le, !Z.ltb_lt. lia.
Qed.

Lemma rects_disjoint_b_complete a1 w1 h1 a2 w2 h2 :
  1 <= w1 -> 1 <= h1 -> 1 <= w2 -> 1 <= h2 ->
  rects_disjoint_b a1 w1 h1 a2 w2 h2 = false ->
  exists q, in_rect a1 w1 h1 q = true /\ in_rect a2 w2 h2 q = true.
Proof.
  intros. exists (Z.max (fst a1) (fst a2), Z.max (snd a1) (snd a2)).
  unfold rects_disjoint_b, in_rect in *. cbn [fst snd].
  rewrite !orb_false_iff, !Z.leb_gt in H3. rewrite !andb_true_iff, !Z.leb_le, !Z.ltb_lt. lia.
Qed.

Theorem spill_exact_b_sound (sh : sheet) : spill_exact_b sh = true -> spill_inv sh.
Proof.
  unfold spill_exact_b. rewrite !andb_true_iff, !forallb_forall. intros [[Hc Ho] Hd].
  assert (An : forall p e, ext_of sh p = Some e -> In p (filter (is_anchor_b sh) (keys sh))).
  { intros p e Ep. apply filter_In. split.
    - unfold ext_of in Ep. destruct (get sh p) as [c|] eqn:G; [|discriminate]. eapply get_in_keys; eauto.
    - unfold is_anchor_b. rewrite Ep. reflexivity. }
  split; [|split].
  - intros p c ar ac v G K. pose proof (Hc p (get_in_keys sh p c G)) as X.
    unfold spill_covered_b in X. rewrite G, K in X.
    destruct (ext_of sh (ar, ac)) as [[w h]|]; [|discriminate]. exists w, h.
    apply andb_true_iff in X as [X1 X2]. apply negb_true_iff, pos_eqb_neq in X2. auto.
  - intros a w h Ea. pose proof (Ho a (An a _ Ea)) as X. unfold ext_ok_b in X. rewrite Ea in X.
    rewrite !andb_true_iff, !Z.leb_le in X. tauto.
  - intros a1 a2 w1 h1 w2 h2 q N E1 E2 R1 R2.
    pose proof (Hd a1 (An a1 _ E1)) as X. rewrite forallb_forall in X. specialize (X a2 (An a2 _ E2)).
    unfold disjoint_pair_b in X. rewrite E1, E2 in X. apply pos_eqb_neq in N. rewrite N in X. cbn [orb] in X.
    eapply rects_disjoint_b_sound; eauto.
Qed.

Theorem spill_exact_b_complete (sh : sheet) : spill_inv sh -> spill_exact_b sh = true.
Proof.
  intros [Hcov [Hok Hdis]]. unfold spill_exact_b. rewrite !andb_true_iff, !forallb_forall. split; [split|].
  - intros p _. unfold spill_covered_b. destruct (get sh p) as [c|] eqn:G; [|reflexivity].
    destruct (c_k c) eqn:K; try reflexivity.
    destruct (Hcov p c ar ac v G K) as [w [h [E [R N]]]]. rewrite E, R. apply pos_eqb_neq in N. rewrite N. reflexivity.
  - intros p _. unfold ext_ok_b. destruct (ext_of sh p) as [[w h]|] eqn:E; [|reflexivity].
    destruct (Hok p w h E) as [H1 [H2 [H3 [H4 H5]]]]. rewrite H3.
    rewrite !andb_true_iff, !Z.leb_le. tauto.
  - intros p _. apply forallb_forall. intros q _. unfold disjoint_pair_b.
    destruct (pos_eqb p q) eqn:N; [reflexivity|]. cbn [orb]. apply pos_eqb_neq in N.
    destruct (ext_of sh p) as [[w1 h1]|] eqn:E1; [|reflexivity].
    destruct (ext_of sh q) as [[w2 h2]|] eqn:E2; [|reflexivity].
    destruct (rects_disjoint_b p w1 h1 q w2 h2) eqn:D; [reflexivity|]. exfalso.
    destruct (Hok p w1 h1 E1) as [? [? _]]. destruct (Hok q w2 h2 E2) as [? [? _]].
    destruct (rects_disjoint_b_complete p w1 h1 q w2 h2) as [x [R1 R2]]; try assumption.
    exact (Hdis p q w1 h1 w2 h2 x N E1 E2 R1 R2).
Qed.

Theorem spill_full_b_sound (sh : sheet) : spill_full_b sh = true -> full sh.
Proof.
  unfold spill_full_b. rewrite forallb_forall. intros H a w h q Ea R N.
  assert (Ka : In a (keys sh)).
  { unfold ext_of in Ea. destruct (get sh a) as [c|] eqn:G; [|discriminate]. eapply get_in_keys; eauto. }
  pose proof (H a Ka) as X. unfold full_at_b in X. rewrite Ea in X. rewrite forallb_forall in X.
  specialize (X q (proj2 (in_rect_iff a w h q) R)). apply orb_true_iff in X as [X | X]; [|exact X].
  apply pos_eqb_eq in X. contradiction.
Qed.

Theorem spill_full_b_complete (sh : sheet) : full sh -> spill_full_b sh = true.
Proof.
  intros H. unfold spill_full_b. apply forallb_forall. intros a _. unfold full_at_b.
  destruct (ext_of sh a) as [[w h]|] eqn:E; [|reflexivity]. apply forallb_forall. intros q Hq.
  apply in_rect_iff in Hq. destruct (pos_eqb q a) eqn:N; [reflexivity|]. cbn [orb].
  apply pos_eqb_neq in N. exact (H a w h q E Hq N).
Qed.

(* the empty sheet, and a sheet without arrays *)
Lemma inv_no_arrays (sh : sheet) :
  (forall p c, get sh p = Some c -> match c_k c with KDyn _ _ _ _ | KCse _ _ _ _ | KSpill _ _ _ => False | _ => True end) ->
  spill_inv sh /\ full sh.
Proof.
  intros H.
  assert (E : forall p, ext_of sh p = None).
  { intros p. unfold ext_of, anchor_ext. destruct (get sh p) as [c|] eqn:G; [|reflexivity].
    specialize (H p c G). destruct (c_k c); try reflexivity; contradiction. }
  split; [split; [|split]|].
  - intros p c ar ac v G K. specialize (H p c G). rewrite K in H. contradiction.
  - intros a w h Ea. rewrite E in Ea. discriminate.
  - intros a1 a2 w1 h1 w2 h2 q _ E1. rewrite E in E1. discriminate.
  - intros a w h q Ea. rewrite E in Ea. discriminate.
Qed.

End SpillProofs.
