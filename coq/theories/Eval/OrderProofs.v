(* Eval/OrderProofs.v — C07 corollaries of the store theorem, and the concrete workbooks that
   refute the full-strength statements of C05 and C07 (computed with the toy number types). *)
From Coq Require Import Permutation.
From IronCalc Require Import Base.Prelude Eval.NumOps Eval.Value Eval.Coerce Eval.Ops Eval.Funs
  Eval.Eval Eval.Store Eval.Denote Eval.EvalProofs Eval.StoreProofs.

Section Order.
Context {num : Type} (N : NumOps num).
Notation content := (content (num:=num)). Notation store := (store (num:=num)).
Variable cont0 : cref -> content.
Hypothesis Hplain : forall c, plain_content (cont0 c).
Variable rank : cref -> nat.
Hypothesis Hrank : forall c f v d, cont0 c = CFormula f v -> In d (refs f) -> (rank d < rank c)%nat.
Hypothesis Hstorable : forall c f v, cont0 c = CFormula f v -> stable_result N (result_of N (dn N cont0 rank) c f).
Variable k : nat.
Hypothesis Hk : forall c, (rank c < k)%nat.

(* the values depend on the inputs only: not on stored values, marks, or the order *)
Theorem values_depend_on_inputs_only o1 o2 st1 st2 :
  same_inputs cont0 (cont st1) -> oof st1 = false -> same_inputs cont0 (cont st2) -> oof st2 = false ->
  forall c, In c o1 -> In c o2 -> value_at (evaluate_in N k o1 st1) c = value_at (evaluate_in N k o2 st2) c.
Proof.
  intros H1 F1 H2 F2 c I1 I2.
  rewrite (evaluate_is_denote N cont0 Hplain rank Hrank Hstorable k o1 st1 Hk H1 F1 c (or_introl I1)).
  rewrite (evaluate_is_denote N cont0 Hplain rank Hrank Hstorable k o2 st2 Hk H2 F2 c (or_introl I2)).
  reflexivity.
Qed.

Theorem order_independent o1 o2 st0 : Permutation o1 o2 ->
  same_inputs cont0 (cont st0) -> oof st0 = false ->
  forall c, In c o1 -> value_at (evaluate_in N k o1 st0) c = value_at (evaluate_in N k o2 st0) c.
Proof.
  intros Hp Hs Ho c Hc. apply values_depend_on_inputs_only; try assumption.
  eapply Permutation_in; eassumption.
Qed.

Theorem idempotent o st0 : same_inputs cont0 (cont st0) -> oof st0 = false ->
  forall c, In c o ->
  value_at (evaluate_in N k o (evaluate_in N k o st0)) c = value_at (evaluate_in N k o st0) c.
Proof.
  intros Hs Ho c Hc.
  destruct (evaluate_preserves N cont0 Hplain rank Hrank Hstorable k o st0 Hk Hs Ho) as [Hs' Ho'].
  apply values_depend_on_inputs_only; assumption.
Qed.
End Order.

(* ---------------- concrete workbooks ---------------- *)
Definition cA1 : cref := mkref 0 1 1.
Definition cB1 : cref := mkref 0 1 2.
Definition cC1 : cref := mkref 0 1 3.

(* F10: A1 = IFERROR(B1,5), B1 = A1+1 *)
Definition wb_f10 : workbook (num:=Z) :=
  [(cA1, CFormula (EFun FIferror [ERef 0 1 2; ENum 5]) FUnevaluated);
   (cB1, CFormula (EBin OAdd (ERef 0 1 1) (ENum 1)) FUnevaluated)].
Lemma f10_values :
  value_at (evaluate ZOps [cA1; cB1] wb_f10) cA1 = VNum 5 /\
  value_at (evaluate ZOps [cA1; cB1] wb_f10) cB1 = VErr ECIRC /\
  (* what B1's formula produces over the stored values *)
  result_of ZOps (value_at (evaluate ZOps [cA1; cB1] wb_f10)) cB1 (EBin OAdd (ERef 0 1 1) (ENum 1)) = VNum 6 /\
  values_consistent_b ZOps Z.eqb (cont (evaluate ZOps [cA1; cB1] wb_f10)) [cA1; cB1] = false.
Proof. vm_compute. repeat split; reflexivity. Qed.
(* visiting B1 first gives B1 = 6: the result depends on the order of evaluation *)
Lemma f10_other_order :
  value_at (evaluate ZOps [cB1; cA1] wb_f10) cA1 = VNum 5 /\
  value_at (evaluate ZOps [cB1; cA1] wb_f10) cB1 = VNum 6.
Proof. vm_compute. split; reflexivity. Qed.

(* F30: A1 = B1&"x", B1 = C1 with C1 empty — an ACYCLIC workbook *)
Definition wb_f30 : workbook (num:=Z) :=
  [(cA1, CFormula (EConcat (ERef 0 1 2) (EStr [120])) FUnevaluated);
   (cB1, CFormula (ERef 0 1 3) FUnevaluated)].
Lemma f30_values :
  value_at (evaluate ZOps [cA1; cB1] wb_f30) cA1 = VStr [120] /\
  value_at (evaluate ZOps [cA1; cB1] wb_f30) cB1 = VNum 0 /\
  result_of ZOps (value_at (evaluate ZOps [cA1; cB1] wb_f30)) cA1 (EConcat (ERef 0 1 2) (EStr [120])) = VStr [48; 120] /\
  values_consistent_b ZOps Z.eqb (cont (evaluate ZOps [cA1; cB1] wb_f30)) [cA1; cB1] = false.
Proof. vm_compute. repeat split; reflexivity. Qed.
Lemma f30_other_order :
  value_at (evaluate ZOps [cB1; cA1] wb_f30) cA1 = VStr [48; 120].
Proof. vm_compute. reflexivity. Qed.

(* F31: A1 = ISNUMBER(B1), B1 = MAX*10 (overflows; stored as #NUM!) *)
Definition wb_f31 : workbook (num:=option Z) :=
  [(cA1, CFormula (EFun FIsnumber [ERef 0 1 2]) FUnevaluated);
   (cB1, CFormula (EBin OMul (ENum (Some zmax)) (ENum (Some 10))) FUnevaluated)].
Lemma f31_values :
  value_at (evaluate BOps [cA1; cB1] wb_f31) cA1 = VBool true /\
  value_at (evaluate BOps [cA1; cB1] wb_f31) cB1 = VErr ENUM /\
  value_at (evaluate BOps [cB1; cA1] wb_f31) cA1 = VBool false.
Proof. vm_compute. repeat split; reflexivity. Qed.

(* a workbook that satisfies every hypothesis of the theorems (non-vacuity):
   A1 = 1, B1 = A1+1, C1 = SUM(A1:B1)*2 *)
Definition wb_ok : workbook (num:=Z) :=
  [(cA1, CNumber 1);
   (cB1, CFormula (EBin OAdd (ERef 0 1 1) (ENum 1)) FUnevaluated);
   (cC1, CFormula (EBin OMul (EFun FSum [ERange 0 1 1 1 2]) (ENum 2)) FUnevaluated)].
Definition rank_ok (c : cref) : nat := if cref_eqb c cC1 then 2%nat else if cref_eqb c cB1 then 1%nat else 0%nat.

Lemma wb_ok_plain : forall c, plain_content (lookup wb_ok c).
Proof. intro c. unfold wb_ok, lookup. repeat match goal with |- context [cref_eqb ?a c] => destruct (cref_eqb a c) end; exact I. Qed.

Lemma wb_ok_cases c f v : lookup wb_ok c = CFormula f v ->
  (c = cB1 /\ f = EBin OAdd (ERef 0 1 1) (ENum 1)) \/ (c = cC1 /\ f = EBin OMul (EFun FSum [ERange 0 1 1 1 2]) (ENum 2)).
Proof.
  unfold wb_ok, lookup. destruct (cref_eqb cA1 c) eqn:E1; [discriminate|].
  destruct (cref_eqb cB1 c) eqn:E2; [apply cref_eqb_eq in E2; intro H; inversion H; subst; left; auto|].
  destruct (cref_eqb cC1 c) eqn:E3; [apply cref_eqb_eq in E3; intro H; inversion H; subst; right; auto|discriminate].
Qed.

Lemma wb_ok_acyclic : forall c f v d, lookup wb_ok c = CFormula f v -> In d (refs f) -> (rank_ok d < rank_ok c)%nat.
Proof.
  intros c f v d Hc Hd. destruct (wb_ok_cases c f v Hc) as [[-> ->]|[-> ->]]; vm_compute in Hd.
  - destruct Hd as [<-|[]]. vm_compute. lia.
  - destruct Hd as [<-|[<-|[]]]; vm_compute; lia.
Qed.

Lemma wb_ok_storable : forall c f v, lookup wb_ok c = CFormula f v ->
  stable_result ZOps (result_of ZOps (dn ZOps (lookup wb_ok) rank_ok) c f).
Proof.
  intros c f v Hc. destruct (wb_ok_cases c f v Hc) as [[-> ->]|[-> ->]]; vm_compute; reflexivity.
Qed.

Lemma wb_ok_rank_bound : forall c, (rank_ok c < fuel_for wb_ok)%nat.
Proof. intro c. unfold rank_ok. destruct (cref_eqb c cC1), (cref_eqb c cB1); vm_compute; lia. Qed.

Lemma wb_ok_values :
  value_at (evaluate ZOps [cC1; cB1; cA1] wb_ok) cC1 = VNum 6 /\ denote ZOps wb_ok cC1 = VNum 6.
Proof. vm_compute. split; reflexivity. Qed.
