(* Eval/Coerce.v — cast_to_number / cast_to_string / cast_to_bool of cast.rs, and the
   per-element casts of the array machinery (arithmetic.rs to_f64, cast.rs
   array_node_to_string, logical/mod.rs array_node_to_bool).  No proofs here. *)
From IronCalc Require Import Base.Prelude Eval.NumOps Eval.Value.

Definition t_TRUE : text := [84; 82; 85; 69].
Definition t_FALSE : text := [70; 65; 76; 83; 69].
Definition t_true : text := [116; 114; 117; 101].
Definition t_false : text := [102; 97; 108; 115; 101].
Definition bool_text (b : bool) : text := if b then t_TRUE else t_FALSE.

Section Coerce.
Context {num : Type} (N : NumOps num).
Notation value := (value num). Notation scalar := (scalar num).

Definition num_of_bool (b : bool) : num := if b then none_ N else nzero N.

Definition cast_to_number (v : value) : res num :=
  match v with
  | VNum f => ROk f
  | VStr s => match nof_text N s with Some f => ROk f | None => RErr EVALUE end
  | VBool b => ROk (num_of_bool b)
  | VEmptyCell | VEmptyArg => ROk (nzero N)
  | VErr e => RErr e
  | VRange _ _ _ _ _ => RErr ENIMPL
  | VArray _ => RErr ENIMPL
  end.

Definition cast_to_string (v : value) : res text :=
  match v with
  | VNum f => ROk (nto_text N f)
  | VStr s => ROk s
  | VBool b => ROk (bool_text b)
  | VEmptyCell | VEmptyArg => ROk []
  | VErr e => RErr e
  | VRange _ _ _ _ _ => RErr ENIMPL
  | VArray _ => RErr ENIMPL
  end.

(* "true"/"false" in any case, anything else is not a boolean *)
Definition bool_of_text (s : text) : option bool :=
  let l := str_lower N s in
  if text_eqb l t_true then Some true else if text_eqb l t_false then Some false else None.

Definition cast_to_bool (v : value) : res bool :=
  match v with
  | VNum f => ROk (negb (nis_zero N f))
  | VStr s => match bool_of_text s with Some b => ROk b | None => RErr EVALUE end
  | VBool b => ROk b
  | VEmptyCell | VEmptyArg => ROk false
  | VErr e => RErr e
  | VRange _ _ _ _ _ => RErr ENIMPL
  | VArray _ => RErr ENIMPL
  end.

(* arithmetic.rs to_f64: array elements use str::parse alone *)
Definition to_f64 (s : scalar) : res num :=
  match s with
  | SNum f => ROk f
  | SBool b => ROk (num_of_bool b)
  | SStr t => match nof_text_strict N t with Some f => ROk f | None => RErr EVALUE end
  | SErr e => RErr e
  | SEmpty => ROk (nzero N)
  end.

(* the element cast of single_number_fn! / apply_number_unary: cast_number on strings *)
Definition to_f64_cast (s : scalar) : res num :=
  match s with
  | SNum f => ROk f
  | SBool b => ROk (num_of_bool b)
  | SStr t => match nof_text N t with Some f => ROk f | None => RErr EVALUE end
  | SErr e => RErr e
  | SEmpty => ROk (nzero N)
  end.

Definition array_node_to_string (s : scalar) : res text :=
  match s with
  | SNum f => ROk (nto_text N f)
  | SStr t => ROk t
  | SBool b => ROk (bool_text b)
  | SEmpty => ROk []
  | SErr e => RErr e
  end.

Definition array_node_to_bool (s : scalar) : res bool :=
  match s with
  | SBool b => ROk b
  | SNum n => ROk (negb (nis_zero N n))
  | SStr t => match bool_of_text t with Some b => ROk b | None => RErr EVALUE end
  | SEmpty => ROk false
  | SErr e => RErr e
  end.

End Coerce.
