(* Eval/Spill.v — dynamic-array spill bookkeeping (property C31; reused by C27).
   Executable model, no proofs.  Mirrors /repo/base/src:
     model.rs      set_cells_with_result   (dynamic branch + the scalar/#SPILL!/#CALC! fall-back)
     model.rs      evaluate_cell           (clearing of the previous extent's own spill cells)
     model.rs      reset_dynamic_array_spills
     model.rs      prepare_cell_for_user_input
     worksheet.rs  update_cell, get_style, cell_clear_contents, get_cell_structure
   A sheet is a finite map (association list, first binding wins, [set] removes older bindings)
   from positions (row, column) to cells.  A cell is a style index and a kind; the kinds are the
   variants of types.rs [Cell] collapsed to what the spill code distinguishes:
     KEmpty                      EmptyCell
     KValue v                    BooleanCell / NumberCell / ErrorCell / SharedString  (user content)
     KFormula f v                CellFormula
     KDyn f w h v                ArrayFormula { kind: Dynamic, r: (w, h) }
     KCse f w h v                ArrayFormula { kind: Cse,     r: (w, h) }
     KSpill ar ac v              SpillCell { a: (ar, ac) }
   The value type [V] is abstract (Section variable): the spill code only copies values.  The
   style an absent cell inherits from its row / column (worksheet.rs get_row_column_style) is
   the Section variable [dflt]; every statement holds for every such function. *)
From IronCalc Require Import Base.Prelude.

Section Spill.
Context {V : Type}.
Variable spill_err : V.   (* FormulaValue::Error { ei: Error::SPILL, .. } *)
Variable calc_err : V.    (* FormulaValue::Error { ei: Error::CALC, .. }  (zero-size array) *)
Variable uneval : V.      (* FormulaValue::Unevaluated *)

Inductive kind : Type :=
| KEmpty
| KValue (v : V)
| KFormula (f : Z) (v : V)
| KDyn (f w h : Z) (v : V)
| KCse (f w h : Z) (v : V)
| KSpill (ar ac : Z) (v : V).

Record cell : Type := mkcell { c_s : Z; c_k : kind }.

Definition pos : Type := (Z * Z)%type.            (* (row, column) *)
Definition pos_eqb (p q : pos) : bool := (fst p =? fst q) && (snd p =? snd q).

Definition sheet : Type := list (pos * cell).

Fixpoint get (sh : sheet) (p : pos) : option cell :=
  match sh with
  | [] => None
  | (q, c) :: r => if pos_eqb q p then Some c else get r p
  end.

Fixpoint remove (p : pos) (sh : sheet) : sheet :=
  match sh with
  | [] => []
  | (q, c) :: r => if pos_eqb q p then remove p r else (q, c) :: remove p r
  end.

Definition set (p : pos) (c : cell) (sh : sheet) : sheet := (p, c) :: remove p sh.
Definition keys (sh : sheet) : list pos := map fst sh.

(* is_valid_row && is_valid_column_number *)
Definition on_grid (p : pos) : bool :=
  (1 <=? fst p) && (fst p <=? LAST_ROW) && (1 <=? snd p) && (snd p <=? LAST_COLUMN).

Variable dflt : pos -> Z.

(* Worksheet::get_style *)
Definition style_of (x : option cell) (p : pos) : Z :=
  match x with Some c => c_s c | None => dflt p end.
Definition style_at (sh : sheet) (p : pos) : Z := style_of (get sh p) p.

(* Worksheet::cell_clear_contents with the error ignored (every modelled call site is `let _ =`):
   update_cell refuses positions outside the grid and then nothing happens *)
Definition clear_contents (sh : sheet) (p : pos) : sheet :=
  if on_grid p then set p (mkcell (style_at sh p) KEmpty) sh else sh.

(* ---- rectangles ------------------------------------------------------------------------- *)
Fixpoint zrange (start : Z) (n : nat) : list Z :=
  match n with O => [] | S k => start :: zrange (start + 1) k end.

(* for r in row..row+h { for c in column..column+w { .. } } *)
Definition rect (a : pos) (w h : Z) : list pos :=
  flat_map (fun r => map (fun c => (r, c)) (zrange (snd a) (Z.to_nat w))) (zrange (fst a) (Z.to_nat h)).

Definition in_rect (a : pos) (w h : Z) (p : pos) : bool :=
  (fst a <=? fst p) && (fst p <? fst a + h) && (snd a <=? snd p) && (snd p <? snd a + w).

(* ---- evaluate_cell: clear the previous extent's own spill cells ---------------------------- *)
Definition is_own_spill (a : pos) (x : option cell) : bool :=
  match x with
  | Some c => match c_k c with KSpill ar ac _ => pos_eqb (ar, ac) a | _ => false end
  | None => false
  end.

Definition clear_own_step (a : pos) (sh : sheet) (p : pos) : sheet :=
  if negb (pos_eqb p a) && is_own_spill a (get sh p) then clear_contents sh p else sh.

Definition clear_own_spills (a : pos) (w h : Z) (sh : sheet) : sheet :=
  fold_left (clear_own_step a) (rect a w h) sh.

(* ---- set_cells_with_result, dynamic anchor ---------------------------------------------- *)
(* "anything but EmptyCell or this anchor's own SpillCell blocks"; an absent cell does not *)
Definition blocks (a : pos) (x : option cell) : bool :=
  match x with
  | None => false
  | Some c => match c_k c with
              | KEmpty => false
              | KSpill ar ac _ => negb (pos_eqb (ar, ac) a)
              | _ => true
              end
  end.

Definition blocked (a : pos) (w h : Z) (sh : sheet) : bool :=
  existsb (fun p => negb (pos_eqb p a) && blocks a (get sh p)) (rect a w h).

(* the elements of the result paired with the positions the double loop writes them to:
   array[(r - row)][(c - column)] for c - column < width *)
Fixpoint row_cells (r c : Z) (w : nat) (vs : list V) : list (pos * V) :=
  match w, vs with
  | S w', v :: vs' => ((r, c), v) :: row_cells r (c + 1) w' vs'
  | _, _ => []
  end.

Fixpoint block_cells (r c : Z) (w : nat) (arr : list (list V)) : list (pos * V) :=
  match arr with
  | [] => []
  | vs :: rest => row_cells r c w vs ++ block_cells (r + 1) c w rest
  end.

(* a row shorter than array[0]: the index expression aborts *)
Definition short_row (w : nat) (arr : list (list V)) : bool :=
  existsb (fun r => (length r <? w)%nat) arr.

Definition elem (arr : list (list V)) (i j : nat) : option V :=
  match nth_error arr i with Some r => nth_error r j | None => None end.

Definition new_cell (a : pos) (f s w h : Z) (p : pos) (v : V) (sty : Z) : cell :=
  if pos_eqb p a then mkcell s (KDyn f w h v) else mkcell sty (KSpill (fst a) (snd a) v).

Definition write_step (a : pos) (f s w h : Z) (sh : sheet) (e : pos * V) : sheet :=
  set (fst e) (new_cell a f s w h (fst e) (snd e) (style_at sh (fst e))) sh.

Definition write_cells (a : pos) (f s w h : Z) (cells : list (pos * V)) (sh : sheet) : sheet :=
  fold_left (write_step a f s w h) cells sh.

(* the non-array tail of set_cells_with_result for a dynamic anchor: r := (1, 1) *)
Definition write_scalar (a : pos) (f s : Z) (v : V) (sh : sheet) : sheet :=
  set a (mkcell s (KDyn f 1 1 v)) sh.

Inductive result : Type := RScalar (v : V) | RArray (arr : list (list V)).

(* set_cells_with_result(cell_reference = a, cell = ArrayFormula{f, s, kind: Dynamic}, result).
   [Err]: update_cell refused the anchor (outside the grid) — in every path the anchor is the
   first cell written, so nothing has changed.  [Panic]: jagged array. *)
Definition write_dynamic (a : pos) (f s : Z) (res : result) (sh : sheet) : outcome sheet :=
  if negb (on_grid a) then Err else
  match res with
  | RScalar v => Ok (write_scalar a f s v sh)
  | RArray arr =>
      let hn := length arr in
      let wn := length (hd [] arr) in
      let h := Z.of_nat hn in
      let w := Z.of_nat wn in
      if (h =? 0) || (w =? 0) then Ok (write_scalar a f s calc_err sh)
      else if (LAST_ROW <? fst a + h - 1) || (LAST_COLUMN <? snd a + w - 1)
      then Ok (write_scalar a f s spill_err sh)
      else if blocked a w h sh then Ok (write_scalar a f s spill_err sh)
      else if short_row wn arr then Panic
      else Ok (write_cells a f s w h (block_cells (fst a) (snd a) wn arr) sh)
  end.

(* evaluate_cell on a dynamic anchor whose formula evaluates to [res] (the evaluation itself is
   Eval/Store.v; here it is a parameter and is assumed not to touch the sheet — the
   single-anchor class).  Cells that are not dynamic anchors are outside this model: [Err]. *)
Definition eval_anchor (a : pos) (res : result) (sh : sheet) : outcome sheet :=
  match get sh a with
  | Some c =>
      match c_k c with
      | KDyn f w h _ => write_dynamic a f (c_s c) res (clear_own_spills a w h sh)
      | _ => Err
      end
  | None => Err
  end.

(* phase 1 of Model::evaluate with the order and the results given *)
Fixpoint eval_anchors (l : list (pos * result)) (sh : sheet) : outcome sheet :=
  match l with
  | [] => Ok sh
  | (a, res) :: r => obind (eval_anchor a res sh) (eval_anchors r)
  end.

(* ---- reset_dynamic_array_spills ------------------------------------------------------------ *)
Definition dyn_info (sh : sheet) (p : pos) : option (Z * Z * Z * Z) :=   (* f, s, w, h *)
  match get sh p with
  | Some c => match c_k c with KDyn f w h _ => Some (f, c_s c, w, h) | _ => None end
  | None => None
  end.

Definition clear_but (a : pos) (sh : sheet) (p : pos) : sheet :=
  if pos_eqb p a then sh else clear_contents sh p.

(* one iteration of the second loop: re-insert the anchor with r = (1,1), Unevaluated; clear the
   rest of the recorded extent whatever it holds *)
Definition reset_one (a : pos) (f s w h : Z) (sh : sheet) : sheet :=
  fold_left (clear_but a) (rect a w h) (set a (mkcell s (KDyn f 1 1 uneval)) sh).

(* The anchors are collected from the sheet as it is when the function is entered ([sh0]) and
   processed in HashMap order: [order] is that enumeration (any list of positions). *)
Definition reset_spills_from (sh0 : sheet) (order : list pos) (sh : sheet) : sheet :=
  fold_left (fun acc p => match dyn_info sh0 p with
                          | Some (f, s, w, h) => reset_one p f s w h acc
                          | None => acc
                          end) order sh.
Definition reset_spills (order : list pos) (sh : sheet) : sheet := reset_spills_from sh order sh.

(* ---- prepare_cell_for_user_input ------------------------------------------------------------- *)
Definition prepare_for_input (p : pos) (sh : sheet) : outcome sheet :=
  if negb (on_grid p) then Err else
  match get sh p with
  | None => Ok sh
  | Some c =>
      match c_k c with
      | KCse _ w h _ => if (1 <? w) || (1 <? h) then Err else Ok sh
      | KDyn _ w h _ => Ok (fold_left clear_contents (rect p w h) sh)
      | KSpill ar ac _ =>
          match get sh (ar, ac) with
          | None => Err
          | Some ca =>
              match c_k ca with
              | KDyn f w h _ => Ok (reset_one (ar, ac) f (c_s ca) w h sh)
              | _ => Err       (* SpillArray, or "Spill cell does not reference an array formula" *)
              end
          end
      | _ => Ok sh
      end
  end.

(* Model::set_user_input for a text that is recognised as a plain number (no format change):
   prepare, read the style the cell has then (get_cell_style_index), write a NumberCell *)
Definition input_value (p : pos) (v : V) (sh : sheet) : outcome sheet :=
  obind (prepare_for_input p sh) (fun sh' => Ok (set p (mkcell (style_at sh' p) (KValue v)) sh')).

(* ---- the property as a decidable predicate on a state ------------------------------------------ *)
Definition anchor_ext (c : cell) : option (Z * Z) :=
  match c_k c with KDyn _ w h _ => Some (w, h) | KCse _ w h _ => Some (w, h) | _ => None end.
Definition ext_of (sh : sheet) (p : pos) : option (Z * Z) :=
  match get sh p with Some c => anchor_ext c | None => None end.

(* every spill cell has an anchor whose current extent covers it *)
Definition spill_covered_b (sh : sheet) (p : pos) : bool :=
  match get sh p with
  | Some c =>
      match c_k c with
      | KSpill ar ac _ =>
          match ext_of sh (ar, ac) with
          | Some (w, h) => in_rect (ar, ac) w h p && negb (pos_eqb p (ar, ac))
          | None => false
          end
      | _ => true
      end
  | None => true
  end.

Definition ext_ok_b (sh : sheet) (p : pos) : bool :=
  match ext_of sh p with
  | Some (w, h) => (1 <=? w) && (1 <=? h) && on_grid p
                   && (fst p + h - 1 <=? LAST_ROW) && (snd p + w - 1 <=? LAST_COLUMN)
  | None => true
  end.

Definition rects_disjoint_b (a1 : pos) (w1 h1 : Z) (a2 : pos) (w2 h2 : Z) : bool :=
  (fst a1 + h1 <=? fst a2) || (fst a2 + h2 <=? fst a1) || (snd a1 + w1 <=? snd a2) || (snd a2 + w2 <=? snd a1).

Definition disjoint_pair_b (sh : sheet) (p q : pos) : bool :=
  pos_eqb p q ||
  match ext_of sh p, ext_of sh q with
  | Some (w1, h1), Some (w2, h2) => rects_disjoint_b p w1 h1 q w2 h2
  | _, _ => true
  end.

Definition is_anchor_b (sh : sheet) (p : pos) : bool :=
  match ext_of sh p with Some _ => true | None => false end.

Definition spill_exact_b (sh : sheet) : bool :=
  let ks := keys sh in
  let an := filter (is_anchor_b sh) ks in
  forallb (spill_covered_b sh) ks && forallb (ext_ok_b sh) an
  && forallb (fun p => forallb (disjoint_pair_b sh p) an) an.

(* every cell of an extent other than the anchor is a spill cell of that anchor *)
Definition full_at_b (sh : sheet) (p : pos) : bool :=
  match ext_of sh p with
  | Some (w, h) => forallb (fun q => pos_eqb q p || is_own_spill p (get sh q)) (rect p w h)
  | None => true
  end.
Definition spill_full_b (sh : sheet) : bool := forallb (full_at_b sh) (keys sh).

End Spill.

Arguments kind V : clear implicits.
Arguments cell V : clear implicits.
Arguments sheet V : clear implicits.
Arguments result V : clear implicits.
