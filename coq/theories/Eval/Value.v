(* Eval/Value.v — values of the evaluator.  [value] mirrors CalcResult (calc_result.rs) without
   the origin/message of errors and without Lambda; [scalar] mirrors ArrayNode; [fvalue] and
   [spillv] mirror FormulaValue and SpillValue (types.rs).  No proofs here. *)
From IronCalc Require Import Base.Prelude.

Inductive err : Type :=
| EREF | ENAME | EVALUE | EDIV | ENA | ENUM | EERROR | ENIMPL | ESPILL | ECALC | ECIRC | ENULL.

Definition err_eqb (a b : err) : bool :=
  match a, b with
  | EREF, EREF | ENAME, ENAME | EVALUE, EVALUE | EDIV, EDIV | ENA, ENA | ENUM, ENUM
  | EERROR, EERROR | ENIMPL, ENIMPL | ESPILL, ESPILL | ECALC, ECALC | ECIRC, ECIRC | ENULL, ENULL => true
  | _, _ => false
  end.

(* wire code of an error, shared with the harness *)
Definition err_code (e : err) : Z :=
  match e with
  | EREF => 0 | ENAME => 1 | EVALUE => 2 | EDIV => 3 | ENA => 4 | ENUM => 5
  | EERROR => 6 | ENIMPL => 7 | ESPILL => 8 | ECALC => 9 | ECIRC => 10 | ENULL => 11
  end.

Record cref : Type := mkref { c_sheet : Z; c_row : Z; c_col : Z }.
Definition cref_eqb (a b : cref) : bool :=
  (c_sheet a =? c_sheet b) && (c_row a =? c_row b) && (c_col a =? c_col b).

Section Values.
Context {num : Type}.

Inductive scalar : Type :=
| SNum (n : num) | SStr (t : text) | SBool (b : bool) | SErr (e : err) | SEmpty.

Definition array : Type := list (list scalar).

Inductive value : Type :=
| VNum (n : num)
| VStr (t : text)
| VBool (b : bool)
| VErr (e : err)
| VEmptyCell
| VEmptyArg
| VRange (sheet r1 c1 r2 c2 : Z)
| VArray (a : array).

(* FormulaValue / SpillValue *)
Inductive fvalue : Type :=
| FUnevaluated | FNum (n : num) | FText (t : text) | FBool (b : bool) | FErr (e : err).
Inductive spillv : Type :=
| PNum (n : num) | PText (t : text) | PBool (b : bool) | PErr (e : err).

(* results of the casts: a Rust Result<T, CalcResult> whose Err is always an error value *)
Inductive res (A : Type) : Type := ROk (a : A) | RErr (e : err).

(* calc_result_to_array_node (cast.rs / logical/mod.rs) and evaluate_range's conversion *)
Definition scalar_of_value (v : value) : scalar :=
  match v with
  | VNum n => SNum n | VBool b => SBool b | VStr s => SStr s | VErr e => SErr e
  | VEmptyCell | VEmptyArg => SEmpty
  | VRange _ _ _ _ _ | VArray _ => SErr EVALUE
  end.
(* evaluate_range: ranges/arrays "cannot happen" and become #N/IMPL! *)
Definition scalar_of_cell_value (v : value) : scalar :=
  match v with
  | VRange _ _ _ _ _ | VArray _ => SErr ENIMPL
  | _ => scalar_of_value v
  end.
(* the conversion inside get_number_or_array: ranges/arrays become Number 0 — needs zero, see Ops *)

(* node_to_calc in handle_comparison; also the a[0][0] conversion at the end of evaluate_cell *)
Definition value_of_scalar (s : scalar) : value :=
  match s with
  | SNum n => VNum n | SBool b => VBool b | SStr t => VStr t | SErr e => VErr e | SEmpty => VEmptyCell
  end.

End Values.
Arguments scalar : clear implicits. Arguments array : clear implicits. Arguments value : clear implicits.
Arguments fvalue : clear implicits. Arguments spillv : clear implicits.
Arguments ROk {A} a. Arguments RErr {A} e.
