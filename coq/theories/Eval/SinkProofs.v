(* Eval/SinkProofs.v — C08 as a theorem about the SINK set_cells_with_result ([write]), not
   about the ~495 functions that may have produced the result: the scalar branch keeps the
   store free of non-finite numbers for EVERY result; the array branches (dynamic, CSE and the
   1x1 coercion) and the typed path do so only if what they are given is finite. *)
From IronCalc Require Import Base.Prelude Eval.NumOps Eval.Value Eval.Coerce Eval.Ops Eval.Funs
  Eval.Eval Eval.Store Eval.StoreProofs.

Section Sink.
Context {num : Type} (N : NumOps num).
Notation value := (value num). Notation content := (content (num:=num)). Notation store := (store (num:=num)).
(* the one law of the number type the proofs need: 0.0 is finite *)
Hypothesis Hzero : nis_finite N (nzero N) = true.

Lemma finite_set_cont st c x : finite_store N st -> content_finite N x = true -> finite_store N (set_cont st c x).
Proof.
  intros Hf Hx d. cbn [set_cont cont]. unfold upd. destruct (cref_eqb c d); [exact Hx | apply Hf].
Qed.

Lemma fold_left_inv {A B} (P : A -> Prop) (f : A -> B -> A) l : (forall a b, P a -> P (f a b)) -> forall a, P a -> P (fold_left f l a).
Proof. intro H. induction l as [|b l IH]; intros a Ha; cbn [fold_left]; [exact Ha | apply IH, H, Ha]. Qed.

Lemma fv_to_spill_finite fv : fv_finite N fv = true -> sv_finite N (fv_to_spill fv) = true.
Proof. destruct fv; cbn; auto. Qed.

Lemma write_scalar_finite c cell fv st : fv_finite N fv = true -> finite_store N st -> finite_store N (write_scalar c cell fv st).
Proof.
  intros Hfv Hst. unfold write_scalar. destruct cell as [| | | | |f v|dyn w h f v|]; try exact Hst.
  - apply finite_set_cont; [exact Hst | exact Hfv].
  - destruct dyn.
    + apply finite_set_cont; [exact Hst | exact Hfv].
    + apply finite_set_cont; [|exact Hfv].
      apply fold_left_inv; [|exact Hst]. intros s d Hs. destruct (is_anchor c d); [exact Hs|].
      apply finite_set_cont; [exact Hs | cbn; apply fv_to_spill_finite; exact Hfv].
Qed.

(* the safety belt: whatever the scalar result, the stored value is finite *)
Lemma scalar_fvalue_finite r fv : scalar_fvalue N r = Some fv -> fv_finite N fv = true.
Proof.
  destruct r; cbn [scalar_fvalue]; intro H; inversion H; subst; cbn [fv_finite]; try reflexivity; try exact Hzero.
  destruct (nis_finite N n) eqn:E; cbn [fv_finite]; [exact E | reflexivity].
Qed.

Definition is_array (r : value) : Prop := match r with VArray _ => True | _ => False end.

(* THE SINK THEOREM, scalar branch: for every result that is not an array *)
Theorem write_scalar_branch_finite c cell r st st' :
  ~ is_array r -> write N c cell r st = Some st' -> finite_store N st -> finite_store N st'.
Proof.
  intros Hna Hw Hst. unfold write in Hw. destruct (formula_of cell) as [f|]; [|inversion Hw; subst; exact Hst].
  destruct r; try (exfalso; apply Hna; exact I);
    (destruct (scalar_fvalue N _) as [fv|] eqn:Es in Hw; [|discriminate]; inversion Hw; subst;
     apply write_scalar_finite; [eapply scalar_fvalue_finite; exact Es | exact Hst]).
Qed.

(* the array branches (since /repo e9b497e): every element goes through afv / asv, which carry the guard *)
Lemma afv_finite x : fv_finite N (afv N x) = true.
Proof. destruct x; cbn; auto. destruct (nis_finite N n) eqn:E; cbn; auto. Qed.
Lemma asv_finite x : sv_finite N (asv N x) = true.
Proof. destruct x; cbn; auto. destruct (nis_finite N n) eqn:E; cbn; auto. Qed.

(* THE SINK THEOREM, full: for EVERY result, scalar or array, whatever produced it *)
Theorem write_finite c cell r st st' :
  write N c cell r st = Some st' -> finite_store N st -> finite_store N st'.
Proof.
  intros Hw Hst. destruct r as [| | | | | | |a]; try (eapply write_scalar_branch_finite; [|exact Hw|exact Hst]; intro Hx; exact Hx).
  unfold write in Hw. destruct (formula_of cell) as [f|]; [|inversion Hw; subst; exact Hst].
  destruct ((arr_rows a =? 0)%nat || (arr_cols a =? 0)%nat).
  { injection Hw as <-. apply write_scalar_finite; [reflexivity | exact Hst]. }
  destruct cell as [| | | | |f0 v0|dyn w h f0 v0|]; cbn [formula_of] in *.
  1-5,8: (inversion Hw; subst; apply finite_set_cont; [exact Hst|];
          cbn [content_finite]; destruct ((_ =? 1) && (_ =? 1)); [|reflexivity];
          destruct (get_value_from_array a 1 1) eqn:Eg; [apply afv_finite | reflexivity]).
  - inversion Hw; subst; apply finite_set_cont; [exact Hst|];
          cbn [content_finite]; destruct ((_ =? 1) && (_ =? 1)); [|reflexivity];
          destruct (get_value_from_array a 1 1) eqn:Eg; [apply afv_finite | reflexivity].
  - destruct dyn.
    + destruct (_ || _) in Hw; [injection Hw as <-; first [apply write_scalar_finite; [reflexivity | exact Hst] | apply finite_set_cont; [exact Hst | reflexivity]]|].
      destruct (existsb _ _) in Hw; [injection Hw as <-; first [apply write_scalar_finite; [reflexivity | exact Hst] | apply finite_set_cont; [exact Hst | reflexivity]]|].
      injection Hw as <-. apply fold_left_inv; [|exact Hst]. intros s d Hs.
      destruct (get_value_from_array a _ _) eqn:Eg; [|exact Hs].
      destruct (is_anchor c d); apply finite_set_cont; try exact Hs; cbn [content_finite];
        [apply afv_finite | apply asv_finite].
    + injection Hw as <-. apply fold_left_inv; [|exact Hst]. intros s d Hs.
      destruct (is_anchor c d); apply finite_set_cont; try exact Hs; cbn [content_finite];
        destruct (get_value_from_array a _ _) eqn:Eg; try reflexivity;
        [apply afv_finite | apply asv_finite].
Qed.

(* the typed path (after /repo 6e3cec0): a recognised value that is not finite is stored as text *)
Theorem type_number_finite c t st : finite_store N st -> finite_store N (type_number N c t st).
Proof.
  intro Hst. unfold type_number. destruct (nof_text N t) as [v|] eqn:E.
  - destruct (nis_finite N v) eqn:Ef; apply finite_set_cont; try exact Hst; [cbn; exact Ef | reflexivity].
  - apply finite_set_cont; [exact Hst | reflexivity].
Qed.

(* the API write (after /repo 0aeb22c): Err on a non-finite value, otherwise the value is stored *)
Theorem api_set_number_finite c v st st' :
  api_set_number N c v st = Some st' -> finite_store N st -> finite_store N st'.
Proof.
  unfold api_set_number. destruct (nis_finite N v) eqn:E; [|discriminate].
  intros H Hst. injection H as <-. apply finite_set_cont; [exact Hst | exact E].
Qed.
Theorem api_set_number_rejects c v st : nis_finite N v = false -> api_set_number N c v st = None.
Proof. intro E. unfold api_set_number. rewrite E. reflexivity. Qed.

(* the import conversion (after /repo 3c03706): whatever the text of <v>, the number is finite *)
Theorem import_number_finite t : nis_finite N (import_number N t) = true.
Proof.
  unfold import_number. destruct (nof_text_strict N _) as [v|]; [|exact Hzero].
  destruct (nis_finite N v) eqn:E; [exact E | exact Hzero].
Qed.
Theorem import_cell_finite c k t st : finite_store N st -> finite_store N (import_cell N c k t st).
Proof.
  intro Hst. apply finite_set_cont; [exact Hst|]. destruct k; cbn; apply import_number_finite.
Qed.

End Sink.

(* ---- the former refutations (F09, F09b), now examples of the guard; bounded toy numbers (overflow = non-finite) ---- *)
Definition bz (z : Z) : option Z := Some z.
Definition A1 : cref := mkref 0 1 1.
(* ={MAX,1}*10 as a dynamic formula in A1, spilling to B1 *)
Definition wb_array : workbook (num:=option Z) :=
  [(A1, CArrayFormula true 1 1 (EBin OMul (EArray [[SNum (bz zmax); SNum (bz 1)]]) (ENum (bz 10))) FUnevaluated)].
Lemma guarded_array_dynamic :
  no_nonfinite_b BOps [A1; mkref 0 1 2] (evaluate BOps [A1] wb_array) = true /\
  value_at (evaluate BOps [A1] wb_array) A1 = VErr ENUM /\ value_at (evaluate BOps [A1] wb_array) (mkref 0 1 2) = VNum (Some 10).
Proof. vm_compute. repeat split; reflexivity. Qed.
(* the same formula entered as a CSE formula over A1:B1 *)
Definition wb_cse : workbook (num:=option Z) :=
  [(A1, CArrayFormula false 2 1 (EBin OMul (EArray [[SNum (bz zmax); SNum (bz 1)]]) (ENum (bz 10))) FUnevaluated);
   (mkref 0 1 2, CString [])].
Lemma guarded_array_cse :
  no_nonfinite_b BOps [A1; mkref 0 1 2] (evaluate BOps [A1] wb_cse) = true /\
  value_at (evaluate BOps [A1] wb_cse) A1 = VErr ENUM /\ value_at (evaluate BOps [A1] wb_cse) (mkref 0 1 2) = VNum (Some 10).
Proof. vm_compute. repeat split; reflexivity. Qed.
(* a plain formula cell whose result is a 1x1 array: the coercion at model.rs:1066 *)
Definition wb_1x1 : workbook (num:=option Z) :=
  [(A1, CFormula (EBin OMul (EArray [[SNum (bz zmax)]]) (ENum (bz 10))) FUnevaluated)].
Lemma guarded_coerce_1x1 :
  no_nonfinite_b BOps [A1] (evaluate BOps [A1] wb_1x1) = true /\ value_at (evaluate BOps [A1] wb_1x1) A1 = VErr ENUM.
Proof. vm_compute. split; reflexivity. Qed.
(* the scalar form of the same computation is caught by the safety belt *)
Definition wb_scalar : workbook (num:=option Z) := [(A1, CFormula (EBin OMul (ENum (bz zmax)) (ENum (bz 10))) FUnevaluated)].
Lemma scalar_guard_example :
  value_at (evaluate BOps [A1] wb_scalar) A1 = VErr ENUM.
Proof. vm_compute. reflexivity. Qed.
(* typing a number the recogniser turns into a non-finite value ("9999999" > zmax): stored as text (was: stored
   as a non-finite number, finding F08, repaired by /repo 6e3cec0) *)
Lemma typed_overflow_is_text :
  cont (type_number BOps A1 [57;57;57;57;57;57;57] (store_of [])) A1 = CString [57;57;57;57;57;57;57] /\
  no_nonfinite_b BOps [A1] (type_number BOps A1 [57;57;57;57;57;57;57] (store_of [])) = true /\
  cont (type_number BOps A1 [57;57] (store_of [])) A1 = CNumber (Some 99).
Proof. vm_compute. repeat split; reflexivity. Qed.

(* the API and the importer on the toy numbers: an overflowing value is refused / read as 0 *)
Lemma api_import_examples :
  api_set_number BOps A1 None (store_of []) = None /\
  cont (import_cell BOps A1 ImpNumberCell (Some [57;57;57;57;57;57;57]) (store_of [])) A1 = CNumber (Some 0) /\
  cont (import_cell BOps A1 ImpNumberCell (Some [57;57]) (store_of [])) A1 = CNumber (Some 99) /\
  cont (import_cell BOps A1 ImpNumberCell None (store_of [])) A1 = CNumber (Some 0).
Proof. vm_compute. repeat split; reflexivity. Qed.
