(* Num/FormatPlace.v — the token walk of [format_number], [ParsePart::Number] branch
   (base/src/formatter/format.rs:474-654): from the digit vectors the float stage computed
   ([int_part], [fract_part], [exponent_part], [is_negative], [exponent_is_negative]) and the
   parsed format section ([NumberPart]: token list + counters) to the displayed text.
   Every vector index of the Rust code ([int_part[number_index as usize]], [int_part[i as usize]],
   [exponent_part[..]]) is a [get] that yields [Panic] when out of bounds; a negative i32 cast
   to usize is out of bounds too.  No proofs in this file. *)
From IronCalc Require Import Base.Prelude.

(* ---------- parsed format section (formatter/parser.rs) ---------- *)

Inductive nstate := NInt | NDec | NExp.          (* NumberState::{Integer,Decimal,Exponent} *)

Inductive token :=
| TLit (c : Z)                                    (* TextToken::Literal(c) *)
| TText (t : text)                                (* TextToken::Text(s) *)
| TBlank                                          (* Ghost(_) | Spacer(_): one blank *)
| TRaw                                            (* Raw: format!("{value}") — text supplied *)
| TPeriod
| TDigit (kind : Z) (index : Z) (st : nstate)     (* Digit { kind: '0'|'#'|'?', index, number } *)
| TOther.                                         (* date/time tokens: ignored by this branch *)

Record part := mkPart {
  p_thousands : bool;        (* use_thousands *)
  p_digit_count : Z;         (* digit tokens left of the decimal point *)
  p_exp_count : Z;           (* exponent_digit_count *)
  p_sci_minus : bool;        (* scientific_minus: "E-" format *)
  p_currency : option Z;     (* currency *)
  p_tokens : list token }.

(* what the walk reads from the locale *)
Record locale := mkLocale {
  l_group : Z;               (* decimal_formats.standard: 1 = "#,##0.###", 2 = "#,##,##0.###", 0 = anything else *)
  l_gsep : text;             (* symbols.group *)
  l_dsep : text }.           (* symbols.decimal *)

(* what the float stage hands to the walk *)
Record digits := mkDigits {
  d_neg : bool;              (* is_negative *)
  d_int : text;              (* int_part *)
  d_frac : text;             (* fract_part *)
  d_exp : text;              (* exponent_part *)
  d_expneg : bool;           (* exponent_is_negative *)
  d_raw : text }.            (* format!("{value}") for TextToken::Raw *)

Definition zlen (t : text) : Z := Z.of_nat (length t).

(* v[i as usize] for an i32 i *)
Definition get (v : text) (i : Z) : outcome Z :=
  if i <? 0 then Panic
  else match nth_error v (Z.to_nat i) with Some c => Ok c | None => Panic end.

(* total reading used by the specification *)
Definition getd (v : text) (i : Z) : Z := nth (Z.to_nat i) v 0.

(* format.rs:43 use_group_separator *)
Definition use_group_separator (use_thousands : bool) (digit_index : Z) (group : Z) : bool :=
  if use_thousands then
    if group =? 1 then (1 <? digit_index) && ((digit_index - 1) mod 3 =? 0)
    else if group =? 2 then (digit_index =? 3) || ((3 <? digit_index) && (digit_index mod 2 =? 0))
    else false
  else false.

Definition sep_at (p : part) (loc : locale) (remaining : Z) : text :=
  if use_group_separator (p_thousands p) remaining (l_group loc) then l_gsep loc else [].

(* for i in from .. from+n { text = text ++ int_part[i] ++ sep(ln - i) }   (format.rs:537-549) *)
Fixpoint int_run (p : part) (loc : locale) (ip : text) (n : nat) (from : Z) (acc : text) : outcome text :=
  match n with
  | O => Ok acc
  | S n' =>
      match get ip from with
      | Ok c => int_run p loc ip n' (from + 1) (acc ++ c :: sep_at p loc (zlen ip - from))
      | _ => Panic
      end
  end.

(* for i in from .. from+n { text = text ++ exponent_part[i] }   (format.rs:611-613) *)
Fixpoint exp_run (ep : text) (n : nat) (from : Z) (acc : text) : outcome text :=
  match n with
  | O => Ok acc
  | S n' =>
      match get ep from with
      | Ok c => exp_run ep n' (from + 1) (acc ++ [c])
      | _ => Panic
      end
  end.

(* state of the walk: text so far, digit_index, needs_period *)
Record wstate := mkW { w_text : text; w_di : Z; w_np : bool }.

Definition step_int (p : part) (loc : locale) (d : digits) (kind index : Z) (s : wstate) : outcome wstate :=
  let ln := zlen (d_int d) in
  let dc := p_digit_count p in
  let number_index := ln - dc + index in
  let text := if (index =? 0) && d_neg d then 45 :: w_text s else w_text s in
  if ln <=? dc then
    if (number_index <? 0) && (kind =? 35) then Ok (mkW text (w_di s + 1) (w_np s))
    else
      match (if number_index <? 0 then Ok (if kind =? 48 then 48 else 32) else get (d_int d) number_index) with
      | Ok c => Ok (mkW (text ++ c :: sep_at p loc (ln - w_di s)) (w_di s + 1) (w_np s))
      | _ => Panic
      end
  else
    match int_run p loc (d_int d) (Z.to_nat (number_index + 1 - w_di s)) (w_di s) text with
    | Ok t => Ok (mkW t (number_index + 1) (w_np s))
    | _ => Panic
    end.

Definition step_dec (loc : locale) (d : digits) (kind index : Z) (s : wstate) : outcome wstate :=
  let text := w_text s in
  let pre := if w_np s then l_dsep loc else [] in
  (* digit.index as usize: a negative index becomes huge, hence not < len *)
  if (0 <=? index) && (index <? zlen (d_frac d)) then
    match get (d_frac d) index with
    | Ok c => Ok (mkW (text ++ pre ++ [c]) (w_di s) false)
    | _ => Panic
    end
  else if kind =? 48 then Ok (mkW (text ++ pre ++ [48]) (w_di s) false)
  else if kind =? 63 then Ok (mkW (text ++ [32]) (w_di s) false)
  else if (kind =? 35) && w_np s then Ok (mkW (text ++ l_dsep loc) (w_di s) false)
  else Ok (mkW text (w_di s) false).

Definition exp_mark (p : part) (d : digits) : text :=
  if d_expneg d then [69; 45] else if p_sci_minus p then [69] else [69; 43].

Definition step_exp (p : part) (d : digits) (kind index : Z) (s : wstate) : outcome wstate :=
  let l_exp := zlen (d_exp d) in
  let ec := p_exp_count p in
  let text := if index =? 0 then w_text s ++ exp_mark p d else w_text s in
  let number_index := l_exp - (ec - index) in
  if l_exp <=? ec then
    if (number_index <? 0) && (kind =? 35) then Ok (mkW text (w_di s) (w_np s))
    else
      match (if number_index <? 0 then Ok (if kind =? 63 then 32 else 48) else get (d_exp d) number_index) with
      | Ok c => Ok (mkW (text ++ [c]) (w_di s) (w_np s))
      | _ => Panic
      end
  else
    match exp_run (d_exp d) (Z.to_nat (number_index + 1)) 0 text with
    | Ok t => Ok (mkW t (w_di s + (number_index + 1)) (w_np s))
    | _ => Panic
    end.

Definition step (p : part) (loc : locale) (d : digits) (tok : token) (s : wstate) : outcome wstate :=
  match tok with
  | TLit c => Ok (mkW (w_text s ++ [c]) (w_di s) (w_np s))
  | TText t => Ok (mkW (w_text s ++ t) (w_di s) (w_np s))
  | TBlank => Ok (mkW (w_text s ++ [32]) (w_di s) (w_np s))
  | TRaw => Ok (mkW (w_text s ++ d_raw d) (w_di s) (w_np s))
  | TPeriod => Ok (mkW (w_text s) (w_di s) true)
  | TDigit kind index NInt => step_int p loc d kind index s
  | TDigit kind index NDec => step_dec loc d kind index s
  | TDigit kind index NExp => step_exp p d kind index s
  | TOther => Ok s
  end.

Fixpoint walk (p : part) (loc : locale) (d : digits) (toks : list token) (s : wstate) : outcome wstate :=
  match toks with
  | [] => Ok s
  | tok :: rest =>
      match step p loc d tok s with
      | Ok s' => walk p loc d rest s'
      | Err => Err
      | Panic => Panic
      end
  end.

Definition currency_text (p : part) : text :=
  match p_currency p with Some c => [c] | None => [] end.

(* the [ParsePart::Number] arm from "let mut text" to the returned text *)
Definition place (p : part) (loc : locale) (d : digits) : outcome text :=
  match walk p loc d (p_tokens p) (mkW (currency_text p) 0 false) with
  | Ok s => Ok (w_text s)
  | Err => Err
  | Panic => Panic
  end.

(* ---------- well-formedness of the parser's output (checked on every generated format) ----------
   Integer digit tokens carry the indices 0,1,..,digit_count-1 in this order and none follows an
   exponent digit; exponent digit tokens carry 0,..,exponent_digit_count-1; a decimal digit token
   has index 0 exactly when a Period was seen since the previous decimal digit; kinds are '0' '#' '?'.
   State of the checker: next integer index, next exponent index, needs_period. *)
Definition kind_ok (k : Z) : bool := (k =? 48) || (k =? 35) || (k =? 63).

Fixpoint wf_walk (p : part) (toks : list token) (ni ne : Z) (np : bool) : bool :=
  match toks with
  | [] => (ni =? p_digit_count p) && (ne =? p_exp_count p)
  | TDigit k i NInt :: r =>
      kind_ok k && (i =? ni) && (ne =? 0) && (i <? p_digit_count p) && wf_walk p r (ni + 1) ne np
  | TDigit k i NDec :: r => kind_ok k && (0 <=? i) && Bool.eqb np (i =? 0) && wf_walk p r ni ne false
  | TDigit k i NExp :: r => kind_ok k && (i =? ne) && (i <? p_exp_count p) && wf_walk p r ni (ne + 1) np
  | TPeriod :: r => wf_walk p r ni ne true
  | _ :: r => wf_walk p r ni ne np
  end.

Definition wf_part (p : part) : bool := wf_walk p (p_tokens p) 0 0 false.

(* ---------- specification of the placement: one closed form per token ---------- *)

(* digits from .. from+n-1 of the integer part, each followed by a group separator when the number
   of digits from it to the units digit, itself included, is 4, 7, 10, ... *)
Fixpoint spec_run (p : part) (loc : locale) (ip : text) (n : nat) (from : Z) : text :=
  match n with
  | O => []
  | S n' => getd ip from :: sep_at p loc (zlen ip - from) ++ spec_run p loc ip n' (from + 1)
  end.

Definition pad_char (kind : Z) : text :=
  if kind =? 35 then [] else if kind =? 48 then [48] else [32].

(* the i-th of dc integer placeholders *)
Definition spec_int (p : part) (loc : locale) (d : digits) (kind i : Z) : text :=
  let ln := zlen (d_int d) in
  let dc := p_digit_count p in
  if ln <=? dc then
    let j := ln - dc + i in
    if j <? 0 then
      (* padding position: dc - i positions remain to the units digit *)
      if kind =? 35 then [] else pad_char kind ++ sep_at p loc (dc - i)
    else getd (d_int d) j :: sep_at p loc (ln - j)
  else
    (* more digits than placeholders: the first placeholder takes the surplus *)
    if i =? 0 then spec_run p loc (d_int d) (Z.to_nat (ln - dc + 1)) 0
    else spec_run p loc (d_int d) 1 (ln - dc + i).

(* the i-th decimal placeholder; the decimal separator comes with the first one *)
Definition spec_dec (loc : locale) (d : digits) (kind i : Z) : text :=
  let pre := if i =? 0 then l_dsep loc else [] in
  if i <? zlen (d_frac d) then pre ++ [getd (d_frac d) i]
  else pre ++ pad_char kind.

Fixpoint exp_digits (ep : text) (n : nat) (from : Z) : text :=
  match n with
  | O => []
  | S n' => getd ep from :: exp_digits ep n' (from + 1)
  end.

(* the i-th of ec exponent placeholders; the mark E+ / E- / E comes with the first one *)
Definition spec_exp (p : part) (d : digits) (kind i : Z) : text :=
  let l_exp := zlen (d_exp d) in
  let ec := p_exp_count p in
  let mark := if i =? 0 then exp_mark p d else [] in
  if l_exp <=? ec then
    let j := l_exp - ec + i in
    if j <? 0 then mark ++ (if kind =? 35 then [] else if kind =? 63 then [32] else [48])
    else mark ++ [getd (d_exp d) j]
  else
    if i =? 0 then mark ++ exp_digits (d_exp d) (Z.to_nat (l_exp - ec + 1)) 0
    else [getd (d_exp d) (l_exp - ec + i)].

Definition spec_token (p : part) (loc : locale) (d : digits) (tok : token) : text :=
  match tok with
  | TLit c => [c]
  | TText t => t
  | TBlank => [32]
  | TRaw => d_raw d
  | TPeriod => []
  | TDigit kind i NInt => spec_int p loc d kind i
  | TDigit kind i NDec => spec_dec loc d kind i
  | TDigit kind i NExp => spec_exp p d kind i
  | TOther => []
  end.

(* sign first (when there is an integer placeholder to attach it to), then the currency symbol,
   then every token's text in the order of the format *)
Definition spec_place (p : part) (loc : locale) (d : digits) : text :=
  (if d_neg d && (0 <? p_digit_count p) then [45] else [])
  ++ currency_text p ++ flat_map (spec_token p loc d) (p_tokens p).

(* ---------- the three places where the code departs from [spec_place] ---------- *)

(* grouping is decided by [ln - digit_index] (token count) instead of the position of the digit:
   right only when there are at least as many digits as placeholders *)
Definition group_ok (p : part) (loc : locale) (d : digits) : bool :=
  negb (p_thousands p) || (p_digit_count p <=? zlen (d_int d)) || negb ((l_group loc =? 1) || (l_group loc =? 2)).

(* with more exponent digits than placeholders every placeholder re-emits the digits from 0 *)
Definition exp_ok (p : part) (d : digits) : bool :=
  (zlen (d_exp d) <=? p_exp_count p) || (p_exp_count p <=? 1).

(* a '?' decimal placeholder with no digit to show emits a blank without the pending separator *)
Fixpoint qperiod_ok_toks (d : digits) (toks : list token) : bool :=
  match toks with
  | [] => true
  | TDigit kind i NDec :: r =>
      negb ((kind =? 63) && (i =? 0) && negb (i <? zlen (d_frac d))) && qperiod_ok_toks d r
  | _ :: r => qperiod_ok_toks d r
  end.
Definition qperiod_ok (p : part) (d : digits) : bool := qperiod_ok_toks d (p_tokens p).

(* ---------- components of the statement, as functions on token lists ---------- *)

(* the integer digits a token shows, without padding and separators *)
Definition int_digits_of (p : part) (d : digits) (tok : token) : text :=
  match tok with
  | TDigit _ i NInt =>
      let ln := zlen (d_int d) in
      let dc := p_digit_count p in
      if ln <=? dc then (if ln - dc + i <? 0 then [] else [getd (d_int d) (ln - dc + i)])
      else if i =? 0 then exp_digits (d_int d) (Z.to_nat (ln - dc + 1)) 0
      else [getd (d_int d) (ln - dc + i)]
  | _ => []
  end.

(* literal material of a format, in order *)
Definition literal_of (d : digits) (tok : token) : text :=
  match tok with
  | TLit c => [c] | TText t => t | TBlank => [32] | TRaw => d_raw d | _ => []
  end.
