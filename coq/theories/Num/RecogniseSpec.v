(* Num/RecogniseSpec.v — the grammar of property C19's statement, written independently of the
   implementation's scanning loop: the text is CUT at the exponent marker, at the decimal
   separator and at the group separators, and every piece is checked on its own.

     number  ::= [sign] mantissa [ (e|E) [sign] digits+ ]
     mantissa::= intpart [ D digits* ]  |  D digits+          (at least one digit overall)
     intpart ::= digits+  |  d{1,3} (G ddd)+
     typed   ::= blanks* ( number blanks* '%' | '-' cur blanks* unsigned-number
                         | cur blanks* number | number blanks* cur | number ) blanks*

   Where the statement is silent (surrounding blanks, a blank between number and symbol, "1.",
   ".5", leading zeros, which side of the currency symbol a sign may stand, which of two symbols is
   looked at first) the spec follows the implementation, so that only contradictions of the text of
   the property are reported. Dates are not part of this grammar (see RecogniseProofs). *)
From IronCalc Require Import Base.Prelude Base.Dec Num.Recognise.

Inductive affix : Type := ANone | APercent | ACurrency (sym : text) (prefix : bool).

Record sdesc : Type := {
  s_neg : bool;        (* the number is negative (one sign, wherever it may stand) *)
  s_int : text;        (* integer digits, separators removed *)
  s_frac : text;       (* fraction digits *)
  s_has_exp : bool;
  s_exp : Z;           (* value of the exponent, 0 if absent *)
  s_grouped : bool;
  s_affix : affix
}.

(* cut at the first character satisfying p *)
Fixpoint break_at (p : Z -> bool) (t : text) : text * option text :=
  match t with
  | [] => ([], None)
  | c :: r => if p c then ([], Some r) else let '(a, b) := break_at p r in (c :: a, b)
  end.

Definition is_e (c : Z) : bool := (c =? c_e) || (c =? c_E).

Definition spec_exponent (ex : option text) : option (bool * Z) :=
  match ex with
  | None => Some (false, 0)
  | Some et =>
      let '(eneg, ed) := match et with
                         | c :: r => if c =? c_minus then (true, r) else if c =? c_plus then (false, r) else (false, et)
                         | [] => (false, [])
                         end in
      match ed with
      | [] => None
      | _ :: _ => if all_digits ed then Some (true, if eneg then - dec_val 0 ed else dec_val 0 ed) else None
      end
  end.

Definition group3 (g : text) : bool := all_digits g && (len g =? 3).

(* integer part: plain digits, or a first group of 1-3 digits followed by groups of exactly 3 *)
Definition spec_intpart (grp : Z) (ip : text) : option (text * bool) :=
  if mem grp ip then
    match split_on grp ip with
    | g0 :: g1 :: gs =>
        if all_digits g0 && (1 <=? len g0) && (len g0 <=? 3) && forallb group3 (g1 :: gs)
        then Some (g0 ++ concat (g1 :: gs), true) else None
    | _ => None
    end
  else if all_digits ip then Some (ip, false) else None.

Definition spec_unsigned (dec grp : Z) (neg : bool) (af : affix) (body : text) : option sdesc :=
  let '(mant, ex) := break_at is_e body in
  match spec_exponent ex with
  | None => None
  | Some (has_exp, e) =>
      let '(ip, fr) := break_at (fun c => c =? dec) mant in
      let frac := match fr with Some f => f | None => [] end in
      if negb (all_digits frac) then None else
      match spec_intpart grp ip with
      | None => None
      | Some (ints, grouped) =>
          match ints ++ frac with
          | [] => None
          | _ :: _ =>
              Some {| s_neg := neg; s_int := ints; s_frac := frac; s_has_exp := has_exp; s_exp := e;
                      s_grouped := grouped; s_affix := af |}
          end
      end
  end.

Definition spec_signed (dec grp : Z) (af : affix) (body : text) : option sdesc :=
  match body with
  | [] => None
  | c :: r =>
      if c =? c_minus then spec_unsigned dec grp true af r
      else if c =? c_plus then spec_unsigned dec grp false af r
      else spec_unsigned dec grp false af body
  end.

(* which symbol, where: 0 = "-cur" prefix, 1 = "cur" prefix, 2 = "cur" suffix; and what remains *)
Fixpoint find_currency (curs : list text) (v : text) : option (text * Z * text) :=
  match curs with
  | [] => None
  | c :: r =>
      match strip_prefix (c_minus :: c) v with
      | Some b => Some (c, 0, b)
      | None =>
          match strip_prefix c v with
          | Some b => Some (c, 1, b)
          | None =>
              match strip_suffix c v with
              | Some b => Some (c, 2, b)
              | None => find_currency r v
              end
          end
      end
  end.

Definition spec_recognise (L : locale) (t : text) : option sdesc :=
  let v := trim t in
  let dec := l_dec L in
  let grp := l_grp L in
  match strip_suffix [c_pct] v with
  | Some b => spec_signed dec grp APercent (trim b)
  | None =>
      match find_currency (l_cur L) v with
      | Some (c, mode, b) =>
          if mode =? 0 then spec_unsigned dec grp true (ACurrency c true) (trim b)
          else if mode =? 1 then spec_signed dec grp (ACurrency c true) (trim b)
          else spec_signed dec grp (ACurrency c false) (trim b)
      | None => spec_signed dec grp ANone v
      end
  end.

(* ---------- when a model result and a spec description say the same ---------- *)
Definition exp_value (ex : text) : Z := lit_exp ex.

(* a number a cell can hold: its magnitude is below the binary64 overflow threshold
   2^1024 - 2^970 (exact integer comparison, see Recognise.dec_overflows); a typed numeral beyond
   it cannot be "stored as that number" and stays text *)
Definition spec_representable (d : sdesc) : bool := negb (dec_overflows (s_int d) (s_frac d) (s_exp d)).
Definition spec_stored (L : locale) (t : text) : option sdesc :=
  match spec_recognise L t with
  | Some d => if spec_representable d then Some d else None
  | None => None
  end.

Definition affix_of_kind (k : kind) : option affix :=
  match k with
  | KPlain | KGrouped | KScientific => Some ANone
  | KPercent => Some APercent
  | KCurrency c p => Some (ACurrency c p)
  | KDate => None
  end.

Definition affix_eqb (a b : affix) : bool :=
  match a, b with
  | ANone, ANone => true
  | APercent, APercent => true
  | ACurrency c p, ACurrency c' p' => text_eqb c c' && Bool.eqb p p'
  | _, _ => false
  end.

(* everything but the sign *)
Definition agrees_core (r : recog) (d : sdesc) : bool :=
  match r_value r with
  | VSerial _ => false
  | VNum p pct oneg =>
      text_eqb (p_int p) (s_int d) && text_eqb (p_frac p) (s_frac d) &&
      Bool.eqb (p_sci p) (s_has_exp d) && (exp_value (p_exp p) =? s_exp d) &&
      Bool.eqb (p_commas p) (s_grouped d) &&
      Bool.eqb pct (affix_eqb (s_affix d) APercent) &&
      match affix_of_kind (r_kind r) with
      | Some a => affix_eqb a (s_affix d)
      | None => false
      end
  end.
(* the sign of the stored number: sign * v, negated once more in the "-cur" branch *)
Definition agrees_sign (r : recog) (d : sdesc) : bool :=
  match r_value r with
  | VSerial _ => false
  | VNum p pct oneg => Bool.eqb (xorb (p_neg p) oneg) (s_neg d)
  end.
Definition agrees (r : recog) (d : sdesc) : bool := agrees_sign r d && agrees_core r d.

(* ---------- the known defect classes, as predicates on the input text ---------- *)
Definition strip_sign (b : text) : text :=
  match b with
  | c :: r => if (c =? c_minus) || (c =? c_plus) then r else b
  | [] => []
  end.
Fixpoint take_run (grp : Z) (t : text) : text :=
  match t with
  | c :: r => if is_digit c || (c =? grp) then c :: take_run grp r else []
  | [] => []
  end.

(* the text that is handed to the number grammar, and whether a sign is still allowed in it *)
Definition number_body (L : locale) (t : text) : text * bool :=
  let v := trim t in
  match strip_suffix [c_pct] v with
  | Some b => (trim b, true)
  | None =>
      match find_currency (l_cur L) v with
      | Some (_, mode, b) => (trim b, negb (mode =? 0))
      | None => (v, true)
      end
  end.

(* F07a: the run of digits and group separators that starts the number contains a separator
   and is not  d{1,3}(G ddd)+  *)
Definition ill_grouped (L : locale) (t : text) : bool :=
  let '(b, _) := number_body L t in
  let run := take_run (l_grp L) (strip_sign b) in
  mem (l_grp L) run &&
  match spec_intpart (l_grp L) run with Some _ => false | None => true end.

(* F07b: "-cur" followed by a second sign *)
Definition double_sign (L : locale) (t : text) : bool :=
  let '(b, signed) := number_body L t in
  negb signed && match b with c :: _ => (c =? c_minus) || (c =? c_plus) | [] => false end.

Definition k_groups : text := [103; 114; 111; 117; 112; 115].             (* groups *)
Definition k_dsign : text := [100; 115; 105; 103; 110].                   (* dsign *)

Definition known_class (L : locale) (t : text) : option text :=
  if double_sign L t then Some k_dsign
  else if ill_grouped L t then Some k_groups
  else None.
