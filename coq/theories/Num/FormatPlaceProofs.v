(* Num/FormatPlaceProofs.v — theorems about the token walk of format_number (Num/FormatPlace.v):
   no index of the walk is out of bounds on the parser's output, and outside three explicitly
   delimited situations the walk prints exactly the closed-form placement [spec_place]. *)
From IronCalc Require Import Base.Prelude Num.FormatPlace.

(* ---------- reading vectors ---------- *)

Lemma get_ok v i : 0 <= i < zlen v -> get v i = Ok (getd v i).
Proof.
  intros [H0 H1]. unfold get, getd, zlen in *.
  destruct (i <? 0) eqn:E; [apply Z.ltb_lt in E; lia|].
  destruct (nth_error v (Z.to_nat i)) eqn:N.
  - f_equal. symmetry. apply nth_error_nth. exact N.
  - apply nth_error_None in N. lia.
Qed.

Lemma int_run_ok p loc ip n : forall from acc,
  0 <= from -> from + Z.of_nat n <= zlen ip ->
  int_run p loc ip n from acc = Ok (acc ++ spec_run p loc ip n from).
Proof.
  induction n as [|n IH]; intros from acc H0 H1; cbn [int_run spec_run].
  - rewrite app_nil_r. reflexivity.
  - rewrite get_ok by lia. rewrite IH by lia.
    f_equal. rewrite <- app_assoc. reflexivity.
Qed.

Lemma exp_run_ok ep n : forall from acc,
  0 <= from -> from + Z.of_nat n <= zlen ep ->
  exp_run ep n from acc = Ok (acc ++ exp_digits ep n from).
Proof.
  induction n as [|n IH]; intros from acc H0 H1; cbn [exp_run exp_digits].
  - rewrite app_nil_r. reflexivity.
  - rewrite get_ok by lia. rewrite IH by lia.
    f_equal. rewrite <- app_assoc. reflexivity.
Qed.

(* ---------- grouping: where the code's count and the position agree ---------- *)

Lemma sep_eq p loc d a :
  group_ok p loc d = true -> zlen (d_int d) <= p_digit_count p ->
  sep_at p loc (zlen (d_int d) - a) = sep_at p loc (p_digit_count p - a).
Proof.
  unfold group_ok, sep_at, use_group_separator. intros G L.
  destruct (p_thousands p); [|reflexivity].
  cbn [negb orb] in G.
  destruct (p_digit_count p <=? zlen (d_int d)) eqn:E.
  - apply Z.leb_le in E. replace (zlen (d_int d)) with (p_digit_count p) by lia. reflexivity.
  - cbn [orb] in G. destruct (l_group loc =? 1); [discriminate|].
    destruct (l_group loc =? 2); [discriminate|]. reflexivity.
Qed.

Ltac parts := split; [try reflexivity; try lia | split; [try reflexivity; try lia |]].

(* ---------- the invariant of the walk ---------- *)

Section Walk.
Variables (p : part) (loc : locale) (d : digits).

Let ln := zlen (d_int d).
Let dc := p_digit_count p.

(* digit_index after n integer placeholders *)
Definition di_of (n : Z) : Z :=
  if ln <=? dc then n else if n =? 0 then 0 else ln - dc + n.

Definition sign_of (n : Z) : text :=
  if (n =? 0) && d_neg d && (0 <? dc) then [45] else [].

Lemma step_int_spec kind s n :
  0 <= n < dc -> w_di s = di_of n ->
  exists s', step_int p loc d kind n s = Ok s' /\
    w_di s' = di_of (n + 1) /\ w_np s' = w_np s /\
    (group_ok p loc d = true ->
     w_text s' = sign_of n ++ w_text s ++ spec_int p loc d kind n).
Proof.
  intros Hn Hdi. unfold step_int, spec_int, di_of, sign_of in *. fold ln dc.
  assert (Hsign : (if (n =? 0) && d_neg d then 45 :: w_text s else w_text s)
                  = (if (n =? 0) && d_neg d && (0 <? dc) then [45] else []) ++ w_text s).
  { destruct (n =? 0) eqn:E0; cbn [andb]; [|reflexivity].
    apply Z.eqb_eq in E0. destruct (d_neg d); cbn [andb]; [|reflexivity].
    replace (0 <? dc) with true by (symmetry; apply Z.ltb_lt; lia). reflexivity. }
  rewrite Hsign. clear Hsign.
  set (sg := (if (n =? 0) && d_neg d && (0 <? dc) then [45] else [])).
  assert (Hn1 : (n + 1 =? 0) = false) by (apply Z.eqb_neq; lia).
  destruct (ln <=? dc) eqn:EL.
  - apply Z.leb_le in EL. rewrite Hdi.
    destruct (ln - dc + n <? 0) eqn:EJ.
    + destruct (kind =? 35) eqn:EK; cbn [andb].
      * eexists; split; [reflexivity|]. cbn [w_di w_np w_text].
        parts. intros _. rewrite app_nil_r. reflexivity.
      * eexists; split; [reflexivity|]. cbn [w_di w_np w_text].
        parts. intros G. unfold pad_char. rewrite EK.
        rewrite <- app_assoc. f_equal. f_equal.
        unfold ln, dc. rewrite (sep_eq p loc d n G EL).
        destruct (kind =? 48); reflexivity.
    + apply Z.ltb_ge in EJ. cbn [andb].
      rewrite get_ok by (fold ln; lia).
      eexists; split; [reflexivity|]. cbn [w_di w_np w_text].
      parts. intros G. rewrite <- app_assoc. f_equal. f_equal. f_equal.
      unfold ln, dc. rewrite (sep_eq p loc d n G EL).
      f_equal. lia.
  - apply Z.leb_gt in EL.
    destruct (n =? 0) eqn:E0.
    + apply Z.eqb_eq in E0. subst n. rewrite Hdi.
      rewrite int_run_ok by (fold ln; lia).
      eexists; split; [reflexivity|]. cbn [w_di w_np w_text]. rewrite Hn1.
      parts. intros _. rewrite <- app_assoc. f_equal. f_equal. f_equal. f_equal. lia.
    + apply Z.eqb_neq in E0. rewrite Hdi.
      replace (Z.to_nat (ln - dc + n + 1 - (ln - dc + n))) with 1%nat by lia.
      rewrite int_run_ok by (fold ln; lia).
      eexists; split; [reflexivity|]. cbn [w_di w_np w_text]. rewrite Hn1.
      parts. intros _. rewrite <- app_assoc. reflexivity.
Qed.

Lemma step_dec_spec kind i s :
  kind_ok kind = true -> 0 <= i -> w_np s = (i =? 0) ->
  exists s', step_dec loc d kind i s = Ok s' /\
    w_di s' = w_di s /\ w_np s' = false /\
    (negb ((kind =? 63) && (i =? 0) && negb (i <? zlen (d_frac d))) = true ->
     w_text s' = w_text s ++ spec_dec loc d kind i).
Proof.
  intros K Hi Hnp. unfold step_dec, spec_dec. rewrite Hnp.
  replace (0 <=? i) with true by (symmetry; apply Z.leb_le; lia). cbn [andb].
  destruct (i <? zlen (d_frac d)) eqn:EI.
  - apply Z.ltb_lt in EI. rewrite get_ok by lia.
    eexists; split; [reflexivity|]. cbn [w_di w_np w_text]. parts. intros _. reflexivity.
  - unfold kind_ok in K. unfold pad_char.
    destruct (kind =? 48) eqn:K0.
    + apply Z.eqb_eq in K0. subst kind. cbn [Z.eqb Pos.eqb].
      eexists; split; [reflexivity|]. cbn [w_di w_np w_text]. parts. intros _. reflexivity.
    + destruct (kind =? 63) eqn:K1.
      * apply Z.eqb_eq in K1. subst kind. cbn [Z.eqb Pos.eqb].
        eexists; split; [reflexivity|]. cbn [w_di w_np w_text]. parts.
        intros Q. cbn [andb negb] in Q. destruct (i =? 0); [discriminate|]. reflexivity.
      * destruct (kind =? 35) eqn:K2; [|discriminate]. cbn [andb].
        destruct (i =? 0); eexists; (split; [reflexivity|]); cbn [w_di w_np w_text]; parts;
          intros _; rewrite ?app_nil_r; reflexivity.
Qed.

Lemma step_exp_spec kind s n :
  0 <= n < p_exp_count p -> 0 <= w_di s ->
  exists s', step_exp p d kind n s = Ok s' /\
    0 <= w_di s' /\ w_np s' = w_np s /\
    (exp_ok p d = true -> w_text s' = w_text s ++ spec_exp p d kind n).
Proof.
  intros Hn Hdi. unfold step_exp, spec_exp, exp_ok.
  set (le := zlen (d_exp d)). set (ec := p_exp_count p). fold ec in Hn.
  replace (le - (ec - n)) with (le - ec + n) by lia.
  assert (Hmark : (if n =? 0 then w_text s ++ exp_mark p d else w_text s)
                  = w_text s ++ (if n =? 0 then exp_mark p d else [])).
  { destruct (n =? 0); [reflexivity | rewrite app_nil_r; reflexivity]. }
  rewrite Hmark. clear Hmark.
  destruct (le <=? ec) eqn:EL.
  - apply Z.leb_le in EL.
    destruct (le - ec + n <? 0) eqn:EJ.
    + destruct (kind =? 35) eqn:EK; cbn [andb].
      * eexists; split; [reflexivity|]. cbn [w_di w_np w_text]. parts.
        intros _. rewrite app_nil_r. reflexivity.
      * eexists; split; [reflexivity|]. cbn [w_di w_np w_text]. parts.
        intros _. rewrite <- app_assoc. destruct (kind =? 63); reflexivity.
    + apply Z.ltb_ge in EJ. cbn [andb].
      rewrite get_ok by (fold le; lia).
      eexists; split; [reflexivity|]. cbn [w_di w_np w_text]. parts.
      intros _. rewrite <- app_assoc. reflexivity.
  - apply Z.leb_gt in EL.
    rewrite exp_run_ok by (fold le; lia).
    eexists; split; [reflexivity|]. cbn [w_di w_np w_text]. parts.
    cbn [orb]. intros E. apply Z.leb_le in E.
    assert (n = 0) by lia. subst n. cbn [Z.eqb].
    rewrite <- app_assoc. f_equal. f_equal. f_equal. lia.
Qed.

Lemma sign_of_succ n : 0 <= n -> sign_of (n + 1) = [].
Proof.
  intro H. unfold sign_of. replace (n + 1 =? 0) with false by (symmetry; apply Z.eqb_neq; lia). reflexivity.
Qed.

(* the walk over a well-formed token list never fails, and under the three side conditions
   prints the closed form *)
Lemma walk_spec : forall toks s n ne np,
  wf_walk p toks n ne np = true ->
  0 <= n -> 0 <= ne -> 0 <= w_di s -> (ne = 0 -> w_di s = di_of n) -> w_np s = np ->
  exists s', walk p loc d toks s = Ok s' /\
    (group_ok p loc d = true -> exp_ok p d = true -> qperiod_ok_toks d toks = true ->
     w_text s' = sign_of n ++ w_text s ++ flat_map (spec_token p loc d) toks).
Proof.
  induction toks as [|tok toks IH]; intros s n ne np W Hn Hne Hdi Hinv Hnp.
  - cbn [walk flat_map]. eexists; split; [reflexivity|]. intros _ _ _.
    cbn [wf_walk] in W. apply andb_true_iff in W as [W1 _]. apply Z.eqb_eq in W1.
    unfold sign_of. fold dc in W1.
    destruct (n =? 0) eqn:E0.
    + apply Z.eqb_eq in E0. replace (0 <? dc) with false by (symmetry; apply Z.ltb_ge; lia).
      rewrite andb_false_r, app_nil_r. reflexivity.
    + rewrite app_nil_r. reflexivity.
  - (* tokens that only append text, or nothing *)
    assert (Happend : forall t, (forall ni ne np, wf_walk p (tok :: toks) ni ne np = wf_walk p toks ni ne np) ->
              step p loc d tok s = Ok (mkW (w_text s ++ t) (w_di s) (w_np s)) ->
              spec_token p loc d tok = t -> qperiod_ok_toks d (tok :: toks) = qperiod_ok_toks d toks ->
              exists s', walk p loc d (tok :: toks) s = Ok s' /\
                (group_ok p loc d = true -> exp_ok p d = true -> qperiod_ok_toks d (tok :: toks) = true ->
                 w_text s' = sign_of n ++ w_text s ++ flat_map (spec_token p loc d) (tok :: toks))).
    { intros t HW HS HT HQ. rewrite HW in W. cbn [walk]. rewrite HS.
      destruct (IH (mkW (w_text s ++ t) (w_di s) (w_np s)) n ne np W Hn Hne Hdi Hinv Hnp) as [s' [E T]].
      exists s'. split; [exact E|]. intros G X Q. rewrite HQ in Q. rewrite (T G X Q).
      cbn [w_text flat_map]. rewrite HT. rewrite <- app_assoc. reflexivity. }
    destruct tok as [c|t| | | |kind i st|].
    + apply (Happend [c]); reflexivity.
    + apply (Happend t); reflexivity.
    + apply (Happend [32]); reflexivity.
    + apply (Happend (d_raw d)); reflexivity.
    + (* Period *)
      cbn [wf_walk] in W. cbn [walk step].
      destruct (IH (mkW (w_text s) (w_di s) true) n ne true W Hn Hne Hdi Hinv eq_refl) as [s' [E T]].
      exists s'. split; [exact E|]. intros G X Q. cbn [qperiod_ok_toks] in Q. rewrite (T G X Q). reflexivity.
    + destruct st.
      * (* integer placeholder *)
        cbn [wf_walk] in W.
        apply andb_true_iff in W as [W W5]. apply andb_true_iff in W as [W W4].
        apply andb_true_iff in W as [W W3]. apply andb_true_iff in W as [W1 W2].
        apply Z.eqb_eq in W2, W3. apply Z.ltb_lt in W4. subst i ne.
        destruct (step_int_spec kind s n ltac:(fold dc in W4; lia) (Hinv eq_refl)) as [s1 [E1 [D1 [N1 T1]]]].
        cbn [walk step]. rewrite E1.
        destruct (IH s1 (n + 1) 0 np W5 ltac:(lia) ltac:(lia)
                    ltac:(rewrite D1; unfold di_of; destruct (ln <=? dc) eqn:EL;
                          [lia | replace (n + 1 =? 0) with false by (symmetry; apply Z.eqb_neq; lia);
                                 apply Z.leb_gt in EL; lia])
                    (fun _ => D1) ltac:(congruence)) as [s' [E T]].
        exists s'. split; [exact E|]. intros G X Q. cbn [qperiod_ok_toks] in Q.
        rewrite (T G X Q), (T1 G), sign_of_succ by lia.
        cbn [flat_map spec_token app]. rewrite <- !app_assoc. reflexivity.
      * (* decimal placeholder *)
        cbn [wf_walk] in W.
        apply andb_true_iff in W as [W W4]. apply andb_true_iff in W as [W W3].
        apply andb_true_iff in W as [W1 W2]. apply Z.leb_le in W2. apply eqb_prop in W3.
        destruct (step_dec_spec kind i s W1 W2 ltac:(congruence)) as [s1 [E1 [D1 [N1 T1]]]].
        cbn [walk step]. rewrite E1.
        destruct (IH s1 n ne false W4 Hn Hne ltac:(lia) ltac:(intro; rewrite D1; auto) N1) as [s' [E T]].
        exists s'. split; [exact E|]. intros G X Q. cbn [qperiod_ok_toks] in Q.
        apply andb_true_iff in Q as [Q1 Q2].
        rewrite (T G X Q2), (T1 Q1).
        cbn [flat_map spec_token]. rewrite <- !app_assoc. reflexivity.
      * (* exponent placeholder *)
        cbn [wf_walk] in W.
        apply andb_true_iff in W as [W W4]. apply andb_true_iff in W as [W W3].
        apply andb_true_iff in W as [W1 W2]. apply Z.eqb_eq in W2. apply Z.ltb_lt in W3. subst i.
        destruct (step_exp_spec kind s ne ltac:(lia) Hdi) as [s1 [E1 [D1 [N1 T1]]]].
        cbn [walk step]. rewrite E1.
        destruct (IH s1 n (ne + 1) np W4 Hn ltac:(lia) D1 ltac:(intro; lia) ltac:(congruence)) as [s' [E T]].
        exists s'. split; [exact E|]. intros G X Q. cbn [qperiod_ok_toks] in Q.
        rewrite (T G X Q), (T1 X).
        cbn [flat_map spec_token]. rewrite <- !app_assoc. reflexivity.
    + (* date tokens *)
      cbn [wf_walk] in W. cbn [walk step].
      destruct (IH s n ne np W Hn Hne Hdi Hinv Hnp) as [s' [E T]].
      exists s'. split; [exact E|]. intros G X Q. cbn [qperiod_ok_toks] in Q. rewrite (T G X Q). reflexivity.
Qed.

End Walk.

(* ---------- the theorems ---------- *)

Theorem place_total p loc d :
  wf_part p = true -> exists t, place p loc d = Ok t.
Proof.
  intro W. unfold place, wf_part in *.
  destruct (walk_spec p loc d (p_tokens p) (mkW (currency_text p) 0 false) 0 0 false W
              ltac:(lia) ltac:(lia) ltac:(cbn; lia)) as [s' [E _]].
  - intros _. cbn [w_di]. unfold di_of. destruct (_ <=? _); reflexivity.
  - reflexivity.
  - rewrite E. eexists. reflexivity.
Qed.

Theorem place_no_panic p loc d : wf_part p = true -> place p loc d <> Panic.
Proof. intro W. destruct (place_total p loc d W) as [t E]. rewrite E. discriminate. Qed.

Theorem place_is_spec p loc d :
  wf_part p = true -> group_ok p loc d = true -> exp_ok p d = true -> qperiod_ok p d = true ->
  place p loc d = Ok (spec_place p loc d).
Proof.
  intros W G X Q. unfold place, wf_part, qperiod_ok in *.
  destruct (walk_spec p loc d (p_tokens p) (mkW (currency_text p) 0 false) 0 0 false W
              ltac:(lia) ltac:(lia) ltac:(cbn; lia)) as [s' [E T]].
  - intros _. cbn [w_di]. unfold di_of. destruct (_ <=? _); reflexivity.
  - reflexivity.
  - rewrite E. f_equal. rewrite (T G X Q). unfold spec_place, sign_of. cbn [w_text Z.eqb andb].
    reflexivity.
Qed.

(* ---------- every integer digit exactly once, in order ---------- *)

Section Digits.
Variables (p : part) (d : digits).
Let ln := zlen (d_int d).
Let dc := p_digit_count p.

(* first digit not yet shown after n integer placeholders *)
Definition start_of (n : Z) : Z :=
  if ln <=? dc then Z.max 0 (ln - dc + n) else if n =? 0 then 0 else ln - dc + n.

Lemma skipn_getd (v : text) (i : Z) :
  0 <= i < zlen v -> skipn (Z.to_nat i) v = getd v i :: skipn (Z.to_nat (i + 1)) v.
Proof.
  unfold zlen, getd. intros H. replace (Z.to_nat (i + 1)) with (S (Z.to_nat i)) by lia.
  assert (L : (Z.to_nat i < length v)%nat) by lia. clear H.
  revert L. generalize (Z.to_nat i) as k. clear i.
  induction v as [|x v IH]; intros k L; cbn [length] in L; [lia|].
  destruct k as [|k]; [reflexivity|]. cbn [skipn nth]. apply IH. lia.
Qed.

Lemma exp_digits_skipn (v : text) n : forall from,
  0 <= from -> from + Z.of_nat n <= zlen v ->
  skipn (Z.to_nat from) v = exp_digits v n from ++ skipn (Z.to_nat (from + Z.of_nat n)) v.
Proof.
  induction n as [|n IH]; intros from H0 H1; cbn [exp_digits app].
  - f_equal. lia.
  - rewrite skipn_getd by lia. f_equal. rewrite IH by lia. f_equal. f_equal. lia.
Qed.

Lemma int_digits_walk : 0 < dc -> forall toks n ne np,
  wf_walk p toks n ne np = true -> 0 <= n ->
  skipn (Z.to_nat (start_of n)) (d_int d) = flat_map (int_digits_of p d) toks.
Proof.
  intros Hdc.
  assert (Hln : 0 <= ln) by (unfold ln, zlen; lia).
  induction toks as [|tok toks IH]; intros n ne np W Hn.
  - cbn [wf_walk] in W. apply andb_true_iff in W as [W1 _]. apply Z.eqb_eq in W1. fold dc in W1.
    cbn [flat_map]. unfold start_of. subst n.
    destruct (ln <=? dc) eqn:EL.
    + replace (Z.max 0 (ln - dc + dc)) with ln by lia. unfold ln, zlen. rewrite Nat2Z.id. apply skipn_all.
    + apply Z.leb_gt in EL. replace (dc =? 0) with false by (symmetry; apply Z.eqb_neq; lia).
      replace (ln - dc + dc) with ln by lia. unfold ln, zlen. rewrite Nat2Z.id. apply skipn_all.
  - destruct tok as [c|t| | | |kind i st|]; cbn [wf_walk] in W; cbn [flat_map int_digits_of app];
      try (eapply IH; eassumption).
    destruct st; cbn [app].
    + apply andb_true_iff in W as [W W5]. apply andb_true_iff in W as [W W4].
      apply andb_true_iff in W as [W W3]. apply andb_true_iff in W as [W1 W2].
      apply Z.eqb_eq in W2. apply Z.ltb_lt in W4. subst i. fold dc in W4.
      rewrite <- (IH _ _ _ W5 ltac:(lia)). unfold start_of. fold ln dc.
      replace (n + 1 =? 0) with false by (symmetry; apply Z.eqb_neq; lia).
      destruct (ln <=? dc) eqn:EL.
      * apply Z.leb_le in EL. destruct (ln - dc + n <? 0) eqn:EJ.
        -- apply Z.ltb_lt in EJ. cbn [app]. f_equal. lia.
        -- apply Z.ltb_ge in EJ. replace (Z.max 0 (ln - dc + n)) with (ln - dc + n) by lia.
           rewrite skipn_getd by (fold ln; lia). cbn [app]. f_equal. f_equal. lia.
      * apply Z.leb_gt in EL. destruct (n =? 0) eqn:E0.
        -- apply Z.eqb_eq in E0. subst n.
           rewrite (exp_digits_skipn (d_int d) (Z.to_nat (ln - dc + 1)) 0) by (fold ln; lia).
           f_equal. f_equal. lia.
        -- rewrite skipn_getd by (fold ln; lia). cbn [app]. f_equal. f_equal. f_equal. lia.
    + apply andb_true_iff in W as [_ W4]. eapply IH; eassumption.
    + apply andb_true_iff in W as [_ W4]. eapply IH; eassumption.
Qed.

End Digits.

(* erasing padding, separators and everything else, the integer placeholders show the integer
   digits exactly once and in order — provided the format has an integer placeholder at all *)
Theorem int_digits_preserved p d :
  wf_part p = true -> 0 < p_digit_count p ->
  flat_map (int_digits_of p d) (p_tokens p) = d_int d.
Proof.
  intros W H. unfold wf_part in W.
  rewrite <- (int_digits_walk p d H _ _ _ _ W ltac:(lia)).
  unfold start_of. cbn [Z.eqb].
  destruct (_ <=? _) eqn:E.
  - apply Z.leb_le in E. replace (Z.max 0 _) with 0 by lia. reflexivity.
  - reflexivity.
Qed.

(* the output of spec_int is the digits of int_digits_of with padding and separators added:
   erasing the separators and padding positions is the identity on the digit skeleton — stated
   for the case without grouping, where no separator is ever inserted *)
Lemma spec_run_no_group p loc ip n : forall from,
  p_thousands p = false -> spec_run p loc ip n from = exp_digits ip n from.
Proof.
  induction n as [|n IH]; intros from T; cbn [spec_run exp_digits]; [reflexivity|].
  unfold sep_at, use_group_separator. rewrite T. cbn [app]. f_equal. apply IH. exact T.
Qed.

(* literals: a format without placeholders prints its literal material verbatim *)
Theorem literals_verbatim p loc d :
  (forall tok, In tok (p_tokens p) -> match tok with TDigit _ _ _ => False | _ => True end) ->
  spec_place p loc d = (if d_neg d && (0 <? p_digit_count p) then [45] else []) ++ currency_text p
                       ++ flat_map (literal_of d) (p_tokens p).
Proof.
  intro H. unfold spec_place. f_equal. f_equal.
  induction (p_tokens p) as [|tok toks IH]; [reflexivity|].
  cbn [flat_map]. rewrite IH by (intros t Ht; apply H; right; exact Ht).
  f_equal. specialize (H tok (or_introl eq_refl)). destruct tok; try reflexivity. contradiction.
Qed.

(* every token's text appears in format order: the output is the concatenation, so the literal
   material of any format is a subsequence of the output, in its positions relative to the
   placeholders (immediate from the shape of spec_place; stated for the record) *)
Theorem spec_place_app p loc d a b :
  p_tokens p = a ++ b ->
  spec_place p loc d =
    (if d_neg d && (0 <? p_digit_count p) then [45] else []) ++ currency_text p
    ++ flat_map (spec_token p loc d) a ++ flat_map (spec_token p loc d) b.
Proof. intro E. unfold spec_place. rewrite E, flat_map_app. reflexivity. Qed.

(* ---------- the three departures, on the smallest witnesses ---------- *)

Definition en : locale := mkLocale 1 [44] [46].

(* 5 formatted with 0,000: "0005" — the statement asks for 0,005 *)
Definition grp_part : part :=
  mkPart true 4 0 false None [TDigit 48 0 NInt; TDigit 48 1 NInt; TDigit 48 2 NInt; TDigit 48 3 NInt].
Definition grp_digits : digits := mkDigits false [53] [] [] false [].

Theorem group_refuted :
  wf_part grp_part = true /\
  place grp_part en grp_digits = Ok [48; 48; 48; 53] /\
  spec_place grp_part en grp_digits = [48; 44; 48; 48; 53].
Proof. vm_compute. repeat split. Qed.

(* 1234 formatted with #,###,##0: "1234" *)
Definition grp_part2 : part :=
  mkPart true 7 0 false None
    [TDigit 35 0 NInt; TDigit 35 1 NInt; TDigit 35 2 NInt; TDigit 35 3 NInt; TDigit 35 4 NInt; TDigit 35 5 NInt; TDigit 48 6 NInt].
Definition grp_digits2 : digits := mkDigits false [49; 50; 51; 52] [] [] false [].

Theorem group_refuted2 :
  wf_part grp_part2 = true /\
  place grp_part2 en grp_digits2 = Ok [49; 50; 51; 52] /\
  spec_place grp_part2 en grp_digits2 = [49; 44; 50; 51; 52].
Proof. vm_compute. repeat split. Qed.

(* 1e100 formatted with 0E+00: "1E+10100" *)
Definition exp_part : part :=
  mkPart false 1 2 false None [TDigit 48 0 NInt; TDigit 48 0 NExp; TDigit 48 1 NExp].
Definition exp_digits_w : digits := mkDigits false [49] [] [49; 48; 48] false [].

Theorem exponent_refuted :
  wf_part exp_part = true /\
  place exp_part en exp_digits_w = Ok [49; 69; 43; 49; 48; 49; 48; 48] /\
  spec_place exp_part en exp_digits_w = [49; 69; 43; 49; 48; 48].
Proof. vm_compute. repeat split. Qed.

(* 12 formatted with 0.?: "12 " — the decimal point is dropped *)
Definition q_part : part :=
  mkPart false 1 0 false None [TDigit 48 0 NInt; TPeriod; TDigit 63 0 NDec].
Definition q_digits : digits := mkDigits false [49; 50] [] [] false [].

Theorem question_refuted :
  wf_part q_part = true /\
  place q_part en q_digits = Ok [49; 50; 32] /\
  spec_place q_part en q_digits = [49; 50; 46; 32].
Proof. vm_compute. repeat split. Qed.

(* non-vacuity of the main theorem: -1234567.5 shown with "x"#,##0.0# *)
Definition ok_part : part :=
  mkPart true 4 0 false (Some 36)
    [TText [120]; TDigit 35 0 NInt; TDigit 35 1 NInt; TDigit 35 2 NInt; TDigit 48 3 NInt; TPeriod; TDigit 48 0 NDec; TDigit 35 1 NDec].
Definition ok_digits : digits := mkDigits true [49; 50; 51; 52; 53; 54; 55] [53] [] false [].

Lemma ok_example :
  wf_part ok_part = true /\ group_ok ok_part en ok_digits = true /\ exp_ok ok_part ok_digits = true /\
  qperiod_ok ok_part ok_digits = true /\
  place ok_part en ok_digits = Ok [45; 36; 120; 49; 44; 50; 51; 52; 44; 53; 54; 55; 46; 53].
Proof. vm_compute. repeat split. Qed.
