(* Num/FormatParse.v — the format-code parser [Parser::parse_part] / [Parser::parse]
   (base/src/formatter/parser.rs:131-420) over the token stream of the format lexer: which
   [NumberPart] (token list + counters) a section of a format code denotes.
   The lexer (characters -> tokens) is not modelled; the correspondence feeds the model the tokens
   /repo's lexer produces.  No proofs in this file. *)
From IronCalc Require Import Base.Prelude Num.FormatPlace.

(* formatter/lexer.rs Token, date and time tokens grouped by what parse_part does with them *)
Inductive ltoken :=
| KZero | KSharp | KQuestion | KComma | KPeriod | KPercent | KSeparator | KRaw
| KSci | KSciMinus | KGeneral | KIllegal
| KLiteral (c : Z) | KText (t : text) | KGhost | KSpacer | KCurrency (c : Z) | KColor | KCondition
| KDate        (* Day* MonthName* MonthLetter Year* AMPM: is_date *)
| KMonth       (* Month, MonthPadded: minutes after a time token, else is_date *)
| KTime.       (* Hour* Second* Elapsed*: is_date and is_time *)

Definition k_is_digit (k : ltoken) : bool :=
  match k with KZero | KSharp | KQuestion => true | _ => false end.

(* NumberPart: what the walk reads ([np_part]) and what the float stage reads *)
Record npart := mkNP {
  np_part : part;
  np_percent : Z;
  np_comma : Z;
  np_precision : Z;
  np_sci : bool }.

Inductive presult := PNumber (n : npart) | PDate | PError | PGeneral.

(* the mutable locals of parse_part *)
Record pstate := mkPS {
  s_digit_count : Z; s_precision : Z; s_is_date : bool; s_is_number : bool; s_found_dot : bool;
  s_thousands : bool; s_comma : Z; s_percent : Z; s_last_digit : bool; s_tokens : list token;
  s_sci : bool; s_sci_minus : bool; s_exp_count : Z; s_number : nstate; s_index : Z;
  s_currency : option Z; s_is_time : bool }.

Definition ps_init : pstate :=
  mkPS 0 0 false false false false 0 0 false [] false false 0 NInt 0 None false.

Definition push (t : token) (s : pstate) : pstate :=
  mkPS (s_digit_count s) (s_precision s) (s_is_date s) (s_is_number s) (s_found_dot s)
       (s_thousands s) (s_comma s) (s_percent s) (s_last_digit s) (s_tokens s ++ [t])
       (s_sci s) (s_sci_minus s) (s_exp_count s) (s_number s) (s_index s) (s_currency s) (s_is_time s).

(* "if token_is_digit { ... += 1 }" before the match, and is_number *)
Definition count_digit (s : pstate) : pstate :=
  if s_sci s then
    mkPS (s_digit_count s) (s_precision s) (s_is_date s) true (s_found_dot s)
         (s_thousands s) (s_comma s) (s_percent s) (s_last_digit s) (s_tokens s)
         (s_sci s) (s_sci_minus s) (s_exp_count s + 1) (s_number s) (s_index s) (s_currency s) (s_is_time s)
  else if s_found_dot s then
    mkPS (s_digit_count s) (s_precision s + 1) (s_is_date s) true (s_found_dot s)
         (s_thousands s) (s_comma s) (s_percent s) (s_last_digit s) (s_tokens s)
         (s_sci s) (s_sci_minus s) (s_exp_count s) (s_number s) (s_index s) (s_currency s) (s_is_time s)
  else
    mkPS (s_digit_count s + 1) (s_precision s) (s_is_date s) true (s_found_dot s)
         (s_thousands s) (s_comma s) (s_percent s) (s_last_digit s) (s_tokens s)
         (s_sci s) (s_sci_minus s) (s_exp_count s) (s_number s) (s_index s) (s_currency s) (s_is_time s).

(* Token::Zero | Sharp | QuestionMark: push Digit { kind, index, number }; index += 1 *)
Definition push_digit (kind : Z) (s : pstate) : pstate :=
  let s := count_digit s in
  mkPS (s_digit_count s) (s_precision s) (s_is_date s) (s_is_number s) (s_found_dot s)
       (s_thousands s) (s_comma s) (s_percent s) (s_last_digit s)
       (s_tokens s ++ [TDigit kind (s_index s) (s_number s)])
       (s_sci s) (s_sci_minus s) (s_exp_count s) (s_number s) (s_index s + 1) (s_currency s) (s_is_time s).

Definition set_last (b : bool) (s : pstate) : pstate :=
  mkPS (s_digit_count s) (s_precision s) (s_is_date s) (s_is_number s) (s_found_dot s)
       (s_thousands s) (s_comma s) (s_percent s) b (s_tokens s)
       (s_sci s) (s_sci_minus s) (s_exp_count s) (s_number s) (s_index s) (s_currency s) (s_is_time s).

Definition set_flags (is_date is_time : bool) (s : pstate) : pstate :=
  mkPS (s_digit_count s) (s_precision s) (s_is_date s || is_date) (s_is_number s) (s_found_dot s)
       (s_thousands s) (s_comma s) (s_percent s) (s_last_digit s) (s_tokens s)
       (s_sci s) (s_sci_minus s) (s_exp_count s) (s_number s) (s_index s) (s_currency s) (s_is_time s || is_time).

Definition do_comma (next_is_digit : bool) (s : pstate) : pstate :=
  if s_last_digit s && next_is_digit then
    mkPS (s_digit_count s) (s_precision s) (s_is_date s) (s_is_number s) (s_found_dot s)
         true (s_comma s) (s_percent s) (s_last_digit s) (s_tokens s)
         (s_sci s) (s_sci_minus s) (s_exp_count s) (s_number s) (s_index s) (s_currency s) (s_is_time s)
  else if 0 <? s_digit_count s then
    mkPS (s_digit_count s) (s_precision s) (s_is_date s) (s_is_number s) (s_found_dot s)
         (s_thousands s) (s_comma s + 1) (s_percent s) (s_last_digit s) (s_tokens s)
         (s_sci s) (s_sci_minus s) (s_exp_count s) (s_number s) (s_index s) (s_currency s) (s_is_time s)
  else push (TLit 44) s.

Definition do_percent (s : pstate) : pstate :=
  let s := push (TLit 37) s in
  mkPS (s_digit_count s) (s_precision s) (s_is_date s) (s_is_number s) (s_found_dot s)
       (s_thousands s) (s_comma s) (s_percent s + 1) (s_last_digit s) (s_tokens s)
       (s_sci s) (s_sci_minus s) (s_exp_count s) (s_number s) (s_index s) (s_currency s) (s_is_time s).

Definition do_period (s : pstate) : pstate :=
  if s_is_number s && negb (s_found_dot s) then
    let s := push TPeriod s in
    match s_number s with
    | NInt =>
        mkPS (s_digit_count s) (s_precision s) (s_is_date s) (s_is_number s) true
             (s_thousands s) (s_comma s) (s_percent s) (s_last_digit s) (s_tokens s)
             (s_sci s) (s_sci_minus s) (s_exp_count s) NDec 0 (s_currency s) (s_is_time s)
    | _ =>
        mkPS (s_digit_count s) (s_precision s) (s_is_date s) (s_is_number s) true
             (s_thousands s) (s_comma s) (s_percent s) (s_last_digit s) (s_tokens s)
             (s_sci s) (s_sci_minus s) (s_exp_count s) (s_number s) (s_index s) (s_currency s) (s_is_time s)
    end
  else push (TLit 46) s.

Definition do_sci (minus : bool) (s : pstate) : pstate :=
  if s_sci s then
    mkPS (s_digit_count s) (s_precision s) (s_is_date s) (s_is_number s) (s_found_dot s)
         (s_thousands s) (s_comma s) (s_percent s) (s_last_digit s) (s_tokens s)
         true (s_sci_minus s || minus) (s_exp_count s) (s_number s) (s_index s) (s_currency s) (s_is_time s)
  else
    mkPS (s_digit_count s) (s_precision s) (s_is_date s) (s_is_number s) (s_found_dot s)
         (s_thousands s) (s_comma s) (s_percent s) (s_last_digit s) (s_tokens s)
         true (s_sci_minus s || minus) (s_exp_count s) NExp 0 (s_currency s) (s_is_time s).

Definition set_currency (c : Z) (s : pstate) : pstate :=
  mkPS (s_digit_count s) (s_precision s) (s_is_date s) (s_is_number s) (s_found_dot s)
       (s_thousands s) (s_comma s) (s_percent s) (s_last_digit s) (s_tokens s)
       (s_sci s) (s_sci_minus s) (s_exp_count s) (s_number s) (s_index s) (Some c) (s_is_time s).

(* one iteration of the while loop for a token that does not return early *)
Definition pstep (tok : ltoken) (next_is_digit : bool) (s : pstate) : pstate :=
  let s' :=
    match tok with
    | KZero => push_digit 48 s
    | KSharp => push_digit 35 s
    | KQuestion => push_digit 63 s
    | KComma => do_comma next_is_digit s
    | KPercent => do_percent s
    | KPeriod => do_period s
    | KColor | KCondition => s
    | KCurrency c => set_currency c s
    | KLiteral c => push (TLit c) (if c =? 58 then set_flags false true s else s)
    | KText t => push (TText t) s
    | KGhost | KSpacer => push TBlank s
    | KRaw => push TRaw s
    | KDate => push TOther (set_flags true false s)
    | KTime => push TOther (set_flags true true s)
    | KMonth => if s_is_time s then push TOther s else push TOther (set_flags true false s)
    | KSci => do_sci false s
    | KSciMinus => do_sci true s
    | KSeparator | KGeneral | KIllegal => s
    end in
  set_last (k_is_digit tok) s'.

Definition finish (s : pstate) : presult :=
  if s_is_date s then (if s_is_number s then PError else PDate)
  else PNumber (mkNP (mkPart (s_thousands s) (s_digit_count s) (s_exp_count s) (s_sci_minus s) (s_currency s) (s_tokens s))
                     (s_percent s) (s_comma s) (s_precision s) (s_sci s)).

(* parse_part from the first token of a section: the result and the tokens left for the next call.
   An early return (General, ILLEGAL) has already consumed the look-ahead token. *)
Fixpoint parse_loop (toks : list ltoken) (s : pstate) : presult * list ltoken :=
  match toks with
  | [] => (finish s, [])
  | KSeparator :: rest => (finish s, rest)
  | KGeneral :: rest => ((match s_tokens s with [] => PGeneral | _ => PError end), tl rest)
  | KIllegal :: rest => (PError, tl rest)
  | tok :: rest =>
      parse_loop rest (pstep tok (match rest with n :: _ => k_is_digit n | [] => false end) s)
  end.

Definition parse_part (toks : list ltoken) : presult * list ltoken := parse_loop toks ps_init.

(* Parser::parse: parts until the lexer is at EOF; fuel = number of tokens + 1 always suffices *)
Fixpoint parse_all (fuel : nat) (toks : list ltoken) : list presult :=
  match fuel with
  | O => []
  | S f =>
      match toks with
      | [] => []
      | _ => let '(r, rest) := parse_part toks in r :: parse_all f rest
      end
  end.

Definition parse (toks : list ltoken) : list presult := parse_all (S (length toks)) toks.
