(* Num/FormatNumProofs.v — get_fract_part never indexes out of bounds, and what it returns. *)
From IronCalc Require Import Base.Prelude Num.FormatPlace Num.FormatPlaceProofs Num.FormatNum.

Lemma zlen_nonneg (t : text) : 0 <= zlen t.
Proof. unfold zlen. lia. Qed.

(* the backwards scan stays inside b[1..l] and returns l (nothing found) or a position in [2, l+1] *)
Lemma scan_back_ok b l : l = zlen b - 1 -> forall n i,
  0 <= i -> i + Z.of_nat n <= l ->
  exists r, scan_back b l n i = Ok r /\ (r = l \/ 2 <= r) /\ r <= l + 1.
Proof.
  intros Hl. induction n as [|n IH]; intros i H0 H1; cbn [scan_back].
  - exists l. split; [reflexivity|]. lia.
  - rewrite get_ok by lia.
    destruct (getd b (l - i) =? 48).
    + apply IH; lia.
    + eexists; split; [reflexivity|]. lia.
Qed.

Theorem fract_no_panic b int_len :
  b <> [] -> exists fp, get_fract_part b int_len = Ok fp.
Proof.
  intros Hb. unfold get_fract_part.
  assert (Hlen : 0 < zlen b) by (destruct b; [contradiction | unfold zlen; cbn [length]; lia]).
  replace (zlen b =? 0) with false by (symmetry; apply Z.eqb_neq; lia).
  destruct (scan_back_ok b (zlen b - 1) eq_refl (Z.to_nat (zlen b - 1)) 0 ltac:(lia) ltac:(lia))
    as [r [E [R1 R2]]].
  rewrite E. destruct (r <? 2) eqn:E2; [eexists; reflexivity|].
  apply Z.ltb_ge in E2. unfold slice.
  set (ml := if 15 <? int_len then 2 else 15 - int_len + 1).
  assert (Hml : 1 <= ml).
  { unfold ml. destruct (15 <? int_len) eqn:E15; [lia|]. apply Z.ltb_ge in E15. lia. }
  replace ((0 <=? 2) && (2 <=? Z.min r (ml + 1)) && (Z.min r (ml + 1) <=? zlen b)) with true.
  - eexists; reflexivity.
  - symmetry. apply andb_true_iff; split; [apply andb_true_iff; split|]; apply Z.leb_le; lia.
Qed.

(* the whole path from printed strings to text: no index out of bounds *)
Theorem format_text_no_panic p loc neg s_int z b ep eneg raw :
  wf_part p = true -> b <> [] ->
  exists t, format_text p loc neg s_int z b ep eneg raw = Ok t.
Proof.
  intros W Hb. unfold format_text. cbv zeta.
  match goal with |- context [get_fract_part b ?n] => destruct (fract_no_panic b n Hb) as [fp E] end.
  rewrite E. apply place_total. exact W.
Qed.

(* ---------- what get_fract_part returns ---------- *)

Lemma strip0_decomp : forall ds, exists k, ds = strip0 ds ++ repeat 48 k.
Proof.
  induction ds as [|c r [k IH]]; [exists O; reflexivity|].
  cbn [strip0]. destruct (strip0 r) as [|y r'] eqn:E.
  - cbn [app] in IH. destruct (c =? 48) eqn:C.
    + apply Z.eqb_eq in C. subst c. exists (S k). cbn [repeat app]. f_equal. exact IH.
    + exists k. cbn [app]. f_equal. exact IH.
  - exists k. cbn [app]. f_equal. exact IH.
Qed.

Lemma strip0_last : forall ds, strip0 ds = [] \/ exists pre x, strip0 ds = pre ++ [x] /\ x <> 48.
Proof.
  induction ds as [|c r IH]; [left; reflexivity|].
  cbn [strip0]. destruct (strip0 r) as [|y r'] eqn:E.
  - destruct (c =? 48) eqn:C; [left; reflexivity|].
    right. exists [], c. split; [reflexivity|]. apply Z.eqb_neq. exact C.
  - right. destruct IH as [IH|[pre [x [IH X]]]]; [discriminate|].
    exists (c :: pre), x. split; [|exact X]. cbn [app]. f_equal. exact IH.
Qed.

Lemma getd_cons c v i : 0 < i -> getd (c :: v) i = getd v (i - 1).
Proof.
  intro H. unfold getd. replace (Z.to_nat i) with (S (Z.to_nat (i - 1))) by lia. reflexivity.
Qed.

Lemma getd_app_r x y i : zlen x <= i -> getd (x ++ y) i = getd y (i - zlen x).
Proof.
  unfold getd, zlen. intro H. rewrite app_nth2 by lia. f_equal. lia.
Qed.

Lemma getd_app_l x y i : 0 <= i < zlen x -> getd (x ++ y) i = getd x i.
Proof. unfold getd, zlen. intro H. apply app_nth1. lia. Qed.

Lemma getd_repeat k i : 0 <= i < Z.of_nat k -> getd (repeat 48 k) i = 48.
Proof.
  unfold getd. intro H. assert (L : (Z.to_nat i < k)%nat) by lia. clear H.
  revert L. generalize (Z.to_nat i) as n. induction k as [|k IH]; intros n L; [lia|].
  destruct n as [|n]; [reflexivity|]. cbn [repeat nth]. apply IH. lia.
Qed.

Lemma scan_skip b l : l = zlen b - 1 -> forall m i n,
  0 <= i -> i + Z.of_nat m <= l ->
  (forall j, i <= j < i + Z.of_nat m -> getd b (l - j) = 48) ->
  scan_back b l (m + n) i = scan_back b l n (i + Z.of_nat m).
Proof.
  intros Hl. induction m as [|m IH]; intros i n H0 H1 Z0.
  - cbn [Nat.add]. f_equal. lia.
  - cbn [Nat.add scan_back]. rewrite get_ok by lia. rewrite (Z0 i) by lia. cbn [Z.eqb Pos.eqb].
    rewrite IH; [f_equal; lia | lia | lia |]. intros j Hj. apply Z0. lia.
Qed.

Lemma nz_last c0 pre x k :
  getd (c0 :: 46 :: (pre ++ [x]) ++ repeat 48 k) (1 + zlen (pre ++ [x])) = x.
Proof.
  assert (L : zlen (pre ++ [x]) = zlen pre + 1) by (unfold zlen; rewrite app_length; cbn [length]; lia).
  pose proof (zlen_nonneg pre) as P.
  rewrite getd_cons by lia. rewrite getd_cons by lia.
  rewrite <- app_assoc. rewrite getd_app_r by lia.
  replace (1 + zlen (pre ++ [x]) - 1 - 1 - zlen pre) with 0 by lia. reflexivity.
Qed.

Theorem fract_spec c0 ds int_len :
  get_fract_part (c0 :: 46 :: ds) int_len = Ok (spec_fract ds int_len).
Proof.
  unfold spec_fract.
  destruct (strip0_decomp ds) as [k D]. pose proof (strip0_last ds) as LST.
  remember (strip0 ds) as S0 eqn:HS0.
  remember (c0 :: 46 :: ds) as b eqn:Hb.
  assert (Hzb : zlen b = 2 + zlen S0 + Z.of_nat k).
  { rewrite Hb. unfold zlen. cbn [length]. rewrite D at 1. rewrite app_length, repeat_length. lia. }
  pose proof (zlen_nonneg S0) as HS.
  unfold get_fract_part.
  replace (zlen b =? 0) with false by (symmetry; apply Z.eqb_neq; lia).
  remember (zlen b - 1) as l eqn:Hl.
  (* skip the k trailing zeros *)
  replace (Z.to_nat l) with (k + S (Z.to_nat (zlen S0)))%nat by lia.
  rewrite (scan_skip b l Hl k 0) by
    (try lia; intros j Hj; rewrite Hb, D; rewrite !getd_cons by lia;
     rewrite getd_app_r by lia; apply getd_repeat; lia).
  (* the next character is the last non-zero decimal, or the point *)
  cbn [scan_back]. rewrite get_ok by lia.
  assert (Hnz : (getd b (l - (0 + Z.of_nat k)) =? 48) = false).
  { apply Z.eqb_neq. replace (l - (0 + Z.of_nat k)) with (1 + zlen S0) by lia.
    rewrite Hb, D.
    destruct LST as [E|[pre [x [E X]]]]; rewrite E.
    - cbn. discriminate.
    - rewrite nz_last. exact X. }
  rewrite Hnz.
  replace (l - (0 + Z.of_nat k) + 1) with (zlen S0 + 2) by lia.
  replace (zlen S0 + 2 <? 2) with false by (symmetry; apply Z.ltb_ge; lia).
  unfold slice.
  set (ml := if 15 <? int_len then 2 else 15 - int_len + 1).
  assert (Hml1 : (if 15 <? int_len then 1 else 15 - int_len) = ml - 1)
    by (unfold ml; destruct (15 <? int_len); lia).
  rewrite Hml1.
  assert (Hml : 1 <= ml).
  { unfold ml. destruct (15 <? int_len) eqn:E15; [lia|]. apply Z.ltb_ge in E15. lia. }
  replace ((0 <=? 2) && (2 <=? Z.min (zlen S0 + 2) (ml + 1)) && (Z.min (zlen S0 + 2) (ml + 1) <=? zlen b))
    with true
    by (symmetry; apply andb_true_iff; split; [apply andb_true_iff; split|]; apply Z.leb_le; lia).
  f_equal. replace (skipn (Z.to_nat 2) b) with ds by (rewrite Hb; reflexivity).
  assert (HS0' : S0 = firstn (length S0) ds).
  { rewrite D at 1. rewrite firstn_app, Nat.sub_diag, firstn_all. cbn [firstn]. rewrite app_nil_r. reflexivity. }
  rewrite HS0' at 2. rewrite firstn_firstn. f_equal. unfold zlen. lia.
Qed.
