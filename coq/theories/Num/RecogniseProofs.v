(* Num/RecogniseProofs.v — proofs about the recogniser model (Recognise.v) and the grammar of the
   property statement (RecogniseSpec.v). *)
From IronCalc Require Import Base.Prelude Base.Dec Num.Recognise Num.RecogniseSpec.

(* ---------- well-formed locales: what the proofs need from the separator table ---------- *)
Definition sep_ok (c : Z) : bool :=
  negb (is_digit c) && negb (c =? c_plus) && negb (c =? c_minus) && negb (c =? c_e) && negb (c =? c_E).
Definition wf_seps (dec grp : Z) : bool := sep_ok dec && sep_ok grp && negb (dec =? grp).

Lemma sep_ok_facts c : sep_ok c = true ->
  is_digit c = false /\ c <> c_plus /\ c <> c_minus /\ c <> c_e /\ c <> c_E.
Proof.
  unfold sep_ok. intro H. repeat (apply andb_true_iff in H; destruct H as [H ?]).
  repeat match goal with X : negb _ = true |- _ => apply negb_true_iff in X end.
  repeat match goal with X : (_ =? _) = false |- _ => apply Z.eqb_neq in X end. auto.
Qed.

Lemma digit_not c : is_digit c = true ->
  c <> c_plus /\ c <> c_minus /\ c <> c_e /\ c <> c_E /\ c <> c_dot.
Proof.
  unfold is_digit, c_plus, c_minus, c_e, c_E, c_dot. intro H.
  apply andb_true_iff in H as [H1 H2]. apply Z.leb_le in H1, H2. lia.
Qed.

(* ---------- scanning ---------- *)
Definition stops (grp : Z) (t : text) : Prop :=
  match t with [] => True | c :: _ => is_digit c = false /\ c <> grp end.
Definition dstops (t : text) : Prop :=
  match t with [] => True | c :: _ => is_digit c = false end.

Lemma scan_digits_app ds tail : all_digits ds = true -> dstops tail ->
  scan_digits (ds ++ tail) = (ds, tail).
Proof.
  intros Hd Ht. induction ds as [|c ds IH]; cbn [app].
  - destruct tail as [|x r]; cbn [scan_digits]; [reflexivity|]. cbn in Ht. rewrite Ht. reflexivity.
  - unfold all_digits in Hd. cbn [forallb] in Hd. apply andb_true_iff in Hd as [Hc Hd].
    cbn [scan_digits]. rewrite Hc. rewrite (IH Hd). reflexivity.
Qed.

Lemma scan_digits_nil_tail ds : all_digits ds = true -> scan_digits ds = (ds, []).
Proof. intro H. rewrite <- (app_nil_r ds) at 1. apply scan_digits_app; [exact H | exact I]. Qed.

Lemma scan_digits_inv s : forall d r, scan_digits s = (d, r) ->
  s = d ++ r /\ all_digits d = true /\ dstops r.
Proof.
  induction s as [|c s IH]; intros d r H; cbn [scan_digits] in H.
  - inversion H; subst. repeat split.
  - destruct (is_digit c) eqn:E.
    + destruct (scan_digits s) as [d' r'] eqn:E2. inversion H; subst.
      destruct (IH _ _ eq_refl) as (H1 & H2 & H3). subst s. repeat split; auto.
      unfold all_digits. cbn [forallb]. rewrite E. exact H2.
    + inversion H; subst. repeat split. cbn. exact E.
Qed.

Lemma scan_int_stops grp tail n : stops grp tail -> scan_int grp tail n = ([], [], tail).
Proof.
  destruct tail as [|c r]; intro H; cbn [scan_int]; [reflexivity|].
  destruct H as [H1 H2]. rewrite H1. apply Z.eqb_neq in H2. rewrite H2. reflexivity.
Qed.

Lemma scan_int_digits grp ds tail n : all_digits ds = true ->
  scan_int grp (ds ++ tail) n =
  let '(d, i, r) := scan_int grp tail (n + len ds) in (ds ++ d, i, r).
Proof.
  revert n. induction ds as [|c ds IH]; intros n Hd; cbn [app].
  - unfold len. cbn [length Z.of_nat]. rewrite Z.add_0_r. destruct (scan_int grp tail n) as [[d i] r]. reflexivity.
  - unfold all_digits in Hd. cbn [forallb] in Hd. apply andb_true_iff in Hd as [Hc Hd].
    cbn [scan_int]. rewrite Hc. rewrite (IH (n + 1) Hd).
    replace (n + 1 + len ds) with (n + len (c :: ds)) by (unfold len; cbn [length]; lia).
    destruct (scan_int grp tail (n + len (c :: ds))) as [[d i] r]. reflexivity.
Qed.

(* groups of exactly three digits, each preceded by a separator *)
Definition sepjoin (grp : Z) (gs : list text) : text := flat_map (fun g => grp :: g) gs.
Fixpoint idx_from (n : Z) (gs : list text) : list Z :=
  match gs with [] => [] | g :: r => n :: idx_from (n + len g) r end.

Lemma scan_int_groups grp gs tail : is_digit grp = false -> stops grp tail ->
  forall n, forallb all_digits gs = true ->
  scan_int grp (sepjoin grp gs ++ tail) n = (concat gs, idx_from n gs, tail).
Proof.
  intros Hg Ht. induction gs as [|g gs IH]; intros n Hd.
  - cbn [sepjoin flat_map app concat idx_from]. apply scan_int_stops. exact Ht.
  - cbn [forallb] in Hd. apply andb_true_iff in Hd as [Hd1 Hd2].
    unfold sepjoin. cbn [flat_map]. fold (sepjoin grp gs).
    rewrite <- app_assoc. cbn [app scan_int]. rewrite Hg, Z.eqb_refl.
    rewrite (scan_int_digits grp g _ n Hd1).
    rewrite (IH (n + len g) Hd2). cbn [concat idx_from]. reflexivity.
Qed.

Lemma len_app a b : len (a ++ b) = len a + len b.
Proof. unfold len. rewrite app_length. lia. Qed.
Lemma len_nonneg a : 0 <= len a.
Proof. unfold len. lia. Qed.

Lemma groups_ok_idx (gs : list text) : forall (pre : Z) (total : Z),
  forallb group3 gs = true ->
  total = pre + len (concat gs) ->
  forallb (fun i => (total - i) mod 3 =? 0) (idx_from pre gs) = true.
Proof.
  induction gs as [|g gs IH]; intros pre total Hg Ht; cbn [idx_from forallb]; [reflexivity|].
  cbn [forallb] in Hg. apply andb_true_iff in Hg as [Hg1 Hg2].
  unfold group3 in Hg1. apply andb_true_iff in Hg1 as [_ Hl]. apply Z.eqb_eq in Hl.
  cbn [concat] in Ht. rewrite len_app in Ht.
  assert (H3 : forall gs', forallb group3 gs' = true -> exists k, len (concat gs') = 3 * k).
  { clear. induction gs' as [|g' gs' IH']; intro H.
    - exists 0. reflexivity.
    - cbn [forallb] in H. apply andb_true_iff in H as [H1 H2]. destruct (IH' H2) as [k Hk].
      unfold group3 in H1. apply andb_true_iff in H1 as [_ Hl']. apply Z.eqb_eq in Hl'.
      exists (k + 1). cbn [concat]. rewrite len_app. lia. }
  destruct (H3 gs Hg2) as [k Hk].
  apply andb_true_iff; split.
  - apply Z.eqb_eq. replace (total - pre) with (3 * (k + 1)) by lia.
    rewrite Z.mul_comm. apply Z.mod_mul. lia.
  - apply (IH (pre + len g) total Hg2). lia.
Qed.

(* ---------- cutting ---------- *)
Lemma break_at_inv p t : forall a ob, break_at p t = (a, ob) ->
  forallb (fun c => negb (p c)) a = true /\
  match ob with Some b => exists c, p c = true /\ t = a ++ c :: b | None => t = a end.
Proof.
  induction t as [|c t IH]; intros a ob H; cbn [break_at] in H.
  - inversion H; subst. split; reflexivity.
  - destruct (p c) eqn:E.
    + inversion H; subst. split; [reflexivity|]. exists c. split; [exact E | reflexivity].
    + destruct (break_at p t) as [a' b'] eqn:E2. inversion H; subst.
      destruct (IH _ _ eq_refl) as [H1 H2]. split.
      * cbn [forallb]. rewrite E. exact H1.
      * destruct ob as [b|]; [destruct H2 as (x & Hx & ->); exists x; split; [exact Hx | reflexivity] | subst; reflexivity].
Qed.

Lemma break_at_none p a : forallb (fun c => negb (p c)) a = true -> break_at p a = (a, None).
Proof.
  induction a as [|c a IH]; intro H; cbn [break_at]; [reflexivity|].
  cbn [forallb] in H. apply andb_true_iff in H as [H1 H2]. apply negb_true_iff in H1. rewrite H1.
  rewrite (IH H2). reflexivity.
Qed.

Lemma break_at_some p a c b : forallb (fun c => negb (p c)) a = true -> p c = true ->
  break_at p (a ++ c :: b) = (a, Some b).
Proof.
  induction a as [|x a IH]; intros H Hc; cbn [app break_at].
  - rewrite Hc. reflexivity.
  - cbn [forallb] in H. apply andb_true_iff in H as [H1 H2]. apply negb_true_iff in H1. rewrite H1.
    rewrite (IH H2 Hc). reflexivity.
Qed.

(* join / split *)
Fixpoint join (sep : Z) (ps : list text) : text :=
  match ps with
  | [] => []
  | [p] => p
  | p :: r => p ++ sep :: join sep r
  end.

Lemma split_on_nonempty sep t : split_on sep t <> [].
Proof.
  induction t as [|c t IH]; cbn [split_on]; [discriminate|].
  destruct (c =? sep); [discriminate|]. destruct (split_on sep t); [contradiction | discriminate].
Qed.

Lemma split_on_join sep t : join sep (split_on sep t) = t.
Proof.
  induction t as [|c t IH]; cbn [split_on]; [reflexivity|].
  destruct (c =? sep) eqn:E.
  - apply Z.eqb_eq in E. subst c. pose proof (split_on_nonempty sep t) as Hn.
    destruct (split_on sep t) as [|p ps] eqn:E2; [contradiction|].
    cbn [join app]. cbn [join] in IH. rewrite IH. reflexivity.
  - pose proof (split_on_nonempty sep t) as Hn.
    destruct (split_on sep t) as [|p ps] eqn:E2; [contradiction|].
    destruct ps as [|q r]; cbn [join] in *; cbn [app]; rewrite IH; reflexivity.
Qed.

Lemma join_sepjoin sep g0 gs : join sep (g0 :: gs) = g0 ++ sepjoin sep gs.
Proof.
  revert g0. induction gs as [|g gs IH]; intro g0.
  - cbn [join sepjoin flat_map]. rewrite app_nil_r. reflexivity.
  - change (join sep (g0 :: g :: gs)) with (g0 ++ sep :: join sep (g :: gs)).
    rewrite (IH g). unfold sepjoin. cbn [flat_map]. reflexivity.
Qed.

Lemma split_on_nomem sep g : mem sep g = false -> split_on sep g = [g].
Proof.
  induction g as [|c g IH]; intro H; cbn [split_on]; [reflexivity|].
  cbn [mem] in H. apply orb_false_iff in H as [H1 H2]. rewrite H1, (IH H2). reflexivity.
Qed.

Lemma split_on_prefix sep g rest : mem sep g = false ->
  split_on sep (g ++ sep :: rest) = g :: split_on sep rest.
Proof.
  induction g as [|c g IH]; intro H; cbn [app split_on].
  - rewrite Z.eqb_refl. reflexivity.
  - cbn [mem] in H. apply orb_false_iff in H as [H1 H2]. rewrite H1, (IH H2). reflexivity.
Qed.

Lemma split_on_sepjoin sep gs : forall g0,
  mem sep g0 = false -> forallb (fun g => negb (mem sep g)) gs = true ->
  split_on sep (g0 ++ sepjoin sep gs) = g0 :: gs.
Proof.
  induction gs as [|g gs IH]; intros g0 H0 Hs.
  - cbn [sepjoin flat_map]. rewrite app_nil_r. apply split_on_nomem. exact H0.
  - cbn [forallb] in Hs. apply andb_true_iff in Hs as [Hs1 Hs2]. apply negb_true_iff in Hs1.
    unfold sepjoin. cbn [flat_map]. fold (sepjoin sep gs). cbn [app].
    rewrite (split_on_prefix sep g0 _ H0). rewrite (IH g Hs1 Hs2). reflexivity.
Qed.

Lemma mem_app c a b : mem c (a ++ b) = mem c a || mem c b.
Proof. induction a as [|x a IH]; cbn [app mem]; [reflexivity|]. rewrite IH. apply orb_assoc. Qed.

Lemma digits_no_mem c ds : is_digit c = false -> all_digits ds = true -> mem c ds = false.
Proof.
  intros Hc. induction ds as [|x ds IH]; intro H; cbn [mem]; [reflexivity|].
  unfold all_digits in H. cbn [forallb] in H. apply andb_true_iff in H as [H1 H2].
  rewrite (IH H2). rewrite orb_false_r. apply Z.eqb_neq. intro; subst. congruence.
Qed.

Lemma all_digits_app a b : all_digits (a ++ b) = all_digits a && all_digits b.
Proof. unfold all_digits. apply forallb_app. Qed.

Lemma all_digits_concat gs : forallb all_digits gs = true -> all_digits (concat gs) = true.
Proof.
  induction gs as [|g gs IH]; intro H; cbn [concat]; [reflexivity|].
  cbn [forallb] in H. apply andb_true_iff in H as [H1 H2]. rewrite all_digits_app, H1, (IH H2). reflexivity.
Qed.

Lemma group3_digits gs : forallb group3 gs = true -> forallb all_digits gs = true.
Proof.
  induction gs as [|g gs IH]; intro H; cbn [forallb] in *; [reflexivity|].
  apply andb_true_iff in H as [H1 H2]. unfold group3 in H1. apply andb_true_iff in H1 as [H1 _].
  rewrite H1, (IH H2). reflexivity.
Qed.

(* ---------- the float syntax on the literals parse_number builds ---------- *)
Definition nonemptyb (t : text) : bool := match t with [] => false | _ :: _ => true end.

Definition ex_shape (ex : text) : Prop :=
  match ex with
  | [] => True
  | x :: d => all_digits d = true /\ (x = c_minus \/ x = c_plus \/ is_digit x = true)
  end.
Definition ex_valid (ex : text) : bool :=
  match ex with
  | [] => true
  | x :: d => if (x =? c_minus) || (x =? c_plus) then nonemptyb d else true
  end.

Definition mk_lit (ints : text) (dot : bool) (frac ex : text) : text :=
  ints ++ (if dot then c_dot :: frac else []) ++ (match ex with [] => [] | _ :: _ => c_e :: ex end).

Lemma is_infnan_head c r : c <> 110 -> c <> 105 -> c <> 78 -> c <> 73 -> is_infnan (c :: r) = false.
Proof.
  intros H1 H2 H3 H4. unfold is_infnan. cbn [map text_eqb].
  assert (E1 : (lower_ascii c =? 110) = false).
  { apply Z.eqb_neq. unfold lower_ascii, is_upper. destruct ((65 <=? c) && (c <=? 90)); lia. }
  assert (E2 : (lower_ascii c =? 105) = false).
  { apply Z.eqb_neq. unfold lower_ascii, is_upper. destruct ((65 <=? c) && (c <=? 90)); lia. }
  rewrite E1, E2. reflexivity.
Qed.

Lemma f64_syntax_lit ints dot frac ex :
  all_digits ints = true -> all_digits frac = true -> ex_shape ex ->
  f64_syntax (mk_lit ints dot frac ex) = nonemptyb (ints ++ (if dot then frac else [])) && ex_valid ex.
Proof.
  intros Hi Hf Hx.
  set (epart := match ex with [] => [] | _ :: _ => c_e :: ex end).
  assert (Hep : dstops epart) by (unfold epart; destruct ex; cbn; [exact I | reflexivity]).
  set (dpart := if dot then c_dot :: frac else []).
  assert (Hdp : dstops (dpart ++ epart)).
  { unfold dpart. destruct dot; cbn [app]; [reflexivity | exact Hep]. }
  (* the tail analysis, shared by all cases with at least one mantissa digit *)
  assert (Tail : forall i f : text, i ++ f <> [] ->
    match i ++ f with
    | [] => false
    | _ :: _ =>
      match epart with
      | [] => true
      | c :: r => if (c =? c_e) || (c =? c_E) then
           let r' := match r with x :: r'' => if (x =? c_minus) || (x =? c_plus) then r'' else r | [] => r end in
           let '(d, r3) := scan_digits r' in match d, r3 with _ :: _, [] => true | _, _ => false end
         else false
      end
    end = ex_valid ex).
  { intros i f Hne. destruct (i ++ f) eqn:E; [contradiction|]. clear E Hne.
    unfold epart. destruct ex as [|x d]; [reflexivity|].
    destruct Hx as [Hd Hxs]. change ((c_e =? c_e) || (c_e =? c_E)) with true. cbn iota.
    cbn [ex_valid]. destruct ((x =? c_minus) || (x =? c_plus)) eqn:Es.
    - rewrite (scan_digits_nil_tail d Hd). destruct d; reflexivity.
    - assert (Hxd : is_digit x = true).
      { apply orb_false_iff in Es as [E1 E2]. apply Z.eqb_neq in E1, E2. destruct Hxs as [?|[?|?]]; congruence. }
      assert (Hall : all_digits (x :: d) = true) by (unfold all_digits; cbn [forallb]; rewrite Hxd; exact Hd).
      rewrite (scan_digits_nil_tail _ Hall). reflexivity. }
  unfold mk_lit. fold epart. fold dpart.
  destruct ints as [|i0 ints'].
  - (* no integer digits *)
    cbn [app]. destruct dot.
    + unfold dpart. cbn [app]. unfold f64_syntax.
      change ((c_dot =? c_minus) || (c_dot =? c_plus)) with false. cbn iota.
      cbn [scan_digits]. change (is_digit c_dot) with false. cbn iota.
      rewrite Z.eqb_refl. rewrite (scan_digits_app frac epart Hf Hep). cbn [app].
      destruct frac as [|f0 frac'].
      * cbn [nonemptyb andb]. apply is_infnan_head; unfold c_dot; lia.
      * specialize (Tail [] (f0 :: frac') ltac:(discriminate)). cbn [app] in Tail. rewrite Tail. reflexivity.
    + unfold dpart. cbn [app nonemptyb andb]. unfold epart. destruct ex as [|x d]; [reflexivity|].
      unfold f64_syntax. change ((c_e =? c_minus) || (c_e =? c_plus)) with false. cbn iota.
      cbn [scan_digits]. change (is_digit c_e) with false. cbn iota.
      change (c_e =? c_dot) with false. cbn iota. cbn [app].
      apply is_infnan_head; unfold c_e; lia.
  - assert (Hi0 : is_digit i0 = true /\ all_digits ints' = true).
    { unfold all_digits in Hi. cbn [forallb] in Hi. apply andb_true_iff in Hi. exact Hi. }
    destruct Hi0 as [Hi0 Hi'].
    destruct (digit_not i0 Hi0) as (N1 & N2 & _).
    cbn [app nonemptyb andb]. unfold f64_syntax.
    apply Z.eqb_neq in N1, N2. rewrite N1, N2. cbn [orb]. cbn iota.
    change (i0 :: ints' ++ dpart ++ epart) with ((i0 :: ints') ++ dpart ++ epart).
    rewrite (scan_digits_app (i0 :: ints') (dpart ++ epart) Hi Hdp).
    unfold dpart. destruct dot.
    + cbn [app]. rewrite Z.eqb_refl. rewrite (scan_digits_app frac epart Hf Hep).
      apply (Tail (i0 :: ints') frac). discriminate.
    + cbn [app]. pose proof (Tail (i0 :: ints') [] ltac:(discriminate)) as T. rewrite app_nil_r in T.
      unfold epart in *. destruct ex as [|x d]; [reflexivity|].
      change (c_e =? c_dot) with false. cbn iota. exact T.
Qed.

(* ---------- parse_number on a text given by its parts ---------- *)
Definition dot_step (dec : Z) (s2 : text) : bool * text * text :=
  match s2 with
  | c :: r => if c =? dec then let '(f, rest) := scan_digits r in (true, f, rest)
              else (false, [], s2)
  | [] => (false, [], s2)
  end.
Definition exp_step (s3 : text) : bool * text * text :=
  match s3 with
  | c :: x :: r =>
      if (c =? c_e) || (c =? c_E) then
        if (x =? c_minus) || (x =? c_plus) || is_digit x
        then let '(d, rest) := scan_digits r in (true, x :: d, rest)
        else (true, [], s3)
      else (false, [], s3)
  | _ => (false, [], s3)
  end.

Definition parse_rest (dec grp : Z) (neg : bool) (value s1 : text) : option pnum :=
  match s1 with
  | [] => None
  | c1 :: _ =>
      if c1 =? grp then None else
      let '(ints, idxs, s2) := scan_int grp s1 0 in
      if negb (groups_ok ints idxs) then None else
      let '(dot, frac, s3) := dot_step dec s2 in
      let decdigits := if dot then len value - len s3 else 0 in
      let '(sci, ex, s4) := exp_step s3 in
      match s4 with
      | _ :: _ => None
      | [] =>
          let lit := ints ++ (if dot then c_dot :: frac else [])
                          ++ (match ex with [] => [] | _ :: _ => c_e :: ex end) in
          if f64_syntax lit && negb (dec_overflows ints frac (lit_exp ex)) then
            Some {| p_neg := neg; p_int := ints; p_seps := idxs; p_dot := dot; p_frac := frac;
                    p_sci := sci; p_exp := ex; p_decdigits := decdigits; p_lit := lit |}
          else None
      end
  end.

Lemma parse_number_unfold dec grp value :
  parse_number dec grp value =
  match value with
  | [] => None
  | c0 :: r0 => if c0 =? c_minus then parse_rest dec grp true value r0
                else if c0 =? c_plus then parse_rest dec grp false value r0
                else parse_rest dec grp false value value
  end.
Proof.
  destruct value as [|c0 r0]; [reflexivity|]. unfold parse_number.
  destruct (c0 =? c_minus); [reflexivity|]. destruct (c0 =? c_plus); reflexivity.
Qed.

Definition epart_of (em : Z) (ex : text) : text := match ex with [] => [] | _ :: _ => em :: ex end.
Definition dpart_of (dec : Z) (dot : bool) (frac : text) : text := if dot then dec :: frac else [].
Definition core_of (dec grp : Z) (g0 : text) (gs : list text) (dot : bool) (frac : text) (em : Z) (ex : text) : text :=
  g0 ++ sepjoin grp gs ++ dpart_of dec dot frac ++ epart_of em ex.

Definition ex_nonempty_shape (ex : text) : Prop :=
  match ex with [] => True | _ :: _ => ex_shape ex end.

Lemma stops_tail dec grp dot frac em ex :
  wf_seps dec grp = true -> (em = c_e \/ em = c_E) ->
  stops grp (dpart_of dec dot frac ++ epart_of em ex).
Proof.
  intros Hwf Hem. unfold wf_seps in Hwf. apply andb_true_iff in Hwf as [Hwf Hne].
  apply andb_true_iff in Hwf as [Hd Hg]. apply negb_true_iff in Hne. apply Z.eqb_neq in Hne.
  destruct (sep_ok_facts _ Hd) as (D1 & D2 & D3 & D4 & D5).
  destruct (sep_ok_facts _ Hg) as (G1 & G2 & G3 & G4 & G5).
  unfold dpart_of, epart_of. destruct dot; cbn [app stops].
  - split; [exact D1 | exact Hne].
  - destruct ex; cbn [stops]; [exact I|]. split.
    + destruct Hem; subst; reflexivity.
    + destruct Hem; subst; congruence.
Qed.

Lemma parse_rest_parts dec grp neg value g0 gs dot frac em ex :
  wf_seps dec grp = true -> (em = c_e \/ em = c_E) ->
  all_digits g0 = true -> forallb all_digits gs = true -> all_digits frac = true ->
  ex_shape ex -> (g0 = [] -> gs = []) -> (dot = false -> frac = []) ->
  exists dd,
  parse_rest dec grp neg value (core_of dec grp g0 gs dot frac em ex) =
  if groups_ok (g0 ++ concat gs) (idx_from (len g0) gs)
     && nonemptyb ((g0 ++ concat gs) ++ (if dot then frac else [])) && ex_valid ex
     && negb (dec_overflows (g0 ++ concat gs) frac (lit_exp ex))
  then Some {| p_neg := neg; p_int := g0 ++ concat gs; p_seps := idx_from (len g0) gs; p_dot := dot;
               p_frac := frac; p_sci := nonemptyb ex; p_exp := ex; p_decdigits := dd;
               p_lit := mk_lit (g0 ++ concat gs) dot frac ex |}
  else None.
Proof.
  intros Hwf Hem Hg0 Hgs Hf Hx Hhead Hdf.
  assert (Hfr : (if dot then frac else []) = frac) by (destruct dot; [reflexivity | symmetry; apply Hdf; reflexivity]).
  pose proof (stops_tail dec grp dot frac em ex Hwf Hem) as Hst.
  unfold wf_seps in Hwf. apply andb_true_iff in Hwf as [Hwf Hne].
  apply andb_true_iff in Hwf as [Hd Hg]. apply negb_true_iff in Hne. apply Z.eqb_neq in Hne.
  destruct (sep_ok_facts _ Hd) as (D1 & D2 & D3 & D4 & D5).
  destruct (sep_ok_facts _ Hg) as (G1 & G2 & G3 & G4 & G5).
  set (tail := dpart_of dec dot frac ++ epart_of em ex) in *.
  assert (Hscan : scan_int grp (core_of dec grp g0 gs dot frac em ex) 0
                  = (g0 ++ concat gs, idx_from (len g0) gs, tail)).
  { unfold core_of. rewrite (scan_int_digits grp g0 _ 0 Hg0). rewrite Z.add_0_l.
    fold tail. rewrite (scan_int_groups grp gs tail G1 Hst (len g0) Hgs). reflexivity. }
  assert (Hints : all_digits (g0 ++ concat gs) = true).
  { rewrite all_digits_app, Hg0, (all_digits_concat gs Hgs). reflexivity. }
  (* the decimal and exponent steps on the tail *)
  set (dd := if dot then len value - len (epart_of em ex) else 0). exists dd.
  assert (Hdot : dot_step dec tail = (dot, (if dot then frac else []), epart_of em ex)).
  { unfold dot_step, tail, dpart_of. destruct dot; cbn [app].
    - rewrite Z.eqb_refl. rewrite (scan_digits_app frac (epart_of em ex) Hf); [reflexivity|].
      unfold epart_of. destruct ex; cbn; [exact I|]. destruct Hem; subst; reflexivity.
    - unfold epart_of. destruct ex; [reflexivity|].
      assert (E : (em =? dec) = false) by (apply Z.eqb_neq; destruct Hem; subst; congruence).
      rewrite E. reflexivity. }
  assert (Hexp : exp_step (epart_of em ex) = (nonemptyb ex, ex, [])).
  { unfold exp_step, epart_of. destruct ex as [|x d]; [reflexivity|]. destruct Hx as [Hd' Hxs].
    assert (E1 : (em =? c_e) || (em =? c_E) = true) by (destruct Hem; subst; reflexivity).
    rewrite E1.
    assert (E2 : (x =? c_minus) || (x =? c_plus) || is_digit x = true).
    { destruct Hxs as [->|[->|Hxd]]; [reflexivity | reflexivity | rewrite Hxd; apply orb_true_r]. }
    rewrite E2. rewrite (scan_digits_nil_tail d Hd'). reflexivity. }
  unfold parse_rest.
  destruct (core_of dec grp g0 gs dot frac em ex) as [|c1 cr] eqn:Ecore.
  - (* empty text *)
    unfold core_of in Ecore. apply app_eq_nil in Ecore as [E0 Ecore]. subst g0.
    rewrite (Hhead eq_refl) in *. cbn [sepjoin flat_map app] in Ecore.
    apply app_eq_nil in Ecore as [Ed Ee]. unfold dpart_of in Ed. destruct dot; [discriminate|].
    cbn [concat app nonemptyb andb]. rewrite andb_false_r. reflexivity.
  - assert (Hc1 : (c1 =? grp) = false).
    { apply Z.eqb_neq. intro; subst c1. unfold core_of in Ecore.
      destruct g0 as [|d0 g0'].
      - rewrite (Hhead eq_refl) in Ecore. cbn [sepjoin flat_map app] in Ecore. fold tail in Ecore.
        rewrite Ecore in Hst. cbn in Hst. destruct Hst as [_ Hst]. congruence.
      - cbn [app] in Ecore. inversion Ecore; subst d0.
        unfold all_digits in Hg0. cbn [forallb] in Hg0. apply andb_true_iff in Hg0 as [Hg0 _]. congruence. }
    rewrite Hc1. rewrite Hscan. cbv beta iota zeta.
    destruct (groups_ok (g0 ++ concat gs) (idx_from (len g0) gs)); cbn [negb andb]; [|reflexivity].
    rewrite Hdot, Hfr. cbv beta iota zeta. rewrite Hexp. cbv beta iota zeta.
    fold (mk_lit (g0 ++ concat gs) dot frac ex).
    rewrite (f64_syntax_lit _ dot _ ex Hints Hf Hx).
    match goal with |- (if ?c then _ else _) = _ => destruct c end; [|reflexivity].
    unfold dd. destruct dot; reflexivity.
Qed.

(* ---------- what a text accepted by the grammar looks like ---------- *)
Definition gs_ok (g0 : text) (gs : list text) : Prop :=
  gs = [] \/ (1 <= len g0 <= 3 /\ forallb group3 gs = true).

Lemma spec_intpart_inv grp ip ints grouped :
  is_digit grp = false ->
  spec_intpart grp ip = Some (ints, grouped) ->
  exists g0 gs, ip = g0 ++ sepjoin grp gs /\ all_digits g0 = true /\ forallb all_digits gs = true /\
    gs_ok g0 gs /\ ints = g0 ++ concat gs /\ grouped = nonemptyb (concat (map (fun _ => [0]) gs)) /\
    (g0 = [] -> gs = []).
Proof.
  intros Hg H. unfold spec_intpart in H. destruct (mem grp ip) eqn:Em.
  - pose proof (split_on_join grp ip) as Hj.
    destruct (split_on grp ip) as [|g0 [|g1 gs]] eqn:Es; try discriminate.
    destruct (all_digits g0 && (1 <=? len g0) && (len g0 <=? 3) && forallb group3 (g1 :: gs)) eqn:Ec; [|discriminate].
    inversion H; subst ints grouped.
    apply andb_true_iff in Ec as [Ec E4]. apply andb_true_iff in Ec as [Ec E3].
    apply andb_true_iff in Ec as [E1 E2]. apply Z.leb_le in E2, E3.
    exists g0, (g1 :: gs). rewrite join_sepjoin in Hj. repeat split; auto;
      try (apply group3_digits; exact E4); try (right; split; [lia | exact E4]);
      try (intro; subst g0; unfold len in E2; cbn in E2; lia).
  - destruct (all_digits ip) eqn:Ed; [|discriminate]. inversion H; subst ints grouped.
    exists ip, []. cbn [sepjoin flat_map concat map nonemptyb]. rewrite !app_nil_r.
    repeat split; auto. left. reflexivity.
Qed.

Lemma spec_exponent_inv exo has e :
  spec_exponent exo = Some (has, e) ->
  match exo with
  | None => has = false /\ e = 0
  | Some et => et <> [] /\ ex_shape et /\ ex_valid et = true /\ has = true /\ e = exp_value et
  end.
Proof.
  unfold spec_exponent. destruct exo as [et|]; [|intro H; inversion H; auto].
  destruct et as [|c r]; [discriminate|].
  destruct (c =? c_minus) eqn:E1.
  - apply Z.eqb_eq in E1. subst c. destruct r as [|r0 r']; [discriminate|].
    destruct (all_digits (r0 :: r')) eqn:Ed; [|discriminate]. intro H; inversion H; subst.
    repeat split; auto; try discriminate; try (unfold exp_value; cbn [lit_exp]; rewrite ?Z.eqb_refl; reflexivity).
  - destruct (c =? c_plus) eqn:E2.
    + apply Z.eqb_eq in E2. subst c. destruct r as [|r0 r']; [discriminate|].
      destruct (all_digits (r0 :: r')) eqn:Ed; [|discriminate]. intro H; inversion H; subst.
      repeat split; auto; try discriminate; try (unfold exp_value; cbn [lit_exp]; rewrite ?E1, ?Z.eqb_refl; reflexivity).
    + destruct (all_digits (c :: r)) eqn:Ed; [|discriminate]. intro H; inversion H; subst.
      pose proof Ed as Ed'. unfold all_digits in Ed'. cbn [forallb] in Ed'. apply andb_true_iff in Ed' as [Hc Hr].
      repeat split; auto; try discriminate;
        try (cbn [ex_valid]; rewrite E1, E2; reflexivity); try (unfold exp_value; cbn [lit_exp]; rewrite E1, E2; reflexivity).
Qed.

Lemma spec_unsigned_inv dec grp neg af body d :
  wf_seps dec grp = true ->
  spec_unsigned dec grp neg af body = Some d ->
  exists g0 gs dot frac em ex,
    body = core_of dec grp g0 gs dot frac em ex /\ (em = c_e \/ em = c_E) /\
    all_digits g0 = true /\ forallb all_digits gs = true /\ all_digits frac = true /\
    ex_shape ex /\ ex_valid ex = true /\ gs_ok g0 gs /\ (g0 = [] -> gs = []) /\ (dot = false -> frac = []) /\
    nonemptyb ((g0 ++ concat gs) ++ frac) = true /\
    d = {| s_neg := neg; s_int := g0 ++ concat gs; s_frac := frac; s_has_exp := nonemptyb ex;
           s_exp := exp_value ex; s_grouped := nonemptyb (concat (map (fun _ => [0]) gs)); s_affix := af |}.
Proof.
  intros Hwf H. unfold spec_unsigned in H.
  assert (Hgd : is_digit grp = false).
  { unfold wf_seps in Hwf. apply andb_true_iff in Hwf as [Hwf _]. apply andb_true_iff in Hwf as [_ Hg].
    apply (sep_ok_facts _ Hg). }
  destruct (break_at is_e body) as [mant exo] eqn:Eb.
  destruct (spec_exponent exo) as [[has e]|] eqn:Ee; [|discriminate].
  destruct (break_at (fun c => c =? dec) mant) as [ip fr] eqn:Eb2. cbv zeta in H.
  destruct (all_digits (match fr with Some f => f | None => [] end)) eqn:Ef; [|discriminate]. cbn [negb] in H.
  destruct (spec_intpart grp ip) as [[ints grouped]|] eqn:Ei; [|discriminate].
  match type of H with match ?X with _ => _ end = _ => destruct X eqn:Ene end; [discriminate|].
  inversion H; subst d. clear H.
  destruct (spec_intpart_inv grp ip ints grouped Hgd Ei) as (g0 & gs & Hip & Hg0 & Hgs & Hok & Hints & Hgr & Hhd).
  destruct (break_at_inv _ _ _ _ Eb) as [_ Hb1]. destruct (break_at_inv _ _ _ _ Eb2) as [_ Hb2].
  pose proof (spec_exponent_inv _ _ _ Ee) as Hex.
  set (frac := match fr with Some f => f | None => [] end) in *.
  set (dot := match fr with Some _ => true | None => false end).
  assert (Hmant : mant = g0 ++ sepjoin grp gs ++ dpart_of dec dot frac).
  { unfold dot, frac, dpart_of. destruct fr as [f|].
    - destruct Hb2 as (c & Hc & ->). apply Z.eqb_eq in Hc. subst c. rewrite Hip, <- app_assoc. reflexivity.
    - subst mant. rewrite Hip, app_nil_r. reflexivity. }
  assert (Hdf : dot = false -> frac = []) by (unfold dot, frac; destruct fr; [discriminate | reflexivity]).
  assert (Hne : nonemptyb ((g0 ++ concat gs) ++ frac) = true) by (rewrite <- Hints, Ene; reflexivity).
  destruct exo as [et|].
  - destruct Hb1 as (c & Hc & ->). destruct Hex as (Hne' & Hsh & Hv & -> & ->).
    exists g0, gs, dot, frac, c, et. subst ints grouped.
    unfold core_of, epart_of. destruct et as [|x dd]; [contradiction|].
    rewrite Hmant, <- !app_assoc.
    unfold is_e in Hc. apply orb_true_iff in Hc. repeat split; auto.
    destruct Hc as [Hc|Hc]; apply Z.eqb_eq in Hc; auto.
    all: first [ apply Hsh | rewrite app_assoc; exact Hne ].
  - destruct Hex as [-> ->]. subst body.
    exists g0, gs, dot, frac, c_e, []. subst ints grouped.
    unfold core_of, epart_of. rewrite Hmant, !app_nil_r. repeat split; auto.
Qed.

(* ---------- completeness at the level of one number text ---------- *)
Definition fields_agree (p : pnum) (d : sdesc) : Prop :=
  p_int p = s_int d /\ p_frac p = s_frac d /\ p_sci p = s_has_exp d /\
  exp_value (p_exp p) = s_exp d /\ p_commas p = s_grouped d.

Lemma groups_ok_of g0 gs : gs_ok g0 gs -> groups_ok (g0 ++ concat gs) (idx_from (len g0) gs) = true.
Proof.
  intros [->|[_ H]]; [reflexivity|]. unfold groups_ok.
  apply groups_ok_idx; [exact H | apply len_app].
Qed.

Lemma core_head dec grp g0 gs dot frac em ex :
  wf_seps dec grp = true -> all_digits g0 = true -> (g0 = [] -> gs = []) -> (dot = false -> frac = []) ->
  nonemptyb ((g0 ++ concat gs) ++ frac) = true ->
  exists c r, core_of dec grp g0 gs dot frac em ex = c :: r /\ c <> c_minus /\ c <> c_plus.
Proof.
  intros Hwf Hg0 Hhd Hdf Hne. unfold wf_seps in Hwf. apply andb_true_iff in Hwf as [Hwf _].
  apply andb_true_iff in Hwf as [Hd _]. destruct (sep_ok_facts _ Hd) as (D1 & D2 & D3 & _).
  unfold core_of. destruct g0 as [|c g0'].
  - rewrite (Hhd eq_refl) in *. cbn [sepjoin flat_map concat app] in *.
    destruct dot.
    + unfold dpart_of. cbn [app]. eexists _, _. split; [reflexivity|]. split; assumption.
    + rewrite (Hdf eq_refl) in Hne. discriminate.
  - cbn [app]. eexists _, _. split; [reflexivity|].
    unfold all_digits in Hg0. cbn [forallb] in Hg0. apply andb_true_iff in Hg0 as [Hc _].
    destruct (digit_not c Hc) as (N1 & N2 & _). split; assumption.
Qed.

Lemma complete_rest dec grp sneg af body d :
  wf_seps dec grp = true ->
  spec_unsigned dec grp sneg af body = Some d -> spec_representable d = true ->
  (forall neg value, exists p, parse_rest dec grp neg value body = Some p /\ p_neg p = neg /\ fields_agree p d) /\
  (exists c r, body = c :: r /\ c <> c_minus /\ c <> c_plus) /\
  s_neg d = sneg /\ s_affix d = af /\ (existsb is_e body = false -> s_has_exp d = false).
Proof.
  intros Hwf H Hrep.
  destruct (spec_unsigned_inv _ _ _ _ _ _ Hwf H)
    as (g0 & gs & dot & frac & em & ex & Hb & Hem & Hg0 & Hgs & Hf & Hsh & Hv & Hok & Hhd & Hdf & Hne & Hd).
  assert (Hfin : dec_overflows (g0 ++ concat gs) frac (lit_exp ex) = false).
  { subst d. unfold spec_representable in Hrep. cbn [s_int s_frac s_exp] in Hrep. unfold exp_value in Hrep.
    apply negb_true_iff in Hrep. exact Hrep. }
  split; [|split; [|split; [|split]]].
  - intros neg value.
    destruct (parse_rest_parts dec grp neg value g0 gs dot frac em ex Hwf Hem Hg0 Hgs Hf Hsh Hhd Hdf) as [dd Hp].
    rewrite <- Hb in Hp. rewrite (groups_ok_of g0 gs Hok), Hv in Hp.
    match type of Hp with context [nonemptyb ?X] =>
      replace X with ((g0 ++ concat gs) ++ frac) in Hp
        by (destruct dot; [reflexivity | rewrite (Hdf eq_refl); reflexivity]) end.
    rewrite Hne, Hfin in Hp. cbn [andb negb] in Hp.
    eexists. split; [exact Hp|]. subst d. cbn. repeat split; auto.
    destruct gs; reflexivity.
  - subst body. apply core_head; auto.
  - subst d. reflexivity.
  - subst d. reflexivity.
  - intro He. subst d. cbn. destruct ex as [|x dd]; [reflexivity|]. exfalso.
    subst body. unfold core_of, epart_of in He. rewrite !existsb_app in He.
    cbn [existsb] in He. assert (E : is_e em = true) by (destruct Hem; subst; reflexivity).
    rewrite E in He. cbn [orb] in He. rewrite !orb_true_r in He. discriminate.
Qed.

Lemma complete_signed dec grp af body d :
  wf_seps dec grp = true ->
  spec_signed dec grp af body = Some d -> spec_representable d = true ->
  exists p, parse_number dec grp body = Some p /\ p_neg p = s_neg d /\ fields_agree p d /\ s_affix d = af.
Proof.
  intros Hwf H Hrep. rewrite parse_number_unfold. unfold spec_signed in H.
  destruct body as [|c r]; [discriminate|].
  destruct (c =? c_minus) eqn:E1.
  - destruct (complete_rest _ _ _ _ _ _ Hwf H Hrep) as (Hp & _ & Hn & Ha & _).
    destruct (Hp true (c :: r)) as (p & Hp1 & Hp2 & Hp3). exists p. rewrite Hn. auto.
  - destruct (c =? c_plus) eqn:E2.
    + destruct (complete_rest _ _ _ _ _ _ Hwf H Hrep) as (Hp & _ & Hn & Ha & _).
      destruct (Hp false (c :: r)) as (p & Hp1 & Hp2 & Hp3). exists p. rewrite Hn. auto.
    + destruct (complete_rest _ _ _ _ _ _ Hwf H Hrep) as (Hp & _ & Hn & Ha & _).
      destruct (Hp false (c :: r)) as (p & Hp1 & Hp2 & Hp3). exists p. rewrite Hn. auto.
Qed.

Lemma complete_unsigned dec grp af body d :
  wf_seps dec grp = true ->
  spec_unsigned dec grp true af body = Some d -> spec_representable d = true ->
  exists p, parse_number dec grp body = Some p /\ p_neg p = false /\ fields_agree p d /\
            s_neg d = true /\ s_affix d = af /\ (existsb is_e body = false -> p_sci p = false).
Proof.
  intros Hwf H Hrep. rewrite parse_number_unfold.
  destruct (complete_rest _ _ _ _ _ _ Hwf H Hrep) as (Hp & (c & r & Hb & N1 & N2) & Hn & Ha & He).
  subst body. apply Z.eqb_neq in N1, N2. rewrite N1, N2.
  destruct (Hp false (c :: r)) as (p & Hp1 & Hp2 & Hp3). exists p. repeat split; auto; try apply Hp3.
  intro Hx. destruct Hp3 as (_ & _ & Hs & _). rewrite Hs. apply He. exact Hx.
Qed.

(* ---------- the outer dispatch ---------- *)
Definition cur_result (c : text) (mode : Z) (n : pnum) : recog :=
  if mode =? 0 then
    (if p_sci n then {| r_value := VNum n false true; r_kind := KCurrency c true; r_fmt := Some fmt_sci |}
     else if 0 <? p_decdigits n
     then {| r_value := VNum n false true; r_kind := KCurrency c true; r_fmt := Some (c ++ fmt_g2) |}
     else {| r_value := VNum n false true; r_kind := KCurrency c true; r_fmt := Some (c ++ fmt_g0) |})
  else if mode =? 1 then
    (if p_sci n then {| r_value := VNum n false false; r_kind := KCurrency c true; r_fmt := Some fmt_sci |}
     else if 0 <? p_decdigits n
     then {| r_value := VNum n false false; r_kind := KCurrency c true; r_fmt := Some (c ++ fmt_g2) |}
     else {| r_value := VNum n false false; r_kind := KCurrency c true; r_fmt := Some (c ++ fmt_g0) |})
  else
    (if p_sci n then {| r_value := VNum n false false; r_kind := KCurrency c false; r_fmt := Some fmt_sci |}
     else if 0 <? p_decdigits n
     then {| r_value := VNum n false false; r_kind := KCurrency c false; r_fmt := Some (fmt_g2 ++ c) |}
     else {| r_value := VNum n false false; r_kind := KCurrency c false; r_fmt := Some (fmt_g0 ++ c) |}).

Lemma try_currencies_find dec grp curs v :
  try_currencies dec grp curs v =
  match find_currency curs v with
  | None => None
  | Some (c, mode, b) =>
      Some (match parse_number dec grp (trim b) with
            | None => None
            | Some n => Some (cur_result c mode n)
            end)
  end.
Proof.
  induction curs as [|c curs IH]; cbn [try_currencies find_currency]; [reflexivity|].
  unfold try_currency.
  destruct (strip_prefix (c_minus :: c) v) as [b|].
  { destruct (parse_number dec grp (trim b)) as [n|]; [|reflexivity].
    unfold cur_result. cbn [Z.eqb]. destruct (p_sci n); [reflexivity|]. destruct (0 <? p_decdigits n); reflexivity. }
  destruct (strip_prefix c v) as [b|].
  { destruct (parse_number dec grp (trim b)) as [n|]; [|reflexivity].
    unfold cur_result. cbn [Z.eqb Pos.eqb]. destruct (p_sci n); [reflexivity|]. destruct (0 <? p_decdigits n); reflexivity. }
  destruct (strip_suffix c v) as [b|].
  { destruct (parse_number dec grp (trim b)) as [n|]; [|reflexivity].
    unfold cur_result. cbn [Z.eqb Pos.eqb]. destruct (p_sci n); [reflexivity|]. destruct (0 <? p_decdigits n); reflexivity. }
  rewrite IH. reflexivity.
Qed.

Lemma affix_eqb_refl a : affix_eqb a a = true.
Proof. destruct a as [| |c p]; cbn [affix_eqb]; [reflexivity | reflexivity|]. rewrite text_eqb_refl. destruct p; reflexivity. Qed.

Lemma agrees_core_of p d pct oneg k fmt :
  fields_agree p d -> affix_of_kind k = Some (s_affix d) -> pct = affix_eqb (s_affix d) APercent ->
  agrees_core {| r_value := VNum p pct oneg; r_kind := k; r_fmt := fmt |} d = true.
Proof.
  intros (H1 & H2 & H3 & H4 & H5) Hk Hp. unfold agrees_core. cbn [r_value r_kind].
  rewrite H1, H2, H3, H4, H5, Hk, <- Hp, !text_eqb_refl, Z.eqb_refl, affix_eqb_refl.
  destruct (s_has_exp d), (s_grouped d), pct; reflexivity.
Qed.

Lemma find_currency_mode curs v c mode b :
  find_currency curs v = Some (c, mode, b) -> mode = 0 \/ mode = 1 \/ mode = 2.
Proof.
  induction curs as [|x curs IH]; cbn [find_currency]; [discriminate|].
  destruct (strip_prefix (c_minus :: x) v); [intro H; inversion H; auto|].
  destruct (strip_prefix x v); [intro H; inversion H; auto|].
  destruct (strip_suffix x v); [intro H; inversion H; auto|]. exact IH.
Qed.

Theorem complete L t d :
  wf_seps (l_dec L) (l_grp L) = true ->
  spec_stored L t = Some d ->
  (s_affix d = ANone -> parse_date L t = None) ->
  exists r, parse_formatted_number L t = Some r /\ agrees r d = true.
Proof.
  intros Hwf Hst Hdate. unfold spec_stored in Hst.
  destruct (spec_recognise L t) as [d'|] eqn:Hs; [|discriminate].
  destruct (spec_representable d') eqn:Hrep; [|discriminate]. inversion Hst; subst d'. clear Hst.
  unfold spec_recognise in Hs. unfold parse_formatted_number, agrees.
  destruct (strip_suffix [c_pct] (trim t)) as [b|].
  - destruct (complete_signed _ _ _ _ _ Hwf Hs Hrep) as (p & Hp & Hn & Hf & Ha). rewrite Hp.
    assert (Hk : affix_of_kind KPercent = Some (s_affix d)) by (rewrite Ha; reflexivity).
    assert (Hpc : true = affix_eqb (s_affix d) APercent) by (rewrite Ha; reflexivity).
    destruct (p_sci p); [|destruct (0 <? p_decdigits p)]; eexists; (split; [reflexivity|]);
      (rewrite agrees_core_of; [| assumption | assumption | assumption]);
      unfold agrees_sign; cbn [r_value]; rewrite Hn, xorb_false_r, eqb_reflx; reflexivity.
  - rewrite try_currencies_find.
    destruct (find_currency (l_cur L) (trim t)) as [[[c mode] b]|] eqn:Efc.
    + destruct (find_currency_mode _ _ _ _ _ Efc) as [Hm|[Hm|Hm]]; subst mode; cbn [Z.eqb Pos.eqb] in Hs.
      * destruct (complete_unsigned _ _ _ _ _ Hwf Hs Hrep) as (p & Hp & Hn & Hf & Hsn & Ha & Hx). rewrite Hp.
        assert (Hk : affix_of_kind (KCurrency c true) = Some (s_affix d)) by (rewrite Ha; reflexivity).
        assert (Hpc : false = affix_eqb (s_affix d) APercent) by (rewrite Ha; reflexivity).
        eexists; split; [reflexivity|]. unfold cur_result. cbn [Z.eqb].
        destruct (p_sci p); [|destruct (0 <? p_decdigits p)];
          (rewrite agrees_core_of; [| assumption | assumption | assumption]);
          unfold agrees_sign; cbn [r_value]; rewrite Hn, Hsn; reflexivity.
      * destruct (complete_signed _ _ _ _ _ Hwf Hs Hrep) as (p & Hp & Hn & Hf & Ha). rewrite Hp.
        assert (Hk : affix_of_kind (KCurrency c true) = Some (s_affix d)) by (rewrite Ha; reflexivity).
        assert (Hpc : false = affix_eqb (s_affix d) APercent) by (rewrite Ha; reflexivity).
        eexists; split; [reflexivity|]. unfold cur_result. cbn [Z.eqb Pos.eqb].
        destruct (p_sci p); [|destruct (0 <? p_decdigits p)];
          (rewrite agrees_core_of; [| assumption | assumption | assumption]);
          unfold agrees_sign; cbn [r_value]; rewrite Hn, xorb_false_r, eqb_reflx; reflexivity.
      * destruct (complete_signed _ _ _ _ _ Hwf Hs Hrep) as (p & Hp & Hn & Hf & Ha). rewrite Hp.
        assert (Hk : affix_of_kind (KCurrency c false) = Some (s_affix d)) by (rewrite Ha; reflexivity).
        assert (Hpc : false = affix_eqb (s_affix d) APercent) by (rewrite Ha; reflexivity).
        eexists; split; [reflexivity|]. unfold cur_result. cbn [Z.eqb Pos.eqb].
        destruct (p_sci p); [|destruct (0 <? p_decdigits p)];
          (rewrite agrees_core_of; [| assumption | assumption | assumption]);
          unfold agrees_sign; cbn [r_value]; rewrite Hn, xorb_false_r, eqb_reflx; reflexivity.
    + destruct (complete_signed _ _ _ _ _ Hwf Hs Hrep) as (p & Hp & Hn & Hf & Ha).
      rewrite (Hdate Ha), Hp.
      assert (Hpc : false = affix_eqb (s_affix d) APercent) by (rewrite Ha; reflexivity).
      eexists; split; [reflexivity|]. unfold plain_result.
      destruct (p_sci p); [|destruct (p_commas p); [destruct (0 <? p_decdigits p)|]];
        (rewrite agrees_core_of; [| assumption | rewrite Ha; reflexivity | assumption]);
        unfold agrees_sign; cbn [r_value]; rewrite Hn, xorb_false_r, eqb_reflx; reflexivity.
Qed.

(* ---------- the format assigned is of the kind of the input ---------- *)
Definition kind_ok (r : recog) : bool :=
  match r_kind r, r_value r, r_fmt r with
  | KPlain, VNum p false false, None => negb (p_sci p) && negb (p_commas p)
  | KGrouped, VNum p false false, Some f =>
      negb (p_sci p) && p_commas p && (text_eqb f fmt_g0 || text_eqb f fmt_g2)
  | KScientific, VNum p false false, Some f => p_sci p && text_eqb f fmt_sci
  | KPercent, VNum p true false, Some f =>
      if p_sci p then text_eqb f fmt_sci else text_eqb f fmt_p0 || text_eqb f fmt_p2
  | KCurrency c pre, VNum p false _, Some f =>
      if p_sci p then text_eqb f fmt_sci
      else if pre then text_eqb f (c ++ fmt_g0) || text_eqb f (c ++ fmt_g2)
      else text_eqb f (fmt_g0 ++ c) || text_eqb f (fmt_g2 ++ c)
  | KDate, VSerial _, Some _ => true
  | _, _, _ => false
  end.

Theorem kind_format L t r : parse_formatted_number L t = Some r -> kind_ok r = true.
Proof.
  unfold parse_formatted_number.
  destruct (strip_suffix [c_pct] (trim t)) as [b|].
  - destruct (parse_number (l_dec L) (l_grp L) (trim b)) as [p|]; [|discriminate].
    destruct (p_sci p) eqn:Es; [|destruct (0 <? p_decdigits p)]; intro H; inversion H; subst r;
      unfold kind_ok; cbn [r_kind r_value r_fmt]; rewrite Es, ?text_eqb_refl, ?orb_true_r; reflexivity.
  - rewrite try_currencies_find.
    destruct (find_currency (l_cur L) (trim t)) as [[[c mode] b]|] eqn:Efc.
    + destruct (parse_number (l_dec L) (l_grp L) (trim b)) as [p|]; [|discriminate].
      intro H; inversion H; subst r. unfold cur_result.
      destruct (find_currency_mode _ _ _ _ _ Efc) as [Hm|[Hm|Hm]]; subst mode; cbn [Z.eqb Pos.eqb];
        (destruct (p_sci p) eqn:Es; [|destruct (0 <? p_decdigits p)]);
        unfold kind_ok; cbn [r_kind r_value r_fmt]; rewrite Es, ?text_eqb_refl, ?orb_true_r; reflexivity.
    + destruct (parse_date L t) as [[n f]|].
      * intro H; inversion H; subst r. reflexivity.
      * destruct (parse_number (l_dec L) (l_grp L) (trim t)) as [p|]; [|discriminate].
        intro H; inversion H; subst r. unfold plain_result.
        destruct (p_sci p) eqn:Es; [|destruct (p_commas p) eqn:Ec; [destruct (0 <? p_decdigits p)|]];
          unfold kind_ok; cbn [r_kind r_value r_fmt]; rewrite ?Es, ?Ec, ?text_eqb_refl, ?orb_true_r; reflexivity.
Qed.

(* ====================== SOUNDNESS: from the code's result back to the grammar ====================== *)
Lemma scan_int_inv grp : is_digit grp = false -> forall s n d i r,
  scan_int grp s n = (d, i, r) ->
  exists g0 gs, s = g0 ++ sepjoin grp gs ++ r /\ all_digits g0 = true /\ forallb all_digits gs = true /\
    d = g0 ++ concat gs /\ i = idx_from (n + len g0) gs /\ stops grp r.
Proof.
  intros Hg. induction s as [|c s IH]; intros n d i r H; cbn [scan_int] in H.
  - inversion H; subst. exists [], []. cbn. repeat split; auto.
  - destruct (is_digit c) eqn:Ec.
    + destruct (scan_int grp s (n + 1)) as [[d' i'] r'] eqn:E. inversion H; subst.
      destruct (IH _ _ _ _ E) as (g0 & gs & Hs & H0 & Hgs & Hd & Hi & Hst).
      exists (c :: g0), gs. subst. repeat split; auto;
        try (unfold all_digits; cbn [forallb]; rewrite Ec; exact H0);
        try (f_equal; unfold len; cbn [length]; lia).
    + destruct (c =? grp) eqn:Eg.
      * apply Z.eqb_eq in Eg. subst c.
        destruct (scan_int grp s n) as [[d' i'] r'] eqn:E. inversion H; subst.
        destruct (IH _ _ _ _ E) as (g0 & gs & Hs & H0 & Hgs & Hd & Hi & Hst).
        exists [], (g0 :: gs). subst. repeat split; auto;
          try (cbn [forallb]; rewrite H0, Hgs; reflexivity);
          try (cbn [idx_from]; unfold len at 1; cbn [length Z.of_nat]; rewrite Z.add_0_r; reflexivity);
          try (unfold sepjoin; cbn [flat_map app]; rewrite <- app_assoc; reflexivity).
      * inversion H; subst. exists [], []. cbn. repeat split; auto. apply Z.eqb_neq. exact Eg.
Qed.

Lemma dot_step_inv dec s2 dot frac s3 :
  dot_step dec s2 = (dot, frac, s3) ->
  s2 = dpart_of dec dot frac ++ s3 /\ all_digits frac = true /\ (dot = false -> frac = []).
Proof.
  unfold dot_step, dpart_of. destruct s2 as [|c r].
  - intro H; inversion H; subst. repeat split; auto.
  - destruct (c =? dec) eqn:E.
    + apply Z.eqb_eq in E. subst c. destruct (scan_digits r) as [f rest] eqn:Es. intro H; inversion H; subst.
      destruct (scan_digits_inv _ _ _ Es) as (H1 & H2 & _). subst r. repeat split; auto. discriminate.
    + intro H; inversion H; subst. repeat split; auto.
Qed.

Lemma exp_step_inv s3 sci ex :
  exp_step s3 = (sci, ex, []) ->
  exists em, s3 = epart_of em ex /\ (em = c_e \/ em = c_E) /\ ex_shape ex /\ sci = nonemptyb ex.
Proof.
  unfold exp_step. destruct s3 as [|c [|x r]].
  - intro H; inversion H; subst. exists c_e. cbn. auto.
  - intro H; inversion H.
  - destruct ((c =? c_e) || (c =? c_E)) eqn:Ee.
    + destruct ((x =? c_minus) || (x =? c_plus) || is_digit x) eqn:Ex.
      * destruct (scan_digits r) as [d rest] eqn:Es. intro H; inversion H; subst.
        destruct (scan_digits_inv _ _ _ Es) as (H1 & H2 & _). rewrite app_nil_r in H1. subst r.
        exists c. cbn [epart_of ex_shape nonemptyb]. repeat split; auto.
        -- apply orb_true_iff in Ee as [Ee|Ee]; apply Z.eqb_eq in Ee; auto.
        -- apply orb_true_iff in Ex as [Ex|Ex]; [apply orb_true_iff in Ex as [Ex|Ex]; apply Z.eqb_eq in Ex; auto | auto].
      * intro H; inversion H.
    + intro H; inversion H.
Qed.

Lemma parse_rest_inv dec grp neg value s1 p :
  wf_seps dec grp = true ->
  parse_rest dec grp neg value s1 = Some p ->
  exists g0 gs dot frac em ex,
    s1 = core_of dec grp g0 gs dot frac em ex /\ (em = c_e \/ em = c_E) /\
    all_digits g0 = true /\ forallb all_digits gs = true /\ all_digits frac = true /\
    ex_shape ex /\ ex_valid ex = true /\ (g0 = [] -> gs = []) /\ (dot = false -> frac = []) /\
    nonemptyb ((g0 ++ concat gs) ++ frac) = true /\
    p_neg p = neg /\ p_int p = g0 ++ concat gs /\ p_frac p = frac /\ p_sci p = nonemptyb ex /\ p_exp p = ex /\
    p_commas p = nonemptyb (concat (map (fun _ => [0]) gs)) /\
    dec_overflows (g0 ++ concat gs) frac (lit_exp ex) = false.
Proof.
  intros Hwf H.
  assert (Hgd : is_digit grp = false).
  { unfold wf_seps in Hwf. apply andb_true_iff in Hwf as [Hwf _]. apply andb_true_iff in Hwf as [_ Hg].
    apply (sep_ok_facts _ Hg). }
  unfold parse_rest in H. destruct s1 as [|c1 cr] eqn:Es1; [discriminate|].
  destruct (c1 =? grp) eqn:Ec1; [discriminate|]. rewrite <- Es1 in H.
  destruct (scan_int grp s1 0) as [[ints idxs] s2] eqn:Esc.
  destruct (groups_ok ints idxs); cbn [negb] in H; [|discriminate].
  destruct (dot_step dec s2) as [[dot frac] s3] eqn:Ed.
  destruct (exp_step s3) as [[sci ex] s4] eqn:Ee.
  destruct s4 as [|? ?]; [|discriminate].
  match type of H with (if ?X then _ else _) = _ => destruct X eqn:Ef end; [|discriminate].
  apply andb_true_iff in Ef as [Ef Efin]. apply negb_true_iff in Efin.
  inversion H; subst p; clear H. cbn [p_neg p_int p_frac p_sci p_exp p_commas p_seps].
  destruct (scan_int_inv grp Hgd _ _ _ _ _ Esc) as (g0 & gs & Hs & Hg0 & Hgs & Hd & Hi & Hst).
  destruct (dot_step_inv _ _ _ _ _ Ed) as (Hs2 & Hfr & Hdf).
  destruct (exp_step_inv _ _ _ Ee) as (em & Hs3 & Hem & Hsh & Hsci).
  assert (Hints : all_digits ints = true) by (subst ints; rewrite all_digits_app, Hg0, (all_digits_concat gs Hgs); reflexivity).
  fold (mk_lit ints dot frac ex) in Ef. rewrite (f64_syntax_lit ints dot frac ex Hints Hfr Hsh) in Ef.
  apply andb_true_iff in Ef as [Ene Ev].
  assert (Hfr' : (if dot then frac else []) = frac) by (destruct dot; [reflexivity | symmetry; apply Hdf; reflexivity]).
  exists g0, gs, dot, frac, em, ex. subst ints idxs sci.
  assert (Hhd : g0 = [] -> gs = []).
  { intro; subst g0. destruct gs as [|g gs']; [reflexivity|]. exfalso.
    rewrite Es1 in Hs. unfold sepjoin in Hs. cbn [flat_map app] in Hs. inversion Hs; subst c1.
    rewrite Z.eqb_refl in Ec1. discriminate. }
  repeat split; auto.
  - rewrite <- Es1, Hs, Hs2, Hs3. unfold core_of. rewrite <- ?app_assoc. reflexivity.
  - rewrite <- Hfr'. exact Ene.
  - unfold p_commas. cbn [p_seps]. rewrite Z.add_0_l. destruct gs; reflexivity.
Qed.

Lemma forallb_digits_P (P : Z -> bool) ds :
  (forall c, is_digit c = true -> P c = true) -> all_digits ds = true -> forallb P ds = true.
Proof.
  intros HP. induction ds as [|c ds IH]; intro H; cbn [forallb]; [reflexivity|].
  unfold all_digits in H. cbn [forallb] in H. apply andb_true_iff in H as [H1 H2].
  rewrite (HP c H1), (IH H2). reflexivity.
Qed.

Lemma forallb_sepjoin (P : Z -> bool) grp gs :
  P grp = true -> forallb (forallb P) gs = true -> forallb P (sepjoin grp gs) = true.
Proof.
  intros Hg. induction gs as [|g gs IH]; intro H; [reflexivity|].
  cbn [forallb] in H. apply andb_true_iff in H as [H1 H2].
  unfold sepjoin. cbn [flat_map]. fold (sepjoin grp gs). cbn [app forallb].
  rewrite Hg, forallb_app, H1, (IH H2). reflexivity.
Qed.

Lemma forallb_map_digits (P : Z -> bool) gs :
  (forall c, is_digit c = true -> P c = true) -> forallb all_digits gs = true -> forallb (forallb P) gs = true.
Proof.
  intros HP. induction gs as [|g gs IH]; intro H; [reflexivity|].
  cbn [forallb] in *. apply andb_true_iff in H as [H1 H2].
  rewrite (forallb_digits_P P g HP H1), (IH H2). reflexivity.
Qed.

Lemma spec_exponent_of ex : ex_shape ex -> ex_valid ex = true ->
  spec_exponent (match ex with [] => None | _ :: _ => Some ex end) = Some (nonemptyb ex, exp_value ex).
Proof.
  destruct ex as [|x d]; [reflexivity|]. intros [Hd Hx] Hv. unfold spec_exponent, exp_value, lit_exp. cbn [ex_valid nonemptyb] in *.
  destruct (x =? c_minus) eqn:E1.
  - cbn [orb] in Hv. destruct d; [discriminate|]. rewrite Hd. reflexivity.
  - destruct (x =? c_plus) eqn:E2.
    + cbn [orb] in Hv. destruct d; [discriminate|]. rewrite Hd. reflexivity.
    + apply Z.eqb_neq in E1, E2. destruct Hx as [?|[?|Hxd]]; try congruence.
      assert (Hall : all_digits (x :: d) = true) by (unfold all_digits; cbn [forallb]; rewrite Hxd; exact Hd).
      rewrite Hall. reflexivity.
Qed.

Lemma spec_intpart_of grp g0 gs :
  is_digit grp = false -> all_digits g0 = true -> forallb all_digits gs = true -> gs_ok g0 gs ->
  spec_intpart grp (g0 ++ sepjoin grp gs) = Some (g0 ++ concat gs, nonemptyb (concat (map (fun _ => [0]) gs))).
Proof.
  intros Hg H0 Hgs Hok. unfold spec_intpart.
  assert (Hm0 : mem grp g0 = false) by (apply digits_no_mem; assumption).
  assert (Hms : forallb (fun g => negb (mem grp g)) gs = true).
  { clear Hok. induction gs as [|g gs IH]; [reflexivity|]. cbn [forallb] in *. apply andb_true_iff in Hgs as [A B].
    rewrite (digits_no_mem grp g Hg A), (IH B). reflexivity. }
  destruct gs as [|g1 gs].
  - cbn [sepjoin flat_map concat map nonemptyb]. rewrite !app_nil_r, Hm0, H0. reflexivity.
  - destruct Hok as [Hok|[Hl H3]]; [discriminate|].
    assert (Hmem : mem grp (g0 ++ sepjoin grp (g1 :: gs)) = true).
    { rewrite mem_app. unfold sepjoin. cbn [flat_map app mem]. rewrite Z.eqb_refl. apply orb_true_r. }
    rewrite Hmem, (split_on_sepjoin grp (g1 :: gs) g0 Hm0 Hms), H0, H3.
    assert (E1 : (1 <=? len g0) = true) by (apply Z.leb_le; lia).
    assert (E2 : (len g0 <=? 3) = true) by (apply Z.leb_le; lia).
    rewrite E1, E2. reflexivity.
Qed.

Lemma spec_unsigned_parts dec grp neg af g0 gs dot frac em ex :
  wf_seps dec grp = true -> (em = c_e \/ em = c_E) ->
  all_digits g0 = true -> forallb all_digits gs = true -> all_digits frac = true ->
  ex_shape ex -> ex_valid ex = true -> gs_ok g0 gs -> (dot = false -> frac = []) ->
  nonemptyb ((g0 ++ concat gs) ++ frac) = true ->
  spec_unsigned dec grp neg af (core_of dec grp g0 gs dot frac em ex) =
  Some {| s_neg := neg; s_int := g0 ++ concat gs; s_frac := frac; s_has_exp := nonemptyb ex;
          s_exp := exp_value ex; s_grouped := nonemptyb (concat (map (fun _ => [0]) gs)); s_affix := af |}.
Proof.
  intros Hwf Hem Hg0 Hgs Hf Hsh Hv Hok Hdf Hne.
  unfold wf_seps in Hwf. apply andb_true_iff in Hwf as [Hwf Hne']. apply andb_true_iff in Hwf as [Hd Hg].
  apply negb_true_iff in Hne'. apply Z.eqb_neq in Hne'.
  destruct (sep_ok_facts _ Hd) as (D1 & D2 & D3 & D4 & D5).
  destruct (sep_ok_facts _ Hg) as (G1 & G2 & G3 & G4 & G5).
  set (ip := g0 ++ sepjoin grp gs).
  assert (HnoE : forall c, is_digit c = true -> negb (is_e c) = true).
  { intros c Hc. destruct (digit_not c Hc) as (_ & _ & N3 & N4 & _). unfold is_e.
    apply Z.eqb_neq in N3, N4. rewrite N3, N4. reflexivity. }
  assert (HnoD : forall c, is_digit c = true -> negb (c =? dec) = true).
  { intros c Hc. apply negb_true_iff, Z.eqb_neq. intro; subst. congruence. }
  assert (Hip_e : forallb (fun c => negb (is_e c)) ip = true).
  { unfold ip. rewrite forallb_app, (forallb_digits_P _ g0 HnoE Hg0). cbn [andb].
    apply forallb_sepjoin; [|apply forallb_map_digits; assumption].
    unfold is_e. apply Z.eqb_neq in G4, G5. rewrite G4, G5. reflexivity. }
  assert (Hip_d : forallb (fun c => negb (c =? dec)) ip = true).
  { unfold ip. rewrite forallb_app, (forallb_digits_P _ g0 HnoD Hg0). cbn [andb].
    apply forallb_sepjoin; [|apply forallb_map_digits; assumption].
    apply negb_true_iff, Z.eqb_neq. congruence. }
  set (mant := ip ++ dpart_of dec dot frac).
  assert (Hmant_e : forallb (fun c => negb (is_e c)) mant = true).
  { unfold mant, dpart_of. rewrite forallb_app, Hip_e. destruct dot; [|reflexivity]. cbn [andb forallb].
    rewrite (forallb_digits_P _ frac HnoE Hf). unfold is_e. apply Z.eqb_neq in D4, D5. rewrite D4, D5. reflexivity. }
  assert (Hcore : core_of dec grp g0 gs dot frac em ex = mant ++ epart_of em ex).
  { unfold core_of, mant, ip. rewrite <- !app_assoc. reflexivity. }
  assert (Hb1 : break_at is_e (mant ++ epart_of em ex) = (mant, match ex with [] => None | _ :: _ => Some ex end)).
  { unfold epart_of. destruct ex as [|x d].
    - rewrite app_nil_r. apply break_at_none. exact Hmant_e.
    - apply break_at_some; [exact Hmant_e|]. unfold is_e. destruct Hem; subst; reflexivity. }
  assert (Hb2 : break_at (fun c => c =? dec) mant = (ip, if dot then Some frac else None)).
  { unfold mant, dpart_of. destruct dot.
    - apply break_at_some; [exact Hip_d | apply Z.eqb_refl].
    - rewrite app_nil_r. apply break_at_none. exact Hip_d. }
  unfold spec_unsigned. rewrite Hcore, Hb1, (spec_exponent_of ex Hsh Hv), Hb2.
  assert (Hfr : match (if dot then Some frac else None) with Some f => f | None => [] end = frac)
    by (destruct dot; [reflexivity | symmetry; apply Hdf; reflexivity]).
  cbv zeta. rewrite Hfr, Hf. cbn [negb]. unfold ip. rewrite (spec_intpart_of grp g0 gs G1 Hg0 Hgs Hok).
  destruct ((g0 ++ concat gs) ++ frac); [discriminate|]. reflexivity.
Qed.

Lemma take_run_parts grp g0 gs r :
  all_digits g0 = true -> forallb all_digits gs = true -> stops grp r ->
  take_run grp (g0 ++ sepjoin grp gs ++ r) = g0 ++ sepjoin grp gs.
Proof.
  intros H0 Hgs Hst.
  assert (Hd : forall ds rest, all_digits ds = true -> take_run grp (ds ++ rest) = ds ++ take_run grp rest).
  { induction ds as [|c ds IH]; intros rest H; [reflexivity|]. cbn [app take_run].
    unfold all_digits in H. cbn [forallb] in H. apply andb_true_iff in H as [H1 H2].
    rewrite H1. cbn [orb]. rewrite (IH rest H2). reflexivity. }
  rewrite (Hd g0 _ H0). f_equal.
  induction gs as [|g gs IH].
  - cbn [sepjoin flat_map app]. destruct r as [|c r']; [reflexivity|]. cbn [take_run].
    destruct Hst as [S1 S2]. apply Z.eqb_neq in S2. rewrite S1, S2. reflexivity.
  - cbn [forallb] in Hgs. apply andb_true_iff in Hgs as [A B].
    unfold sepjoin. cbn [flat_map]. fold (sepjoin grp gs). rewrite <- !app_assoc. cbn [app take_run].
    rewrite Z.eqb_refl, orb_true_r. rewrite (Hd g _ A). rewrite (IH B). reflexivity.
Qed.

Definition run_ok (grp : Z) (s1 : text) : bool :=
  let run := take_run grp s1 in
  negb (mem grp run && match spec_intpart grp run with Some _ => false | None => true end).

Lemma sound_rest dec grp neg value s1 p :
  wf_seps dec grp = true ->
  parse_rest dec grp neg value s1 = Some p -> run_ok grp s1 = true ->
  forall sneg af, exists d, spec_unsigned dec grp sneg af s1 = Some d /\ fields_agree p d /\
    s_neg d = sneg /\ s_affix d = af /\ p_neg p = neg /\ spec_representable d = true.
Proof.
  intros Hwf H Hrun sneg af.
  destruct (parse_rest_inv _ _ _ _ _ _ Hwf H)
    as (g0 & gs & dot & frac & em & ex & Hs & Hem & Hg0 & Hgs & Hf & Hsh & Hv & Hhd & Hdf & Hne & P1 & P2 & P3 & P4 & P5 & P6 & Pfin).
  assert (Hgd : is_digit grp = false).
  { pose proof Hwf as W. unfold wf_seps in W. apply andb_true_iff in W as [W _]. apply andb_true_iff in W as [_ Hg].
    apply (sep_ok_facts _ Hg). }
  assert (Hok : gs_ok g0 gs).
  { destruct gs as [|g1 gs']; [left; reflexivity|]. right.
    unfold run_ok in Hrun. subst s1. unfold core_of in Hrun.
    rewrite (take_run_parts grp g0 (g1 :: gs') _ Hg0 Hgs (stops_tail dec grp dot frac em ex Hwf Hem)) in Hrun.
    assert (Hmem : mem grp (g0 ++ sepjoin grp (g1 :: gs')) = true).
    { rewrite mem_app. unfold sepjoin. cbn [flat_map app mem]. rewrite Z.eqb_refl. apply orb_true_r. }
    rewrite Hmem in Hrun. cbn [andb] in Hrun. unfold spec_intpart in Hrun. rewrite Hmem in Hrun.
    assert (Hm0 : mem grp g0 = false) by (apply digits_no_mem; assumption).
    assert (Hms : forallb (fun g => negb (mem grp g)) (g1 :: gs') = true).
    { clear - Hgs Hgd. induction (g1 :: gs') as [|g l IH]; [reflexivity|]. cbn [forallb] in *. apply andb_true_iff in Hgs as [A B].
      rewrite (digits_no_mem grp g Hgd A), (IH B). reflexivity. }
    rewrite (split_on_sepjoin grp (g1 :: gs') g0 Hm0 Hms) in Hrun.
    destruct (all_digits g0 && (1 <=? len g0) && (len g0 <=? 3) && forallb group3 (g1 :: gs')) eqn:Ec; [|discriminate].
    apply andb_true_iff in Ec as [Ec E4]. apply andb_true_iff in Ec as [Ec E3]. apply andb_true_iff in Ec as [_ E2].
    apply Z.leb_le in E2, E3. split; [lia | exact E4]. }
  eexists. split; [subst s1; apply spec_unsigned_parts; assumption|].
  unfold fields_agree. cbn [s_int s_frac s_has_exp s_exp s_grouped s_neg s_affix].
  rewrite P2, P3, P4, P5, P6. repeat split; auto.
  unfold spec_representable. cbn [s_int s_frac s_exp]. unfold exp_value. rewrite Pfin. reflexivity.
Qed.

Lemma sound_signed dec grp af body p :
  wf_seps dec grp = true ->
  parse_number dec grp body = Some p -> run_ok grp (strip_sign body) = true ->
  exists d, spec_signed dec grp af body = Some d /\ fields_agree p d /\ s_neg d = p_neg p /\ s_affix d = af /\
            spec_representable d = true.
Proof.
  intros Hwf H Hrun. rewrite parse_number_unfold in H. unfold spec_signed.
  destruct body as [|c r]; [discriminate|]. unfold strip_sign in Hrun.
  destruct (c =? c_minus) eqn:E1.
  - cbn [orb] in Hrun. destruct (sound_rest _ _ _ _ _ _ Hwf H Hrun true af) as (d & A & B & C & D & E & F).
    exists d. rewrite E, C. auto.
  - destruct (c =? c_plus) eqn:E2.
    + cbn [orb] in Hrun. destruct (sound_rest _ _ _ _ _ _ Hwf H Hrun false af) as (d & A & B & C & D & E & F).
      exists d. rewrite E, C. auto.
    + cbn [orb] in Hrun. destruct (sound_rest _ _ _ _ _ _ Hwf H Hrun false af) as (d & A & B & C & D & E & F).
      exists d. rewrite E, C. auto.
Qed.

Lemma sound_unsigned dec grp af body p :
  wf_seps dec grp = true ->
  parse_number dec grp body = Some p ->
  match body with c :: _ => (c =? c_minus) || (c =? c_plus) | [] => false end = false ->
  run_ok grp (strip_sign body) = true ->
  exists d, spec_unsigned dec grp true af body = Some d /\ fields_agree p d /\ s_neg d = true /\ s_affix d = af /\
            p_neg p = false /\ spec_representable d = true.
Proof.
  intros Hwf H Hns Hrun. rewrite parse_number_unfold in H.
  destruct body as [|c r]; [discriminate|]. unfold strip_sign in Hrun. rewrite Hns in Hrun.
  apply orb_false_iff in Hns as [E1 E2]. rewrite E1, E2 in H.
  destruct (sound_rest _ _ _ _ _ _ Hwf H Hrun true af) as (d & A & B & C & D & E & F).
  exists d. repeat split; auto; try apply B.
Qed.

Theorem sound L t r :
  wf_seps (l_dec L) (l_grp L) = true ->
  parse_formatted_number L t = Some r ->
  r_kind r <> KDate ->
  known_class L t = None ->
  exists d, spec_stored L t = Some d /\ agrees r d = true.
Proof.
  intros Hwf H Hnd Hk.
  assert (Hk2 : double_sign L t = false /\ ill_grouped L t = false).
  { unfold known_class in Hk. destruct (double_sign L t); [discriminate|].
    destruct (ill_grouped L t); [discriminate|]. auto. }
  destruct Hk2 as (K1 & K2).
  unfold double_sign, ill_grouped, number_body in K1, K2.
  unfold parse_formatted_number in H. unfold spec_stored, spec_recognise.
  destruct (strip_suffix [c_pct] (trim t)) as [b|].
  - destruct (parse_number (l_dec L) (l_grp L) (trim b)) as [p|] eqn:Ep; [|discriminate].
    assert (Hrun : run_ok (l_grp L) (strip_sign (trim b)) = true) by (unfold run_ok; rewrite K2; reflexivity).
    destruct (sound_signed _ _ APercent _ _ Hwf Ep Hrun) as (d & A & B & C & D & R).
    exists d. rewrite A, R. split; [reflexivity|]. unfold agrees.
    assert (Hc : forall f, agrees_core {| r_value := VNum p true false; r_kind := KPercent; r_fmt := f |} d = true)
      by (intro f; apply agrees_core_of; [exact B | rewrite D; reflexivity | rewrite D; reflexivity]).
    assert (Hsg : forall f, agrees_sign {| r_value := VNum p true false; r_kind := KPercent; r_fmt := f |} d = true)
      by (intro f; unfold agrees_sign; cbn [r_value]; rewrite C, xorb_false_r; apply eqb_reflx).
    destruct (p_sci p); [|destruct (0 <? p_decdigits p)]; inversion H; subst r; rewrite Hc, Hsg; reflexivity.
  - rewrite try_currencies_find in H.
    destruct (find_currency (l_cur L) (trim t)) as [[[c mode] b]|] eqn:Efc.
    + destruct (parse_number (l_dec L) (l_grp L) (trim b)) as [p|] eqn:Ep; [|discriminate].
      inversion H; subst r; clear H.
      destruct (find_currency_mode _ _ _ _ _ Efc) as [Hm|[Hm|Hm]]; subst mode; cbn [Z.eqb Pos.eqb negb andb] in *.
      * assert (Hrun : run_ok (l_grp L) (strip_sign (trim b)) = true) by (unfold run_ok; rewrite K2; reflexivity).
        destruct (sound_unsigned _ _ (ACurrency c true) _ _ Hwf Ep K1 Hrun) as (d & A & B & C & D & E & R).
        exists d. rewrite A, R. split; [reflexivity|]. unfold agrees, cur_result. cbn [Z.eqb].
        destruct (p_sci p); [|destruct (0 <? p_decdigits p)];
          (rewrite agrees_core_of; [| exact B | rewrite D; reflexivity | rewrite D; reflexivity]);
          unfold agrees_sign; cbn [r_value]; rewrite E, C; reflexivity.
      * assert (Hrun : run_ok (l_grp L) (strip_sign (trim b)) = true) by (unfold run_ok; rewrite K2; reflexivity).
        destruct (sound_signed _ _ (ACurrency c true) _ _ Hwf Ep Hrun) as (d & A & B & C & D & R).
        exists d. rewrite A, R. split; [reflexivity|]. unfold agrees, cur_result. cbn [Z.eqb Pos.eqb].
        destruct (p_sci p); [|destruct (0 <? p_decdigits p)];
          (rewrite agrees_core_of; [| exact B | rewrite D; reflexivity | rewrite D; reflexivity]);
          unfold agrees_sign; cbn [r_value]; rewrite C, xorb_false_r, eqb_reflx; reflexivity.
      * assert (Hrun : run_ok (l_grp L) (strip_sign (trim b)) = true) by (unfold run_ok; rewrite K2; reflexivity).
        destruct (sound_signed _ _ (ACurrency c false) _ _ Hwf Ep Hrun) as (d & A & B & C & D & R).
        exists d. rewrite A, R. split; [reflexivity|]. unfold agrees, cur_result. cbn [Z.eqb Pos.eqb].
        destruct (p_sci p); [|destruct (0 <? p_decdigits p)];
          (rewrite agrees_core_of; [| exact B | rewrite D; reflexivity | rewrite D; reflexivity]);
          unfold agrees_sign; cbn [r_value]; rewrite C, xorb_false_r, eqb_reflx; reflexivity.
    + destruct (parse_date L t) as [[n f]|].
      * inversion H; subst r. exfalso. apply Hnd. reflexivity.
      * destruct (parse_number (l_dec L) (l_grp L) (trim t)) as [p|] eqn:Ep; [|discriminate].
        inversion H; subst r; clear H.
        assert (Hrun : run_ok (l_grp L) (strip_sign (trim t)) = true) by (unfold run_ok; rewrite K2; reflexivity).
        destruct (sound_signed _ _ ANone _ _ Hwf Ep Hrun) as (d & A & B & C & D & R).
        exists d. rewrite A, R. split; [reflexivity|]. unfold agrees, plain_result.
        destruct (p_sci p); [|destruct (p_commas p); [destruct (0 <? p_decdigits p)|]];
          (rewrite agrees_core_of; [| exact B | rewrite D; reflexivity | rewrite D; reflexivity]);
          unfold agrees_sign; cbn [r_value]; rewrite C, xorb_false_r, eqb_reflx; reflexivity.
Qed.

(* ---------- recognised numbers are finite ---------- *)
Lemma parse_rest_finite dec grp neg value s1 p :
  parse_rest dec grp neg value s1 = Some p ->
  dec_overflows (p_int p) (p_frac p) (lit_exp (p_exp p)) = false.
Proof.
  unfold parse_rest. destruct s1 as [|c1 cr]; [discriminate|].
  destruct (c1 =? grp); [discriminate|].
  destruct (scan_int grp (c1 :: cr) 0) as [[ints idxs] s2].
  destruct (groups_ok ints idxs); cbn [negb]; [|discriminate].
  destruct (dot_step dec s2) as [[dot frac] s3]. destruct (exp_step s3) as [[sci ex] s4].
  destruct s4 as [|? ?]; [|discriminate].
  match goal with |- (if ?X then _ else _) = _ -> _ => destruct X eqn:Ef end; [|discriminate].
  apply andb_true_iff in Ef as [_ Ef]. apply negb_true_iff in Ef.
  intro H; inversion H; subst p. exact Ef.
Qed.

Lemma parse_number_finite dec grp v p :
  parse_number dec grp v = Some p -> dec_overflows (p_int p) (p_frac p) (lit_exp (p_exp p)) = false.
Proof.
  rewrite parse_number_unfold. destruct v as [|c r]; [discriminate|].
  destruct (c =? c_minus); [apply parse_rest_finite|]. destruct (c =? c_plus); apply parse_rest_finite.
Qed.

Definition value_finite (v : value) : bool :=
  match v with
  | VNum p _ _ => negb (dec_overflows (p_int p) (p_frac p) (lit_exp (p_exp p)))
  | VSerial _ => true
  end.

Theorem recognised_finite L t r : parse_formatted_number L t = Some r -> value_finite (r_value r) = true.
Proof.
  unfold parse_formatted_number.
  destruct (strip_suffix [c_pct] (trim t)) as [b|].
  - destruct (parse_number (l_dec L) (l_grp L) (trim b)) as [p|] eqn:Ep; [|discriminate].
    pose proof (parse_number_finite _ _ _ _ Ep) as F.
    destruct (p_sci p); [|destruct (0 <? p_decdigits p)]; intro H; inversion H; subst r; cbn [r_value value_finite]; rewrite F; reflexivity.
  - rewrite try_currencies_find.
    destruct (find_currency (l_cur L) (trim t)) as [[[c mode] b]|] eqn:Efc.
    + destruct (parse_number (l_dec L) (l_grp L) (trim b)) as [p|] eqn:Ep; [|discriminate].
      pose proof (parse_number_finite _ _ _ _ Ep) as F.
      intro H; inversion H; subst r. unfold cur_result.
      destruct (mode =? 0); [|destruct (mode =? 1)]; (destruct (p_sci p); [|destruct (0 <? p_decdigits p)]);
        cbn [r_value value_finite]; rewrite F; reflexivity.
    + destruct (parse_date L t) as [[n f]|]; [intro H; inversion H; reflexivity|].
      destruct (parse_number (l_dec L) (l_grp L) (trim t)) as [p|] eqn:Ep; [|discriminate].
      pose proof (parse_number_finite _ _ _ _ Ep) as F.
      intro H; inversion H; subst r. unfold plain_result.
      destruct (p_sci p); [|destruct (p_commas p); [destruct (0 <? p_decdigits p)|]]; cbn [r_value value_finite]; rewrite F; reflexivity.
Qed.

(* ---------- what [dec_overflows = false] means: the exact magnitude is below the threshold ---------- *)
Lemma dec_val_bounds ds : all_digits ds = true -> forall acc, 0 <= acc ->
  acc * 10 ^ len ds <= dec_val acc ds < (acc + 1) * 10 ^ len ds.
Proof.
  induction ds as [|c ds IH]; intros Hd acc Ha.
  - unfold len. cbn [length Z.of_nat dec_val]. rewrite Z.pow_0_r. lia.
  - unfold all_digits in Hd. cbn [forallb] in Hd. apply andb_true_iff in Hd as [Hc Hd].
    unfold is_digit in Hc. apply andb_true_iff in Hc as [C1 C2]. apply Z.leb_le in C1, C2.
    cbn [dec_val]. specialize (IH Hd (acc * 10 + (c - 48)) ltac:(lia)).
    replace (len (c :: ds)) with (len ds + 1) by (unfold len; cbn [length]; lia).
    rewrite Z.pow_add_r by (unfold len; lia). rewrite Z.pow_1_r.
    assert (0 < 10 ^ len ds) by (apply Z.pow_pos_nonneg; unfold len; lia). nia.
Qed.

Theorem dec_overflows_meaning ints frac ex :
  all_digits (ints ++ frac) = true -> dec_overflows ints frac ex = false ->
  let m := dec_val 0 (ints ++ frac) in
  let e := ex - len frac in
  (0 <= e -> m * 10 ^ e < f64_overflow_threshold) /\
  (e < 0 -> m < f64_overflow_threshold * 10 ^ (- e)).
Proof.
  intros Hd H m e. unfold dec_overflows in H. fold m e in H.
  pose proof (dec_val_bounds _ Hd 0 ltac:(lia)) as [Hm0 Hm1]. fold m in Hm0, Hm1.
  rewrite len_app in Hm1. rewrite Z.mul_0_l in Hm0. rewrite Z.add_0_l, Z.mul_1_l in Hm1.
  assert (HT : 10 ^ 308 < f64_overflow_threshold) by (vm_compute; reflexivity).
  set (T := f64_overflow_threshold) in *. set (P := 10 ^ 308) in *.
  assert (HP : forall k, k <= 308 -> 10 ^ k <= P) by (intros k Hk; apply Z.pow_le_mono_r; lia).
  assert (HP2 : forall k, 0 <= k -> 10 ^ (308 + k) = P * 10 ^ k) by (intros k Hk; apply Z.pow_add_r; lia).
  assert (HP0 : 0 < P) by (apply Z.pow_pos_nonneg; lia).
  clearbody T P.
  pose proof (len_nonneg ints) as Li. pose proof (len_nonneg frac) as Lf.
  destruct (m =? 0) eqn:E0.
  - apply Z.eqb_eq in E0. rewrite E0. split; intro He.
    + lia.
    + assert (0 < 10 ^ (- e)) by (apply Z.pow_pos_nonneg; lia). nia.
  - destruct (400 <? e); [discriminate|].
    destruct (len ints + len frac + e <=? 308) eqn:E1.
    + apply Z.leb_le in E1. set (nd := len ints + len frac) in *. split; intro He.
      * assert (0 < 10 ^ e) by (apply Z.pow_pos_nonneg; lia).
        assert (A : m * 10 ^ e < 10 ^ nd * 10 ^ e) by nia.
        rewrite <- Z.pow_add_r in A by lia. pose proof (HP (nd + e) E1). lia.
      * assert (B : 10 ^ nd <= 10 ^ (308 + - e)) by (apply Z.pow_le_mono_r; lia).
        rewrite (HP2 (- e)) in B by lia.
        assert (0 < 10 ^ (- e)) by (apply Z.pow_pos_nonneg; lia). nia.
    + destruct (0 <=? e) eqn:E2.
      * apply Z.leb_le in E2. apply Z.leb_gt in H. split; intro He; lia.
      * apply Z.leb_gt in E2. apply Z.leb_gt in H. split; intro He; lia.
Qed.
