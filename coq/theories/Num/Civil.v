(* Num/Civil.v — the proleptic Gregorian calendar on Z and IronCalc's date serial numbers.

   The code (base/src/formatter/dates.rs, functions/date_and_time.rs, formatter/format.rs)
   goes through chrono's NaiveDate.  Nothing is assumed about chrono: this file re-implements
   the calendar (era-based algorithm, 400-year eras of 146097 days that start on 1 March) and
   the correspondence compares it with chrono on every serial number.

   Day numbers are "rata die": day 1 = 0001-01-01 = chrono's [num_days_from_ce].
   No proofs in this file (see CivilProofs.v). *)
From IronCalc Require Import Base.Prelude Base.Dec.

(* ---- calendar ------------------------------------------------------------------------- *)

Definition is_leap (y : Z) : bool :=
  (y mod 4 =? 0) && (negb (y mod 100 =? 0) || (y mod 400 =? 0)).

Definition days_in_month (y m : Z) : Z :=
  if m =? 2 then (if is_leap y then 29 else 28)
  else if (m =? 4) || (m =? 6) || (m =? 9) || (m =? 11) then 30
  else 31.

Definition valid_date (y m d : Z) : Prop :=
  1 <= m <= 12 /\ 1 <= d <= days_in_month y m.

Definition valid_dateb (y m d : Z) : bool :=
  (1 <=? m) && (m <=? 12) && (1 <=? d) && (d <=? days_in_month y m).

(* days before year-of-era [k] inside an era (years start on 1 March) *)
Definition era_year_start (k : Z) : Z := 365 * k + k / 4 - k / 100.

(* days before month [mp] inside a March-based year (mp = 0 is March, 11 is February) *)
Definition month_start (mp : Z) : Z := (153 * mp + 2) / 5.

(* (y, m, d) -> rata die; total on Z, meaningful for valid dates *)
Definition days_of_civil (y m d : Z) : Z :=
  let y' := if m <=? 2 then y - 1 else y in
  let era := y' / 400 in
  let yoe := y' - era * 400 in
  let mp := if m <=? 2 then m + 9 else m - 3 in
  let doy := month_start mp + d - 1 in
  let doe := era_year_start yoe + doy in
  era * 146097 + doe - 305.

(* rata die -> (y, m, d) *)
Definition yoe_of_doe (doe : Z) : Z :=
  (doe - doe / 1460 + doe / 36524 - doe / 146096) / 365.

Definition civil_of_days (n : Z) : Z * Z * Z :=
  let z := n + 305 in
  let era := z / 146097 in
  let doe := z - era * 146097 in
  let yoe := yoe_of_doe doe in
  let y := yoe + era * 400 in
  let doy := doe - era_year_start yoe in
  let mp := (5 * doy + 2) / 153 in
  let d := doy - month_start mp + 1 in
  let m := if mp <? 10 then mp + 3 else mp - 9 in
  ((if m <=? 2 then y + 1 else y), m, d).

Definition days_of_date (t : Z * Z * Z) : Z :=
  match t with (y, m, d) => days_of_civil y m d end.

(* ---- serial numbers (dates.rs, constants.rs) --------------------------------------------- *)

Definition EXCEL_DATE_BASE : Z := 693594.
Definition MINIMUM_DATE_SERIAL_NUMBER : Z := 1.
Definition MAXIMUM_DATE_SERIAL_NUMBER : Z := 2958465.

(* chrono: NaiveDate::from_ymd_opt is None outside these years *)
Definition CHRONO_MIN_YEAR : Z := -262143.
Definition CHRONO_MAX_YEAR : Z := 262142.
Definition chrono_year_ok (y : Z) : bool := (CHRONO_MIN_YEAR <=? y) && (y <=? CHRONO_MAX_YEAR).
Definition CHRONO_MIN_DAYS : Z := days_of_civil CHRONO_MIN_YEAR 1 1.
Definition CHRONO_MAX_DAYS : Z := days_of_civil CHRONO_MAX_YEAR 12 31.

Definition in_serial_range (n : Z) : bool :=
  (MINIMUM_DATE_SERIAL_NUMBER <=? n) && (n <=? MAXIMUM_DATE_SERIAL_NUMBER).

(* from_excel_date: 1900-01-01 + (serial - 2) days.  First base. *)
Definition serial_days (n : Z) : Z := days_of_civil 1900 1 1 + (n - 2).

Definition of_serial (n : Z) : outcome (Z * Z * Z) :=
  if n <? MINIMUM_DATE_SERIAL_NUMBER then Err
  else if n >? MAXIMUM_DATE_SERIAL_NUMBER then Err
  else Ok (civil_of_days (serial_days n)).

(* convert_to_serial_number: num_days_from_ce - 693594.  Second base. *)
Definition serial_of_days (rd : Z) : Z := rd - EXCEL_DATE_BASE.

(* date_to_serial_number(day, month, year): only chrono's validity check, NO range check *)
Definition to_serial (y m d : Z) : outcome Z :=
  if chrono_year_ok y && valid_dateb y m d then Ok (serial_of_days (days_of_civil y m d)) else Err.

(* ---- weekday (date_and_time.rs weekday_number, fn_weekday) ------------------------------- *)

(* chrono: rata die 1 is a Monday *)
Definition wd_from_monday0 (rd : Z) : Z := (rd - 1) mod 7.   (* number_from_monday - 1 *)
Definition wd_from_sunday0 (rd : Z) : Z := rd mod 7.         (* num_days_from_sunday *)

(* FPanic: an abort of the evaluation; no model function returns it any more (see
   CivilProofs.fn_date_total) — it stays so that the runner can still name that observation *)
Inductive fres : Type := FNum (v : Z) | FErrValue | FErrNum | FPanic.

Definition weekday_number (rd : Z) (return_type : Z) : fres :=
  if return_type =? 1 then FNum (wd_from_sunday0 rd + 1)
  else if return_type =? 2 then FNum (wd_from_monday0 rd + 1)
  else if return_type =? 3 then FNum (wd_from_monday0 rd mod 7)
  else if (11 <=? return_type) && (return_type <=? 17) then
    FNum ((wd_from_monday0 rd + 7 - (return_type - 11)) mod 7 + 1)
  else if return_type =? 0 then FErrValue
  else FErrNum.

(* WEEKDAY(serial, return_type) on integer arguments: the date error comes first *)
Definition fn_weekday (n t : Z) : fres :=
  match of_serial n with
  | Ok _ => weekday_number (serial_days n) t
  | _ => FErrNum
  end.

(* the Sunday-based weekday of a serial, WEEKDAY(n) = WEEKDAY(n, 1) *)
Definition weekday (n : Z) : Z := wd_from_sunday0 (serial_days n) + 1.

Definition fn_year (n : Z) : fres := match of_serial n with Ok (y, _, _) => FNum y | _ => FErrNum end.
Definition fn_month (n : Z) : fres := match of_serial n with Ok (_, m, _) => FNum m | _ => FErrNum end.
Definition fn_day (n : Z) : fres := match of_serial n with Ok (_, _, d) => FNum d | _ => FErrNum end.

(* ---- DATE(year, month, day): fn_date + permissive_date_to_serial_number -------------------
   Arguments are the already floored i32 values.  The code uses chrono's checked_add_months /
   checked_sub_months / checked_add_days / checked_sub_days: when the intermediate date leaves
   chrono's own year range the result is None and DATE returns the out-of-range error (#NUM!),
   like every other range failure.  (`month - 1` / `day - 1` are i32 subtractions: at i32::MIN
   the release build wraps to i32::MAX; the Z arithmetic below and the wrapped value both end in
   None, i.e. #NUM!.) *)

Definition add_months_jan1 (y md : Z) : option (Z * Z) :=
  (* NaiveDate(y,1,1).checked_add/sub_months: year*12 + 0 + md, div_euclid/rem_euclid 12 *)
  let t := y * 12 + md in
  let y2 := t / 12 in
  let m2 := t mod 12 + 1 in
  if chrono_year_ok y2 then Some (y2, m2) else None.

Definition add_days (rd dd : Z) : option Z :=
  let r := rd + dd in
  if (CHRONO_MIN_DAYS <=? r) && (r <=? CHRONO_MAX_DAYS) then Some r else None.

Definition fn_date (y m d : Z) : fres :=
  if y <? 0 then FErrNum
  else if (y =? 1899) && (m =? 12) && (d =? 31) then FNum MINIMUM_DATE_SERIAL_NUMBER
  else if negb (chrono_year_ok y) then FErrNum
  else if negb (in_serial_range (serial_of_days (days_of_civil y 1 1))) then FErrNum
  else match add_months_jan1 y (m - 1) with
       | None => FErrNum
       | Some (y2, m2) =>
         let rd2 := days_of_civil y2 m2 1 in
         if negb (in_serial_range (serial_of_days rd2)) then FErrNum
         else match add_days rd2 (d - 1) with
              | None => FErrNum
              | Some rd3 =>
                if negb (in_serial_range (serial_of_days rd3)) then FErrNum
                else FNum (serial_of_days rd3)
              end
       end.

(* ---- "yyyy-mm-dd" text (format.rs Date part: Year, MonthPadded, DayPadded) ----------------- *)

Definition pad2 (v : Z) : text := if v <? 10 then 48 :: dec_of_Z v else dec_of_Z v.

Definition iso_text (t : Z * Z * Z) : text :=
  match t with (y, m, d) => dec_of_Z y ++ 45 :: pad2 m ++ 45 :: pad2 d end.

Definition fmt_iso (n : Z) : outcome text :=
  match of_serial n with Ok t => Ok (iso_text t) | Err => Err | Panic => Panic end.

(* ---- typed ISO date "yyyy-mm-dd" (format.rs parse_date, ISO arm, separator '-') -------------
   split on '-', exactly three parts, first of length 4, the other two all digits and at most
   2 characters long; year through parse_year (2-digit window does not apply to 4 characters
   unless the number is < 100: "0029" -> 2029), then date_to_serial_number. *)

Fixpoint split_on (sep : Z) (cur : text) (s : text) : list text :=
  match s with
  | [] => [rev cur]
  | c :: r => if c =? sep then rev cur :: split_on sep [] r else split_on sep (c :: cur) r
  end.

Definition parse_year4 (s : text) : outcome Z :=
  (* four ASCII digits only (a sign is not modelled: it yields Err here) *)
  if (Nat.eqb (length s) 4) && all_digits s then
    let y := dec_val 0 s in
    Ok (if y <? 30 then 2000 + y else if y <? 100 then 1900 + y else y)
  else Err.

Definition parse_2digits (s : text) : outcome Z :=
  if (Nat.leb 1 (length s)) && (Nat.leb (length s) 2) && all_digits s then Ok (dec_val 0 s) else Err.

Definition parse_iso (s : text) : outcome Z :=
  match split_on 45 [] s with
  | [ys; ms; ds] =>
    match parse_2digits ds, parse_2digits ms, parse_year4 ys with
    | Ok d, Ok m, Ok y => to_serial y m d
    | _, _, _ => Err
    end
  | _ => Err
  end.
