(* Num/FormatParseProofs.v — every Number section the format parser can produce is well formed
   ([wf_part]), for all token streams; hence the token walk never indexes out of bounds on any
   format code whatsoever. *)
From IronCalc Require Import Base.Prelude Num.FormatPlace Num.FormatPlaceProofs Num.FormatParse.

(* wf_walk without the bounds and the final comparison: the state the checker ends in *)
Fixpoint wf_run (toks : list token) (ni ne : Z) (np : bool) : option (Z * Z * bool) :=
  match toks with
  | [] => Some (ni, ne, np)
  | TDigit k i NInt :: r => if kind_ok k && (i =? ni) && (ne =? 0) then wf_run r (ni + 1) ne np else None
  | TDigit k i NDec :: r => if kind_ok k && (0 <=? i) && Bool.eqb np (i =? 0) then wf_run r ni ne false else None
  | TDigit k i NExp :: r => if kind_ok k && (i =? ne) then wf_run r ni (ne + 1) np else None
  | TPeriod :: r => wf_run r ni ne true
  | _ :: r => wf_run r ni ne np
  end.

Lemma wf_run_mono : forall toks ni ne np a b c,
  wf_run toks ni ne np = Some (a, b, c) -> ni <= a /\ ne <= b.
Proof.
  induction toks as [|t toks IH]; intros ni ne np a b c H; cbn [wf_run] in H.
  - inversion H; subst. lia.
  - destruct t as [x|x| | | |k i st|]; try (apply IH in H; lia).
    destruct st.
    + destruct (kind_ok k && (i =? ni) && (ne =? 0)); [|discriminate]. apply IH in H. lia.
    + destruct (kind_ok k && (0 <=? i) && Bool.eqb np (i =? 0)); [|discriminate]. apply IH in H. lia.
    + destruct (kind_ok k && (i =? ne)); [|discriminate]. apply IH in H. lia.
Qed.

Lemma wf_run_walk p : forall toks ni ne np c,
  wf_run toks ni ne np = Some (p_digit_count p, p_exp_count p, c) ->
  wf_walk p toks ni ne np = true.
Proof.
  induction toks as [|t toks IH]; intros ni ne np c H; cbn [wf_run] in H; cbn [wf_walk].
  - inversion H; subst. rewrite !Z.eqb_refl. reflexivity.
  - destruct t as [x|x| | | |k i st|]; try (eapply IH; eassumption).
    destruct st; cbn [wf_walk].
    + destruct (kind_ok k && (i =? ni) && (ne =? 0)) eqn:E; [|discriminate].
      apply andb_true_iff in E as [E E3]. apply andb_true_iff in E as [E1 E2].
      cbn [andb].
      pose proof (wf_run_mono _ _ _ _ _ _ _ H) as [M _]. apply Z.eqb_eq in E2.
      replace (i <? p_digit_count p) with true by (symmetry; apply Z.ltb_lt; lia).
      cbn [andb]. eapply IH; eassumption.
    + destruct (kind_ok k && (0 <=? i) && Bool.eqb np (i =? 0)) eqn:E; [|discriminate].
      cbn [andb]. eapply IH; eassumption.
    + destruct (kind_ok k && (i =? ne)) eqn:E; [|discriminate].
      apply andb_true_iff in E as [E1 E2]. cbn [andb].
      pose proof (wf_run_mono _ _ _ _ _ _ _ H) as [_ M]. apply Z.eqb_eq in E2.
      replace (i <? p_exp_count p) with true by (symmetry; apply Z.ltb_lt; lia).
      cbn [andb]. eapply IH; eassumption.
Qed.

Lemma wf_run_app : forall x y ni ne np,
  wf_run (x ++ y) ni ne np =
  match wf_run x ni ne np with Some (a, b, c) => wf_run y a b c | None => None end.
Proof.
  induction x as [|t x IH]; intros y ni ne np; cbn [app wf_run]; [reflexivity|].
  destruct t as [z|z| | | |k i st|]; try apply IH.
  destruct st.
  - destruct (kind_ok k && (i =? ni) && (ne =? 0)); [apply IH | reflexivity].
  - destruct (kind_ok k && (0 <=? i) && Bool.eqb np (i =? 0)); [apply IH | reflexivity].
  - destruct (kind_ok k && (i =? ne)); [apply IH | reflexivity].
Qed.

(* the loop invariant of parse_part *)
Definition pinv (s : pstate) : Prop :=
  exists npf,
    wf_run (s_tokens s) 0 0 false = Some (s_digit_count s, s_exp_count s, npf) /\
    match s_number s with
    | NInt => s_index s = s_digit_count s /\ s_exp_count s = 0 /\ s_sci s = false /\ s_found_dot s = false
    | NDec => s_found_dot s = true /\ s_sci s = false /\ s_exp_count s = 0 /\ 0 <= s_index s /\
              npf = (s_index s =? 0)
    | NExp => s_sci s = true /\ s_index s = s_exp_count s
    end.

Lemma pinv_init : pinv ps_init.
Proof. exists false. cbn. repeat split. Qed.

Definition plain (t : token) : Prop :=
  match t with TDigit _ _ _ | TPeriod => False | _ => True end.

Lemma wf_run_plain t a b c : plain t -> wf_run [t] a b c = Some (a, b, c).
Proof. destruct t; cbn; intros H; try contradiction; reflexivity. Qed.

Lemma pinv_push t s : plain t -> pinv s -> pinv (push t s).
Proof.
  intros P [npf [W I]]. exists npf. destruct s as [dcnt prec isd isn fd th cm pc ld tk sc sm ecnt num idx cur it]. cbn [push s_tokens s_digit_count s_exp_count s_number
    s_index s_sci s_found_dot] in *.
  split; [|exact I]. rewrite wf_run_app, W. apply wf_run_plain. exact P.
Qed.

Lemma pinv_set_last b s : pinv s -> pinv (set_last b s).
Proof. intros [npf H]. exists npf. destruct s as [dcnt prec isd isn fd th cm pc ld tk sc sm ecnt num idx cur it]. exact H. Qed.

Lemma pinv_set_flags a b s : pinv s -> pinv (set_flags a b s).
Proof. intros [npf H]. exists npf. destruct s as [dcnt prec isd isn fd th cm pc ld tk sc sm ecnt num idx cur it]. exact H. Qed.

Lemma pinv_set_currency c s : pinv s -> pinv (set_currency c s).
Proof. intros [npf H]. exists npf. destruct s as [dcnt prec isd isn fd th cm pc ld tk sc sm ecnt num idx cur it]. exact H. Qed.

Lemma pinv_comma nd s : pinv s -> pinv (do_comma nd s).
Proof.
  intros H. unfold do_comma.
  destruct (s_last_digit s && nd).
  - destruct H as [npf H]. exists npf. destruct s as [dcnt prec isd isn fd th cm pc ld tk sc sm ecnt num idx cur it]. exact H.
  - destruct (0 <? s_digit_count s).
    + destruct H as [npf H]. exists npf. destruct s as [dcnt prec isd isn fd th cm pc ld tk sc sm ecnt num idx cur it]. exact H.
    + apply pinv_push; [exact I | exact H].
Qed.

Lemma pinv_percent s : pinv s -> pinv (do_percent s).
Proof.
  intros H. unfold do_percent.
  pose proof (pinv_push (TLit 37) s I H) as [npf H'].
  exists npf. destruct (push (TLit 37) s) as [dcnt prec isd isn fd th cm pc ld tk sc sm ecnt num idx cur it]. exact H'.
Qed.

Lemma pinv_sci m s : pinv s -> pinv (do_sci m s).
Proof.
  intros [npf [W I]]. unfold do_sci. destruct (s_sci s) eqn:E.
  - exists npf. destruct s as [dcnt prec isd isn fd th cm pc ld tk sc sm ecnt num idx cur it]. cbn [s_tokens s_digit_count s_exp_count s_number s_index s_sci s_found_dot] in *.
    split; [exact W|]. destruct num; subst; try exact I; destruct I as [? [? [? ?]]]; try congruence.
  - exists npf. destruct s as [dcnt prec isd isn fd th cm pc ld tk sc sm ecnt num idx cur it]. cbn [s_tokens s_digit_count s_exp_count s_number s_index s_sci s_found_dot] in *.
    subst. destruct num.
    + destruct I as [I1 [I2 _]]. subst. split; [exact W | split; reflexivity].
    + destruct I as [_ [_ [I2 _]]]. subst. split; [exact W | split; reflexivity].
    + destruct I as [I1 _]. discriminate.
Qed.

Lemma pinv_period s : pinv s -> pinv (do_period s).
Proof.
  intros H. unfold do_period.
  destruct (s_is_number s && negb (s_found_dot s)) eqn:E.
  - apply andb_true_iff in E as [_ E]. apply negb_true_iff in E.
    destruct H as [npf [W I]]. exists true.
    destruct s as [dcnt prec isd isn fd th cm pc ld tk sc sm ecnt num idx cur it]. cbn [push s_tokens s_digit_count s_exp_count s_number s_index s_sci s_found_dot] in *.
    subst. destruct num; cbn [s_tokens s_digit_count s_exp_count s_number s_index s_sci s_found_dot].
    + destruct I as [I1 [I2 [I3 _]]]. subst.
      split; [rewrite wf_run_app, W; reflexivity|]. repeat split. lia.
    + destruct I as [I1 _]. discriminate.
    + split; [rewrite wf_run_app, W; reflexivity | exact I].
  - apply pinv_push; [exact I | exact H].
Qed.

Lemma pinv_digit k s : kind_ok k = true -> pinv s -> pinv (push_digit k s).
Proof.
  intros K [npf [W I]]. unfold pinv, push_digit, count_digit.
  destruct s as [dcnt prec isd isn fd th cm pc ld tk sc sm ecnt num idx cur it]. cbn [s_tokens s_digit_count s_exp_count s_number s_index s_sci s_found_dot
                   s_precision s_is_date s_is_number s_thousands s_comma s_percent s_last_digit
                   s_sci_minus s_currency s_is_time] in *.
  destruct num.
  - destruct I as [I1 [I2 [I3 I4]]]. subst. cbn [s_tokens s_digit_count s_exp_count s_number s_index
      s_sci s_found_dot s_precision s_is_date s_is_number s_thousands s_comma s_percent s_last_digit
      s_sci_minus s_currency s_is_time].
    exists npf. split.
    + rewrite wf_run_app, W. cbn [wf_run]. rewrite K, !Z.eqb_refl. reflexivity.
    + repeat split.
  - destruct I as [I1 [I2 [I3 [I4 I5]]]]. subst. cbn [s_tokens s_digit_count s_exp_count s_number s_index
      s_sci s_found_dot s_precision s_is_date s_is_number s_thousands s_comma s_percent s_last_digit
      s_sci_minus s_currency s_is_time].
    exists false. split.
    + rewrite wf_run_app, W. cbn [wf_run]. rewrite K.
      replace (0 <=? idx) with true by (symmetry; apply Z.leb_le; lia).
      rewrite eqb_reflx. reflexivity.
    + repeat split; try lia; try (symmetry; apply Z.eqb_neq; lia).
  - destruct I as [I1 I2]. subst. cbn [s_tokens s_digit_count s_exp_count s_number s_index
      s_sci s_found_dot s_precision s_is_date s_is_number s_thousands s_comma s_percent s_last_digit
      s_sci_minus s_currency s_is_time].
    exists npf. split.
    + rewrite wf_run_app, W. cbn [wf_run]. rewrite K, Z.eqb_refl. reflexivity.
    + repeat split.
Qed.

Lemma pinv_step tok nd s : pinv s -> pinv (pstep tok nd s).
Proof.
  intros H. unfold pstep. apply pinv_set_last.
  destruct tok.
  - apply pinv_digit; [reflexivity | exact H].
  - apply pinv_digit; [reflexivity | exact H].
  - apply pinv_digit; [reflexivity | exact H].
  - apply pinv_comma; exact H.
  - apply pinv_period; exact H.
  - apply pinv_percent; exact H.
  - exact H.
  - apply pinv_push; [exact I | exact H].
  - apply pinv_sci; exact H.
  - apply pinv_sci; exact H.
  - exact H.
  - exact H.
  - apply pinv_push; [exact I|]. destruct (c =? 58); [apply pinv_set_flags|]; exact H.
  - apply pinv_push; [exact I | exact H].
  - apply pinv_push; [exact I | exact H].
  - apply pinv_push; [exact I | exact H].
  - apply pinv_set_currency; exact H.
  - exact H.
  - exact H.
  - apply pinv_push; [exact I | apply pinv_set_flags; exact H].
  - destruct (s_is_time s); apply pinv_push; try exact I; try apply pinv_set_flags; exact H.
  - apply pinv_push; [exact I | apply pinv_set_flags; exact H].
Qed.

Lemma finish_wf s n : pinv s -> finish s = PNumber n -> wf_part (np_part n) = true.
Proof.
  intros [npf [W _]] F. unfold finish in F.
  destruct (s_is_date s); [destruct (s_is_number s); discriminate|].
  inversion F; subst. unfold wf_part. cbn [np_part p_tokens].
  eapply wf_run_walk. cbn [p_digit_count p_exp_count]. exact W.
Qed.

Lemma parse_loop_wf : forall toks s n rest,
  pinv s -> parse_loop toks s = (PNumber n, rest) -> wf_part (np_part n) = true.
Proof.
  induction toks as [|tok toks IH]; intros s n rest P H; cbn [parse_loop] in H.
  - inversion H. eapply finish_wf; eassumption.
  - destruct tok;
      try (eapply IH; [apply pinv_step; exact P | exact H]).
    + inversion H. eapply finish_wf; eassumption.
    + destruct (s_tokens s); inversion H.
    + inversion H.
Qed.

(* every Number section the parser produces, from any token stream, is well formed *)
Theorem parser_wf toks n rest :
  parse_part toks = (PNumber n, rest) -> wf_part (np_part n) = true.
Proof. apply parse_loop_wf. apply pinv_init. Qed.

(* ... so formatting never indexes out of bounds, whatever the format code and the digits *)
Theorem no_panic_any_code toks n rest loc d :
  parse_part toks = (PNumber n, rest) -> place (np_part n) loc d <> Panic.
Proof. intro H. apply place_no_panic. eapply parser_wf. exact H. Qed.

(* ... for every section of a multi-section code *)
Lemma parse_all_wf : forall fuel toks n,
  In (PNumber n) (parse_all fuel toks) -> wf_part (np_part n) = true.
Proof.
  induction fuel as [|f IH]; intros toks n H; cbn [parse_all] in H; [contradiction|].
  destruct toks as [|t toks]; [contradiction|].
  destruct (parse_part (t :: toks)) as [r rest] eqn:E.
  destruct H as [H|H].
  - subst r. eapply parser_wf. exact E.
  - eapply IH. exact H.
Qed.

Theorem parse_sections_wf toks n :
  In (PNumber n) (parse toks) -> wf_part (np_part n) = true.
Proof. apply parse_all_wf. Qed.
