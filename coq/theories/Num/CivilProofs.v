(* Num/CivilProofs.v — the calendar of Civil.v is a bijection between day numbers and valid
   (year, month, day) triples, for ALL integers (no finite sweep), and the serial-number
   layer of IronCalc built on it is one-to-one on the supported range.
   Arithmetic is closed by [lia] after [Z.div_mod_to_equations]. *)
From IronCalc Require Import Base.Prelude Base.Dec Num.Civil.

Ltac dlia := Z.div_mod_to_equations; lia.

(* ---- the year inside an era ------------------------------------------------------------ *)

(* first day after year-of-era k (k+1 = 400 closes the era: the leap day of the 400th year) *)
Definition era_year_end (k : Z) : Z :=
  365 * (k + 1) + (k + 1) / 4 - (k + 1) / 100 + (k + 1) / 400.

Lemma yoe_bounds doe : 0 <= doe <= 146096 -> 0 <= yoe_of_doe doe <= 399.
Proof. intros H. unfold yoe_of_doe. dlia. Qed.

Lemma yoe_start_le doe : 0 <= doe <= 146096 -> era_year_start (yoe_of_doe doe) <= doe.
Proof. intros H. unfold yoe_of_doe, era_year_start. dlia. Qed.

Lemma yoe_end_gt doe : 0 <= doe <= 146096 -> doe < era_year_end (yoe_of_doe doe).
Proof. intros H. unfold yoe_of_doe, era_year_end. dlia. Qed.

Lemma yoe_unique doe k :
  0 <= k <= 399 -> era_year_start k <= doe < era_year_end k -> yoe_of_doe doe = k.
Proof. intros H H2. unfold yoe_of_doe, era_year_end, era_year_start in *. dlia. Qed.

Lemma era_year_start_nonneg k : 0 <= k -> 0 <= era_year_start k.
Proof. intros H. unfold era_year_start. dlia. Qed.

Lemma era_year_end_le k : 0 <= k <= 399 -> era_year_end k <= 146097.
Proof. intros H. unfold era_year_end. dlia. Qed.

(* length of year-of-era k is 365 or 366 *)
Lemma era_year_len k : 0 <= k <= 399 ->
  365 <= era_year_end k - era_year_start k <= 366.
Proof. intros H. unfold era_year_end, era_year_start. dlia. Qed.

(* the March-based year k of era e ends with the February of civil year 400e + k + 1 *)
Lemma era_year_len_leap e k : 0 <= k <= 399 ->
  era_year_end k - era_year_start k = if is_leap (e * 400 + k + 1) then 366 else 365.
Proof.
  intros H. unfold is_leap, era_year_end, era_year_start.
  destruct ((e * 400 + k + 1) mod 4 =? 0) eqn:E4;
  destruct ((e * 400 + k + 1) mod 100 =? 0) eqn:E100;
  destruct ((e * 400 + k + 1) mod 400 =? 0) eqn:E400; cbn [andb orb negb];
  rewrite ?Z.eqb_eq, ?Z.eqb_neq in *; dlia.
Qed.

(* ---- the month inside a March-based year --------------------------------------------------- *)

Lemma month_start_values :
  month_start 0 = 0 /\ month_start 1 = 31 /\ month_start 2 = 61 /\ month_start 3 = 92 /\
  month_start 4 = 122 /\ month_start 5 = 153 /\ month_start 6 = 184 /\ month_start 7 = 214 /\
  month_start 8 = 245 /\ month_start 9 = 275 /\ month_start 10 = 306 /\ month_start 11 = 337 /\
  month_start 12 = 367.
Proof. repeat split; reflexivity. Qed.

Lemma mp_of_doy mp d0 :
  0 <= mp <= 11 -> 0 <= d0 -> month_start mp + d0 < month_start (mp + 1) ->
  (5 * (month_start mp + d0) + 2) / 153 = mp.
Proof. intros Hmp Hd H. unfold month_start in *. dlia. Qed.

Lemma doy_mp doy : 0 <= doy <= 365 ->
  0 <= (5 * doy + 2) / 153 <= 11 /\
  month_start ((5 * doy + 2) / 153) <= doy < month_start ((5 * doy + 2) / 153 + 1).
Proof. intros H. unfold month_start. dlia. Qed.

(* civil month number and March-based month index *)
Definition mp_of_m (m : Z) : Z := if m <=? 2 then m + 9 else m - 3.
Definition m_of_mp (mp : Z) : Z := if mp <? 10 then mp + 3 else mp - 9.

Lemma m_of_mp_of_m m : 1 <= m <= 12 -> m_of_mp (mp_of_m m) = m /\ 0 <= mp_of_m m <= 11.
Proof.
  intros H. unfold m_of_mp, mp_of_m. destruct (m <=? 2) eqn:E;
  [apply Z.leb_le in E | apply Z.leb_gt in E].
  - destruct (m + 9 <? 10) eqn:E2; [apply Z.ltb_lt in E2 | apply Z.ltb_ge in E2]; lia.
  - destruct (m - 3 <? 10) eqn:E2; [apply Z.ltb_lt in E2 | apply Z.ltb_ge in E2]; lia.
Qed.

Lemma mp_of_m_of_mp mp : 0 <= mp <= 11 -> mp_of_m (m_of_mp mp) = mp /\ 1 <= m_of_mp mp <= 12.
Proof.
  intros H. unfold m_of_mp, mp_of_m. destruct (mp <? 10) eqn:E;
  [apply Z.ltb_lt in E | apply Z.ltb_ge in E].
  - destruct (mp + 3 <=? 2) eqn:E2; [apply Z.leb_le in E2 | apply Z.leb_gt in E2]; lia.
  - destruct (mp - 9 <=? 2) eqn:E2; [apply Z.leb_le in E2 | apply Z.leb_gt in E2]; lia.
Qed.

(* month lengths from the 153-day formula; February (mp = 11) is the remainder of the year *)
Lemma month_len_not_feb y m : 1 <= m <= 12 -> m <> 2 ->
  month_start (mp_of_m m + 1) - month_start (mp_of_m m) = days_in_month y m.
Proof.
  intros H Hm. unfold days_in_month. replace (m =? 2) with false by (symmetry; apply Z.eqb_neq; lia).
  assert (m = 1 \/ m = 3 \/ m = 4 \/ m = 5 \/ m = 6 \/ m = 7 \/ m = 8 \/ m = 9 \/ m = 10 \/ m = 11 \/ m = 12)
    as Hc by lia.
  repeat (destruct Hc as [-> | Hc]); try subst m; reflexivity.
Qed.

Lemma days_in_month_feb y : days_in_month y 2 = if is_leap y then 29 else 28.
Proof. reflexivity. Qed.

Lemma days_in_month_bounds y m : 28 <= days_in_month y m <= 31.
Proof.
  unfold days_in_month. destruct (m =? 2); [destruct (is_leap y); lia|].
  destruct ((m =? 4) || (m =? 6) || (m =? 9) || (m =? 11)); lia.
Qed.

(* ---- decomposition of days_of_civil -------------------------------------------------------- *)

(* everything the two directions need about one date, in one place *)
Lemma civil_parts y m d : valid_date y m d ->
  let y' := if m <=? 2 then y - 1 else y in
  let era := y' / 400 in
  let yoe := y' - era * 400 in
  let mp := mp_of_m m in
  let doy := month_start mp + d - 1 in
  0 <= yoe <= 399 /\ 0 <= mp <= 11 /\ 0 <= d - 1 /\
  month_start mp + (d - 1) < month_start (mp + 1) /\
  0 <= doy /\ era_year_start yoe + doy < era_year_end yoe.
Proof.
  intros [Hm Hd] y' era yoe mp doy.
  assert (Hyoe : 0 <= yoe <= 399) by (subst yoe era; dlia).
  destruct (m_of_mp_of_m m Hm) as [_ Hmp]. fold mp in Hmp.
  pose proof month_start_values as MS.
  destruct (Z.eq_dec m 2) as [E2 | N2].
  - (* February: bounded by the length of the era year *)
    subst m. change (mp_of_m 2) with 11 in *. subst mp.
    rewrite days_in_month_feb in Hd.
    assert (Hy : y = era * 400 + yoe + 1) by (subst yoe y'; cbn; lia).
    pose proof (era_year_len_leap era yoe Hyoe) as HL. rewrite <- Hy in HL.
    change (11 + 1) with 12. subst doy.
    destruct MS as (_&_&_&_&_&_&_&_&_&_&_&M11&M12). rewrite M11, M12.
    destruct (is_leap y); repeat split; lia.
  - pose proof (month_len_not_feb y m Hm N2) as HL. fold mp in HL.
    pose proof (era_year_len yoe Hyoe) as HY.
    assert (Hms : 0 <= month_start mp /\ month_start (mp + 1) <= 337).
    { unfold mp, mp_of_m. destruct (m <=? 2) eqn:E; [apply Z.leb_le in E | apply Z.leb_gt in E].
      - assert (m = 1) as -> by lia. cbn. lia.
      - unfold month_start. dlia. }
    subst doy. repeat split; lia.
Qed.

(* ---- Theorem 1: civil_of_days (days_of_civil y m d) = (y, m, d), every valid date ----------- *)

Theorem civil_of_days_of_civil y m d :
  valid_date y m d -> civil_of_days (days_of_civil y m d) = (y, m, d).
Proof.
  intros Hv. pose proof (civil_parts y m d Hv) as P. cbv zeta in P.
  destruct Hv as [Hm Hd].
  unfold days_of_civil. fold (mp_of_m m).
  set (y' := if m <=? 2 then y - 1 else y) in *.
  set (era := y' / 400) in *.
  set (yoe := y' - era * 400) in *.
  set (mp := mp_of_m m) in *.
  set (doy := month_start mp + d - 1) in *.
  destruct P as (Hyoe & Hmp & Hd0 & Hmlen & Hdoy & Hend).
  set (doe := era_year_start yoe + doy).
  assert (Hdoe : 0 <= doe <= 146096).
  { pose proof (era_year_start_nonneg yoe ltac:(lia)). pose proof (era_year_end_le yoe Hyoe).
    subst doe. lia. }
  unfold civil_of_days.
  replace (era * 146097 + doe - 305 + 305) with (doe + era * 146097) by ring.
  rewrite Z.div_add by lia. rewrite (Z.div_small doe 146097) by lia.
  replace (doe + era * 146097 - (0 + era) * 146097) with doe by ring.
  rewrite (yoe_unique doe yoe Hyoe) by (subst doe; lia).
  replace (doe - era_year_start yoe) with (month_start mp + (d - 1)) by (subst doe doy; ring).
  rewrite (mp_of_doy mp (d - 1) Hmp Hd0 Hmlen).
  fold (m_of_mp mp). destruct (m_of_mp_of_m m Hm) as [Hmm _]. fold mp in Hmm. rewrite Hmm.
  replace (month_start mp + (d - 1) - month_start mp + 1) with d by ring.
  replace (yoe + (0 + era) * 400) with y' by (subst yoe; ring).
  subst y'. destruct (m <=? 2); [replace (y - 1 + 1) with y by ring|]; reflexivity.
Qed.

(* ---- Theorem 2: days_of_civil (civil_of_days n) = n and the result is a valid date, all n ---- *)

Lemma civil_of_days_parts n :
  let z := n + 305 in
  let era := z / 146097 in
  let doe := z - era * 146097 in
  let yoe := yoe_of_doe doe in
  let doy := doe - era_year_start yoe in
  let mp := (5 * doy + 2) / 153 in
  0 <= doe <= 146096 /\ 0 <= yoe <= 399 /\ 0 <= doy <= 365 /\
  era_year_start yoe + doy < era_year_end yoe /\
  0 <= mp <= 11 /\ month_start mp <= doy < month_start (mp + 1).
Proof.
  intros z era doe yoe doy mp.
  assert (Hdoe : 0 <= doe <= 146096) by (subst doe era; dlia).
  pose proof (yoe_bounds doe Hdoe) as Hyoe. fold yoe in Hyoe.
  pose proof (yoe_start_le doe Hdoe) as HS. fold yoe in HS.
  pose proof (yoe_end_gt doe Hdoe) as HE. fold yoe in HE.
  pose proof (era_year_len yoe Hyoe) as HL.
  assert (Hdoy : 0 <= doy <= 365) by (subst doy; lia).
  pose proof (doy_mp doy Hdoy) as [Hmp Hms]. fold mp in Hmp, Hms.
  repeat split; lia.
Qed.

Theorem days_of_civil_of_days n : days_of_date (civil_of_days n) = n.
Proof.
  pose proof (civil_of_days_parts n) as P. cbv zeta in P.
  unfold civil_of_days, days_of_date.
  set (z := n + 305) in *.
  set (era := z / 146097) in *.
  set (doe := z - era * 146097) in *.
  set (yoe := yoe_of_doe doe) in *.
  set (doy := doe - era_year_start yoe) in *.
  set (mp := (5 * doy + 2) / 153) in *.
  destruct P as (Hdoe & Hyoe & Hdoy & Hend & Hmp & Hms).
  fold (m_of_mp mp). destruct (mp_of_m_of_mp mp Hmp) as [Hmm Hm].
  set (m := m_of_mp mp) in *.
  unfold days_of_civil. fold (mp_of_m m). rewrite Hmm.
  assert (Hy : (if m <=? 2
                then (if m <=? 2 then yoe + era * 400 + 1 else yoe + era * 400) - 1
                else (if m <=? 2 then yoe + era * 400 + 1 else yoe + era * 400))
               = yoe + era * 400) by (destruct (m <=? 2); ring).
  rewrite Hy.
  rewrite Z.div_add by lia. rewrite (Z.div_small yoe 400) by lia.
  replace (yoe + era * 400 - (0 + era) * 400) with yoe by ring.
  subst doy doe z. ring.
Qed.

Theorem civil_of_days_valid n :
  match civil_of_days n with (y, m, d) => valid_date y m d end.
Proof.
  pose proof (civil_of_days_parts n) as P. cbv zeta in P.
  unfold civil_of_days.
  set (z := n + 305) in *.
  set (era := z / 146097) in *.
  set (doe := z - era * 146097) in *.
  set (yoe := yoe_of_doe doe) in *.
  set (doy := doe - era_year_start yoe) in *.
  set (mp := (5 * doy + 2) / 153) in *.
  destruct P as (Hdoe & Hyoe & Hdoy & Hend & Hmp & Hms).
  fold (m_of_mp mp). destruct (mp_of_m_of_mp mp Hmp) as [Hmm Hm].
  set (m := m_of_mp mp) in *.
  split; [exact Hm|]. split; [lia|].
  destruct (Z.eq_dec m 2) as [E2 | N2].
  - assert (mp = 11) as Hmp11.
    { unfold m, m_of_mp in E2. destruct (mp <? 10) eqn:E; [apply Z.ltb_lt in E | apply Z.ltb_ge in E]; lia. }
    rewrite E2. change (2 <=? 2) with true. cbv iota.
    rewrite days_in_month_feb.
    pose proof (era_year_len_leap era yoe Hyoe) as HL.
    replace (yoe + era * 400 + 1) with (era * 400 + yoe + 1) by ring.
    rewrite Hmp11 in *. change (month_start 11) with 337 in *.
    destruct (is_leap (era * 400 + yoe + 1)); lia.
  - pose proof (month_len_not_feb (if m <=? 2 then yoe + era * 400 + 1 else yoe + era * 400) m Hm N2) as HL.
    rewrite Hmm in HL. lia.
Qed.

(* uniqueness: a day number has exactly one valid date *)
Corollary civil_unique n y m d :
  valid_date y m d -> days_of_civil y m d = n -> civil_of_days n = (y, m, d).
Proof. intros Hv <-. apply civil_of_days_of_civil. exact Hv. Qed.

Corollary days_of_civil_injective y1 m1 d1 y2 m2 d2 :
  valid_date y1 m1 d1 -> valid_date y2 m2 d2 ->
  days_of_civil y1 m1 d1 = days_of_civil y2 m2 d2 -> (y1, m1, d1) = (y2, m2, d2).
Proof.
  intros H1 H2 E. rewrite <- (civil_of_days_of_civil _ _ _ H1), <- (civil_of_days_of_civil _ _ _ H2), E.
  reflexivity.
Qed.

(* next day: the calendar advances by one day per day number *)
Lemma days_of_civil_day_linear y m d k : days_of_civil y m (d + k) = days_of_civil y m d + k.
Proof. unfold days_of_civil. ring. Qed.

(* ---- monotonicity in the year (for the range statements) ---------------------------------------- *)

Lemma days_of_civil_year_bounds y m d : valid_date y m d ->
  days_of_civil y 1 1 <= days_of_civil y m d <= days_of_civil y 12 31.
Proof.
  intros Hv. pose proof (civil_parts y m d Hv) as P. cbv zeta in P.
  destruct P as (Hyoe & Hmp & Hd0 & Hmlen & Hdoy & Hend).
  destruct Hv as [Hm Hd].
  unfold days_of_civil. change (1 <=? 2) with true. change (12 <=? 2) with false. cbv iota.
  change (month_start (1 + 9)) with 306. change (month_start (12 - 3)) with 275.
  fold (mp_of_m m).
  unfold era_year_end in Hend.
  destruct (m <=? 2) eqn:E; [apply Z.leb_le in E | apply Z.leb_gt in E].
  - assert (Hms : 306 <= month_start (mp_of_m m)).
    { unfold mp_of_m. replace (m <=? 2) with true by (symmetry; apply Z.leb_le; lia).
      assert (m = 1 \/ m = 2) as [-> | ->] by lia; cbn; lia. }
    split; [lia|].
    (* end of February <= 31 December of the same civil year *)
    unfold era_year_start in *. dlia.
  - assert (Hms : month_start (mp_of_m m) + (d - 1) < 306).
    { assert (month_start (mp_of_m m + 1) <= 306); [|lia].
      unfold mp_of_m. replace (m <=? 2) with false by (symmetry; apply Z.leb_gt; lia).
      unfold month_start. dlia. }
    split; [|lia].
    unfold era_year_start in *. dlia.
Qed.

Lemma days_of_civil_jan1_mono y1 y2 : y1 <= y2 -> days_of_civil y1 1 1 <= days_of_civil y2 1 1.
Proof.
  intros H. unfold days_of_civil. change (1 <=? 2) with true. cbv iota.
  unfold era_year_start. dlia.
Qed.

Lemma days_of_civil_dec31_jan1 y : days_of_civil y 12 31 + 1 = days_of_civil (y + 1) 1 1.
Proof.
  unfold days_of_civil. change (1 <=? 2) with true. change (12 <=? 2) with false. cbv iota.
  replace (y + 1 - 1) with y by ring.
  change (month_start (1 + 9)) with 306. change (month_start (12 - 3)) with 275. ring.
Qed.

(* ---- serial numbers ---------------------------------------------------------------------------- *)

Lemma base_1900 : days_of_civil 1900 1 1 = 693596.
Proof. reflexivity. Qed.

(* the two bases of the code define the same numbering:
   (1900-01-01 + (n - 2) days).num_days_from_ce() - 693594 = n *)
Theorem bases_agree n : serial_of_days (serial_days n) = n.
Proof. unfold serial_of_days, serial_days, EXCEL_DATE_BASE. rewrite base_1900. ring. Qed.

Lemma in_serial_range_spec n : in_serial_range n = true <-> 1 <= n <= 2958465.
Proof.
  unfold in_serial_range, MINIMUM_DATE_SERIAL_NUMBER, MAXIMUM_DATE_SERIAL_NUMBER.
  rewrite andb_true_iff, Z.leb_le, Z.leb_le. tauto.
Qed.

Lemma of_serial_in_range n : 1 <= n <= 2958465 -> of_serial n = Ok (civil_of_days (serial_days n)).
Proof.
  intros H. unfold of_serial, MINIMUM_DATE_SERIAL_NUMBER, MAXIMUM_DATE_SERIAL_NUMBER.
  replace (n <? 1) with false by (symmetry; apply Z.ltb_ge; lia).
  replace (n >? 2958465) with false by (symmetry; rewrite Z.gtb_ltb; apply Z.ltb_ge; lia).
  reflexivity.
Qed.

Lemma of_serial_out_of_range n : n < 1 \/ 2958465 < n -> of_serial n = Err.
Proof.
  intros H. unfold of_serial, MINIMUM_DATE_SERIAL_NUMBER, MAXIMUM_DATE_SERIAL_NUMBER.
  destruct (n <? 1) eqn:E; [reflexivity|]. apply Z.ltb_ge in E.
  replace (n >? 2958465) with true by (symmetry; rewrite Z.gtb_ltb; apply Z.ltb_lt; lia).
  reflexivity.
Qed.

Lemma valid_dateb_spec y m d : valid_dateb y m d = true <-> valid_date y m d.
Proof.
  unfold valid_dateb, valid_date. rewrite !andb_true_iff, !Z.leb_le. tauto.
Qed.

(* the supported dates: 1899-12-31 and every valid date of the years 1900..9999 *)
Definition supported_date (y m d : Z) : Prop :=
  valid_date y m d /\ ((y = 1899 /\ m = 12 /\ d = 31) \/ 1900 <= y <= 9999).

Lemma year_of_days_bounds y m d lo hi :
  valid_date y m d -> days_of_civil lo 1 1 <= days_of_civil y m d <= days_of_civil hi 12 31 -> lo <= y <= hi.
Proof.
  intros Hv [Hlo Hhi]. pose proof (days_of_civil_year_bounds y m d Hv) as [B1 B2].
  split.
  - destruct (Z_lt_le_dec y lo) as [Hlt|]; [|lia]. exfalso.
    pose proof (days_of_civil_jan1_mono (y + 1) lo ltac:(lia)).
    pose proof (days_of_civil_dec31_jan1 y). lia.
  - destruct (Z_lt_le_dec hi y) as [Hlt|]; [|lia]. exfalso.
    pose proof (days_of_civil_jan1_mono (hi + 1) y ltac:(lia)).
    pose proof (days_of_civil_dec31_jan1 hi). lia.
Qed.

Lemma supported_date_serial y m d : valid_date y m d ->
  (supported_date y m d <-> 1 <= serial_of_days (days_of_civil y m d) <= 2958465).
Proof.
  intros Hv. unfold supported_date, serial_of_days, EXCEL_DATE_BASE.
  assert (L : days_of_civil 1900 1 1 = 693596) by reflexivity.
  assert (L0 : days_of_civil 1899 12 31 = 693595) by reflexivity.
  assert (U : days_of_civil 9999 12 31 = 3652059) by reflexivity.
  pose proof (days_of_civil_year_bounds y m d Hv) as [B1 B2].
  split.
  - intros [_ [(-> & -> & ->) | Hy]]; [rewrite L0; lia|].
    pose proof (days_of_civil_jan1_mono 1900 y ltac:(lia)).
    pose proof (days_of_civil_jan1_mono (y + 1) 10000 ltac:(lia)).
    pose proof (days_of_civil_dec31_jan1 y). pose proof (days_of_civil_dec31_jan1 9999).
    change (9999 + 1) with 10000 in *. lia.
  - intros H. split; [exact Hv|].
    destruct (Z.eq_dec (days_of_civil y m d) 693595) as [E | N].
    + left. rewrite <- L0 in E.
      assert (V0 : valid_date 1899 12 31) by (unfold valid_date; cbn; lia).
      pose proof (days_of_civil_injective _ _ _ _ _ _ Hv V0 E) as Ei. inversion Ei. auto.
    + right. apply (year_of_days_bounds y m d 1900 9999 Hv). lia.
Qed.

(* serial -> date -> the same serial, every serial of the supported range *)
Theorem to_serial_of_serial n : 1 <= n <= 2958465 ->
  exists y m d, of_serial n = Ok (y, m, d) /\ supported_date y m d /\ to_serial y m d = Ok n.
Proof.
  intros H. rewrite (of_serial_in_range n H).
  pose proof (civil_of_days_valid (serial_days n)) as Hv.
  pose proof (days_of_civil_of_days (serial_days n)) as Hr.
  destruct (civil_of_days (serial_days n)) as [[y m] d]. cbn [days_of_date] in Hr.
  exists y, m, d. split; [reflexivity|].
  assert (Hs : serial_of_days (days_of_civil y m d) = n) by (rewrite Hr; apply bases_agree).
  assert (Hsup : supported_date y m d) by (apply supported_date_serial; [exact Hv | rewrite Hs; exact H]).
  split; [exact Hsup|].
  unfold to_serial.
  replace (valid_dateb y m d) with true by (symmetry; apply valid_dateb_spec; exact Hv).
  replace (chrono_year_ok y) with true; [cbn [andb]; rewrite Hs; reflexivity|].
  symmetry. unfold chrono_year_ok, CHRONO_MIN_YEAR, CHRONO_MAX_YEAR.
  destruct Hsup as [_ [(-> & _) | Hy]]; apply andb_true_iff; split; apply Z.leb_le; lia.
Qed.

(* date -> serial -> the same date, every supported date *)
Theorem of_serial_to_serial y m d : supported_date y m d ->
  exists n, to_serial y m d = Ok n /\ 1 <= n <= 2958465 /\ of_serial n = Ok (y, m, d).
Proof.
  intros Hsup. pose proof Hsup as [Hv Hy].
  exists (serial_of_days (days_of_civil y m d)).
  pose proof (proj1 (supported_date_serial y m d Hv) Hsup) as Hr.
  split; [|split; [exact Hr|]].
  - unfold to_serial.
    replace (valid_dateb y m d) with true by (symmetry; apply valid_dateb_spec; exact Hv).
    replace (chrono_year_ok y) with true; [reflexivity|].
    symmetry. unfold chrono_year_ok, CHRONO_MIN_YEAR, CHRONO_MAX_YEAR.
    destruct Hy as [(-> & _) | Hy]; apply andb_true_iff; split; apply Z.leb_le; lia.
  - rewrite (of_serial_in_range _ Hr).
    replace (serial_days (serial_of_days (days_of_civil y m d))) with (days_of_civil y m d)
      by (unfold serial_days, serial_of_days, EXCEL_DATE_BASE; rewrite base_1900; ring).
    rewrite (civil_of_days_of_civil y m d Hv). reflexivity.
Qed.

(* to_serial has no range check: a valid date outside the supported ones gets a serial that
   of_serial rejects (typed "1899-12-30" becomes the number 0) *)
Theorem to_serial_unsupported y m d n :
  to_serial y m d = Ok n -> ~ supported_date y m d -> of_serial n = Err.
Proof.
  unfold to_serial. intros H Hns.
  destruct (chrono_year_ok y && valid_dateb y m d) eqn:E; [|discriminate].
  apply andb_true_iff in E as [_ Hv]. apply valid_dateb_spec in Hv.
  inversion H as [Hn]. apply of_serial_out_of_range.
  pose proof (supported_date_serial y m d Hv) as S.
  destruct (Z_lt_le_dec (serial_of_days (days_of_civil y m d)) 1); [lia|].
  destruct (Z_lt_le_dec 2958465 (serial_of_days (days_of_civil y m d))); [lia|].
  exfalso. apply Hns. apply S. lia.
Qed.

Theorem of_serial_injective a b t : of_serial a = Ok t -> of_serial b = Ok t -> a = b.
Proof.
  intros Ha Hb.
  assert (Ra : 1 <= a <= 2958465).
  { destruct (Z_lt_le_dec a 1); [rewrite of_serial_out_of_range in Ha by lia; discriminate|].
    destruct (Z_lt_le_dec 2958465 a); [rewrite of_serial_out_of_range in Ha by lia; discriminate|]. lia. }
  assert (Rb : 1 <= b <= 2958465).
  { destruct (Z_lt_le_dec b 1); [rewrite of_serial_out_of_range in Hb by lia; discriminate|].
    destruct (Z_lt_le_dec 2958465 b); [rewrite of_serial_out_of_range in Hb by lia; discriminate|]. lia. }
  rewrite (of_serial_in_range a Ra) in Ha. rewrite (of_serial_in_range b Rb) in Hb.
  inversion Ha as [Ea]. inversion Hb as [Eb].
  pose proof (days_of_civil_of_days (serial_days a)) as Da.
  pose proof (days_of_civil_of_days (serial_days b)) as Db.
  rewrite Ea in Da. rewrite Eb in Db. unfold serial_days in *. lia.
Qed.

Theorem serial_bounds :
  of_serial 1 = Ok (1899, 12, 31) /\ of_serial 2958465 = Ok (9999, 12, 31) /\
  of_serial 0 = Err /\ of_serial 2958466 = Err /\
  to_serial 1899 12 31 = Ok 1 /\ to_serial 9999 12 31 = Ok 2958465 /\
  of_serial 2 = Ok (1900, 1, 1) /\
  (* no phantom 1900-02-29: the serials around it are consecutive real days *)
  of_serial 59 = Ok (1900, 2, 27) /\ of_serial 60 = Ok (1900, 2, 28) /\ of_serial 61 = Ok (1900, 3, 1) /\
  to_serial 1900 2 29 = Err.
Proof. vm_compute. repeat split; reflexivity. Qed.

(* consecutive serials are consecutive days *)
Theorem serial_days_succ n : serial_days (n + 1) = serial_days n + 1.
Proof. unfold serial_days. ring. Qed.

(* ---- weekday ---------------------------------------------------------------------------------- *)

Theorem weekday_period n : weekday (n + 7) = weekday n.
Proof. unfold weekday, wd_from_sunday0, serial_days. rewrite base_1900. dlia. Qed.

Theorem weekday_range n : 1 <= weekday n <= 7.
Proof. unfold weekday, wd_from_sunday0. dlia. Qed.

Theorem weekday_succ n : weekday (n + 1) = weekday n mod 7 + 1.
Proof. unfold weekday, wd_from_sunday0, serial_days. rewrite base_1900. dlia. Qed.

(* anchors: serial 1 (1899-12-31) is a Sunday; 2 (1900-01-01) a Monday;
   45000 (2023-03-15) a Wednesday *)
Theorem weekday_anchor : weekday 1 = 1 /\ weekday 2 = 2 /\ weekday 45000 = 4.
Proof. repeat split; reflexivity. Qed.

Theorem weekday_closed_form n : weekday n = (n - 1) mod 7 + 1.
Proof. unfold weekday, wd_from_sunday0, serial_days. rewrite base_1900. dlia. Qed.

(* the return types of WEEKDAY are re-numberings of the same day *)
Theorem fn_weekday_types n : 1 <= n <= 2958465 ->
  let w := weekday n in
  fn_weekday n 1 = FNum w /\
  fn_weekday n 2 = FNum ((w + 5) mod 7 + 1) /\
  fn_weekday n 3 = FNum ((w + 5) mod 7) /\
  fn_weekday n 11 = fn_weekday n 2 /\
  fn_weekday n 17 = fn_weekday n 1 /\
  (forall t, 11 <= t <= 17 -> fn_weekday n t = FNum ((w + 5 - (t - 11)) mod 7 + 1)) /\
  fn_weekday n 0 = FErrValue /\
  (forall t, t < 0 \/ 4 <= t <= 10 \/ 18 <= t -> fn_weekday n t = FErrNum).
Proof.
  intros H w. unfold fn_weekday. rewrite (of_serial_in_range n H).
  assert (Hw : w = serial_days n mod 7 + 1) by reflexivity.
  assert (T : forall t, 11 <= t <= 17 ->
              weekday_number (serial_days n) t = FNum ((w + 5 - (t - 11)) mod 7 + 1)).
  { intros t Ht. unfold weekday_number.
    replace (t =? 1) with false by (symmetry; apply Z.eqb_neq; lia).
    replace (t =? 2) with false by (symmetry; apply Z.eqb_neq; lia).
    replace (t =? 3) with false by (symmetry; apply Z.eqb_neq; lia).
    replace ((11 <=? t) && (t <=? 17)) with true
      by (symmetry; apply andb_true_iff; split; apply Z.leb_le; lia).
    f_equal. unfold wd_from_monday0. rewrite Hw. dlia. }
  repeat split.
  - change (weekday_number (serial_days n) 2) with (FNum (wd_from_monday0 (serial_days n) + 1)).
    f_equal. unfold wd_from_monday0. rewrite Hw. dlia.
  - change (weekday_number (serial_days n) 3) with (FNum (wd_from_monday0 (serial_days n) mod 7)).
    f_equal. unfold wd_from_monday0. rewrite Hw. dlia.
  - rewrite (T 11) by lia.
    change (weekday_number (serial_days n) 2) with (FNum (wd_from_monday0 (serial_days n) + 1)).
    f_equal. unfold wd_from_monday0. rewrite Hw. dlia.
  - rewrite (T 17) by lia.
    change (weekday_number (serial_days n) 1) with (FNum (wd_from_sunday0 (serial_days n) + 1)).
    f_equal. unfold wd_from_sunday0. rewrite Hw. dlia.
  - exact T.
  - intros t Ht. unfold weekday_number.
    replace (t =? 1) with false by (symmetry; apply Z.eqb_neq; lia).
    replace (t =? 2) with false by (symmetry; apply Z.eqb_neq; lia).
    replace (t =? 3) with false by (symmetry; apply Z.eqb_neq; lia).
    replace (t =? 0) with false by (symmetry; apply Z.eqb_neq; lia).
    destruct ((11 <=? t) && (t <=? 17)) eqn:E; [|reflexivity].
    apply andb_true_iff in E as [E1 E2]. apply Z.leb_le in E1. apply Z.leb_le in E2. lia.
Qed.

(* ---- YEAR / MONTH / DAY / DATE ------------------------------------------------------------------ *)

Lemma add_months_jan1_id y m : chrono_year_ok y = true -> 1 <= m <= 12 ->
  add_months_jan1 y (m - 1) = Some (y, m).
Proof.
  intros Hy Hm. unfold add_months_jan1.
  replace ((y * 12 + (m - 1)) / 12) with y by dlia.
  replace ((y * 12 + (m - 1)) mod 12 + 1) with m by dlia.
  rewrite Hy. reflexivity.
Qed.

Lemma chrono_days_bounds : CHRONO_MIN_DAYS = -95746129 /\ CHRONO_MAX_DAYS = 95745399.
Proof. split; vm_compute; reflexivity. Qed.

(* DATE(YEAR(n), MONTH(n), DAY(n)) = n on the whole supported range *)
Theorem fn_date_of_serial n y m d : of_serial n = Ok (y, m, d) -> fn_date y m d = FNum n.
Proof.
  intros Ho.
  assert (R : 1 <= n <= 2958465).
  { destruct (Z_lt_le_dec n 1); [rewrite of_serial_out_of_range in Ho by lia; discriminate|].
    destruct (Z_lt_le_dec 2958465 n); [rewrite of_serial_out_of_range in Ho by lia; discriminate|]. lia. }
  destruct (to_serial_of_serial n R) as (y' & m' & d' & Ho' & Hsup & Hts).
  rewrite Ho in Ho'. inversion Ho'; subst y' m' d'. clear Ho'.
  destruct Hsup as [Hv Hy].
  unfold to_serial in Hts.
  destruct (chrono_year_ok y && valid_dateb y m d) eqn:E; [|discriminate].
  apply andb_true_iff in E as [Hcy _]. inversion Hts as [Hs]. clear Hts.
  unfold fn_date.
  destruct Hy as [(-> & -> & ->) | Hy].
  - (* 1899-12-31: the special case *) vm_compute in Hs. subst n. reflexivity.
  - replace (y <? 0) with false by (symmetry; apply Z.ltb_ge; lia).
    replace (y =? 1899) with false by (symmetry; apply Z.eqb_neq; lia). cbn [andb].
    rewrite Hcy. cbn [negb].
    pose proof Hv as [Hm Hd].
    pose proof (days_in_month_bounds y m).
    assert (V1 : valid_date y 1 1) by (split; [lia|]; pose proof (days_in_month_bounds y 1); lia).
    assert (Vm : valid_date y m 1) by (split; lia).
    assert (S1 : supported_date y 1 1) by (split; [exact V1 | right; exact Hy]).
    assert (Sm : supported_date y m 1) by (split; [exact Vm | right; exact Hy]).
    apply (supported_date_serial y 1 1 V1) in S1. apply (supported_date_serial y m 1 Vm) in Sm.
    replace (in_serial_range (serial_of_days (days_of_civil y 1 1))) with true
      by (symmetry; apply in_serial_range_spec; exact S1). cbn [negb].
    rewrite (add_months_jan1_id y m Hcy Hm).
    replace (in_serial_range (serial_of_days (days_of_civil y m 1))) with true
      by (symmetry; apply in_serial_range_spec; exact Sm). cbn [negb].
    unfold add_days. destruct chrono_days_bounds as [-> ->].
    replace (days_of_civil y m 1 + (d - 1)) with (days_of_civil y m d)
      by (rewrite <- days_of_civil_day_linear; f_equal; ring).
    unfold serial_of_days, EXCEL_DATE_BASE in *.
    replace ((-95746129 <=? days_of_civil y m d) && (days_of_civil y m d <=? 95745399)) with true
      by (symmetry; apply andb_true_iff; split; apply Z.leb_le; lia).
    replace (in_serial_range (days_of_civil y m d - 693594)) with true
      by (symmetry; apply in_serial_range_spec; lia).
    cbn [negb]. rewrite Hs. reflexivity.
Qed.

(* what DATE computes when it returns a number: months are carried into the year by floor
   division, then days are added; every intermediate date must be supported *)
Theorem fn_date_spec y m d s : fn_date y m d = FNum s ->
  1 <= s <= 2958465 /\
  ((y = 1899 /\ m = 12 /\ d = 31 /\ s = 1) \/
   (1900 <= y <= 9999 /\
    s = serial_of_days (days_of_civil (y + (m - 1) / 12) ((m - 1) mod 12 + 1) 1 + (d - 1)))).
Proof.
  unfold fn_date. intros H.
  destruct (y <? 0) eqn:E0; [discriminate|].
  destruct ((y =? 1899) && (m =? 12) && (d =? 31)) eqn:Esp.
  - inversion H. apply andb_true_iff in Esp as [Esp E3]. apply andb_true_iff in Esp as [E1 E2].
    apply Z.eqb_eq in E1, E2, E3. unfold MINIMUM_DATE_SERIAL_NUMBER. split; [lia|]. left. auto.
  - destruct (chrono_year_ok y) eqn:Ecy; [|discriminate]. cbn [negb] in H.
    destruct (in_serial_range (serial_of_days (days_of_civil y 1 1))) eqn:R1; [|discriminate].
    cbn [negb] in H. unfold add_months_jan1 in H.
    replace ((y * 12 + (m - 1)) / 12) with (y + (m - 1) / 12) in H by dlia.
    replace ((y * 12 + (m - 1)) mod 12) with ((m - 1) mod 12) in H by dlia.
    destruct (chrono_year_ok (y + (m - 1) / 12)); [|discriminate].
    destruct (in_serial_range (serial_of_days (days_of_civil (y + (m - 1) / 12) ((m - 1) mod 12 + 1) 1)));
      [|discriminate]. cbn [negb] in H.
    unfold add_days in H.
    destruct ((CHRONO_MIN_DAYS <=? days_of_civil (y + (m - 1) / 12) ((m - 1) mod 12 + 1) 1 + (d - 1)) &&
              (days_of_civil (y + (m - 1) / 12) ((m - 1) mod 12 + 1) 1 + (d - 1) <=? CHRONO_MAX_DAYS));
      [|discriminate].
    destruct (in_serial_range (serial_of_days (days_of_civil (y + (m - 1) / 12) ((m - 1) mod 12 + 1) 1 + (d - 1))))
      eqn:R3; [|discriminate].
    cbn [negb] in H. inversion H as [Hs]. apply in_serial_range_spec in R3. split; [exact R3|].
    right. split; [|reflexivity].
    apply in_serial_range_spec in R1.
    assert (V1 : valid_date y 1 1) by (split; [lia|]; pose proof (days_in_month_bounds y 1); lia).
    apply (supported_date_serial y 1 1 V1) in R1. destruct R1 as [_ [(Hy & Hm1 & _) | Hy]]; [lia | exact Hy].
Qed.

(* DATE never aborts: for ALL integer arguments it returns a serial of the supported range or
   the out-of-range error (chrono's checked additions; None becomes #NUM!) *)
Lemma fn_date_cases y m d : fn_date y m d = FErrNum \/ exists s, fn_date y m d = FNum s.
Proof.
  unfold fn_date.
  destruct (y <? 0); [left; reflexivity|].
  destruct ((y =? 1899) && (m =? 12) && (d =? 31)); [right; eexists; reflexivity|].
  destruct (negb (chrono_year_ok y)); [left; reflexivity|].
  destruct (negb (in_serial_range (serial_of_days (days_of_civil y 1 1)))); [left; reflexivity|].
  destruct (add_months_jan1 y (m - 1)) as [[y2 m2]|]; [|left; reflexivity].
  destruct (negb (in_serial_range (serial_of_days (days_of_civil y2 m2 1)))); [left; reflexivity|].
  destruct (add_days (days_of_civil y2 m2 1) (d - 1)) as [rd3|]; [|left; reflexivity].
  destruct (negb (in_serial_range (serial_of_days rd3))); [left; reflexivity|].
  right; eexists; reflexivity.
Qed.

Theorem fn_date_total y m d :
  (exists s, fn_date y m d = FNum s /\ 1 <= s <= 2958465) \/ fn_date y m d = FErrNum.
Proof.
  destruct (fn_date_cases y m d) as [E | [s E]]; [right; exact E|].
  left. exists s. split; [exact E|]. exact (proj1 (fn_date_spec y m d s E)).
Qed.

Corollary fn_date_never_panics y m d : fn_date y m d <> FPanic /\ fn_date y m d <> FErrValue.
Proof.
  destruct (fn_date_cases y m d) as [E | [s E]]; rewrite E; split; discriminate.
Qed.

(* the arguments on which the code used to abort (before commit 4f81daf) are plain errors *)
Theorem fn_date_astronomic :
  fn_date 2000 4000000 1 = FErrNum /\ fn_date 2000 1 100000000 = FErrNum /\
  fn_date 1900 (-4000000) 1 = FErrNum /\ fn_date 9999 12 (-100000000) = FErrNum /\
  fn_date 2000 (-2147483648) 1 = FErrNum /\ fn_date 2000 1 (-2147483648) = FErrNum.
Proof. vm_compute. repeat split; reflexivity. Qed.

(* ---- the "yyyy-mm-dd" text and the typed ISO date --------------------------------------------------- *)

Lemma dec_fuel_4digits f n : 1000 <= n <= 9999 -> (4 <= f)%nat ->
  dec_fuel f n = [48 + n / 1000; 48 + (n / 100) mod 10; 48 + (n / 10) mod 10; 48 + n mod 10].
Proof.
  intros Hn Hf. do 4 (destruct f as [|f]; [lia|]). cbn [dec_fuel].
  replace (n <? 10) with false by (symmetry; apply Z.ltb_ge; lia).
  replace (n / 10 <? 10) with false by (symmetry; apply Z.ltb_ge; dlia).
  replace (n / 10 / 10 <? 10) with false by (symmetry; apply Z.ltb_ge; dlia).
  replace (n / 10 / 10 / 10 <? 10) with true by (symmetry; apply Z.ltb_lt; dlia).
  cbn [app].
  replace (n / 10 / 10 / 10) with (n / 1000) by dlia.
  replace (n / 10 / 10) with (n / 100) by dlia. reflexivity.
Qed.

Lemma dec_of_Z_4digits n : 1000 <= n <= 9999 ->
  dec_of_Z n = [48 + n / 1000; 48 + (n / 100) mod 10; 48 + (n / 10) mod 10; 48 + n mod 10].
Proof.
  intros Hn. unfold dec_of_Z. replace (n <? 0) with false by (symmetry; apply Z.ltb_ge; lia).
  unfold dec_of_nonneg. apply dec_fuel_4digits; [exact Hn|].
  assert (9 <= Z.log2 n) by (apply Z.log2_le_pow2; lia). lia.
Qed.

Lemma pad2_2digits v : 0 <= v <= 99 -> pad2 v = [48 + v / 10; 48 + v mod 10].
Proof.
  intros Hv. unfold pad2, dec_of_Z. replace (v <? 0) with false by (symmetry; apply Z.ltb_ge; lia).
  unfold dec_of_nonneg.
  destruct (v <? 10) eqn:E; [apply Z.ltb_lt in E | apply Z.ltb_ge in E].
  - cbn [dec_fuel]. replace (v <? 10) with true by (symmetry; apply Z.ltb_lt; lia).
    replace (v / 10) with 0 by dlia. replace (v mod 10) with v by dlia.
    replace (48 + 0) with 48 by ring. reflexivity.
  - assert (3 <= Z.log2 v) by (apply Z.log2_le_pow2; lia).
    destruct (Z.to_nat (Z.log2 v)) as [|[|k]] eqn:Ek; try lia.
    cbn [dec_fuel]. replace (v <? 10) with false by (symmetry; apply Z.ltb_ge; lia).
    replace (v / 10 <? 10) with true by (symmetry; apply Z.ltb_lt; dlia).
    reflexivity.
Qed.

Lemma digit_not_sep q : 0 <= q <= 9 -> (48 + q =? 45) = false.
Proof. intros H. apply Z.eqb_neq. lia. Qed.

Lemma is_digit_48 q : 0 <= q <= 9 -> is_digit (48 + q) = true.
Proof. intros H. unfold is_digit. apply andb_true_iff; split; apply Z.leb_le; lia. Qed.

(* print a supported date as yyyy-mm-dd, read it back as a typed ISO date: the same serial *)
Theorem parse_iso_text y m d : 1000 <= y <= 9999 -> 0 <= m <= 99 -> 0 <= d <= 99 ->
  parse_iso (iso_text (y, m, d)) = to_serial y m d.
Proof.
  intros Hy Hm Hd. unfold iso_text, parse_iso.
  rewrite (dec_of_Z_4digits y Hy), (pad2_2digits m Hm), (pad2_2digits d Hd).
  cbn [app split_on].
  assert (Q1 : 0 <= y / 1000 <= 9) by dlia. assert (Q2 : 0 <= (y / 100) mod 10 <= 9) by dlia.
  assert (Q3 : 0 <= (y / 10) mod 10 <= 9) by dlia. assert (Q4 : 0 <= y mod 10 <= 9) by dlia.
  assert (Q5 : 0 <= m / 10 <= 9) by dlia. assert (Q6 : 0 <= m mod 10 <= 9) by dlia.
  assert (Q7 : 0 <= d / 10 <= 9) by dlia. assert (Q8 : 0 <= d mod 10 <= 9) by dlia.
  rewrite !digit_not_sep by assumption. cbn [Z.eqb Pos.eqb rev app].
  unfold parse_2digits, parse_year4, all_digits. cbn [length Nat.leb Nat.eqb forallb andb dec_val].
  rewrite !is_digit_48 by assumption. cbn [andb].
  replace (((0 * 10 + (48 + y / 1000 - 48)) * 10 + (48 + (y / 100) mod 10 - 48)) * 10 +
           (48 + (y / 10) mod 10 - 48)) with (y / 10) by dlia.
  replace (y / 10 * 10 + (48 + y mod 10 - 48)) with y by dlia.
  replace ((0 * 10 + (48 + m / 10 - 48)) * 10 + (48 + m mod 10 - 48)) with m by dlia.
  replace ((0 * 10 + (48 + d / 10 - 48)) * 10 + (48 + d mod 10 - 48)) with d by dlia.
  replace (y <? 30) with false by (symmetry; apply Z.ltb_ge; lia).
  replace (y <? 100) with false by (symmetry; apply Z.ltb_ge; lia).
  reflexivity.
Qed.

Theorem fmt_parse_roundtrip n : 1 <= n <= 2958465 ->
  exists t, fmt_iso n = Ok t /\ parse_iso t = Ok n.
Proof.
  intros H. destruct (to_serial_of_serial n H) as (y & m & d & Ho & [Hv Hy] & Hts).
  exists (iso_text (y, m, d)). unfold fmt_iso. rewrite Ho. split; [reflexivity|].
  destruct Hv as [Hm Hd]. pose proof (days_in_month_bounds y m).
  rewrite parse_iso_text by (try lia; destruct Hy as [(-> & _) | Hy]; lia). exact Hts.
Qed.
