(* Num/FormatNum.v — the string-level part of the float stage of format_number
   (format.rs:18-41 get_fract_part, :463-468): from the strings the float primitives print
   ([format!("{}", int_number)], [format!("{:.p}", value.fract())]) to the digit vectors of the walk.
   The float primitives themselves (to_precision, log10, powf, round, floor, {:.p}) are NOT
   modelled: their printed results are inputs.  No proofs in this file. *)
From IronCalc Require Import Base.Prelude Num.FormatPlace.

(* for i in 0..l { if b[l - i] != '0' { last_non_zero = l - i + 1; break; } }, started at i with n
   iterations left; the initial value of last_non_zero is l *)
Fixpoint scan_back (b : text) (l : Z) (n : nat) (i : Z) : outcome Z :=
  match n with
  | O => Ok l
  | S n' =>
      match get b (l - i) with
      | Ok c => if c =? 48 then scan_back b l n' (i + 1) else Ok (l - i + 1)
      | _ => Panic
      end
  end.

(* b[from..to] *)
Definition slice (b : text) (from to : Z) : outcome text :=
  if (0 <=? from) && (from <=? to) && (to <=? zlen b)
  then Ok (firstn (Z.to_nat (to - from)) (skipn (Z.to_nat from) b))
  else Panic.

(* format.rs:18; b = format!("{:.p}", value.fract()) as characters *)
Definition get_fract_part (b : text) (int_len : Z) : outcome text :=
  if zlen b =? 0 then Panic                       (* b.len() - 1 on usize *)
  else
    let l := zlen b - 1 in
    match scan_back b l (Z.to_nat l) 0 with
    | Ok last_non_zero =>
        if last_non_zero <? 2 then Ok []
        else
          let max_len := if 15 <? int_len then 2 else 15 - int_len + 1 in
          slice b 2 (Z.min last_non_zero (max_len + 1))
    | _ => Panic
    end.

(* format.rs:463-468 and the walk: int_part is emptied when int_number as i64 == 0 *)
Definition format_text (p : part) (loc : locale) (neg : bool) (s_int : text) (int_is_zero : bool)
    (b : text) (ep : text) (eneg : bool) (raw : text) : outcome text :=
  let ip := if int_is_zero then [] else s_int in
  match get_fract_part b (zlen ip) with
  | Ok fp => place p loc (mkDigits neg ip fp ep eneg raw)
  | Err => Err
  | Panic => Panic
  end.

(* what get_fract_part computes, said directly: the decimals after "d." with trailing zeros removed,
   then cut to 15 - int_len digits (1 digit when the integer part has more than 15) *)
Fixpoint strip0 (ds : text) : text :=
  match ds with
  | [] => []
  | c :: r => match strip0 r with
              | [] => if c =? 48 then [] else [c]
              | r' => c :: r'
              end
  end.

Definition spec_fract (ds : text) (int_len : Z) : text :=
  firstn (Z.to_nat (if 15 <? int_len then 1 else 15 - int_len)) (strip0 ds).
