(* Num/Recognise.v — executable model of IronCalc's typed-number recogniser
   (base/src/formatter/format.rs: parse_number, parse_formatted_number, parse_date, parse_day,
   parse_month, parse_year) and of the dispatch in Model::set_user_input / formula_without_prefix /
   cast_number (base/src/model.rs, base/src/cast.rs) as far as it decides the KIND of cell.

   No float appears here: a recognised number is a DESCRIPTION (sign, integer digits, fraction
   digits, exponent text, the decimal literal handed to str::parse::<f64>, and which of the
   post-operations  sign * v,  f / 100.0,  -f  the branch applies). The final f64 is produced
   outside Coq from the literal by a correctly rounded decimal->binary64 conversion.
   Models only; the proofs are in RecogniseProofs.v. *)
From IronCalc Require Import Base.Prelude Base.Dec.

Definition len (t : text) : Z := Z.of_nat (length t).

(* ---------- characters ---------- *)
Definition c_plus : Z := 43.   Definition c_minus : Z := 45.  Definition c_dot : Z := 46.
Definition c_slash : Z := 47.  Definition c_pct : Z := 37.    Definition c_e : Z := 101.
Definition c_E : Z := 69.      Definition c_quote : Z := 39.  Definition c_eq : Z := 61.

(* char::is_whitespace (Unicode White_Space), the class str::trim removes *)
Definition is_ws (c : Z) : bool :=
  ((9 <=? c) && (c <=? 13)) || (c =? 32) || (c =? 133) || (c =? 160) || (c =? 5760) ||
  ((8192 <=? c) && (c <=? 8202)) || (c =? 8232) || (c =? 8233) || (c =? 8239) || (c =? 8287) ||
  (c =? 12288).

Fixpoint trim_start (t : text) : text :=
  match t with
  | [] => []
  | c :: r => if is_ws c then trim_start r else t
  end.
Definition trim_end (t : text) : text := rev (trim_start (rev t)).
Definition trim (t : text) : text := trim_end (trim_start t).

Fixpoint strip_prefix (p t : text) : option text :=
  match p with
  | [] => Some t
  | a :: p' => match t with
               | [] => None
               | b :: t' => if a =? b then strip_prefix p' t' else None
               end
  end.
Definition strip_suffix (p t : text) : option text :=
  match strip_prefix (rev p) (rev t) with
  | Some r => Some (rev r)
  | None => None
  end.

Fixpoint mem (c : Z) (t : text) : bool :=
  match t with [] => false | x :: r => (x =? c) || mem c r end.

(* str::len is the UTF-8 byte length *)
Definition utf8_len (c : Z) : Z := if c <? 128 then 1 else if c <? 2048 then 2 else if c <? 65536 then 3 else 4.
Fixpoint blen (t : text) : Z := match t with [] => 0 | c :: r => utf8_len c + blen r end.

(* ---------- scanning ---------- *)
Fixpoint scan_digits (s : text) : text * text :=
  match s with
  | [] => ([], [])
  | c :: r => if is_digit c then let '(d, rest) := scan_digits r in (c :: d, rest) else ([], s)
  end.

(* the loop "numbers before the decimal point": digits are collected, every group separator
   records how many digits were collected before it ([n] = chars.len() so far) *)
Fixpoint scan_int (grp : Z) (s : text) (n : Z) : text * list Z * text :=
  match s with
  | [] => ([], [], [])
  | c :: r =>
      if is_digit c then let '(d, i, rest) := scan_int grp r (n + 1) in (c :: d, i, rest)
      else if c =? grp then let '(d, i, rest) := scan_int grp r n in (d, n :: i, rest)
      else ([], [], s)
  end.

(* ---------- the syntax accepted by <f64 as FromStr> (core::num::dec2flt) ---------- *)
Definition lower_ascii (c : Z) : Z := if is_upper c then c + 32 else c.
Definition is_infnan (s : text) : bool :=
  let l := map lower_ascii s in
  text_eqb l [110; 97; 110] || text_eqb l [105; 110; 102] ||
  text_eqb l [105; 110; 102; 105; 110; 105; 116; 121].

Definition f64_syntax (s : text) : bool :=
  let s1 := match s with
            | c :: r => if (c =? c_minus) || (c =? c_plus) then r else s
            | [] => []
            end in
  match s1 with
  | [] => false
  | _ :: _ =>
      let '(i, r1) := scan_digits s1 in
      let '(f, r2) := match r1 with
                      | c :: r => if c =? c_dot then scan_digits r else ([], r1)
                      | [] => ([], r1)
                      end in
      match i ++ f with
      | [] => is_infnan s1
      | _ :: _ =>
          match r2 with
          | [] => true
          | c :: r =>
              if (c =? c_e) || (c =? c_E) then
                let r' := match r with
                          | x :: r'' => if (x =? c_minus) || (x =? c_plus) then r'' else r
                          | [] => r
                          end in
                let '(d, r3) := scan_digits r' in
                match d, r3 with
                | _ :: _, [] => true
                | _, _ => false
                end
              else false
          end
      end
  end.

(* ---------- does the decimal literal overflow binary64? ----------
   str::parse::<f64> is correctly rounded (round to nearest, ties to even): the result is infinite
   exactly when the denoted magnitude  m * 10^e  is >= 2^1024 - 2^970 (the midpoint between the
   largest finite double and 2^1024; the tie goes to the even mantissa, i.e. up).
   Exact integer comparison; the two shortcuts only keep 10^e small. *)
Definition lit_exp (ex : text) : Z :=
  match ex with
  | [] => 0
  | c :: r => if c =? c_minus then - dec_val 0 r else if c =? c_plus then dec_val 0 r else dec_val 0 ex
  end.
Definition f64_overflow_threshold : Z := 2 ^ 1024 - 2 ^ 970.
Definition dec_overflows (ints frac : text) (ex : Z) : bool :=
  let m := dec_val 0 (ints ++ frac) in
  let e := ex - len frac in
  let nd := len ints + len frac in
  if m =? 0 then false
  else if 400 <? e then true
  else if nd + e <=? 308 then false
  else if 0 <=? e then f64_overflow_threshold <=? m * 10 ^ e
  else f64_overflow_threshold * 10 ^ (- e) <=? m.

(* ---------- parse_number ---------- *)
Record pnum : Type := {
  p_neg : bool;          (* sign = -1.0 *)
  p_int : text;          (* digits before the decimal separator, separators removed *)
  p_seps : list Z;       (* group_separator_index *)
  p_dot : bool;          (* a decimal separator was consumed *)
  p_frac : text;         (* digits after it *)
  p_sci : bool;          (* is_scientific *)
  p_exp : text;          (* what was pushed after 'e': sign or first digit, then digits; [] = nothing pushed *)
  p_decdigits : Z;       (* decimal_digits = position - 0 *)
  p_lit : text           (* `chars`, the literal handed to str::parse::<f64> *)
}.

Definition groups_ok (ints : text) (idxs : list Z) : bool :=
  forallb (fun i => (len ints - i) mod 3 =? 0) idxs.

Definition parse_number (dec grp : Z) (value : text) : option pnum :=
  match value with
  | [] => None
  | c0 :: r0 =>
      let '(neg, s1) := if c0 =? c_minus then (true, r0)
                        else if c0 =? c_plus then (false, r0) else (false, value) in
      match s1 with
      | [] => None
      | c1 :: _ =>
          if c1 =? grp then None else
          let '(ints, idxs, s2) := scan_int grp s1 0 in
          if negb (groups_ok ints idxs) then None else
          let '(dot, frac, s3) :=
            match s2 with
            | c :: r => if c =? dec then let '(f, rest) := scan_digits r in (true, f, rest)
                        else (false, [], s2)
            | [] => (false, [], s2)
            end in
          let decdigits := if dot then len value - len s3 else 0 in
          let '(sci, ex, s4) :=
            match s3 with
            | c :: x :: r =>
                if (c =? c_e) || (c =? c_E) then
                  if (x =? c_minus) || (x =? c_plus) || is_digit x
                  then let '(d, rest) := scan_digits r in (true, x :: d, rest)
                  else (true, [], s3)
                else (false, [], s3)
            | _ => (false, [], s3)
            end in
          match s4 with
          | _ :: _ => None
          | [] =>
              let lit := ints ++ (if dot then c_dot :: frac else [])
                              ++ (match ex with [] => [] | _ :: _ => c_e :: ex end) in
              if f64_syntax lit && negb (dec_overflows ints frac (lit_exp ex)) then
                Some {| p_neg := neg; p_int := ints; p_seps := idxs; p_dot := dot; p_frac := frac;
                        p_sci := sci; p_exp := ex; p_decdigits := decdigits; p_lit := lit |}
              else None
          end
      end
  end.

Definition p_commas (p : pnum) : bool := match p_seps p with [] => false | _ :: _ => true end.

(* ---------- locale ---------- *)
Record locale : Type := {
  l_dec : Z;                    (* first char of symbols.decimal *)
  l_grp : Z;                    (* first char of symbols.group *)
  l_cur : list text;            (* "$", "€" and the locale's own symbol, in the order set_user_input builds it *)
  l_day_first : bool;           (* dates.date_formats.short.starts_with('d') *)
  l_months_short : list text;
  l_months : list text
}.

(* ---------- parse_date ---------- *)
Fixpoint split_on (sep : Z) (t : text) : list text :=
  match t with
  | [] => [[]]
  | c :: r =>
      if c =? sep then [] :: split_on sep r
      else match split_on sep r with
           | p :: ps => (c :: p) :: ps
           | [] => [[c]]
           end
  end.

(* u32::from_str / i32::from_str on short strings (no overflow possible below 5 bytes) *)
Definition parse_u32 (s : text) : option Z :=
  let d := match s with c :: r => if c =? c_plus then r else s | [] => [] end in
  match d with
  | [] => None
  | _ :: _ => if all_digits d then Some (dec_val 0 d) else None
  end.
Definition parse_i32 (s : text) : option Z :=
  match s with
  | [] => None
  | c :: r =>
      if c =? c_plus then match r with [] => None | _ :: _ => if all_digits r then Some (dec_val 0 r) else None end
      else if c =? c_minus then match r with [] => None | _ :: _ => if all_digits r then Some (- dec_val 0 r) else None end
      else if all_digits s then Some (dec_val 0 s) else None
  end.

Definition t_d : text := [100].        Definition t_dd : text := [100; 100].
Definition t_m : text := [109].        Definition t_mm : text := [109; 109].
Definition t_mmm : text := [109; 109; 109].  Definition t_mmmm : text := [109; 109; 109; 109].
Definition t_yy : text := [121; 121].  Definition t_yyyy : text := [121; 121; 121; 121].

Definition parse_day (s : text) : option (Z * text) :=
  if blen s <=? 2 then
    match parse_u32 s with
    | Some y => Some (y, if blen s =? 2 then t_dd else t_d)
    | None => None
    end
  else None.

Fixpoint position (s : text) (l : list text) (i : Z) : option Z :=
  match l with
  | [] => None
  | x :: r => if text_eqb x s then Some i else position s r (i + 1)
  end.

Definition parse_month (L : locale) (s : text) : option (Z * text) :=
  if blen s <=? 2 then
    match parse_u32 s with
    | Some y => Some (y, if blen s =? 2 then t_mm else t_m)
    | None => None
    end
  else
    match position s (l_months_short L) 0 with
    | Some m => Some (m + 1, t_mmm)
    | None => match position s (l_months L) 0 with
              | Some m => Some (m + 1, t_mmmm)
              | None => None
              end
    end.

Definition parse_year (s : text) : option (Z * text) :=
  if negb ((blen s =? 2) || (blen s =? 4)) then None else
  match parse_i32 s with
  | Some y => if y <? 30 then Some (2000 + y, t_yy)
              else if y <? 100 then Some (1900 + y, t_yy)
              else Some (y, t_yyyy)
  | None => None
  end.

(* chrono::NaiveDate::from_ymd_opt + num_days_from_ce - EXCEL_DATE_BASE, for the years reachable here *)
Definition leap (y : Z) : bool := ((y mod 4 =? 0) && negb (y mod 100 =? 0)) || (y mod 400 =? 0).
Definition month_len (y m : Z) : Z :=
  if m =? 2 then (if leap y then 29 else 28)
  else if (m =? 4) || (m =? 6) || (m =? 9) || (m =? 11) then 30 else 31.
Definition days_before_month (y m : Z) : Z :=
  nth (Z.to_nat (m - 1)) [0; 31; 59; 90; 120; 151; 181; 212; 243; 273; 304; 334] 0
  + (if (2 <? m) && leap y then 1 else 0).
Definition date_to_serial (d m y : Z) : option Z :=
  if (1 <=? m) && (m <=? 12) && (1 <=? d) && (d <=? month_len y m) then
    let y' := y - 1 in
    Some (365 * y' + y' / 4 - y' / 100 + y' / 400 + days_before_month y m + d - 693594)
  else None.

Definition date_sep (t : text) : option Z :=
  if mem c_slash t then Some c_slash
  else if mem c_minus t then Some c_minus
  else if mem c_dot t then Some c_dot
  else None.

Definition parse_date (L : locale) (value : text) : option (Z * text) :=
  match date_sep value with
  | None => None
  | Some sep =>
      match split_on sep value with
      | [p0; p1; p2] =>
          let iso := blen p0 =? 4 in
          if iso && negb (forallb is_digit p1 && forallb is_digit p2) then None else
          let '(ds, ms, ys) := if iso then (p2, p1, p0)
                               else if l_day_first L then (p0, p1, p2) else (p1, p0, p2) in
          match parse_day ds with
          | None => None
          | Some (day, df) =>
          match parse_month L ms with
          | None => None
          | Some (month, mf) =>
          match parse_year ys with
          | None => None
          | Some (year, yf) =>
          match date_to_serial day month year with
          | None => None
          | Some n =>
              if iso then Some (n, t_yyyy ++ sep :: mf ++ sep :: df)
              else if negb (l_day_first L) then Some (n, mf ++ sep :: df ++ sep :: yf)
              else Some (n, df ++ sep :: mf ++ sep :: yf)
          end end end end
      | _ => None
      end
  end.

(* ---------- parse_formatted_number ---------- *)
Inductive kind : Type :=
| KPlain | KGrouped | KScientific            (* the last branch: no format / #,##0 / 0.00E+00 *)
| KPercent
| KCurrency (sym : text) (prefix : bool)
| KDate.

(* how the returned f64 is computed from the literal *)
Inductive value : Type :=
| VNum (p : pnum) (pct : bool) (outer_neg : bool)   (* ((sign * parse(lit)) [/ 100.0]) [negated] *)
| VSerial (n : Z).                                  (* serial_number as f64 *)

Record recog : Type := { r_value : value; r_kind : kind; r_fmt : option text }.

Definition fmt_sci : text := [48; 46; 48; 48; 69; 43; 48; 48].                 (* 0.00E+00 *)
Definition fmt_g0 : text := [35; 44; 35; 35; 48].                              (* #,##0 *)
Definition fmt_g2 : text := [35; 44; 35; 35; 48; 46; 48; 48].                  (* #,##0.00 *)
Definition fmt_p0 : text := fmt_g0 ++ [37].
Definition fmt_p2 : text := fmt_g2 ++ [37].

(* one iteration of `for currency in currencies`: None = no branch matched, go on;
   Some None = a branch matched and parse_number failed (the `?` returns Err);
   Some (Some r) = recognised *)
Definition try_currency (dec grp : Z) (cur value : text) : option (option recog) :=
  match strip_prefix (c_minus :: cur) value with
  | Some p =>
      Some (match parse_number dec grp (trim p) with
            | None => None
            | Some n =>
                if p_sci n then Some {| r_value := VNum n false true; r_kind := KCurrency cur true; r_fmt := Some fmt_sci |}
                else if 0 <? p_decdigits n
                then Some {| r_value := VNum n false true; r_kind := KCurrency cur true; r_fmt := Some (cur ++ fmt_g2) |}
                else Some {| r_value := VNum n false true; r_kind := KCurrency cur true; r_fmt := Some (cur ++ fmt_g0) |}
            end)
  | None =>
  match strip_prefix cur value with
  | Some p =>
      Some (match parse_number dec grp (trim p) with
            | None => None
            | Some n =>
                if p_sci n then Some {| r_value := VNum n false false; r_kind := KCurrency cur true; r_fmt := Some fmt_sci |}
                else if 0 <? p_decdigits n
                then Some {| r_value := VNum n false false; r_kind := KCurrency cur true; r_fmt := Some (cur ++ fmt_g2) |}
                else Some {| r_value := VNum n false false; r_kind := KCurrency cur true; r_fmt := Some (cur ++ fmt_g0) |}
            end)
  | None =>
  match strip_suffix cur value with
  | Some p =>
      Some (match parse_number dec grp (trim p) with
            | None => None
            | Some n =>
                if p_sci n then Some {| r_value := VNum n false false; r_kind := KCurrency cur false; r_fmt := Some fmt_sci |}
                else if 0 <? p_decdigits n
                then Some {| r_value := VNum n false false; r_kind := KCurrency cur false; r_fmt := Some (fmt_g2 ++ cur) |}
                else Some {| r_value := VNum n false false; r_kind := KCurrency cur false; r_fmt := Some (fmt_g0 ++ cur) |}
            end)
  | None => None
  end end end.

Fixpoint try_currencies (dec grp : Z) (curs : list text) (value : text) : option (option recog) :=
  match curs with
  | [] => None
  | c :: r => match try_currency dec grp c value with
              | Some res => Some res
              | None => try_currencies dec grp r value
              end
  end.

Definition plain_result (n : pnum) : recog :=
  if p_sci n then {| r_value := VNum n false false; r_kind := KScientific; r_fmt := Some fmt_sci |}
  else if p_commas n then
    (if 0 <? p_decdigits n
     then {| r_value := VNum n false false; r_kind := KGrouped; r_fmt := Some fmt_g2 |}
     else {| r_value := VNum n false false; r_kind := KGrouped; r_fmt := Some fmt_g0 |})
  else {| r_value := VNum n false false; r_kind := KPlain; r_fmt := None |}.

Definition parse_formatted_number (L : locale) (original : text) : option recog :=
  let value := trim original in
  let dec := l_dec L in
  let grp := l_grp L in
  match strip_suffix [c_pct] value with
  | Some p =>
      match parse_number dec grp (trim p) with
      | None => None
      | Some n =>
          if p_sci n then Some {| r_value := VNum n true false; r_kind := KPercent; r_fmt := Some fmt_sci |}
          else if 0 <? p_decdigits n
          then Some {| r_value := VNum n true false; r_kind := KPercent; r_fmt := Some fmt_p2 |}
          else Some {| r_value := VNum n true false; r_kind := KPercent; r_fmt := Some fmt_p0 |}
      end
  | None =>
      match try_currencies dec grp (l_cur L) value with
      | Some res => res
      | None =>
          match parse_date L original with
          | Some (n, f) => Some {| r_value := VSerial n; r_kind := KDate; r_fmt := Some f |}
          | None =>
              match parse_number dec grp value with
              | None => None
              | Some n => Some (plain_result n)
              end
          end
      end
  end.

(* ---------- the dispatch of Model::set_user_input ---------- *)
(* cast_number: s.trim().parse::<f64>() or parse_formatted_number *)
Definition cast_number_ok (L : locale) (s : text) : bool :=
  if f64_syntax (trim s) then true
  else match parse_formatted_number L s with Some _ => true | None => false end.

(* formula_without_prefix: Some body = the cell becomes a formula with that text *)
Definition formula_without_prefix (L : locale) (v : text) : option text :=
  match v with
  | [] => None
  | c :: r =>
      if c =? c_eq then (match r with [] => None | _ :: _ => Some r end)
      else if (c =? c_plus) || (c =? c_minus) then
        match r with
        | [] => None
        | _ :: _ => if cast_number_ok L r then None else Some v
        end
      else None
  end.

(* ---------- booleans, error names, the whole dispatch ---------- *)
Record language : Type := {
  g_true : text; g_false : text;
  g_errors : list text   (* in the order get_error_by_name tests them:
                            ref name value div na num error nimpl spill calc circ null *)
}.

(* value.to_lowercase().parse::<bool>(): only ASCII letters can produce "true"/"false" *)
Definition parse_bool (v : text) : option bool :=
  let l := map lower_ascii v in
  if text_eqb l [116; 114; 117; 101] then Some true
  else if text_eqb l [102; 97; 108; 115; 101] then Some false else None.

(* str::to_uppercase on ASCII, Latin-1 and the two non-Latin-1 characters that map to ASCII *)
Definition upper_char (c : Z) : text :=
  if is_lower c then [c - 32]
  else if c =? 223 then [83; 83]
  else if c =? 181 then [924]
  else if c =? 255 then [376]
  else if (224 <=? c) && (c <=? 254) && negb (c =? 247) then [c - 32]
  else if c =? 305 then [73]
  else if c =? 383 then [83]
  else [c].
Definition to_upper (t : text) : text := flat_map upper_char t.

Inductive input_class : Type :=
| IEmpty
| IQuoted (s : text)          (* text cell with the quote-prefix style *)
| IFormula (body : text)
| INumber (r : recog)
| IBool (b : bool)
| IError (i : Z)
| IText (s : text).

Definition user_input (L : locale) (G : language) (v : text) : input_class :=
  match v with
  | [] => IEmpty
  | c :: r =>
      if c =? c_quote then IQuoted r else
      match formula_without_prefix L v with
      | Some body => IFormula body
      | None =>
          match parse_formatted_number L v with
          | Some res => INumber res
          | None =>
              match parse_bool v with
              | Some b => IBool b
              | None =>
                  match position (to_upper v) (g_errors G) 0 with
                  | Some i => IError i
                  | None => IText v
                  end
              end
          end
      end
  end.
