(* Codec/XmlEscape.v — the string-escaping codec of the xlsx writer and reader (part of C24).

   Mirrors (as the code is):
   * xlsx/src/export/escape.rs  escape_xml: one left-to-right pass; a control character
     (0x00-0x08, 0x0B, 0x0C, 0x0E-0x1F) becomes `_xHHHH_` (upper-case hex); a literal '_' that
     STARTS an `_xHHHH_` look-alike (7 bytes: '_' 'x' 4 hex digits '_') becomes `_x005F_`;
     the five characters lt, gt, double quote, apostrophe and ampersand become the five entities, LF and CR become &#xA; and &#xD;     -> [escape]
   * what an XML parser (roxmltree) does to text content: entity and character references
     are resolved, a literal CR LF or CR becomes LF, '<' and characters outside the XML 1.0
     Char production are errors                                                      -> [xml_unescape]
   * xlsx/src/import/shared_strings.rs  decode_xlsx_escapes: left to right; at byte i, if
     bytes[i]='_', bytes[i+1]='x', bytes[i+6]='_', the four bytes between are ASCII hex digits and
     char::from_u32 of their value succeeds (it fails exactly on surrogates D800-DFFF), emit that
     character and skip 7 bytes; otherwise emit the character at i                   -> [decode]

   Code points vs bytes. The Rust code indexes BYTES of the UTF-8 encoding (`&s[i+2..i+6]`,
   `bytes[i+6]`); the model works on code points. The two agree because (1) the scan position i is
   always a character boundary (it advances by len_utf8 or by 7 ASCII bytes); (2) bytes[i], [i+1],
   [i+6] are compared with ASCII values, and an ASCII byte is never part of a multi-byte sequence,
   so when the three tests succeed i+2 and i+6 are boundaries and the slice cannot panic; (3) the
   window matches only if its four bytes are ASCII hex digits, i.e. four one-byte characters: the
   byte pattern matches iff the seven CHARACTERS at i are `_ x h h h h _`. With a multi-byte
   character inside the window the byte test may look at a later character than the code-point
   test does, but then both fail (a non-hex byte / fewer than four characters), and both emit the
   character at i. The same holds for starts_xlsx_escape_pattern. The harness exercises exactly
   these windows with 2-, 3- and 4-byte characters. No proofs in this file. *)
From IronCalc Require Import Base.Prelude.

Definition is_hex (c : Z) : bool :=
  is_digit c || ((65 <=? c) && (c <=? 70)) || ((97 <=? c) && (c <=? 102)).
Definition hex_val (c : Z) : Z :=
  if is_digit c then c - 48 else if (65 <=? c) && (c <=? 70) then c - 55 else c - 87.
(* format! with {:04X} of a value below 0x10000 *)
Definition hex_digit (n : Z) : Z := if n <? 10 then 48 + n else 55 + n.
Definition hex4 (n : Z) : text :=
  [hex_digit ((n / 4096) mod 16); hex_digit ((n / 256) mod 16); hex_digit ((n / 16) mod 16); hex_digit (n mod 16)].
Definition code4 (h1 h2 h3 h4 : Z) : Z := hex_val h1 * 4096 + hex_val h2 * 256 + hex_val h3 * 16 + hex_val h4.
Definition is_surrogate (n : Z) : bool := (55296 <=? n) && (n <=? 57343).

Definition needs_xlsx_escape (c : Z) : bool :=
  ((0 <=? c) && (c <=? 8)) || (c =? 11) || (c =? 12) || ((14 <=? c) && (c <=? 31)).

(* starts_xlsx_escape_pattern on the text from the current character on *)
Definition starts_pattern (s : text) : bool :=
  match s with
  | a :: b :: h1 :: h2 :: h3 :: h4 :: u :: _ =>
      (a =? 95) && (b =? 120) && (u =? 95) && is_hex h1 && is_hex h2 && is_hex h3 && is_hex h4
  | _ => false
  end.

Definition t_lt : text := [38; 108; 116; 59].              (* &lt; *)
Definition t_gt : text := [38; 103; 116; 59].              (* &gt; *)
Definition t_quot : text := [38; 113; 117; 111; 116; 59].  (* &quot; *)
Definition t_apos : text := [38; 97; 112; 111; 115; 59].   (* &apos; *)
Definition t_amp : text := [38; 97; 109; 112; 59].         (* &amp; *)
Definition t_lf : text := [38; 35; 120; 65; 59].           (* &#xA; *)
Definition t_cr : text := [38; 35; 120; 68; 59].           (* &#xD; *)
Definition t_5f : text := [95; 120; 48; 48; 53; 70; 95].   (* _x005F_ *)

Definition escape_char (c : Z) : text :=
  if c =? 60 then t_lt else if c =? 62 then t_gt else if c =? 34 then t_quot
  else if c =? 39 then t_apos else if c =? 38 then t_amp
  else if c =? 10 then t_lf else if c =? 13 then t_cr else [c].

Definition ctrl_chunk (c : Z) : text := 95 :: 120 :: hex4 c ++ [95].

(* escape_xml *)
Fixpoint escape (s : text) : text :=
  match s with
  | [] => []
  | c :: r =>
      (if needs_xlsx_escape c then ctrl_chunk c
       else if (c =? 95) && starts_pattern s then t_5f
       else escape_char c) ++ escape r
  end.

(* the `_xHHHH_` layer alone (what is left of [escape s] once the XML parser has resolved the
   entities) *)
Fixpoint xesc (s : text) : text :=
  match s with
  | [] => []
  | c :: r =>
      (if needs_xlsx_escape c then ctrl_chunk c
       else if (c =? 95) && starts_pattern s then t_5f
       else [c]) ++ xesc r
  end.

(* decode_xlsx_escapes *)
Fixpoint decode (s : text) : text :=
  match s with
  | [] => []
  | c :: r =>
      match r with
      | b :: h1 :: h2 :: h3 :: h4 :: u :: rest =>
          if (c =? 95) && (b =? 120) && (u =? 95) && is_hex h1 && is_hex h2 && is_hex h3 && is_hex h4
             && negb (is_surrogate (code4 h1 h2 h3 h4))
          then code4 h1 h2 h3 h4 :: decode rest
          else c :: decode r
      | _ => c :: decode r
      end
  end.

(* ---------- the XML parser on text content ---------- *)
(* XML 1.0 production Char *)
Definition xml_char_ok (c : Z) : bool :=
  (c =? 9) || (c =? 10) || (c =? 13) || ((32 <=? c) && (c <=? 55295))
  || ((57344 <=? c) && (c <=? 65533)) || ((65536 <=? c) && (c <=? 1114111)).

Fixpoint hex_num (acc : Z) (s : text) : option Z :=
  match s with
  | [] => Some acc
  | c :: r => if is_hex c then hex_num (acc * 16 + hex_val c) r else None
  end.
Fixpoint dec_num (acc : Z) (s : text) : option Z :=
  match s with
  | [] => Some acc
  | c :: r => if is_digit c then dec_num (acc * 10 + (c - 48)) r else None
  end.

(* roxmltree, consume_reference: the number must fit u32; char::from_u32(n).unwrap_or(U+FFFD);
   the character must then be an XML character *)
Definition char_ref (n : Z) : option Z :=
  if 4294967295 <? n then None
  else let c := if is_surrogate n || (1114111 <? n) then 65533 else n in
       if xml_char_ok c then Some c else None.

(* the text between '&' and ';' *)
Definition resolve_ref (name : text) : option Z :=
  if text_eqb name [108; 116] then Some 60
  else if text_eqb name [103; 116] then Some 62
  else if text_eqb name [97; 109; 112] then Some 38
  else if text_eqb name [113; 117; 111; 116] then Some 34
  else if text_eqb name [97; 112; 111; 115] then Some 39
  else match name with
       | h :: x :: d :: ds =>
           if (h =? 35) && (x =? 120) then
             match hex_num 0 (d :: ds) with Some n => char_ref n | None => None end
           else if h =? 35 then
             match dec_num 0 (x :: d :: ds) with Some n => char_ref n | None => None end
           else None
       | h :: d :: ds =>
           if h =? 35 then
             match dec_num 0 (d :: ds) with Some n => char_ref n | None => None end
           else None
       | _ => None
       end.

Definition ocons (c : Z) (o : outcome text) : outcome text :=
  match o with Ok t => Ok (c :: t) | Err => Err | Panic => Panic end.

(* st = None: in character data; st = Some acc: inside a reference, acc = its characters so far,
   reversed. Err = the parser rejects the document. *)
Fixpoint xun (st : option text) (s : text) : outcome text :=
  match s with
  | [] => match st with None => Ok [] | Some _ => Err end
  | c :: r =>
      match st with
      | Some acc =>
          if c =? 59 then
            match resolve_ref (rev acc) with Some ch => ocons ch (xun None r) | None => Err end
          else xun (Some (c :: acc)) r
      | None =>
          if c =? 38 then xun (Some []) r
          else if c =? 60 then Err
          else if c =? 13 then
            match r with
            | d :: r' => if d =? 10 then ocons 10 (xun None r') else ocons 10 (xun None r)
            | [] => Ok [10]
            end
          else if xml_char_ok c then ocons c (xun None r)
          else Err
      end
  end.
Definition xml_unescape (s : text) : outcome text := xun None s.

(* the writer followed by the reader, on one string *)
Definition roundtrip (s : text) : outcome text :=
  match xml_unescape (escape s) with Ok t => Ok (decode t) | Err => Err | Panic => Panic end.

(* ---------- the class the round trip fails on ---------- *)
(* a literal `_xHHHH` (HHHH not a surrogate) immediately followed by a control character: the
   control character is written as `_x00NN_`, whose leading '_' completes the look-alike *)
Fixpoint collides (s : text) : bool :=
  match s with
  | [] => false
  | c :: r =>
      match r with
      | b :: h1 :: h2 :: h3 :: h4 :: d :: _ =>
          ((c =? 95) && (b =? 120) && is_hex h1 && is_hex h2 && is_hex h3 && is_hex h4
           && negb (is_surrogate (code4 h1 h2 h3 h4)) && needs_xlsx_escape d) || collides r
      | _ => collides r
      end
  end.

(* characters the writer can put into an XML document: those it escapes, and XML's Char *)
Definition text_char_ok (c : Z) : bool := needs_xlsx_escape c || xml_char_ok c.
